// Package emb holds the exact embeddings of the specification's worlds into
// real S2 values and the projection (abstraction) functions back.
package emb

import (
	"math"
	"math/bits"

	"github.com/golang/geo/r3"
	"github.com/golang/geo/s2"
)

// P3 is a lattice point of world W1.
type P3 [3]int

// Dyadic embeds p as p * 2^-k: every coordinate is an exact float64.
func Dyadic(p P3, k int) s2.Point {
	s := math.Ldexp(1, -k)
	return s2.Point{Vector: r3.Vector{X: float64(p[0]) * s, Y: float64(p[1]) * s, Z: float64(p[2]) * s}}
}

// ColScaled embeds p with an independent power-of-two scale per column.
func ColScaled(p P3, e [3]int) s2.Point {
	return s2.Point{Vector: r3.Vector{
		X: math.Ldexp(float64(p[0]), e[0]),
		Y: math.Ldexp(float64(p[1]), e[1]),
		Z: math.Ldexp(float64(p[2]), e[2])}}
}

// Unit embeds p as the normalised vector p/|p|.
func Unit(p P3) s2.Point {
	return s2.Point{Vector: r3.Vector{X: float64(p[0]), Y: float64(p[1]), Z: float64(p[2])}.Normalize()}
}

// Cell is a cell of world W3: face and child positions.
type Cell struct {
	F int   `json:"f"`
	P []int `json:"p"`
}

// ID returns the real cell id of c under the top embedding, by plain bit
// arithmetic on the documented id layout (independent of the code under test).
func (c Cell) ID() s2.CellID {
	return RawID(c.F, c.P)
}

// RawID builds face<<61 | path bits | lsb.
func RawID(face int, path []int) s2.CellID {
	id := uint64(face) << 61
	for l, k := range path {
		id |= uint64(k) << uint(61-2*(l+1))
	}
	id |= uint64(1) << uint(2*(30-len(path)))
	return s2.CellID(id)
}

// RawLevel is the level of id from its trailing zero bits.
func RawLevel(id s2.CellID) int {
	return 30 - bits.TrailingZeros64(uint64(id))/2
}

// RawPath returns the child positions of id.
func RawPath(id s2.CellID) []int {
	n := RawLevel(id)
	p := make([]int, 0, n)
	for l := 1; l <= n; l++ {
		p = append(p, int(uint64(id)>>uint(61-2*l))&3)
	}
	return p
}

// Under returns the real id of the model cell whose path is interpreted below anchor
// (deep embedding): the model's face-level cell is the anchor.
func Under(anchor s2.CellID, path []int) s2.CellID {
	full := append(RawPath(anchor), path...)
	return RawID(int(uint64(anchor)>>61), full)
}

// CellOf projects a real cell id to the model form.
func CellOf(id s2.CellID) Cell {
	return Cell{F: int(uint64(id) >> 61), P: RawPath(id)}
}

// PathBelow projects id to the path below anchor (id must be a descendant of anchor).
func PathBelow(anchor, id s2.CellID) []int {
	return RawPath(id)[RawLevel(anchor):]
}

// Key is an order-preserving image of a float64 split into three limbs that
// fit TLC's 32-bit integers (22, 21, 21 bits).
type Key [3]int

// FloatKey maps f to its key.  -0 is normalised to +0; NaN maps to {-1,-1,-1}.
func FloatKey(f float64) Key {
	if f != f {
		return Key{-1, -1, -1}
	}
	if f == 0 {
		f = 0
	}
	b := math.Float64bits(f)
	if b>>63 != 0 {
		b = ^b
	} else {
		b |= 1 << 63
	}
	return Key{int(b >> 42), int((b >> 21) & (1<<21 - 1)), int(b & (1<<21 - 1))}
}

var posToIJ = [4][4]int{{0, 1, 3, 2}, {0, 2, 3, 1}, {3, 2, 0, 1}, {3, 1, 0, 2}}
var posToOrientation = [4]int{1, 0, 0, 3}

// IJ decodes (i,j,orientation) of a cell from S2's defining tables, level by
// level (independent of the library's lookup tables).  i,j are in units of the
// cell's own level.
func IJ(id s2.CellID) (i, j, o int) {
	o = int(uint64(id)>>61) & 1
	for _, pos := range RawPath(id) {
		ij := posToIJ[o][pos]
		i = i<<1 | ij>>1
		j = j<<1 | ij&1
		o ^= posToOrientation[pos]
	}
	return
}

// FromFaceIJ is the inverse of IJ.
func FromFaceIJ(face, level, i, j int) s2.CellID {
	o := face & 1
	path := make([]int, 0, level)
	for l := 1; l <= level; l++ {
		bi := (i >> uint(level-l)) & 1
		bj := (j >> uint(level-l)) & 1
		ij := bi<<1 | bj
		pos := 0
		for p := 0; p < 4; p++ {
			if posToIJ[o][p] == ij {
				pos = p
			}
		}
		path = append(path, pos)
		o ^= posToOrientation[pos]
	}
	return RawID(face, path)
}
