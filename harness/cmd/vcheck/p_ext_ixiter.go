package main

// EXT (C06/C13): ShapeIndexIterator against spec/IndexIter.tla.
//
// A case is an index (a set of pairwise disjoint model cells, installed with the hook
// VerifIndexFromCells), a pre-state (position, defined or not) and a list of steps, each with the
// answer and the observable post-state the specification predicts.  Kind "trans" is one
// transition of the model's state graph: the pre-state is reached by every route the harness
// knows (Begin+Next^k, End+Prev^k, LocateCellID of the cell itself, LocatePoint of a point of
// it), so the answer may not depend on how the iterator got there.  Kind "walk" is a whole
// behaviour from a fresh iterator.

import (
	"encoding/json"
	"fmt"

	"github.com/golang/geo/s2"

	"verifharness/emb"
)

func init() {
	register("ext/ixiter/case", opExtIxIter)
}

type extIxStep struct {
	Op   string
	Arg  int
	Res  string
	Pos  int
	Post struct {
		Def, Done bool
		Cur       int
	}
}

type extIxRoute struct {
	name string
	run  func(it *s2.ShapeIndexIterator)
}

func extIxRel(r s2.CellRelation) string {
	switch r {
	case s2.Indexed:
		return "Indexed"
	case s2.Subdivided:
		return "Subdivided"
	case s2.Disjoint:
		return "Disjoint"
	}
	return fmt.Sprint(int(r))
}

func opExtIxIter(raw json.RawMessage, o *Out) {
	var c struct {
		Op, Kind string
		L, NF    int
		Cells    []int
		Pre      struct {
			Pos int
			Def bool
		}
		Steps  []extIxStep
		Anchor *emb.Cell
	}
	if err := json.Unmarshal(raw, &c); err != nil {
		panic(err)
	}
	w := extCellWorld{L: c.L, NF: c.NF, anchor: c.Anchor}
	ids := make([]s2.CellID, len(c.Cells))
	for i, x := range c.Cells {
		ids[i] = w.cellAt(x)
	}
	n := len(ids)
	// the hook sorts: hand the cells over in reverse order
	rev := make([]s2.CellID, n)
	for i, id := range ids {
		rev[n-1-i] = id
	}
	index := s2.VerifIndexFromCells(rev)

	var routes []extIxRoute
	switch {
	case c.Kind == "walk" || !c.Pre.Def:
		routes = []extIxRoute{{"fresh", func(it *s2.ShapeIndexIterator) {}}}
		if c.Kind == "trans" {
			// an undefined position: also the ones left behind by failed Locate calls - any position will do
			routes = append(routes,
				extIxRoute{"fresh-at-end", func(it *s2.ShapeIndexIterator) { it.End() }},
				extIxRoute{"fresh-at-begin", func(it *s2.ShapeIndexIterator) { it.Begin() }})
		}
	default:
		k := c.Pre.Pos // 1..n+1
		routes = append(routes,
			extIxRoute{"Begin+Next", func(it *s2.ShapeIndexIterator) {
				it.Begin()
				for j := 1; j < k; j++ {
					it.Next()
				}
			}},
			extIxRoute{"End+Prev", func(it *s2.ShapeIndexIterator) {
				it.End()
				for j := n + 1; j > k; j-- {
					it.Prev()
				}
			}})
		if k <= n {
			id := ids[k-1]
			routes = append(routes,
				extIxRoute{"LocateCellID(self)", func(it *s2.ShapeIndexIterator) { it.LocateCellID(id) }},
				extIxRoute{"LocatePoint(centre)", func(it *s2.ShapeIndexIterator) { it.LocatePoint(id.Point()) }},
				extIxRoute{"LocateCellID(first leaf)", func(it *s2.ShapeIndexIterator) { it.LocateCellID(id.RangeMin()) }},
				extIxRoute{"LocatePoint(last leaf)", func(it *s2.ShapeIndexIterator) { it.LocatePoint(id.RangeMax().Point()) }})
		}
	}

	class := "several-cells"
	switch n {
	case 0:
		class = "empty-index"
	case 1:
		class = "single-cell"
	}
	for _, rt := range routes {
		var it *s2.ShapeIndexIterator
		switch rt.name {
		case "fresh":
			it = s2.NewShapeIndexIterator(index)
		default:
			it = s2.NewShapeIndexIterator(index, s2.IteratorBegin)
		}
		rt.run(it)
		hist := "pre=" + rt.name
		for _, st := range c.Steps {
			var got string
			switch st.Op {
			case "Begin":
				it.Begin()
			case "End":
				it.End()
			case "Next":
				it.Next()
			case "Prev":
				got = fmt.Sprint(it.Prev())
			case "LocatePoint":
				leaf := w.leafAt(st.Arg)
				got = fmt.Sprint(it.LocatePoint(leaf.Point()))
			case "LocateCellID":
				got = extIxRel(it.LocateCellID(w.cellAt(st.Arg)))
			default:
				panic("unknown iterator op " + st.Op)
			}
			hist += fmt.Sprintf(" %s(%d)", st.Op, st.Arg)
			if got != st.Res {
				o.Fail("ext/ixiter/"+st.Op+"/answer/"+class, "index cells %v, %s: answered %q, the specification says %q", ids, hist, got, st.Res)
				return
			}
			if !st.Post.Def {
				continue // the position is documented as undefined
			}
			if it.Done() != st.Post.Done {
				o.Fail("ext/ixiter/"+st.Op+"/done/"+class, "index cells %v, %s: Done() = %v, the specification says %v (position %d of %d)", ids, hist, it.Done(), st.Post.Done, st.Pos, n)
				return
			}
			if st.Post.Done {
				if it.CellID() != s2.SentinelCellID {
					o.Fail("ext/ixiter/"+st.Op+"/cellid-at-end/"+class, "index cells %v, %s: CellID() = %v at the end, want the sentinel", ids, hist, it.CellID())
					return
				}
				if it.IndexCell() != nil {
					o.Fail("ext/ixiter/"+st.Op+"/indexcell-at-end/"+class, "index cells %v, %s: IndexCell() is not nil at the end", ids, hist)
					return
				}
				continue
			}
			want := w.cellAt(st.Post.Cur)
			if it.CellID() != want {
				o.Fail("ext/ixiter/"+st.Op+"/position/"+class, "index cells %v, %s: positioned at %v, the specification says %v (position %d)", ids, hist, it.CellID(), want, st.Pos)
				return
			}
			if it.IndexCell() == nil {
				o.Fail("ext/ixiter/"+st.Op+"/indexcell/"+class, "index cells %v, %s: IndexCell() is nil at %v", ids, hist, want)
				return
			}
			if it.Center() != want.Point() {
				o.Fail("ext/ixiter/"+st.Op+"/center/"+class, "index cells %v, %s: Center() is not the centre of %v", ids, hist, want)
				return
			}
		}
		o.Count("ixiter_route_" + rt.name)
	}
	o.Count("ixiter_" + c.Kind + "_" + class)
	o.nontrivial = n >= 2
	o.sample = map[string]any{"op": c.Op, "kind": c.Kind, "cells": fmt.Sprint(ids), "steps": len(c.Steps)}
}
