package main

// EXT: small data structures with a sequential meaning.
//
//   lexicon.seq / lexicon.idset   behaviours of spec/Lexicon.tla replayed on the real
//                                 sequenceLexicon / idSetLexicon: every reply and, after every call,
//                                 the whole content (size, sequence(id) for every id, the flat
//                                 values/begins layout) must equal the model's
//   windows.chain / windows.valid spec/Windows.tla: call sequences dilate / upsample on polyline-
//                                 alignment windows (exact strides where the documentation fixes
//                                 them, laws elsewhere) and isValid on arbitrary stride lists
//   paddedcell                    spec/PaddedCells.tla: private coordinates, ChildIJ, Entry/ExitVertex,
//                                 PaddedCellFromParentIJ against PaddedCellFromCellID field by field,
//                                 Middle() against the four padded children, ShrinkToFit on exact
//                                 uv bounds of descendants
//
// A behaviour is abandoned at its first disagreement (everything after it is a consequence), so
// one behaviour yields at most one violation.  Floats are compared directly with == : every
// compared pair is produced by the same expression tree on the same exact (dyadic) s/t inputs.

import (
	"encoding/binary"
	"encoding/json"
	"fmt"
	"hash/adler32"
	"math"
	"reflect"
	"strings"

	"github.com/golang/geo/r1"
	"github.com/golang/geo/r2"
	"github.com/golang/geo/s2"

	"verifharness/emb"
)

func init() {
	register("lexicon.seq", opExtLexSeq)
	register("lexicon.idset", opExtLexIDSet)
	register("windows.chain", opExtWindowChain)
	register("windows.valid", opExtWindowValid)
	register("paddedcell", opExtPaddedCell)
}

// ------------------------------------------------------------------ lexicon

type extLexStep struct {
	A  string
	X  []int32
	K  int32
	R  int64
	Rs []int32
	St [][]int32
}

type extLexCase struct {
	Op    string
	Fam   string
	Steps []extLexStep
}

func extI32Eq(a, b []int32) bool {
	if len(a) != len(b) {
		return false
	}
	for i := range a {
		if a[i] != b[i] {
			return false
		}
	}
	return true
}

func extLexName(steps []extLexStep, upto int) string {
	var sb strings.Builder
	for i := 0; i <= upto && i < len(steps); i++ {
		if i > 0 {
			sb.WriteString(";")
		}
		s := steps[i]
		switch s.A {
		case "Add", "AddSet":
			fmt.Fprintf(&sb, "%s(%v)", s.A, s.X)
		case "Sequence", "IDSet":
			fmt.Fprintf(&sb, "%s(%d)", s.A, s.K)
		default:
			sb.WriteString(s.A)
		}
	}
	return sb.String()
}

// extLexProject compares the content of the real sequence lexicon with the model content.
func extLexProject(lx *s2.VerifSeqLexicon, st [][]int32) (what, detail string) {
	if lx.Size() != len(st) {
		return "size", fmt.Sprintf("size() = %d, model holds %d sequences %v", lx.Size(), len(st), st)
	}
	var flat []int32
	begins := []uint32{0}
	for id, want := range st {
		if got := lx.Sequence(int32(id)); !extI32Eq(got, want) {
			return "sequence", fmt.Sprintf("sequence(%d) = %v, model %v (content %v)", id, got, want, st)
		}
		flat = append(flat, want...)
		begins = append(begins, uint32(len(flat)))
	}
	values, b := lx.Raw()
	if !extI32Eq(values, flat) || !reflect.DeepEqual(b, begins) {
		return "layout", fmt.Sprintf("values/begins = %v/%v, the content %v laid out in id order is %v/%v", values, b, st, flat, begins)
	}
	return "", ""
}

// extAddClass names the way an add reply differs from the model's.  before = model content before
// the call, x = the sequence added.
// A new sequence that receives the id of a stored one is classified by whether the two have the
// same 32-bit Adler checksum of their little-endian bytes (classification only: it separates
// "two sequences are identified because a 32-bit checksum is the only thing compared" from any
// other way of confusing sequences).
func extAddClass(got, want int64, before [][]int32, x []int32) string {
	n := int64(len(before))
	switch {
	case want == n && got >= 0 && got < n:
		if extAdler(before[got]) == extAdler(x) {
			return "new-sequence-got-existing-id/equal-adler32"
		}
		return "new-sequence-got-existing-id/distinct-adler32"
	case want < n:
		return "present-sequence-got-other-id"
	}
	return "new-sequence-got-bad-id"
}

func extAdler(s []int32) uint32 {
	a := adler32.New()
	binary.Write(a, binary.LittleEndian, s)
	return a.Sum32()
}

func extSorted(x []int32) []int32 {
	var out []int32
	for v := range extUnique(x) {
		out = append(out, v)
	}
	for i := range out {
		for j := i + 1; j < len(out); j++ {
			if out[j] < out[i] {
				out[i], out[j] = out[j], out[i]
			}
		}
	}
	return out
}

func opExtLexSeq(raw json.RawMessage, o *Out) {
	var c extLexCase
	if err := json.Unmarshal(raw, &c); err != nil {
		panic(err)
	}
	o.nontrivial = len(c.Steps) >= 2
	lx := s2.VerifNewSeqLexicon()
	var before [][]int32 // model content before the step
	for i, s := range c.Steps {
		hist := extLexName(c.Steps, i)
		failed := false
		n := len(before)
		switch s.A {
		case "Add":
			in := append([]int32{}, s.X...)
			got := int64(lx.Add(in))
			o.Count("lexicon_seq_adds")
			if !extI32Eq(in, s.X) {
				o.Fail("lexicon/seq/Add/argument-modified", "add(%v) changed its argument to %v [%s]", s.X, in, hist)
				failed = true
			} else if got != s.R {
				o.Fail("lexicon/seq/Add/"+extAddClass(got, s.R, before, s.X), "add(%v) = %d, model %d (content before the call: %v) [%s]", s.X, got, s.R, before, hist)
				failed = true
			}
		case "Clear":
			lx.Clear()
		case "Sequence":
			if got := lx.Sequence(s.K); !extI32Eq(got, s.Rs) {
				o.Fail("lexicon/seq/Sequence", "sequence(%d) = %v, model %v [%s]", s.K, got, s.Rs, hist)
				failed = true
			}
		case "Size":
			if got := int64(lx.Size()); got != s.R {
				o.Fail("lexicon/seq/Size", "size() = %d, model %d [%s]", got, s.R, hist)
				failed = true
			}
		default:
			panic("lexicon.seq: unknown action " + s.A)
		}
		if failed {
			break
		}
		if what, detail := extLexProject(lx, s.St); what != "" {
			o.Fail("lexicon/seq/state/"+what+"/after-"+s.A, "%s [%s]", detail, hist)
			break
		}
		_ = n
		before = s.St
	}
	o.sample = map[string]any{"op": c.Op, "family": c.Fam, "history": extLexName(c.Steps, len(c.Steps))}
}

func extUnique(x []int32) map[int32]bool {
	m := map[int32]bool{}
	for _, v := range x {
		m[v] = true
	}
	return m
}

func opExtLexIDSet(raw json.RawMessage, o *Out) {
	var c extLexCase
	if err := json.Unmarshal(raw, &c); err != nil {
		panic(err)
	}
	if s2.VerifEmptySetID() != math.MinInt32 {
		o.Fail("lexicon/idset/emptySetID", "emptySetID = %d, documented math.MinInt32", s2.VerifEmptySetID())
	}
	o.nontrivial = len(c.Steps) >= 2
	lx := s2.VerifNewIDSetLexicon()
	var before [][]int32
	for i, s := range c.Steps {
		hist := extLexName(c.Steps, i)
		failed := false
		switch s.A {
		case "AddSet":
			in := append([]int32{}, s.X...)
			got := int64(lx.Add(in...))
			o.Count("lexicon_idset_adds")
			card := len(extUnique(s.X))
			switch {
			case !extI32Eq(in, s.X):
				o.Fail("lexicon/idset/Add/argument-modified", "add(%v) changed its argument to %v [%s]", s.X, in, hist)
				failed = true
			case got == s.R:
			case card == 0:
				o.Fail("lexicon/idset/Add/empty", "add() = %d, model emptySetID %d [%s]", got, s.R, hist)
				failed = true
			case card == 1 && len(s.X) > 1:
				o.Fail("lexicon/idset/Add/singleton-with-duplicates", "add(%v) = %d: the set is the singleton {%d}, whose documented id is its element %d [%s]", s.X, got, s.R, s.R, hist)
				failed = true
			case card == 1:
				o.Fail("lexicon/idset/Add/singleton", "add(%v) = %d, model %d [%s]", s.X, got, s.R, hist)
				failed = true
			case got >= 0 || got == math.MinInt32:
				o.Fail("lexicon/idset/Add/set-got-implicit-id", "add(%v) = %d for a set of %d elements, model %d [%s]", s.X, got, card, s.R, hist)
				failed = true
			default:
				// both are complements of sequence ids
				o.Fail("lexicon/idset/Add/"+extAddClass(^got, ^s.R, before, extSorted(s.X)), "add(%v) = %d (= ^%d), model %d (= ^%d; sets stored before the call: %v) [%s]", s.X, got, ^got, s.R, ^s.R, before, hist)
				failed = true
			}
		case "Clear":
			lx.Clear()
		case "IDSet":
			got := lx.IDSet(s.K)
			if !extI32Eq(got, s.Rs) {
				o.Fail("lexicon/idset/IDSet", "idSet(%d) = %v, model %v [%s]", s.K, got, s.Rs, hist)
				failed = true
			}
		default:
			panic("lexicon.idset: unknown action " + s.A)
		}
		if failed {
			break
		}
		if what, detail := extLexProject(lx.Inner(), s.St); what != "" {
			o.Fail("lexicon/idset/state/"+what+"/after-"+s.A, "stored sets: %s [%s]", detail, hist)
			break
		}
		before = s.St
	}
	o.sample = map[string]any{"op": c.Op, "family": c.Fam, "history": extLexName(c.Steps, len(c.Steps))}
}

// ------------------------------------------------------------------ windows

type extWinStep struct {
	A      string
	Rad    int
	Nr, Nc int
	Exact  bool
	Want   [][2]int
}

func extStridesEq(a, b [][2]int) bool {
	if len(a) != len(b) {
		return false
	}
	for i := range a {
		if a[i] != b[i] {
			return false
		}
	}
	return true
}

// extWinRender is the documented picture of a window: one line per row, " *" for a filled and
// " ." for an unfilled column.
func extWinRender(s [][2]int, cols int) string {
	var sb strings.Builder
	for _, r := range s {
		for c := 0; c < cols; c++ {
			if r[0] <= c && c < r[1] {
				sb.WriteString(" *")
			} else {
				sb.WriteString(" .")
			}
		}
		sb.WriteString("\n")
	}
	return sb.String()
}

// extWinLaws checks what every window returned by the library must satisfy.
func extWinLaws(o *Out, w *s2.VerifWindow, rows, cols int, what, desc string) bool {
	s := w.Strides()
	ok := true
	if w.Rows() != rows || w.Cols() != cols || len(s) != rows {
		o.Fail("windows/"+what+"/size", "result is %d x %d (%d strides), expected %d x %d: %s", w.Rows(), w.Cols(), len(s), rows, cols, desc)
		return false
	}
	if !w.IsValid() {
		o.Fail("windows/"+what+"/result-invalid", "result %v is not a valid window: %s", s, desc)
		ok = false
	}
	if !(s[0][0] <= 0 && 0 < s[0][1]) || !(s[rows-1][0] <= cols-1 && cols-1 < s[rows-1][1]) {
		o.Fail("windows/"+what+"/corner-cells", "result %v does not fill the first and the last cell: %s", s, desc)
		ok = false
	}
	if got, want := w.DebugString(), extWinRender(s, cols); got != want {
		o.Fail("windows/debugString", "debugString() = %q, the picture of %v is %q: %s", got, s, want, desc)
		ok = false
	}
	for r := 0; r < rows; r++ {
		if w.ColumnStride(r) != s[r] {
			o.Fail("windows/columnStride", "columnStride(%d) = %v, strides %v: %s", r, w.ColumnStride(r), s, desc)
			ok = false
		}
	}
	return ok
}

func opExtWindowChain(raw json.RawMessage, o *Out) {
	var c struct {
		W     [][2]int
		Steps []extWinStep
	}
	if err := json.Unmarshal(raw, &c); err != nil {
		panic(err)
	}
	o.nontrivial = true
	cur := s2.VerifWindowFromStrides(append([][2]int{}, c.W...))
	rows, cols := len(c.W), c.W[len(c.W)-1][1]
	if !extWinLaws(o, cur, rows, cols, "fromStrides", fmt.Sprintf("window %v", c.W)) {
		return
	}
	names := ""
	for i, s := range c.Steps {
		pos := "first"
		if i > 0 {
			pos = "chained"
			names += ";"
		}
		before := cur.Strides()
		br, bc := cur.Rows(), cur.Cols()
		var res *s2.VerifWindow
		var what string
		switch s.A {
		case "Dilate":
			names += fmt.Sprintf("dilate(%d)", s.Rad)
			what = "Dilate"
			res = cur.Dilate(s.Rad)
			o.Count("windows_dilate")
		case "Upsample":
			names += fmt.Sprintf("upsample(%d,%d)", s.Nr, s.Nc)
			what = "Upsample"
			res = cur.Upsample(s.Nr, s.Nc)
			o.Count("windows_upsample")
		default:
			panic("windows.chain: unknown action " + s.A)
		}
		desc := fmt.Sprintf("window %v, calls %s", c.W, names)
		if !extStridesEq(cur.Strides(), before) || cur.Rows() != br || cur.Cols() != bc {
			o.Fail("windows/"+what+"/receiver-modified", "the receiver changed from %v to %v: %s", before, cur.Strides(), desc)
			return
		}
		wantRows, wantCols := br, bc
		if s.A == "Upsample" {
			wantRows, wantCols = s.Nr, s.Nc
		}
		if !extWinLaws(o, res, wantRows, wantCols, what, desc) {
			return
		}
		if s.A == "Upsample" && !s.Exact {
			o.Count("windows_upsample_laws_only")
			return // the specification does not fix the result: the sequence ends here
		}
		if s.A == "Dilate" && !s.Exact {
			// the morphological dilation has a gap in some row: the result must contain it
			o.Count("windows_dilate_laws_only")
			for r, g := range res.Strides() {
				if g[0] > s.Want[r][0] || g[1] < s.Want[r][1] {
					o.Fail("windows/Dilate/misses-dilated-cells", "result %v does not contain the dilation (row-wise hull %v): %s", res.Strides(), s.Want, desc)
					break
				}
			}
			return
		}
		if got := res.Strides(); !extStridesEq(got, s.Want) {
			cls := what + "/strides/" + pos
			if s.A == "Dilate" && s.Rad == 0 {
				cls = "Dilate/radius0-not-identity"
			} else if s.A == "Upsample" && s.Nr == br && s.Nc == bc {
				cls = "Upsample/same-size-not-identity"
			}
			o.Fail("windows/"+cls, "result %v, specification %v (from %v): %s", got, s.Want, before, desc)
			return
		}
		cur = res
	}
	o.sample = map[string]any{"op": "windows.chain", "window": c.W, "calls": names}
}

func opExtWindowValid(raw json.RawMessage, o *Out) {
	var c struct {
		W    [][2]int
		Cols []bool
	}
	if err := json.Unmarshal(raw, &c); err != nil {
		panic(err)
	}
	for cols, want := range c.Cols {
		w := s2.VerifWindowRaw(len(c.W), cols, append([][2]int{}, c.W...))
		got := w.IsValid()
		o.Count("windows_isvalid")
		if want {
			o.nontrivial = true
		}
		if got != want {
			k := "accepts-invalid"
			if want {
				k = "rejects-valid"
			}
			o.Fail("windows/isValid/"+k, "isValid() = %v for strides %v with %d rows and %d columns, the six documented rules say %v", got, c.W, len(c.W), cols, want)
		}
		// columnStride.InRange and the stride "before the first row"
		for r, s := range c.W {
			for col := 0; col <= 5; col++ {
				if in := w.CheckedColumnStrideInRange(r, col); in != (s[0] <= col && col < s[1]) {
					o.Fail("windows/columnStride/InRange", "row %d stride %v: InRange(%d) = %v", r, s, col, in)
				}
			}
		}
		for _, col := range []int{0, 1, 1000, math.MaxInt - 1} {
			if !w.CheckedColumnStrideInRange(-1, col) {
				o.Fail("windows/columnStride/all", "checkedColumnStride(-1).InRange(%d) = false (documented: true for all non-negative inputs below MaxInt)", col)
			}
		}
	}
	o.sample = map[string]any{"op": "windows.valid", "strides": c.W, "valid_for_cols": c.Cols}
}

// ------------------------------------------------------------------ padded cells

type extPCase struct {
	F      int
	Anchor []int
	Q      []int
	Level  int
	ILo    int `json:"ilo"`
	JLo    int `json:"jlo"`
	O      int
	Entry  [2]int
	Exit   [2]int
	Quad   [][2]int
	D      int
	Shrink []int
}

func extName(id s2.CellID) string { return fmt.Sprintf("%d/%v", uint64(id)>>61, emb.RawPath(id)) }

// corner (ci, cj) -> index of Cell.Vertex (0 = (lo,lo), 1 = (hi,lo), 2 = (hi,hi), 3 = (lo,hi))
func extCorner(c [2]int) int {
	switch c {
	case [2]int{0, 0}:
		return 0
	case [2]int{1, 0}:
		return 1
	case [2]int{1, 1}:
		return 2
	case [2]int{0, 1}:
		return 3
	}
	panic(fmt.Sprintf("bad corner %v", c))
}

// the relative path number t (0-based) of PaddedCells.tla: ordered by length, then as base-4 numbers
func extTarget(t int) []int {
	k, off := 0, 0
	for t >= off+(1<<uint(2*k)) {
		off += 1 << uint(2*k)
		k++
	}
	idx := t - off
	p := make([]int, k)
	for i := k - 1; i >= 0; i-- {
		p[i] = idx & 3
		idx >>= 2
	}
	return p
}

type extPState struct {
	ID      s2.CellID
	Padding float64
	St      s2.VerifPaddedCellState
}

func extPStateOf(p *s2.PaddedCell) extPState {
	st := s2.VerifPaddedCellStateOf(p)
	st.Middle = r2.Rect{} // the cache is compared through Middle()
	return extPState{p.CellID(), p.Padding(), st}
}

func opExtPaddedCell(raw json.RawMessage, o *Out) {
	var c extPCase
	if err := json.Unmarshal(raw, &c); err != nil {
		panic(err)
	}
	o.nontrivial = true
	rootID := emb.RawID(c.F, c.Anchor)
	id := emb.Under(rootID, c.Q)
	if emb.RawLevel(id) != c.Level {
		panic("paddedcell: level of the embedded id differs from the model's")
	}
	cls := "deep"
	if len(c.Anchor) == 0 {
		cls = "top"
	} else if c.Level >= 26 {
		cls = "leaf"
	}
	cell := s2.CellFromCellID(id)
	bu := cell.BoundUV()
	w := math.Min(bu.X.Hi-bu.X.Lo, bu.Y.Hi-bu.Y.Lo)
	desc := fmt.Sprintf("cell %s", extName(id))
	for pi, pad := range []float64{0, w / 64} {
		pcls := cls + "/" + []string{"pad0", "pad"}[pi]
		pd := fmt.Sprintf("%s padding %g", desc, pad)
		pc := s2.PaddedCellFromCellID(id, pad)
		st := s2.VerifPaddedCellStateOf(pc)
		// ---- private coordinates against the model
		if st.Level != c.Level || pc.Level() != c.Level {
			o.Fail("paddedcell/state/level/"+cls, "level %d / Level() %d, model %d: %s", st.Level, pc.Level(), c.Level, pd)
		}
		if st.ILo != c.ILo || st.JLo != c.JLo {
			o.Fail("paddedcell/state/ijlo/"+cls, "(iLo, jLo) = (%d, %d), model (%d, %d): %s", st.ILo, st.JLo, c.ILo, c.JLo, pd)
		}
		if st.Orientation != c.O {
			o.Fail("paddedcell/state/orientation/"+cls, "orientation %d, model %d: %s", st.Orientation, c.O, pd)
		}
		if pc.CellID() != id || pc.Padding() != pad {
			o.Fail("paddedcell/accessors/"+cls, "CellID() = %s Padding() = %g: %s", extName(pc.CellID()), pc.Padding(), pd)
		}
		// ---- where the curve enters and leaves
		if got, want := pc.EntryVertex(), cell.Vertex(extCorner(c.Entry)); got != want {
			o.Fail("paddedcell/EntryVertex/"+cls, "EntryVertex() = %v, model corner %v = %v: %s", got, c.Entry, want, pd)
		}
		if got, want := pc.ExitVertex(), cell.Vertex(extCorner(c.Exit)); got != want {
			o.Fail("paddedcell/ExitVertex/"+cls, "ExitVertex() = %v, model corner %v = %v: %s", got, c.Exit, want, pd)
		}
		// ---- walking down from the root through PaddedCellFromParentIJ reaches the same value
		walk := s2.PaddedCellFromCellID(rootID, pad)
		for _, pos := range c.Q {
			i, j := walk.ChildIJ(pos)
			walk = s2.PaddedCellFromParentIJ(walk, i, j)
		}
		if a, b := extPStateOf(walk), extPStateOf(pc); a != b {
			o.Fail("paddedcell/descend/"+cls, "the cell reached from the root %s by ChildIJ/PaddedCellFromParentIJ along %v is %+v, PaddedCellFromCellID gives %+v: %s", extName(rootID), c.Q, a, b, pd)
		} else if c.Level < 30 && walk.Middle() != pc.Middle() {
			o.Fail("paddedcell/descend/middle/"+cls, "Middle() %v after the descent, %v from the id: %s", walk.Middle(), pc.Middle(), pd)
		}
		o.Count("paddedcell_cells")
		if c.Level == 30 {
			continue
		}
		// ---- children
		var kids [4]*s2.PaddedCell
		common := r2.Rect{X: r1.Interval{Lo: math.Inf(-1), Hi: math.Inf(1)}, Y: r1.Interval{Lo: math.Inf(-1), Hi: math.Inf(1)}}
		for pos := 0; pos < 4; pos++ {
			kid := emb.Under(id, []int{pos})
			kids[pos] = s2.PaddedCellFromCellID(kid, pad)
			b := kids[pos].Bound()
			common.X.Lo, common.X.Hi = math.Max(common.X.Lo, b.X.Lo), math.Min(common.X.Hi, b.X.Hi)
			common.Y.Lo, common.Y.Hi = math.Max(common.Y.Lo, b.Y.Lo), math.Min(common.Y.Hi, b.Y.Hi)
			qd := c.Quad[pos]
			if i, j := pc.ChildIJ(pos); i != qd[0] || j != qd[1] {
				o.Fail("paddedcell/ChildIJ/"+cls, "ChildIJ(%d) = (%d,%d), model %v: %s", pos, i, j, qd, pd)
			}
			sub := s2.PaddedCellFromParentIJ(pc, qd[0], qd[1])
			if sub.CellID() != kid {
				o.Fail("paddedcell/FromParentIJ/id/"+cls, "PaddedCellFromParentIJ(%v).CellID() = %s, the child in that quadrant is number %d = %s: %s", qd, extName(sub.CellID()), pos, extName(kid), pd)
				continue
			}
			if a, b := extPStateOf(sub), extPStateOf(kids[pos]); a != b {
				o.Fail("paddedcell/FromParentIJ/fields/"+cls, "child %d from the parent %+v, from its id %+v: %s", pos, a, b, pd)
			} else if c.Level+1 < 30 && sub.Middle() != kids[pos].Middle() {
				o.Fail("paddedcell/FromParentIJ/middle/"+cls, "child %d: Middle() %v from the parent, %v from its id: %s", pos, sub.Middle(), kids[pos].Middle(), pd)
			}
		}
		// Middle(): exactly the points that belong to all four padded children
		if m := pc.Middle(); m != common {
			o.Fail("paddedcell/Middle/"+pcls, "Middle() = %v, the intersection of the four padded children is %v: %s", m, common, pd)
		}
	}
	// ---- ShrinkToFit on the exact uv bounds of descendants
	for t, lv := range c.Shrink {
		r := extTarget(t)
		if len(r) > c.D {
			panic("paddedcell: more shrink targets than the depth allows")
		}
		dID := emb.Under(id, r)
		rect := s2.CellFromCellID(dID).BoundUV()
		wd := math.Min(rect.X.Hi-rect.X.Lo, rect.Y.Hi-rect.Y.Lo)
		want := emb.Under(id, r[:lv])
		for pi, pad := range []float64{0, wd / 4} {
			pc := s2.PaddedCellFromCellID(id, pad)
			got := pc.ShrinkToFit(rect)
			o.Count("paddedcell_shrink")
			if got != want {
				k := "too-deep"
				if emb.RawLevel(got) < emb.RawLevel(want) {
					k = "too-shallow"
				} else if emb.RawLevel(got) == emb.RawLevel(want) {
					k = "wrong-cell"
				}
				o.Fail("paddedcell/ShrinkToFit/"+k+"/"+cls+"/"+[]string{"pad0", "pad"}[pi],
					"ShrinkToFit(uv bound of the descendant %v) = %s, lowest common ancestor of the descendants that meet the rect: %s (%d levels below): %s padding %g",
					r, extName(got), extName(want), lv, desc, pad)
			}
		}
	}
	o.sample = map[string]any{"op": "paddedcell", "cell": extName(id), "shrink_targets": len(c.Shrink)}
}
