package main

// C02 trace direction: record stage outcomes on adversarial float inputs.

import (
	"bufio"
	"encoding/json"
	"flag"
	"fmt"
	"math"
	"math/rand"
	"os"

	"github.com/golang/geo/r3"
	"github.com/golang/geo/s2"
)

func init() { recorders["sign"] = recSign }

func bitsOf(p s2.Point) [3]string {
	return [3]string{fmt.Sprintf("%016x", math.Float64bits(p.X)), fmt.Sprintf("%016x", math.Float64bits(p.Y)), fmt.Sprintf("%016x", math.Float64bits(p.Z))}
}

func fromBits(b [3]string) s2.Point {
	var u [3]uint64
	for i := range b {
		fmt.Sscanf(b[i], "%x", &u[i])
	}
	return s2.Point{Vector: r3.Vector{X: math.Float64frombits(u[0]), Y: math.Float64frombits(u[1]), Z: math.Float64frombits(u[2])}}
}

func nudge(r *rand.Rand, p s2.Point, maxUlps int) s2.Point {
	f := func(x float64) float64 {
		for k := r.Intn(maxUlps + 1); k > 0; k-- {
			if r.Intn(2) == 0 {
				x = math.Nextafter(x, math.Inf(1))
			} else {
				x = math.Nextafter(x, math.Inf(-1))
			}
		}
		return x
	}
	return s2.Point{Vector: r3.Vector{X: f(p.X), Y: f(p.Y), Z: f(p.Z)}}
}

func randUnit(r *rand.Rand) s2.Point {
	for {
		v := r3.Vector{X: r.NormFloat64(), Y: r.NormFloat64(), Z: r.NormFloat64()}
		if v.Norm() > 1e-3 {
			return s2.Point{Vector: v.Normalize()}
		}
	}
}

// adversarial triple: collinear / nearly identical / nearly antipodal at separations 1e-300..pi
func advTriple(r *rand.Rand) (a, b, c s2.Point) {
	if r.Intn(4) == 0 {
		// Nearly collinear points closer together than ~1e-77 rad: squared lengths and
		// error bounds underflow here, the fast paths must notice and give up.
		axes := []r3.Vector{{X: 1}, {Y: 1}, {Z: 1}, {X: -1}, {Y: -1}, {Z: -1}}
		av := axes[r.Intn(6)]
		a = s2.Point{Vector: av}
		u := av.Cross(randUnit(r).Vector).Normalize()
		w := av.Cross(u)
		t := math.Pow(10, -(78 + r.Float64()*200))
		k := 0.2 + 5*r.Float64()
		delta := math.Pow(10, -r.Float64()*16)
		if r.Intn(3) == 0 {
			delta = 0
		}
		b = s2.Point{Vector: av.Add(u.Mul(t))}
		c = s2.Point{Vector: av.Add(u.Add(w.Mul(delta)).Mul(t * k))}
		if r.Intn(3) == 0 {
			// two scales: the third point much further from the pair than the pair's own
			// separation (one edge underflows when squared, the other two do not)
			u2 := av.Cross(randUnit(r).Vector).Normalize()
			if r.Intn(2) == 0 {
				u2 = u.Add(w.Mul((r.Float64() - 0.5) * math.Pow(10, -r.Float64()*16))) // nearly collinear with the pair
			}
			a = s2.Point{Vector: av.Add(u2.Mul(math.Pow(10, -(40 + r.Float64()*110))))}
		}
		if r.Intn(2) == 0 {
			b, c = c, b
		}
		if r.Intn(3) == 0 {
			a, c = c, a
		}
		return
	}
	a = randUnit(r)
	if r.Intn(3) == 0 { // axis-aligned great circles are the exactly-degenerate ones
		axes := []s2.Point{{Vector: r3.Vector{X: 1}}, {Vector: r3.Vector{Y: 1}}, {Vector: r3.Vector{Z: 1}}}
		a = axes[r.Intn(3)]
	}
	sep := math.Pow(10, -r.Float64()*300)
	if r.Intn(2) == 0 {
		sep = math.Pow(10, -r.Float64()*16)
	}
	if r.Intn(4) == 0 {
		sep = r.Float64() * math.Pi
	}
	dir := s2.Ortho(a)
	if r.Intn(2) == 0 {
		dir = s2.Point{Vector: a.Cross(dir.Vector).Normalize()}
	}
	on := func(t float64) s2.Point { // point at angle t from a along dir
		return s2.Point{Vector: a.Mul(math.Cos(t)).Add(dir.Mul(math.Sin(t))).Normalize()}
	}
	b = on(sep)
	switch r.Intn(6) {
	case 0:
		c = on(sep * (0.1 + r.Float64()*3))
	case 1:
		c = on(-sep * r.Float64())
	case 2:
		c = s2.Point{Vector: a.Mul(-1)} // exactly antipodal to a
	case 3:
		c = nudge(r, s2.Point{Vector: a.Mul(-1)}, 3)
	case 4:
		c = nudge(r, a, 2) // nearly identical to a
	default:
		c = s2.Point{Vector: a.Add(b.Vector).Normalize()}
	}
	b, c = nudge(r, b, 4), nudge(r, c, 4)
	switch r.Intn(12) {
	case 0:
		c = a
	case 1:
		b = a
	}
	return
}

func signEvent(a, b, c s2.Point) map[string]any {
	return map[string]any{
		"ev": "sign", "a": bitsOf(a), "b": bitsOf(b), "c": bitsOf(c),
		"triage": int(s2.VerifTriageSign(a, b, c)), "stable": int(s2.VerifStableSign(a, b, c)),
		"exact": int(s2.VerifExactSign(a, b, c, false)),
		"exactp": func() int {
			if a == b || b == c || a == c {
				return 0
			}
			return int(s2.VerifExactSign(a, b, c, true))
		}(),
		"res": int(s2.RobustSign(a, b, c)), "rot1": int(s2.RobustSign(b, c, a)), "rot2": int(s2.RobustSign(c, a, b)),
		"swap": int(s2.RobustSign(c, b, a)), "anyeq": a == b || b == c || a == c,
	}
}

func distEvent(x, a, b s2.Point) map[string]any {
	ca, cb := a.Dot(x.Vector), b.Dot(x.Vector)
	sin2 := s2.VerifTriageCompareSin2Distances(x, a, b)
	valid := false
	if ca > 0.71 && cb > 0.71 {
		valid = true
	} else if ca < -0.71 && cb < -0.71 {
		valid = true
		sin2 = -sin2
	}
	return map[string]any{
		"ev": "cmpdist", "a": bitsOf(x), "b": bitsOf(a), "c": bitsOf(b),
		"cos": s2.VerifTriageCompareCosDistances(x, a, b), "sin2": sin2, "sin2valid": valid,
		"exact": s2.VerifExactCompareDistances(x, a, b), "symbolic": s2.VerifSymbolicCompareDistances(x, a, b),
		"res": s2.CompareDistances(x, a, b), "swapped": s2.CompareDistances(x, b, a), "abeq": a == b,
	}
}

func dotEvent(a, b s2.Point) map[string]any {
	pa, pb := r3.PreciseVectorFromVector(a.Vector), r3.PreciseVectorFromVector(b.Vector)
	return map[string]any{
		"ev": "sdp", "a": bitsOf(a), "b": bitsOf(b), "c": bitsOf(b),
		"triage": s2.VerifTriageSignDotProd(a, b), "exact": pa.Dot(pb).Sign(), "res": s2.SignDotProd(a, b),
	}
}

func recSign(args []string) {
	fs := flag.NewFlagSet("sign", flag.ExitOnError)
	seed := fs.Int64("seed", 1, "")
	n := fs.Int("n", 1000, "")
	out := fs.String("out", "", "")
	from := fs.String("from", "", "re-record the event of line -line of this file")
	line := fs.Int("line", 0, "")
	first := fs.Int("first", 0, "re-record the lines first..line in order (0: only line)")
	fs.Parse(args)
	f, err := os.Create(*out)
	if err != nil {
		panic(err)
	}
	defer f.Close()
	w := bufio.NewWriter(f)
	defer w.Flush()
	emit := func(e map[string]any) {
		b, _ := json.Marshal(e)
		w.Write(append(b, '\n'))
	}
	if *from != "" {
		in, _ := os.Open(*from)
		sc := bufio.NewScanner(in)
		sc.Buffer(make([]byte, 1<<20), 1<<24)
		for k := 1; sc.Scan(); k++ {
			if k > *line || k < *line && (*first == 0 || k < *first) {
				continue
			}
			var e struct {
				Ev      string
				A, B, C [3]string
			}
			json.Unmarshal(sc.Bytes(), &e)
			a, b, c := fromBits(e.A), fromBits(e.B), fromBits(e.C)
			switch e.Ev {
			case "sign":
				emit(signEvent(a, b, c))
			case "cmpdist":
				emit(distEvent(a, b, c))
			case "sdp":
				emit(dotEvent(a, b))
			}
		}
		return
	}
	r := rand.New(rand.NewSource(*seed))
	for i := 0; i < *n; i++ {
		a, b, c := advTriple(r)
		emit(signEvent(a, b, c))
		// distances: x far from or close to a and b; a, b nearly equidistant
		x := randUnit(r)
		if r.Intn(2) == 0 {
			x = a
		}
		emit(distEvent(x, b, c))
		emit(distEvent(c, a, b))
		// the target equal to one of the compared points, the other one exactly proportional to it
		// (distinct as points, the same direction): an exact tie decided symbolically
		{
			k := 1 - float64(1+r.Intn(6))*math.Pow(2, -53)
			if r.Intn(2) == 0 {
				k = 1 + float64(1+r.Intn(3))*math.Pow(2, -52)
			}
			pa := s2.Point{Vector: a.Mul(k)}
			if pa != a {
				emit(distEvent(a, a, pa))
				emit(distEvent(a, pa, a))
				emit(distEvent(pa, a, pa))
			}
		}
		// nearly orthogonal pairs for SignDotProd
		o := s2.Point{Vector: a.Cross(randUnit(r).Vector).Normalize()}
		emit(dotEvent(a, nudge(r, o, 3)))
	}
}
