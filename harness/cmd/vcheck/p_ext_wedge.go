package main

// Extension of the W1 (integer lattice) specification:
//   op "wedge"        (Gen_Wedges / Wedges.tla)            s2.WedgeRelation, WedgeContains, WedgeIntersects
//   op "vertexquery"  (Gen_VertexQuery / VertexQuery.tla)  s2.ContainsVertexQuery, AngleContainsVertex
// The expected answers are computed by TLC from the point-set semantics of the specification; the
// handlers only embed the lattice points and compare.

import (
	"encoding/json"
	"fmt"

	"github.com/golang/geo/s2"

	"verifharness/emb"
)

func init() {
	register("wedge", opExtWedge)
	register("vertexquery", opExtVertexQuery)
}

var extWedgeRelNames = [5]string{"Equals", "ProperlyContains", "IsProperlyContained", "ProperlyOverlaps", "IsDisjoint"}

func extWedgeRelName(r s2.WedgeRel) string {
	if int(r) >= 0 && int(r) < len(extWedgeRelNames) {
		return extWedgeRelNames[r]
	}
	return fmt.Sprintf("BAD(%d)", int(r))
}

func extWedgeConverse(r s2.WedgeRel) s2.WedgeRel {
	switch r {
	case s2.WedgeProperlyContains:
		return s2.WedgeIsProperlyContained
	case s2.WedgeIsProperlyContained:
		return s2.WedgeProperlyContains
	}
	return r
}

// one case = one wedge A = (pts[i0], o, pts[i2]) and the model's answers for every wedge
// B = (pts[j0], o, pts[j2]): res[j0*n+j2] = rel + 8*contains + 16*intersects + 32*robust + 64*valid + 128*degenerate
func opExtWedge(raw json.RawMessage, o *Out) {
	var c struct {
		O      emb.P3
		I0, I2 int
		Pts    []emb.P3
		Res    []int
	}
	if err := json.Unmarshal(raw, &c); err != nil {
		panic(err)
	}
	n := len(c.Pts)
	if len(c.Res) != n*n || c.I0 < 1 || c.I0 > n || c.I2 < 1 || c.I2 > n {
		panic(fmt.Sprintf("wedge case malformed: n=%d res=%d i0=%d i2=%d", n, len(c.Res), c.I0, c.I2))
	}
	i0, i2 := c.I0-1, c.I2-1
	anyCollapse := collapses(append([]emb.P3{c.O}, c.Pts...)...)
	type embedded struct {
		e   embedding
		o   s2.Point
		pts []s2.Point
	}
	var embs []embedded
	for _, e := range []embedding{embDyadic3, embUnit} {
		x := embedded{e: e, o: e.f(c.O)}
		for _, p := range c.Pts {
			x.pts = append(x.pts, e.f(p))
		}
		embs = append(embs, x)
	}
	var firstNontrivial map[string]any
	for k, code := range c.Res {
		j0, j2 := k/n, k%n
		valid := code&64 != 0
		robust := code&32 != 0
		degenerate := code&128 != 0
		if !valid {
			// an arm parallel (antipodal) to the shared vertex is not an S2 edge
			o.Count("wedge_invalid_arm_skipped")
			continue
		}
		if degenerate {
			// a0 == a2 or b0 == b2: outside "non-empty wedges"; only exercised (panics are reported)
			x := embs[0]
			s2.WedgeRelation(x.pts[i0], x.o, x.pts[i2], x.pts[j0], x.pts[j2])
			s2.WedgeContains(x.pts[i0], x.o, x.pts[i2], x.pts[j0], x.pts[j2])
			s2.WedgeIntersects(x.pts[i0], x.o, x.pts[i2], x.pts[j0], x.pts[j2])
			o.Count("wedge_degenerate_not_predicted")
			continue
		}
		wantRel := s2.WedgeRel(code & 7)
		wantC := code&8 != 0
		wantI := code&16 != 0
		o.Count("wedge_tuples")
		shared := i0 == j0 || i0 == j2 || i2 == j0 || i2 == j2
		if !robust || shared {
			o.nontrivial = true
			if !robust {
				o.Count("wedge_tuples_perturbation_decides")
			}
			if shared {
				o.Count("wedge_tuples_shared_arm")
			}
			if firstNontrivial == nil {
				firstNontrivial = map[string]any{"op": "wedge", "o": c.O, "a0": c.Pts[i0], "a2": c.Pts[i2], "b0": c.Pts[j0], "b2": c.Pts[j2],
					"model": extWedgeRelNames[wantRel], "contains": wantC, "intersects": wantI, "robust": robust}
			}
		}
		o.Count("wedge_model_" + extWedgeRelNames[wantRel])
		for _, x := range embs {
			unit := x.e.name == "unit"
			if unit && anyCollapse && collapses(c.O, c.Pts[i0], c.Pts[i2], c.Pts[j0], c.Pts[j2]) {
				continue
			}
			predict := !unit || robust
			a0, a2, b0, b2 := x.pts[i0], x.pts[i2], x.pts[j0], x.pts[j2]
			desc := func() string {
				return fmt.Sprintf("a0=%v o=%v a2=%v b0=%v b2=%v [%s]", c.Pts[i0], c.O, c.Pts[i2], c.Pts[j0], c.Pts[j2], x.e.name)
			}
			rel := s2.WedgeRelation(a0, x.o, a2, b0, b2)
			con := s2.WedgeContains(a0, x.o, a2, b0, b2)
			its := s2.WedgeIntersects(a0, x.o, a2, b0, b2)
			if predict {
				if rel != wantRel {
					o.Fail("wedge/WedgeRelation/"+x.e.name+"/"+extWedgeRelNames[wantRel], "WedgeRelation %s = %s, exact model %s",
						desc(), extWedgeRelName(rel), extWedgeRelNames[wantRel])
				}
				if con != wantC {
					o.Fail("wedge/WedgeContains/"+x.e.name+"/"+tf(wantC), "WedgeContains %s = %v, exact model %v (relation %s)",
						desc(), con, wantC, extWedgeRelNames[wantRel])
				}
				if its != wantI {
					o.Fail("wedge/WedgeIntersects/"+x.e.name+"/"+tf(wantI), "WedgeIntersects %s = %v, exact model %v (relation %s)",
						desc(), its, wantI, extWedgeRelNames[wantRel])
				}
			} else {
				o.Count("wedge_unit_laws_only")
			}
			// laws of the specification on the real functions (hold for every input, predicted or not)
			if con != (rel == s2.WedgeEquals || rel == s2.WedgeProperlyContains) {
				o.Fail("wedge/law-contains-vs-relation/"+x.e.name, "WedgeContains=%v but WedgeRelation=%s %s", con, extWedgeRelName(rel), desc())
			}
			if its != (rel != s2.WedgeIsDisjoint) {
				o.Fail("wedge/law-intersects-vs-relation/"+x.e.name, "WedgeIntersects=%v but WedgeRelation=%s %s", its, extWedgeRelName(rel), desc())
			}
			if con && !its {
				o.Fail("wedge/law-contains-implies-intersects/"+x.e.name, "WedgeContains but not WedgeIntersects %s", desc())
			}
			if back := s2.WedgeRelation(b0, x.o, b2, a0, a2); back != extWedgeConverse(rel) {
				o.Fail("wedge/law-converse/"+x.e.name, "WedgeRelation(A,B)=%s but WedgeRelation(B,A)=%s %s", extWedgeRelName(rel), extWedgeRelName(back), desc())
			}
			// the reversed chain (a2, o, a0) is the complement of A: A contains B iff it misses B
			if miss := !s2.WedgeIntersects(a2, x.o, a0, b0, b2); miss != con {
				o.Fail("wedge/law-complement/"+x.e.name, "WedgeContains(A,B)=%v but WedgeIntersects(reversed A, B)=%v %s", con, !miss, desc())
			}
		}
	}
	if firstNontrivial != nil {
		o.sample = firstNontrivial
	}
}

func extPermutations(n int) [][]int {
	var out [][]int
	p := make([]int, n)
	for i := range p {
		p[i] = i
	}
	var rec func(k int)
	rec = func(k int) {
		if k == n {
			out = append(out, append([]int(nil), p...))
			return
		}
		for i := k; i < n; i++ {
			p[k], p[i] = p[i], p[k]
			rec(k + 1)
			p[k], p[i] = p[i], p[k]
		}
	}
	rec(0)
	return out
}

var extPerms = func() [][][]int {
	var t [][][]int
	for n := 0; n <= 5; n++ {
		t = append(t, extPermutations(n))
	}
	return t
}()

// one case = one multiset of incident edges of the target o
func opExtVertexQuery(raw json.RawMessage, o *Out) {
	var c struct {
		O         emb.P3
		Vs        []emb.P3
		Ds        []int
		Want      int
		Pre       bool
		Valid     bool
		Robust    bool
		Acv       string
		Ccw       []emb.P3
		CcwRobust bool `json:"ccwrobust"`
	}
	if err := json.Unmarshal(raw, &c); err != nil {
		panic(err)
	}
	if len(c.Vs) != len(c.Ds) || len(c.Vs) >= len(extPerms) {
		panic("vertexquery case malformed")
	}
	if !c.Valid {
		o.Count("vertexquery_invalid_edge_skipped")
		return
	}
	k := len(c.Vs)
	o.nontrivial = k >= 2
	o.Count("vertexquery_multisets")
	if !c.Pre {
		o.Count("vertexquery_net_multiplicity_above_1_order_only")
	}
	if c.Want == 2 {
		o.Count("vertexquery_not_predicted_reference_direction")
	} else if k >= 2 {
		o.Count(fmt.Sprintf("vertexquery_model_%+d", c.Want))
	}
	for _, e := range []embedding{embDyadic3, embUnit} {
		unit := e.name == "unit"
		if unit && collapses(append([]emb.P3{c.O}, c.Vs...)...) {
			continue
		}
		target := e.f(c.O)
		vs := make([]s2.Point, k)
		for i, v := range c.Vs {
			vs[i] = e.f(v)
		}
		desc := func() string {
			return fmt.Sprintf("target=%v edges=%v dirs=%v [%s]", c.O, c.Vs, c.Ds, e.name)
		}
		// every insertion order; ContainsVertex called three times on each object (the edge map is
		// iterated in a random order by the Go runtime)
		first, have := 0, false
		for _, perm := range extPerms[k] {
			q := s2.NewContainsVertexQuery(target)
			for _, i := range perm {
				q.AddEdge(vs[i], c.Ds[i])
			}
			for rep := 0; rep < 3; rep++ {
				got := q.ContainsVertex()
				if !have {
					first, have = got, true
				} else if got != first {
					o.Fail("vertexquery/insertion-order/"+e.name, "ContainsVertex()=%d with insertion order %v (call %d), %d with the given order: %s",
						got, perm, rep+1, first, desc())
				}
			}
		}
		got := first
		if c.Pre {
			if got < -1 || got > 1 {
				o.Fail("vertexquery/range/"+e.name, "ContainsVertex()=%d is not one of -1, 0, +1: %s", got, desc())
			}
			if c.Want != 2 && (!unit || c.Robust) {
				if got != c.Want {
					o.Fail(fmt.Sprintf("vertexquery/ContainsVertex/%s/%+d", e.name, c.Want), "ContainsVertex()=%d, exact model %d: %s", got, c.Want, desc())
				}
			}
			// reversing every edge negates the answer
			q := s2.NewContainsVertexQuery(target)
			for i := range vs {
				q.AddEdge(vs[i], -c.Ds[i])
			}
			if g := q.ContainsVertex(); g != -got {
				o.Fail("vertexquery/law-reverse/"+e.name, "ContainsVertex()=%d, with every edge reversed %d: %s", got, g, desc())
			}
			// a matched sibling pair changes nothing (to every neighbour in turn)
			for i := range vs {
				q := s2.NewContainsVertexQuery(target)
				q.AddEdge(vs[i], 1)
				for j := range vs {
					q.AddEdge(vs[j], c.Ds[j])
				}
				q.AddEdge(vs[i], -1)
				if g := q.ContainsVertex(); g != got {
					o.Fail("vertexquery/law-sibling-pair/"+e.name, "ContainsVertex()=%d, %d after adding the matched pair to %v: %s", got, g, c.Vs[i], desc())
				}
			}
		}
		// edge_crossings.go: AngleContainsVertex(a, b, c) == (AddEdge(a, -1); AddEdge(c, +1); ContainsVertex() > 0)
		if k == 2 && c.Ds[0] != c.Ds[1] {
			a, cc := vs[0], vs[1]
			if c.Ds[0] == 1 {
				a, cc = vs[1], vs[0]
			}
			acv := s2.AngleContainsVertex(a, target, cc)
			if acv != (got > 0) {
				o.Fail("vertexquery/law-angle/"+e.name, "AngleContainsVertex(a,b,c)=%v but the query with (a,-1),(c,+1) gives %d: %s", acv, got, desc())
			}
			if c.Acv != "U" && c.Acv != "-" && (!unit || c.Robust) && tf(acv) != c.Acv {
				o.Fail("vertexquery/AngleContainsVertex/"+e.name+"/"+c.Acv, "AngleContainsVertex(a,b,c)=%v, exact model %s: %s", acv, c.Acv, desc())
			}
			o.Count("vertexquery_angle_law_checked")
		}
		// exactly one of the angles between CCW-consecutive neighbours contains the vertex
		if m := len(c.Ccw); m >= 2 && (!unit || c.CcwRobust) {
			nb := make([]s2.Point, m)
			for i, v := range c.Ccw {
				nb[i] = e.f(v)
			}
			cnt, cntq := 0, 0
			for i := 0; i < m; i++ {
				if s2.AngleContainsVertex(nb[(i+1)%m], target, nb[i]) {
					cnt++
				}
				q := s2.NewContainsVertexQuery(target)
				q.AddEdge(nb[i], 1)
				q.AddEdge(nb[(i+1)%m], -1)
				if q.ContainsVertex() > 0 {
					cntq++
				}
			}
			if cnt != 1 {
				o.Fail("vertexquery/law-exactly-one/"+e.name, "%d of the %d angles between CCW-consecutive neighbours %v contain the vertex %v [%s]", cnt, m, c.Ccw, c.O, e.name)
			}
			if cntq != 1 {
				o.Fail("vertexquery/law-exactly-one-query/"+e.name, "%d of the %d two-edge queries between CCW-consecutive neighbours %v contain the vertex %v [%s]", cntq, m, c.Ccw, c.O, e.name)
			}
			o.Count("vertexquery_exactly_one_checked")
		}
	}
	if o.nontrivial {
		o.sample = map[string]any{"op": "vertexquery", "o": c.O, "vs": c.Vs, "ds": c.Ds, "model": c.Want}
	}
}
