package main

// C06: (i) the Shape chain contract (Shapes.tla / Gen_Shapes.tla);
// (ii) grid-world scenes (Grid.tla / Gen_Grid.tla, op "c06scene"): index structure,
// ContainsPointQuery, CrossingEdgeQuery, ContainsCell / IntersectsCell.
// The W2 embedding helpers (w2*) are shared with p_c04.go.

import (
	"encoding/json"
	"fmt"
	"math"
	"os"
	"sync"

	"github.com/golang/geo/s1"
	"github.com/golang/geo/s2"

	"verifharness/emb"
)

func init() {
	register("shape", opShape)
	register("c06scene", opC06Scene)
	register("c06lattice", opC06Lattice)
}

type c06ShapeCase struct {
	Kind       string
	VC         []int `json:"vc"`
	Depth      []int
	Holes      []bool
	Dim        int
	NV         int `json:"nv"`
	NumEdges   int
	NumChains  int
	Chains     [][2]int
	Edges      [][2]int
	Pos        [][2]int
	ChainEdges [][][2]int
	Empty      bool
	Full       bool
	// Polygon cases: tables of the LaxPolygon with the same loops in stored order
	LaxEdges      [][2]int
	LaxChainEdges [][][2]int
}

// c06Pt returns the idx-th of a family of pairwise distinct points (no two equal, none antipodal).
func c06Pt(idx int) s2.Point {
	return s2.PointFromLatLng(s2.LatLngFromDegrees(-40+2.5*float64(idx), -100+7.25*float64(idx)))
}

// c06Ngon returns a CCW regular n-gon in (lng,lat) radians around (cx,cy) with circumradius r.
func c06Ngon(n int, cx, cy, r float64) []s2.Point {
	pts := make([]s2.Point, n)
	for k := 0; k < n; k++ {
		th := 2*math.Pi*float64(k)/float64(n) + 0.3
		pts[k] = s2.PointFromLatLng(s2.LatLng{Lat: s1.Angle(cy + r*math.Sin(th)), Lng: s1.Angle(cx + r*math.Cos(th))})
	}
	return pts
}

// c06Forest lays the loops of a nesting forest (depths in depth-first order) out as regular
// polygons: the children of a loop lie in a row inside the disc of radius 0.4 r around its
// centre, which every inscribed n-gon (n >= 3) contains.  All loops are CCW.
func c06Forest(vc, depth []int) [][]s2.Point {
	n := len(vc)
	loops := make([][]s2.Point, n)
	children := make(map[int][]int) // -1 = root
	stack := []int{}
	for i := 0; i < n; i++ {
		for len(stack) > depth[i] {
			stack = stack[:len(stack)-1]
		}
		par := -1
		if len(stack) > 0 {
			par = stack[len(stack)-1]
		}
		children[par] = append(children[par], i)
		stack = append(stack, i)
	}
	var place func(i int, cx, cy, r float64)
	place = func(i int, cx, cy, r float64) {
		loops[i] = c06Ngon(vc[i], cx, cy, r)
		ch := children[i]
		k := float64(len(ch))
		for m, c := range ch {
			place(c, cx-0.4*r+(2*float64(m)+1)*0.4*r/k, cy, 0.8*0.4*r/k)
		}
	}
	for m, c := range children[-1] {
		place(c, -1.2+0.16*float64(m), 0.1, 0.07)
	}
	return loops
}

func c06Try(o *Out, key, desc string, f func()) (ok bool) {
	defer func() {
		if r := recover(); r != nil {
			o.Fail(key, "panic (%v) in %s", r, desc)
			ok = false
		}
	}()
	f()
	return true
}

// c06CheckShape compares every accessor of the Shape interface with the model's tables.
// table[v] is the point of vertex number v.
func c06CheckShape(o *Out, c *c06ShapeCase, variant string, sh s2.Shape, table []s2.Point) {
	c06CheckEdgeless(o, c, variant, sh)
	kind := c.Kind + variant
	desc := func(what string) string {
		return fmt.Sprintf("%s on %s vc=%v depth=%v", what, kind, c.VC, c.Depth)
	}
	name := func(p s2.Point) string {
		for i, t := range table {
			if t == p {
				return fmt.Sprintf("v%d", i)
			}
		}
		return "v?"
	}
	eq := func(e s2.Edge, want [2]int) bool { return e.V0 == table[want[0]] && e.V1 == table[want[1]] }
	var ne, nc int
	c06Try(o, "shapes/NumEdges-panic/"+kind, desc("NumEdges"), func() { ne = sh.NumEdges() })
	c06Try(o, "shapes/NumChains-panic/"+kind, desc("NumChains"), func() { nc = sh.NumChains() })
	if ne != c.NumEdges {
		o.Fail("shapes/NumEdges/"+kind, "%s = %d, model %d", desc("NumEdges"), ne, c.NumEdges)
	}
	if nc != c.NumChains {
		o.Fail("shapes/NumChains/"+kind, "%s = %d, model %d", desc("NumChains"), nc, c.NumChains)
	}
	if d := sh.Dimension(); d != c.Dim {
		o.Fail("shapes/Dimension/"+kind, "%s = %d, model %d", desc("Dimension"), d, c.Dim)
	}
	var em, fu bool
	if c06Try(o, "shapes/IsEmpty-panic/"+kind, desc("IsEmpty/IsFull"), func() { em, fu = sh.IsEmpty(), sh.IsFull() }) {
		if em != c.Empty || fu != c.Full {
			o.Fail("shapes/IsEmptyIsFull/"+kind, "%s = %v/%v, model %v/%v", desc("IsEmpty/IsFull"), em, fu, c.Empty, c.Full)
		}
	}
	// everything below is indexed by the model's ids (the documented domain of each accessor)
	for i := 0; i < c.NumChains; i++ {
		var ch s2.Chain
		if c06Try(o, "shapes/Chain-panic/"+kind, desc(fmt.Sprintf("Chain(%d)", i)), func() { ch = sh.Chain(i) }) {
			if ch.Start != c.Chains[i][0] || ch.Length != c.Chains[i][1] {
				o.Fail("shapes/Chain/"+kind, "%s = {%d,%d}, model {%d,%d}", desc(fmt.Sprintf("Chain(%d)", i)),
					ch.Start, ch.Length, c.Chains[i][0], c.Chains[i][1])
			}
		}
		for j := 0; j < c.Chains[i][1]; j++ {
			var e s2.Edge
			what := fmt.Sprintf("ChainEdge(%d,%d)", i, j)
			if c06Try(o, "shapes/ChainEdge-panic/"+kind, desc(what), func() { e = sh.ChainEdge(i, j) }) {
				o.Count("chainedge_compared")
				if w := c.ChainEdges[i][j]; !eq(e, w) {
					o.Fail("shapes/ChainEdge/"+kind, "%s = (%s,%s), model (v%d,v%d) = Edge(%d)", desc(what),
						name(e.V0), name(e.V1), w[0], w[1], c.Chains[i][0]+j)
				}
			}
		}
	}
	for e := 0; e < c.NumEdges; e++ {
		var ed s2.Edge
		what := fmt.Sprintf("Edge(%d)", e)
		if c06Try(o, "shapes/Edge-panic/"+kind, desc(what), func() { ed = sh.Edge(e) }) {
			o.Count("edge_compared")
			if w := c.Edges[e]; !eq(ed, w) {
				o.Fail("shapes/Edge/"+kind, "%s = (%s,%s), model (v%d,v%d)", desc(what), name(ed.V0), name(ed.V1), w[0], w[1])
			}
		}
		var cp s2.ChainPosition
		what = fmt.Sprintf("ChainPosition(%d)", e)
		if c06Try(o, "shapes/ChainPosition-panic/"+kind, desc(what), func() { cp = sh.ChainPosition(e) }) {
			if w := c.Pos[e]; cp.ChainID != w[0] || cp.Offset != w[1] {
				o.Fail("shapes/ChainPosition/"+kind, "%s = {%d,%d}, model {%d,%d}", desc(what), cp.ChainID, cp.Offset, w[0], w[1])
			}
		}
	}
}

// c06CheckSpecialRegion: a full shape contains every point and cell, an empty shape none;
// through the region's own methods and through a ShapeIndex (the model's IsFull / IsEmpty).
func c06CheckSpecialRegion(o *Out, c *c06ShapeCase, variant string, reg s2.Region, sh s2.Shape) {
	kind := c.Kind + variant
	want := c.Full
	idx := s2.NewShapeIndex()
	idx.Add(sh)
	q := s2.NewContainsPointQuery(idx, s2.VertexModelSemiOpen)
	for n := 0; n < 6; n++ {
		p := c06Pt(3 * n)
		cell := s2.CellFromCellID(s2.CellFromPoint(p).ID().Parent(3 + 4*n))
		what := fmt.Sprintf("%s, point/cell %d", kind, n)
		c06Try(o, "shapes/special-ContainsCell-panic/"+kind, what, func() {
			if g := reg.ContainsCell(cell); g != want {
				o.Fail("shapes/special-ContainsCell/"+kind, "ContainsCell = %v on %s, model %v", g, what, want)
			}
		})
		c06Try(o, "shapes/special-IntersectsCell-panic/"+kind, what, func() {
			if g := reg.IntersectsCell(cell); g != want {
				o.Fail("shapes/special-IntersectsCell/"+kind, "IntersectsCell = %v on %s, model %v", g, what, want)
			}
		})
		c06Try(o, "shapes/special-ContainsPointQuery-panic/"+kind, what, func() {
			if g := q.Contains(p); g != want {
				o.Fail("shapes/special-ContainsPointQuery/"+kind, "ContainsPointQuery.Contains = %v on %s, model %v", g, what, want)
			}
		})
	}
}

// c06CheckEdgeless: a shape without edges in a ShapeIndex.  It contains every point iff the
// model says it is full (a 2-dimensional shape with a chain), and no query edge crosses it.
func c06CheckEdgeless(o *Out, c *c06ShapeCase, variant string, sh s2.Shape) {
	if c.NumEdges != 0 {
		return
	}
	kind := c.Kind + variant
	idx := s2.NewShapeIndex()
	idx.Add(sh)
	what := fmt.Sprintf("%s vc=%v", kind, c.VC)
	c06Try(o, "shapes/edgeless-index-panic/"+kind, what, func() {
		for m, model := range w2Models {
			q := s2.NewContainsPointQuery(idx, model)
			for n := 0; n < 5; n++ {
				p := c06Pt(5*n + 1)
				if g := q.Contains(p); g != c.Full {
					o.Fail("shapes/edgeless-Contains/"+kind, "ContainsPointQuery(%s).Contains = %v for an index holding only %s, model (IsFull) %v", w2ModelNames[m], g, what, c.Full)
				}
				if g := q.ShapeContains(sh, p); g != c.Full {
					o.Fail("shapes/edgeless-ShapeContains/"+kind, "ContainsPointQuery(%s).ShapeContains = %v for %s, model (IsFull) %v", w2ModelNames[m], g, what, c.Full)
				}
			}
		}
		ceq := s2.NewCrossingEdgeQuery(idx)
		a, b := c06Pt(2), c06Pt(9)
		if r := ceq.Crossings(a, b, sh, s2.CrossingTypeAll); len(r) != 0 {
			o.Fail("shapes/edgeless-Crossings/"+kind, "Crossings = %v for %s", r, what)
		}
		if r := ceq.CrossingsEdgeMap(a, b, s2.CrossingTypeAll); len(r) != 0 {
			o.Fail("shapes/edgeless-CrossingsEdgeMap/"+kind, "CrossingsEdgeMap has %d entries for %s", len(r), what)
		}
	})
}

func opShape(raw json.RawMessage, o *Out) {
	var c c06ShapeCase
	if err := json.Unmarshal(raw, &c); err != nil {
		panic(err)
	}
	// non-trivial: more than one chain, or a closed chain (wrap-around edge), or an empty/full special case
	o.nontrivial = c.NumChains > 1 || (c.Dim == 2) || c.NumEdges == 0
	o.sample = map[string]any{"op": "shape", "kind": c.Kind, "vc": c.VC, "depth": c.Depth, "edges": c.Edges, "chains": c.Chains}
	flat := func() []s2.Point {
		t := make([]s2.Point, c.NV)
		for i := range t {
			t[i] = c06Pt(i)
		}
		return t
	}
	split := func(t []s2.Point) [][]s2.Point {
		var out [][]s2.Point
		k := 0
		for _, n := range c.VC {
			out = append(out, t[k:k+n])
			k += n
		}
		return out
	}
	switch c.Kind {
	case "PointVector":
		t := flat()
		pv := s2.PointVector(append([]s2.Point(nil), t...))
		c06CheckShape(o, &c, "", &pv, t)
	case "Polyline":
		t := flat()
		pl := s2.Polyline(append([]s2.Point(nil), t...))
		c06CheckShape(o, &c, "", &pl, t)
	case "LaxPolyline":
		t := flat()
		c06CheckShape(o, &c, "", s2.LaxPolylineFromPoints(t), t)
		pl := s2.Polyline(append([]s2.Point(nil), t...))
		c06CheckShape(o, &c, "/FromPolyline", s2.LaxPolylineFromPolyline(pl), t)
	case "LaxLoop":
		t := flat()
		c06CheckShape(o, &c, "", s2.LaxLoopFromPoints(t), t)
		if c.NV >= 3 {
			t2 := c06Ngon(c.NV, 0.5, 0.2, 0.1)
			c06CheckShape(o, &c, "/FromLoop", s2.LaxLoopFromLoop(s2.LoopFromPoints(t2)), t2)
		}
	case "Loop":
		t := c06Ngon(c.NV, 0.5, 0.2, 0.1)
		c06CheckShape(o, &c, "", s2.LoopFromPoints(t), t)
	case "EmptyLoop":
		c06CheckShape(o, &c, "", s2.EmptyLoop(), nil)
		c06CheckSpecialRegion(o, &c, "", s2.EmptyLoop(), s2.EmptyLoop())
	case "FullLoop":
		c06CheckShape(o, &c, "", s2.FullLoop(), nil)
		c06CheckSpecialRegion(o, &c, "", s2.FullLoop(), s2.FullLoop())
	case "EmptyPolygon":
		c06CheckShape(o, &c, "", s2.PolygonFromLoops(nil), nil)
		c06CheckShape(o, &c, "/FromEmptyLoop", s2.PolygonFromLoops([]*s2.Loop{s2.EmptyLoop()}), nil)
		c06CheckShape(o, &c, "/Lax", s2.LaxPolygonFromPolygon(s2.PolygonFromLoops(nil)), nil)
		c06CheckSpecialRegion(o, &c, "", s2.PolygonFromLoops(nil), s2.PolygonFromLoops(nil))
	case "FullPolygon":
		c06CheckShape(o, &c, "", s2.FullPolygon(), nil)
		c06CheckShape(o, &c, "/FromFullLoop", s2.PolygonFromLoops([]*s2.Loop{s2.FullLoop()}), nil)
		c06CheckShape(o, &c, "/Lax", s2.LaxPolygonFromPolygon(s2.FullPolygon()), nil)
		c06CheckSpecialRegion(o, &c, "", s2.FullPolygon(), s2.FullPolygon())
		c06CheckSpecialRegion(o, &c, "/FromFullLoop", s2.PolygonFromLoops([]*s2.Loop{s2.FullLoop()}), s2.PolygonFromLoops([]*s2.Loop{s2.FullLoop()}))
	case "LaxPolygon":
		t := flat()
		c06CheckShape(o, &c, "", s2.LaxPolygonFromPoints(split(t)), t)
	case "Polygon":
		c06ManyLoopsOnce.Do(func() { c06ManyLoops(o) })
		for _, variant := range []string{"", "/Oriented"} {
			pts := c06Forest(c.VC, c.Depth)
			loops := make([]*s2.Loop, len(pts))
			for i, lp := range pts {
				lp = append([]s2.Point(nil), lp...)
				if variant == "/Oriented" && c.Holes[i] {
					// holes clockwise: the interior of the polygon is on the left of every loop
					for a, b := 0, len(lp)-1; a < b; a, b = a+1, b-1 {
						lp[a], lp[b] = lp[b], lp[a]
					}
				}
				loops[i] = s2.LoopFromPoints(lp)
			}
			var p *s2.Polygon
			if variant == "" {
				p = s2.PolygonFromLoops(loops)
			} else {
				p = s2.PolygonFromOrientedLoops(loops)
			}
			// the vertex table is read from the polygon's own loops (Loop.Vertex is not under
			// test here); the loop order / hole flags must be those of the abstract shape
			okStruct := p.NumLoops() == len(c.VC)
			var t []s2.Point
			for i := 0; okStruct && i < p.NumLoops(); i++ {
				l := p.Loop(i)
				if l.NumVertices() != c.VC[i] || l.IsHole() != c.Holes[i] {
					okStruct = false
				}
				t = append(t, l.Vertices()...)
			}
			if !okStruct {
				o.Fail("shapes/polygon-structure/Polygon"+variant, "polygon built from the nesting vc=%v depth=%v has %d loops with a different order/depth", c.VC, c.Depth, p.NumLoops())
				continue
			}
			c06CheckShape(o, &c, variant, p, t)
			// LaxPolygonFromPolygon copies the loops in stored order (holes are *not* reversed
			// there); its chain structure is that of a LaxPolygon with the same lengths.
			if variant == "" {
				lc := c
				lc.Kind = "LaxPolygon"
				lc.Holes = make([]bool, len(c.Holes))
				lc.Edges, lc.ChainEdges = c.LaxEdges, c.LaxChainEdges
				for _, h := range c.Holes {
					if h {
						// observation only: the C++ original reverses the holes in this conversion
						o.Count("observation_LaxPolygonFromPolygon_keeps_hole_vertex_order")
						break
					}
				}
				c06CheckShape(o, &lc, "/FromPolygon", s2.LaxPolygonFromPolygon(p), t)
			}
		}
	default:
		panic("unknown shape kind " + c.Kind)
	}
}

var c06ManyLoopsOnce sync.Once

// c06ManyLoops: the chain contract of Shapes.tla (Edge(e) = ChainEdge(ChainPosition(e)), chains contiguous,
// chain i = the oriented edges of loop i) on polygons with more loops than the linear-search limit of
// Polygon.Edge/ChainPosition (12), with loops of different lengths, before and after Invert (which
// reorders the loops: the largest one comes first) and after a second Invert.
func c06ManyLoops(o *Out) {
	for _, n := range []int{13, 14, 20} {
		vc, depth := make([]int, n), make([]int, n)
		for i := range vc {
			vc[i] = 3 + i%9
			if i == n-1 {
				vc[i] = 12 // the largest loop is the last one
			}
		}
		p := s2.PolygonFromLoops(func() []*s2.Loop {
			var ls []*s2.Loop
			for _, lp := range c06Forest(vc, depth) {
				ls = append(ls, s2.LoopFromPoints(lp))
			}
			return ls
		}())
		for step, name := range []string{"built", "Invert", "Invert;Invert"} {
			if step > 0 {
				p.Invert()
			}
			o.Count("many_loop_polygon_checks")
			key := fmt.Sprintf("shapes/many-loops/%s", name)
			e := 0
			for i := 0; i < p.NumLoops(); i++ {
				l := p.Loop(i)
				if ch := p.Chain(i); ch.Start != e || ch.Length != l.NumVertices() {
					o.Fail(key+"/Chain", "polygon of %d loops (%s): Chain(%d) = %+v, the loops before it have %d edges and loop %d has %d vertices", n, name, i, ch, e, i, l.NumVertices())
					return
				}
				for j := 0; j < l.NumVertices(); j, e = j+1, e+1 {
					want := s2.Edge{V0: l.OrientedVertex(j), V1: l.OrientedVertex(j + 1)}
					if got := p.Edge(e); got != want {
						o.Fail(key+"/Edge", "polygon of %d loops (%s): Edge(%d) is not edge %d of loop %d", n, name, e, j, i)
						return
					}
					if got := p.ChainEdge(i, j); got != want {
						o.Fail(key+"/ChainEdge", "polygon of %d loops (%s): ChainEdge(%d,%d) is not edge %d of loop %d", n, name, i, j, j, i)
						return
					}
					if cp := p.ChainPosition(e); cp.ChainID != i || cp.Offset != j {
						o.Fail(key+"/ChainPosition", "polygon of %d loops (%s): ChainPosition(%d) = %+v, want chain %d offset %d", n, name, e, cp, i, j)
						return
					}
				}
			}
			if e != p.NumEdges() {
				o.Fail(key+"/NumEdges", "polygon of %d loops (%s): NumEdges() = %d, its loops have %d vertices", n, name, p.NumEdges(), e)
				return
			}
		}
	}
}

// ===================================================================================
// World W2: embedding of Grid.tla cases
// ===================================================================================

type w2Piece struct {
	Kind string
	P    []int
}

// w2Shape is one shape record of a Gen_Grid case with the model's answer tables.
type w2Shape struct {
	Dim    int
	Face   int
	Step   int
	Inv    bool   // complement of the pieces: contains the rest of its face and the other faces
	Kind   string // the concrete Go type chosen by the model
	Pcs    []w2Piece
	Depths []int
	Loops  [][][2]int
	NEdges int        `json:"nedges"`
	InM    [][]int    `json:"inM"`    // [j][i] 1 = cell (i,j) in the region
	VClass [][]int    `json:"vclass"` // [J][I] 0 out, 1 in, 2 boundary
	CClass [][][]int  `json:"cclass"` // [d+1][cj][ci], d = level - G in -1..1
	Met    [][][5]int `json:"met"`    // per model edge: rectangles {level, ilo, ihi, jlo, jhi}
	DeepC  []string   `json:"deepC"`  // by class of the level-(G+1) ancestor: demanded ContainsCell of a deeper cell
	DeepI  []string   `json:"deepI"`  // ... demanded IntersectsCell ("T", "F", "U")
}

type w2Query struct {
	Q [4]int
	Y [][]int
	U [][]int
}

type w2Case struct {
	Op      string
	G       int
	Face    int
	KV      int `json:"kv"`
	Shapes  []w2Shape
	Queries []w2Query
}

// w2Vertex embeds grid vertex (i,j) of level g on a face as the corresponding Cell.Vertex.
func w2Vertex(face, g, i, j int) s2.Point {
	S := 1 << uint(g)
	ci, cj, k := i, j, 0
	hi, hj := i == S, j == S
	if hi {
		ci = S - 1
	}
	if hj {
		cj = S - 1
	}
	switch {
	case hi && hj:
		k = 2
	case hi:
		k = 1
	case hj:
		k = 3
	}
	return s2.CellFromCellID(emb.FromFaceIJ(face, g, ci, cj)).Vertex(k)
}

// w2Probe is the centre of cell (pi,pj) of the given level.
func w2Probe(face, level, pi, pj int) s2.Point { return emb.FromFaceIJ(face, level, pi, pj).Point() }

func w2Pts(face, g int, vs [][2]int) []s2.Point {
	out := make([]s2.Point, len(vs))
	for n, v := range vs {
		out[n] = w2Vertex(face, g, v[0], v[1])
	}
	return out
}

func w2Rev(p []s2.Point) []s2.Point {
	out := make([]s2.Point, len(p))
	for n := range p {
		out[len(p)-1-n] = p[n]
	}
	return out
}

// w2Obj is a realised shape.
type w2Obj struct {
	k       int
	sh      *w2Shape
	kind    string
	shape   s2.Shape
	loop    *s2.Loop
	poly    *s2.Polygon
	pts     [][]s2.Point // embedded vertex sequences in model order
	vset    map[s2.Point]bool
	toReal  []int // model edge -> real edge id
	toModel []int // real edge id -> model edge
}

// w2Realise builds the real shape.  Returns nil (after recording a failure) when the real
// shape does not expose exactly the model's edge set.
func w2Realise(o *Out, c *w2Case, k int, kind string) *w2Obj {
	sh := &c.Shapes[k]
	ob := &w2Obj{k: k, sh: sh, kind: kind, vset: map[s2.Point]bool{}}
	for _, l := range sh.Loops {
		p := w2Pts(sh.Face, c.G, l)
		ob.pts = append(ob.pts, p)
		for _, v := range p {
			ob.vset[v] = true
		}
	}
	var model []s2.Edge
	switch sh.Dim {
	case 0:
		for _, v := range ob.pts[0] {
			model = append(model, s2.Edge{V0: v, V1: v})
		}
	case 1:
		for n := 0; n+1 < len(ob.pts[0]); n++ {
			model = append(model, s2.Edge{V0: ob.pts[0][n], V1: ob.pts[0][n+1]})
		}
	default:
		for _, p := range ob.pts {
			for n := range p {
				model = append(model, s2.Edge{V0: p[n], V1: p[(n+1)%len(p)]})
			}
		}
	}
	cp := func(p []s2.Point) []s2.Point { return append([]s2.Point(nil), p...) }
	switch kind {
	case "PointVector":
		pv := s2.PointVector(cp(ob.pts[0]))
		ob.shape = &pv
	case "Polyline":
		pl := s2.Polyline(cp(ob.pts[0]))
		ob.shape = &pl
	case "LaxPolyline":
		ob.shape = s2.LaxPolylineFromPoints(ob.pts[0])
	case "Loop":
		ob.loop = s2.LoopFromPoints(cp(ob.pts[0]))
		ob.shape = ob.loop
	case "LaxLoop":
		ob.shape = s2.LaxLoopFromPoints(ob.pts[0])
	case "LaxPolygon":
		ob.shape = s2.LaxPolygonFromPoints(ob.pts)
	case "Polygon", "PolygonNested":
		loops := make([]*s2.Loop, len(ob.pts))
		for n, p := range ob.pts {
			if kind == "PolygonNested" && sh.Depths[n]%2 == 1 && !sh.Inv {
				loops[n] = s2.LoopFromPoints(w2Rev(p)) // all loops counter-clockwise
			} else {
				loops[n] = s2.LoopFromPoints(cp(p))
			}
		}
		if kind == "PolygonNested" {
			ob.poly = s2.PolygonFromLoops(loops)
		} else {
			ob.poly = s2.PolygonFromOrientedLoops(loops)
		}
		ob.shape = ob.poly
	default:
		panic("w2Realise: kind " + kind)
	}
	// one edge set: the real shape's edges are exactly the model's edges
	ne := ob.shape.NumEdges()
	ob.toReal = make([]int, len(model))
	ob.toModel = make([]int, ne)
	idx := make(map[s2.Edge]int, len(model))
	for m, e := range model {
		idx[e] = m
		ob.toReal[m] = -1
	}
	ok := ne == len(model)
	for e := 0; e < ne && ok; e++ {
		m, found := idx[ob.shape.Edge(e)]
		if !found || ob.toReal[m] != -1 {
			ok = false
			break
		}
		ob.toReal[m] = e
		ob.toModel[e] = m
	}
	if !ok {
		o.Fail("w2/edge-set/"+kind, "shape %d (%s) g=%d face=%d pieces=%v step=%d: the %d edges of the real shape are not the model's %d boundary edges",
			k, kind, c.G, sh.Face, sh.Pcs, sh.Step, ne, len(model))
		return nil
	}
	return ob
}

// w2BruteForce is the code's own brute force over all edges of the shape (crossing parity
// from the shape's reference point).  It is undefined (ok = false) when the query point is
// exactly antipodal to the reference point: the segment between them is not an S2 edge.
func w2BruteForce(shape s2.Shape, p s2.Point) (val, ok bool) {
	if shape.Dimension() == 2 && shape.NumEdges() > 0 {
		if ref := shape.ReferencePoint().Point; ref.Vector == p.Vector.Mul(-1) {
			return false, false
		}
	}
	return s2.VerifContainsBruteForce(shape, p), true
}

// ---- index cells -------------------------------------------------------------------

func w2RangeMin(id s2.CellID) uint64 { u := uint64(id); return u - ((u & -u) - 1) }
func w2RangeMax(id s2.CellID) uint64 { u := uint64(id); return u + ((u & -u) - 1) }

// w2InRegion is the model's answer for the centre of cell (ci,cj) of the given level >= G.
func (sh *w2Shape) inCell(g, level, ci, cj int) bool {
	d := uint(level - g)
	return sh.InM[cj>>d][ci>>d] == 1
}

type w2Index struct {
	cells []s2.VerifIndexCell
	// per cell, per shape id: clipped shape
	clip []map[int32]*s2.VerifClipped
	eset []map[int32]map[int]bool
}

func w2ReadIndex(idx *s2.ShapeIndex) *w2Index {
	x := &w2Index{cells: s2.VerifIndexCells(idx)}
	x.clip = make([]map[int32]*s2.VerifClipped, len(x.cells))
	x.eset = make([]map[int32]map[int]bool, len(x.cells))
	for n := range x.cells {
		x.clip[n] = map[int32]*s2.VerifClipped{}
		x.eset[n] = map[int32]map[int]bool{}
		for m := range x.cells[n].Shapes {
			cs := &x.cells[n].Shapes[m]
			x.clip[n][cs.ShapeID] = cs
			es := make(map[int]bool, len(cs.Edges))
			for _, e := range cs.Edges {
				es[e] = true
			}
			x.eset[n][cs.ShapeID] = es
		}
	}
	return x
}

// locate returns the position of the index cell that contains id (or -1), and the range
// [lo,hi) of index cells contained in id.
func (x *w2Index) locate(id s2.CellID) (container, lo, hi int) {
	rmin, rmax := w2RangeMin(id), w2RangeMax(id)
	container = -1
	lo = len(x.cells)
	for a, b := 0, len(x.cells); a < b; {
		m := (a + b) / 2
		if w2RangeMax(x.cells[m].ID) < rmin {
			a = m + 1
			lo = a
		} else {
			b = m
			lo = b
		}
	}
	hi = lo
	if lo < len(x.cells) && w2RangeMin(x.cells[lo].ID) <= rmin && w2RangeMax(x.cells[lo].ID) >= rmax {
		return lo, lo, lo
	}
	for hi < len(x.cells) && w2RangeMin(x.cells[hi].ID) <= rmax {
		hi++
	}
	return -1, lo, hi
}

// w2CheckIndex checks the structural invariants of a built index against the model:
// sorted and disjoint cells, containsCenter of every cell, every edge listed in every
// cell whose closed square it certainly meets.  objs[id] is the shape with index id.
func w2CheckIndex(o *Out, c *w2Case, tag string, idx *s2.ShapeIndex, objs []*w2Obj) {
	x := w2ReadIndex(idx)
	desc := func() string { return fmt.Sprintf("g=%d face=%d kv=%d %s", c.G, c.Face, c.KV, w2Describe(c)) }
	for n := 1; n < len(x.cells); n++ {
		if !(w2RangeMax(x.cells[n-1].ID) < w2RangeMin(x.cells[n].ID)) {
			o.Fail("w2/index-sorted-disjoint/"+tag, "index cells %v and %v out of order or overlapping: %s", x.cells[n-1].ID, x.cells[n].ID, desc())
		}
	}
	o.CountN("index_cells", len(x.cells))
	for n, ic := range x.cells {
		face := int(uint64(ic.ID) >> 61)
		level := emb.RawLevel(ic.ID)
		ci, cj, _ := emb.IJ(ic.ID)
		center := ic.ID.Point()
		if len(ic.Shapes) == 0 {
			o.Fail("w2/index-empty-cell/"+tag, "index cell %v has no shapes: %s", ic.ID, desc())
		}
		for id, ob := range objs {
			cs := x.clip[n][int32(id)]
			got := cs != nil && cs.ContainsCenter
			sh := ob.sh
			want, predicted := false, true
			switch {
			case sh.Dim != 2:
				want = false
			case sh.Face != face:
				want = sh.Inv // a cell centre is interior to its face
			case level >= c.G:
				want = sh.inCell(c.G, level, ci, cj)
			default:
				// the centre of a coarser cell is a grid vertex
				sft := uint(c.G - level - 1)
				vc := sh.VClass[(2*cj+1)<<sft][(2*ci+1)<<sft]
				want, predicted = vc == 1, vc != 2
				if !predicted {
					o.Count("index_cell_centre_on_boundary")
				}
			}
			if predicted {
				o.Count("containsCenter_predicted")
				if got != want {
					o.Fail("w2/containsCenter/"+tag+"/"+ob.kind, "index cell %v (face %d level %d ij=%d,%d): containsCenter=%v for shape %d (%s), model %v: %s",
						ic.ID, face, level, ci, cj, got, id, ob.kind, want, desc())
				}
			}
			if sh.Dim == 2 {
				if bf, ok := w2BruteForce(ob.shape, center); ok && bf != got {
					o.Fail("w2/containsCenter-vs-bruteforce/"+tag+"/"+ob.kind, "index cell %v: containsCenter=%v for shape %d (%s) but brute force over all edges says %v (model: %v predicted=%v): %s",
						ic.ID, got, id, ob.kind, bf, want, predicted, desc())
				}
			}
		}
	}
	// every edge in every cell it meets
	for id, ob := range objs {
		sh := ob.sh
		for m, rects := range sh.Met {
			e := ob.toReal[m]
			anywhere := false
			for _, r := range rects {
				for i := r[1]; i <= r[2]; i++ {
					for j := r[3]; j <= r[4]; j++ {
						w := emb.FromFaceIJ(sh.Face, r[0], i, j)
						cont, lo, hi := x.locate(w)
						switch {
						case cont >= 0:
							o.Count("edge_in_cell_checked")
							if x.eset[cont][int32(id)][e] {
								anywhere = true
							} else {
								o.Fail("w2/edge-missing-from-cell/"+tag+"/"+ob.kind, "edge %d (model edge %d) of shape %d (%s) meets the closed square of cell level %d ij=%d,%d on face %d but is not listed in the index cell %v that contains it: %s",
									e, m, id, ob.kind, r[0], i, j, sh.Face, x.cells[cont].ID, desc())
							}
						case hi > lo:
							found := false
							for n := lo; n < hi; n++ {
								if x.eset[n][int32(id)][e] {
									found = true
								}
							}
							o.Count("edge_in_subdivided_cell_checked")
							if found {
								anywhere = true
							} else {
								o.Fail("w2/edge-missing-from-cell/"+tag+"/"+ob.kind, "edge %d of shape %d (%s) meets cell level %d ij=%d,%d on face %d but none of the %d index cells inside it lists the edge: %s",
									e, id, ob.kind, r[0], i, j, sh.Face, hi-lo, desc())
							}
						default:
							o.Fail("w2/edge-missing-from-cell/"+tag+"/"+ob.kind, "edge %d of shape %d (%s) meets cell level %d ij=%d,%d on face %d but no index cell covers that cell: %s",
								e, id, ob.kind, r[0], i, j, sh.Face, desc())
						}
					}
				}
			}
			if len(rects) > 0 && !anywhere {
				o.Fail("w2/edge-in-no-cell/"+tag+"/"+ob.kind, "edge %d of shape %d (%s) is listed in no index cell: %s", e, id, ob.kind, desc())
			}
		}
	}
}

func w2Describe(c *w2Case) string {
	s := ""
	for k, sh := range c.Shapes {
		if k > 0 {
			s += " | "
		}
		switch sh.Dim {
		case 2:
			if sh.Inv {
				s += "complement-of-"
			}
			s += fmt.Sprintf("poly(face %d step %d %v)", sh.Face, sh.Step, sh.Pcs)
		case 1:
			s += fmt.Sprintf("line(face %d %v)", sh.Face, sh.Loops[0])
		default:
			s += fmt.Sprintf("points(face %d %v)", sh.Face, sh.Loops[0])
		}
	}
	return s
}

// ---- ContainsPointQuery -----------------------------------------------------------------

type w2Expect struct {
	val       bool
	predicted bool
}

// w2ExpectVertexModel is the model's answer for shape ob and a point that is either a probe
// (centre of cell (pi,pj) of level plevel > G on face) or a grid vertex (plevel = -1, (pi,pj) = (I,J)).
// onVertex tells whether the point is a vertex of the shape (identity).
func w2ExpectAt(c *w2Case, ob *w2Obj, face, plevel, pi, pj int, p s2.Point, model s2.VertexModel) w2Expect {
	sh := ob.sh
	S := 1 << uint(c.G)
	if sh.Dim != 2 {
		// points and polylines contain exactly their vertices, and only in the closed model
		return w2Expect{model == s2.VertexModelClosed && ob.vset[p], true}
	}
	if plevel >= 0 {
		if sh.Face != face {
			// a probe is interior to its face; regions are confined to theirs, complements contain the others
			return w2Expect{sh.Inv, true}
		}
		return w2Expect{sh.inCell(c.G, plevel, pi, pj), true}
	}
	if sh.Face != face {
		if pi > 0 && pi < S && pj > 0 && pj < S {
			return w2Expect{sh.Inv, true}
		}
		return w2Expect{false, false}
	}
	switch sh.VClass[pj][pi] {
	case 0:
		return w2Expect{false, true}
	case 1:
		return w2Expect{true, true}
	}
	if ob.vset[p] {
		switch model {
		case s2.VertexModelOpen:
			return w2Expect{false, true}
		case s2.VertexModelClosed:
			return w2Expect{true, true}
		}
	}
	return w2Expect{false, false}
}

var w2Models = []s2.VertexModel{s2.VertexModelOpen, s2.VertexModelSemiOpen, s2.VertexModelClosed}
var w2ModelNames = []string{"open", "semiopen", "closed"}

// w2CheckContainsQueries runs ContainsPointQuery under the three vertex models on all probes
// of level G+1 (and G+2 when deep) and all grid vertices of every face of the scene.
func w2CheckContainsQueries(o *Out, c *w2Case, idx *s2.ShapeIndex, objs []*w2Obj, faces []int, deep bool) {
	S := 1 << uint(c.G)
	desc := func() string { return fmt.Sprintf("g=%d kv=%d %s", c.G, c.KV, w2Describe(c)) }
	queries := make([]*s2.ContainsPointQuery, 3)
	for m := range w2Models {
		queries[m] = s2.NewContainsPointQuery(idx, w2Models[m])
	}
	check := func(face, plevel, pi, pj int, p s2.Point, what string) {
		for m, q := range queries {
			any, allPred := false, true
			var wantSet []int
			for id, ob := range objs {
				ex := w2ExpectAt(c, ob, face, plevel, pi, pj, p, w2Models[m])
				got := q.ShapeContains(ob.shape, p)
				if ex.predicted {
					o.Count("shapecontains_predicted")
					if got != ex.val {
						o.Fail("w2/ShapeContains/"+w2ModelNames[m]+"/"+ob.kind, "ContainsPointQuery(%s).ShapeContains(shape %d %s, %s on face %d) = %v, model %v: %s",
							w2ModelNames[m], id, ob.kind, what, face, got, ex.val, desc())
					}
					if ex.val {
						any = true
						wantSet = append(wantSet, id)
					}
				} else {
					allPred = false
					o.Count("shapecontains_boundary_unpredicted")
				}
				// index path = brute force over all edges (semi-open is the brute-force rule)
				if w2Models[m] == s2.VertexModelSemiOpen {
					if bf, ok := w2BruteForce(ob.shape, p); ok && bf != got {
						o.Fail("w2/ShapeContains-vs-bruteforce/"+ob.kind, "semi-open ShapeContains(shape %d %s, %s on face %d) = %v but brute force over all edges = %v: %s",
							id, ob.kind, what, face, got, bf, desc())
					}
				}
			}
			if allPred {
				if got := q.Contains(p); got != any {
					o.Fail("w2/Contains/"+w2ModelNames[m], "ContainsPointQuery(%s).Contains(%s on face %d) = %v, model %v: %s", w2ModelNames[m], what, face, got, any, desc())
				}
				gotSet := map[s2.Shape]bool{}
				for _, s := range q.ContainingShapes(p) {
					gotSet[s] = true
				}
				okSet := len(gotSet) == len(wantSet)
				for _, id := range wantSet {
					if !gotSet[objs[id].shape] {
						okSet = false
					}
				}
				if !okSet {
					o.Fail("w2/ContainingShapes/"+w2ModelNames[m], "ContainsPointQuery(%s).ContainingShapes(%s on face %d) has %d shapes, model says shapes %v: %s",
						w2ModelNames[m], what, face, len(gotSet), wantSet, desc())
				}
			}
		}
	}
	for _, face := range faces {
		levels := []int{c.G + 1}
		if deep {
			levels = append(levels, c.G+2)
		}
		for _, lv := range levels {
			n := S << uint(lv-c.G)
			for pi := 0; pi < n; pi++ {
				for pj := 0; pj < n; pj++ {
					check(face, lv, pi, pj, w2Probe(face, lv, pi, pj), fmt.Sprintf("probe level %d ij=%d,%d", lv, pi, pj))
				}
			}
		}
		for I := 0; I <= S; I++ {
			for J := 0; J <= S; J++ {
				check(face, -1, I, J, w2Vertex(face, c.G, I, J), fmt.Sprintf("grid vertex %d,%d", I, J))
			}
		}
	}
}

// ---- CrossingEdgeQuery ------------------------------------------------------------------

func w2SortedUnique(a []int) bool {
	for n := 1; n < len(a); n++ {
		if a[n-1] >= a[n] {
			return false
		}
	}
	return true
}

func w2CheckCrossings(o *Out, c *w2Case, idx *s2.ShapeIndex, objs []*w2Obj, faces []int) {
	desc := func() string { return fmt.Sprintf("g=%d kv=%d %s", c.G, c.KV, w2Describe(c)) }
	ceq := s2.NewCrossingEdgeQuery(idx)
	types := []s2.CrossingType{s2.CrossingTypeInterior, s2.CrossingTypeAll}
	tnames := []string{"interior", "all"}
	run := func(a, b s2.Point, face int, qd *w2Query, what string) {
		for tn, ty := range types {
			em := ceq.CrossingsEdgeMap(a, b, ty)
			for id, ob := range objs {
				got := ceq.Crossings(a, b, ob.shape, ty)
				gotSet := map[int]bool{}
				for _, e := range got {
					gotSet[e] = true
				}
				if !w2SortedUnique(got) {
					o.Fail("w2/Crossings-order/"+tnames[tn]+"/"+ob.kind, "Crossings(%s, shape %d %s) = %v is not sorted/unique: %s", what, id, ob.kind, got, desc())
				}
				// the code's own brute force over all edges
				bf := map[int]bool{}
				for e := 0; e < ob.shape.NumEdges(); e++ {
					ed := ob.shape.Edge(e)
					sg := s2.CrossingSign(a, b, ed.V0, ed.V1)
					if sg == s2.Cross || (ty == s2.CrossingTypeAll && sg == s2.MaybeCross) {
						bf[e] = true
					}
				}
				same := len(bf) == len(gotSet)
				for e := range bf {
					if !gotSet[e] {
						same = false
					}
				}
				o.Count("crossings_vs_bruteforce")
				if !same {
					o.Fail("w2/Crossings-vs-bruteforce/"+tnames[tn]+"/"+ob.kind, "Crossings(%s, shape %d %s, %s) = %v but CrossingSign over all %d edges gives %d crossing edges %v: %s",
						what, id, ob.kind, tnames[tn], got, ob.shape.NumEdges(), len(bf), w2Keys(bf), desc())
				}
				// edge map agrees with the per-shape call
				me := em[ob.shape]
				sameMap := len(me) == len(got)
				for n := range me {
					if sameMap && me[n] != got[n] {
						sameMap = false
					}
				}
				if !sameMap {
					o.Fail("w2/CrossingsEdgeMap/"+tnames[tn]+"/"+ob.kind, "CrossingsEdgeMap(%s)[shape %d %s] = %v but Crossings = %v: %s", what, id, ob.kind, me, got, desc())
				}
				if _, present := em[ob.shape]; present && len(me) == 0 {
					o.Fail("w2/CrossingsEdgeMap-empty-entry/"+tnames[tn], "CrossingsEdgeMap(%s) has an entry without edges for shape %d: %s", what, id, desc())
				}
				// the model's brute force (query segments on u=const / v=const lines only)
				if qd != nil {
					must, unk := map[int]bool{}, map[int]bool{}
					if ob.sh.Face == face {
						for _, m := range qd.Y[id] {
							must[ob.toReal[m]] = true
						}
						for _, m := range qd.U[id] {
							unk[ob.toReal[m]] = true
						}
					}
					okm := true
					for e := range must {
						if !gotSet[e] {
							okm = false
						}
					}
					for e := range gotSet {
						if !must[e] && !unk[e] {
							okm = false
						}
					}
					o.Count("crossings_predicted")
					if len(must) > 0 {
						o.Count("crossings_predicted_nonempty")
					}
					if !okm {
						o.Fail("w2/Crossings/"+tnames[tn]+"/"+ob.kind, "Crossings(%s, shape %d %s, %s) = %v, model: must %v may %v: %s",
							what, id, ob.kind, tnames[tn], got, w2Keys(must), w2Keys(unk), desc())
					}
				}
			}
			if len(em) > len(objs) {
				o.Fail("w2/CrossingsEdgeMap-extra/"+tnames[tn], "CrossingsEdgeMap(%s) has %d entries for %d shapes: %s", what, len(em), len(objs), desc())
			}
		}
	}
	S := 1 << uint(c.G)
	for _, face := range faces {
		for n := range c.Queries {
			qd := &c.Queries[n]
			q := qd.Q
			if q[0] == q[2] && q[1] == q[3] {
				continue
			}
			a := w2Probe(face, c.G+1, (q[0]-1)/2, (q[1]-1)/2)
			b := w2Probe(face, c.G+1, (q[2]-1)/2, (q[3]-1)/2)
			run(a, b, face, qd, fmt.Sprintf("query %v (quad units) on face %d", q, face))
			// degenerate companions (not predicted by the model; index vs brute force only):
			// between the grid vertices next to the probes, and from a grid vertex to a probe
			va := [2]int{(q[0] + 1) / 4, (q[1] + 1) / 4}
			vb := [2]int{(q[2] + 1) / 4, (q[3] + 1) / 4}
			if va != vb && va[0] <= S && vb[0] <= S && va[1] <= S && vb[1] <= S {
				pa, pb := w2Vertex(face, c.G, va[0], va[1]), w2Vertex(face, c.G, vb[0], vb[1])
				run(pa, pb, face, nil, fmt.Sprintf("grid vertices %v-%v on face %d", va, vb, face))
				run(pa, b, face, nil, fmt.Sprintf("grid vertex %v to probe %v on face %d", va, q[2:], face))
			}
		}
	}
}

func w2Keys(m map[int]bool) []int {
	out := []int{}
	for k := range m {
		out = append(out, k)
	}
	for a := 1; a < len(out); a++ {
		for b := a; b > 0 && out[b-1] > out[b]; b-- {
			out[b-1], out[b] = out[b], out[b-1]
		}
	}
	return out
}

// ---- ContainsCell / IntersectsCell ------------------------------------------------------

// w2CheckCells compares ContainsCell / IntersectsCell of a Loop or Polygon with the model's
// cell classes for all cells of levels G-1..G+1 of the shape's face.
// class 0: disjoint; 1: inside, clear of the boundary; 2: inside, touching the boundary
// (ContainsCell may conservatively be false); 3: boundary passes through; 4: outside, touching.
func w2CheckCells(o *Out, c *w2Case, ob *w2Obj, tag string) {
	var reg s2.Region
	switch {
	case ob.loop != nil:
		reg = ob.loop
	case ob.poly != nil:
		reg = ob.poly
	default:
		return
	}
	sh := ob.sh
	if len(sh.CClass) != 3 {
		return
	}
	for d := -1; d <= 1; d++ {
		level := c.G + d
		tab := sh.CClass[d+1]
		for cj := range tab {
			for ci := range tab[cj] {
				cell := s2.CellFromCellID(emb.FromFaceIJ(sh.Face, level, ci, cj))
				cls := tab[cj][ci]
				gc, gi := reg.ContainsCell(cell), reg.IntersectsCell(cell)
				o.Count("cell_relations_checked")
				what := fmt.Sprintf("cell level %d ij=%d,%d (class %d) %s g=%d face=%d pieces=%v step=%d", level, ci, cj, cls, ob.kind, c.G, sh.Face, sh.Pcs, sh.Step)
				if wi := cls != 0; gi != wi {
					o.Fail("w2/IntersectsCell/"+tag+"/"+ob.kind+fmt.Sprintf("/class%d", cls), "IntersectsCell = %v, model %v: %s", gi, wi, what)
				}
				if cls == 1 && !gc {
					o.Fail("w2/ContainsCell/"+tag+"/"+ob.kind+"/class1", "ContainsCell = false for a cell inside the region and clear of its boundary: %s", what)
				}
				if (cls == 0 || cls == 3 || cls == 4) && gc {
					o.Fail("w2/ContainsCell/"+tag+"/"+ob.kind+fmt.Sprintf("/class%d", cls), "ContainsCell = true for a cell not inside the region: %s", what)
				}
				if gc && !gi {
					o.Fail("w2/ContainsCell-without-Intersects/"+tag+"/"+ob.kind, "ContainsCell but not IntersectsCell: %s", what)
				}
			}
		}
	}
	w2CheckDeepCells(o, c, ob, reg, tag)
}

// w2CheckDeepCells queries cells placed relative to the cells of the region's own index: the
// first and last leaf cell of every index cell, of its children and of its ancestors, and cells
// on the way down to those leaves.  A cell of level G-1..G+1 has its tabulated class; a deeper
// cell inherits the model's demands from the class of its level-(G+1) ancestor (Grid.tla,
// DeepContains / DeepIntersects).
func w2CheckDeepCells(o *Out, c *w2Case, ob *w2Obj, reg s2.Region, tag string) {
	sh := ob.sh
	if len(sh.DeepC) != 5 || len(sh.DeepI) != 5 {
		return
	}
	var idx *s2.ShapeIndex
	if ob.loop != nil {
		idx = s2.VerifLoopIndex(ob.loop)
	} else {
		idx = s2.VerifPolygonIndex(ob.poly)
	}
	idx.Build()
	targets := map[s2.CellID]bool{}
	addLeaves := func(id s2.CellID) {
		lo, hi := s2.CellID(w2RangeMin(id)), s2.CellID(w2RangeMax(id))
		targets[lo], targets[hi] = true, true
		// cells between the leaf and id
		for _, leaf := range []s2.CellID{lo, hi} {
			path := emb.RawPath(leaf)
			for _, lv := range []int{29, 27, 22, (emb.RawLevel(id) + 31) / 2} {
				if lv > emb.RawLevel(id) && lv <= 30 {
					targets[emb.RawID(sh.Face, path[:lv])] = true
				}
			}
		}
	}
	for _, ic := range s2.VerifIndexCells(idx) {
		if int(uint64(ic.ID)>>61) != sh.Face {
			continue
		}
		path := emb.RawPath(ic.ID)
		addLeaves(ic.ID)
		if len(path) < 30 {
			for k := 0; k < 4; k++ {
				addLeaves(emb.RawID(sh.Face, append(append([]int(nil), path...), k)))
			}
		}
		for up := 1; up <= 2 && len(path)-up >= 0; up++ {
			addLeaves(emb.RawID(sh.Face, path[:len(path)-up]))
		}
	}
	for id := range targets {
		level := emb.RawLevel(id)
		ci, cj, _ := emb.IJ(id)
		var wc, wi string // demanded answers
		var cls int
		switch {
		case level < c.G-1:
			continue
		case level <= c.G+1:
			cls = sh.CClass[level-c.G+1][cj][ci]
			wc, wi = "U", tf(cls != 0)
			if cls == 1 {
				wc = "T"
			} else if cls != 2 {
				wc = "F"
			}
		default:
			d := uint(level - (c.G + 1))
			cls = sh.CClass[2][cj>>d][ci>>d]
			wc, wi = sh.DeepC[cls], sh.DeepI[cls]
		}
		cell := s2.CellFromCellID(id)
		gc, gi := reg.ContainsCell(cell), reg.IntersectsCell(cell)
		o.Count("deep_cell_relations_checked")
		what := fmt.Sprintf("cell %v (level %d, class %d of its level-%d ancestor) %s g=%d face=%d pieces=%v step=%d", id, level, cls, c06MinInt(level, c.G+1), ob.kind, c.G, sh.Face, sh.Pcs, sh.Step)
		if wi != "U" && tf(gi) != wi {
			o.Fail("w2/IntersectsCell-deep/"+tag+"/"+ob.kind, "IntersectsCell = %v, model %s: %s", gi, wi, what)
		}
		if wc != "U" && tf(gc) != wc {
			o.Fail("w2/ContainsCell-deep/"+tag+"/"+ob.kind, "ContainsCell = %v, model %s: %s", gc, wc, what)
		}
	}
}

func c06MinInt(a, b int) int {
	if a < b {
		return a
	}
	return b
}

// ---- the C06 scene op --------------------------------------------------------------------------

func opC06Scene(raw json.RawMessage, o *Out) {
	var c w2Case
	if err := json.Unmarshal(raw, &c); err != nil {
		panic(err)
	}
	objs := make([]*w2Obj, len(c.Shapes))
	faceSet := map[int]bool{}
	var faces []int
	idx := s2.NewShapeIndex()
	nedges := 0
	for k := range c.Shapes {
		ob := w2Realise(o, &c, k, c.Shapes[k].Kind)
		if ob == nil {
			return
		}
		objs[k] = ob
		if id := idx.Add(ob.shape); int(id) != k {
			panic("unexpected shape id")
		}
		nedges += ob.shape.NumEdges()
		if !faceSet[ob.sh.Face] {
			faceSet[ob.sh.Face] = true
			faces = append(faces, ob.sh.Face)
		}
	}
	// The index computes the containment of its first focus point (the start of the cell-id
	// curve, a cube corner) by brute force from each shape's reference point; a lax shape
	// whose reference vertex is exactly antipodal to that corner is outside the domain.
	start := w2Vertex(0, c.G, 0, 0)
	for _, ob := range objs {
		if ob.sh.Dim == 2 && ob.shape.NumEdges() > 0 && ob.shape.ReferencePoint().Point.Vector == start.Vector.Mul(-1) {
			o.Count("scenes_skipped_reference_antipodal_to_curve_start")
			if os.Getenv("W2_NOSKIP") == "" {
				return
			}
		}
	}
	idx.Build()
	o.nontrivial = nedges > 27 || len(objs) > 1
	o.sample = map[string]any{"op": c.Op, "g": c.G, "face": c.Face, "kv": c.KV, "scene": w2Describe(&c), "edges": nedges}
	w2CheckIndex(o, &c, "scene", idx, objs)
	w2CheckContainsQueries(o, &c, idx, objs, faces, c.G <= 3)
	w2CheckCrossings(o, &c, idx, objs, faces)
	for _, ob := range objs {
		w2CheckCells(o, &c, ob, "scene")
	}
}

// ===================================================================================
// C06 (iii): lattice scenes (Gen_InLoop.tla with Op = "c06lattice") on the unit embedding.
// Edges between lattice points span several cube faces; the index answers must equal the
// code's own brute force always, and the model's exact answers where they are robust.
// ===================================================================================

func opC06Lattice(raw json.RawMessage, o *Out) {
	var c struct {
		N     int
		Verts []emb.P3
		Pts   []emb.P3
		Want  []string
		Qs    [][2]emb.P3
		Cross [][]string
		Cells []struct {
			C    [4]int // face, level, i, j
			Cut  bool   // an edge of the loop certainly crosses a side of the cell
			Cin  bool   // a corner of the cell is certainly inside the loop
			Cout bool   // a corner is certainly outside
		}
	}
	if err := json.Unmarshal(raw, &c); err != nil {
		panic(err)
	}
	n := len(c.Verts)
	pts := make([]s2.Point, n)
	isVertex := map[s2.Point]bool{}
	for k, v := range c.Verts {
		pts[k] = emb.Unit(v)
		isVertex[pts[k]] = true
	}
	cp := func() []s2.Point { return append([]s2.Point(nil), pts...) }
	loop := s2.LoopFromPoints(cp())
	laxp := s2.LaxPolygonFromPoints([][]s2.Point{pts})
	pl := s2.Polyline(cp())
	pv := s2.PointVector(cp())
	rev := s2.LoopFromPoints(w2Rev(pts))
	shapes := []s2.Shape{loop, laxp, &pl, &pv, rev}
	names := []string{"Loop", "LaxPolygon", "Polyline", "PointVector", "ReversedLoop"}
	idx := s2.NewShapeIndex()
	for _, sh := range shapes {
		idx.Add(sh)
	}
	idx.Build()
	desc := fmt.Sprintf("lattice loop %v [unit]", c.Verts)
	o.nontrivial = true
	o.sample = map[string]any{"op": "c06lattice", "verts": c.Verts, "queries": len(c.Qs)}

	// (a) index structure
	x := w2ReadIndex(idx)
	o.CountN("lattice_index_cells", len(x.cells))
	for k := 1; k < len(x.cells); k++ {
		if !(w2RangeMax(x.cells[k-1].ID) < w2RangeMin(x.cells[k].ID)) {
			o.Fail("c06lattice/index-sorted-disjoint", "index cells %v, %v: %s", x.cells[k-1].ID, x.cells[k].ID, desc)
		}
	}
	for k, ic := range x.cells {
		center := ic.ID.Point()
		for id, sh := range shapes {
			cs := x.clip[k][int32(id)]
			got := cs != nil && cs.ContainsCenter
			want := false
			if sh.Dimension() == 2 {
				bf, ok := w2BruteForce(sh, center)
				if !ok {
					continue
				}
				want = bf
			}
			if got != want {
				o.Fail("c06lattice/containsCenter-vs-bruteforce/"+names[id], "index cell %v: containsCenter=%v for %s, brute force over all edges %v: %s", ic.ID, got, names[id], want, desc)
			}
		}
	}
	for id, sh := range shapes {
		for e := 0; e < sh.NumEdges(); e++ {
			ed := sh.Edge(e)
			mid := s2.Point{Vector: ed.V0.Add(ed.V1.Vector).Normalize()}
			seen := false
			for wn, w := range []s2.Point{ed.V0, ed.V1, mid} {
				if wn == 2 && ed.V0 == ed.V1 {
					continue
				}
				leaf := s2.CellFromPoint(w).ID()
				cont, _, _ := x.locate(leaf)
				o.Count("lattice_edge_in_cell_checked")
				if cont < 0 {
					o.Fail("c06lattice/edge-missing-from-cell/"+names[id], "no index cell contains the leaf cell of point %d of edge %d of %s: %s", wn, e, names[id], desc)
					continue
				}
				if x.eset[cont][int32(id)][e] {
					seen = true
				} else if wn < 2 {
					// an endpoint lies on the edge exactly: the cell that contains it meets the edge
					o.Fail("c06lattice/edge-missing-from-cell/"+names[id], "edge %d of %s is not listed in index cell %v which contains its endpoint %d: %s", e, names[id], x.cells[cont].ID, wn, desc)
				}
			}
			if !seen {
				o.Fail("c06lattice/edge-in-no-cell/"+names[id], "edge %d of %s is in none of the cells of its endpoints/midpoint: %s", e, names[id], desc)
			}
		}
	}

	// (b) ContainsPointQuery
	queries := make([]*s2.ContainsPointQuery, 3)
	for m := range w2Models {
		queries[m] = s2.NewContainsPointQuery(idx, w2Models[m])
	}
	for k, lp := range c.Pts {
		p := emb.Unit(lp)
		what := fmt.Sprintf("lattice point %v, %s", lp, desc)
		for m, q := range queries {
			model := w2Models[m]
			inLoop := false
			for id, sh := range shapes {
				got := q.ShapeContains(sh, p)
				if id == 0 {
					inLoop = got
				}
				switch {
				case sh.Dimension() < 2:
					if want := model == s2.VertexModelClosed && isVertex[p]; got != want {
						o.Fail("c06lattice/ShapeContains/"+w2ModelNames[m]+"/"+names[id], "ShapeContains = %v, model %v at %s", got, want, what)
					}
				case isVertex[p] && model != s2.VertexModelSemiOpen:
					if want := model == s2.VertexModelClosed; got != want {
						o.Fail("c06lattice/ShapeContains/"+w2ModelNames[m]+"/"+names[id], "ShapeContains = %v at a vertex, model %v at %s", got, want, what)
					}
				default:
					// semi-open rule = brute force over all edges; open/closed coincide with it off the vertices
					if bf, ok := w2BruteForce(sh, p); ok && bf != got {
						o.Fail("c06lattice/ShapeContains-vs-bruteforce/"+names[id], "%s ShapeContains = %v, brute force over all edges %v at %s", w2ModelNames[m], got, bf, what)
					}
					if id <= 1 && c.Want[k] != "U" {
						o.Count("lattice_contains_predicted")
						if tf(got) != c.Want[k] {
							o.Fail("c06lattice/ShapeContains-vs-model/"+names[id], "%s ShapeContains = %v, model %s at %s", w2ModelNames[m], got, c.Want[k], what)
						}
					}
				}
			}
			if model == s2.VertexModelSemiOpen {
				if r := q.ShapeContains(rev, p); r == inLoop {
					o.Fail("c06lattice/loop-and-reverse", "loop and reversed loop both answer %v at %s", r, what)
				}
			}
		}
	}

	// (d) ContainsCell / IntersectsCell of the loop and of the polygon made of it
	c06LatticeCells(o, pts, desc, func(yield func(id s2.CellID, cut, cin, cout bool)) {
		for _, mc := range c.Cells {
			yield(emb.FromFaceIJ(mc.C[0], mc.C[1], mc.C[2], mc.C[3]), mc.Cut, mc.Cin, mc.Cout)
		}
	})

	// (c) CrossingEdgeQuery
	ceq := s2.NewCrossingEdgeQuery(idx)
	types := []s2.CrossingType{s2.CrossingTypeInterior, s2.CrossingTypeAll}
	tnames := []string{"interior", "all"}
	for qn, qp := range c.Qs {
		a, b := emb.Unit(qp[0]), emb.Unit(qp[1])
		what := fmt.Sprintf("query %v-%v, %s", qp[0], qp[1], desc)
		for tn, ty := range types {
			em := ceq.CrossingsEdgeMap(a, b, ty)
			for id, sh := range shapes {
				got := ceq.Crossings(a, b, sh, ty)
				gotSet := map[int]bool{}
				for _, e := range got {
					gotSet[e] = true
				}
				bf := map[int]bool{}
				for e := 0; e < sh.NumEdges(); e++ {
					ed := sh.Edge(e)
					sg := s2.CrossingSign(a, b, ed.V0, ed.V1)
					if sg == s2.Cross || (ty == s2.CrossingTypeAll && sg == s2.MaybeCross) {
						bf[e] = true
					}
				}
				o.Count("lattice_crossings_vs_bruteforce")
				// the edge map is always computed through the index (several shapes)
				me := em[sh]
				meSet := map[int]bool{}
				for _, e := range me {
					meSet[e] = true
				}
				for name, set := range map[string]map[int]bool{"Crossings": gotSet, "CrossingsEdgeMap": meSet} {
					same := len(set) == len(bf)
					for e := range bf {
						if !set[e] {
							same = false
						}
					}
					if !same {
						o.Fail("c06lattice/"+name+"-vs-bruteforce/"+tnames[tn]+"/"+names[id], "%s(%s) = %v but CrossingSign over all edges gives %v for %s: %s", name, tnames[tn], w2Keys(set), w2Keys(bf), names[id], what)
					}
				}
				if !w2SortedUnique(me) || !w2SortedUnique(got) {
					o.Fail("c06lattice/Crossings-order/"+tnames[tn], "results not sorted/unique: %v %v: %s", got, me, what)
				}
				// the model: edge k of the loop is edge k-1 of Loop / LaxPolygon, and of the polyline
				if id <= 2 {
					for e := 0; e < sh.NumEdges(); e++ {
						w := c.Cross[qn][e]
						if w == "U" {
							continue
						}
						want := w == "CROSS" || (ty == s2.CrossingTypeAll && w == "MAYBE")
						o.Count("lattice_crossings_predicted")
						if meSet[e] != want {
							o.Fail("c06lattice/CrossingsEdgeMap-vs-model/"+tnames[tn]+"/"+names[id], "edge %d of %s: in result = %v, exact model %s: %s", e, names[id], meSet[e], w, what)
						}
					}
				}
			}
		}
	}
}

// c06LatticeCells checks ContainsCell / IntersectsCell of a lattice loop (as Loop and as
// Polygon) whose edges span several cube faces.
//   - cells of levels 0 and 1 (lattice corners): the model's demands (model yields them):
//     cut => not contained and intersecting; a corner certainly inside => intersecting;
//     a corner certainly outside => not contained;
//   - deeper cells along every edge (descendants of the index cells) and the first / last leaf
//     of every index cell: the same demands derived by examining every edge directly with the
//     exact predicate (an edge properly crossing a side of the cell; the cell centre inside).
func c06LatticeCells(o *Out, pts []s2.Point, desc string, model func(yield func(id s2.CellID, cut, cin, cout bool))) {
	cp := func() []s2.Point { return append([]s2.Point(nil), pts...) }
	loop := s2.LoopFromPoints(cp())
	poly := s2.PolygonFromLoops([]*s2.Loop{s2.LoopFromPoints(cp())})
	regs := []s2.Region{loop, poly}
	rnames := []string{"Loop", "Polygon"}
	demand := func(id s2.CellID, cut, in, out bool, src string) {
		cell := s2.CellFromCellID(id)
		for r, reg := range regs {
			gc, gi := reg.ContainsCell(cell), reg.IntersectsCell(cell)
			o.Count("lattice_cell_relations_checked")
			what := fmt.Sprintf("cell %v (level %d) [%s: cut=%v inside-witness=%v outside-witness=%v], %s", id, emb.RawLevel(id), src, cut, in, out, desc)
			if (cut || in) && !gi {
				o.Fail("c06lattice/IntersectsCell/"+src+"/"+rnames[r], "%s.IntersectsCell = false: %s", rnames[r], what)
			}
			if (cut || out) && gc {
				o.Fail("c06lattice/ContainsCell/"+src+"/"+rnames[r], "%s.ContainsCell = true: %s", rnames[r], what)
			}
		}
	}
	model(func(id s2.CellID, cut, cin, cout bool) {
		if cut {
			o.Count("lattice_cells_cut")
		}
		demand(id, cut, cin, cout, "model")
	})
	// examining every edge directly
	n := len(pts)
	direct := func(id s2.CellID) {
		cell := s2.CellFromCellID(id)
		cut := false
		for k := 0; k < 4 && !cut; k++ {
			a, b := cell.Vertex(k), cell.Vertex((k+1)&3)
			for e := 0; e < n; e++ {
				if s2.CrossingSign(a, b, pts[e], pts[(e+1)%n]) == s2.Cross {
					cut = true
					break
				}
			}
		}
		center := id.Point()
		in := s2.VerifLoopBruteForceContains(loop, center)
		demand(id, cut, in, !in, "direct")
	}
	seen := map[s2.CellID]bool{}
	add := func(id s2.CellID) {
		if !seen[id] {
			seen[id] = true
			direct(id)
		}
	}
	for e := 0; e < n; e++ {
		a, b := pts[e], pts[(e+1)%n]
		for t := 1; t < 12; t++ {
			x := s2.Point{Vector: a.Mul(float64(12 - t)).Add(b.Mul(float64(t))).Normalize()}
			leaf := s2.CellFromPoint(x).ID()
			path := emb.RawPath(leaf)
			face := int(uint64(leaf) >> 61)
			for _, lv := range []int{2, 4, 7, 12} {
				id := emb.RawID(face, path[:lv])
				add(id)
				// the four cells sharing the parent (the edge passes next to them)
				for k := 0; k < 4; k++ {
					add(emb.RawID(face, append(append([]int(nil), path[:lv-1]...), k)))
				}
			}
		}
	}
	for _, idx := range []*s2.ShapeIndex{s2.VerifLoopIndex(loop), s2.VerifPolygonIndex(poly)} {
		idx.Build()
		for _, ic := range s2.VerifIndexCells(idx) {
			add(s2.CellID(w2RangeMin(ic.ID)))
			add(s2.CellID(w2RangeMax(ic.ID)))
			face := int(uint64(ic.ID) >> 61)
			path := emb.RawPath(ic.ID)
			if len(path) < 29 {
				for k := 0; k < 4; k++ {
					ch := emb.RawID(face, append(append([]int(nil), path...), k))
					add(s2.CellID(w2RangeMin(ch)))
					add(s2.CellID(w2RangeMax(ch)))
				}
			}
		}
	}
}
