package main

import (
	"fmt"
	"os"
)

var recorders = map[string]func(args []string){}
var children = map[string]func(args []string){}

func cmdRecord(args []string) {
	if len(args) == 0 || recorders[args[0]] == nil {
		fmt.Fprintln(os.Stderr, "unknown recorder")
		os.Exit(3)
	}
	recorders[args[0]](args[1:])
}

func cmdChild(args []string) {
	if len(args) == 0 || children[args[0]] == nil {
		fmt.Fprintln(os.Stderr, "unknown child")
		os.Exit(3)
	}
	children[args[0]](args[1:])
}
