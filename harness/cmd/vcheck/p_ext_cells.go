package main

// Extension of C11 / C01 (spec/Expand.tla, spec/Metrics.tla):
//
//	op "expand": CellUnion.ExpandAtLevel and the exactly predictable part of
//	             CellUnion.ExpandByRadius.  A case is a small union below one or two
//	             anchors (faces, or cells of level 30-L / a middle level), a level, and
//	             the normalized expansion computed by TLC from the combinatorial
//	             neighbour relation of Cells.tla, as ij-cells <<face, level, i, j>>.
//	op "metric": Metric.Value / MinLevel / MaxLevel / ClosestLevel on values
//	             deriv * 2^e and their one-ulp neighbours, levels from the exponent
//	             model of Metrics.tla.
//
// Input cells are embedded by bit arithmetic below their anchor (emb.Under) and
// cross-checked against the coordinate embedding (emb.FromFaceIJ); nothing is built
// with the functions under test.

import (
	"encoding/json"
	"fmt"
	"math"
	"sort"

	"github.com/golang/geo/s1"
	"github.com/golang/geo/s2"

	"verifharness/emb"
)

func init() {
	register("expand", opExtExpand)
	register("metric", opExtMetric)
}

// ---------------------------------------------------------------- expand

type extIJ [4]int // <<face, level, i, j>>, i and j in units of the cell's own level

func (x extIJ) id() s2.CellID { return emb.FromFaceIJ(x[0], x[1], x[2], x[3]) }

func extIDs(xs []extIJ) s2.CellUnion {
	out := make(s2.CellUnion, len(xs))
	for k, x := range xs {
		out[k] = x.id()
	}
	sort.Slice(out, func(i, j int) bool { return out[i] < out[j] })
	return out
}

func extShow(cu s2.CellUnion) string {
	s := "["
	for k, id := range cu {
		if k > 0 {
			s += " "
		}
		if k >= 40 {
			s += fmt.Sprintf("...(%d cells)", len(cu))
			break
		}
		if id.IsValid() {
			s += id.String()
		} else {
			s += fmt.Sprintf("invalid(%#x)", uint64(id))
		}
	}
	return s + "]"
}

func extEqual(a, b s2.CellUnion) bool {
	if len(a) != len(b) {
		return false
	}
	for i := range a {
		if a[i] != b[i] {
			return false
		}
	}
	return true
}

func extClone(a s2.CellUnion) s2.CellUnion { return append(s2.CellUnion(nil), a...) }

// extPow2 is the exact float64 2^e (-1022 <= e <= 1023), built from its bit pattern.
func extPow2(e int) float64 {
	if e < -1022 || e > 1023 {
		panic(fmt.Sprintf("extPow2(%d): exponent out of range", e))
	}
	return math.Float64frombits(uint64(1023+e) << 52)
}

type extCombo struct {
	E int `json:"e"`
	D int `json:"d"`
}

func opExtExpand(raw json.RawMessage, o *Out) {
	var c struct {
		A1, A2 extIJ
		Lev    int
		In     []struct {
			A int
			Q []int
			X extIJ
		}
		Want, Raised, Want2 []extIJ
		Er, Er2             []extCombo
	}
	if err := json.Unmarshal(raw, &c); err != nil {
		panic(err)
	}
	class := "mid"
	switch {
	case c.A1[1] == 0:
		class = "top"
	case c.A1[1] >= 27:
		class = "deep"
	}
	// ---- embedding: path below the anchor, cross-checked with the coordinate form
	anchors := []s2.CellID{c.A1.id(), 0}
	if c.A2[0] >= 0 {
		anchors[1] = c.A2.id()
	}
	var in s2.CellUnion
	raised, faces := false, map[int]bool{}
	for _, x := range c.In {
		if x.A == 2 && c.A2[0] < 0 {
			panic("expand: cell below a missing second anchor")
		}
		id := emb.Under(anchors[x.A-1], x.Q)
		if id != x.X.id() {
			panic(fmt.Sprintf("embedding mismatch: path %v below anchor %v gives %v, spec coordinates %v give %v", x.Q, anchors[x.A-1], id, x.X, x.X.id()))
		}
		in = append(in, id)
		raised = raised || x.X[1] > c.Lev
		faces[x.X[0]] = true
	}
	sort.Slice(in, func(i, j int) bool { return in[i] < in[j] })
	want := extIDs(c.Want)
	crosses := false
	for _, w := range c.Want {
		if !faces[w[0]] {
			crosses = true
		}
	}
	desc := fmt.Sprintf("union %s level %d (anchor %v level %d)", extShow(in), c.Lev, anchors[0], c.A1[1])

	// ---- ExpandAtLevel: exact equality with the model
	got := extClone(in)
	got.ExpandAtLevel(c.Lev)
	if !extEqual(got, want) {
		o.Fail("expand/ExpandAtLevel/"+class, "ExpandAtLevel(%d) = %s, model %s: %s", c.Lev, extShow(got), extShow(want), desc)
	} else {
		if !got.IsValid() || !got.IsNormalized() {
			o.Fail("expand/result-not-normalized/"+class, "IsValid=%v IsNormalized=%v on %s: %s", got.IsValid(), got.IsNormalized(), extShow(got), desc)
		}
	}
	for _, id := range in {
		if !got.ContainsCellID(id) {
			o.Fail("expand/contains-input/"+class, "the expansion %s does not contain the input cell %v: %s", extShow(got), id, desc)
			break
		}
	}
	// ---- the empty union stays empty
	var empty s2.CellUnion
	empty.ExpandAtLevel(c.Lev)
	if len(empty) != 0 {
		o.Fail("expand/empty/"+class, "ExpandAtLevel(%d) of the empty union = %s", c.Lev, extShow(empty))
	}
	// ---- the expansion depends on the raised (and normalized) input only
	if rs := extIDs(c.Raised); !extEqual(rs, in) {
		g := extClone(rs)
		g.ExpandAtLevel(c.Lev)
		if !extEqual(g, want) {
			o.Fail("expand/raise-invariance/"+class, "ExpandAtLevel(%d) of the level-%d ancestors %s = %s, model %s: %s", c.Lev, c.Lev, extShow(rs), extShow(g), extShow(want), desc)
		}
		o.Count("expand_raised_inputs")
	}
	// ---- ExpandByRadius: radii strictly between two thresholds of MinWidthMetric
	factors := []float64{1.25, 1.5, 1.9375}
	for n, cb := range c.Er {
		radius := s2.MinWidthMetric.Deriv * extPow2(cb.E) * factors[(n+cb.D+c.Lev)%3]
		g := extClone(in)
		g.ExpandByRadius(s1.Angle(radius), cb.D)
		if !extEqual(g, want) {
			o.Fail("expand/ExpandByRadius/"+class, "ExpandByRadius(%g, %d) = %s; MinWidth.MaxLevel(radius) and maxLevelDiff give level %d, model %s: %s", radius, cb.D, extShow(g), c.Lev, extShow(want), desc)
		}
		o.Count("expand_by_radius_checked")
	}
	if len(c.Er2) > 0 {
		want2 := extIDs(c.Want2)
		for n, cb := range c.Er2 {
			radius := s2.MinWidthMetric.Deriv * extPow2(cb.E) * factors[n%3]
			g := extClone(in)
			g.ExpandByRadius(s1.Angle(radius), cb.D)
			if !extEqual(g, want2) {
				o.Fail("expand/ExpandByRadius-twice/"+class, "ExpandByRadius(%g, %d) = %s; the radius exceeds the width of a face cell: model (expanded twice at level 0) %s: %s", radius, cb.D, extShow(g), extShow(want2), desc)
			}
			o.Count("expand_by_radius_checked")
		}
	}
	o.nontrivial = raised || crosses || len(in) > 1
	if raised {
		o.Count("expand_cases_with_finer_cells")
	}
	if crosses {
		o.Count("expand_cases_crossing_a_face_boundary")
	}
	o.Count("expand_cases_" + class)
	o.sample = map[string]any{"op": "expand", "in": extShow(in), "level": c.Lev, "result": extShow(want), "anchorLevel": c.A1[1]}
}

// ---------------------------------------------------------------- metric

var extMetrics = map[string]s2.Metric{
	"MinAngleSpan": s2.MinAngleSpanMetric, "AvgAngleSpan": s2.AvgAngleSpanMetric, "MaxAngleSpan": s2.MaxAngleSpanMetric,
	"MinWidth": s2.MinWidthMetric, "AvgWidth": s2.AvgWidthMetric, "MaxWidth": s2.MaxWidthMetric,
	"MinEdge": s2.MinEdgeMetric, "AvgEdge": s2.AvgEdgeMetric, "MaxEdge": s2.MaxEdgeMetric,
	"MinArea": s2.MinAreaMetric, "AvgArea": s2.AvgAreaMetric, "MaxArea": s2.MaxAreaMetric,
	"MinDiag": s2.MinDiagMetric, "AvgDiag": s2.AvgDiagMetric, "MaxDiag": s2.MaxDiagMetric,
}

// extMetric resolves a metric name of Gen_Metrics!MetricTab.  Synthetic metrics have a
// deriv with an extreme mantissa.
func extMetric(name string, dim int) (s2.Metric, bool) {
	switch name {
	case "SynOne":
		return s2.Metric{Dim: dim, Deriv: 1}, false
	case "SynLo":
		return s2.Metric{Dim: dim, Deriv: math.Nextafter(1, 2)}, false
	case "SynHi":
		return s2.Metric{Dim: dim, Deriv: math.Nextafter(2, 1)}, false
	}
	m, ok := extMetrics[name]
	if !ok {
		panic("unknown metric " + name)
	}
	return m, true
}

// extValue embeds the model value [s, e, c] for a metric with the given deriv and
// names its class for violation keys.
func extValue(deriv float64, s, e int, cls string) (float64, string) {
	if s == 0 {
		if cls == "below" {
			return math.Copysign(0, -1), "zero"
		}
		return 0, "zero"
	}
	var v float64
	class := cls
	switch {
	case e == 2000:
		v, class = math.Inf(1), "huge"
	case e == 1500:
		v, class = math.MaxFloat64, "huge"
	case e == -1500:
		v, class = math.Float64frombits(1<<52), "tiny" // 2^-1022
	case e == -2000:
		v, class = math.Float64frombits(1), "tiny" // 5e-324
	case e < -200 || e > 200:
		panic(fmt.Sprintf("metric: unexpected exponent %d", e))
	default:
		v = deriv * extPow2(e) // exact: a power of two times a normal number, no under/overflow
		if math.Float64bits(v)&(1<<52-1) != math.Float64bits(deriv)&(1<<52-1) {
			panic("metric: deriv * 2^e is not exact")
		}
		switch cls {
		case "above":
			v = math.Nextafter(v, math.Inf(1))
		case "below":
			v = math.Nextafter(v, 0)
		}
	}
	if s < 0 {
		return -v, "negative"
	}
	return v, class
}

func opExtMetric(raw json.RawMessage, o *Out) {
	var c struct {
		Kind    string
		Names   []string
		Dim     int
		S, E    int
		C       string
		Min     int
		Max     int
		Closest []int
		Vexp    []int
	}
	if err := json.Unmarshal(raw, &c); err != nil {
		panic(err)
	}
	for _, name := range c.Names {
		m, exported := extMetric(name, c.Dim)
		if exported && m.Dim != c.Dim {
			o.Fail("metric/Dim", "%sMetric.Dim = %d, model %d", name, m.Dim, c.Dim)
			continue
		}
		if c.Kind == "value" {
			prev := math.Inf(1)
			for l, e := range c.Vexp {
				want := m.Deriv * extPow2(e)
				got := m.Value(l)
				if got != want {
					o.Fail("metric/Value", "%s(dim %d, deriv %v).Value(%d) = %v, model deriv*2^%d = %v", name, m.Dim, m.Deriv, l, got, e, want)
				}
				if !(got < prev) {
					o.Fail("metric/Value-monotone", "%s.Value(%d) = %v is not below Value(%d) = %v", name, l, got, l-1, prev)
				}
				prev = got
				// round trip on the real threshold values
				if g := m.MinLevel(got); g != l {
					o.Fail("metric/MinLevel/roundtrip", "%s.MinLevel(Value(%d)) = %d", name, l, g)
				}
				if g := m.MaxLevel(got); g != l {
					o.Fail("metric/MaxLevel/roundtrip", "%s.MaxLevel(Value(%d)) = %d", name, l, g)
				}
				if g := m.ClosestLevel(got); g != l {
					o.Fail("metric/ClosestLevel/roundtrip", "%s.ClosestLevel(Value(%d)) = %d", name, l, g)
				}
			}
			o.Count("metric_value_tables")
			continue
		}
		v, class := extValue(m.Deriv, c.S, c.E, c.C)
		desc := fmt.Sprintf("%s (dim %d, deriv %v), value %v = [sign %d, deriv*2^%d, %s]", name, m.Dim, m.Deriv, v, c.S, c.E, c.C)
		if g := m.MinLevel(v); g != c.Min {
			o.Fail("metric/MinLevel/"+class, "MinLevel = %d, model %d (least level whose Value is at most the value, else 30): %s", g, c.Min, desc)
		}
		if g := m.MaxLevel(v); g != c.Max {
			o.Fail("metric/MaxLevel/"+class, "MaxLevel = %d, model %d (greatest level whose Value is at least the value, else 0): %s", g, c.Max, desc)
		}
		g := m.ClosestLevel(v)
		ok := false
		for _, l := range c.Closest {
			ok = ok || l == g
		}
		if !ok {
			o.Fail("metric/ClosestLevel/"+class, "ClosestLevel = %d, model: nearest level(s) on the log scale %v: %s", g, c.Closest, desc)
		}
		o.Count("metric_level_queries")
	}
	o.nontrivial = c.Kind == "value" || (c.S == 1 && c.Min > 0 && c.Max < 30)
	if c.Kind == "levels" && c.S == 1 && c.C != "at" {
		o.Count("metric_ulp_neighbour_values")
	}
	if c.Kind == "levels" && len(c.Closest) == 2 {
		o.Count("metric_closest_level_ties")
	}
	o.sample = map[string]any{"op": "metric", "kind": c.Kind, "dim": c.Dim, "sign": c.S, "e": c.E, "class": c.C, "min": c.Min, "max": c.Max, "closest": c.Closest}
}
