package main

// C11: cell-union algebra = exact set algebra on leaf cells (CellUnions.tla,
// Gen_CellUnions.tla), CellIndex iterators (CellIndex.tla, Gen_CellIndex.tla)
// and s2intersect.Find.
//
// A model cell travels as its index (face-major, then level, then path number,
// see CellUnions!Idx).  It is embedded by plain bit arithmetic (emb.Under):
//   top  embedding: model root f = real face base+f
//   deep embedding: model root f = an anchor cell of level 30-L, so that model
//                   leaves are real leaf cells.
// Every expected value comes from the TLC-evaluated specification; the Go side
// only translates cells and expands "descendants at level n" by id arithmetic.

import (
	"encoding/json"
	"fmt"
	"math/rand"
	"sort"
	"strings"

	"github.com/golang/geo/s2"
	"github.com/golang/geo/s2/s2intersect"

	"verifharness/emb"
)

func init() {
	register("cu1", opCu1)
	register("cu2", opCu2)
	register("cufind", opCuFind)
	register("curange", opCuRange)
	register("cindex", opCIndex)
	register("citer", opCIter)
}

// ---------------------------------------------------------------- model cells

type c11Model struct {
	L, NF int
	cpf   int
}

func c11Pow4(n int) int { return 1 << uint(2*n) }

func newC11Model(L, NF int) c11Model {
	return c11Model{L: L, NF: NF, cpf: (c11Pow4(L+1) - 1) / 3}
}

func (m c11Model) nc() int { return m.NF * m.cpf }

// cell decodes a cell index into (root, path).
func (m c11Model) cell(idx int) (int, []int) {
	f := idx / m.cpf
	r := idx % m.cpf
	l := 0
	for r >= c11Pow4(l) {
		r -= c11Pow4(l)
		l++
	}
	path := make([]int, l)
	for k := l - 1; k >= 0; k-- {
		path[k] = r & 3
		r >>= 2
	}
	return f, path
}

func (m c11Model) str(idx int) string {
	f, p := m.cell(idx)
	s := fmt.Sprintf("%d/", f)
	for _, d := range p {
		s += fmt.Sprint(d)
	}
	return s
}

func (m c11Model) strs(ids []int) string {
	var b []string
	for _, i := range ids {
		b = append(b, m.str(i))
	}
	return "[" + strings.Join(b, " ") + "]"
}

// ---------------------------------------------------------------- embeddings

type c11Emb struct {
	kind        string // "top" or "deep": part of violation keys
	name        string
	roots       []s2.CellID
	consecutive bool // roots are consecutive on the curve (needed for leaf positions)
	rootLevel   int
}

func c11Lsb(id s2.CellID) uint64 { return uint64(id) & -uint64(id) }
func c11RangeMin(id s2.CellID) s2.CellID {
	return s2.CellID(uint64(id) - (c11Lsb(id) - 1))
}
func c11RangeMax(id s2.CellID) s2.CellID {
	return s2.CellID(uint64(id) + (c11Lsb(id) - 1))
}

func (e c11Emb) id(m c11Model, idx int) s2.CellID {
	f, p := m.cell(idx)
	return emb.Under(e.roots[f], p)
}

func (e c11Emb) ids(m c11Model, idxs []int) s2.CellUnion {
	out := make(s2.CellUnion, len(idxs))
	for k, i := range idxs {
		out[k] = e.id(m, i)
	}
	return out
}

// leafAt is the real leaf cell at which model leaf position x (0..NF*4^L) starts.
func (e c11Emb) leafAt(m c11Model, x int) s2.CellID {
	lsbML := uint64(1) << uint(2*(30-e.rootLevel-m.L))
	return s2.CellID(uint64(c11RangeMin(e.roots[0])) + uint64(x)*2*lsbML)
}

// realLeavesPerModelLeaf = 4^(30 - rootLevel - L).
func (e c11Emb) leafScale(m c11Model) uint64 {
	return uint64(1) << uint(2*(30-e.rootLevel-m.L))
}

func c11Consecutive(first s2.CellID, n int) []s2.CellID {
	out := make([]s2.CellID, n)
	for k := range out {
		out[k] = s2.CellID(uint64(first) + uint64(k)*2*c11Lsb(first))
	}
	return out
}

func c11RandomAnchor(r *rand.Rand, level int) s2.CellID {
	p := make([]int, level)
	for k := range p {
		p[k] = r.Intn(4)
	}
	return emb.RawID(r.Intn(6), p)
}

const c11EndID = uint64(6) << 61

// c11Embeddings lists the embeddings tried for a case. wantConsecutive restricts
// to root layouts on which global leaf positions make sense.
func c11Embeddings(m c11Model, seed int64, wantConsecutive bool) []c11Emb {
	r := rand.New(rand.NewSource(seed))
	var out []c11Emb
	// top: real faces base..base+NF-1
	bases := map[int]bool{0: true, 6 - m.NF: true}
	if m.NF <= 4 {
		bases[1+r.Intn(5-m.NF)] = true // touches neither end of the curve
	}
	var bl []int
	for b := range bases {
		bl = append(bl, b)
	}
	sort.Ints(bl)
	for _, b := range bl {
		roots := make([]s2.CellID, m.NF)
		for f := range roots {
			roots[f] = emb.RawID(b+f, nil)
		}
		out = append(out, c11Emb{kind: "top", name: fmt.Sprintf("top(face %d..)", b), roots: roots, consecutive: true})
	}
	if m.NF > 3 {
		return out // four consecutive anchors could be a complete sibling group
	}
	al := 30 - m.L
	zeros := make([]int, al)
	threes := make([]int, al)
	for k := range threes {
		threes[k] = 3
	}
	first := emb.RawID(0, zeros)
	last := emb.RawID(5, threes)
	step := 2 * c11Lsb(last)
	lastStart := s2.CellID(uint64(last) - uint64(m.NF-1)*step)
	out = append(out,
		c11Emb{kind: "deep", name: "deep(0/00..0)", roots: c11Consecutive(first, m.NF), consecutive: true, rootLevel: al},
		c11Emb{kind: "deep", name: "deep(..5/33..3)", roots: c11Consecutive(lastStart, m.NF), consecutive: true, rootLevel: al})
	// a random anchor, with its successors
	a := c11RandomAnchor(r, al)
	if uint64(a)+uint64(m.NF-1)*step >= c11EndID {
		a = s2.CellID(uint64(a) - uint64(m.NF-1)*step)
	}
	out = append(out, c11Emb{kind: "deep", name: "deep(" + a.String() + "+)", roots: c11Consecutive(a, m.NF), consecutive: true, rootLevel: al})
	// an anchor that ends a sibling group / a face, so that successors straddle parents
	p := make([]int, al)
	for k := range p {
		p[k] = r.Intn(4)
	}
	for k := al - 1 - r.Intn(3); k >= 0 && k < al; k++ {
		p[k] = 3
	}
	b := emb.RawID(r.Intn(5), p)
	out = append(out, c11Emb{kind: "deep", name: "deep(" + b.String() + "+)", roots: c11Consecutive(b, m.NF), consecutive: true, rootLevel: al})
	// an anchor in the middle of the hierarchy (model leaves are neither faces' children nor real leaves)
	ml := 1 + r.Intn(28-m.L)
	mid := c11RandomAnchor(r, ml)
	mstep := 2 * c11Lsb(mid)
	if uint64(mid)+uint64(m.NF-1)*mstep >= c11EndID {
		mid = s2.CellID(uint64(mid) - uint64(m.NF-1)*mstep)
	}
	out = append(out, c11Emb{kind: "mid", name: "mid(" + mid.String() + "+)", roots: c11Consecutive(mid, m.NF), consecutive: true, rootLevel: ml})
	if !wantConsecutive && m.NF > 1 {
		// unrelated anchors, sorted
		seen := map[s2.CellID]bool{}
		var rs []s2.CellID
		for len(rs) < m.NF {
			x := c11RandomAnchor(r, al)
			if !seen[x] {
				seen[x] = true
				rs = append(rs, x)
			}
		}
		sort.Slice(rs, func(i, j int) bool { return rs[i] < rs[j] })
		out = append(out, c11Emb{kind: "deep", name: "deep(scattered " + rs[0].String() + ",..)", roots: rs, rootLevel: al})
	}
	return out
}

// ---------------------------------------------------------------- helpers

func c11Equal(a, b s2.CellUnion) bool {
	if len(a) != len(b) {
		return false
	}
	for i := range a {
		if a[i] != b[i] {
			return false
		}
	}
	return true
}

func c11Clone(a s2.CellUnion) s2.CellUnion { return append(s2.CellUnion(nil), a...) }

func c11Shuffled(a s2.CellUnion, r *rand.Rand) s2.CellUnion {
	out := c11Clone(a)
	r.Shuffle(len(out), func(i, j int) { out[i], out[j] = out[j], out[i] })
	return out
}

func c11Show(cu s2.CellUnion) string {
	var b []string
	for k, id := range cu {
		if k >= 24 {
			b = append(b, fmt.Sprintf("...(%d cells)", len(cu)))
			break
		}
		if id.IsValid() {
			b = append(b, id.String())
		} else {
			b = append(b, fmt.Sprintf("invalid(%#x)", uint64(id)))
		}
	}
	return "[" + strings.Join(b, " ") + "]"
}

func c11Set(xs []int) map[int]bool {
	s := map[int]bool{}
	for _, x := range xs {
		s[x] = true
	}
	return s
}

// c11DescAt lists the descendants of id at real level n (>= level of id) by id arithmetic.
func c11DescAt(id s2.CellID, n int) s2.CellUnion {
	lsbN := uint64(1) << uint(2*(30-n))
	begin := uint64(id) - c11Lsb(id) + lsbN
	cnt := c11Lsb(id) / lsbN
	out := make(s2.CellUnion, 0, cnt)
	for k := uint64(0); k < cnt; k++ {
		out = append(out, s2.CellID(begin+k*2*lsbN))
	}
	return out
}

func c11Denorm(cu s2.CellUnion, levels []int) s2.CellUnion {
	var out s2.CellUnion
	for k, id := range cu {
		out = append(out, c11DescAt(id, levels[k])...)
	}
	return out
}

// ---------------------------------------------------------------- cu1

type c11Cu1 struct {
	L, NF      int
	In, Norm   []int
	Valid      bool
	Normalized bool
	Leaves     int
	Dmod, Dmin int
	Dtop       []int
	Ddmin      int
	Ddeep      []int
	Draw       []int
	Cc, Ic     []int
	Xc         [][]int
	Seed       int64
}

func opCu1(raw json.RawMessage, o *Out) {
	var c c11Cu1
	if err := json.Unmarshal(raw, &c); err != nil {
		panic(err)
	}
	m := newC11Model(c.L, c.NF)
	perCell := strings.Contains(string(raw), `"cc":`)
	o.nontrivial = !c.Normalized || len(c.Norm) != len(c.In)
	if !c.Normalized && c.Valid {
		o.Count("cu1_sibling_merge_cases")
	}
	rnd := rand.New(rand.NewSource(c.Seed + 17))
	cc, ic := c11Set(c.Cc), c11Set(c.Ic)
	xc := map[int][]int{}
	for _, e := range c.Xc {
		xc[e[0]] = e[1:]
	}
	for _, e := range c11Embeddings(m, c.Seed, false) {
		desc := fmt.Sprintf("in=%s %s (real %s)", m.strs(c.In), e.name, c11Show(e.ids(m, c.In)))
		in := e.ids(m, c.In)
		want := e.ids(m, c.Norm)
		// predicates on the sorted input
		srt := c11Clone(in)
		sort.Slice(srt, func(i, j int) bool { return srt[i] < srt[j] })
		if got := srt.IsValid(); got != c.Valid {
			o.Fail("cu1/IsValid/"+e.kind, "IsValid=%v, model %v: sorted %s", got, c.Valid, desc)
		}
		if got := srt.IsNormalized(); got != c.Normalized {
			o.Fail("cu1/IsNormalized/"+e.kind, "IsNormalized=%v, model %v: sorted %s", got, c.Normalized, desc)
		}
		// Normalize on several input orders
		for v, cu := range []s2.CellUnion{c11Clone(in), c11Shuffled(in, rnd), c11Clone(srt)} {
			cu.Normalize()
			if !c11Equal(cu, want) {
				o.Fail("cu1/Normalize/"+e.kind, "Normalize (order %d) = %s, canonical form %s = %s: %s", v, c11Show(cu), m.strs(c.Norm), c11Show(want), desc)
				break
			}
			if !cu.IsValid() || !cu.IsNormalized() {
				o.Fail("cu1/Normalize-result-predicates/"+e.kind, "IsValid=%v IsNormalized=%v on Normalize result %s: %s", cu.IsValid(), cu.IsNormalized(), c11Show(cu), desc)
			}
			cu2 := c11Clone(cu)
			cu2.Normalize()
			if !c11Equal(cu2, cu) {
				o.Fail("cu1/Normalize-idempotent/"+e.kind, "second Normalize changed %s to %s: %s", c11Show(cu), c11Show(cu2), desc)
			}
		}
		// CellUnionFromUnion of the input split in two parts
		if len(in) > 0 {
			k := rnd.Intn(len(in) + 1)
			if got := s2.CellUnionFromUnion(c11Clone(in[:k]), c11Clone(in[k:])); !c11Equal(got, want) {
				o.Fail("cu1/FromUnion-split/"+e.kind, "CellUnionFromUnion(in[:%d], in[%d:]) = %s, want %s: %s", k, k, c11Show(got), c11Show(want), desc)
			}
		}
		// leaf count
		norm := c11Clone(want)
		wl := uint64(c.Leaves) * e.leafScale(m)
		if got := norm.LeafCellsCovered(); got < 0 || uint64(got) != wl {
			o.Fail("cu1/LeafCellsCovered/"+e.kind, "LeafCellsCovered=%d, model %d*%d: %s", got, c.Leaves, e.leafScale(m), desc)
		}
		// Denormalize (the model computed levels for root level 0 and 30-L only)
		if e.kind != "mid" {
			minLevel, levels := c.Dmin, c.Dtop
			if e.kind == "deep" {
				minLevel, levels = c.Ddmin, c.Ddeep
			}
			got := c11Clone(want)
			got.Denormalize(minLevel, c.Dmod)
			wd := c11Denorm(want, levels)
			if !c11Equal(got, wd) {
				o.Fail("cu1/Denormalize/"+e.kind, "Denormalize(%d,%d) of %s = %s, model levels %v = %s: %s", minLevel, c.Dmod, c11Show(want), c11Show(got), levels, c11Show(wd), desc)
			}
			if e.kind == "deep" {
				got := c11Clone(in)
				got.Denormalize(minLevel, c.Dmod)
				wd := c11Denorm(in, c.Draw)
				if !c11Equal(got, wd) {
					o.Fail("cu1/Denormalize-raw/"+e.kind, "Denormalize(%d,%d) of raw %s = %s, model levels %v = %s", minLevel, c.Dmod, c11Show(in), c11Show(got), c.Draw, c11Show(wd))
				}
			}
			o.Count("denormalize_checked")
		}
		if !perCell {
			continue
		}
		for i := 0; i < m.nc(); i++ {
			id := e.id(m, i)
			cd := fmt.Sprintf("cell %s (%s) union %s: %s", m.str(i), id.String(), c11Show(norm), desc)
			if got := norm.ContainsCellID(id); got != cc[i] {
				o.Fail("cu1/ContainsCellID/"+e.kind, "ContainsCellID=%v, model %v: %s", got, cc[i], cd)
			}
			if got := norm.IntersectsCellID(id); got != ic[i] {
				o.Fail("cu1/IntersectsCellID/"+e.kind, "IntersectsCellID=%v, model %v: %s", got, ic[i], cd)
			}
			cell := s2.CellFromCellID(id)
			if got := norm.ContainsCell(cell); got != cc[i] {
				o.Fail("cu1/ContainsCell/"+e.kind, "ContainsCell=%v, model %v: %s", got, cc[i], cd)
			}
			if got := norm.IntersectsCell(cell); got != ic[i] {
				o.Fail("cu1/IntersectsCell/"+e.kind, "IntersectsCell=%v, model %v: %s", got, ic[i], cd)
			}
			var wx s2.CellUnion
			if cc[i] {
				wx = s2.CellUnion{id}
			} else if ic[i] {
				wx = e.ids(m, xc[i])
			}
			if got := s2.CellUnionFromIntersectionWithCellID(c11Clone(norm), id); !c11Equal(got, wx) {
				o.Fail("cu1/FromIntersectionWithCellID/"+e.kind, "= %s, model %s: %s", c11Show(got), c11Show(wx), cd)
			}
			// single-cell unions against the union: Contains/Intersects of unions
			one := s2.CellUnion{id}
			if got := norm.Contains(one); got != cc[i] {
				o.Fail("cu1/Contains-singleton/"+e.kind, "Contains({cell})=%v, model %v: %s", got, cc[i], cd)
			}
			if got := one.Intersects(norm); got != ic[i] {
				o.Fail("cu1/Intersects-singleton/"+e.kind, "{cell}.Intersects(union)=%v, model %v: %s", got, ic[i], cd)
			}
			// real leaves at both ends of a model leaf (top embedding: far below the model)
			{
				if _, p := m.cell(i); len(p) == m.L {
					for _, leaf := range []s2.CellID{c11RangeMin(id), c11RangeMax(id)} {
						if got := norm.ContainsCellID(leaf); got != cc[i] {
							o.Fail("cu1/ContainsCellID-leaf/"+e.kind, "ContainsCellID(leaf %s)=%v, model %v: %s", leaf.String(), got, cc[i], cd)
						}
						if got := norm.IntersectsCellID(leaf); got != cc[i] {
							o.Fail("cu1/IntersectsCellID-leaf/"+e.kind, "IntersectsCellID(leaf %s)=%v, model %v: %s", leaf.String(), got, cc[i], cd)
						}
					}
				}
			}
		}
		o.CountN("cell_probes", m.nc())
	}
	if o.nontrivial {
		o.sample = map[string]any{"op": "cu1", "in": m.strs(c.In), "norm": m.strs(c.Norm), "leaves": c.Leaves}
	}
}

// ---------------------------------------------------------------- cu2

type c11Found struct {
	Idx   []int
	Cells []int
}

func c11CheckFind(o *Out, key string, m c11Model, e c11Emb, us []s2.CellUnion, want []c11Found, desc string) {
	in := make([]s2.CellUnion, len(us))
	for k := range us {
		in[k] = c11Clone(us[k])
	}
	got := s2intersect.Find(in)
	wm := map[string]s2.CellUnion{}
	for _, w := range want {
		wm[fmt.Sprint(w.Idx)] = e.ids(m, w.Cells)
	}
	gm := map[string]s2.CellUnion{}
	for _, g := range got {
		k := fmt.Sprint(g.Indices)
		if !sort.IntsAreSorted(g.Indices) {
			o.Fail(key+"/indices-unsorted/"+e.kind, "Find returned indices %v: %s", g.Indices, desc)
		}
		if _, dup := gm[k]; dup {
			o.Fail(key+"/duplicate-index-set/"+e.kind, "Find returned index set %v twice: %s", g.Indices, desc)
		}
		if len(g.Intersection) == 0 {
			o.Count("find_empty_entries_ignored")
			continue
		}
		gm[k] = g.Intersection
	}
	for k, w := range wm {
		if g, ok := gm[k]; !ok {
			o.Fail(key+"/missing/"+e.kind, "Find lacks the overlap of unions %s = %s; got %d entries: %s", k, c11Show(w), len(gm), desc)
		} else if !c11Equal(g, w) {
			o.Fail(key+"/cells/"+e.kind, "Find overlap of unions %s = %s, model %s: %s", k, c11Show(g), c11Show(w), desc)
		}
	}
	for k, g := range gm {
		if _, ok := wm[k]; !ok {
			o.Fail(key+"/spurious/"+e.kind, "Find reports overlap of unions %s = %s, model has none: %s", k, c11Show(g), desc)
		}
	}
}

func c11DifferenceTerminates(o *Out, key string, x, y s2.CellUnion, desc string) bool {
	ok := true
	var rec func(id s2.CellID)
	rec = func(id s2.CellID) {
		if !ok || !y.IntersectsCellID(id) || y.ContainsCellID(id) {
			return
		}
		if uint64(id)&1 != 0 {
			o.Fail(key, "leaf %s: IntersectsCellID=true but ContainsCellID=false for union %s: %s", id.String(), c11Show(y), desc)
			ok = false
			return
		}
		for _, ch := range c11DescAt(id, emb.RawLevel(id)+1) {
			rec(ch)
		}
	}
	for _, id := range x {
		rec(id)
	}
	return ok
}

func opCu2(raw json.RawMessage, o *Out) {
	var c struct {
		L, NF            int
		A, B             []int
		Na, Nb           []int
		Un, It, Dab, Dba []int
		Cab, Cba, X, Eq  bool
		Find             []c11Found
		Seed             int64
	}
	if err := json.Unmarshal(raw, &c); err != nil {
		panic(err)
	}
	m := newC11Model(c.L, c.NF)
	o.nontrivial = c.X && !c.Eq
	if c.X {
		o.Count("cu2_overlapping_pairs")
	}
	rnd := rand.New(rand.NewSource(c.Seed + 23))
	for _, e := range c11Embeddings(m, c.Seed, false) {
		A, B := e.ids(m, c.Na), e.ids(m, c.Nb)
		rawA, rawB := c11Shuffled(e.ids(m, c.A), rnd), c11Shuffled(e.ids(m, c.B), rnd)
		desc := fmt.Sprintf("A=%s B=%s %s (real A=%s B=%s)", m.strs(c.Na), m.strs(c.Nb), e.name, c11Show(A), c11Show(B))
		cmp := func(name string, got s2.CellUnion, want []int) {
			w := e.ids(m, want)
			if !c11Equal(got, w) {
				o.Fail("cu2/"+name+"/"+e.kind, "%s = %s, model %s = %s: %s", name, c11Show(got), m.strs(want), c11Show(w), desc)
			}
		}
		cmp("FromUnion-raw", s2.CellUnionFromUnion(c11Clone(rawA), c11Clone(rawB)), c.Un)
		cmp("FromUnion", s2.CellUnionFromUnion(c11Clone(A), c11Clone(B)), c.Un)
		cmp("FromUnion-swapped", s2.CellUnionFromUnion(c11Clone(B), c11Clone(A)), c.Un)
		cmp("FromIntersection", s2.CellUnionFromIntersection(c11Clone(A), c11Clone(B)), c.It)
		cmp("FromIntersection-swapped", s2.CellUnionFromIntersection(c11Clone(B), c11Clone(A)), c.It)
		// CellUnionFromDifference recurses into children while a cell intersects the other
		// union without being contained in it; for a leaf cell the two notions coincide.
		// Check that on the cells the recursion visits (a violation would also make the
		// real recursion run forever, which no recover() can catch).
		if c11DifferenceTerminates(o, "cu2/leaf-intersects-but-not-contained/"+e.kind, A, B, desc) &&
			c11DifferenceTerminates(o, "cu2/leaf-intersects-but-not-contained/"+e.kind, B, A, desc) {
			cmp("FromDifference", s2.CellUnionFromDifference(c11Clone(A), c11Clone(B)), c.Dab)
			cmp("FromDifference-swapped", s2.CellUnionFromDifference(c11Clone(B), c11Clone(A)), c.Dba)
		}
		bools := func(name string, got, want bool) {
			if got != want {
				o.Fail("cu2/"+name+"/"+e.kind, "%s = %v, model %v: %s", name, got, want, desc)
			}
		}
		a2, b2 := c11Clone(A), c11Clone(B)
		bools("Contains", a2.Contains(b2), c.Cab)
		bools("Contains-swapped", b2.Contains(a2), c.Cba)
		bools("Intersects", a2.Intersects(b2), c.X)
		bools("Intersects-swapped", b2.Intersects(a2), c.X)
		bools("Equal", a2.Equal(b2), c.Eq)
		bools("Equal-swapped", b2.Equal(a2), c.Eq)
		if !c11Equal(a2, A) || !c11Equal(b2, B) {
			o.Fail("cu2/inputs-modified/"+e.kind, "a query modified its operands: %s", desc)
		}
		c11CheckFind(o, "cu2/Find", m, e, []s2.CellUnion{rawA, rawB}, c.Find, desc)
	}
	if o.nontrivial {
		o.sample = map[string]any{"op": "cu2", "a": m.strs(c.Na), "b": m.strs(c.Nb), "inter": m.strs(c.It), "diff": m.strs(c.Dab)}
	}
}

// ---------------------------------------------------------------- cufind

func opCuFind(raw json.RawMessage, o *Out) {
	var c struct {
		L, NF int
		Us    [][]int
		Find  []c11Found
		Seed  int64
	}
	if err := json.Unmarshal(raw, &c); err != nil {
		panic(err)
	}
	m := newC11Model(c.L, c.NF)
	o.nontrivial = len(c.Find) > 0
	for _, f := range c.Find {
		if len(f.Idx) >= 3 {
			o.Count("find_overlaps_of_3_or_more")
			break
		}
	}
	rnd := rand.New(rand.NewSource(c.Seed + 29))
	for _, e := range c11Embeddings(m, c.Seed, false) {
		var us []s2.CellUnion
		var ds []string
		for _, u := range c.Us {
			us = append(us, c11Shuffled(e.ids(m, u), rnd))
			ds = append(ds, m.strs(u))
		}
		c11CheckFind(o, "cufind/Find", m, e, us, c.Find, fmt.Sprintf("unions %s %s", strings.Join(ds, " "), e.name))
	}
	if o.nontrivial {
		o.sample = map[string]any{"op": "cufind", "unions": len(c.Us), "overlaps": len(c.Find)}
	}
}

// ---------------------------------------------------------------- curange

func opCuRange(raw json.RawMessage, o *Out) {
	var c struct {
		L, NF  int
		Lo, Hi int
		Tiles  []int
		Mt     []int
		Seed   int64
	}
	if err := json.Unmarshal(raw, &c); err != nil {
		panic(err)
	}
	m := newC11Model(c.L, c.NF)
	o.nontrivial = len(c.Tiles) > 1
	for _, e := range c11Embeddings(m, c.Seed, true) {
		if !e.consecutive {
			continue
		}
		begin, end := e.leafAt(m, c.Lo), e.leafAt(m, c.Hi)
		desc := fmt.Sprintf("leaves [%d,%d) of %d %s (real %#x..%#x)", c.Lo, c.Hi, m.NF*c11Pow4(m.L), e.name, uint64(begin), uint64(end))
		got := s2.CellUnionFromRange(begin, end)
		want := e.ids(m, c.Tiles)
		if !c11Equal(got, want) {
			o.Fail("curange/FromRange/"+e.kind, "CellUnionFromRange = %s, minimal tiling %s = %s: %s", c11Show(got), m.strs(c.Tiles), c11Show(want), desc)
		}
		for i, w := range c.Mt {
			id := e.id(m, i)
			wid := end
			if w >= 0 {
				wid = e.id(m, w)
			}
			if g := id.MaxTile(end); g != wid {
				o.Fail("curange/MaxTile/"+e.kind, "%s.MaxTile(limit) = %#x, model %#x (cell %d): %s", m.str(i), uint64(g), uint64(wid), w, desc)
			}
		}
	}
	if o.nontrivial {
		o.sample = map[string]any{"op": "curange", "lo": c.Lo, "hi": c.Hi, "tiles": m.strs(c.Tiles)}
	}
}

// ---------------------------------------------------------------- CellIndex

const c11FirstLeaf = s2.CellID(1)
const c11EndLeaf = s2.CellID(c11EndID | 1)

// flags reports whether the model's position 0 is the beginning of the real curve
// and whether its position NLeaves is the real end.
func (e c11Emb) flags() (loAt, hiAt bool) {
	last := e.roots[len(e.roots)-1]
	return c11RangeMin(e.roots[0]) == c11FirstLeaf, uint64(c11RangeMax(last))+2 == uint64(c11EndLeaf)
}

// pos maps a model position (-1, 0..NLeaves, NLeaves+1) to the real leaf id.
func (e c11Emb) pos(m c11Model, x int) s2.CellID {
	n := m.NF * c11Pow4(m.L)
	switch {
	case x < 0:
		return c11FirstLeaf
	case x > n:
		return c11EndLeaf
	}
	return e.leafAt(m, x)
}

// seekLeaves returns real leaves inside model position x (a model leaf, or the
// part of the curve outside the model roots).
func (e c11Emb) seekLeaves(m c11Model, x int) []s2.CellID {
	n := m.NF * c11Pow4(m.L)
	switch {
	case x < 0:
		return []s2.CellID{c11FirstLeaf, e.leafAt(m, 0) - 2}
	case x >= n:
		return []s2.CellID{e.leafAt(m, n), c11EndLeaf - 2}
	}
	return []s2.CellID{e.leafAt(m, x), e.leafAt(m, x+1) - 2}
}

type c11Pair [2]int // cell index, label

type c11RealPair struct {
	id    s2.CellID
	label int32
}

func c11BuildIndex(m c11Model, e c11Emb, pairs []c11Pair) *s2.CellIndex {
	ix := &s2.CellIndex{}
	for _, p := range pairs {
		ix.Add(e.id(m, p[0]), int32(p[1]))
	}
	ix.Build()
	return ix
}

func c11RealPairs(m c11Model, e c11Emb, ps []c11Pair) []c11RealPair {
	out := make([]c11RealPair, len(ps))
	for k, p := range ps {
		out[k] = c11RealPair{e.id(m, p[0]), int32(p[1])}
	}
	return out
}

func c11PairsEqual(a, b []c11RealPair) bool {
	if len(a) != len(b) {
		return false
	}
	for k := range a {
		if a[k] != b[k] {
			return false
		}
	}
	return true
}

func c11ShowPairs(ps []c11RealPair) string {
	var b []string
	for _, p := range ps {
		b = append(b, fmt.Sprintf("%s:%d", p.id.String(), p.label))
	}
	return "[" + strings.Join(b, " ") + "]"
}

// c11Drain performs StartUnion and reads pairs; all=false reads only the first.
func c11Drain(ci *s2.CellIndexContentsIterator, ri *s2.CellIndexRangeIterator, all bool) []c11RealPair {
	var out []c11RealPair
	ci.StartUnion(ri)
	for !ci.Done() {
		out = append(out, c11RealPair{ci.CellID(), ci.Label()})
		if !all {
			break
		}
		if len(out) > 10000 {
			panic("contents iterator does not terminate")
		}
		ci.Next()
	}
	return out
}

func c11MatchingEmbeddings(m c11Model, seed int64, lo, hi bool) []c11Emb {
	var out []c11Emb
	for _, e := range c11Embeddings(m, seed, true) {
		if !e.consecutive {
			continue
		}
		if l, h := e.flags(); l == lo && h == hi {
			out = append(out, e)
		}
	}
	return out
}

func opCIndex(raw json.RawMessage, o *Out) {
	var c struct {
		L, NF    int
		Lo, Hi   bool
		Pairs    []c11Pair
		Starts   []int
		Contents [][]c11Pair
		Sweep    [][]c11Pair
		Seek     []int
		SeekNE   []int `json:"seekne"`
		Seed     int64
	}
	if err := json.Unmarshal(raw, &c); err != nil {
		panic(err)
	}
	m := newC11Model(c.L, c.NF)
	nr := len(c.Starts)
	o.nontrivial = nr > 3
	loSpecial := 0
	if !c.Lo {
		loSpecial = -1
	}
	embs := c11MatchingEmbeddings(m, c.Seed, c.Lo, c.Hi)
	if len(embs) == 0 {
		panic("cindex: no embedding matches the flags of the case")
	}
	for _, e := range embs {
		var ds []string
		for _, p := range c.Pairs {
			ds = append(ds, fmt.Sprintf("%s:%d", m.str(p[0]), p[1]))
		}
		desc := fmt.Sprintf("index {%s} %s", strings.Join(ds, " "), e.name)
		ix := c11BuildIndex(m, e, c.Pairs)
		// 1. all ranges, contents with a cleared iterator, and a monotone sweep
		ri := s2.NewCellIndexRangeIterator(ix)
		sweep := s2.NewCellIndexContentsIterator(ix)
		fresh := s2.NewCellIndexContentsIterator(ix)
		ri.Begin()
		for k := 0; k < nr-1; k++ {
			if ri.Done() {
				o.Fail("cindex/ranges-short/"+e.kind, "range iterator done after %d ranges, model has %d: %s", k, nr-1, desc)
				break
			}
			ws, wl := e.pos(m, c.Starts[k]), e.pos(m, c.Starts[k+1])
			if ri.StartID() != ws || ri.LimitID() != wl {
				o.Fail("cindex/range-bounds/"+e.kind, "range %d = [%#x,%#x), model [%#x,%#x) (positions %d,%d): %s", k, uint64(ri.StartID()), uint64(ri.LimitID()), uint64(ws), uint64(wl), c.Starts[k], c.Starts[k+1], desc)
			}
			if ri.IsEmpty() != (len(c.Contents[k]) == 0) {
				o.Fail("cindex/IsEmpty/"+e.kind, "range %d IsEmpty=%v, model contents %v: %s", k, ri.IsEmpty(), c.Contents[k], desc)
			}
			fresh.Clear()
			if got, want := c11Drain(fresh, ri, true), c11RealPairs(m, e, c.Contents[k]); !c11PairsEqual(got, want) {
				o.Fail("cindex/contents/"+e.kind, "range %d contents %s, model %s: %s", k, c11ShowPairs(got), c11ShowPairs(want), desc)
			}
			if got, want := c11Drain(sweep, ri, true), c11RealPairs(m, e, c.Sweep[k]); !c11PairsEqual(got, want) {
				o.Fail("cindex/sweep-dedup/"+e.kind, "monotone sweep, range %d reports %s, model %s: %s", k, c11ShowPairs(got), c11ShowPairs(want), desc)
			}
			ri.Next()
		}
		if !ri.Done() {
			o.Fail("cindex/ranges-long/"+e.kind, "range iterator not done after %d ranges: %s", nr-1, desc)
		} else if ri.StartID() != e.pos(m, c.Starts[nr-1]) {
			o.Fail("cindex/done-start/"+e.kind, "StartID when done = %#x, model %#x: %s", uint64(ri.StartID()), uint64(e.pos(m, c.Starts[nr-1])), desc)
		}
		// 2. the non-empty iterator visits exactly the non-empty ranges
		ne := s2.NewCellIndexNonEmptyRangeIterator(ix)
		ne.Begin()
		for k := 0; k < nr-1; k++ {
			if len(c.Contents[k]) == 0 {
				continue
			}
			if ne.Done() || ne.StartID() != e.pos(m, c.Starts[k]) || ne.LimitID() != e.pos(m, c.Starts[k+1]) || ne.IsEmpty() {
				o.Fail("cindex/nonempty-ranges/"+e.kind, "non-empty iterator at %#x (done=%v), model expects range %d at %#x: %s", uint64(ne.StartID()), ne.Done(), k, uint64(e.pos(m, c.Starts[k])), desc)
				break
			}
			ne.Next()
		}
		if !ne.Done() {
			o.Fail("cindex/nonempty-ranges-long/"+e.kind, "non-empty iterator not done after all non-empty ranges (at %#x): %s", uint64(ne.StartID()), desc)
		}
		// 3. Seek to every position
		for x, wp := range c.Seek {
			for _, leaf := range e.seekLeaves(m, loSpecial+x) {
				ri.Seek(leaf)
				if want := e.pos(m, c.Starts[wp-1]); ri.StartID() != want {
					o.Fail("cindex/Seek/"+e.kind, "Seek(%#x) (position %d) -> range starting %#x, model range %d starting %#x: %s", uint64(leaf), loSpecial+x, uint64(ri.StartID()), wp-1, uint64(want), desc)
				}
			}
		}
		for x, wp := range c.SeekNE {
			for _, leaf := range e.seekLeaves(m, loSpecial+x) {
				ne.Seek(leaf)
				if want := e.pos(m, c.Starts[wp-1]); ne.StartID() != want || ne.Done() != (wp == nr) {
					o.Fail("cindex/Seek-nonempty/"+e.kind, "non-empty Seek(%#x) (position %d) -> %#x done=%v, model range %d starting %#x: %s", uint64(leaf), loSpecial+x, uint64(ne.StartID()), ne.Done(), wp-1, uint64(want), desc)
				}
			}
		}
		// 4. backwards with Prev
		ri.Finish()
		for k := nr - 2; k >= 0; k-- {
			if !ri.Prev() || ri.StartID() != e.pos(m, c.Starts[k]) {
				o.Fail("cindex/Prev/"+e.kind, "Prev towards range %d: at %#x, model %#x: %s", k, uint64(ri.StartID()), uint64(e.pos(m, c.Starts[k])), desc)
				break
			}
		}
		if nr >= 2 && ri.StartID() == e.pos(m, c.Starts[0]) && ri.Prev() {
			o.Fail("cindex/Prev-at-begin/"+e.kind, "Prev at the first range returned true: %s", desc)
		}
		o.CountN("index_ranges", nr-1)
	}
	if o.nontrivial {
		o.sample = map[string]any{"op": "cindex", "pairs": c.Pairs, "starts": c.Starts}
	}
}

func opCIter(raw json.RawMessage, o *Out) {
	type obs struct {
		Start, Limit int
		Done, Empty  bool
	}
	var c struct {
		L, NF  int
		Lo, Hi bool
		Ne     bool
		Pairs  []c11Pair
		Steps  []struct {
			A   string
			X   int
			R   bool
			O   obs
			Rep []c11Pair
		}
		Seed int64
	}
	if err := json.Unmarshal(raw, &c); err != nil {
		panic(err)
	}
	m := newC11Model(c.L, c.NF)
	o.nontrivial = true
	embs := c11MatchingEmbeddings(m, c.Seed, c.Lo, c.Hi)
	if len(embs) == 0 {
		panic("citer: no embedding matches the flags of the case")
	}
	kind := "all"
	if c.Ne {
		kind = "nonempty"
	}
	rnd := rand.New(rand.NewSource(c.Seed + 31))
	for _, e := range embs {
		ix := c11BuildIndex(m, e, c.Pairs)
		var ri *s2.CellIndexRangeIterator
		if c.Ne {
			ri = s2.NewCellIndexNonEmptyRangeIterator(ix)
		} else {
			ri = s2.NewCellIndexRangeIterator(ix)
		}
		ci := s2.NewCellIndexContentsIterator(ix)
		names := ""
		positioned := false
		for k, s := range c.Steps {
			if k > 0 {
				names += ";"
			}
			names += s.A
			if s.A == "Seek" || s.A == "Advance" {
				names += fmt.Sprintf("(%d)", s.X)
			}
			var ds []string
			for _, p := range c.Pairs {
				ds = append(ds, fmt.Sprintf("%s:%d", m.str(p[0]), p[1]))
			}
			desc := fmt.Sprintf("index {%s} %s iterator, %s, after %s", strings.Join(ds, " "), kind, e.name, names)
			ret := true
			var rep []c11RealPair
			switch s.A {
			case "Begin":
				ri.Begin()
			case "Next":
				ri.Next()
			case "Finish":
				ri.Finish()
			case "Prev":
				ret = ri.Prev()
			case "Advance":
				ret = ri.Advance(s.X)
			case "Seek":
				ls := e.seekLeaves(m, s.X)
				ri.Seek(ls[rnd.Intn(len(ls))])
			case "Visit":
				rep = c11Drain(ci, ri, true)
			case "Peek":
				rep = c11Drain(ci, ri, false)
			case "Clear":
				ci.Clear()
			default:
				panic("unknown citer action " + s.A)
			}
			if ret != s.R {
				o.Fail("citer/return/"+s.A+"/"+kind+"/"+e.kind, "%s returned %v, model %v: %s", s.A, ret, s.R, desc)
			}
			if s.A == "Visit" || s.A == "Peek" {
				if want := c11RealPairs(m, e, s.Rep); !c11PairsEqual(rep, want) {
					o.Fail("citer/contents/"+s.A+"/"+kind+"/"+e.kind, "reported %s, model %s: %s", c11ShowPairs(rep), c11ShowPairs(want), desc)
				}
			}
			if s.A == "Begin" || s.A == "Finish" || s.A == "Seek" {
				positioned = true
			}
			if !positioned {
				if s.A != "Clear" {
					panic("citer: " + s.A + " before positioning")
				}
				continue // the range iterator is not positioned yet
			}
			if ri.Done() != s.O.Done {
				o.Fail("citer/Done/"+s.A+"/"+kind+"/"+e.kind, "Done=%v, model %v: %s", ri.Done(), s.O.Done, desc)
				break
			}
			if ri.StartID() != e.pos(m, s.O.Start) {
				o.Fail("citer/StartID/"+s.A+"/"+kind+"/"+e.kind, "StartID=%#x, model %#x (position %d): %s", uint64(ri.StartID()), uint64(e.pos(m, s.O.Start)), s.O.Start, desc)
			}
			if ri.IsEmpty() != s.O.Empty {
				o.Fail("citer/IsEmpty/"+s.A+"/"+kind+"/"+e.kind, "IsEmpty=%v, model %v: %s", ri.IsEmpty(), s.O.Empty, desc)
			}
			if !s.O.Done && ri.LimitID() != e.pos(m, s.O.Limit) {
				o.Fail("citer/LimitID/"+s.A+"/"+kind+"/"+e.kind, "LimitID=%#x, model %#x: %s", uint64(ri.LimitID()), uint64(e.pos(m, s.O.Limit)), desc)
			}
		}
	}
	o.sample = map[string]any{"op": "citer", "pairs": c.Pairs, "steps": len(c.Steps), "nonEmpty": c.Ne}
}
