package main

// C12: cell geometry agrees with cell ids.  Cases come from spec/Gen_CellGeom.tla: the
// specification derives, from S2's defining Hilbert tables alone, where every model cell
// sits on its face; every expectation below is one of its integer facts.  The handler
// evaluates the real s2.Cell / s2.PaddedCell on the embedded cells and compares.
//
//   c12cells   a chunk of model cells: containment of probe points (centres of finer cells)
//              and grid vertices, Children, bounds, PaddedCell, Distance/BoundaryDistance/
//              MaxDistance/DistanceToCell: zero exactly where the model says so, and the
//              order relations between the reported floats
//   c12segs    segments through cell centres along grid rows/columns: DistanceToEdge
//   c12shrink  PaddedCell.ShrinkToFit against the lowest common ancestor
//
// Order relations between floats are compared directly with the slack c12Tol: an absolute
// error of 5e-15 in the chord length (a few ulps of the unit coordinates), expressed on the
// squared chord length that s1.ChordAngle stores.  "Within the documented error" of positive
// distances is not decided.

import (
	"encoding/json"
	"fmt"
	"math"

	"github.com/golang/geo/r2"
	"github.com/golang/geo/r3"
	"github.com/golang/geo/s1"
	"github.com/golang/geo/s2"

	"verifharness/emb"
)

func init() {
	register("c12cells", opC12Cells)
	register("c12segs", opC12Segs)
	register("c12shrink", opC12Shrink)
	register("c12ulp", opC12Ulp)
}

type c12Root struct {
	L, Lp  int
	Face   int
	ALevel int
	APath  []int
	AIJO   [3]int
	Probes [][2]int
}

type c12Env struct {
	r       c12Root
	rootID  s2.CellID
	a       int // anchor level
	probeID []s2.CellID
	probePt []s2.Point
	byIJ    map[[2]int]int // probe (i,j) -> k
	vn      int
	vertex  []s2.Point // grid vertices of level Lp: index vi*(vn+1)+vj
	name    string
}

func c12Digits(k, n int) []int {
	p := make([]int, n)
	for i := n - 1; i >= 0; i-- {
		p[i] = k & 3
		k >>= 2
	}
	return p
}

func c12NewEnv(r c12Root) *c12Env {
	e := &c12Env{r: r, a: r.ALevel}
	e.rootID = emb.RawID(r.Face, r.APath)
	e.name = "top"
	if r.ALevel+r.Lp == 30 {
		e.name = "leaf"
	} else if r.ALevel > 0 {
		e.name = "deep"
	}
	n := len(r.Probes)
	e.probeID = make([]s2.CellID, n)
	e.probePt = make([]s2.Point, n)
	e.byIJ = make(map[[2]int]int, n)
	for k := 0; k < n; k++ {
		e.probeID[k] = emb.Under(e.rootID, c12Digits(k, r.Lp))
		e.probePt[k] = e.probeID[k].Point()
		e.byIJ[r.Probes[k]] = k
	}
	e.vn = 1 << uint(r.Lp)
	e.vertex = make([]s2.Point, (e.vn+1)*(e.vn+1))
	for vi := 0; vi <= e.vn; vi++ {
		for vj := 0; vj <= e.vn; vj++ {
			ci, cj, kk := vi, vj, 0
			if vi == e.vn {
				ci, kk = vi-1, 1
			}
			if vj == e.vn {
				cj = vj - 1
				if kk == 1 {
					kk = 2
				} else {
					kk = 3
				}
			}
			q := e.byIJ[[2]int{ci, cj}]
			e.vertex[vi*(e.vn+1)+vj] = s2.CellFromCellID(e.probeID[q]).Vertex(kk)
		}
	}
	return e
}

func (e *c12Env) id(l, k int) s2.CellID { return emb.Under(e.rootID, c12Digits(k, l)) }

// c12Contains is id-range containment by raw bit arithmetic.
func c12Contains(a, b s2.CellID) bool {
	la, lb := uint64(a)&-uint64(a), uint64(b)&-uint64(b)
	return uint64(a)-(la-1) <= uint64(b)-(lb-1) && uint64(b)+(lb-1) <= uint64(a)+(la-1)
}

func c12Name(id s2.CellID) string {
	return fmt.Sprintf("%d/%v", uint64(id)>>61, emb.RawPath(id))
}

// c12Tol is the slack on a squared chord length x for an absolute error of 5e-15 in the chord.
func c12Tol(x float64) float64 {
	const d = 5e-15
	if x < 0 {
		x = 0
	}
	return 2*math.Sqrt(x)*d + d*d
}

func c12Leq(a, b s1.ChordAngle) bool {
	return float64(a) <= float64(b)+c12Tol(math.Max(float64(a), float64(b)))
}

type c12Cell struct {
	L, K       int
	I, J, O    int
	Edges      [4]int
	Quad       [4][2]int
	Entry      [2]int
	Exit       [2]int
	Border     bool
	Touch      []int
	Touchcells [][2]int
}

func c12Corner(p [2]int) int {
	switch p {
	case [2]int{0, 0}:
		return 0
	case [2]int{1, 0}:
		return 1
	case [2]int{1, 1}:
		return 2
	}
	return 3
}

func opC12Cells(raw json.RawMessage, o *Out) {
	var c struct {
		Root  c12Root
		Cells []c12Cell
	}
	if err := json.Unmarshal(raw, &c); err != nil {
		panic(err)
	}
	e := c12NewEnv(c.Root)
	o.nontrivial = true
	cls := e.name
	// far targets: centres of the level-2 cells of all faces and antipodes of some probes
	var far []s2.Point
	for f := 0; f < 6; f++ {
		for k := 0; k < 16; k++ {
			far = append(far, emb.RawID(f, c12Digits(k, 2)).Point())
		}
	}
	for k := 0; k < len(e.probePt); k += 7 {
		far = append(far, s2.Point{Vector: e.probePt[k].Mul(-1)})
	}
	for _, mc := range c.Cells {
		id := e.id(mc.L, mc.K)
		cell := s2.CellFromCellID(id)
		lvl := e.a + mc.L
		desc := fmt.Sprintf("cell %s (model level %d number %d, square (%d,%d) below root %s)", c12Name(id), mc.L, mc.K, mc.I, mc.J, c12Name(e.rootID))
		o.Count("cells")
		// ---- A. identity and edge coordinates
		if cell.Face() != e.r.Face || cell.Level() != lvl || cell.ID() != id {
			o.Fail("cell/identity/"+cls, "Face/Level/ID = %d/%d/%v: %s", cell.Face(), cell.Level(), cell.ID(), desc)
		}
		for k := 0; k < 4; k++ {
			if got := cell.IJCoordOfEdge(k); got != mc.Edges[k] {
				o.Fail("cell/IJCoordOfEdge/"+cls, "IJCoordOfEdge(%d) = %d, model %d: %s", k, got, mc.Edges[k], desc)
			}
		}
		rect := cell.RectBound()
		capb := cell.CapBound()
		// ---- D. Children
		ch, ok := cell.Children()
		if ok != (lvl < 30) {
			o.Fail("cell/Children/ok/"+cls, "Children() ok=%v at level %d: %s", ok, lvl, desc)
		}
		var kids [4]s2.Cell
		if lvl < 30 {
			for pos := 0; pos < 4; pos++ {
				cid := emb.Under(id, []int{pos})
				kids[pos] = s2.CellFromCellID(cid)
				if ok && ch[pos] != kids[pos] {
					o.Fail("cell/Children/struct/"+cls, "Children()[%d] = %+v differs from CellFromCellID(%s) = %+v: %s", pos, ch[pos], c12Name(cid), kids[pos], desc)
				}
				// the child sits in the quadrant the model says
				q := mc.Quad[pos]
				uv, puv := kids[pos].BoundUV(), cell.BoundUV()
				okx := (q[0] == 0 && uv.X.Lo == puv.X.Lo && uv.X.Hi < puv.X.Hi) || (q[0] == 1 && uv.X.Hi == puv.X.Hi && uv.X.Lo > puv.X.Lo)
				oky := (q[1] == 0 && uv.Y.Lo == puv.Y.Lo && uv.Y.Hi < puv.Y.Hi) || (q[1] == 1 && uv.Y.Hi == puv.Y.Hi && uv.Y.Lo > puv.Y.Lo)
				if !okx || !oky {
					o.Fail("cell/child-quadrant/"+cls, "child %d has uv bound %v, model quadrant %v of %v: %s", pos, uv, q, puv, desc)
				}
			}
		}
		// ---- E. PaddedCell
		c12Padded(o, e, cls, desc, mc, cell, kids, lvl)
		// ---- B. probes: containment iff id-range containment; Distance zero iff contained
		var inside []int
		for q := range e.probePt {
			want := c12Contains(id, e.probeID[q])
			p := e.probePt[q]
			o.Count("probe_evals")
			if got := cell.ContainsPoint(p); got != want {
				o.Fail(fmt.Sprintf("cell/ContainsPoint/probe/%v/%s", want, cls), "ContainsPoint(centre of %s) = %v, id-range containment %v: %s", c12Name(e.probeID[q]), got, want, desc)
			}
			d := cell.Distance(p)
			if (d == 0) != want {
				o.Fail(fmt.Sprintf("cell/Distance-zero/probe/%v/%s", want, cls), "Distance(centre of %s) = %g, contained per model: %v: %s", c12Name(e.probeID[q]), float64(d), want, desc)
			}
			if want {
				inside = append(inside, q)
				if !rect.ContainsPoint(p) {
					o.Fail("cell/RectBound/probe/"+cls, "RectBound %v does not contain the centre of %s: %s", rect, c12Name(e.probeID[q]), desc)
				}
				if !capb.ContainsPoint(p) {
					o.Fail("cell/CapBound/probe/"+cls, "CapBound %v does not contain the centre of %s: %s", capb, c12Name(e.probeID[q]), desc)
				}
			}
		}
		// probes on other faces (top embedding): never contained
		if e.a == 0 {
			for f := 0; f < 6; f++ {
				if f == e.r.Face {
					continue
				}
				for k := 0; k < 16; k++ {
					p := emb.RawID(f, c12Digits(k, 2)).Point()
					if cell.ContainsPoint(p) || cell.Distance(p) == 0 {
						o.Fail("cell/ContainsPoint/other-face/"+cls, "contains (or is at distance 0 from) the centre of %s: %s", c12Name(emb.RawID(f, c12Digits(k, 2))), desc)
					}
				}
			}
		}
		// ---- C. grid vertices: closed cells contain every vertex they touch and no other
		touch := map[int]bool{}
		for _, v := range mc.Touch {
			touch[v] = true
		}
		for v, p := range e.vertex {
			got := cell.ContainsPoint(p)
			if got != touch[v] {
				o.Fail(fmt.Sprintf("cell/ContainsPoint/vertex/%v/%s", touch[v], cls), "ContainsPoint(grid vertex (%d,%d) of level %d) = %v, model touches: %v: %s", v/(e.vn+1), v%(e.vn+1), e.a+e.r.Lp, got, touch[v], desc)
			}
			if touch[v] {
				if !rect.ContainsPoint(p) {
					o.Fail("cell/RectBound/vertex/"+cls, "RectBound %v does not contain the touched grid vertex (%d,%d): %s", rect, v/(e.vn+1), v%(e.vn+1), desc)
				}
				if !capb.ContainsPoint(p) {
					o.Fail("cell/CapBound/vertex/"+cls, "CapBound %v does not contain the touched grid vertex (%d,%d): %s", capb, v/(e.vn+1), v%(e.vn+1), desc)
				}
			} else if cell.Distance(p) == 0 {
				o.Fail("cell/Distance-zero/vertex/"+cls, "Distance(grid vertex (%d,%d)) = 0 but the cell does not touch it: %s", v/(e.vn+1), v%(e.vn+1), desc)
			}
		}
		c12Bounds(o, cls, id)
		if e.a == 0 {
			// the cell with the same path on each of the other five faces (the model tables depend
			// on the face only through its parity, the bounds on its axes): bounds on every face
			for f := 0; f < 6; f++ {
				if f != e.r.Face {
					c12Bounds(o, cls, emb.RawID(f, c12Digits(mc.K, mc.L)))
				}
			}
		}
		// ---- F. other cells of the root
		tc := map[[2]int]bool{}
		for _, d := range mc.Touchcells {
			tc[d] = true
		}
		pair := func(did s2.CellID, predict, want bool) {
			dc := s2.CellFromCellID(did)
			d := cell.DistanceToCell(dc)
			o.Count("cellpair_evals")
			if predict && (d == 0) != want {
				o.Fail(fmt.Sprintf("cell/DistanceToCell-zero/%v/%s", want, cls), "DistanceToCell(%s) = %g, model touches: %v: %s", c12Name(did), float64(d), want, desc)
			}
			if back := dc.DistanceToCell(cell); back != d {
				o.Fail("cell/DistanceToCell/symmetry/"+cls, "DistanceToCell(%s) = %g but the converse = %g: %s", c12Name(did), float64(d), float64(back), desc)
			}
			md := cell.MaxDistanceToCell(dc)
			if back := dc.MaxDistanceToCell(cell); back != md {
				o.Fail("cell/MaxDistanceToCell/symmetry/"+cls, "MaxDistanceToCell(%s) = %g but the converse = %g: %s", c12Name(did), float64(md), float64(back), desc)
			}
			if !c12Leq(d, md) {
				o.Fail("cell/DistanceToCell/min-le-max/"+cls, "DistanceToCell(%s) = %g > MaxDistanceToCell = %g: %s", c12Name(did), float64(d), float64(md), desc)
			}
			ctr := dc.Center()
			if !c12Leq(d, cell.Distance(ctr)) || !c12Leq(cell.MaxDistance(ctr), md) {
				o.Fail("cell/DistanceToCell/bounds-centre/"+cls, "DistanceToCell(%s) = %g, Distance(its centre) = %g, MaxDistance(its centre) = %g, MaxDistanceToCell = %g: %s", c12Name(did), float64(d), float64(cell.Distance(ctr)), float64(cell.MaxDistance(ctr)), float64(md), desc)
			}
			for vk := 0; vk < 4; vk++ {
				v := dc.Vertex(vk)
				if !c12Leq(d, cell.Distance(v)) || !c12Leq(cell.MaxDistance(v), md) {
					o.Fail("cell/DistanceToCell/bounds-vertex/"+cls, "DistanceToCell(%s) = %g, Distance(its vertex %d) = %g, MaxDistance(its vertex) = %g, MaxDistanceToCell = %g: %s", c12Name(did), float64(d), vk, float64(cell.Distance(v)), float64(cell.MaxDistance(v)), float64(md), desc)
				}
			}
		}
		for l := 0; l <= e.r.L; l++ {
			for k := 0; k < 1<<uint(2*l); k++ {
				pair(e.id(l, k), true, tc[[2]int{l, k}])
			}
		}
		if e.a == 0 {
			// cells of the other faces: whether they touch across a cube edge is not predicted here
			for f := 0; f < 6; f++ {
				if f == e.r.Face {
					continue
				}
				pair(emb.RawID(f, nil), false, false)
				for k := 0; k < 4; k++ {
					pair(emb.RawID(f, []int{k}), false, false)
				}
			}
		}
		// ---- G. order relations of the point distances
		var samples []s2.Point
		step := len(inside)/6 + 1
		for x := 0; x < len(inside); x += step {
			samples = append(samples, e.probePt[inside[x]])
		}
		nInterior := len(samples)
		for k := 0; k < 4; k++ {
			samples = append(samples, cell.Vertex(k))
		}
		c12LongEdges(o, cls, desc, cell, append(append([]s2.Point(nil), samples...), cell.Center()))
		targets := append(append([]s2.Point(nil), e.probePt...), far...)
		// exact antipodes of the cell's own centre and vertices: every distance is (almost) the largest possible one
		targets = append(targets, s2.Point{Vector: cell.Center().Mul(-1)}, s2.Point{Vector: cell.ID().Point().Mul(-1)})
		for k := 0; k < 4; k++ {
			targets = append(targets, s2.Point{Vector: cell.Vertex(k).Mul(-1)})
		}
		for ti, t := range targets {
			d := cell.Distance(t)
			bd := cell.BoundaryDistance(t)
			md := cell.MaxDistance(t)
			o.Count("target_evals")
			td := fmt.Sprintf("target #%d (%.17g,%.17g,%.17g)", ti, t.X, t.Y, t.Z)
			// a distance between points of the sphere is a chord angle in [0, 4] (squared chord), never NaN
			for _, x := range []struct {
				n string
				v s1.ChordAngle
			}{{"Distance", d}, {"BoundaryDistance", bd}, {"MaxDistance", md}} {
				if !(x.v >= 0 && x.v <= s1.StraightChordAngle) {
					o.Fail("cell/"+x.n+"/range/"+cls, "%s = %.17g is not a chord angle in [0, 4] for %s: %s", x.n, float64(x.v), td, desc)
				}
			}
			if d > bd {
				o.Fail("cell/Distance-le-BoundaryDistance/"+cls, "Distance = %g > BoundaryDistance = %g for %s: %s", float64(d), float64(bd), td, desc)
			}
			if d > 0 && d != bd {
				o.Fail("cell/Distance-eq-BoundaryDistance-outside/"+cls, "target outside: Distance = %g, BoundaryDistance = %g for %s: %s", float64(d), float64(bd), td, desc)
			}
			if !c12Leq(d, md) {
				o.Fail("cell/Distance-le-MaxDistance/"+cls, "Distance = %g > MaxDistance = %g for %s: %s", float64(d), float64(md), td, desc)
			}
			// antipodal duality: MaxDistance(t) = 4 - Distance(-t) on squared chords
			dual := 4 - float64(cell.Distance(s2.Point{Vector: t.Mul(-1)}))
			if math.Abs(float64(md)-dual) > c12Tol(4) {
				o.Fail("cell/MaxDistance/antipodal-duality/"+cls, "MaxDistance = %.17g but 4 - Distance(-target) = %.17g for %s: %s", float64(md), dual, td, desc)
			}
			// no sampled point of the cell is closer than Distance or farther than MaxDistance
			for si, s := range samples {
				ds := s2.ChordAngleBetweenPoints(t, s)
				if !c12Leq(d, ds) {
					o.Fail("cell/Distance/not-a-lower-bound/"+cls, "Distance = %g but sample %d of the cell (interior: %v) is at %g from %s: %s", float64(d), si, si < nInterior, float64(ds), td, desc)
				}
				if !c12Leq(ds, md) {
					o.Fail("cell/MaxDistance/not-an-upper-bound/"+cls, "MaxDistance = %g but sample %d of the cell (interior: %v) is at %g from %s: %s", float64(md), si, si < nInterior, float64(ds), td, desc)
				}
			}
			// children: each child is at least as far, the nearest child exactly as far
			if lvl < 30 {
				best := s1.InfChordAngle()
				worst := s1.ChordAngle(0)
				for pos := 0; pos < 4; pos++ {
					dk := kids[pos].Distance(t)
					if !c12Leq(d, dk) {
						o.Fail("cell/Distance/child-closer/"+cls, "Distance = %g but child %d reports %g for %s: %s", float64(d), pos, float64(dk), td, desc)
					}
					if dk < best {
						best = dk
					}
					mk := kids[pos].MaxDistance(t)
					if !c12Leq(mk, md) {
						o.Fail("cell/MaxDistance/child-farther/"+cls, "MaxDistance = %g but child %d reports %g for %s: %s", float64(md), pos, float64(mk), td, desc)
					}
					if mk > worst {
						worst = mk
					}
				}
				if !c12Leq(best, d) {
					o.Fail("cell/Distance/not-attained-by-a-child/"+cls, "Distance = %g but the nearest child is at %g for %s: %s", float64(d), float64(best), td, desc)
				}
				if !c12Leq(md, worst) {
					o.Fail("cell/MaxDistance/not-attained-by-a-child/"+cls, "MaxDistance = %g but the farthest child reports %g for %s: %s", float64(md), float64(worst), td, desc)
				}
			}
		}
	}
	o.sample = map[string]any{"op": "c12cells", "root": c12Name(e.rootID), "cells": len(c.Cells), "first": c.Cells[0].K, "level": c.Cells[0].L}
}

// c12Bounds: RectBound and CapBound of the cell contain its four vertices, its centre and the
// centres of its descendants one, two and three levels down (an 8x8 grid of interior points;
// contained by id-range, model theorem T_Prefix).
func c12Bounds(o *Out, cls string, id s2.CellID) {
	cell := s2.CellFromCellID(id)
	rect, capb := cell.RectBound(), cell.CapBound()
	desc := "cell " + c12Name(id)
	check := func(what string, p s2.Point) {
		o.Count("bound_point_evals")
		if !rect.ContainsPoint(p) {
			o.Fail("cell/RectBound/"+what+"/"+cls, "RectBound %v does not contain %s (%.17g,%.17g,%.17g) = %v: %s", rect, what, p.X, p.Y, p.Z, s2.LatLngFromPoint(p), desc)
		}
		if !capb.ContainsPoint(p) {
			o.Fail("cell/CapBound/"+what+"/"+cls, "CapBound %v does not contain %s (%.17g,%.17g,%.17g): %s", capb, what, p.X, p.Y, p.Z, desc)
		}
	}
	for k := 0; k < 4; k++ {
		check("own-vertex", cell.Vertex(k))
	}
	check("own-centre", cell.Center())
	lvl := emb.RawLevel(id)
	for d := 1; d <= 3 && lvl+d <= 30; d++ {
		for k := 0; k < 1<<uint(2*d); k++ {
			check("descendant-centre", emb.Under(id, c12Digits(k, d)).Point())
		}
	}
}

// c12LongEdges: edge targets of 95..175 degrees that pass through or near the antipode of the
// cell centre, with one endpoint within 90 degrees of the cell and the other not, both beyond,
// or both within.  MaxDistanceToEdge must be an upper bound of the distance between every
// sampled point of the cell and every sampled point of the edge (and of the library's own
// point-to-edge maximum), and satisfy the documented duality with DistanceToEdge(-a,-b).
func c12LongEdges(o *Out, cls, desc string, cell s2.Cell, samples []s2.Point) {
	ctr := cell.Center()
	anti := s2.Point{Vector: ctr.Mul(-1)}
	x := anti.Ortho()
	y := anti.Cross(x).Normalize()
	deg := math.Pi / 180
	for di := 0; di < 4; di++ {
		th := float64(di)*math.Pi/4 + 0.3
		dir := x.Mul(math.Cos(th)).Add(y.Mul(math.Sin(th)))
		side := x.Mul(-math.Sin(th)).Add(y.Mul(math.Cos(th)))
		for _, sp := range [][3]float64{{-10, 100, 0}, {-55, 55, 0}, {-5, 170, 0}, {-30, 80, 3}, {-100, 10, -1}, {20, 120, 0}, {-85, 85, 0.5}, {-160, -60, 0}, {95, 178, 2}} {
			// base point: the antipode of the centre moved sideways by sp[2] degrees
			base := anti.Mul(math.Cos(sp[2] * deg)).Add(side.Mul(math.Sin(sp[2] * deg)))
			at := func(t float64) s2.Point {
				return s2.Point{Vector: base.Mul(math.Cos(t * deg)).Add(dir.Mul(math.Sin(t * deg))).Normalize()}
			}
			a, b := at(sp[0]), at(sp[1])
			o.Count("long_edge_evals")
			ed := fmt.Sprintf("edge of %.0f degrees from %.0f to %.0f degrees along direction %d past the antipode of the centre (sideways %.1f), a=(%.17g,%.17g,%.17g) b=(%.17g,%.17g,%.17g): %s", sp[1]-sp[0], sp[0], sp[1], di, sp[2], a.X, a.Y, a.Z, b.X, b.Y, b.Z, desc)
			md := cell.MaxDistanceToEdge(a, b)
			d := cell.DistanceToEdge(a, b)
			if rev := cell.MaxDistanceToEdge(b, a); rev != md {
				o.Fail("longedge/MaxDistanceToEdge/reversal/"+cls, "MaxDistanceToEdge(a,b) = %.17g, (b,a) = %.17g: %s", float64(md), float64(rev), ed)
			}
			if !c12Leq(d, md) {
				o.Fail("longedge/min-le-max/"+cls, "DistanceToEdge = %.17g > MaxDistanceToEdge = %.17g: %s", float64(d), float64(md), ed)
			}
			// duality as the code documents it: max distance = pi - min distance to the antipodal edge
			na, nb := s2.Point{Vector: a.Mul(-1)}, s2.Point{Vector: b.Mul(-1)}
			if dual := 4 - float64(cell.DistanceToEdge(na, nb)); math.Abs(float64(md)-dual) > c12Tol(4) {
				o.Fail("longedge/MaxDistanceToEdge/antipodal-duality/"+cls, "MaxDistanceToEdge = %.17g (%.4f degrees) but 4 - DistanceToEdge(-a,-b) = %.17g (%.4f degrees): %s", float64(md), s1.ChordAngle(md).Angle().Degrees(), dual, s1.ChordAngle(math.Min(dual, 4)).Angle().Degrees(), ed)
			}
			if dual := 4 - float64(cell.MaxDistanceToEdge(na, nb)); math.Abs(float64(d)-dual) > c12Tol(4) {
				o.Fail("longedge/DistanceToEdge/antipodal-duality/"+cls, "DistanceToEdge = %.17g but 4 - MaxDistanceToEdge(-a,-b) = %.17g: %s", float64(d), dual, ed)
			}
			if !c12Leq(cell.MaxDistance(a), md) || !c12Leq(cell.MaxDistance(b), md) || d > cell.Distance(a) || d > cell.Distance(b) {
				o.Fail("longedge/endpoints/"+cls, "MaxDistanceToEdge = %.17g, MaxDistance(a) = %.17g, MaxDistance(b) = %.17g; DistanceToEdge = %.17g, Distance(a) = %.17g, Distance(b) = %.17g: %s",
					float64(md), float64(cell.MaxDistance(a)), float64(cell.MaxDistance(b)), float64(d), float64(cell.Distance(a)), float64(cell.Distance(b)), ed)
			}
			// points of the edge
			var ys []s2.Point
			for k := 0; k <= 16; k++ {
				ys = append(ys, s2.Interpolate(float64(k)/16, a, b))
			}
			for si, s := range samples {
				// the library's own point-to-edge distances
				pmax, _ := s2.UpdateMaxDistance(s, a, b, s1.NegativeChordAngle)
				pmin, _ := s2.UpdateMinDistance(s, a, b, s1.InfChordAngle())
				if !c12Leq(pmax, md) {
					o.Fail("longedge/MaxDistanceToEdge/not-an-upper-bound/"+cls, "MaxDistanceToEdge = %.17g (%.4f degrees) but sample %d of the cell is at most %.17g (%.4f degrees) from the edge: %s", float64(md), md.Angle().Degrees(), si, float64(pmax), pmax.Angle().Degrees(), ed)
				}
				if !c12Leq(d, pmin) {
					o.Fail("longedge/DistanceToEdge/not-a-lower-bound/"+cls, "DistanceToEdge = %.17g but sample %d of the cell is at %.17g from the edge: %s", float64(d), si, float64(pmin), ed)
				}
				for yi, yp := range ys {
					ds := s2.ChordAngleBetweenPoints(s, yp)
					if !c12Leq(ds, md) {
						o.Fail("longedge/MaxDistanceToEdge/point-pair-farther/"+cls, "MaxDistanceToEdge = %.17g (%.4f degrees) but sample %d of the cell and point %d/16 of the edge are %.17g (%.4f degrees) apart: %s", float64(md), md.Angle().Degrees(), si, yi, float64(ds), ds.Angle().Degrees(), ed)
					}
					if !c12Leq(d, ds) {
						o.Fail("longedge/DistanceToEdge/point-pair-closer/"+cls, "DistanceToEdge = %.17g but sample %d of the cell and point %d/16 of the edge are %.17g apart: %s", float64(d), si, yi, float64(ds), ed)
					}
				}
			}
		}
	}
}

func c12Padded(o *Out, e *c12Env, cls, desc string, mc c12Cell, cell s2.Cell, kids [4]s2.Cell, lvl int) {
	id := cell.ID()
	w := cell.BoundUV().X.Hi - cell.BoundUV().X.Lo
	for _, pad := range []float64{0, w / 1024, 0.01} {
		pc := s2.PaddedCellFromCellID(id, pad)
		pd := fmt.Sprintf("padding %g: %s", pad, desc)
		if pc.CellID() != id || pc.Level() != lvl || pc.Padding() != pad {
			o.Fail("padded/identity/"+cls, "CellID/Level/Padding = %v/%d/%g: %s", pc.CellID(), pc.Level(), pc.Padding(), pd)
		}
		if want := cell.BoundUV().ExpandedByMargin(pad); pc.Bound() != want {
			o.Fail("padded/Bound/"+cls, "Bound() = %v, cell bound expanded = %v: %s", pc.Bound(), want, pd)
		}
		if pc.Center() != cell.Center() {
			o.Fail("padded/Center/"+cls, "Center() = %v, Cell.Center() = %v: %s", pc.Center(), cell.Center(), pd)
		}
		if got, want := pc.EntryVertex(), cell.Vertex(c12Corner(mc.Entry)); got != want {
			o.Fail("padded/EntryVertex/"+cls, "EntryVertex() = %v, model corner %v = %v: %s", got, mc.Entry, want, pd)
		}
		if got, want := pc.ExitVertex(), cell.Vertex(c12Corner(mc.Exit)); got != want {
			o.Fail("padded/ExitVertex/"+cls, "ExitVertex() = %v, model corner %v = %v: %s", got, mc.Exit, want, pd)
		}
		if lvl == 30 {
			continue
		}
		// the middle is the padded centre cross: its centre is the corner the children share
		var mid r2.Point
		for pos := 0; pos < 4; pos++ {
			if mc.Quad[pos] == [2]int{0, 0} {
				mid = r2.Point{X: kids[pos].BoundUV().X.Hi, Y: kids[pos].BoundUV().Y.Hi}
			}
		}
		wantMid := r2.RectFromPoints(mid).ExpandedByMargin(pad)
		if m := pc.Middle(); m != wantMid {
			o.Fail("padded/Middle/"+cls, "Middle() = %v, children's shared corner expanded = %v: %s", m, wantMid, pd)
		}
		for pos := 0; pos < 4; pos++ {
			q := mc.Quad[pos]
			if i, j := pc.ChildIJ(pos); i != q[0] || j != q[1] {
				o.Fail("padded/ChildIJ/"+cls, "ChildIJ(%d) = (%d,%d), model %v: %s", pos, i, j, q, pd)
			}
			sub := s2.PaddedCellFromParentIJ(pc, q[0], q[1])
			direct := s2.PaddedCellFromCellID(kids[pos].ID(), pad)
			if sub.CellID() != kids[pos].ID() {
				o.Fail("padded/FromParentIJ/id/"+cls, "PaddedCellFromParentIJ(%v).CellID() = %s, model child %d = %s: %s", q, c12Name(sub.CellID()), pos, c12Name(kids[pos].ID()), pd)
				continue
			}
			if sub.Level() != direct.Level() || sub.Bound() != direct.Bound() || sub.Center() != direct.Center() ||
				sub.EntryVertex() != direct.EntryVertex() || sub.ExitVertex() != direct.ExitVertex() {
				o.Fail("padded/FromParentIJ/struct/"+cls, "child %d from the parent (bound %v level %d) differs from the cell built from its id (bound %v level %d): %s", pos, sub.Bound(), sub.Level(), direct.Bound(), direct.Level(), pd)
			}
			if lvl+1 < 30 && sub.Middle() != direct.Middle() {
				o.Fail("padded/FromParentIJ/middle/"+cls, "child %d from the parent has Middle %v, from its id %v: %s", pos, sub.Middle(), direct.Middle(), pd)
			}
		}
	}
}

type c12Seg struct {
	Dir, Line, A, B int
	Cross           [][2]int
	Graze           [][2]int
}

func opC12Segs(raw json.RawMessage, o *Out) {
	var c struct {
		Root c12Root
		Segs []c12Seg
	}
	if err := json.Unmarshal(raw, &c); err != nil {
		panic(err)
	}
	e := c12NewEnv(c.Root)
	o.nontrivial = true
	cls := e.name
	at := func(dir, line, x int) s2.Point {
		if dir == 0 {
			return e.probePt[e.byIJ[[2]int{x, line}]]
		}
		return e.probePt[e.byIJ[[2]int{line, x}]]
	}
	vat := func(dir, line, x int) s2.Point {
		if dir == 0 {
			return e.vertex[x*(e.vn+1)+line]
		}
		return e.vertex[line*(e.vn+1)+x]
	}
	for _, sg := range c.Segs {
		c12Graze(o, e, cls, sg, vat)
		a, b := at(sg.Dir, sg.Line, sg.A), at(sg.Dir, sg.Line, sg.B)
		cross := map[[2]int]bool{}
		for _, x := range sg.Cross {
			cross[x] = true
		}
		sd := fmt.Sprintf("segment along %s %d from centre %d to centre %d of level %d below root %s", []string{"row", "column"}[sg.Dir], sg.Line, sg.A, sg.B, e.a+e.r.Lp, c12Name(e.rootID))
		for l := 0; l <= e.r.L; l++ {
			for k := 0; k < 1<<uint(2*l); k++ {
				id := e.id(l, k)
				cell := s2.CellFromCellID(id)
				want := cross[[2]int{l, k}]
				o.Count("segment_evals")
				d := cell.DistanceToEdge(a, b)
				desc := fmt.Sprintf("cell %s, %s", c12Name(id), sd)
				if (d == 0) != want {
					o.Fail(fmt.Sprintf("seg/DistanceToEdge-zero/%v/%s", want, cls), "DistanceToEdge = %g, model crosses: %v: %s", float64(d), want, desc)
				}
				if rev := cell.DistanceToEdge(b, a); rev != d {
					o.Fail("seg/DistanceToEdge/reversal/"+cls, "DistanceToEdge(a,b) = %g, (b,a) = %g: %s", float64(d), float64(rev), desc)
				}
				da, db := cell.Distance(a), cell.Distance(b)
				if d > da || d > db {
					o.Fail("seg/DistanceToEdge/endpoint/"+cls, "DistanceToEdge = %g > endpoint distances %g, %g: %s", float64(d), float64(da), float64(db), desc)
				}
				md := cell.MaxDistanceToEdge(a, b)
				if !c12Leq(d, md) || !c12Leq(cell.MaxDistance(a), md) || !c12Leq(cell.MaxDistance(b), md) {
					o.Fail("seg/MaxDistanceToEdge/lower/"+cls, "MaxDistanceToEdge = %g, DistanceToEdge = %g, MaxDistance(a) = %g, MaxDistance(b) = %g: %s", float64(md), float64(d), float64(cell.MaxDistance(a)), float64(cell.MaxDistance(b)), desc)
				}
				// the centres between the ends lie on the segment
				for x := sg.A + 1; x < sg.B; x++ {
					m := at(sg.Dir, sg.Line, x)
					if !c12Leq(d, cell.Distance(m)) {
						o.Fail("seg/DistanceToEdge/point-of-edge-closer/"+cls, "DistanceToEdge = %g but the centre %d on the edge is at %g: %s", float64(d), x, float64(cell.Distance(m)), desc)
					}
					if !c12Leq(cell.MaxDistance(m), md) {
						o.Fail("seg/MaxDistanceToEdge/point-of-edge-farther/"+cls, "MaxDistanceToEdge = %g but the centre %d on the edge is at max distance %g: %s", float64(md), x, float64(cell.MaxDistance(m)), desc)
					}
				}
				// children
				if e.a+l < 30 {
					best := s1.InfChordAngle()
					for pos := 0; pos < 4; pos++ {
						dk := s2.CellFromCellID(emb.Under(id, []int{pos})).DistanceToEdge(a, b)
						if !c12Leq(d, dk) {
							o.Fail("seg/DistanceToEdge/child-closer/"+cls, "DistanceToEdge = %g but child %d reports %g: %s", float64(d), pos, float64(dk), desc)
						}
						if dk < best {
							best = dk
						}
					}
					if !c12Leq(best, d) {
						o.Fail("seg/DistanceToEdge/not-attained-by-a-child/"+cls, "DistanceToEdge = %g but the nearest child is at %g: %s", float64(d), float64(best), desc)
					}
				}
			}
		}
	}
	o.sample = map[string]any{"op": "c12segs", "root": c12Name(e.rootID), "segments": len(c.Segs), "first": c.Segs[0]}
}

// c12Graze: the segment along a grid line from grid vertex A to grid vertex B+1 lies exactly
// on cell boundaries and runs through cell vertices.  Whether a grazed cell reports exactly 0
// is not predicted; a cell whose closed square does not meet the segment must be at positive
// distance, and the order relations must hold.
func c12Graze(o *Out, e *c12Env, cls string, sg c12Seg, vat func(dir, line, x int) s2.Point) {
	a, b := vat(sg.Dir, sg.Line, sg.A), vat(sg.Dir, sg.Line, sg.B+1)
	graze := map[[2]int]bool{}
	for _, x := range sg.Graze {
		graze[x] = true
	}
	sd := fmt.Sprintf("segment on grid %s %d from vertex %d to vertex %d of level %d below root %s", []string{"row line", "column line"}[sg.Dir], sg.Line, sg.A, sg.B+1, e.a+e.r.Lp, c12Name(e.rootID))
	for l := 0; l <= e.r.L; l++ {
		for k := 0; k < 1<<uint(2*l); k++ {
			id := e.id(l, k)
			cell := s2.CellFromCellID(id)
			d := cell.DistanceToEdge(a, b)
			desc := fmt.Sprintf("cell %s, %s", c12Name(id), sd)
			o.Count("graze_evals")
			if d == 0 && !graze[[2]int{l, k}] {
				o.Fail("seg/graze/DistanceToEdge-zero-but-apart/"+cls, "DistanceToEdge = 0 but the closed cell does not meet the segment: %s", desc)
			}
			if graze[[2]int{l, k}] && float64(d) > c12Tol(0)*1e4 {
				// grazing contact: the reported distance may be a rounding residue, not a real gap
				o.Fail("seg/graze/DistanceToEdge-positive-but-touching/"+cls, "DistanceToEdge = %g but the closed cell meets the segment: %s", float64(d), desc)
			}
			if rev := cell.DistanceToEdge(b, a); rev != d {
				o.Fail("seg/graze/reversal/"+cls, "DistanceToEdge(a,b) = %g, (b,a) = %g: %s", float64(d), float64(rev), desc)
			}
			if d > cell.Distance(a) || d > cell.Distance(b) {
				o.Fail("seg/graze/endpoint/"+cls, "DistanceToEdge = %g > endpoint distances %g, %g: %s", float64(d), float64(cell.Distance(a)), float64(cell.Distance(b)), desc)
			}
			for x := sg.A + 1; x <= sg.B; x++ {
				m := vat(sg.Dir, sg.Line, x)
				if !c12Leq(d, cell.Distance(m)) {
					o.Fail("seg/graze/point-of-edge-closer/"+cls, "DistanceToEdge = %g but grid vertex %d on the edge is at %g: %s", float64(d), x, float64(cell.Distance(m)), desc)
				}
			}
			md := cell.MaxDistanceToEdge(a, b)
			if !c12Leq(d, md) || !c12Leq(cell.MaxDistance(a), md) || !c12Leq(cell.MaxDistance(b), md) {
				o.Fail("seg/graze/MaxDistanceToEdge/"+cls, "MaxDistanceToEdge = %g, DistanceToEdge = %g, MaxDistance(a) = %g, MaxDistance(b) = %g: %s", float64(md), float64(d), float64(cell.MaxDistance(a)), float64(cell.MaxDistance(b)), desc)
			}
		}
	}
}

type c12Shrink struct {
	L, K, D1, D2       int
	Lca                [2]int
	Ilo, Ihi, Jlo, Jhi int
}

func opC12Shrink(raw json.RawMessage, o *Out) {
	var c struct {
		Root    c12Root
		Shrinks []c12Shrink
	}
	if err := json.Unmarshal(raw, &c); err != nil {
		panic(err)
	}
	e := c12NewEnv(c.Root)
	o.nontrivial = true
	cls := e.name
	for _, sh := range c.Shrinks {
		id := e.id(sh.L, sh.K)
		lo := s2.CellFromCellID(e.probeID[e.byIJ[[2]int{sh.Ilo, sh.Jlo}]]).BoundUV()
		hi := s2.CellFromCellID(e.probeID[e.byIJ[[2]int{sh.Ihi, sh.Jhi}]]).BoundUV()
		w := lo.X.Hi - lo.X.Lo
		if h := lo.Y.Hi - lo.Y.Lo; h < w {
			w = h
		}
		m := w / 8
		rect := r2.RectFromPoints(r2.Point{X: lo.X.Lo + m, Y: lo.Y.Lo + m}, r2.Point{X: hi.X.Hi - m, Y: hi.Y.Hi - m})
		want := e.id(sh.Lca[0], sh.Lca[1])
		for _, pad := range []float64{0, m / 4} {
			pc := s2.PaddedCellFromCellID(id, pad)
			got := pc.ShrinkToFit(rect)
			o.Count("shrink_evals")
			if got != want {
				o.Fail("padded/ShrinkToFit/"+cls, "ShrinkToFit(%v) with padding %g of cell %s = %s, smallest cell containing the probe squares (%d..%d, %d..%d): %s", rect, pad, c12Name(id), c12Name(got), sh.Ilo, sh.Ihi, sh.Jlo, sh.Jhi, c12Name(want))
			}
		}
	}
	o.sample = map[string]any{"op": "c12shrink", "root": c12Name(e.rootID), "cases": len(c.Shrinks)}
}

// ---------------------------------------------------------------- boundary-ulp class

// c12FaceUVToXYZ is the definition of the six cube-face frames (s2 projection).
func c12FaceUVToXYZ(face int, u, v float64) r3.Vector {
	switch face {
	case 0:
		return r3.Vector{X: 1, Y: u, Z: v}
	case 1:
		return r3.Vector{X: -u, Y: 1, Z: v}
	case 2:
		return r3.Vector{X: -u, Y: -v, Z: 1}
	case 3:
		return r3.Vector{X: -1, Y: -v, Z: -u}
	case 4:
		return r3.Vector{X: v, Y: -1, Z: -u}
	}
	return r3.Vector{X: v, Y: u, Z: -1}
}

func c12Nudge(x float64, n int) float64 {
	for ; n > 0; n-- {
		x = math.Nextafter(x, math.Inf(1))
	}
	for ; n < 0; n++ {
		x = math.Nextafter(x, math.Inf(-1))
	}
	return x
}

// opC12Ulp: points on the cell boundary st = k/2^level of a face and a few ulps beside it.  The
// leaf cell is the one the library assigns to the point; the point must be contained in that leaf
// and in each of its ancestors (ids by raw bit arithmetic).
func opC12Ulp(raw json.RawMessage, o *Out) {
	var c struct {
		Face, Level, K, K2 int
		Count              int
		Axis, Other        int
		Contained          []bool
	}
	if err := json.Unmarshal(raw, &c); err != nil {
		panic(err)
	}
	o.nontrivial = true
	n := 1 << uint(c.Level)
	// the other coordinate: the middle of a leaf, a leaf boundary, or a leaf boundary nudged
	ob := s2.CellFromCellID(emb.FromFaceIJ(c.Face, 30, c.K2, 0)).BoundUV().X
	w := []float64{0.5 * (ob.Lo + ob.Hi), ob.Lo, c12Nudge(ob.Lo, 2*c.Other-3)}[c.Other]
	failed := false
	check := func(p s2.Point, k int, how string) {
		o.Count("ulp_points")
		leaf := s2.CellFromPoint(p).ID()
		if emb.RawLevel(leaf) != 30 {
			o.Fail("c12/leaf-of-point/not-a-leaf", "CellFromPoint(%v) has level %d", p, emb.RawLevel(leaf))
			return
		}
		for l := 30; l >= 0; l-- {
			if !c.Contained[l] {
				continue
			}
			lsb := uint64(1) << uint(2*(30-l))
			a := s2.CellID((uint64(leaf) & -lsb) | lsb)
			cell := s2.CellFromCellID(a)
			if !cell.ContainsPoint(p) {
				o.Count("ulp_points_not_contained")
				if failed {
					return // one report per case
				}
				failed = true
				u, v, _ := c12UV(int(uint64(leaf)>>61), p)
				bd := cell.BoundUV()
				o.Fail("c12/contains-own-leaf/boundary-ulp", "CellFromCellID(%d = %s, level %d).ContainsPoint(p) = false for p = (%.17g,%.17g,%.17g) bits (%#x,%#x,%#x) whose leaf CellFromPoint(p) = %d [%s]: u=%.17g v=%.17g, cell uv bound X[%.17g,%.17g] Y[%.17g,%.17g]; outside by du=%.3g dv=%.3g (margin dblEpsilon = 2.22e-16); boundary k=%d of level %d on face %d, %s",
					uint64(a), c12Name(a), l, p.X, p.Y, p.Z, math.Float64bits(p.X), math.Float64bits(p.Y), math.Float64bits(p.Z), uint64(leaf), c12Name(leaf),
					u, v, bd.X.Lo, bd.X.Hi, bd.Y.Lo, bd.Y.Hi, math.Max(bd.X.Lo-u, u-bd.X.Hi), math.Max(bd.Y.Lo-v, v-bd.Y.Hi), k, c.Level, c.Face, how)
				return
			}
		}
	}
	for k := c.K; k < c.K+c.Count && k <= n; k++ {
		o.Count("ulp_boundaries")
		// the boundary coordinate, bit-identical to the bound the cells on both sides carry
		var b float64
		if k < n {
			b = s2.CellFromCellID(emb.FromFaceIJ(c.Face, c.Level, k, 0)).BoundUV().X.Lo
		} else {
			b = s2.CellFromCellID(emb.FromFaceIJ(c.Face, c.Level, n-1, 0)).BoundUV().X.Hi
		}
		for du := -8; du <= 4; du++ {
			u, v := c12Nudge(b, du), w
			if c.Axis == 1 {
				u, v = v, u
			}
			if math.Abs(u) > 1 || math.Abs(v) > 1 {
				continue // outside the face
			}
			p := s2.Point{Vector: c12FaceUVToXYZ(c.Face, u, v).Normalize()}
			check(p, k, fmt.Sprintf("u nudged by %d ulps, normalised", du))
			check(s2.PointFromLatLng(s2.LatLngFromPoint(p)), k, fmt.Sprintf("u nudged by %d ulps, through LatLng", du))
			for _, d := range [][3]int{{1, 0, 0}, {0, -1, 1}, {2, 2, -2}, {-3, 3, 0}, {-1, 0, 1}, {3, 0, -3}} {
				q := s2.Point{Vector: r3.Vector{X: c12Nudge(p.X, d[0]), Y: c12Nudge(p.Y, d[1]), Z: c12Nudge(p.Z, d[2])}}
				check(q, k, fmt.Sprintf("u nudged by %d ulps, normalised, xyz nudged by %v ulps", du, d))
			}
		}
	}
	o.sample = map[string]any{"op": "c12ulp", "face": c.Face, "level": c.Level, "k": c.K, "axis": c.Axis}
}

// c12UV is the definition of the (u,v) coordinates of a point on a face (for messages only).
func c12UV(face int, p s2.Point) (float64, float64, bool) {
	switch face {
	case 0:
		return p.Y / p.X, p.Z / p.X, true
	case 1:
		return -p.X / p.Y, p.Z / p.Y, true
	case 2:
		return -p.X / p.Z, -p.Y / p.Z, true
	case 3:
		return p.Z / p.X, p.Y / p.X, true
	case 4:
		return p.Z / p.Y, -p.X / p.Y, true
	}
	return -p.Y / p.Z, -p.X / p.Z, true
}
