package main

// Helpers shared by all property handlers.

import (
	"fmt"

	"github.com/golang/geo/s2"

	"verifharness/emb"
)

func tf(b bool) string {
	if b {
		return "T"
	}
	return "F"
}

func sameDir(p, q emb.P3) bool {
	cx := p[1]*q[2] - p[2]*q[1]
	cy := p[2]*q[0] - p[0]*q[2]
	cz := p[0]*q[1] - p[1]*q[0]
	return cx == 0 && cy == 0 && cz == 0 && p[0]*q[0]+p[1]*q[1]+p[2]*q[2] > 0
}

// collapses reports whether two distinct lattice points have the same direction
// (they would be the same point on the unit sphere: outside the unit embedding).
func collapses(ps ...emb.P3) bool {
	for i := range ps {
		for j := i + 1; j < len(ps); j++ {
			if ps[i] != ps[j] && sameDir(ps[i], ps[j]) {
				return true
			}
		}
	}
	return false
}

type embedding struct {
	name string
	f    func(emb.P3) s2.Point
}

var embDyadic3 = embedding{"dyadic3", func(p emb.P3) s2.Point { return emb.Dyadic(p, 3) }}
var embUnit = embedding{"unit", emb.Unit}

func sgn(x int) int {
	switch {
	case x > 0:
		return 1
	case x < 0:
		return -1
	}
	return 0
}

func crossStr(c s2.Crossing) string {
	switch c {
	case s2.Cross:
		return "CROSS"
	case s2.MaybeCross:
		return "MAYBE"
	case s2.DoNotCross:
		return "NO"
	}
	return fmt.Sprintf("BAD(%d)", int(c))
}
