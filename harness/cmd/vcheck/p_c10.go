package main

// C10: bounds are conservative; convex hull.
//
// Direction A: "c10.hull" replays the hull cases of Gen_Hull.tla (expected vertex cycle
// computed by TLC) and "c10.w2" / "c10.w1" execute the scenes of Gen_Bounds.tla.
// Direction B: every region built by a case is recorded as one "reg" event followed by
// one "wit" event per witness (floats as order-preserving keys, the library's own
// answers as booleans); Trace_Bounds.tla decides the relations.  "c10.rand" records
// seeded float families (caps, cells, cell unions, rectangles, polylines, regular loops,
// hulls) that TLC cannot enumerate.

import (
	"encoding/json"
	"fmt"
	"math"
	"math/rand"
	"os"
	"sync"

	"github.com/golang/geo/r1"
	"github.com/golang/geo/r3"
	"github.com/golang/geo/s1"
	"github.com/golang/geo/s2"

	"verifharness/emb"
)

func init() {
	register("c10.hull", opC10Hull)
	register("c10.w2", opC10W2)
	register("c10.w1", opC10W1)
	register("c10.rand", opC10Rand)
	register("c10.hullq", opC10HullQ)
}

// ------------------------------------------------------------------ recorder

var c10Mu sync.Mutex

// c10Detail: the confirmation pass records slackened copies of the witness coordinates
var c10Detail = os.Getenv("VERIF_C10_DETAIL") != ""

type c10Rec struct {
	cid   int
	only  int // -1: record everything; otherwise only the region with this sub index
	sub   int
	lines [][]byte // events for TLC (relational fields only)
	infos [][]byte // line-aligned details for the driver (case id, class, inputs as floats)
	o     *Out
}

func c10NewRec(cid int, only *int, o *Out) *c10Rec {
	r := &c10Rec{cid: cid, only: -1, o: o}
	if only != nil {
		r.only = *only
	}
	return r
}

func (r *c10Rec) add(ev, info map[string]any) {
	b, err := json.Marshal(ev)
	if err != nil {
		panic(err)
	}
	r.lines = append(r.lines, b)
	info["cid"] = r.cid
	b, err = json.Marshal(info)
	if err != nil {
		panic(err)
	}
	r.infos = append(r.infos, b)
}

func (r *c10Rec) flush() {
	path := os.Getenv("VERIF_C10_TRACE")
	if path == "" || len(r.lines) == 0 {
		return
	}
	c10Mu.Lock()
	defer c10Mu.Unlock()
	f, err := os.OpenFile(path, os.O_APPEND|os.O_WRONLY|os.O_CREATE, 0o644)
	if err != nil {
		panic(err)
	}
	g, err := os.OpenFile(path+".info", os.O_APPEND|os.O_WRONLY|os.O_CREATE, 0o644)
	if err != nil {
		panic(err)
	}
	var tb, ib []byte
	for i, ln := range r.lines {
		tb = append(append(tb, ln...), '\n')
		ib = append(append(ib, r.infos[i]...), '\n')
	}
	f.Write(tb)
	g.Write(ib)
	f.Close()
	g.Close()
}

func c10K(f float64) emb.Key { return emb.FloatKey(f) }

// c10IDKey is an order-preserving key of the 64 bits of a cell id.
func c10IDKey(id s2.CellID) emb.Key {
	b := uint64(id)
	return emb.Key{int(b >> 42), int((b >> 21) & (1<<21 - 1)), int(b & (1<<21 - 1))}
}

func c10RectKeys(r s2.Rect) [4]emb.Key {
	return [4]emb.Key{c10K(r.Lat.Lo), c10K(r.Lat.Hi), c10K(r.Lng.Lo), c10K(r.Lng.Hi)}
}

// ------------------------------------------------------------------ regions

type c10Region struct {
	kind string
	cls  string
	rect s2.Rect
	capb s2.Cap
	cov  []s2.CellID
	own  func(p s2.Point) bool
	w2   [][]int  // shell and holes as <<face,level,i0,j0,w,h>>, or nil
	tri  []emb.P3 // lattice triangle, or nil
	inv  bool     // the region is the complement of w2 / tri
	desc string
}

type c10Wit struct {
	p     s2.Point
	probe []int
	k     []int
	tag   string
}

func c10Ints(x []int) []int {
	if x == nil {
		return []int{}
	}
	return x
}

// emit records the region and its witnesses (one block, so that "back" is stable).
func (r *c10Rec) emit(reg *c10Region, wits []c10Wit) {
	sub := r.sub
	r.sub++
	if r.only >= 0 && r.only != sub {
		return
	}
	cov := make([][2]emb.Key, 0, len(reg.cov))
	for _, c := range reg.cov {
		cov = append(cov, [2]emb.Key{c10IDKey(c.RangeMin()), c10IDKey(c.RangeMax())})
	}
	w2 := [][]int{}
	if reg.w2 != nil {
		w2 = reg.w2
	}
	tri := []emb.P3{}
	if reg.tri != nil {
		tri = reg.tri
	}
	r.add(map[string]any{"ev": "reg", "rect": c10RectKeys(reg.rect), "capr": c10K(s2.VerifC10CapChord(reg.capb)), "cov": cov,
		"w2": w2, "tri": tri, "inv": reg.inv},
		map[string]any{"sub": sub, "kind": reg.kind, "cls": reg.cls, "desc": reg.desc,
			"rect": fmt.Sprintf("lat[%v,%v] lng[%v,%v]", reg.rect.Lat.Lo, reg.rect.Lat.Hi, reg.rect.Lng.Lo, reg.rect.Lng.Hi),
			"cap":  fmt.Sprintf("centre (%v,%v,%v) chord2 %v", reg.capb.Center().X, reg.capb.Center().Y, reg.capb.Center().Z, s2.VerifC10CapChord(reg.capb)),
			"ncov": len(reg.cov)})
	centre := reg.capb.Center()
	n := 0
	for _, w := range wits {
		n++
		ll := s2.LatLngFromPoint(w.p)
		lng := ll.Lng.Radians()
		if lng == -math.Pi {
			lng = math.Pi
		}
		leaf := s2.CellFromPoint(w.p).ID()
		inCov := false
		for _, c := range reg.cov {
			if c.Contains(leaf) {
				inCov = true
			}
		}
		own := reg.own(w.p)
		if own {
			r.o.Count("witness_contained")
		}
		dist := float64(s2.ChordAngleBetweenPoints(centre, w.p))
		ev := map[string]any{"ev": "wit", "back": n, "own": own,
			"lat": c10K(ll.Lat.Radians()), "lng": c10K(lng), "dist": c10K(dist), "leaf": c10IDKey(leaf),
			"inRect": reg.rect.ContainsLatLng(ll), "inCap": reg.capb.ContainsPoint(w.p), "inCov": inCov,
			"probe": c10Ints(w.probe), "k": c10Ints(w.k)}
		if c10Detail {
			// slackened copies, used only to name the magnitude class of a rejection
			for _, sl := range []struct {
				name string
				s    float64
			}{{"u", 1e-14}, {"s", 1e-6}} {
				wrap := func(x float64) float64 {
					x = math.Remainder(x, 2*math.Pi)
					if x == -math.Pi {
						x = math.Pi
					}
					return x
				}
				th := 2 * math.Asin(math.Min(1, math.Sqrt(dist)/2))
				th = math.Max(0, th-sl.s)
				h := 2 * math.Sin(th/2)
				// near pi the squared chord is insensitive to the angle: also allow a relative slack on it
				distm := math.Min(h*h, dist*(1-sl.s))
				ev["slack_"+sl.name] = map[string]any{
					"latm": c10K(ll.Lat.Radians() - sl.s), "latp": c10K(ll.Lat.Radians() + sl.s),
					"lngm": c10K(wrap(lng - sl.s)), "lngp": c10K(wrap(lng + sl.s)), "distm": c10K(distm)}
			}
		}
		r.add(ev,
			map[string]any{"sub": sub, "back": n, "tag": w.tag, "pt": [3]float64{w.p.X, w.p.Y, w.p.Z},
				"lat": ll.Lat.Radians(), "lng": lng, "dist": dist, "leaf": leaf.ToToken()})
	}
	r.o.CountN("witness_events", n)
	r.o.Count("regions")
}

// c10Ulps returns the six points that differ from p by one ulp in one coordinate.
func c10Ulps(p s2.Point, tag string) []c10Wit {
	var out []c10Wit
	for ax := 0; ax < 3; ax++ {
		for _, dir := range []float64{math.Inf(1), math.Inf(-1)} {
			q := p
			switch ax {
			case 0:
				q.X = math.Nextafter(q.X, dir)
			case 1:
				q.Y = math.Nextafter(q.Y, dir)
			default:
				q.Z = math.Nextafter(q.Z, dir)
			}
			out = append(out, c10Wit{p: q, tag: tag + "+ulp"})
		}
	}
	return out
}

func c10Norm(v r3.Vector) s2.Point { return s2.Point{Vector: v.Normalize()} }

var c10Poles = []s2.Point{
	{Vector: r3.Vector{X: 0, Y: 0, Z: 1}}, {Vector: r3.Vector{X: 0, Y: 0, Z: -1}},
}

func c10PoleWits() []c10Wit {
	var out []c10Wit
	for _, z := range []float64{1, -1} {
		out = append(out, c10Wit{p: s2.Point{Vector: r3.Vector{X: 0, Y: 0, Z: z}}, tag: "pole"})
		for _, d := range []float64{1e-16, 1e-9} {
			for _, xy := range [][2]float64{{1, 0}, {0, -1}, {-1, 1e-3}} {
				out = append(out, c10Wit{p: c10Norm(r3.Vector{X: xy[0] * d, Y: xy[1] * d, Z: z}), tag: "near-pole"})
			}
		}
	}
	return out
}

// c10LoopWits: vertices, points on the edges, points just inside, ulp neighbours.
func c10LoopWits(vs []s2.Point, inner s2.Point, dense bool) []c10Wit {
	var out []c10Wit
	n := len(vs)
	for i := 0; i < n; i++ {
		v, w := vs[i], vs[(i+1)%n]
		out = append(out, c10Wit{p: v, tag: "vertex"})
		mid := s2.Interpolate(0.5, v, w)
		out = append(out, c10Wit{p: mid, tag: "edge"})
		for _, d := range []float64{1e-15, 1e-12, 1e-6} {
			out = append(out, c10Wit{p: c10Norm(mid.Add(inner.Sub(mid.Vector).Mul(d))), tag: "near-edge"})
			out = append(out, c10Wit{p: c10Norm(v.Add(inner.Sub(v.Vector).Mul(d))), tag: "near-vertex"})
		}
		if dense {
			for _, t := range []float64{1e-9, 0.25, 0.75} {
				out = append(out, c10Wit{p: s2.Interpolate(t, v, w), tag: "edge"})
			}
			out = append(out, c10Ulps(v, "vertex")...)
			out = append(out, c10Ulps(mid, "edge")...)
		}
	}
	out = append(out, c10Wit{p: inner, tag: "inner"})
	return out
}

func c10LoopRegion(l *s2.Loop, cls, desc string) *c10Region {
	b, _ := s2.VerifC10LoopBounds(l)
	return &c10Region{kind: "loop", cls: cls, rect: b, capb: l.CapBound(), cov: l.CellUnionBound(),
		own: func(p s2.Point) bool { return s2.VerifC10LoopCrossingContains(l, p) }, desc: desc}
}

func c10PolygonRegion(pg *s2.Polygon, cls, desc string) *c10Region {
	return &c10Region{kind: "polygon", cls: cls, rect: pg.RectBound(), capb: pg.CapBound(), cov: pg.CellUnionBound(),
		own: func(p s2.Point) bool { return s2.VerifC10PolygonCrossingContains(pg, p) }, desc: desc}
}

// ---------------------------------------------------------------- W2 grid

func c10GridPoint(face, g, i, j int) s2.Point {
	n := 1 << uint(g)
	ci, cj := i, j
	if ci > n-1 {
		ci = n - 1
	}
	if cj > n-1 {
		cj = n - 1
	}
	k := 0
	switch {
	case i > ci && j > cj:
		k = 2
	case i > ci:
		k = 1
	case j > cj:
		k = 3
	}
	return s2.CellFromCellID(emb.FromFaceIJ(face, g, ci, cj)).Vertex(k)
}

// c10RectVerts: CCW boundary of the block; all grid corners or only the four corners.
func c10RectVerts(face, g int, r []int, all bool) []s2.Point {
	i0, j0, w, h := r[0], r[1], r[2], r[3]
	if !all {
		return []s2.Point{c10GridPoint(face, g, i0, j0), c10GridPoint(face, g, i0+w, j0),
			c10GridPoint(face, g, i0+w, j0+h), c10GridPoint(face, g, i0, j0+h)}
	}
	var v []s2.Point
	for i := i0; i < i0+w; i++ {
		v = append(v, c10GridPoint(face, g, i, j0))
	}
	for j := j0; j < j0+h; j++ {
		v = append(v, c10GridPoint(face, g, i0+w, j))
	}
	for i := i0 + w; i > i0; i-- {
		v = append(v, c10GridPoint(face, g, i, j0+h))
	}
	for j := j0 + h; j > j0; j-- {
		v = append(v, c10GridPoint(face, g, i0, j))
	}
	return v
}

func c10Rev(v []s2.Point) []s2.Point {
	out := make([]s2.Point, len(v))
	for i := range v {
		out[len(v)-1-i] = v[i]
	}
	return out
}

func c10Clone(v []s2.Point) []s2.Point { return append([]s2.Point(nil), v...) }

func c10TouchesPole(face, g int, r []int) bool {
	if face != 2 && face != 5 {
		return false
	}
	if g == 0 {
		return true
	}
	c := 1 << uint(g-1)
	return r[0] <= c && c <= r[0]+r[2] && r[1] <= c && c <= r[1]+r[3]
}

func c10W2Cls(base string, face, g int, r []int) string {
	s := base
	if g >= 20 {
		s += "/deep"
	}
	if c10TouchesPole(face, g, r) {
		s += "/pole"
	} else if face == 2 || face == 5 {
		s += "/polar-face"
	}
	return s
}

type c10W2Case struct {
	Cid    int
	Only   *int
	F, G   int
	A      []int
	Subs   [][]int
	Holes  [][]int
	PG     int `json:"pg"`
	Pin    [][]int
	Pout   [][]int
	Dense  bool
	SubLvl int `json:"sublvl"` // sub-rectangles are given on level G+SubLvl
}

func opC10W2(raw json.RawMessage, o *Out) {
	var c c10W2Case
	if err := json.Unmarshal(raw, &c); err != nil {
		panic(err)
	}
	rec := c10NewRec(c.Cid, c.Only, o)
	defer rec.flush()
	o.nontrivial = true
	shell := []int{c.F, c.G, c.A[0], c.A[1], c.A[2], c.A[3]}
	var probes []c10Wit
	for _, p := range append(append([][]int{}, c.Pin...), c.Pout...) {
		probes = append(probes, c10Wit{p: emb.FromFaceIJ(c.F, c.PG, p[0], p[1]).Point(),
			probe: []int{c.F, c.PG, p[0], p[1]}, tag: "probe"})
	}
	// a point inside A: the centre of its first probe-level cell
	s := 1 << uint(c.PG-c.G)
	inner := emb.FromFaceIJ(c.F, c.PG, c.A[0]*s, c.A[1]*s).Point()
	desc := fmt.Sprintf("face %d level %d cells [%d,%d)x[%d,%d)", c.F, c.G, c.A[0], c.A[0]+c.A[2], c.A[1], c.A[1]+c.A[3])
	poles := c10PoleWits()
	for _, all := range []bool{true, false} {
		vs := c10RectVerts(c.F, c.G, c.A, all)
		name := "loop/w2-4corners"
		if all {
			name = "loop/w2"
		}
		wits := append(append(c10LoopWits(vs, inner, c.Dense), probes...), poles...)
		// the loop
		l := s2.LoopFromPoints(c10Clone(vs))
		reg := c10LoopRegion(l, c10W2Cls(name, c.F, c.G, c.A), desc)
		reg.w2 = [][]int{shell}
		rec.emit(reg, wits)
		// its complement, built by Invert() and built from the reversed vertex order
		li := s2.LoopFromPoints(c10Clone(vs))
		li.Invert()
		reg = c10LoopRegion(li, c10W2Cls(name+"/Invert()", c.F, c.G, c.A), desc+" inverted")
		reg.w2, reg.inv = [][]int{shell}, true
		rec.emit(reg, wits)
		lr := s2.LoopFromPoints(c10Rev(vs))
		reg = c10LoopRegion(lr, c10W2Cls(name+"/reversed", c.F, c.G, c.A), desc+" reversed")
		reg.w2, reg.inv = [][]int{shell}, true
		rec.emit(reg, wits)
		// double inversion must give the original bound back or a conservative one
		li2 := s2.LoopFromPoints(c10Clone(vs))
		li2.Invert()
		li2.Invert()
		reg = c10LoopRegion(li2, c10W2Cls(name+"/Invert()x2", c.F, c.G, c.A), desc+" inverted twice")
		reg.w2 = [][]int{shell}
		rec.emit(reg, wits)
	}
	// polygons: shell minus one hole
	for _, h := range c.Holes {
		sh := s2.LoopFromPoints(c10RectVerts(c.F, c.G, c.A, true))
		ho := s2.LoopFromPoints(c10RectVerts(c.F, c.G, h, true))
		pg := s2.PolygonFromLoops([]*s2.Loop{sh, ho})
		reg := c10PolygonRegion(pg, c10W2Cls("polygon/w2-hole", c.F, c.G, c.A), fmt.Sprintf("%s minus hole %v", desc, h))
		reg.w2 = [][]int{shell, {c.F, c.G, h[0], h[1], h[2], h[3]}}
		wits := append(append(c10LoopWits(c10RectVerts(c.F, c.G, c.A, true), inner, false), probes...), poles...)
		hv := c10RectVerts(c.F, c.G, h, true)
		wits = append(wits, c10LoopWits(hv, inner, false)...)
		rec.emit(reg, wits)
		// the complement: Polygon.Invert() turns the shell inside out and the hole into an island shell;
		// the same region built directly from oriented loops (clockwise shell, counter-clockwise island)
		s0 := 1 << uint(c.PG-c.G)
		hin := emb.FromFaceIJ(c.F, c.PG, h[0]*s0, h[1]*s0).Point()
		iw := append(append([]c10Wit{}, wits...), c10LoopWits(hv, hin, false)...)
		pi := s2.PolygonFromLoops([]*s2.Loop{s2.LoopFromPoints(c10RectVerts(c.F, c.G, c.A, true)), s2.LoopFromPoints(c10RectVerts(c.F, c.G, h, true))})
		pi.Invert()
		reg = c10PolygonRegion(pi, c10W2Cls("polygon/w2-hole/Invert()", c.F, c.G, c.A), fmt.Sprintf("%s minus hole %v, inverted", desc, h))
		reg.w2, reg.inv = [][]int{shell, {c.F, c.G, h[0], h[1], h[2], h[3]}}, true
		rec.emit(reg, iw)
		po := s2.PolygonFromOrientedLoops([]*s2.Loop{s2.LoopFromPoints(c10Rev(c10RectVerts(c.F, c.G, c.A, true))), s2.LoopFromPoints(c10RectVerts(c.F, c.G, h, true))})
		reg = c10PolygonRegion(po, c10W2Cls("polygon/w2-hole/oriented-complement", c.F, c.G, c.A), fmt.Sprintf("complement of %s plus island %v from oriented loops", desc, h))
		reg.w2, reg.inv = [][]int{shell, {c.F, c.G, h[0], h[1], h[2], h[3]}}, true
		rec.emit(reg, iw)
	}
	// sub-regions
	la := s2.LoopFromPoints(c10RectVerts(c.F, c.G, c.A, true))
	la4 := s2.LoopFromPoints(c10RectVerts(c.F, c.G, c.A, false))
	pa := s2.PolygonFromLoops([]*s2.Loop{s2.LoopFromPoints(c10RectVerts(c.F, c.G, c.A, true))})
	_, sa := s2.VerifC10LoopBounds(la)
	_, sa4 := s2.VerifC10LoopBounds(la4)
	_, spa := s2.VerifC10PolygonBounds(pa)
	gb := c.G + c.SubLvl
	for _, b := range c.Subs {
		sub := rec.sub
		rec.sub++
		if rec.only >= 0 && rec.only != sub {
			continue
		}
		bb := []int{c.F, gb, b[0], b[1], b[2], b[3]}
		for _, allB := range []bool{true, false} {
			lb := s2.LoopFromPoints(c10RectVerts(c.F, gb, b, allB))
			rb := lb.RectBound()
			for vi, v := range []struct {
				name string
				sa   s2.Rect
			}{{"loop", sa}, {"loop-4corners", sa4}, {"polygon", spa},
				{"ExpandForSubregions", s2.ExpandForSubregions(la.RectBound())}} {
				_ = vi
				// A built from its four corners only: a vertex of B that lies on a side of A is not a
				// vertex of A, and its rounded coordinates may fall an ulp outside A's edge - B is then
				// not a subregion of A in the sense of the guarantee.  Demand it only for B strictly inside.
				if v.name == "loop-4corners" {
					sc := 1 << uint(c.SubLvl)
					if b[0] <= c.A[0]*sc || b[1] <= c.A[1]*sc || b[0]+b[2] >= (c.A[0]+c.A[2])*sc || b[1]+b[3] >= (c.A[1]+c.A[3])*sc {
						continue
					}
				}
				rec.add(map[string]any{"ev": "sub", "a": shell, "b": bb,
					"sa": c10RectKeys(v.sa), "bb": c10RectKeys(rb), "lib": v.sa.Contains(rb)},
					map[string]any{"sub": sub, "cls": c10W2Cls("sub/"+v.name, c.F, c.G, c.A),
						"desc": fmt.Sprintf("A=%s B=level %d %v allcorners=%v; subregion bound of A %v, bound of B %v", desc, gb, b, allB, v.sa, rb)})
				o.Count("subregion_events")
			}
		}
	}
	o.sample = map[string]any{"op": "c10.w2", "face": c.F, "level": c.G, "a": c.A, "subs": len(c.Subs), "holes": len(c.Holes)}
}

// ---------------------------------------------------------------- W1 lattice

func c10Comb(k []int, a, b, c emb.P3) emb.P3 {
	return emb.P3{k[0]*a[0] + k[1]*b[0] + k[2]*c[0], k[0]*a[1] + k[1]*b[1] + k[2]*c[1], k[0]*a[2] + k[1]*b[2] + k[2]*c[2]}
}

func opC10W1(raw json.RawMessage, o *Out) {
	var c struct {
		Cid     int
		Only    *int
		A, B, C emb.P3
		Ks      [][]int
	}
	if err := json.Unmarshal(raw, &c); err != nil {
		panic(err)
	}
	rec := c10NewRec(c.Cid, c.Only, o)
	defer rec.flush()
	o.nontrivial = true
	tri := []emb.P3{c.A, c.B, c.C}
	vs := []s2.Point{emb.Unit(c.A), emb.Unit(c.B), emb.Unit(c.C)}
	inner := emb.Unit(c10Comb([]int{1, 1, 1}, c.A, c.B, c.C))
	wits := c10LoopWits(vs, inner, true)
	for _, k := range c.Ks {
		w := c10Comb(k, c.A, c.B, c.C)
		if w == (emb.P3{}) {
			continue
		}
		wits = append(wits, c10Wit{p: emb.Unit(w), k: k, tag: "lattice"})
	}
	wits = append(wits, c10PoleWits()...)
	cls := "loop/w1"
	for _, p := range tri {
		if p[0] == 0 && p[1] == 0 {
			cls = "loop/w1/pole-vertex"
		}
	}
	desc := fmt.Sprintf("lattice triangle %v %v %v (normalised)", c.A, c.B, c.C)
	l := s2.LoopFromPoints(c10Clone(vs))
	reg := c10LoopRegion(l, cls, desc)
	reg.tri = tri
	rec.emit(reg, wits)
	li := s2.LoopFromPoints(c10Clone(vs))
	li.Invert()
	reg = c10LoopRegion(li, cls+"/Invert()", desc+" inverted")
	reg.tri, reg.inv = tri, true
	rec.emit(reg, wits)
	lr := s2.LoopFromPoints(c10Rev(vs))
	reg = c10LoopRegion(lr, cls+"/reversed", desc+" reversed")
	reg.tri, reg.inv = tri, true
	rec.emit(reg, wits)
	// the same vertices as a polyline (closed chain) and its hull
	pl := s2.Polyline(append(c10Clone(vs), vs[0]))
	c10EmitPolyline(rec, &pl, "polyline/w1", desc)
	q := s2.NewConvexHullQuery()
	q.AddPolyline(&pl)
	c10EmitHull(rec, q.ConvexHull(), vs, "hull/w1-polyline", desc)
	o.sample = map[string]any{"op": "c10.w1", "a": c.A, "b": c.B, "c": c.C}
}

// c10EmitPolyline: vertices are hard witnesses of the polyline's bounds; points inside
// the edges are checked against the latitude bound with a slack (gross-error detector).
func c10EmitPolyline(rec *c10Rec, pl *s2.Polyline, cls, desc string) {
	vs := []s2.Point(*pl)
	isV := map[s2.Point]bool{}
	for _, v := range vs {
		isV[v] = true
	}
	reg := &c10Region{kind: "polyline", cls: cls, rect: pl.RectBound(), capb: pl.CapBound(), cov: pl.CellUnionBound(),
		own: func(p s2.Point) bool { return isV[p] }, desc: desc}
	var wits []c10Wit
	for _, v := range vs {
		wits = append(wits, c10Wit{p: v, tag: "vertex"})
	}
	sub := rec.sub
	rec.emit(reg, wits)
	if rec.only >= 0 && rec.only != sub {
		return
	}
	const slack = 1e-14
	for i := 0; i+1 < len(vs); i++ {
		if vs[i].Add(vs[i+1].Vector).Norm() < 1e-7 {
			continue // nearly antipodal: the interpolated points are not near a well-defined edge
		}
		for _, t := range []float64{0.1, 0.25, 0.5, 0.75, 0.9} {
			p := s2.Interpolate(t, vs[i], vs[i+1])
			lat := s2.LatLngFromPoint(p).Lat.Radians()
			// distance from the cap axis, reduced by a 1e-12 rad slack (the interpolated point is within
			// ~1e-15 of the edge; the cap of the rectangle is known to be unpadded)
			d := float64(s2.ChordAngleBetweenPoints(reg.capb.Center(), p))
			th := math.Max(0, 2*math.Asin(math.Min(1, math.Sqrt(d)/2))-1e-12)
			hh := 2 * math.Sin(th/2)
			rec.add(map[string]any{"ev": "pl", "latm": c10K(lat - slack), "latp": c10K(lat + slack), "rect": c10RectKeys(reg.rect),
				"distm": c10K(math.Min(hh*hh, d*(1-1e-12))), "capr": c10K(s2.VerifC10CapChord(reg.capb))},
				map[string]any{"sub": sub, "cls": cls, "desc": fmt.Sprintf("%s edge %d t=%v lat=%v bound %v", desc, i, t, lat, reg.rect)})
			rec.o.Count("polyline_interior_events")
		}
	}
}

// c10EmitHull records the convexity signs of the hull loop and, per input point, whether
// the hull contains it or has it as a vertex.
func c10EmitHull(rec *c10Rec, hull *s2.Loop, inputs []s2.Point, cls, desc string) {
	sub := rec.sub
	rec.sub++
	if rec.only >= 0 && rec.only != sub {
		return
	}
	signs := []int{}
	n := hull.NumVertices()
	full := hull.IsFull()
	if !full && !hull.IsEmpty() && n >= 3 {
		for i := 0; i < n; i++ {
			signs = append(signs, int(s2.RobustSign(hull.Vertex(i), hull.Vertex(i+1), hull.Vertex(i+2))))
		}
	}
	ins := [][2]bool{}
	for _, p := range inputs {
		isV := false
		if !full {
			for i := 0; i < n; i++ {
				if hull.Vertex(i) == p {
					isV = true
				}
			}
		}
		ins = append(ins, [2]bool{hull.ContainsPoint(p), isV})
	}
	rec.add(map[string]any{"ev": "hull", "n": n, "full": full, "signs": signs, "ins": ins},
		map[string]any{"sub": sub, "cls": cls, "desc": fmt.Sprintf("%s; hull %v", desc, hull.Vertices())})
	rec.o.Count("hull_events")
}

// ---------------------------------------------------------------- hull replay

func opC10Hull(raw json.RawMessage, o *Out) {
	var c struct {
		N       int
		Pts     []emb.P3
		Hull    []emb.P3
		Robust  bool
		Must    []emb.P3
		Mustnot []emb.P3
		Perm    int64
	}
	if err := json.Unmarshal(raw, &c); err != nil {
		panic(err)
	}
	rnd := rand.New(rand.NewSource(c.Perm))
	o.nontrivial = !c.Robust || len(c.Hull) < len(c.Pts)
	if !c.Robust {
		o.Count("hull_sets_with_collinear_triple")
	}
	for _, e := range []embedding{embDyadic3, embUnit} {
		for rep := 0; rep < 3; rep++ {
			// input order and duplicates are seed-chosen; the hull does not depend on them
			in := append([]emb.P3(nil), c.Pts...)
			rnd.Shuffle(len(in), func(i, j int) { in[i], in[j] = in[j], in[i] })
			if rep == 2 {
				in = append(in, in[rnd.Intn(len(in))], in[0])
				rnd.Shuffle(len(in), func(i, j int) { in[i], in[j] = in[j], in[i] })
			}
			q := s2.NewConvexHullQuery()
			back := map[s2.Point]emb.P3{}
			for _, p := range in {
				pt := e.f(p)
				back[pt] = p
				if rep == 1 {
					pl := s2.Polyline{pt}
					q.AddPolyline(&pl)
				} else {
					q.AddPoint(pt)
				}
			}
			h := q.ConvexHull()
			desc := fmt.Sprintf("inputs=%v [%s] rep=%d", in, e.name, rep)
			if h.IsFull() || h.IsEmpty() {
				o.Fail("c10.hull/full-or-empty/"+e.name, "ConvexHull of points in a 55-degree cap is empty/full: %s", desc)
				continue
			}
			if len(c.Pts) < 3 {
				// documented: a tiny loop of three vertices, superset of the input vertices
				for _, p := range c.Pts {
					found := false
					for i := 0; i < h.NumVertices(); i++ {
						if h.Vertex(i) == e.f(p) {
							found = true
						}
					}
					if !found {
						o.Fail("c10.hull/small-set-vertex/"+e.name, "hull of %d point(s) lacks input %v as a vertex: %s", len(c.Pts), p, desc)
					}
				}
				continue
			}
			var got []emb.P3
			foreign := false
			for i := 0; i < h.NumVertices(); i++ {
				p, ok := back[h.Vertex(i)]
				if !ok {
					foreign = true
				}
				got = append(got, p)
			}
			if foreign {
				o.Fail("c10.hull/foreign-vertex/"+e.name, "hull has a vertex that is not an input: %s", desc)
				continue
			}
			// convex by the library's own RobustSign
			for i := 0; i < h.NumVertices(); i++ {
				if s2.RobustSign(h.Vertex(i), h.Vertex(i+1), h.Vertex(i+2)) != s2.CounterClockwise {
					o.Fail("c10.hull/not-convex/"+e.name, "hull %v makes a non-CCW turn at %v: %s", got, got[(i+1)%len(got)], desc)
					break
				}
			}
			exact := e.name != "unit" || c.Robust
			if exact {
				if !c10SameCycle(got, c.Hull) {
					o.Fail("c10.hull/cycle/"+e.name, "hull %v, model (exact orientation tests) %v: %s", got, c.Hull, desc)
				}
			} else {
				in := map[emb.P3]bool{}
				for _, p := range got {
					in[p] = true
				}
				for _, p := range c.Must {
					if !in[p] {
						o.Fail("c10.hull/missing-extreme-point/"+e.name, "strictly extreme %v not a hull vertex; hull %v: %s", p, got, desc)
					}
				}
				for _, p := range c.Mustnot {
					if in[p] {
						o.Fail("c10.hull/interior-point-is-vertex/"+e.name, "strictly interior %v is a hull vertex; hull %v: %s", p, got, desc)
					}
				}
			}
			// every input is contained or is a vertex (unit embedding: Loop needs unit vectors)
			if e.name == "unit" {
				hv := map[emb.P3]bool{}
				for _, p := range got {
					hv[p] = true
				}
				for _, p := range c.Pts {
					if !hv[p] && !h.ContainsPoint(e.f(p)) {
						o.Fail("c10.hull/input-not-contained/"+e.name, "input %v neither vertex nor contained; hull %v: %s", p, got, desc)
					}
				}
			}
		}
	}
	o.sample = map[string]any{"op": "c10.hull", "pts": c.Pts, "hull": c.Hull, "robust": c.Robust}
}

func c10SameCycle(a, b []emb.P3) bool {
	if len(a) != len(b) {
		return false
	}
	n := len(a)
	for s := 0; s < n; s++ {
		ok := true
		for i := 0; i < n; i++ {
			if a[(s+i)%n] != b[i] {
				ok = false
				break
			}
		}
		if ok {
			return true
		}
	}
	return n == 0
}

// ---------------------------------------------------------------- seeded float families

func c10RandPoint(rnd *rand.Rand) s2.Point {
	for {
		v := r3.Vector{X: rnd.NormFloat64(), Y: rnd.NormFloat64(), Z: rnd.NormFloat64()}
		if v.Norm() > 1e-3 {
			return c10Norm(v)
		}
	}
}

// c10SpecialPoint: poles, near-poles, antimeridian, equator, face corners/edges, random.
func c10SpecialPoint(rnd *rand.Rand) s2.Point {
	switch rnd.Intn(10) {
	case 0:
		return c10Poles[rnd.Intn(2)]
	case 1:
		d := math.Pow(10, -float64(rnd.Intn(17)))
		return c10Norm(r3.Vector{X: d * rnd.NormFloat64(), Y: d * rnd.NormFloat64(), Z: float64(1 - 2*rnd.Intn(2))})
	case 2:
		d := math.Pow(10, -float64(rnd.Intn(17)))
		return c10Norm(r3.Vector{X: -1, Y: d * rnd.NormFloat64(), Z: rnd.NormFloat64()})
	case 3:
		d := math.Pow(10, -float64(rnd.Intn(17)))
		return c10Norm(r3.Vector{X: rnd.NormFloat64(), Y: rnd.NormFloat64(), Z: d * rnd.NormFloat64()})
	case 4:
		p := emb.P3{rnd.Intn(3) - 1, rnd.Intn(3) - 1, rnd.Intn(3) - 1}
		if p == (emb.P3{}) {
			p = emb.P3{1, 1, 1}
		}
		return emb.Unit(p)
	case 5:
		return s2.CellFromCellID(s2.CellIDFromFace(rnd.Intn(6)).ChildBeginAtLevel(rnd.Intn(31))).Vertex(rnd.Intn(4))
	}
	return c10RandPoint(rnd)
}

func c10RandCellID(rnd *rand.Rand) s2.CellID {
	lvl := rnd.Intn(31)
	switch rnd.Intn(4) {
	case 0: // around a pole / face centre
		f := []int{2, 5, rnd.Intn(6)}[rnd.Intn(3)]
		h := 1 << uint(lvl) >> 1
		n := 1 << uint(lvl)
		i, j := h-rnd.Intn(2), h-rnd.Intn(2)
		if i < 0 || n == 1 {
			i = 0
		}
		if j < 0 || n == 1 {
			j = 0
		}
		return emb.FromFaceIJ(f, lvl, i, j)
	case 1: // face corner / edge
		n := 1 << uint(lvl)
		pick := func() int {
			switch rnd.Intn(3) {
			case 0:
				return 0
			case 1:
				return n - 1
			}
			return rnd.Intn(n)
		}
		return emb.FromFaceIJ(rnd.Intn(6), lvl, pick(), pick())
	}
	return s2.CellFromPoint(c10SpecialPoint(rnd)).ID().Parent(lvl)
}

func c10CellWits(id s2.CellID) []c10Wit {
	c := s2.CellFromCellID(id)
	var out []c10Wit
	out = append(out, c10Wit{p: c.Center(), tag: "centre"}, c10Wit{p: id.Point(), tag: "centre"})
	for k := 0; k < 4; k++ {
		v := c.Vertex(k)
		out = append(out, c10Wit{p: v, tag: "vertex"})
		out = append(out, c10Ulps(v, "vertex")...)
		m := c10Norm(v.Add(c.Vertex((k + 1) % 4).Vector))
		out = append(out, c10Wit{p: m, tag: "edge"})
		out = append(out, c10Ulps(m, "edge")...)
		out = append(out, c10Wit{p: s2.Interpolate(0.3, v, c.Vertex((k+1)%4)), tag: "edge"})
		for _, d := range []float64{1e-15, 1e-12, 1e-6} {
			out = append(out, c10Wit{p: c10Norm(v.Add(c.Center().Sub(v.Vector).Mul(d))), tag: "near-vertex"})
			out = append(out, c10Wit{p: c10Norm(m.Add(c.Center().Sub(m.Vector).Mul(d))), tag: "near-edge"})
		}
	}
	if id.Level() < 30 {
		for _, ch := range id.Children() {
			cc := s2.CellFromCellID(ch)
			for k := 0; k < 4; k++ {
				out = append(out, c10Wit{p: cc.Vertex(k), tag: "child-vertex"})
			}
		}
	}
	return out
}

func c10CellCls(lvl int) string {
	switch {
	case lvl == 0:
		return "cell/L0"
	case lvl == 30:
		return "cell/L30"
	}
	return "cell"
}

func c10CapWits(c s2.Cap, rnd *rand.Rand) []c10Wit {
	var out []c10Wit
	if c.IsEmpty() {
		return []c10Wit{{p: c10RandPoint(rnd), tag: "any"}}
	}
	ctr := c.Center()
	out = append(out, c10Wit{p: ctr, tag: "centre"})
	out = append(out, c10Ulps(ctr, "centre")...)
	r := c.Radius().Radians()
	d0 := ctr.Ortho()
	d1 := ctr.Cross(d0).Normalize()
	// bearings: towards both poles, along the parallel, and seed-chosen
	var dirs []r3.Vector
	for k := 0; k < 8; k++ {
		a := float64(k) * math.Pi / 4
		dirs = append(dirs, d0.Mul(math.Cos(a)).Add(d1.Mul(math.Sin(a))))
	}
	north := r3.Vector{X: 0, Y: 0, Z: 1}.Sub(ctr.Mul(ctr.Z))
	if north.Norm() > 1e-12 {
		nn := north.Normalize()
		east := nn.Cross(ctr.Vector).Normalize()
		dirs = append(dirs, nn, nn.Mul(-1), east, east.Mul(-1))
	}
	for _, d := range dirs {
		for _, f := range []float64{1, 1 - 1e-15, 1 - 1e-12, 1 + 1e-15, 0.999, 0.5} {
			a := r * f
			if a > math.Pi {
				a = math.Pi
			}
			p := c10Norm(ctr.Mul(math.Cos(a)).Add(d.Mul(math.Sin(a))))
			out = append(out, c10Wit{p: p, tag: "boundary"})
			if f == 1 {
				out = append(out, c10Ulps(p, "boundary")...)
			}
		}
	}
	out = append(out, c10PoleWits()...)
	return out
}

func c10RandCap(rnd *rand.Rand) (s2.Cap, string) {
	ctr := c10SpecialPoint(rnd)
	radii := []float64{0, 1e-300, 1e-16, 1e-15, 1e-12, 1e-9, 1e-6, 1e-3, 0.1, 0.5, 1, math.Pi/2 - 1e-15, math.Pi / 2, math.Pi/2 + 1e-15,
		2, 3, math.Pi - 1e-9, math.Pi - 1e-15, math.Pi}
	r := radii[rnd.Intn(len(radii))]
	if rnd.Intn(3) == 0 {
		r = math.Pow(10, -rnd.Float64()*16) * math.Pi
	}
	// radius that just reaches a pole
	if rnd.Intn(5) == 0 {
		r = math.Pi/2 - math.Abs(s2.LatLngFromPoint(ctr).Lat.Radians())
		if rnd.Intn(2) == 0 {
			r = math.Nextafter(r, 0)
		}
	}
	switch rnd.Intn(4) {
	case 0:
		return s2.CapFromCenterHeight(ctr, 1-math.Cos(r)), "cap/height"
	case 1:
		return s2.CapFromCenterChordAngle(ctr, s1.ChordAngleFromAngle(s1.Angle(r))), "cap/chord"
	case 2:
		return s2.CapFromCenterArea(ctr, 2*math.Pi*(1-math.Cos(r))), "cap/area"
	}
	return s2.CapFromCenterAngle(ctr, s1.Angle(r)), "cap/angle"
}

func c10CapRegion(c s2.Cap, cls, desc string) *c10Region {
	return &c10Region{kind: "cap", cls: cls, rect: c.RectBound(), capb: c.CapBound(), cov: c.CellUnionBound(),
		own: c.ContainsPoint, desc: desc}
}

func opC10Rand(raw json.RawMessage, o *Out) {
	var c struct {
		Cid    int
		Only   *int
		Family string
		Seed   int64
		Count  int
	}
	if err := json.Unmarshal(raw, &c); err != nil {
		panic(err)
	}
	rec := c10NewRec(c.Cid, c.Only, o)
	defer rec.flush()
	o.nontrivial = true
	for it := 0; it < c.Count; it++ {
		// one generator per item, so that a single item can be re-recorded alone
		rnd := rand.New(rand.NewSource(c.Seed*1000003 + int64(it)))
		before := rec.sub
		switch c.Family {
		case "cap":
			cp, cls := c10RandCap(rnd)
			rec.emit(c10CapRegion(cp, cls, fmt.Sprintf("%v", cp)), c10CapWits(cp, rnd))
			// operations that promise a superset
			other, _ := c10RandCap(rnd)
			wits := append(c10CapWits(cp, rnd), c10CapWits(other, rnd)...)
			both := func(p s2.Point) bool { return cp.ContainsPoint(p) || other.ContainsPoint(p) }
			ac := cp.AddCap(other)
			reg := c10CapRegion(ac, "cap/AddCap", fmt.Sprintf("%v.AddCap(%v)", cp, other))
			reg.own = both
			rec.emit(reg, wits)
			un := cp.Union(other)
			reg = c10CapRegion(un, "cap/Union", fmt.Sprintf("%v.Union(%v)", cp, other))
			reg.own = both
			rec.emit(reg, wits)
			pt := c10SpecialPoint(rnd)
			ap := cp.AddPoint(pt)
			reg = c10CapRegion(ap, "cap/AddPoint", fmt.Sprintf("%v.AddPoint(%v)", cp, pt))
			reg.own = func(p s2.Point) bool { return cp.ContainsPoint(p) || p == pt }
			rec.emit(reg, append(c10CapWits(cp, rnd), c10Wit{p: pt, tag: "added"}))
			d := s1.Angle(math.Pow(10, -rnd.Float64()*16))
			ex := cp.Expanded(d)
			reg = c10CapRegion(ex, "cap/Expanded", fmt.Sprintf("%v.Expanded(%v)", cp, d))
			reg.own = cp.ContainsPoint
			rec.emit(reg, c10CapWits(cp, rnd))
		case "cell":
			id := c10RandCellID(rnd)
			if it < 6 {
				id = s2.CellIDFromFace(it) // every face cell: level 0 has a code path of its own per face
			}
			cell := s2.CellFromCellID(id)
			reg := &c10Region{kind: "cell", cls: c10CellCls(id.Level()), rect: cell.RectBound(), capb: cell.CapBound(),
				cov: cell.CellUnionBound(), own: cell.ContainsPoint, desc: fmt.Sprintf("cell %s (face %d level %d)", id.ToToken(), id.Face(), id.Level())}
			rec.emit(reg, c10CellWits(id))
			// the same cell as a loop
			l := s2.LoopFromCell(cell)
			lreg := c10LoopRegion(l, "loop/from-cell", reg.desc)
			vs := []s2.Point{cell.Vertex(0), cell.Vertex(1), cell.Vertex(2), cell.Vertex(3)}
			rec.emit(lreg, append(c10LoopWits(vs, cell.Center(), true), c10PoleWits()...))
		case "cellunion":
			n := 1 + rnd.Intn(6)
			var cu s2.CellUnion
			var wits []c10Wit
			base := c10RandCellID(rnd)
			for k := 0; k < n; k++ {
				id := c10RandCellID(rnd)
				if rnd.Intn(2) == 0 && base.Level() < 28 {
					// a neighbourhood: descendants of one cell and its edge neighbours
					nb := base.EdgeNeighbors()
					id = append(nb[:], base)[rnd.Intn(5)]
					if id.Level() < 30 {
						id = id.Children()[rnd.Intn(4)]
					}
				}
				cu = append(cu, id)
				wits = append(wits, c10CellWits(id)...)
			}
			if rnd.Intn(2) == 0 {
				cu.Normalize()
			}
			reg := &c10Region{kind: "cellunion", cls: "cellunion", rect: cu.RectBound(), capb: cu.CapBound(), cov: cu.CellUnionBound(),
				own: cu.ContainsPoint, desc: fmt.Sprintf("cell union %v", cu)}
			rec.emit(reg, wits)
		case "rect":
			var r s2.Rect
			lat := func() float64 {
				switch rnd.Intn(6) {
				case 0:
					return math.Pi / 2
				case 1:
					return -math.Pi / 2
				case 2:
					return 0
				case 3:
					return (math.Pi/2 - math.Pow(10, -rnd.Float64()*16)) * float64(1-2*rnd.Intn(2))
				}
				return (rnd.Float64() - 0.5) * math.Pi
			}
			lng := func() float64 {
				switch rnd.Intn(6) {
				case 0:
					return math.Pi
				case 1:
					return -math.Pi
				case 2:
					return 0
				case 3:
					return (math.Pi - math.Pow(10, -rnd.Float64()*16)) * float64(1-2*rnd.Intn(2))
				}
				return (rnd.Float64() - 0.5) * 2 * math.Pi
			}
			a, b := lat(), lat()
			if a > b {
				a, b = b, a
			}
			r = s2.Rect{Lat: r1.Interval{Lo: a, Hi: b}, Lng: s1.Interval{Lo: lng(), Hi: lng()}}
			if r.Lng.Lo == math.Pi && r.Lng.Hi == -math.Pi {
				r.Lng = s1.FullInterval()
			}
			if rnd.Intn(8) == 0 {
				r.Lng = s1.FullInterval()
			}
			if r.Lng.Lo == -math.Pi && r.Lng.Hi != math.Pi {
				r.Lng.Lo = math.Pi
			}
			if r.Lng.Hi == -math.Pi && r.Lng.Lo != math.Pi {
				r.Lng.Hi = math.Pi
			}
			if !r.IsValid() {
				continue
			}
			var wits []c10Wit
			lats := []float64{r.Lat.Lo, r.Lat.Hi, r.Lat.Center(), 0.25*r.Lat.Lo + 0.75*r.Lat.Hi}
			lngs := []float64{r.Lng.Lo, r.Lng.Hi, r.Lng.Center(), r.Lng.Lo + 0.25*r.Lng.Length(), r.Lng.Lo + 0.9*r.Lng.Length()}
			for _, la := range lats {
				for _, ln := range lngs {
					ln = math.Remainder(ln, 2*math.Pi)
					p := s2.PointFromLatLng(s2.LatLng{Lat: s1.Angle(la), Lng: s1.Angle(ln)})
					wits = append(wits, c10Wit{p: p, tag: "latlng"})
					wits = append(wits, c10Ulps(p, "latlng")...)
				}
			}
			wits = append(wits, c10PoleWits()...)
			reg := &c10Region{kind: "rect", cls: "rect", rect: r.RectBound(), capb: r.CapBound(), cov: r.CellUnionBound(),
				own: r.ContainsPoint, desc: fmt.Sprintf("rect lat[%v,%v] lng[%v,%v]", r.Lat.Lo, r.Lat.Hi, r.Lng.Lo, r.Lng.Hi)}
			rec.emit(reg, wits)
		case "loop":
			// regular loops around special centres (poles, antimeridian ...) and their complements
			ctr := c10SpecialPoint(rnd)
			radii := []float64{1e-9, 1e-6, 1e-3, 0.1, 1, math.Pi/2 - 1e-9, math.Pi / 2, 2, 3}
			rad := radii[rnd.Intn(len(radii))]
			nv := []int{3, 4, 5, 8, 33, 64}[rnd.Intn(6)]
			l := s2.RegularLoop(ctr, s1.Angle(rad), nv)
			vs := c10Clone(l.Vertices())
			if rnd.Intn(3) == 0 {
				// move one vertex onto / next to a pole or the antimeridian when that keeps the loop simple
				k := rnd.Intn(nv)
				q := c10SpecialPoint(rnd)
				if q.Distance(vs[k]) < s1.Angle(rad/float64(nv)) {
					vs[k] = q
				}
			}
			inner := ctr
			if rad > math.Pi/2 {
				inner = ctr
			}
			desc := fmt.Sprintf("regular loop centre %v radius %v n=%d (seed item %d)", ctr, rad, nv, it)
			ll := s2.LoopFromPoints(c10Clone(vs))
			wits := append(c10LoopWits(vs, inner, nv <= 8), c10PoleWits()...)
			for k := 0; k < 12; k++ {
				wits = append(wits, c10Wit{p: c10SpecialPoint(rnd), tag: "special"})
			}
			rec.emit(c10LoopRegion(ll, "loop/regular", desc), wits)
			li := s2.LoopFromPoints(c10Clone(vs))
			li.Invert()
			rec.emit(c10LoopRegion(li, "loop/regular/Invert()", desc+" inverted"), wits)
			lr := s2.LoopFromPoints(c10Rev(vs))
			rec.emit(c10LoopRegion(lr, "loop/regular/reversed", desc+" reversed"), wits)
			pg := s2.PolygonFromLoops([]*s2.Loop{s2.LoopFromPoints(c10Clone(vs))})
			rec.emit(c10PolygonRegion(pg, "polygon/regular", desc), wits)
			// hull of the loop
			q := s2.NewConvexHullQuery()
			q.AddLoop(ll)
			c10EmitHull(rec, q.ConvexHull(), vs, "hull/loop", desc)
			q = s2.NewConvexHullQuery()
			q.AddPolygon(pg)
			c10EmitHull(rec, q.ConvexHull(), vs, "hull/polygon", desc)
		case "meridian":
			// a triangle with one edge whose endpoints lie on (nearly) opposite meridians, i.e. an edge
			// passing through or within 1e-16 of a pole on either side, and the witnesses around that pole
			lam := (rnd.Float64() - 0.5) * 2 * math.Pi
			if rnd.Intn(3) == 0 {
				lam = []float64{0, math.Pi / 2, math.Pi, -math.Pi / 2, math.Pi / 4}[rnd.Intn(5)]
			}
			eps := []float64{0, 1e-16, 2e-16, 4e-16, 1e-15, 1e-14, 1e-12, 1e-9, 1e-6}[rnd.Intn(9)] * float64(1-2*rnd.Intn(2))
			sgn := float64(1 - 2*rnd.Intn(2)) // which pole
			f1, f2 := sgn*(0.2+1.2*rnd.Float64()), sgn*(0.2+1.2*rnd.Float64())
			if rnd.Intn(4) == 0 {
				f1 = sgn * (math.Pi/2 - math.Pow(10, -float64(1+rnd.Intn(15))))
			}
			a := s2.PointFromLatLng(s2.LatLng{Lat: s1.Angle(f1), Lng: s1.Angle(math.Remainder(lam, 2*math.Pi))})
			b := s2.PointFromLatLng(s2.LatLng{Lat: s1.Angle(f2), Lng: s1.Angle(math.Remainder(lam+math.Pi+eps, 2*math.Pi))})
			side := float64(1 - 2*rnd.Intn(2))
			cpt := s2.PointFromLatLng(s2.LatLng{Lat: s1.Angle(sgn * 0.8 * rnd.Float64()), Lng: s1.Angle(math.Remainder(lam+side*math.Pi/2, 2*math.Pi))})
			vs := []s2.Point{a, b, cpt}
			if s2.RobustSign(a, b, cpt) != s2.CounterClockwise {
				vs = []s2.Point{b, a, cpt}
			}
			inner := c10Norm(a.Add(b.Vector).Add(cpt.Vector))
			desc := fmt.Sprintf("triangle with an edge across the pole: a=latlng(%v,%v) b=latlng(%v,%v+pi%+g) c=%v (seed item %d)", f1, lam, f2, lam, eps, cpt, it)
			wits := c10LoopWits(vs, inner, true)
			pole := s2.Point{Vector: r3.Vector{X: 0, Y: 0, Z: sgn}}
			wits = append(wits, c10Wit{p: pole, tag: "pole"})
			for _, d := range []float64{1e-300, 1e-18, 1e-17, 1e-16, 1e-15, 1e-13, 1e-9} {
				for k := 0; k < 8; k++ {
					ang := lam + float64(k)*math.Pi/4
					wits = append(wits, c10Wit{p: c10Norm(r3.Vector{X: d * math.Cos(ang), Y: d * math.Sin(ang), Z: sgn}), tag: "near-pole"})
				}
			}
			// points of the polar edge next to the pole
			t0 := (math.Pi/2 - math.Abs(f1)) / ((math.Pi/2 - math.Abs(f1)) + (math.Pi/2 - math.Abs(f2)))
			for _, dt := range []float64{0, 1e-16, -1e-16, 1e-12, -1e-12, 1e-6, -1e-6} {
				q := s2.Interpolate(t0+dt, a, b)
				wits = append(wits, c10Wit{p: q, tag: "polar-edge"})
				wits = append(wits, c10Ulps(q, "polar-edge")...)
			}
			rec.emit(c10LoopRegion(s2.LoopFromPoints(c10Clone(vs)), "loop/meridian", desc), wits)
			li := s2.LoopFromPoints(c10Clone(vs))
			li.Invert()
			rec.emit(c10LoopRegion(li, "loop/meridian/Invert()", desc+" inverted"), wits)
			rec.emit(c10LoopRegion(s2.LoopFromPoints(c10Rev(vs)), "loop/meridian/reversed", desc+" reversed"), wits)
			pl := s2.Polyline{a, b}
			c10EmitPolyline(rec, &pl, "polyline/meridian", desc)
		case "index":
			// ShapeIndexRegion: the bounds of an index must cover every vertex of its shapes and every
			// point its polygons contain (closed vertex model of the index itself)
			ix := s2.NewShapeIndex()
			var wits []c10Wit
			ns := 1 + rnd.Intn(3)
			for k := 0; k < ns; k++ {
				ctr := c10SpecialPoint(rnd)
				switch rnd.Intn(3) {
				case 0:
					l := s2.RegularLoop(ctr, s1.Angle(math.Pow(10, -rnd.Float64()*6)), 3+rnd.Intn(40))
					ix.Add(l)
					wits = append(wits, c10LoopWits(c10Clone(l.Vertices()), ctr, false)...)
				case 1:
					pl := s2.Polyline{ctr, c10SpecialPoint(rnd), c10RandPoint(rnd)}
					if pl[0].Add(pl[1].Vector) == (r3.Vector{}) || pl[1].Add(pl[2].Vector) == (r3.Vector{}) {
						continue
					}
					ix.Add(&pl)
					for _, v := range pl {
						wits = append(wits, c10Wit{p: v, tag: "vertex"})
					}
				default:
					pv := s2.PointVector{ctr, c10RandPoint(rnd)}
					ix.Add(&pv)
					for _, v := range pv {
						wits = append(wits, c10Wit{p: v, tag: "vertex"})
					}
				}
			}
			if len(wits) == 0 {
				continue
			}
			isV := map[s2.Point]bool{}
			for _, w := range wits {
				if w.tag == "vertex" {
					isV[w.p] = true
				}
			}
			q := s2.NewContainsPointQuery(ix, s2.VertexModelClosed)
			reg := ix.Region()
			rec.emit(&c10Region{kind: "index", cls: "shapeindex-region", rect: reg.RectBound(), capb: reg.CapBound(), cov: reg.CellUnionBound(),
				own: func(p s2.Point) bool { return isV[p] || q.Contains(p) }, desc: fmt.Sprintf("ShapeIndexRegion of %d shapes (seed item %d)", ns, it)}, wits)
		case "longline":
			// polylines that span more than a hemisphere: (a) a ring of vertices on a parallel of a seed-chosen
			// frame plus a long edge (~100..170 degrees) passing on the far side, (b) chains of lattice
			// points with edges of 90..170 degrees.  Points inside the edges are probes of the bounds.
			var vs []s2.Point
			fx := c10RandPoint(rnd)
			fy := c10Norm(fx.Ortho())
			fz := c10Norm(fx.Cross(fy.Vector))
			if rnd.Intn(3) == 0 {
				fx, fy, fz = c10Norm(r3.Vector{X: 1}), c10Norm(r3.Vector{Y: 1}), c10Norm(r3.Vector{Z: 1})
			}
			frame := func(latDeg, lngDeg float64) s2.Point {
				p := s2.PointFromLatLng(s2.LatLngFromDegrees(latDeg, lngDeg))
				return c10Norm(fx.Mul(p.X).Add(fy.Mul(p.Y)).Add(fz.Mul(p.Z)))
			}
			if rnd.Intn(2) == 0 {
				k := 4 + rnd.Intn(6)
				lat := 40 + 35*rnd.Float64()
				for j := 0; j < k; j++ {
					vs = append(vs, frame(lat, -180+360*float64(j)/float64(k)))
				}
				south := -5 - 40*rnd.Float64()
				span := 100 + 70*rnd.Float64()
				l0 := -180 + 360*rnd.Float64()
				vs = append(vs, frame(south, l0), frame(south, l0+span))
			} else {
				n := 3 + rnd.Intn(4)
				for len(vs) < n {
					p := emb.P3{rnd.Intn(5) - 2, rnd.Intn(5) - 2, rnd.Intn(5) - 2}
					if p == (emb.P3{}) {
						continue
					}
					q := emb.Unit(p)
					if len(vs) > 0 && (q.Add(vs[len(vs)-1].Vector).Norm() < 0.17 || q == vs[len(vs)-1]) {
						continue // nearly antipodal to or equal to the previous vertex
					}
					vs = append(vs, q)
				}
			}
			pl := s2.Polyline(vs)
			c10EmitPolyline(rec, &pl, "polyline/long", fmt.Sprintf("polyline %v", vs))
		case "polyline":
			n := 2 + rnd.Intn(6)
			var vs []s2.Point
			p := c10SpecialPoint(rnd)
			vs = append(vs, p)
			for k := 1; k < n; k++ {
				var q s2.Point
				switch rnd.Intn(4) {
				case 0:
					q = c10SpecialPoint(rnd)
				case 1: // nearly antipodal to the previous vertex
					d := math.Pow(10, -float64(rnd.Intn(17)))
					q = c10Norm(p.Mul(-1).Add(c10RandPoint(rnd).Mul(d)))
				case 2: // nearly identical
					d := math.Pow(10, -float64(rnd.Intn(17)))
					q = c10Norm(p.Add(c10RandPoint(rnd).Mul(d)))
				default: // same meridian plane through the pole (longitude jump of ~180 degrees)
					ll := s2.LatLngFromPoint(p)
					q = s2.PointFromLatLng(s2.LatLng{Lat: s1.Angle((rnd.Float64() - 0.5) * math.Pi),
						Lng: s1.Angle(math.Remainder(ll.Lng.Radians()+math.Pi+math.Pow(10, -float64(rnd.Intn(17)))*rnd.NormFloat64(), 2*math.Pi))})
				}
				if q.Add(p.Vector) == (r3.Vector{}) {
					continue
				}
				vs = append(vs, q)
				p = q
			}
			pl := s2.Polyline(vs)
			desc := fmt.Sprintf("polyline %v", vs)
			c10EmitPolyline(rec, &pl, "polyline/special", desc)
		case "hull":
			// points in a cap of seed-chosen size; hull must be convex and contain them
			ctr := c10SpecialPoint(rnd)
			rad := []float64{1e-9, 1e-5, 1e-2, 0.3, 1, 1.4}[rnd.Intn(6)]
			n := 1 + rnd.Intn(12)
			var pts []s2.Point
			d0 := ctr.Ortho()
			d1 := ctr.Cross(d0).Normalize()
			for k := 0; k < n; k++ {
				a := rnd.Float64() * 2 * math.Pi
				r := rad * math.Sqrt(rnd.Float64())
				if rnd.Intn(3) == 0 {
					r = rad // many points on one circle
				}
				dir := d0.Mul(math.Cos(a)).Add(d1.Mul(math.Sin(a)))
				pts = append(pts, c10Norm(ctr.Mul(math.Cos(r)).Add(dir.Mul(math.Sin(r)))))
			}
			if rnd.Intn(2) == 0 && n >= 2 {
				// collinear triples: midpoints of pairs
				pts = append(pts, s2.Interpolate(0.5, pts[0], pts[1]), pts[0])
			}
			q := s2.NewConvexHullQuery()
			for _, p := range pts {
				q.AddPoint(p)
			}
			c10EmitHull(rec, q.ConvexHull(), pts, "hull/points", fmt.Sprintf("points %v", pts))
			if n >= 2 {
				pl := s2.Polyline(pts)
				q = s2.NewConvexHullQuery()
				q.AddPolyline(&pl)
				c10EmitHull(rec, q.ConvexHull(), pts, "hull/polyline", fmt.Sprintf("polyline %v", pts))
			}
		default:
			panic("c10.rand: unknown family " + c.Family)
		}
		_ = before
	}
	o.sample = map[string]any{"op": "c10.rand", "family": c.Family, "seed": c.Seed, "count": c.Count}
}

// ---------------------------------------------------------------- hull query histories

type c10HQWant struct {
	N       int
	Inputs  []emb.P3
	Hull    []emb.P3
	Robust  bool
	Must    []emb.P3
	Mustnot []emb.P3
}

type c10HQStep struct {
	A     string
	Pts   []emb.P3
	K     int
	Loops []struct {
		V []emb.P3
		D int
	}
	Want *c10HQWant
}

// c10HQApply feeds one Add* operation of a HullQuery.tla behaviour to a query object.
func c10HQApply(q *s2.ConvexHullQuery, st c10HQStep) {
	pts := func(ps []emb.P3) []s2.Point {
		var out []s2.Point
		for _, p := range ps {
			out = append(out, emb.Unit(p))
		}
		return out
	}
	switch st.A {
	case "AddPoint":
		q.AddPoint(emb.Unit(st.Pts[0]))
	case "AddPolyline":
		pl := s2.Polyline(pts(st.Pts))
		q.AddPolyline(&pl)
	case "AddLoop":
		q.AddLoop(s2.LoopFromPoints(pts(st.Pts)))
	case "AddPolygon":
		var loops []*s2.Loop
		for _, l := range st.Loops {
			lp := s2.LoopFromPoints(pts(l.V))
			lp.Normalize()
			loops = append(loops, lp)
		}
		q.AddPolygon(s2.PolygonFromLoops(loops))
	}
}

// opC10HullQ replays a behaviour of HullQuery.tla on ONE ConvexHullQuery object.  After every query step
// the answer must be the model's function of the input set so far and equal to the answer of a fresh
// query object that received the same geometry.
func opC10HullQ(raw json.RawMessage, o *Out) {
	var c struct {
		N     int
		Steps []c10HQStep
	}
	if err := json.Unmarshal(raw, &c); err != nil {
		panic(err)
	}
	q := s2.NewConvexHullQuery()
	names := ""
	adds, queries := 0, 0
	for i, st := range c.Steps {
		names += st.A + ";"
		if st.Want == nil {
			c10HQApply(q, st)
			adds++
			continue
		}
		queries++
		fresh := s2.NewConvexHullQuery()
		for _, prev := range c.Steps[:i] {
			if prev.Want == nil {
				c10HQApply(fresh, prev)
			}
		}
		w := st.Want
		desc := fmt.Sprintf("history %s (step %d) inputs %v", names, i+1, w.Inputs)
		if st.A == "CapBound" {
			cp, cf := q.CapBound(), fresh.CapBound()
			if !cp.Equal(cf) {
				o.Fail("c10.hullq/cap-differs-from-fresh-query", "CapBound() %v, a fresh query with the same geometry gives %v: %s", cp, cf, desc)
			}
			// (1e-12 slack: the cap of a rectangle is known to miss its own corners by an ulp, see c10/cap-bound-ulp/*)
			wide := cp.Expanded(s1.Angle(1e-12))
			for _, v := range w.Inputs {
				if !wide.ContainsPoint(emb.Unit(v)) {
					o.Fail("c10.hullq/cap-excludes-input", "CapBound() %v does not contain the input %v: %s", cp, v, desc)
					break
				}
			}
			continue
		}
		h, hf := q.ConvexHull(), fresh.ConvexHull()
		same := h.NumVertices() == hf.NumVertices()
		for k := 0; same && k < h.NumVertices(); k++ {
			same = h.Vertex(k) == hf.Vertex(k)
		}
		if !same {
			o.Fail("c10.hullq/hull-differs-from-fresh-query", "ConvexHull() %v, a fresh query with the same geometry gives %v: %s", h.Vertices(), hf.Vertices(), desc)
		}
		if h.IsFull() || h.IsEmpty() {
			o.Fail("c10.hullq/full-or-empty", "ConvexHull() of points inside a 55-degree cap is empty/full: %s", desc)
			continue
		}
		back := map[s2.Point]emb.P3{}
		for _, v := range w.Inputs {
			back[emb.Unit(v)] = v
		}
		if w.N < 3 {
			for _, p := range w.Hull {
				found := false
				for k := 0; k < h.NumVertices(); k++ {
					if h.Vertex(k) == emb.Unit(p) {
						found = true
					}
				}
				if !found {
					o.Fail("c10.hullq/small-set-vertex", "hull of %d point(s) lacks the input %v as a vertex: %s", w.N, p, desc)
				}
			}
			continue
		}
		var got []emb.P3
		foreign := false
		for k := 0; k < h.NumVertices(); k++ {
			p, ok := back[h.Vertex(k)]
			if !ok {
				foreign = true
			}
			got = append(got, p)
		}
		if foreign {
			o.Fail("c10.hullq/foreign-vertex", "hull %v has a vertex that is not an input: %s", h.Vertices(), desc)
			continue
		}
		for k := 0; k < h.NumVertices(); k++ {
			if s2.RobustSign(h.Vertex(k), h.Vertex(k+1), h.Vertex(k+2)) != s2.CounterClockwise {
				o.Fail("c10.hullq/not-convex", "hull %v makes a non-CCW turn at %v: %s", got, got[(k+1)%len(got)], desc)
				break
			}
		}
		in := map[emb.P3]bool{}
		for _, p := range got {
			in[p] = true
		}
		if w.Robust && !c10SameCycle(got, w.Hull) {
			o.Fail("c10.hullq/cycle", "hull %v, model (exact orientation tests) %v: %s", got, w.Hull, desc)
		}
		for _, p := range w.Must {
			if !in[p] {
				o.Fail("c10.hullq/missing-extreme-point", "strictly extreme %v is not a hull vertex; hull %v: %s", p, got, desc)
				break
			}
		}
		for _, p := range w.Mustnot {
			if in[p] {
				o.Fail("c10.hullq/interior-point-is-vertex", "strictly interior %v is a hull vertex; hull %v: %s", p, got, desc)
				break
			}
		}
		for _, v := range w.Inputs {
			if !in[v] && !h.ContainsPoint(emb.Unit(v)) {
				o.Fail("c10.hullq/input-not-contained", "input vertex %v is neither a hull vertex nor contained; hull %v: %s", v, got, desc)
				break
			}
		}
	}
	o.nontrivial = adds >= 2 && queries >= 1
	o.CountN("hullq_query_steps", queries)
	o.sample = map[string]any{"op": "c10.hullq", "history": names}
}
