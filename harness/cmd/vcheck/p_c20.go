package main

// C20: approximation operators stay within the tolerance they declare.
//
// The configurations are enumerated by TLC (Gen_Approx.tla).  For each one the real
// operator is run, the achieved error is measured with the library's own functions
// (DistanceFromSegment, Point.Distance, Projection.Unproject/Interpolate) and recorded as
// order-preserving keys next to the declared tolerance / snap radius; TLC decides the
// relations in Trace_Approx.tla.

import (
	"encoding/json"
	"fmt"
	"math"
	"math/rand"
	"os"
	"sync"

	"github.com/golang/geo/r2"
	"github.com/golang/geo/r3"
	"github.com/golang/geo/s1"
	"github.com/golang/geo/s2"

	"verifharness/emb"
)

func init() {
	register("c20.tess", opC20Tess)
	register("c20.cell", opC20Cell)
	register("c20.sweep", opC20Sweep)
	register("c20.snap", opC20Snap)
	register("c20.sub", opC20Sub)
}

// ------------------------------------------------------------------ recorder

var c20Mu sync.Mutex

type c20Rec struct {
	cid   int
	only  int
	sub   int
	lines [][]byte
	infos [][]byte
	o     *Out
}

func c20NewRec(cid int, only *int, o *Out) *c20Rec {
	r := &c20Rec{cid: cid, only: -1, o: o}
	if only != nil {
		r.only = *only
	}
	return r
}

func (r *c20Rec) next() (int, bool) {
	s := r.sub
	r.sub++
	return s, r.only < 0 || r.only == s
}

func (r *c20Rec) add(sub int, cls, desc string, ev map[string]any) {
	b, err := json.Marshal(ev)
	if err != nil {
		panic(err)
	}
	r.lines = append(r.lines, b)
	b, _ = json.Marshal(map[string]any{"cid": r.cid, "sub": sub, "cls": cls, "desc": desc})
	r.infos = append(r.infos, b)
	r.o.Count("events_" + fmt.Sprint(ev["ev"]))
}

func (r *c20Rec) flush() {
	path := os.Getenv("VERIF_C20_TRACE")
	if path == "" || len(r.lines) == 0 {
		return
	}
	c20Mu.Lock()
	defer c20Mu.Unlock()
	f, err := os.OpenFile(path, os.O_APPEND|os.O_WRONLY|os.O_CREATE, 0o644)
	if err != nil {
		panic(err)
	}
	g, err := os.OpenFile(path+".info", os.O_APPEND|os.O_WRONLY|os.O_CREATE, 0o644)
	if err != nil {
		panic(err)
	}
	var tb, ib []byte
	for i, ln := range r.lines {
		tb = append(append(tb, ln...), '\n')
		ib = append(append(ib, r.infos[i]...), '\n')
	}
	f.Write(tb)
	g.Write(ib)
	f.Close()
	g.Close()
}

func c20K(f float64) emb.Key { return emb.FloatKey(f) }

// ------------------------------------------------------------------ tessellation

var c20Scales = []float64{math.Pi, 180, 0.5, 1e7}

func c20Proj(name string, scale int) s2.Projection {
	if name == "mercator" {
		return s2.NewMercatorProjection(c20Scales[scale])
	}
	return s2.NewPlateCarreeProjection(c20Scales[scale])
}

// measurement slack added to the declared tolerance: the distances are themselves computed in
// floating point (DistanceFromSegment, Unproject, Interpolate: a few 1e-16 each)
func c20Thr(tol float64) float64 { return tol*(1+1e-9) + 1e-14 }

func c20Tess(rec *c20Rec, projName string, scale int, tol float64, a, b s2.Point, cls, desc string) {
	c20TessN(rec, projName, scale, tol, a, b, cls, desc, 4)
}

// c20TessN: per samples per output edge (sphere -> plane) / per output edge on the planar input edge (plane -> sphere)
func c20TessN(rec *c20Rec, projName string, scale int, tol float64, a, b s2.Point, cls, desc string, per int) {
	proj := c20Proj(projName, scale)
	tess := s2.NewEdgeTessellator(proj, s1.Angle(tol))
	eff := math.Max(tol, 1e-13) // documented minimum tolerance
	wrap := proj.WrapDistance().X
	// ---- sphere -> plane
	if sub, ok := rec.next(); ok {
		verts := tess.AppendProjected(a, b, nil)
		maxd, maxdx := 0.0, 0.0
		var worst string
		for i := 0; i+1 < len(verts); i++ {
			for k := 0; k <= per; k++ {
				t := float64(k) / float64(per)
				q := proj.Unproject(proj.Interpolate(t, verts[i], verts[i+1]))
				d := float64(s2.DistanceFromSegment(q, a, b))
				if d > maxd {
					maxd = d
					worst = fmt.Sprintf("planar edge %d (%v -> %v) at t=%v", i, verts[i], verts[i+1], t)
				}
			}
			maxdx = math.Max(maxdx, math.Abs(verts[i+1].X-verts[i].X))
		}
		endd := 0.0
		if len(verts) > 0 {
			endd = math.Max(float64(proj.Unproject(verts[0]).Distance(a)), float64(proj.Unproject(verts[len(verts)-1]).Distance(b)))
		}
		rec.add(sub, projName+"/projected", fmt.Sprintf("%s scale %v tolerance %g: %d vertices, max distance %g (%.4f x tolerance) at %s", desc, c20Scales[scale], tol, len(verts), maxd, maxd/eff, worst),
			map[string]any{"ev": "tess", "mode": "projected", "maxd": c20K(maxd), "thr": c20K(c20Thr(eff)), "thr2": c20K(c20Thr(1.2 * eff)), "endd": c20K(endd), "ethr": c20K(1e-13),
				"maxdx": c20K(maxdx), "halfwrap": c20K(wrap / 2 * (1 + 1e-12)), "nv": len(verts), "cls": cls})
		rec.o.CountN("tessellated_vertices", len(verts))
	}
	// ---- plane -> sphere
	if sub, ok := rec.next(); ok {
		pa := proj.Project(a)
		pb := proj.WrapDestination(pa, proj.Project(b))
		chain := tess.AppendUnprojected(pa, pb, nil)
		ns := 512
		if len(chain) > 1500 {
			ns = 64
		}
		if per > 4 {
			ns = per * len(chain)
			if ns < 512 {
				ns = 512
			}
			if ns > 16384 {
				ns = 16384
			}
		}
		maxd := 0.0
		var worst string
		lo := 0
		for s := 0; s <= ns; s++ {
			q := proj.Unproject(proj.Interpolate(float64(s)/float64(ns), pa, pb))
			best := math.Inf(1)
			// the chain follows the planar edge monotonically: search a window around the last hit
			for i := 0; i+1 < len(chain); i++ {
				d := float64(s2.DistanceFromSegment(q, chain[i], chain[i+1]))
				if d < best {
					best = d
					lo = i
				}
			}
			if best > maxd && !math.IsInf(best, 1) {
				maxd = best
				worst = fmt.Sprintf("planar fraction %v near chain edge %d", float64(s)/float64(ns), lo)
			}
		}
		endd := 0.0
		if len(chain) > 0 {
			endd = math.Max(float64(chain[0].Distance(proj.Unproject(pa))), float64(chain[len(chain)-1].Distance(proj.Unproject(pb))))
		}
		rec.add(sub, projName+"/unprojected", fmt.Sprintf("%s scale %v tolerance %g planar %v -> %v: %d vertices, max distance %g (%.4f x tolerance) at %s", desc, c20Scales[scale], tol, pa, pb, len(chain), maxd, maxd/eff, worst),
			map[string]any{"ev": "tess", "mode": "unprojected", "maxd": c20K(maxd), "thr": c20K(c20Thr(eff)), "thr2": c20K(c20Thr(1.2 * eff)), "endd": c20K(endd), "ethr": c20K(1e-13),
				"maxdx": c20K(0), "halfwrap": c20K(1), "nv": len(chain), "cls": cls})
		rec.o.CountN("tessellated_vertices", len(chain))
	}
	// ---- Unproject(Project(p)) is p up to rounding
	for _, p := range []s2.Point{a, b, s2.Interpolate(0.37, a, b)} {
		if sub, ok := rec.next(); ok {
			q := proj.Unproject(proj.Project(p))
			thr := 1e-14
			if projName == "mercator" {
				c := math.Max(math.Cos(s2.LatLngFromPoint(p).Lat.Radians()), 1e-3)
				thr = 1e-14 / (c * c)
			}
			rec.add(sub, projName+"/roundtrip", fmt.Sprintf("%s scale %v p=%v Unproject(Project(p))=%v", desc, c20Scales[scale], p, q),
				map[string]any{"ev": "rt", "d": c20K(float64(p.Distance(q))), "thr": c20K(thr)})
		}
	}
}

func opC20Tess(raw json.RawMessage, o *Out) {
	var c struct {
		Cid    int
		Only   *int
		Proj   string
		Scale  int
		TolExp int `json:"tolexp"`
		A, B   emb.P3
		Cls    []string
	}
	if err := json.Unmarshal(raw, &c); err != nil {
		panic(err)
	}
	rec := c20NewRec(c.Cid, c.Only, o)
	defer rec.flush()
	o.nontrivial = len(c.Cls) > 0
	for _, k := range c.Cls {
		o.Count("edge_class_" + k)
	}
	c20Tess(rec, c.Proj, c.Scale, math.Pow(10, -float64(c.TolExp)), emb.Unit(c.A), emb.Unit(c.B), fmt.Sprint(c.Cls),
		fmt.Sprintf("lattice edge %v -> %v %v", c.A, c.B, c.Cls))
	o.sample = map[string]any{"op": "c20.tess", "proj": c.Proj, "scale": c20Scales[c.Scale], "tolexp": c.TolExp, "a": c.A, "b": c.B, "cls": c.Cls}
}

// opC20Sweep: an edge across the equator (integer degrees from TLC) at one of 24 log-spaced tolerances,
// with dense sampling of the achieved deviation (64 samples per output edge).
func opC20Sweep(raw json.RawMessage, o *Out) {
	var c struct {
		Cid        int
		Only       *int
		Proj       string
		Scale      int
		S, L, N, D int
		K          int
		Anti       bool
	}
	if err := json.Unmarshal(raw, &c); err != nil {
		panic(err)
	}
	rec := c20NewRec(c.Cid, c.Only, o)
	defer rec.flush()
	lng := func(x int) float64 {
		x %= 360
		if x > 180 {
			x -= 360
		}
		return float64(x)
	}
	a := s2.PointFromLatLng(s2.LatLngFromDegrees(-float64(c.S), lng(c.L)))
	b := s2.PointFromLatLng(s2.LatLngFromDegrees(float64(c.N), lng(c.L+c.D)))
	length := a.Distance(b).Degrees()
	if length < 20 || length > 90 {
		o.Count("sweep_edges_outside_20_90_degrees_skipped")
		return
	}
	o.nontrivial = true
	tol := 1e-4 * math.Pow(10, 3*float64(c.K)/23)
	cls := "[equator]"
	if c.Anti {
		cls = "[equator antimeridian]"
		o.Count("sweep_edges_across_antimeridian")
	}
	c20TessN(rec, c.Proj, c.Scale, tol, a, b, cls, fmt.Sprintf("edge %d:%v -> %d:%v (%.1f degrees) %s", -c.S, lng(c.L), c.N, lng(c.L+c.D), length, cls), 64)
	o.sample = map[string]any{"op": "c20.sweep", "proj": c.Proj, "from": []float64{-float64(c.S), lng(c.L)}, "to": []float64{float64(c.N), lng(c.L + c.D)}, "tolerance": tol}
}

func c20GridPoint(face, g, i, j int) s2.Point {
	n := 1 << uint(g)
	ci, cj := i, j
	if ci > n-1 {
		ci = n - 1
	}
	if cj > n-1 {
		cj = n - 1
	}
	k := 0
	switch {
	case i > ci && j > cj:
		k = 2
	case i > ci:
		k = 1
	case j > cj:
		k = 3
	}
	return s2.CellFromCellID(emb.FromFaceIJ(face, g, ci, cj)).Vertex(k)
}

func opC20Cell(raw json.RawMessage, o *Out) {
	var c struct {
		Cid    int
		Only   *int
		Proj   string
		Scale  int
		TolExp int `json:"tolexp"`
		Lvl    int
		Where  string
		Seed   int64
	}
	if err := json.Unmarshal(raw, &c); err != nil {
		panic(err)
	}
	rec := c20NewRec(c.Cid, c.Only, o)
	defer rec.flush()
	o.nontrivial = true
	rnd := rand.New(rand.NewSource(c.Seed))
	n := 1 << uint(c.Lvl)
	h := n / 2
	var a, b s2.Point
	var desc string
	span := 1 + rnd.Intn(3)
	switch c.Where {
	case "equator":
		f := []int{0, 1, 3, 4}[rnd.Intn(4)]
		i := rnd.Intn(n - 4)
		a, b = c20GridPoint(f, c.Lvl, i, h-span), c20GridPoint(f, c.Lvl, i+span, h+span)
		if rnd.Intn(2) == 0 { // same absolute latitude
			a, b = c20GridPoint(f, c.Lvl, h-span, h-span), c20GridPoint(f, c.Lvl, h+span, h+span)
		}
		desc = fmt.Sprintf("grid edge across the equator, face %d level %d", f, c.Lvl)
	case "antimeridian":
		j := rnd.Intn(n - 4)
		a, b = c20GridPoint(3, c.Lvl, h-span, j), c20GridPoint(3, c.Lvl, h+span, j+span)
		desc = fmt.Sprintf("grid edge across the antimeridian, face 3 level %d", c.Lvl)
	case "polar":
		f := []int{2, 5}[rnd.Intn(2)]
		a, b = c20GridPoint(f, c.Lvl, h-span, h+1), c20GridPoint(f, c.Lvl, h+span+1, h+1)
		desc = fmt.Sprintf("grid edge next to the pole, face %d level %d", f, c.Lvl)
	default:
		f := rnd.Intn(6)
		if c.Proj == "mercator" {
			f = []int{0, 1, 3, 4}[rnd.Intn(4)]
		}
		i, j := rnd.Intn(n-4), rnd.Intn(n-4)
		a, b = c20GridPoint(f, c.Lvl, i, j), c20GridPoint(f, c.Lvl, i+span, j+1+rnd.Intn(3))
		desc = fmt.Sprintf("grid edge, face %d level %d at (%d,%d)", f, c.Lvl, i, j)
	}
	c20Tess(rec, c.Proj, c.Scale, math.Pow(10, -float64(c.TolExp)), a, b, c.Where, desc)
	o.sample = map[string]any{"op": "c20.cell", "proj": c.Proj, "lvl": c.Lvl, "where": c.Where, "tolexp": c.TolExp}
}

// ------------------------------------------------------------------ snapping

func c20SnapPoints(rnd *rand.Rand) []s2.Point {
	var pts []s2.Point
	for x := -1; x <= 1; x++ {
		for y := -1; y <= 1; y++ {
			for z := -1; z <= 1; z++ {
				if x != 0 || y != 0 || z != 0 {
					pts = append(pts, emb.Unit(emb.P3{x, y, z}))
				}
			}
		}
	}
	for _, d := range []float64{1e-15, 1e-9, 1e-3} {
		for _, z := range []float64{1, -1} {
			pts = append(pts, s2.Point{Vector: r3.Vector{X: d, Y: -d / 3, Z: z}.Normalize()})
		}
		pts = append(pts, s2.Point{Vector: r3.Vector{X: -1, Y: d, Z: d}.Normalize()}, s2.Point{Vector: r3.Vector{X: -1, Y: -d, Z: 0.3}.Normalize()})
	}
	for k := 0; k < 40; k++ {
		pts = append(pts, s2.Point{Vector: r3.Vector{X: rnd.NormFloat64(), Y: rnd.NormFloat64(), Z: rnd.NormFloat64()}.Normalize()})
	}
	// points on cell boundaries (corners and edge midpoints of cells of several levels)
	for _, lvl := range []int{0, 1, 7, 20, 30} {
		c := s2.CellFromCellID(s2.CellFromPoint(pts[len(pts)-1-lvl%7]).ID().Parent(lvl))
		pts = append(pts, c.Vertex(0), c.Vertex(2), s2.Point{Vector: c.Vertex(0).Add(c.Vertex(1).Vector).Normalize()})
	}
	return pts
}

func opC20Snap(raw json.RawMessage, o *Out) {
	var c struct {
		Cid     int
		Only    *int
		Snapper string
		Arg     int
		Seed    int64
	}
	if err := json.Unmarshal(raw, &c); err != nil {
		panic(err)
	}
	rec := c20NewRec(c.Cid, c.Only, o)
	defer rec.flush()
	o.nontrivial = true
	rnd := rand.New(rand.NewSource(c.Seed))
	var sf s2.Snapper
	level := c.Arg
	switch c.Snapper {
	case "cell":
		sf = s2.CellIDSnapperForLevel(c.Arg)
	case "cell-default":
		sf = s2.NewCellIDSnapper()
		level = 30
	case "latlng":
		sf = s2.NewIntLatLngSnapper(c.Arg)
	default:
		panic("unknown snapper")
	}
	// input classes: all cell levels share the code path; integer lat-lng coordinates exceed 31 bits from E8 on
	cls := c.Snapper
	if c.Snapper == "latlng" {
		cls = "latlng/E0-7"
		if c.Arg >= 8 {
			cls = "latlng/E8-10"
		}
	}
	for _, p := range c20SnapPoints(rnd) {
		sub, ok := rec.next()
		if !ok {
			continue
		}
		q := sf.SnapPoint(p)
		ev := map[string]any{"ev": "snap", "moved": c20K(float64(p.Distance(q))), "radius": c20K(float64(sf.SnapRadius())),
			"site": []emb.Key{}, "want": []emb.Key{}, "frac": []emb.Key{}, "fthr": c20K(0)}
		extra := ""
		if c.Snapper == "latlng" {
			ll := s2.LatLngFromPoint(q)
			pw := math.Pow(10, float64(c.Arg))
			x, y := ll.Lat.Degrees()*pw, ll.Lng.Degrees()*pw
			fx, fy := math.Abs(x-math.Round(x)), math.Abs(y-math.Round(y))
			ev["frac"] = []emb.Key{c20K(fx), c20K(fy)}
			ev["fthr"] = c20K(1e-6 + 4e-13*pw)
			extra = fmt.Sprintf(" E%d coordinates of the result: lat %v lng %v", c.Arg, x, y)
		} else {
			// a site of the level-L grid is the centre of its own level-L cell
			w := s2.CellFromPoint(q).ID().Parent(level).Point()
			ev["site"] = []emb.Key{c20K(q.X), c20K(q.Y), c20K(q.Z)}
			ev["want"] = []emb.Key{c20K(w.X), c20K(w.Y), c20K(w.Z)}
		}
		rec.add(sub, cls, fmt.Sprintf("%s(%d) p=%v SnapPoint(p)=%v moved %g rad, SnapRadius %g rad%s", c.Snapper, c.Arg, p, q, float64(p.Distance(q)), float64(sf.SnapRadius()), extra), ev)
	}
	o.sample = map[string]any{"op": "c20.snap", "snapper": c.Snapper, "arg": c.Arg}
}

// ------------------------------------------------------------------ subsampling

func c20Polyline(family string, n int, tol float64, rnd *rand.Rand) []s2.Point {
	start := s2.Point{Vector: r3.Vector{X: rnd.NormFloat64(), Y: rnd.NormFloat64(), Z: rnd.NormFloat64()}.Normalize()}
	dir := s2.Point{Vector: start.Cross(r3.Vector{X: rnd.NormFloat64(), Y: rnd.NormFloat64(), Z: rnd.NormFloat64()}).Normalize()}
	side := s2.Point{Vector: start.Cross(dir.Vector).Normalize()}
	step := tol * (0.5 + 4*rnd.Float64())
	if step < 1e-9 {
		step = 1e-9 * (1 + rnd.Float64())
	}
	if step*float64(n) > 1 {
		step = 1 / float64(n)
	}
	at := func(along, across float64) s2.Point {
		v := start.Mul(math.Cos(along)).Add(dir.Mul(math.Sin(along)))
		return s2.Point{Vector: v.Add(side.Mul(across)).Normalize()}
	}
	var vs []s2.Point
	if family == "closed" && n < 3 {
		family = "straight"
	}
	switch family {
	case "straight":
		for k := 0; k < n; k++ {
			vs = append(vs, at(step*float64(k), 0))
		}
	case "zigzag":
		amp := tol * []float64{0.3, 0.9, 1.1, 3}[rnd.Intn(4)]
		for k := 0; k < n; k++ {
			vs = append(vs, at(step*float64(k), amp*float64(2*(k%2)-1)))
		}
	case "backtrack":
		x := 0.0
		for k := 0; k < n; k++ {
			if k%5 == 3 {
				x -= step * 2.5
			} else {
				x += step
			}
			vs = append(vs, at(x, tol*0.2*rnd.NormFloat64()))
		}
	case "dups":
		x := 0.0
		for k := 0; k < n; k++ {
			if rnd.Intn(3) != 0 || k == 0 {
				x += step
			}
			vs = append(vs, at(x, 0))
		}
		if rnd.Intn(2) == 0 && n >= 2 {
			vs[n-1] = vs[n-2]
		}
		if rnd.Intn(3) == 0 && n >= 2 {
			vs[1] = vs[0]
		}
	case "closed":
		for k := 0; k+1 < n; k++ {
			a := 2 * math.Pi * float64(k) / float64(n-1)
			r := step * float64(n) / 6
			vs = append(vs, at(r*math.Cos(a), r*math.Sin(a)))
		}
		vs = append(vs, vs[0])
	case "nearend":
		// the polyline ends with a vertex bitwise different from, but 1..3 ulps (< 1e-15 rad) away from, the
		// vertex before it (backing up or advancing); n = 2 gives two distinct near-coincident vertices
		m := n - 1
		if m < 1 {
			m = 1
		}
		amp := []float64{0, 0, 0.3 * tol, 2 * tol}[rnd.Intn(4)]
		for k := 0; k < m; k++ {
			vs = append(vs, at(step*float64(k), amp*float64(2*(k%2)-1)))
		}
		last := vs[len(vs)-1]
		for tries := 0; tries < 20; tries++ {
			q := last
			ul := float64(1 + rnd.Intn(3))
			sg := float64(1 - 2*rnd.Intn(2))
			switch rnd.Intn(3) {
			case 0:
				q.X += sg * ul * (math.Nextafter(math.Abs(q.X), 2) - math.Abs(q.X))
			case 1:
				q.Y += sg * ul * (math.Nextafter(math.Abs(q.Y), 2) - math.Abs(q.Y))
			default:
				q.Z += sg * ul * (math.Nextafter(math.Abs(q.Z), 2) - math.Abs(q.Z))
			}
			if q != last {
				vs = append(vs, q)
				break
			}
		}
	case "long":
		x := 0.0
		for k := 0; k < n; k++ {
			vs = append(vs, at(x, tol*rnd.NormFloat64()))
			x += []float64{0.3, 1.2, 1.7, 2.9, 3.1}[rnd.Intn(5)]
		}
	default: // random walk
		p := start
		for k := 0; k < n; k++ {
			vs = append(vs, p)
			d := r3.Vector{X: rnd.NormFloat64(), Y: rnd.NormFloat64(), Z: rnd.NormFloat64()}
			p = s2.Point{Vector: p.Add(d.Mul(step)).Normalize()}
		}
	}
	return vs
}

func opC20Sub(raw json.RawMessage, o *Out) {
	var c struct {
		Cid    int
		Only   *int
		Family string
		N      int
		TolExp int `json:"tolexp"`
		Seed   int64
		Reps   int
	}
	if err := json.Unmarshal(raw, &c); err != nil {
		panic(err)
	}
	rec := c20NewRec(c.Cid, c.Only, o)
	defer rec.flush()
	o.nontrivial = true
	tol := math.Pow(10, -float64(c.TolExp))
	if c.TolExp >= 99 {
		tol = 0
	}
	if c.Reps == 0 {
		c.Reps = 1
	}
	for rep := 0; rep < c.Reps; rep++ {
		sub, ok := rec.next()
		rnd := rand.New(rand.NewSource(c.Seed*7919 + int64(rep)))
		vs := c20Polyline(c.Family, c.N, tol, rnd)
		if !ok {
			continue
		}
		pl := s2.Polyline(vs)
		idx := pl.SubsampleVertices(s1.Angle(tol))
		if idx == nil {
			idx = []int{}
		}
		// identity classes of the input vertices
		ids := map[s2.Point]int{}
		vid := make([]int, len(vs))
		for i, v := range vs {
			if _, ok := ids[v]; !ok {
				ids[v] = len(ids)
			}
			vid[i] = ids[v]
		}
		// distance of every dropped vertex from the simplified polyline
		kept := map[int]bool{}
		valid := true
		for _, i := range idx {
			if i < 0 || i >= len(vs) {
				valid = false
				continue
			}
			kept[i] = true
		}
		dd := []emb.Key{}
		worst, wj := 0.0, -1
		if valid && len(idx) >= 1 {
			for j := range vs {
				if kept[j] {
					continue
				}
				best := math.Inf(1)
				if len(idx) == 1 {
					best = float64(vs[j].Distance(vs[idx[0]]))
				}
				for k := 0; k+1 < len(idx); k++ {
					d := float64(s2.DistanceFromSegment(vs[j], vs[idx[k]], vs[idx[k+1]]))
					if d < best {
						best = d
					}
				}
				dd = append(dd, c20K(best))
				if best > worst {
					worst, wj = best, j
				}
			}
		}
		show := vs
		if len(show) > 12 {
			show = show[:12]
		}
		rec.add(sub, "subsample/"+c.Family, fmt.Sprintf("family %s n=%d tolerance %g (seed %d rep %d): indices %v; worst dropped vertex %d at %g; first vertices %v", c.Family, len(vs), tol, c.Seed, rep, idx, wj, worst, show),
			map[string]any{"ev": "sub", "n": len(vs), "idx": idx, "vid": vid, "dd": dd, "thr": c20K(tol*(1+1e-9) + 1e-15)})
		o.CountN("subsample_vertices_in", len(vs))
		o.CountN("subsample_vertices_out", len(idx))
	}
	o.sample = map[string]any{"op": "c20.sub", "family": c.Family, "n": c.N, "tolexp": c.TolExp}
}

var _ = r2.Point{}
