package main

// EXT: iterators, the query priority queue and two Region wrappers.
//
//   ext/iter/run                 behaviours of spec/Iterators.tla (machine "iter") replayed on a real
//                                ShapeIndex and the real EdgeIterator: Add / Remove / Build / Reset build
//                                the index, then NewEdgeIterator / Next are called and Done, ShapeID,
//                                EdgeID, ShapeEdgeID and Edge are compared with the model position
//                                after every call
//   ext/queue/run                behaviours of the machine "queue" on the real queryQueue (hook
//                                VerifQueryQueue) with min- and max-distance keys; pop must return an
//                                entry of the admissible set of the step; a branch of the model is left
//                                when the queue took another admissible entry; the remaining entries are
//                                drained and compared with the expected key order
//   ext/queue/less               distance.less, zero, infinity, negative of both flavours
//   ext/regionunion/case         spec/Gen_IterRegions.tla mode "ru": a RegionUnion of cells, cell
//                                unions, points, nested unions and caps; ContainsCell / IntersectsCell
//                                for every model cell, ContainsPoint for every leaf centre (three-valued
//                                expectations: "U" = no prediction), the three bounds against the
//                                witness leaves
//   ext/shapeindexregion/cells   mode "sir": CellUnionBound of an index whose cells are given (hook
//                                VerifIndexFromCells) against the documented construction
//   ext/shapeindexregion/scene   mode "scene": real indexes of grid rectangles; bounds cover every
//                                rectangle cell, size limits
//
// A behaviour is abandoned at its first disagreement.

import (
	"encoding/json"
	"fmt"
	"math"
	"sort"
	"strings"

	"github.com/golang/geo/s1"
	"github.com/golang/geo/s2"

	"verifharness/emb"
)

func init() {
	register("ext/iter/run", opExtIterRun)
	register("ext/queue/run", opExtQueueRun)
	register("ext/queue/less", opExtQueueLess)
	register("ext/regionunion/case", opExtRegionUnion)
	register("ext/shapeindexregion/cells", opExtSirCells)
	register("ext/shapeindexregion/scene", opExtSirScene)
}

// ------------------------------------------------------------------ EdgeIterator

type extItObs struct {
	Done bool
	Sid  int
	Eid  int
	Ends []int
}

type extItIndexObs struct {
	Len int
	Ne  int
	Ids int
}

type extItStep struct {
	A  string
	K  string
	Nv int
	R  int
	Ix *extItIndexObs
	O  *extItObs
}

// extItVertex is vertex j of the shape in slot s: centres of distinct level-6 cells, no three of a
// shape on one grid line.
func extItVertex(s, j int) s2.Point {
	return emb.FromFaceIJ(s%6, 6, 5+4*j+(s/6)%3, 7+3*((j*j+s)%7)).Point()
}

func extItShape(kind string, s, nv int) (s2.Shape, []s2.Point) {
	vs := make([]s2.Point, nv)
	for j := range vs {
		vs[j] = extItVertex(s, j)
	}
	switch kind {
	case "pv":
		pv := s2.PointVector(append([]s2.Point(nil), vs...))
		return &pv, vs
	case "pl":
		return s2.LaxPolylineFromPoints(append([]s2.Point(nil), vs...)), vs
	case "ll":
		return s2.LaxLoopFromPoints(append([]s2.Point(nil), vs...)), vs
	}
	panic("ext/iter: unknown shape kind " + kind)
}

func extItName(steps []extItStep, upto int) string {
	var sb strings.Builder
	for i := 0; i <= upto && i < len(steps); i++ {
		if i > 0 {
			sb.WriteString(";")
		}
		s := steps[i]
		switch s.A {
		case "Add":
			fmt.Fprintf(&sb, "Add(%s,%d vertices)", s.K, s.Nv)
		case "Remove":
			fmt.Fprintf(&sb, "Remove(shape %d)", s.R)
		default:
			sb.WriteString(s.A)
		}
	}
	return sb.String()
}

func opExtIterRun(raw json.RawMessage, o *Out) {
	var c struct {
		Op    string
		Steps []extItStep
	}
	if err := json.Unmarshal(raw, &c); err != nil {
		panic(err)
	}
	ix := s2.NewShapeIndex()
	var shapes []s2.Shape  // by id; nil = removed
	var verts [][]s2.Point // by id
	var it *s2.EdgeIterator
	removed, skipped, withEdges := false, false, 0
	for n, st := range c.Steps {
		hist := func() string { return extItName(c.Steps, n) }
		class := func() string {
			if removed {
				return "after-remove"
			}
			return "no-removal"
		}
		switch st.A {
		case "Add":
			sh, vs := extItShape(st.K, len(shapes), st.Nv)
			id := ix.Add(sh)
			shapes = append(shapes, sh)
			verts = append(verts, vs)
			if sh.NumEdges() > 0 {
				withEdges++
			} else {
				skipped = true
			}
			if int(id) != st.R {
				o.Fail("ext/iter/add-id", "%s: Add returned id %d, model %d", hist(), id, st.R)
				return
			}
		case "Remove":
			ix.Remove(shapes[st.R])
			shapes[st.R] = nil
			removed, skipped = true, true
		case "Build":
			ix.Build()
		case "Reset":
			ix.Reset()
			shapes, verts, removed = nil, nil, false
		case "NewIter":
			it = s2.NewEdgeIterator(ix)
			o.Count("iter_iterations")
		case "Next":
			it.Next()
		default:
			panic("ext/iter: unknown action " + st.A)
		}
		if st.Ix != nil {
			if ix.Len() != st.Ix.Len {
				o.Fail("ext/iter/index-len", "%s: ShapeIndex.Len() = %d, model has %d live shapes", hist(), ix.Len(), st.Ix.Len)
				return
			}
			if ix.NumEdges() != st.Ix.Ne {
				o.Fail("ext/iter/index-numedges", "%s: ShapeIndex.NumEdges() = %d, model %d", hist(), ix.NumEdges(), st.Ix.Ne)
				return
			}
		}
		if st.O == nil {
			continue
		}
		o.Count("iter_positions")
		w := st.O
		if it.Done() != w.Done {
			if w.Done {
				o.Fail("ext/iter/done-late/"+class(), "%s: Done() = false at (%d,%d), the model has produced every edge", hist(), it.ShapeID(), it.EdgeID())
			} else {
				// One known way of stopping early has a key of its own: a shape was removed and the
				// iteration ends in front of a live shape whose id is not below the number of live
				// shapes (the signature of bounding shape ids by the number of live shapes).  Every
				// other early stop is reported under done-early.
				key := "ext/iter/done-early/" + class()
				if removed && w.Sid >= ix.Len() {
					key = "ext/iter/removed-shape/stops-early"
				}
				o.Fail(key, "%s: Done() = true, the model is at shape %d edge %d (index has %d shape ids, Len() = %d)",
					hist(), w.Sid, w.Eid, len(shapes), ix.Len())
			}
			return
		}
		if w.Done {
			continue
		}
		if int(it.ShapeID()) != w.Sid || int(it.EdgeID()) != w.Eid {
			o.Fail("ext/iter/position/"+class(), "%s: iterator at (%d,%d), model at (%d,%d)", hist(), it.ShapeID(), it.EdgeID(), w.Sid, w.Eid)
			return
		}
		if se := it.ShapeEdgeID(); int(se.ShapeID) != w.Sid || int(se.EdgeID) != w.Eid {
			o.Fail("ext/iter/shape-edge-id", "%s: ShapeEdgeID() = %v, model (%d,%d)", hist(), se, w.Sid, w.Eid)
			return
		}
		e := it.Edge()
		if want := (s2.Edge{V0: verts[w.Sid][w.Ends[0]], V1: verts[w.Sid][w.Ends[1]]}); e != want {
			o.Fail("ext/iter/edge", "%s: Edge() at (%d,%d) = %v, the shape's vertices %v give %v", hist(), w.Sid, w.Eid, e, w.Ends, want)
			return
		}
	}
	o.nontrivial = withEdges >= 2 || (withEdges >= 1 && skipped)
	o.sample = map[string]any{"op": c.Op, "history": extItName(c.Steps, len(c.Steps))}
}

// ------------------------------------------------------------------ queryQueue

// extQChords is the table of Iterators.tla: rank -> chord angle.
var extQChords = []s1.ChordAngle{s1.NegativeChordAngle, 0, 0.25, 1, 2, s1.StraightChordAngle, s1.InfChordAngle()}

func extQRank(c s1.ChordAngle) int {
	for r, v := range extQChords {
		if v == c {
			return r
		}
	}
	return -1
}

func extQID(n int) s2.CellID {
	return emb.RawID(n%6, []int{(n / 6) % 4, (n / 24) % 4, n % 4, 1, 2})
}

type extQStep struct {
	A     string
	K     int
	ID    int
	N     int
	Cands []int
}

func extQName(steps []extQStep, upto int) string {
	var sb strings.Builder
	for i := 0; i <= upto && i < len(steps); i++ {
		if i > 0 {
			sb.WriteString(";")
		}
		s := steps[i]
		switch s.A {
		case "Push":
			fmt.Fprintf(&sb, "push(%v,#%d)", float64(extQChords[s.K]), s.ID)
		default:
			sb.WriteString(strings.ToLower(s.A))
		}
	}
	return sb.String()
}

func opExtQueueRun(raw json.RawMessage, o *Out) {
	var c struct {
		Op    string
		Fl    string
		Steps []extQStep
		Drain []int
		Rest  []struct{ K, ID int }
	}
	if err := json.Unmarshal(raw, &c); err != nil {
		panic(err)
	}
	furthest := c.Fl == "max"
	q := s2.VerifNewQueryQueue()
	keyOf := map[int]int{}                 // entry number -> rank pushed
	cellOf := map[int]*s2.ShapeIndexCell{} // entry number -> payload pushed
	numOf := map[s2.CellID]int{}
	// check reads one popped entry: rank and entry number, or a failure
	check := func(hist string, d s2.VerifDist, id s2.CellID, cell *s2.ShapeIndexCell) (rank, num int, ok bool) {
		rank = extQRank(d.ChordAngle())
		num, known := numOf[id]
		if rank < 0 || !known {
			o.Fail("ext/queue/pop-unknown-entry", "%s (%s): pop returned (%v, %v) which was never pushed", hist, c.Fl, float64(d.ChordAngle()), id)
			return 0, 0, false
		}
		if keyOf[num] != rank || cellOf[num] != cell || d.Furthest() != furthest {
			o.Fail("ext/queue/entry-fields", "%s (%s): pop returned cell #%d with distance %v / payload %p / furthest=%v, pushed with %v / %p / %v",
				hist, c.Fl, num, float64(d.ChordAngle()), cell, d.Furthest(), float64(extQChords[keyOf[num]]), cellOf[num], furthest)
			return 0, 0, false
		}
		return rank, num, true
	}
	maxSize, ties := 0, false
	for n, st := range c.Steps {
		hist := extQName(c.Steps, n)
		switch st.A {
		case "Push":
			id := extQID(st.ID)
			var cell *s2.ShapeIndexCell
			if st.ID%2 == 0 {
				cell = s2.NewShapeIndexCell(0)
			}
			keyOf[st.ID], cellOf[st.ID], numOf[id] = st.K, cell, st.ID
			q.Push(s2.VerifDistance(furthest, extQChords[st.K]), id, cell)
		case "Pop":
			d, id, cell := q.Pop()
			o.Count("queue_pops")
			rank, num, ok := check(hist, d, id, cell)
			if !ok {
				return
			}
			admissible := false
			for _, x := range st.Cands {
				admissible = admissible || x == num
			}
			if len(st.Cands) > 1 {
				ties = true
			}
			if !admissible {
				if rank != st.K {
					o.Fail("ext/queue/pop-order/"+c.Fl, "%s (%s-distance queue): pop returned distance %v (entry #%d) while an entry with distance %v is queued",
						hist, c.Fl, float64(extQChords[rank]), num, float64(extQChords[st.K]))
				} else {
					o.Fail("ext/queue/pop-entry", "%s (%s): pop returned entry #%d which is not in the queue (admissible %v)", hist, c.Fl, num, st.Cands)
				}
				return
			}
			if num != st.ID {
				// the real queue resolved a tie the other way: that branch is another behaviour of the model
				o.Count("queue_branches_left")
				return
			}
		case "Reset":
			q.Reset()
		default:
			panic("ext/queue: unknown action " + st.A)
		}
		if q.Size() != st.N {
			o.Fail("ext/queue/size", "%s (%s): size() = %d, model %d", hist, c.Fl, q.Size(), st.N)
			return
		}
		if st.N > maxSize {
			maxSize = st.N
		}
	}
	// drain
	hist := extQName(c.Steps, len(c.Steps)) + ";drain"
	left := map[int]int{}
	for _, e := range c.Rest {
		left[e.ID] = e.K
	}
	for i, wantRank := range c.Drain {
		if q.Size() == 0 {
			o.Fail("ext/queue/drain-content", "%s (%s): the queue is empty after %d pops, the model still holds %d entries", hist, c.Fl, i, len(c.Drain)-i)
			return
		}
		d, id, cell := q.Pop()
		rank, num, ok := check(hist, d, id, cell)
		if !ok {
			return
		}
		if k, in := left[num]; !in || k != rank {
			o.Fail("ext/queue/drain-content", "%s (%s): pop %d of the drain returned entry #%d which the model does not hold (any more)", hist, c.Fl, i+1, num)
			return
		}
		delete(left, num)
		if rank != wantRank {
			o.Fail("ext/queue/pop-order/"+c.Fl, "%s (%s-distance queue): pop %d of the drain returned distance %v, the model's order gives %v",
				hist, c.Fl, i+1, float64(extQChords[rank]), float64(extQChords[wantRank]))
			return
		}
	}
	if q.Size() != 0 {
		o.Fail("ext/queue/drain-content", "%s (%s): size() = %d after draining every entry of the model", hist, c.Fl, q.Size())
		return
	}
	o.Count("queue_drains")
	o.nontrivial = maxSize >= 3 || ties
	o.sample = map[string]any{"op": c.Op, "flavour": c.Fl, "history": hist}
}

func opExtQueueLess(raw json.RawMessage, o *Out) {
	var c struct {
		Op   string
		Fl   string
		Less map[string]map[string]bool
		Zero int
		Inf  int
		Neg  int
	}
	if err := json.Unmarshal(raw, &c); err != nil {
		panic(err)
	}
	furthest := c.Fl == "max"
	for as, row := range c.Less {
		for bs, want := range row {
			var a, b int
			fmt.Sscan(as, &a)
			fmt.Sscan(bs, &b)
			got := s2.VerifDistance(furthest, extQChords[a]).Less(s2.VerifDistance(furthest, extQChords[b]))
			o.Count("less_pairs")
			if got != want {
				o.Fail("ext/queue/less/"+c.Fl, "%sDistance(%v).less(%v) = %v, the flavour's order says %v", c.Fl, float64(extQChords[a]), float64(extQChords[b]), got, want)
			}
		}
	}
	d := s2.VerifDistance(furthest, 1)
	for _, x := range []struct {
		name string
		got  s2.VerifDist
		want int
	}{{"zero", d.Zero(), c.Zero}, {"infinity", d.Infinity(), c.Inf}, {"negative", d.Negative(), c.Neg}} {
		if r := extQRank(x.got.ChordAngle()); r != x.want || x.got.Furthest() != furthest {
			o.Fail("ext/queue/"+x.name+"/"+c.Fl, "%sDistance.%s() = %v (furthest=%v), model %v", c.Fl, x.name, float64(x.got.ChordAngle()), x.got.Furthest(), float64(extQChords[x.want]))
		}
	}
	o.nontrivial = true
	o.sample = map[string]any{"op": c.Op, "flavour": c.Fl}
}

// ------------------------------------------------------------------ the cell world of CellUnions.tla

type extCellWorld struct {
	L, NF  int
	anchor *emb.Cell // NF = 1: the model root is this cell (deep embedding)
}

func extPow4(n int) int { return 1 << uint(2*n) }

// cellAt decodes the index of CellUnions.tla: face-major, then level, then path number.
func (w extCellWorld) cellAt(idx int) s2.CellID {
	cpf := (extPow4(w.L+1) - 1) / 3
	f, r := idx/cpf, idx%cpf
	l := 0
	for (extPow4(l+1)-1)/3 <= r {
		l++
	}
	num := r - (extPow4(l)-1)/3
	path := make([]int, l)
	for k := l - 1; k >= 0; k-- {
		path[k] = num % 4
		num /= 4
	}
	return w.under(f, path)
}

func (w extCellWorld) under(f int, path []int) s2.CellID {
	if w.anchor != nil {
		return emb.Under(w.anchor.ID(), path)
	}
	return emb.RawID(f, path)
}

// leafAt is the level-L cell with leaf number y.
func (w extCellWorld) leafAt(y int) s2.CellID {
	n := extPow4(w.L)
	f, num := y/n, y%n
	path := make([]int, w.L)
	for k := w.L - 1; k >= 0; k-- {
		path[k] = num % 4
		num /= 4
	}
	return w.under(f, path)
}

func (w extCellWorld) numCells() int  { return w.NF * (extPow4(w.L+1) - 1) / 3 }
func (w extCellWorld) numLeaves() int { return w.NF * extPow4(w.L) }

func extCovers(ids []s2.CellID, leaf s2.CellID) bool {
	for _, id := range ids {
		lsb := uint64(id) & -uint64(id)
		if uint64(leaf) >= uint64(id)-(lsb-1) && uint64(leaf) <= uint64(id)+(lsb-1) {
			return true
		}
	}
	return false
}

// ------------------------------------------------------------------ RegionUnion

type extRUMember struct {
	K string
	C []int
}

func extRUDescribe(w extCellWorld, ms []extRUMember) string {
	var parts []string
	for _, m := range ms {
		var ids []string
		for _, i := range m.C {
			ids = append(ids, w.cellAt(i).String())
		}
		parts = append(parts, m.K+"("+strings.Join(ids, ",")+")")
	}
	return "RegionUnion{" + strings.Join(parts, ", ") + "}"
}

func extRUBuild(w extCellWorld, ms []extRUMember) s2.RegionUnion {
	ru := s2.RegionUnion{}
	for _, m := range ms {
		switch m.K {
		case "cell":
			ru = append(ru, s2.CellFromCellID(w.cellAt(m.C[0])))
		case "cap":
			b := s2.CellFromCellID(w.cellAt(m.C[0])).CapBound()
			ru = append(ru, s2.CapFromCenterAngle(b.Center(), 2*b.Radius()))
		case "pt":
			ru = append(ru, w.cellAt(m.C[0]).Point())
		case "union":
			cu := s2.CellUnion{}
			for _, i := range m.C {
				cu = append(cu, w.cellAt(i))
			}
			sort.Slice(cu, func(a, b int) bool { return cu[a] < cu[b] })
			ru = append(ru, &cu)
		case "nest":
			in := s2.RegionUnion{}
			for _, i := range m.C {
				in = append(in, s2.CellFromCellID(w.cellAt(i)))
			}
			ru = append(ru, in)
		default:
			panic("ext/regionunion: unknown member kind " + m.K)
		}
	}
	return ru
}

func opExtRegionUnion(raw json.RawMessage, o *Out) {
	var c struct {
		Op      string
		L, NF   int
		Members []extRUMember
		Cc, Ic  []string
		Cp      []string
		Wit     []int
	}
	if err := json.Unmarshal(raw, &c); err != nil {
		panic(err)
	}
	w := extCellWorld{L: c.L, NF: c.NF}
	if len(c.Cc) != w.numCells() || len(c.Ic) != w.numCells() || len(c.Cp) != w.numLeaves() {
		panic("ext/regionunion: result vectors do not match the cell world")
	}
	ru := extRUBuild(w, c.Members)
	desc := extRUDescribe(w, c.Members)
	kinds := map[string]bool{}
	for _, m := range c.Members {
		kinds[m.K] = true
	}
	tri := func(check, want string, got bool, what string) bool {
		if want == "U" {
			o.Count("ru_unpredicted")
			return true
		}
		o.Count("ru_predictions")
		if got == (want == "T") {
			return true
		}
		dir := "true-for-outside"
		if want == "T" {
			dir = "false-for-member"
		}
		o.Fail("ext/regionunion/"+check+"/"+dir, "%s.%s(%s) = %v, the members give %v", desc, check, what, got, want == "T")
		return false
	}
	okc, oki, okp := true, true, true
	for x := 0; x < w.numCells(); x++ {
		id := w.cellAt(x)
		cell := s2.CellFromCellID(id)
		if okc {
			okc = tri("ContainsCell", c.Cc[x], ru.ContainsCell(cell), id.String())
		}
		if oki {
			oki = tri("IntersectsCell", c.Ic[x], ru.IntersectsCell(cell), id.String())
		}
	}
	for y := 0; y < w.numLeaves() && okp; y++ {
		id := w.leafAt(y)
		okp = tri("ContainsPoint", c.Cp[y], ru.ContainsPoint(id.Point()), "centre of "+id.String())
	}
	rect, cp, cov := ru.RectBound(), ru.CapBound(), ru.CellUnionBound()
	okr, oka, okv := true, true, true
	for _, y := range c.Wit {
		id := w.leafAt(y)
		p := id.Point()
		o.Count("ru_bound_witnesses")
		if okr && !rect.ContainsPoint(p) {
			o.Fail("ext/regionunion/RectBound/misses-member-point", "%s.RectBound() = %v does not contain the centre of %s, which a member contains", desc, rect, id)
			okr = false
		}
		if oka && !cp.ContainsPoint(p) {
			o.Fail("ext/regionunion/CapBound/misses-member-point", "%s.CapBound() = %v does not contain the centre of %s, which a member contains", desc, cp, id)
			oka = false
		}
		if okv && !extCovers(cov, s2.CellFromPoint(p).ID()) {
			o.Fail("ext/regionunion/CellUnionBound/misses-member-point", "%s.CellUnionBound() = %v does not cover the centre of %s, which a member contains", desc, cov, id)
			okv = false
		}
	}
	o.nontrivial = len(c.Members) >= 2 && len(kinds) >= 2
	o.sample = map[string]any{"op": c.Op, "union": desc}
}

// ------------------------------------------------------------------ ShapeIndexRegion

func extSortedIDs(ids []s2.CellID) []s2.CellID {
	out := append([]s2.CellID(nil), ids...)
	sort.Slice(out, func(a, b int) bool { return out[a] < out[b] })
	return out
}

func extSameIDs(a, b []s2.CellID) bool {
	if len(a) != len(b) {
		return false
	}
	for i := range a {
		if a[i] != b[i] {
			return false
		}
	}
	return true
}

func opExtSirCells(raw json.RawMessage, o *Out) {
	var c struct {
		Op     string
		L, NF  int
		Cells  []int
		Want   []int
		Anchor *emb.Cell
	}
	if err := json.Unmarshal(raw, &c); err != nil {
		panic(err)
	}
	w := extCellWorld{L: c.L, NF: c.NF, anchor: c.Anchor}
	var ids, want []s2.CellID
	faces := map[int]bool{}
	for _, i := range c.Cells {
		id := w.cellAt(i)
		ids = append(ids, id)
		faces[id.Face()] = true
	}
	for _, i := range c.Want {
		want = append(want, w.cellAt(i))
	}
	want = extSortedIDs(want)
	class := "several-faces"
	switch {
	case len(ids) == 0:
		class = "empty-index"
	case len(ids) == 1:
		class = "single-cell"
	case len(faces) == 1:
		class = "one-face"
	}
	// the index cells in reverse order: the hook sorts them
	rev := make([]s2.CellID, len(ids))
	for i, id := range ids {
		rev[len(ids)-1-i] = id
	}
	reg := s2.VerifIndexFromCells(rev).Region()
	got := extSortedIDs(reg.CellUnionBound())
	if !extSameIDs(got, want) {
		o.Fail("ext/shapeindexregion/cell-union-bound/"+class, "index cells %v: CellUnionBound() = %v, the documented construction gives %v", ids, got, want)
		return
	}
	// the region object keeps an iterator: the answer may not depend on the calls made before
	capb := reg.CapBound()
	rect := reg.RectBound()
	if again := extSortedIDs(reg.CellUnionBound()); !extSameIDs(again, want) {
		o.Fail("ext/shapeindexregion/cell-union-bound/repeated-call", "index cells %v: CellUnionBound() = %v after CapBound/RectBound, %v before", ids, again, got)
		return
	}
	for _, id := range ids {
		p := id.Point()
		if !capb.ContainsPoint(p) {
			o.Fail("ext/shapeindexregion/CapBound/misses-index-cell", "index cells %v: CapBound() = %v does not contain the centre of %v", ids, capb, id)
			return
		}
		if !rect.ContainsPoint(p) {
			o.Fail("ext/shapeindexregion/RectBound/misses-index-cell", "index cells %v: RectBound() = %v does not contain the centre of %v", ids, rect, id)
			return
		}
	}
	o.Count("sir_" + class)
	o.nontrivial = len(ids) >= 2
	o.sample = map[string]any{"op": c.Op, "cells": fmt.Sprint(ids), "bound": fmt.Sprint(got)}
}

// extGridPoint is the grid corner (i,j) of level g on a face (bit-identical for all cells sharing it).
func extGridPoint(face, g, i, j int) s2.Point {
	n := 1 << uint(g)
	ci, cj, k := i, j, 0
	if ci > n-1 {
		ci = n - 1
	}
	if cj > n-1 {
		cj = n - 1
	}
	switch {
	case i > ci && j > cj:
		k = 2
	case i > ci:
		k = 1
	case j > cj:
		k = 3
	}
	return s2.CellFromCellID(emb.FromFaceIJ(face, g, ci, cj)).Vertex(k)
}

// extRectLoop is the counter-clockwise boundary of the cells [x0,x1) x [y0,y1) of level g, with a
// vertex at every grid corner (dense) or at the four corners only.
func extRectLoop(face, g, x0, y0, x1, y1 int, dense bool) *s2.Loop {
	var v []s2.Point
	side := func(ax, ay, bx, by int) {
		n := 1
		if dense {
			n = int(math.Abs(float64(bx-ax)) + math.Abs(float64(by-ay)))
		}
		for k := 0; k < n; k++ {
			v = append(v, extGridPoint(face, g, ax+(bx-ax)*k/n, ay+(by-ay)*k/n))
		}
	}
	side(x0, y0, x1, y0)
	side(x1, y0, x1, y1)
	side(x1, y1, x0, y1)
	side(x0, y1, x0, y0)
	return s2.LoopFromPoints(v)
}

func opExtSirScene(raw json.RawMessage, o *Out) {
	var c struct {
		Op    string
		G     int
		Rects [][5]int
		Must  [][3]int
		Maxn  int
		Dense []bool
	}
	if err := json.Unmarshal(raw, &c); err != nil {
		panic(err)
	}
	ix := s2.NewShapeIndex()
	var desc []string
	for n, r := range c.Rects {
		ix.Add(extRectLoop(r[0], c.G, r[1], r[2], r[3], r[4], c.Dense[n]))
		desc = append(desc, fmt.Sprintf("face %d [%d,%d)x[%d,%d)%s", r[0], r[1], r[3], r[2], r[4], map[bool]string{true: " dense", false: ""}[c.Dense[n]]))
	}
	scene := fmt.Sprintf("level-%d grid rectangles {%s}", c.G, strings.Join(desc, "; "))
	reg := ix.Region()
	bound := reg.CellUnionBound()
	capb, rect := reg.CapBound(), reg.RectBound()
	if again := reg.CellUnionBound(); !extSameIDs(extSortedIDs(again), extSortedIDs(bound)) {
		o.Fail("ext/shapeindexregion/scene/repeated-call", "%s: CellUnionBound() = %v, then %v", scene, bound, again)
		return
	}
	if len(bound) > c.Maxn {
		o.Fail("ext/shapeindexregion/scene/too-many-cells", "%s: CellUnionBound() has %d cells %v, documented limit %d", scene, len(bound), bound, c.Maxn)
		return
	}
	for _, m := range c.Must {
		id := emb.FromFaceIJ(m[0], c.G, m[1], m[2])
		p := id.Point()
		o.Count("sir_scene_witnesses")
		if !extCovers(bound, s2.CellFromPoint(p).ID()) {
			o.Fail("ext/shapeindexregion/scene/CellUnionBound-misses-shape-cell", "%s: CellUnionBound() = %v does not cover the centre of cell %v of a rectangle", scene, bound, id)
			return
		}
		if !capb.ContainsPoint(p) {
			o.Fail("ext/shapeindexregion/scene/CapBound-misses-shape-cell", "%s: CapBound() = %v does not contain the centre of cell %v of a rectangle", scene, capb, id)
			return
		}
		if !rect.ContainsPoint(p) {
			o.Fail("ext/shapeindexregion/scene/RectBound-misses-shape-cell", "%s: RectBound() = %v does not contain the centre of cell %v of a rectangle", scene, rect, id)
			return
		}
	}
	o.Count(fmt.Sprintf("sir_scene_bound_%d_cells", len(bound)))
	o.nontrivial = len(c.Rects) >= 2
	o.sample = map[string]any{"op": c.Op, "scene": scene, "bound": fmt.Sprint(bound)}
}
