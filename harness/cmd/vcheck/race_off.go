//go:build !race

package main

func raceDisable() {}
func raceEnable()  {}

const raceBuild = false
