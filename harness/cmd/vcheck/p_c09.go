package main

// C09: encoding is lossless.
//
//  op "wire"      model values of Wire.tla with the byte sequences TLC computed for
//                 them: the real encoder must write exactly these bytes (both polygon
//                 formats, and the format the encoder selects), and decoding the model's
//                 bytes must give back the value.
//  op "wireprim"  the primitive coders against the model (zig-zag, bit interleave,
//                 uvarint, the 2nd-derivative coder incl. wrap-around: the model's w-bit
//                 words are embedded as multiples of 2^(32-w), on which int32 arithmetic
//                 is isomorphic to arithmetic mod 2^w).
//  op "roundtrip" richer values generated from a seed; the observation (fingerprints,
//                 hashes, query answers before/after) is also appended to the trace file
//                 named by VERIF_C09_TRACE, which Trace_Wire.tla validates.
//
// Uses the embedding of model values from p_c15.go.

import (
	"bytes"
	"crypto/sha256"
	"encoding/binary"
	"encoding/hex"
	"encoding/json"
	"fmt"
	"io"
	"math"
	"math/rand"
	"os"
	"sync"

	"github.com/golang/geo/r3"
	"github.com/golang/geo/s1"
	"github.com/golang/geo/s2"

	"verifharness/emb"
)

func init() {
	register("wire", opWire)
	register("wireprim", opWirePrim)
	register("roundtrip", opRoundTrip)
}

// ---------------------------------------------------------------------------
// op wire

type c09WireCase struct {
	T          string      `json:"t"`
	K          int         `json:"K"`
	Loops      []wireLoop  `json:"loops"`
	Cells      []emb.Cell  `json:"cells"`
	N          int         `json:"n"`
	Fmt        string      `json:"fmt"`
	Snap       int         `json:"snap"`
	Holes      bool        `json:"holes"`
	Lossless   []wireField `json:"lossless"`
	Compressed []wireField `json:"compressed"`
}

func c09Bytes(w *wireReal, fs []wireField) []byte {
	var out []byte
	for _, f := range fs {
		if len(f.Ref) > 0 {
			f.K = "f64"
		}
		out = append(out, wireFieldBytes(w, f)...)
	}
	return out
}

func c09FirstDiff(a, b []byte) string {
	n := len(a)
	if len(b) < n {
		n = len(b)
	}
	for i := 0; i < n; i++ {
		if a[i] != b[i] {
			return fmt.Sprintf("first difference at byte %d (%02x vs %02x), lengths %d/%d, got %s want %s", i, a[i], b[i], len(a), len(b), c15Hex(a), c15Hex(b))
		}
	}
	return fmt.Sprintf("lengths %d/%d, got %s want %s", len(a), len(b), c15Hex(a), c15Hex(b))
}

func pointBits(p s2.Point) [3]uint64 {
	return [3]uint64{math.Float64bits(p.X), math.Float64bits(p.Y), math.Float64bits(p.Z)}
}

func rectBits(r s2.Rect) [4]uint64 {
	return [4]uint64{math.Float64bits(r.Lat.Lo), math.Float64bits(r.Lat.Hi), math.Float64bits(r.Lng.Lo), math.Float64bits(r.Lng.Hi)}
}

// c09LoopDiff compares the stored state of two loops; bounds only when withBound.
func c09LoopDiff(a, b *s2.Loop, withBound bool) string {
	x, y := s2.VerifLoopState(a), s2.VerifLoopState(b)
	if len(x.Vertices) != len(y.Vertices) {
		return fmt.Sprintf("vertex count %d vs %d", len(x.Vertices), len(y.Vertices))
	}
	for i := range x.Vertices {
		if pointBits(x.Vertices[i]) != pointBits(y.Vertices[i]) {
			return fmt.Sprintf("vertex %d: %v vs %v", i, x.Vertices[i], y.Vertices[i])
		}
	}
	if x.OriginInside != y.OriginInside {
		return fmt.Sprintf("originInside %v vs %v", x.OriginInside, y.OriginInside)
	}
	if x.Depth != y.Depth {
		return fmt.Sprintf("depth %d vs %d", x.Depth, y.Depth)
	}
	if withBound && (rectBits(x.Bound) != rectBits(y.Bound) || rectBits(x.SubregionBound) != rectBits(y.SubregionBound)) {
		return fmt.Sprintf("bound %v/%v vs %v/%v", x.Bound, x.SubregionBound, y.Bound, y.SubregionBound)
	}
	return ""
}

// c09BoundStored: does the bound of a loop travel in the encoding (lossless: always;
// compressed: loops of at least 64 vertices).
func c09BoundStored(l *s2.Loop, lossless bool) bool { return lossless || l.NumVertices() >= 64 }

// c09PolygonDiff compares the stored state; the bound and the subregion bound derived from it
// are compared for every loop whose bound travels in the encoding (withBound = lossless format).
func c09PolygonDiff(a, b *s2.Polygon, withBound bool) string {
	if a.NumLoops() != b.NumLoops() {
		return fmt.Sprintf("loop count %d vs %d", a.NumLoops(), b.NumLoops())
	}
	for i := 0; i < a.NumLoops(); i++ {
		if d := c09LoopDiff(a.Loop(i), b.Loop(i), c09BoundStored(a.Loop(i), withBound)); d != "" {
			return fmt.Sprintf("loop %d: %s", i, d)
		}
	}
	x, y := s2.VerifPolygonState(a), s2.VerifPolygonState(b)
	if x.HasHoles != y.HasHoles || x.NumVertices != y.NumVertices || x.NumEdges != y.NumEdges {
		return fmt.Sprintf("hasHoles/numVertices/numEdges %v/%d/%d vs %v/%d/%d", x.HasHoles, x.NumVertices, x.NumEdges, y.HasHoles, y.NumVertices, y.NumEdges)
	}
	if withBound && (rectBits(x.Bound) != rectBits(y.Bound) || rectBits(x.SubregionBound) != rectBits(y.SubregionBound)) {
		return fmt.Sprintf("polygon bound %v vs %v", x.Bound, y.Bound)
	}
	return ""
}

func opWire(raw json.RawMessage, o *Out) {
	var c c09WireCase
	if err := json.Unmarshal(raw, &c); err != nil {
		panic(err)
	}
	typ := c.T
	w := wireBuild(typ, c.K, c.Loops, c.Cells, c.N)
	o.Count("wire_" + typ)
	// 1. the cell-centre detection agrees with the model for every vertex
	faithful := true
	for li, wl := range c.Loops {
		for vi, v := range wl.Vs {
			p := s2.VerifLoopState(w.loops[li]).Vertices[vi]
			f, si, ti, lv := s2.VerifXYZToFaceSiTi(p)
			M := 1 << uint(c.K+1)
			onEdge := v[1] == 0 || v[1] == M || v[2] == 0 || v[2] == M
			if si != wireSiTi(c.K, v[1]) || ti != wireSiTi(c.K, v[2]) || lv != v[4] || (f != v[0] && !onEdge) {
				if onEdge && lv == -1 && v[4] == -1 {
					faithful = false // a point on a face boundary belongs to several faces: no byte prediction
					continue
				}
				o.Fail("wire/level-detect", "xyzToFaceSiTi(%v) = (%d,%d,%d,%d), model vertex %v at K=%d", p, f, si, ti, lv, v, c.K)
				return
			}
			if f != v[0] {
				faithful = false
			}
		}
	}
	if !faithful {
		o.Count("boundary_vertex_on_other_face_no_byte_prediction")
	}
	wantL := c09Bytes(w, c.Lossless)
	switch typ {
	case "Polygon":
		wantC := c09Bytes(w, c.Compressed)
		got, err := wireEncode(w)
		if err != nil {
			o.Fail("wire/encode-error/Polygon", "Encode: %v", err)
			return
		}
		got2, _ := wireEncode(w)
		if !bytes.Equal(got, got2) {
			o.Fail("wire/encode-twice/Polygon", "two encodings of one polygon differ: %s", c09FirstDiff(got, got2))
		}
		var bl, bc bytes.Buffer
		if err := s2.VerifPolygonEncodeLossless(w.poly, &bl); err != nil {
			o.Fail("wire/encode-error/Polygon/lossless", "encodeLossless: %v", err)
		}
		if err := s2.VerifPolygonEncodeCompressed(w.poly, &bc, c.Snap); err != nil {
			o.Fail("wire/encode-error/Polygon/compressed", "encodeCompressed: %v", err)
		}
		nv := 0
		for _, l := range c.Loops {
			nv += len(l.Vs)
		}
		o.nontrivial = nv > 0
		if faithful {
			gotFmt := "lossless"
			if len(got) > 0 && got[0] == 4 {
				gotFmt = "compressed"
			}
			if gotFmt != c.Fmt {
				o.Fail("wire/format-choice", "encoder chose %s, the model's rule %s (snap level %d) for %s", gotFmt, c.Fmt, c.Snap, raw)
			} else if want := map[string][]byte{"lossless": wantL, "compressed": wantC}[c.Fmt]; !bytes.Equal(got, want) {
				o.Fail("wire/bytes/Polygon/"+c.Fmt, "Encode differs from the model's bytes: %s", c09FirstDiff(got, want))
			}
			if !bytes.Equal(bl.Bytes(), wantL) {
				o.Fail("wire/bytes/Polygon/lossless-forced", "encodeLossless differs from the model's bytes: %s", c09FirstDiff(bl.Bytes(), wantL))
			}
			if !bytes.Equal(bc.Bytes(), wantC) {
				o.Fail("wire/bytes/Polygon/compressed-forced", "encodeCompressed(level %d) differs from the model's bytes: %s", c.Snap, c09FirstDiff(bc.Bytes(), wantC))
			}
			o.Count("polygon_bytes_predicted_" + c.Fmt)
		}
		// decode the model's bytes (both formats) and the encoder's own output
		for _, in := range []struct {
			name string
			b    []byte
			bnd  bool
		}{{"lossless", wantL, true}, {"compressed", wantC, false}, {"own", got, len(got) > 0 && got[0] == 1}} {
			if !faithful && in.name != "own" {
				in.b = map[string][]byte{"lossless": bl.Bytes(), "compressed": bc.Bytes()}[in.name]
			}
			var q s2.Polygon
			if err := q.Decode(bytes.NewReader(in.b)); err != nil {
				o.Fail("wire/decode-error/Polygon/"+in.name, "Decode of the %s bytes: %v (%s)", in.name, err, c15Hex(in.b))
				continue
			}
			if d := c09PolygonDiff(w.poly, &q, in.bnd); d != "" {
				o.Fail("wire/decode-value/Polygon/"+in.name, "decoded %s bytes differ from the value: %s (%s)", in.name, d, c15Hex(in.b))
			}
			if s2.VerifPolygonState(&q).HasHoles != c.Holes {
				o.Fail("wire/decode-holes/Polygon/"+in.name, "hasHoles %v, model %v", !c.Holes, c.Holes)
			}
		}
		if o.nontrivial && len(o.viols) == 0 {
			o.sample = map[string]any{"op": "wire", "type": "Polygon", "fmt": c.Fmt, "snap": c.Snap, "vertices": nv, "bytes": len(got), "hex": c15Hex(got)}
		}
		return
	}
	// all other types have one format
	got, err := wireEncode(w)
	if err != nil {
		o.Fail("wire/encode-error/"+typ, "Encode: %v", err)
		return
	}
	o.nontrivial = true
	got2, _ := wireEncode(w)
	if !bytes.Equal(got, got2) {
		o.Fail("wire/encode-twice/"+typ, "two encodings differ: %s", c09FirstDiff(got, got2))
	}
	if !bytes.Equal(got, wantL) {
		o.Fail("wire/bytes/"+typ, "Encode differs from the model's bytes: %s", c09FirstDiff(got, wantL))
	}
	rd := bytes.NewReader(wantL)
	switch typ {
	case "Loop":
		var q s2.Loop
		if err := q.Decode(rd); err != nil {
			o.Fail("wire/decode-error/Loop", "%v", err)
		} else if d := c09LoopDiff(w.loops[0], &q, true); d != "" {
			o.Fail("wire/decode-value/Loop", "%s", d)
		}
	case "Cell":
		var q s2.Cell
		var qi s2.CellID
		if err := q.Decode(rd); err != nil {
			o.Fail("wire/decode-error/Cell", "%v", err)
		} else if q != s2.CellFromCellID(w.cells[0]) {
			o.Fail("wire/decode-value/Cell", "%v vs %v", q.ID(), w.cells[0])
		}
		if err := qi.Decode(bytes.NewReader(wantL)); err != nil || qi != w.cells[0] {
			o.Fail("wire/decode-value/CellID", "%v vs %v (%v)", qi, w.cells[0], err)
		}
		var bi bytes.Buffer
		if err := w.cells[0].Encode(&bi); err != nil || !bytes.Equal(bi.Bytes(), wantL) {
			o.Fail("wire/bytes/CellID", "CellID.Encode differs: %s", c09FirstDiff(bi.Bytes(), wantL))
		}
	case "CellUnion":
		var q s2.CellUnion
		if err := q.Decode(rd); err != nil {
			o.Fail("wire/decode-error/CellUnion", "%v", err)
		} else if len(q) != len(w.cells) {
			o.Fail("wire/decode-value/CellUnion", "%v vs %v", q, w.cells)
		} else {
			for i := range q {
				if q[i] != w.cells[i] {
					o.Fail("wire/decode-value/CellUnion", "%v vs %v", q, w.cells)
					break
				}
			}
		}
	case "Polyline":
		var q s2.Polyline
		if err := q.Decode(rd); err != nil {
			o.Fail("wire/decode-error/Polyline", "%v", err)
		} else if len(q) != len(w.line) {
			o.Fail("wire/decode-value/Polyline", "%d vs %d vertices", len(q), len(w.line))
		} else {
			for i := range q {
				if pointBits(q[i]) != pointBits(w.line[i]) {
					o.Fail("wire/decode-value/Polyline", "vertex %d", i)
					break
				}
			}
		}
	case "Point":
		var q s2.Point
		if err := q.Decode(rd); err != nil || pointBits(q) != pointBits(w.pt) {
			o.Fail("wire/decode-value/Point", "%v vs %v (%v)", q, w.pt, err)
		}
	case "Cap":
		var q s2.Cap
		if err := q.Decode(rd); err != nil || q != s2.CapFromCenterChordAngle(w.capC, s1.ChordAngle(w.capR)) {
			o.Fail("wire/decode-value/Cap", "%v (%v)", q, err)
		}
	case "Rect":
		var q s2.Rect
		if err := q.Decode(rd); err != nil || rectBits(q) != rectBits(w.rect) {
			o.Fail("wire/decode-value/Rect", "%v vs %v (%v)", q, w.rect, err)
		}
	default:
		panic("opWire: unknown type " + typ)
	}
}

// ---------------------------------------------------------------------------
// op wireprim

func opWirePrim(raw json.RawMessage, o *Out) {
	var c struct {
		P   string `json:"p"`
		W   int    `json:"w"`
		Xs  []int  `json:"xs"`
		Ys  []int  `json:"ys"`
		Enc []int  `json:"enc"`
	}
	if err := json.Unmarshal(raw, &c); err != nil {
		panic(err)
	}
	o.Count("prim_" + c.P)
	switch c.P {
	case "coder":
		sh := uint(32 - c.W)
		xs := make([]int32, len(c.Xs))
		wrap := false
		for i, x := range c.Xs {
			xs[i] = int32(uint32(x) << sh)
		}
		enc := s2.VerifDerivEncode(2, xs)
		for i := range enc {
			if uint32(enc[i]) != uint32(c.Enc[i])<<sh {
				o.Fail("wireprim/coder/encode", "nthDerivativeCoder(2).encode %v << %d: output %d is %#x, model %#x (w=%d, model outputs %v)",
					c.Xs, sh, i, uint32(enc[i]), uint32(c.Enc[i])<<sh, c.W, c.Enc)
				break
			}
		}
		// wrap-around happened when the exact 2nd difference does not fit the word
		for i := range c.Xs {
			d := c.Xs[i]
			if i >= 1 {
				d -= c.Xs[i-1]
			}
			if i >= 2 {
				d -= c.Xs[i-1] - c.Xs[i-2]
			}
			if d < -(1<<uint(c.W-1)) || d >= 1<<uint(c.W-1) {
				wrap = true
			}
		}
		dec := s2.VerifDerivDecode(2, enc)
		for i := range dec {
			if dec[i] != xs[i] {
				o.Fail("wireprim/coder/decode", "decode(encode(%v << %d)) differs at %d: %#x vs %#x", c.Xs, sh, i, uint32(dec[i]), uint32(xs[i]))
				break
			}
		}
		o.nontrivial = wrap
		if wrap {
			o.Count("coder_sequences_with_wraparound")
		}
	case "zigzag":
		for i, x := range c.Xs {
			if z := s2.VerifZigzagEncode(int32(x)); z != uint32(c.Enc[i]) {
				o.Fail("wireprim/zigzag/encode", "zigzagEncode(%d) = %d, model %d", x, z, c.Enc[i])
			}
			if y := s2.VerifZigzagDecode(uint32(c.Enc[i])); y != int32(x) {
				o.Fail("wireprim/zigzag/decode", "zigzagDecode(%d) = %d, model %d", c.Enc[i], y, x)
			}
		}
		o.nontrivial = true
	case "interleave":
		x := uint32(c.Xs[0])
		for i, y := range c.Ys {
			if z := s2.VerifInterleave(x, uint32(y)); z != uint64(c.Enc[i]) {
				o.Fail("wireprim/interleave/encode", "interleaveUint32(%d,%d) = %d, model %d", x, y, z, c.Enc[i])
			}
			if a, b := s2.VerifDeinterleave(uint64(c.Enc[i])); a != x || b != uint32(y) {
				o.Fail("wireprim/interleave/decode", "deinterleaveUint32(%d) = (%d,%d), model (%d,%d)", c.Enc[i], a, b, x, y)
			}
		}
		o.nontrivial = true
	case "uvarint":
		var b [binary.MaxVarintLen64]byte
		n := binary.PutUvarint(b[:], uint64(c.Xs[0]))
		want := make([]byte, len(c.Enc))
		for i, e := range c.Enc {
			want[i] = byte(e)
		}
		if !bytes.Equal(b[:n], want) {
			o.Fail("wireprim/uvarint", "uvarint(%d) = %x, model %x", c.Xs[0], b[:n], want)
		}
		o.nontrivial = true
	default:
		panic("unknown primitive " + c.P)
	}
}

// ---------------------------------------------------------------------------
// op roundtrip: richer values from a seed

type c09Event struct {
	Tr      int      `json:"tr"`
	Ev      string   `json:"ev"`
	Type    string   `json:"type"`
	Kind    string   `json:"kind"`
	Err     string   `json:"err"`
	Fmt     string   `json:"fmt"`
	N       int      `json:"n"`       // vertices (polygons)
	Snapped int      `json:"snapped"` // vertices at the most frequent snap level
	Fp0     string   `json:"fp0"`     // fingerprint of the value: coordinates bit for bit, order, depths, flags
	Fp1     string   `json:"fp1"`     // ... of the decoded value
	Enc1    string   `json:"enc1"`    // hash of the encoding, of a second encoding, of the re-encoding of the decoded value
	Enc2    string   `json:"enc2"`
	Enc3    string   `json:"enc3"`
	Ans0    string   `json:"ans0"` // answers of the query battery before / after
	Ans1    string   `json:"ans1"`
	Keys0   [][3]int `json:"keys0"` // float keys of the bound (or of all floats of small values) before / after
	Keys1   [][3]int `json:"keys1"`
	BndEnc  bool     `json:"bndenc"` // the bound travels in the encoding (so it must come back bit for bit)
	Bfp0    string   `json:"bfp0"`   // bounds + subregion bounds of the loops whose bound travels in the encoding, before / after
	Bfp1    string   `json:"bfp1"`
	TRef    string   `json:"tref"` // what decoding the encoding from a bytes.Reader gives (hash of value and re-encoding)
	TSig    []string `json:"tsig"` // the same through each transport (plain reader / pieces of the given lengths)
	TName   []string `json:"tname"`
	RRef    string   `json:"rref"` // signature (stored state, derived counters, query answers, re-encoding) of the encoding decoded into a fresh value
	RSig    []string `json:"rsig"` // ... decoded into a receiver that already holds another decoded value of the same type
	RName   []string `json:"rname"`
	AltB0   []string `json:"altb0"` // the same for each forced polygon format
	AltB1   []string `json:"altb1"`
	AltFp   []string `json:"altfp"` // fingerprints / answers after a round trip through each forced polygon format
	AltAns  []string `json:"altans"`
	AltName []string `json:"altname"`
}

func c09Hash(b []byte) string {
	h := sha256.Sum256(b)
	return hex.EncodeToString(h[:8])
}

type c09Dump struct{ bytes.Buffer }

func (d *c09Dump) u64(x uint64) { binary.Write(&d.Buffer, binary.LittleEndian, x) }
func (d *c09Dump) f(x float64)  { d.u64(math.Float64bits(x)) }
func (d *c09Dump) pt(p s2.Point) {
	d.f(p.X)
	d.f(p.Y)
	d.f(p.Z)
}
func (d *c09Dump) b(x bool) {
	if x {
		d.WriteByte(1)
	} else {
		d.WriteByte(0)
	}
}

func c09Keys(fs ...float64) [][3]int {
	out := make([][3]int, len(fs))
	for i, f := range fs {
		out[i] = [3]int(emb.FloatKey(f))
	}
	return out
}

func rectKeys(r s2.Rect) [][3]int { return c09Keys(r.Lat.Lo, r.Lat.Hi, r.Lng.Lo, r.Lng.Hi) }

var c09Probes []s2.Point

func init() {
	rnd := rand.New(rand.NewSource(909))
	for f := 0; f < 6; f++ {
		c09Probes = append(c09Probes, s2.CellIDFromFace(f).Point())
	}
	for _, x := range []float64{-1, 1} {
		for _, y := range []float64{-1, 1} {
			for _, z := range []float64{-1, 1} {
				c09Probes = append(c09Probes, s2.PointFromCoords(x, y, z))
			}
		}
	}
	for i := 0; i < 50; i++ {
		c09Probes = append(c09Probes, s2.PointFromCoords(rnd.NormFloat64(), rnd.NormFloat64(), rnd.NormFloat64()))
	}
}

func c09LoopFp(d *c09Dump, l *s2.Loop) {
	st := s2.VerifLoopState(l)
	d.u64(uint64(len(st.Vertices)))
	for _, v := range st.Vertices {
		d.pt(v)
	}
	d.b(st.OriginInside)
	d.u64(uint64(st.Depth))
}

// c09LoopAnswers: the query battery of a loop; local probes are derived from the vertices.
func c09LoopAnswers(d *c09Dump, l *s2.Loop) {
	d.b(l.IsEmpty())
	d.b(l.IsFull())
	d.b(l.IsHole())
	d.b(l.ContainsOrigin())
	d.u64(uint64(l.NumEdges()))
	for i := 0; i < l.NumEdges() && i < 300; i++ {
		e := l.Edge(i)
		d.pt(e.V0)
		d.pt(e.V1)
	}
	for _, p := range c09Probes {
		d.b(l.ContainsPoint(p))
	}
	n := l.NumVertices()
	for i := 0; i < n && i < 40; i++ {
		a, b, c := l.Vertex(i), l.Vertex(i+1), l.Vertex(i+2)
		m := s2.Point{Vector: a.Add(b.Vector).Add(c.Vector).Normalize()}
		d.b(l.ContainsPoint(m))
		d.b(l.ContainsPoint(a))
		d.b(l.ContainsCell(s2.CellFromPoint(m)))
		d.b(l.IntersectsCell(s2.CellFromCellID(s2.CellFromPoint(a).ID().Parent(10))))
	}
	d.f(l.Area())
}

// c09Others builds a few fixed loops around loop l: a copy of l, a small loop around its centroid
// (nested inside for the ring-shaped values), a loop centred on a vertex (overlapping), a loop at the
// antipode of a vertex (disjoint), and the leaf cell at the centroid.
func c09Others(l *s2.Loop) []*s2.Loop {
	n := l.NumVertices()
	if n < 3 {
		return nil
	}
	var out []*s2.Loop
	out = append(out, s2.LoopFromPoints(append([]s2.Point(nil), l.Vertices()...)))
	edge := l.Vertex(0).Distance(l.Vertex(1))
	if edge <= 0 || edge != edge {
		return out
	}
	c := l.Centroid()
	if c.Norm2() > 0 {
		ctr := s2.Point{Vector: c.Normalize()}
		out = append(out, s2.RegularLoop(ctr, edge/20, 4), s2.LoopFromCell(s2.CellFromPoint(ctr)))
	}
	out = append(out, s2.RegularLoop(l.Vertex(0), edge*0.7, 5))
	out = append(out, s2.RegularLoop(s2.Point{Vector: l.Vertex(0).Mul(-1)}, 0.1, 4))
	return out
}

// c09LoopRelations: relation queries of a loop against the fixed other loops.
func c09LoopRelations(d *c09Dump, l *s2.Loop, others []*s2.Loop) {
	for _, o := range others {
		d.b(l.Contains(o))
		d.b(l.Intersects(o))
		d.b(o.Contains(l))
		d.b(o.Intersects(l))
	}
}

func c09PolygonFp(d *c09Dump, p *s2.Polygon) {
	st := s2.VerifPolygonState(p)
	d.u64(uint64(st.NumLoops))
	for i := 0; i < p.NumLoops(); i++ {
		c09LoopFp(d, p.Loop(i))
	}
	d.b(st.HasHoles)
	d.u64(uint64(st.NumVertices))
}

func c09PolygonAnswers(d *c09Dump, p *s2.Polygon) {
	d.b(p.IsEmpty())
	d.u64(uint64(p.NumEdges()))
	d.u64(uint64(p.NumChains()))
	for i := 0; i < p.NumEdges() && i < 300; i++ {
		e := p.Edge(i)
		d.pt(e.V0)
		d.pt(e.V1)
	}
	for i := 0; i < p.NumLoops(); i++ {
		par, ok := p.Parent(i)
		d.u64(uint64(par + 1))
		d.b(ok)
		d.u64(uint64(p.LastDescendant(i) + 1))
	}
	for _, q := range c09Probes {
		d.b(p.ContainsPoint(q))
	}
	for i := 0; i < p.NumLoops() && i < 12; i++ {
		l := p.Loop(i)
		for j := 0; j < l.NumVertices() && j < 12; j++ {
			a, b, c := l.Vertex(j), l.Vertex(j+1), l.Vertex(j+2)
			m := s2.Point{Vector: a.Add(b.Vector).Add(c.Vector).Normalize()}
			d.b(p.ContainsPoint(m))
			d.b(p.ContainsPoint(a))
			d.b(p.ContainsCell(s2.CellFromPoint(m)))
			d.b(p.IntersectsCell(s2.CellFromCellID(s2.CellFromPoint(a).ID().Parent(10))))
		}
	}
	d.f(p.Area())
	// relation queries: loops against fixed other loops, the polygon against fixed other polygons
	for i := 0; i < p.NumLoops() && i < 2; i++ {
		l := p.Loop(i)
		others := c09Others(l)
		c09LoopRelations(d, l, others)
		for _, o := range others {
			q := s2.PolygonFromLoops([]*s2.Loop{o})
			d.b(p.Contains(q))
			d.b(p.Intersects(q))
			d.b(q.Contains(p))
		}
	}
}

// c09BoundFp: bounds and subregion bounds that travel in the encoding of format lossless / compressed.
func c09BoundFp(p *s2.Polygon, lossless bool) string {
	var d c09Dump
	for i := 0; i < p.NumLoops(); i++ {
		l := p.Loop(i)
		if c09BoundStored(l, lossless) {
			st := s2.VerifLoopState(l)
			for _, r := range []s2.Rect{st.Bound, st.SubregionBound} {
				d.f(r.Lat.Lo)
				d.f(r.Lat.Hi)
				d.f(r.Lng.Lo)
				d.f(r.Lng.Hi)
			}
		}
	}
	if lossless {
		st := s2.VerifPolygonState(p)
		for _, r := range []s2.Rect{st.Bound, st.SubregionBound} {
			d.f(r.Lat.Lo)
			d.f(r.Lat.Hi)
			d.f(r.Lng.Lo)
			d.f(r.Lng.Hi)
		}
	}
	return c09Hash(d.Bytes())
}

// ---- generators --------------------------------------------------------------

// ringIJ returns the (i,j) corners of the boundary of the rectangle [i0,i1]x[j0,j1] walked
// counter-clockwise with the given step.
func ringIJ(i0, j0, i1, j1, step int) [][2]int {
	var out [][2]int
	for i := i0; i < i1; i += step {
		out = append(out, [2]int{i, j0})
	}
	for j := j0; j < j1; j += step {
		out = append(out, [2]int{i1, j})
	}
	for i := i1; i > i0; i -= step {
		out = append(out, [2]int{i, j1})
	}
	for j := j1; j > j0; j -= step {
		out = append(out, [2]int{i0, j})
	}
	return out
}

// centreRing: a rectangular ring whose vertices are centres of level-L cells of one face.
func centreRing(face, L, i0, j0, i1, j1, step int) []s2.Point {
	var pts []s2.Point
	for _, ij := range ringIJ(i0, j0, i1, j1, step) {
		pts = append(pts, emb.FromFaceIJ(face, L, ij[0], ij[1]).Point())
	}
	return pts
}

// cornerRing: a rectangular ring whose vertices are cell corners (Cell.Vertex(0)) of level-L cells.
func cornerRing(face, L, i0, j0, i1, j1, step int) []s2.Point {
	var pts []s2.Point
	size := 1 << uint(L)
	for _, ij := range ringIJ(i0, j0, i1, j1, step) {
		i, j, k := ij[0], ij[1], 0
		// corner (i,j) of the grid = vertex 0 of cell (i,j), or another vertex of the last row/column
		if i == size {
			i, k = i-1, 1
		}
		if j == size {
			j = j - 1
			if k == 1 {
				k = 2
			} else {
				k = 3
			}
		}
		pts = append(pts, s2.CellFromCellID(emb.FromFaceIJ(face, L, i, j)).Vertex(k))
	}
	return pts
}

type c09Value struct {
	typ  string
	kind string
	val  any
}

// c09Gen builds value number idx of the given kind from the seed.
func c09Gen(kind string, seed int64, idx int) c09Value {
	rnd := rand.New(rand.NewSource(seed*1000003 + int64(idx)*7919 + int64(len(kind))))
	face := idx % 6
	randPoint := func() s2.Point {
		return s2.PointFromCoords(rnd.NormFloat64(), rnd.NormFloat64(), rnd.NormFloat64())
	}
	// a window [i0,i1]x[j0,j1] of level-L cells, with margin to the face boundary unless extreme
	window := func(L, minSide, maxSide int, extreme bool) (i0, j0, i1, j1 int) {
		size := 1 << uint(L)
		if maxSide > size-1 {
			maxSide = size - 1
		}
		if minSide > maxSide {
			minSide = maxSide
		}
		w := minSide + rnd.Intn(maxSide-minSide+1)
		h := minSide + rnd.Intn(maxSide-minSide+1)
		if extreme {
			// touch the lower / upper end of the coordinate range
			switch rnd.Intn(3) {
			case 0:
				return 0, 0, w, h
			case 1:
				return size - 1 - w, size - 1 - h, size - 1, size - 1
			}
			return 0, size - 1 - h, w, size - 1
		}
		i0 = rnd.Intn(size - w)
		j0 = rnd.Intn(size - h)
		return i0, j0, i0 + w, j0 + h
	}
	mkPolygon := func(loops ...[]s2.Point) *s2.Polygon {
		ls := make([]*s2.Loop, len(loops))
		for i, pts := range loops {
			ls[i] = s2.LoopFromPoints(pts)
		}
		return s2.PolygonFromLoops(ls)
	}
	reversed := func(pts []s2.Point) []s2.Point {
		out := make([]s2.Point, len(pts))
		for i, p := range pts {
			out[len(pts)-1-i] = p
		}
		return out
	}
	switch kind {
	case "centre-ring": // all vertices centres of one level (any level 1..30): the compressed format
		L := 2 + rnd.Intn(29)
		i0, j0, i1, j1 := window(L, 1, 12, false)
		return c09Value{"Polygon", kind, mkPolygon(centreRing(face, L, i0, j0, i1, j1, 1))}
	case "centre-ring-extreme": // rings touching pi/qi = 0 and 2^L - 1, deep levels
		L := []int{1, 2, 3, 29, 30, 30, 24, 16}[rnd.Intn(8)]
		i0, j0, i1, j1 := window(L, 1, 9, true)
		return c09Value{"Polygon", kind, mkPolygon(centreRing(face, L, i0, j0, i1, j1, 1))}
	case "corner-ring": // W2 cell-vertex loops: no vertex is a centre: lossless format
		L := 1 + rnd.Intn(12)
		i0, j0, i1, j1 := window(L, 1, 10, rnd.Intn(4) == 0)
		if rnd.Intn(5) == 0 {
			i0, j0, i1, j1 = 0, 0, 1<<uint(L), 1<<uint(L) // the whole face: si/ti = 0 and 2^31
		}
		return c09Value{"Polygon", kind, mkPolygon(cornerRing(face, L, i0, j0, i1, j1, 1))}
	case "holes": // shell with a hole (and an island in the hole), centres of one level
		L := 6 + rnd.Intn(25)
		i0, j0, i1, j1 := window(L, 12, 20, false)
		ring := centreRing
		if rnd.Intn(3) == 0 {
			ring = cornerRing // no vertex is a centre: the lossless format with holes
		}
		shell := ring(face, L, i0, j0, i1, j1, 2)
		hole := reversed(ring(face, L, i0+3, j0+3, i1-3, j1-3, 1))
		loops := [][]s2.Point{shell, hole}
		if rnd.Intn(2) == 0 {
			loops = append(loops, centreRing(face, L, i0+5, j0+5, i0+7, j0+7, 1))
		}
		return c09Value{"Polygon", kind, s2.PolygonFromOrientedLoops(func() []*s2.Loop {
			var ls []*s2.Loop
			for _, pts := range loops {
				ls = append(ls, s2.LoopFromPoints(pts))
			}
			return ls
		}())}
	case "mixed": // most vertices centres of level L, some centres of other levels, some arbitrary
		L := 4 + rnd.Intn(24)
		i0, j0, i1, j1 := window(L, 2, 8, false)
		if idx%5 == 4 && L >= 8 {
			i0, j0, i1, j1 = window(L, 60, 90, false) // > 127 vertices: two-byte counts, run lengths and off-centre indices
		}
		pts := centreRing(face, L, i0, j0, i1, j1, 2)
		frac := []float64{0.1, 0.3, 0.6, 0.8, 0.95}[rnd.Intn(5)]
		for k := range pts {
			if rnd.Float64() >= frac {
				continue
			}
			id := s2.CellFromPoint(pts[k]).ID().Parent(L)
			switch rnd.Intn(3) {
			case 0: // centre of a descendant
				d := id
				for n := 1 + rnd.Intn(3); n > 0 && !d.IsLeaf(); n-- {
					d = d.Children()[rnd.Intn(4)]
				}
				pts[k] = d.Point()
			case 1: // arbitrary point of the same cell
				c := s2.CellFromCellID(id)
				a, b := rnd.Float64(), rnd.Float64()
				v := c.Vertex(0).Mul(a * b).Add(c.Vertex(1).Mul((1 - a) * b)).Add(c.Vertex(2).Mul((1 - a) * (1 - b))).Add(c.Vertex(3).Mul(a * (1 - b)))
				pts[k] = s2.Point{Vector: v.Add(pts[k].Vector).Normalize()}
			case 2: // one ulp off the centre
				pts[k].X = math.Nextafter(pts[k].X, 2)
			}
		}
		return c09Value{"Polygon", kind, mkPolygon(pts)}
	case "faces": // vertices on several faces: centres of level-L cells along a circle around a cube corner / edge
		L := 8 + rnd.Intn(23)
		centres := []s2.Point{s2.PointFromCoords(1, 1, 1), s2.PointFromCoords(-1, 1, 1), s2.PointFromCoords(1, 1, 0), s2.PointFromCoords(0, -1, -1), s2.PointFromCoords(-1, -1, 1)}
		n := 5 + rnd.Intn(70)
		if idx%4 == 3 {
			n = 130 + rnd.Intn(200)
		}
		reg := s2.RegularLoop(centres[rnd.Intn(len(centres))], s1.Angle(0.2+rnd.Float64()), n)
		pts := make([]s2.Point, n)
		for i := 0; i < n; i++ {
			pts[i] = s2.CellFromPoint(reg.Vertex(i)).ID().Parent(L).Point()
		}
		return c09Value{"Polygon", kind, mkPolygon(pts)}
	case "multi": // several shells on different faces, different sizes (one of >= 64 vertices now and then)
		L := 5 + rnd.Intn(26)
		var loops [][]s2.Point
		for f := 0; f < 6; f++ {
			if rnd.Intn(3) == 0 && len(loops) > 0 {
				continue
			}
			side := 1 + rnd.Intn(6)
			if rnd.Intn(4) == 0 {
				side = 17 + rnd.Intn(4)
			}
			i0, j0, i1, j1 := window(L, side, side, false)
			ring := centreRing(f, L, i0, j0, i1, j1, 1)
			if rnd.Intn(3) == 0 {
				ring = cornerRing(f, L, i0, j0, i1, j1, 1)
			}
			loops = append(loops, ring)
		}
		return c09Value{"Polygon", kind, mkPolygon(loops...)}
	case "many-loops": // more than 12 loops (the polygon keeps a cumulative edge table), on all faces
		L := 6 + rnd.Intn(25)
		var loops [][]s2.Point
		n := 13 + rnd.Intn(20)
		size := 1 << uint(L)
		for k := 0; k < n; k++ {
			// disjoint windows: cell (k mod 6) face, column block by k/6
			f := k % 6
			blk := k / 6
			i0 := (blk*9 + 1) % (size - 8)
			j0 := 1 + rnd.Intn(size-8)
			side := 1 + rnd.Intn(5)
			if i0+side >= size || j0+side >= size {
				continue
			}
			if rnd.Intn(4) == 0 {
				loops = append(loops, cornerRing(f, L, i0, j0, i0+side, j0+side, 1))
			} else {
				loops = append(loops, centreRing(f, L, i0, j0, i0+side, j0+side, 1))
			}
		}
		return c09Value{"Polygon", kind, mkPolygon(loops...)}
	case "special-polygon":
		switch idx % 4 {
		case 0:
			return c09Value{"Polygon", kind, s2.PolygonFromLoops(nil)}
		case 1:
			return c09Value{"Polygon", kind, s2.FullPolygon()}
		case 2:
			return c09Value{"Polygon", kind, s2.PolygonFromCell(s2.CellFromCellID(s2.CellFromPoint(randPoint()).ID().Parent(rnd.Intn(31))))}
		}
		return c09Value{"Polygon", kind, mkPolygon(s2.RegularLoop(randPoint(), s1.Angle(0.01+rnd.Float64()), 3+rnd.Intn(80)).Vertices())}
	case "loop":
		switch idx % 5 {
		case 0:
			return c09Value{"Loop", kind, s2.EmptyLoop()}
		case 1:
			return c09Value{"Loop", kind, s2.FullLoop()}
		case 2:
			L := 1 + rnd.Intn(30)
			i0, j0, i1, j1 := window(L, 1, 9, false)
			return c09Value{"Loop", kind, s2.LoopFromPoints(centreRing(face, L, i0, j0, i1, j1, 1))}
		case 3:
			l := s2.RegularLoop(randPoint(), s1.Angle(0.01+2*rnd.Float64()), 3+rnd.Intn(100))
			if rnd.Intn(2) == 0 {
				l.Invert()
			}
			return c09Value{"Loop", kind, l}
		}
		return c09Value{"Loop", kind, s2.LoopFromCell(s2.CellFromCellID(s2.CellFromPoint(randPoint()).ID().Parent(rnd.Intn(31))))}
	case "long-stream": // encodings longer than one and two 4096-byte I/O buffers: 200-600 vertices that are no cell centres
		n := 200 + rnd.Intn(401)
		switch idx % 4 {
		case 0:
			pl := make(s2.Polyline, n)
			for i := range pl {
				pl[i] = randPoint()
			}
			return c09Value{"Polyline", kind, &pl}
		case 1:
			return c09Value{"Loop", kind, s2.RegularLoop(randPoint(), s1.Angle(0.05+rnd.Float64()), n)}
		case 2: // W2 cell-vertex ring: the lossless polygon format
			L := 8 + rnd.Intn(8)
			side := n / 4
			i0, j0, i1, j1 := window(L, side, side, false)
			return c09Value{"Polygon", kind, mkPolygon(cornerRing(face, L, i0, j0, i1, j1, 1))}
		}
		// compressed format with a long off-centre list (a third of the vertices are no centres)
		L := 10 + rnd.Intn(18)
		side := n / 4
		i0, j0, i1, j1 := window(L, side, side, false)
		pts := centreRing(face, L, i0, j0, i1, j1, 1)
		for k := range pts {
			if k%3 == 0 {
				pts[k].X = math.Nextafter(pts[k].X, 2)
			}
		}
		return c09Value{"Polygon", kind, mkPolygon(pts)}
	case "polyline":
		n := []int{0, 1, 2, 3, 17, 100}[rnd.Intn(6)]
		pl := make(s2.Polyline, n)
		for i := range pl {
			if idx%2 == 0 {
				pl[i] = randPoint()
			} else {
				pl[i] = s2.CellFromPoint(randPoint()).ID().Parent(rnd.Intn(31)).Point()
			}
		}
		return c09Value{"Polyline", kind, &pl}
	case "point":
		switch idx % 4 {
		case 0:
			return c09Value{"Point", kind, randPoint()}
		case 1:
			return c09Value{"Point", kind, s2.CellFromPoint(randPoint()).ID().Parent(rnd.Intn(31)).Point()}
		case 2:
			return c09Value{"Point", kind, s2.Point{Vector: r3.Vector{X: math.Copysign(0, -1), Y: 5e-324, Z: -1}}}
		}
		return c09Value{"Point", kind, s2.OriginPoint()}
	case "cap":
		switch idx % 6 {
		case 0:
			return c09Value{"Cap", kind, s2.EmptyCap()}
		case 1:
			return c09Value{"Cap", kind, s2.FullCap()}
		case 2:
			return c09Value{"Cap", kind, s2.CapFromPoint(randPoint())}
		case 3:
			return c09Value{"Cap", kind, s2.CapFromCenterAngle(randPoint(), s1.Angle(rnd.Float64()*math.Pi))}
		case 4:
			return c09Value{"Cap", kind, s2.CapFromCenterHeight(randPoint(), 2*rnd.Float64())}
		}
		return c09Value{"Cap", kind, s2.CapFromCenterChordAngle(randPoint(), s1.ChordAngle(4*rnd.Float64()))}
	case "rect":
		switch idx % 6 {
		case 4: // a point on the antimeridian whose longitude is exactly -Pi (atan2(-0, -x)): the library's own
			// constructors keep -Pi there, and the wire form has to give the same bits back
			z := 2*rnd.Float64() - 1
			if idx%12 == 4 {
				return c09Value{"Rect", kind, s2.RectFromLatLng(s2.LatLngFromPoint(s2.Point{Vector: r3.Vector{X: -1, Y: math.Copysign(0, -1), Z: z}}))}
			}
			return c09Value{"Rect", kind, s2.RectFromLatLng(s2.LatLng{Lat: s1.Angle(z * math.Pi / 2), Lng: -math.Pi})}
		case 0:
			return c09Value{"Rect", kind, s2.EmptyRect()}
		case 1:
			return c09Value{"Rect", kind, s2.FullRect()}
		case 2:
			return c09Value{"Rect", kind, s2.RectFromLatLng(s2.LatLngFromPoint(randPoint()))}
		case 3: // inverted longitude interval
			a, b := s2.LatLngFromDegrees(-10-70*rnd.Float64(), 100+79*rnd.Float64()), s2.LatLngFromDegrees(80*rnd.Float64(), -100-79*rnd.Float64())
			return c09Value{"Rect", kind, s2.RectFromLatLng(a).AddPoint(b)}
		}
		return c09Value{"Rect", kind, s2.RectFromCenterSize(s2.LatLngFromPoint(randPoint()), s2.LatLngFromDegrees(90*rnd.Float64(), 360*rnd.Float64()))}
	case "cellid":
		var id s2.CellID
		switch idx % 4 {
		case 0:
			id = s2.CellIDFromFace(face)
		case 1:
			id = s2.CellFromPoint(randPoint()).ID() // leaf
		case 2:
			id = emb.RawID(face, func() []int {
				p := make([]int, rnd.Intn(31))
				for i := range p {
					p[i] = 3 * rnd.Intn(2)
				}
				return p
			}())
		default:
			id = s2.CellFromPoint(randPoint()).ID().Parent(rnd.Intn(31))
		}
		if idx%2 == 0 {
			return c09Value{"CellID", kind, id}
		}
		return c09Value{"Cell", kind, s2.CellFromCellID(id)}
	case "cellunion":
		n := []int{0, 1, 2, 5, 40, 300}[rnd.Intn(6)]
		cu := make(s2.CellUnion, n)
		for i := range cu {
			cu[i] = s2.CellFromPoint(randPoint()).ID().Parent(rnd.Intn(31))
		}
		switch idx % 3 {
		case 0:
			cu.Normalize()
		case 1: // not normalised, not sorted, with duplicates
			if n > 1 {
				cu[n-1] = cu[0]
			}
		default:
			cu = s2.CellUnionFromRange(s2.CellFromPoint(randPoint()).ID().Parent(20+rnd.Intn(11)).RangeMin(), s2.CellIDFromFace(5).RangeMax().Next())
		}
		return c09Value{"CellUnion", kind, &cu}
	}
	panic("unknown roundtrip kind " + kind)
}

// c09Pieces is a reader that delivers its data in pieces of the given lengths (cyclically); it has
// no ReadByte, so Decode puts a bufio.Reader in front of it.
type c09Pieces struct {
	data []byte
	pat  []int
	pos  int
	k    int
}

func (p *c09Pieces) Read(b []byte) (int, error) {
	if p.pos >= len(p.data) {
		return 0, io.EOF
	}
	n := p.pat[p.k%len(p.pat)]
	p.k++
	if n > len(b) {
		n = len(b)
	}
	if n > len(p.data)-p.pos {
		n = len(p.data) - p.pos
	}
	copy(b, p.data[p.pos:p.pos+n])
	p.pos += n
	return n, nil
}

// c09PiecesByte is the same stream presented as an io.ByteReader: the decoder reads it directly.
type c09PiecesByte struct{ c09Pieces }

func (p *c09PiecesByte) ReadByte() (byte, error) {
	if p.pos >= len(p.data) {
		return 0, io.EOF
	}
	p.pos++
	return p.data[p.pos-1], nil
}

func c09EncodeAny(val any) ([]byte, error) {
	var buf bytes.Buffer
	var err error
	switch x := val.(type) {
	case *s2.Polygon:
		err = x.Encode(&buf)
	case *s2.Loop:
		err = x.Encode(&buf)
	case *s2.Polyline:
		err = x.Encode(&buf)
	case *s2.CellUnion:
		err = x.Encode(&buf)
	case s2.Point:
		err = x.Encode(&buf)
	case s2.Cap:
		err = x.Encode(&buf)
	case s2.Rect:
		err = x.Encode(&buf)
	case s2.CellID:
		err = x.Encode(&buf)
	case s2.Cell:
		err = x.Encode(&buf)
	default:
		panic(fmt.Sprintf("c09EncodeAny: %T", val))
	}
	return buf.Bytes(), err
}

// c09DecodeSig decodes a value of the given type from r and returns a signature of the outcome:
// "ERR" or the hash of the value's stored state together with the hash of its re-encoding.
func c09DecodeSig(typ string, r io.Reader) string {
	var d c09Dump
	var val any
	var err error
	switch typ {
	case "Polygon":
		q := new(s2.Polygon)
		if err = q.Decode(r); err == nil {
			c09PolygonFp(&d, q)
			d.WriteString(c09BoundFp(q, true))
		}
		val = q
	case "Loop":
		q := new(s2.Loop)
		if err = q.Decode(r); err == nil {
			c09LoopFp(&d, q)
		}
		val = q
	case "Polyline":
		q := new(s2.Polyline)
		if err = q.Decode(r); err == nil {
			for _, v := range *q {
				d.pt(v)
			}
		}
		val = q
	case "CellUnion":
		q := new(s2.CellUnion)
		err = q.Decode(r)
		val = q
	case "Point":
		var q s2.Point
		err = q.Decode(r)
		val = q
	case "Cap":
		var q s2.Cap
		err = q.Decode(r)
		val = q
	case "Rect":
		var q s2.Rect
		err = q.Decode(r)
		val = q
	case "CellID":
		var q s2.CellID
		err = q.Decode(r)
		val = q
	case "Cell":
		var q s2.Cell
		err = q.Decode(r)
		val = q
	default:
		panic("c09DecodeSig: " + typ)
	}
	if err != nil {
		return "ERR"
	}
	enc, err := c09EncodeAny(val)
	if err != nil {
		return "ERR(re-encode)"
	}
	return c09Hash(d.Bytes()) + "/" + c09Hash(enc)
}

// c09Prev picks the value a receiver holds before the value under test is decoded into it: a value
// of the same type of the given class (empty, full, small, lossless, large, many, holes, other).
func c09Prev(v c09Value, class string, seed int64, idx int) (c09Value, bool) {
	same := func(kind string, from int) (c09Value, bool) {
		for j := from; j < from+12; j++ {
			if pv := c09Gen(kind, seed+1, j); pv.typ == v.typ {
				return pv, true
			}
		}
		return c09Value{}, false
	}
	switch v.typ {
	case "Polygon":
		switch class {
		case "empty":
			return c09Value{"Polygon", class, s2.PolygonFromLoops(nil)}, true
		case "full":
			return c09Value{"Polygon", class, s2.FullPolygon()}, true
		case "small":
			return same("centre-ring", idx)
		case "lossless":
			return same("corner-ring", idx)
		case "large":
			return same("faces", idx|3)
		case "many":
			return same("many-loops", idx)
		case "holes":
			return same("holes", idx)
		}
		return same("mixed", idx)
	case "Loop":
		switch class {
		case "empty":
			return c09Value{"Loop", class, s2.EmptyLoop()}, true
		case "full":
			return c09Value{"Loop", class, s2.FullLoop()}, true
		case "large":
			return same("long-stream", idx)
		}
		return same("loop", idx+2)
	case "Polyline":
		if class == "empty" {
			return c09Value{"Polyline", class, &s2.Polyline{}}, true
		}
		if class == "large" {
			return same("long-stream", idx)
		}
		return same("polyline", idx+1)
	case "CellUnion":
		if class == "empty" {
			return c09Value{"CellUnion", class, &s2.CellUnion{}}, true
		}
		return same("cellunion", idx+1)
	case "Cap":
		switch class {
		case "empty":
			return c09Value{"Cap", class, s2.EmptyCap()}, true
		case "full":
			return c09Value{"Cap", class, s2.FullCap()}, true
		}
		return same("cap", idx+1)
	case "Rect":
		switch class {
		case "empty":
			return c09Value{"Rect", class, s2.EmptyRect()}, true
		case "full":
			return c09Value{"Rect", class, s2.FullRect()}, true
		}
		return same("rect", idx+1)
	case "Point":
		return same("point", idx+1)
	case "CellID", "Cell":
		return same("cellid", idx+1)
	}
	return c09Value{}, false
}

// c09ReceiverSig decodes prev (if any) and then enc into ONE receiver and returns a signature of
// the value the receiver then holds: stored state, derived counters, the query battery and the
// re-encoding.  A panic of the library is part of the signature (the value is not touched again:
// the panic may have happened with the index lock held).
func c09ReceiverSig(typ string, prev, enc []byte) (sig string) {
	defer func() {
		if r := recover(); r != nil {
			msg := fmt.Sprint(r)
			if len(msg) > 120 {
				msg = msg[:120]
			}
			sig = "PANIC(" + msg + ")"
		}
	}()
	var d c09Dump
	dec := func(f func(io.Reader) error) bool {
		if prev != nil {
			if err := f(bytes.NewReader(prev)); err != nil {
				sig = "ERR(previous value): " + err.Error()
				return false
			}
		}
		if err := f(bytes.NewReader(enc)); err != nil {
			sig = "ERR"
			return false
		}
		return true
	}
	var val any
	switch typ {
	case "Polygon":
		q := new(s2.Polygon)
		if !dec(q.Decode) {
			return sig
		}
		c09PolygonFp(&d, q)
		st := s2.VerifPolygonState(q)
		d.u64(uint64(st.NumEdges))
		d.u64(uint64(q.NumEdges()))
		for _, ce := range st.CumulativeEdges {
			d.u64(uint64(ce))
		}
		d.WriteString(c09BoundFp(q, true))
		c09PolygonAnswers(&d, q)
		val = q
	case "Loop":
		q := new(s2.Loop)
		if !dec(q.Decode) {
			return sig
		}
		c09LoopFp(&d, q)
		st := s2.VerifLoopState(q)
		for _, r := range []s2.Rect{st.Bound, st.SubregionBound} {
			d.f(r.Lat.Lo)
			d.f(r.Lat.Hi)
			d.f(r.Lng.Lo)
			d.f(r.Lng.Hi)
		}
		c09LoopAnswers(&d, q)
		val = q
	case "Polyline":
		q := new(s2.Polyline)
		if !dec(q.Decode) {
			return sig
		}
		d.u64(uint64(len(*q)))
		for _, v := range *q {
			d.pt(v)
		}
		d.u64(uint64(q.NumEdges()))
		val = q
	case "CellUnion":
		q := new(s2.CellUnion)
		if !dec(q.Decode) {
			return sig
		}
		d.u64(uint64(len(*q)))
		for _, id := range *q {
			d.u64(uint64(id))
		}
		val = q
	case "Point":
		var q s2.Point
		if !dec(q.Decode) {
			return sig
		}
		val = q
	case "Cap":
		var q s2.Cap
		if !dec(q.Decode) {
			return sig
		}
		d.f(q.Height())
		val = q
	case "Rect":
		var q s2.Rect
		if !dec(q.Decode) {
			return sig
		}
		val = q
	case "CellID":
		var q s2.CellID
		if !dec(q.Decode) {
			return sig
		}
		val = q
	case "Cell":
		var q s2.Cell
		if !dec(q.Decode) {
			return sig
		}
		for k := 0; k < 4; k++ {
			d.pt(q.Vertex(k))
		}
		d.u64(uint64(q.Level()))
		val = q
	default:
		panic("c09ReceiverSig: " + typ)
	}
	out, err := c09EncodeAny(val)
	if err != nil {
		return "ERR(re-encode)"
	}
	return c09Hash(d.Bytes()) + "/" + c09Hash(out)
}

var c09TraceMu sync.Mutex

func opRoundTrip(raw json.RawMessage, o *Out) {
	var c struct {
		Kind string `json:"kind"`
		Seed int64  `json:"seed"`
		I    int    `json:"i"`
		Tr   int    `json:"tr"`
		Tp   []struct {
			Mode string `json:"mode"`
			Pat  []int  `json:"pat"`
		} `json:"tp"`
		Rc []string `json:"rc"`
	}
	if err := json.Unmarshal(raw, &c); err != nil {
		panic(err)
	}
	v := c09Gen(c.Kind, c.Seed, c.I)
	ev := c09Observe(v)
	ev.Tr = c.Tr
	// transports: the same encoding must decode to the same value however the reader delivers it
	if enc, err := c09EncodeAny(v.val); err == nil && ev.Err == "" {
		ev.TRef = c09DecodeSig(v.typ, bytes.NewReader(enc))
		for _, t := range c.Tp {
			var r io.Reader
			switch t.Mode {
			case "plain":
				r = &c09Pieces{data: enc, pat: t.Pat}
			case "byte":
				r = &c09PiecesByte{c09Pieces{data: enc, pat: t.Pat}}
			default:
				panic("unknown transport mode " + t.Mode)
			}
			ev.TName = append(ev.TName, fmt.Sprintf("%s%v", t.Mode, t.Pat))
			ev.TSig = append(ev.TSig, c09DecodeSig(v.typ, r))
		}
		if len(enc) > 4096 {
			o.Count("transport_encodings_longer_than_4KB")
		}
		if len(enc) > 8192 {
			o.Count("transport_encodings_longer_than_8KB")
		}
		o.CountN("transport_decodes", len(c.Tp))
		// receivers: Decode is a function of the bytes alone, not of what the receiver held before
		if len(c.Rc) > 0 {
			ev.RRef = c09ReceiverSig(v.typ, nil, enc)
		}
		for _, cl := range c.Rc {
			prev, ok := c09Prev(v, cl, c.Seed, c.I)
			if !ok {
				continue
			}
			penc, err := c09EncodeAny(prev.val)
			if err != nil {
				continue
			}
			ev.RName = append(ev.RName, cl)
			ev.RSig = append(ev.RSig, c09ReceiverSig(v.typ, penc, enc))
			o.Count("receiver_decodes")
		}
	}
	o.Count("roundtrip_" + v.typ)
	o.Count("roundtrip_fmt_" + ev.Fmt)
	o.nontrivial = true
	k := "roundtrip/" + v.typ + "/" + c.Kind + "/"
	if ev.Fmt == "compressed" || ev.Fmt == "lossless" {
		k = "roundtrip/" + v.typ + "/" + ev.Fmt + "/" + c.Kind + "/"
	}
	in := fmt.Sprintf("%s value %s#%d (seed %d)", v.typ, c.Kind, c.I, c.Seed)
	switch {
	case ev.Err != "":
		o.Fail(k+"error", "%s: %s", in, ev.Err)
	default:
		if ev.Fp0 != ev.Fp1 {
			o.Fail(k+"value", "%s: decode(encode(v)) differs from v (coordinates / order / depths / flags): %s", in, c09Explain(v))
		}
		if ev.Enc1 != ev.Enc2 {
			o.Fail(k+"encode-twice", "%s: two encodings of the same value differ", in)
		}
		if ev.Enc1 != ev.Enc3 {
			o.Fail(k+"re-encode", "%s: the decoded value encodes to different bytes", in)
		}
		if ev.Ans0 != ev.Ans1 {
			o.Fail(k+"answers", "%s: query answers differ after the round trip", in)
		}
		if ev.BndEnc && fmt.Sprint(ev.Keys0) != fmt.Sprint(ev.Keys1) {
			o.Fail(k+"bound", "%s: encoded bound / floats differ after the round trip: %v vs %v", in, ev.Keys0, ev.Keys1)
		} else if fmt.Sprint(ev.Keys0) != fmt.Sprint(ev.Keys1) {
			o.Count("recomputed_bound_differs_from_original")
		}
		for i := range ev.TSig {
			if ev.TSig[i] != ev.TRef {
				mode := "plain"
				if len(ev.TName[i]) > 4 && ev.TName[i][:4] == "byte" {
					mode = "byte"
				}
				o.Fail("roundtrip/"+v.typ+"/transport/"+mode, "%s: decoding the same encoding through transport %s gives %s, from a bytes.Reader %s",
					in, ev.TName[i], ev.TSig[i], ev.TRef)
			}
		}
		for i := range ev.RSig {
			if ev.RSig[i] != ev.RRef {
				o.Fail("roundtrip/"+v.typ+"/receiver/"+ev.RName[i], "%s: decoding the encoding into a receiver that holds a previously decoded %s value gives %s, into a fresh value %s",
					in, ev.RName[i], ev.RSig[i], ev.RRef)
			}
		}
		if ev.Bfp0 != ev.Bfp1 {
			o.Fail(k+"stored-bound", "%s: a loop bound that travels in the encoding (or the subregion bound derived from it) differs after the round trip", in)
		}
		for i := range ev.AltFp {
			if ev.AltB0[i] != ev.AltB1[i] {
				o.Fail("roundtrip/"+v.typ+"/"+ev.AltName[i]+"/"+c.Kind+"/stored-bound", "%s: round trip through the forced %s format changes a stored loop bound / subregion bound", in, ev.AltName[i])
			}
			if ev.AltFp[i] != ev.Fp0 {
				o.Fail("roundtrip/"+v.typ+"/"+ev.AltName[i]+"/"+c.Kind+"/value", "%s: round trip through the forced %s format changes the value", in, ev.AltName[i])
			}
			if ev.AltAns[i] != ev.Ans0 {
				o.Fail("roundtrip/"+v.typ+"/"+ev.AltName[i]+"/"+c.Kind+"/answers", "%s: round trip through the forced %s format changes query answers", in, ev.AltName[i])
			}
		}
		if v.typ == "Polygon" {
			want := "lossless"
			if ev.N == 0 || 4*ev.N+26*(ev.N-ev.Snapped) < 24*ev.N {
				want = "compressed"
			}
			if ev.Fmt != want {
				o.Fail("roundtrip/Polygon/format-choice/"+c.Kind, "%s: %d vertices, %d at the most frequent level: encoder chose %s, rule says %s", in, ev.N, ev.Snapped, ev.Fmt, want)
			}
		}
	}
	if len(o.viols) > 0 {
		o.Count("roundtrip_values_failed")
	}
	if path := os.Getenv("VERIF_C09_TRACE"); path != "" {
		b, _ := json.Marshal(ev)
		c09TraceMu.Lock()
		f, err := os.OpenFile(path, os.O_APPEND|os.O_CREATE|os.O_WRONLY, 0o644)
		if err != nil {
			panic(err)
		}
		f.Write(append(b, '\n'))
		f.Close()
		c09TraceMu.Unlock()
	}
	if len(o.viols) == 0 && c.I%7 == 0 {
		o.sample = map[string]any{"op": "roundtrip", "type": v.typ, "kind": c.Kind, "fmt": ev.Fmt, "vertices": ev.N, "snapped": ev.Snapped, "fp": ev.Fp0, "enc": ev.Enc1}
	}
}

// c09Explain gives a readable first difference for polygons and loops.
func c09Explain(v c09Value) string {
	switch x := v.val.(type) {
	case *s2.Polygon:
		var buf bytes.Buffer
		x.Encode(&buf)
		var q s2.Polygon
		if err := q.Decode(bytes.NewReader(buf.Bytes())); err != nil {
			return err.Error()
		}
		return c09PolygonDiff(x, &q, buf.Len() > 0 && buf.Bytes()[0] == 1) + " enc=" + c15Hex(buf.Bytes())
	case *s2.Loop:
		var buf bytes.Buffer
		x.Encode(&buf)
		var q s2.Loop
		if err := q.Decode(bytes.NewReader(buf.Bytes())); err != nil {
			return err.Error()
		}
		return c09LoopDiff(x, &q, false)
	}
	return ""
}

type c09Codec struct {
	enc func() ([]byte, error)
	dec func(b []byte) (fp, ans string, keys [][3]int, reenc []byte, err error)
}

// c09Observe performs the round trip and records what was seen (no judgement here).
func c09Observe(v c09Value) (ev c09Event) {
	ev = c09Event{Ev: "RoundTrip", Type: v.typ, Kind: v.kind, Fmt: "-", AltFp: []string{}, AltAns: []string{}, AltName: []string{}, AltB0: []string{}, AltB1: []string{}, TSig: []string{}, TName: []string{}, RSig: []string{}, RName: []string{}, Keys0: [][3]int{}, Keys1: [][3]int{}}
	fail := func(format string, a ...any) c09Event {
		ev.Err = fmt.Sprintf(format, a...)
		return ev
	}
	var buf, buf2, buf3 bytes.Buffer
	switch x := v.val.(type) {
	case *s2.Polygon:
		obs := func(p *s2.Polygon) (string, string, [][3]int) {
			var d, a c09Dump
			c09PolygonFp(&d, p)
			c09PolygonAnswers(&a, p)
			return c09Hash(d.Bytes()), c09Hash(a.Bytes()), rectKeys(s2.VerifPolygonState(p).Bound)
		}
		ev.Fp0, ev.Ans0, ev.Keys0 = obs(x)
		if err := x.Encode(&buf); err != nil {
			return fail("Encode: %v", err)
		}
		x.Encode(&buf2)
		ev.Fmt = "lossless"
		if buf.Bytes()[0] == 4 {
			ev.Fmt = "compressed"
		}
		ev.BndEnc = ev.Fmt == "lossless"
		// histogram of snap levels (input of the choice rule)
		hist := map[int]int{}
		best := -1
		for i := 0; i < x.NumLoops(); i++ {
			for _, p := range x.Loop(i).Vertices() {
				ev.N++
				_, _, _, lv := s2.VerifXYZToFaceSiTi(p)
				if lv >= 0 {
					hist[lv]++
					if hist[lv] > ev.Snapped {
						ev.Snapped, best = hist[lv], lv
					}
				}
			}
		}
		var q s2.Polygon
		if err := q.Decode(bytes.NewReader(buf.Bytes())); err != nil {
			return fail("Decode: %v", err)
		}
		ev.Fp1, ev.Ans1, ev.Keys1 = obs(&q)
		ev.Bfp0, ev.Bfp1 = c09BoundFp(x, ev.Fmt == "lossless"), c09BoundFp(&q, ev.Fmt == "lossless")
		if err := q.Encode(&buf3); err != nil {
			return fail("re-Encode: %v", err)
		}
		// both formats, whichever the encoder selects
		levels := []int{0, 30}
		if best >= 0 {
			levels = append(levels, best)
		}
		var bl bytes.Buffer
		if err := s2.VerifPolygonEncodeLossless(x, &bl); err != nil {
			return fail("encodeLossless: %v", err)
		}
		alts := []struct {
			name string
			b    []byte
		}{{"lossless-forced", bl.Bytes()}}
		for _, lv := range levels {
			var bc bytes.Buffer
			if err := s2.VerifPolygonEncodeCompressed(x, &bc, lv); err != nil {
				return fail("encodeCompressed(%d): %v", lv, err)
			}
			alts = append(alts, struct {
				name string
				b    []byte
			}{fmt.Sprintf("compressed-forced-%d", lv), bc.Bytes()})
		}
		for _, a := range alts {
			var r s2.Polygon
			if err := r.Decode(bytes.NewReader(a.b)); err != nil {
				return fail("Decode of the %s encoding: %v", a.name, err)
			}
			fp, ans, _ := obs(&r)
			name := a.name
			if len(name) > 17 {
				name = "compressed-forced"
			}
			ev.AltName = append(ev.AltName, name)
			ev.AltFp = append(ev.AltFp, fp)
			ev.AltAns = append(ev.AltAns, ans)
			ev.AltB0 = append(ev.AltB0, c09BoundFp(x, name == "lossless-forced"))
			ev.AltB1 = append(ev.AltB1, c09BoundFp(&r, name == "lossless-forced"))
		}
	case *s2.Loop:
		obs := func(l *s2.Loop) (string, string, [][3]int) {
			var d, a c09Dump
			c09LoopFp(&d, l)
			c09LoopAnswers(&a, l)
			st := s2.VerifLoopState(l)
			return c09Hash(d.Bytes()), c09Hash(a.Bytes()), append(rectKeys(st.Bound), rectKeys(st.SubregionBound)...)
		}
		ev.Fp0, ev.Ans0, ev.Keys0 = obs(x)
		ev.BndEnc = true
		ev.N = x.NumVertices()
		if err := x.Encode(&buf); err != nil {
			return fail("Encode: %v", err)
		}
		x.Encode(&buf2)
		var q s2.Loop
		if err := q.Decode(bytes.NewReader(buf.Bytes())); err != nil {
			return fail("Decode: %v", err)
		}
		ev.Fp1, ev.Ans1, ev.Keys1 = obs(&q)
		q.Encode(&buf3)
	case *s2.Polyline:
		obs := func(p *s2.Polyline) (string, string, [][3]int) {
			var d, a c09Dump
			d.u64(uint64(len(*p)))
			for _, v := range *p {
				d.pt(v)
			}
			a.u64(uint64(p.NumEdges()))
			a.f(float64(p.Length()))
			if len(*p) > 0 {
				r := p.RectBound()
				return c09Hash(d.Bytes()), c09Hash(a.Bytes()), rectKeys(r)
			}
			return c09Hash(d.Bytes()), c09Hash(a.Bytes()), [][3]int{}
		}
		ev.Fp0, ev.Ans0, ev.Keys0 = obs(x)
		ev.BndEnc = true
		ev.N = len(*x)
		if err := x.Encode(&buf); err != nil {
			return fail("Encode: %v", err)
		}
		x.Encode(&buf2)
		var q s2.Polyline
		if err := q.Decode(bytes.NewReader(buf.Bytes())); err != nil {
			return fail("Decode: %v", err)
		}
		ev.Fp1, ev.Ans1, ev.Keys1 = obs(&q)
		q.Encode(&buf3)
	case s2.Point:
		ev.BndEnc = true
		ev.Keys0 = c09Keys(x.X, x.Y, x.Z)
		ev.Fp0 = fmt.Sprint(pointBits(x))
		if err := x.Encode(&buf); err != nil {
			return fail("Encode: %v", err)
		}
		x.Encode(&buf2)
		var q s2.Point
		if err := q.Decode(bytes.NewReader(buf.Bytes())); err != nil {
			return fail("Decode: %v", err)
		}
		ev.Keys1 = c09Keys(q.X, q.Y, q.Z)
		ev.Fp1 = fmt.Sprint(pointBits(q))
		q.Encode(&buf3)
	case s2.Cap:
		ev.BndEnc = true
		obs := func(c s2.Cap) (string, string, [][3]int) {
			var a c09Dump
			for _, p := range c09Probes {
				a.b(c.ContainsPoint(p))
			}
			a.b(c.IsEmpty())
			a.b(c.IsFull())
			ctr := c.Center()
			return fmt.Sprintf("%v/%x", pointBits(ctr), math.Float64bits(float64(c.Radius()))), c09Hash(a.Bytes()),
				c09Keys(ctr.X, ctr.Y, ctr.Z, float64(c.Radius()), c.Height())
		}
		ev.Fp0, ev.Ans0, ev.Keys0 = obs(x)
		if err := x.Encode(&buf); err != nil {
			return fail("Encode: %v", err)
		}
		x.Encode(&buf2)
		var q s2.Cap
		if err := q.Decode(bytes.NewReader(buf.Bytes())); err != nil {
			return fail("Decode: %v", err)
		}
		ev.Fp1, ev.Ans1, ev.Keys1 = obs(q)
		if q != x {
			ev.Fp1 += "(struct differs)"
		}
		q.Encode(&buf3)
	case s2.Rect:
		ev.BndEnc = true
		obs := func(r s2.Rect) (string, string, [][3]int) {
			var a c09Dump
			for _, p := range c09Probes {
				a.b(r.ContainsPoint(p))
			}
			a.b(r.IsEmpty())
			a.b(r.IsFull())
			a.b(r.Lng.IsInverted())
			return fmt.Sprint(rectBits(r)), c09Hash(a.Bytes()), rectKeys(r)
		}
		ev.Fp0, ev.Ans0, ev.Keys0 = obs(x)
		if err := x.Encode(&buf); err != nil {
			return fail("Encode: %v", err)
		}
		x.Encode(&buf2)
		var q s2.Rect
		if err := q.Decode(bytes.NewReader(buf.Bytes())); err != nil {
			return fail("Decode: %v", err)
		}
		ev.Fp1, ev.Ans1, ev.Keys1 = obs(q)
		q.Encode(&buf3)
	case s2.CellID:
		ev.Fp0 = fmt.Sprintf("%016x", uint64(x))
		ev.Ans0 = fmt.Sprint(x.Level(), x.Face(), x.ToToken())
		if err := x.Encode(&buf); err != nil {
			return fail("Encode: %v", err)
		}
		x.Encode(&buf2)
		var q s2.CellID
		if err := q.Decode(bytes.NewReader(buf.Bytes())); err != nil {
			return fail("Decode: %v", err)
		}
		ev.Fp1 = fmt.Sprintf("%016x", uint64(q))
		ev.Ans1 = fmt.Sprint(q.Level(), q.Face(), q.ToToken())
		q.Encode(&buf3)
	case s2.Cell:
		obs := func(c s2.Cell) (string, string) {
			var a c09Dump
			for k := 0; k < 4; k++ {
				a.pt(c.Vertex(k))
			}
			for _, p := range c09Probes {
				a.b(c.ContainsPoint(p))
			}
			return fmt.Sprintf("%016x/%d/%d", uint64(c.ID()), c.Level(), c.Face()), c09Hash(a.Bytes())
		}
		ev.Fp0, ev.Ans0 = obs(x)
		if err := x.Encode(&buf); err != nil {
			return fail("Encode: %v", err)
		}
		x.Encode(&buf2)
		var q s2.Cell
		if err := q.Decode(bytes.NewReader(buf.Bytes())); err != nil {
			return fail("Decode: %v", err)
		}
		ev.Fp1, ev.Ans1 = obs(q)
		if q != x {
			ev.Fp1 += "(struct differs)"
		}
		q.Encode(&buf3)
	case *s2.CellUnion:
		obs := func(cu *s2.CellUnion) (string, string) {
			var d, a c09Dump
			d.u64(uint64(len(*cu)))
			for _, id := range *cu {
				d.u64(uint64(id))
			}
			for _, p := range c09Probes {
				a.b(cu.ContainsPoint(p))
			}
			a.b(cu.IsNormalized())
			a.u64(uint64(cu.LeafCellsCovered()))
			return c09Hash(d.Bytes()), c09Hash(a.Bytes())
		}
		ev.Fp0, ev.Ans0 = obs(x)
		ev.N = len(*x)
		if err := x.Encode(&buf); err != nil {
			return fail("Encode: %v", err)
		}
		x.Encode(&buf2)
		var q s2.CellUnion
		if err := q.Decode(bytes.NewReader(buf.Bytes())); err != nil {
			return fail("Decode: %v", err)
		}
		ev.Fp1, ev.Ans1 = obs(&q)
		q.Encode(&buf3)
	default:
		panic(fmt.Sprintf("c09Observe: %T", v.val))
	}
	ev.Enc1, ev.Enc2, ev.Enc3 = c09Hash(buf.Bytes()), c09Hash(buf2.Bytes()), c09Hash(buf3.Bytes())
	return ev
}
