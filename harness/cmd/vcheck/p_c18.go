package main

// C18: area, curvature and centroid are consistent with containment and orientation.
//
// The cases come from TLC (Gen_Bounds: W2 rectangles with holes and W1 triangles;
// Gen_Measures: exactly collinear lattice triples) and from seeded float families.
// Every measurement is recorded as an event (floats as order-preserving keys; documented
// tolerances added here with float64 arithmetic and logged as lo/hi keys); the relations
// are decided by TLC in Trace_Measures.tla.

import (
	"encoding/json"
	"fmt"
	"math"
	"math/rand"
	"os"
	"sync"

	"github.com/golang/geo/r3"
	"github.com/golang/geo/s1"
	"github.com/golang/geo/s2"

	"verifharness/emb"
)

func init() {
	register("c18.w2", opC18W2)
	register("c18.w1", opC18W1)
	register("c18.sliver", opC18Sliver)
	register("c18.rand", opC18Rand)
}

// ------------------------------------------------------------------ recorder

var c18Mu sync.Mutex

type c18Rec struct {
	cid   int
	only  int
	sub   int
	lines [][]byte
	infos [][]byte
	o     *Out
}

func c18NewRec(cid int, only *int, o *Out) *c18Rec {
	r := &c18Rec{cid: cid, only: -1, o: o}
	if only != nil {
		r.only = *only
	}
	return r
}

// next returns the sub index of the next input and whether it is to be recorded.
func (r *c18Rec) next() (int, bool) {
	s := r.sub
	r.sub++
	return s, r.only < 0 || r.only == s
}

func (r *c18Rec) add(sub int, cls, desc string, ev map[string]any) {
	b, err := json.Marshal(ev)
	if err != nil {
		panic(err)
	}
	r.lines = append(r.lines, b)
	b, _ = json.Marshal(map[string]any{"cid": r.cid, "sub": sub, "cls": cls, "desc": desc})
	r.infos = append(r.infos, b)
	r.o.Count("events_" + fmt.Sprint(ev["ev"]))
}

func (r *c18Rec) flush() {
	path := os.Getenv("VERIF_C18_TRACE")
	if path == "" || len(r.lines) == 0 {
		return
	}
	c18Mu.Lock()
	defer c18Mu.Unlock()
	f, err := os.OpenFile(path, os.O_APPEND|os.O_WRONLY|os.O_CREATE, 0o644)
	if err != nil {
		panic(err)
	}
	g, err := os.OpenFile(path+".info", os.O_APPEND|os.O_WRONLY|os.O_CREATE, 0o644)
	if err != nil {
		panic(err)
	}
	var tb, ib []byte
	for i, ln := range r.lines {
		tb = append(append(tb, ln...), '\n')
		ib = append(append(ib, r.infos[i]...), '\n')
	}
	f.Write(tb)
	g.Write(ib)
	f.Close()
	g.Close()
}

func c18K(f float64) emb.Key { return emb.FloatKey(f) }

func c18K3(v r3.Vector) [3]emb.Key { return [3]emb.Key{c18K(v.X), c18K(v.Y), c18K(v.Z)} }

// ------------------------------------------------------------------ tolerances (documented sources)

// PointArea: "The maximum error is about 5e-15".  A loop of n vertices is summed over
// about n triangles (at most 2n, see the comment in Loop.Area).
const c18TriErr = 5e-15

func c18AreaTol(triangles int, area float64) float64 {
	return 2*c18TriErr*float64(triangles) + 1e-12*area + 1e-15
}

// c18SmallTol: Loop.Area / PointArea promise good *relative* accuracy for small loops (l'Huilier);
// for a loop of well-shaped cells the tolerance is the smaller of the absolute bound and 1e-9 relative.
// The vertex coordinates themselves carry an absolute rounding of ~1e-16, i.e. a relative error of
// 1e-16/edge in every side length, hence the 1e-14/edge term.
func c18SmallTol(triangles int, area, minEdge float64) float64 {
	return math.Min(c18AreaTol(triangles, area), (1e-12+1e-14/minEdge)*area+1e-300)
}

// turningAngleMaxError: 11.25 * dblEpsilon per vertex
func c18TurnErr(n int) float64 { return 11.25 * 2.220446049250313e-16 * float64(n) }

// ------------------------------------------------------------------ helpers

func c18Clone(v []s2.Point) []s2.Point { return append([]s2.Point(nil), v...) }

func c18Rev(v []s2.Point) []s2.Point {
	out := make([]s2.Point, len(v))
	for i := range v {
		out[len(v)-1-i] = v[i]
	}
	return out
}

func c18Rot(v []s2.Point, k int) []s2.Point {
	n := len(v)
	out := make([]s2.Point, n)
	for i := range v {
		out[i] = v[(i+k)%n]
	}
	return out
}

// c18Boundary compares a vertex cycle with the original order.
func c18Boundary(got, orig []s2.Point) string {
	n := len(orig)
	if len(got) != n {
		return "other"
	}
	for _, cand := range []struct {
		name string
		v    []s2.Point
	}{{"same", orig}, {"reversed", c18Rev(orig)}} {
		for s := 0; s < n; s++ {
			ok := true
			for i := 0; i < n; i++ {
				if got[i] != cand.v[(s+i)%n] {
					ok = false
					break
				}
			}
			if ok {
				return cand.name
			}
		}
	}
	return "other"
}

// c18Canon returns the first two vertices of the loop's canonical sequence as indices into orig.
func c18Canon(l *s2.Loop, idx map[s2.Point]int) [2]int {
	first, dir := l.CanonicalFirstVertex()
	return [2]int{idx[l.Vertex(first)], idx[l.Vertex(first+dir)]}
}

// c18Turn records the exact clauses for one vertex cycle.
func c18Turn(rec *c18Rec, vs []s2.Point, cls, desc string, rnd *rand.Rand) {
	sub, ok := rec.next()
	if !ok {
		return
	}
	n := len(vs)
	idx := map[s2.Point]int{}
	for i, v := range vs {
		idx[v] = i
	}
	base := s2.LoopFromPoints(c18Clone(vs))
	ta := base.TurningAngle()
	area := base.Area()
	var ks []int
	if n <= 12 {
		for k := 1; k < n; k++ {
			ks = append(ks, k)
		}
	} else {
		ks = []int{1, 2, n / 2, n - 1}
		for len(ks) < 8 {
			ks = append(ks, 1+rnd.Intn(n-1))
		}
	}
	rots := []emb.Key{}
	cans := [][2]int{}
	areas := []emb.Key{}
	cens := [][3]emb.Key{}
	areaTxt := ""
	for _, k := range ks {
		l := s2.LoopFromPoints(c18Rot(vs, k))
		rots = append(rots, c18K(l.TurningAngle()))
		cans = append(cans, c18Canon(l, idx))
		areas = append(areas, c18K(l.Area()))
		cens = append(cens, c18K3(l.Centroid().Vector))
		if len(ks) <= 12 {
			areaTxt += fmt.Sprintf(" start %d: area %v centroid %v;", k, l.Area(), l.Centroid().Vector)
		}
	}
	li := s2.LoopFromPoints(c18Clone(vs))
	li.Invert()
	lr := s2.LoopFromPoints(c18Rev(vs))
	tol := c18AreaTol(2*n, math.Min(area, 4*math.Pi-area))
	// the centroid (integral of position) is a sum of one TrueCentroid per triangle; the complement's is its negation
	cen := base.Centroid().Vector
	// No error bound is documented for TrueCentroid; it is ill-conditioned for edges near 180 degrees (error
	// ~ eps/gap^2 where gap = pi - edge length, "not much we can do if the loop itself contains such edges"):
	// a gross-error detector.
	gap := math.Pi
	for i := range vs {
		gap = math.Min(gap, math.Pi-float64(vs[i].Distance(vs[(i+1)%n])))
	}
	ctol := 1e-9 + 1e-14/(gap*gap)
	rec.add(sub, cls, fmt.Sprintf("%s: start 0: area %v centroid %v turning angle %v;%s", desc, area, cen, ta, areaTxt),
		map[string]any{"ev": "turn", "n": n, "ta": c18K(ta), "nta": c18K(-ta), "rots": rots,
			"inv": c18K(li.TurningAngle()), "rev": c18K(lr.TurningAngle()),
			"can": c18Canon(base, idx), "cans": cans, "caninv": c18Canon(li, idx),
			"areas": areas, "alo": c18K(area - tol), "ahi": c18K(area + tol),
			"cens": cens, "cinv": c18K3(li.Centroid().Vector.Mul(-1)),
			"celo": [3]emb.Key{c18K(cen.X - ctol), c18K(cen.Y - ctol), c18K(cen.Z - ctol)},
			"cehi": [3]emb.Key{c18K(cen.X + ctol), c18K(cen.Y + ctol), c18K(cen.Z + ctol)},
			// Gauss-Bonnet for the base order
			"gblo": c18K(2*math.Pi - area - c18TurnErr(n) - tol), "gbhi": c18K(2*math.Pi - area + c18TurnErr(n) + tol)})
	rec.o.CountN("rotations_compared", len(ks))
	// Area(loop) + Area(inverse) against 4*pi
	sum := area + li.Area()
	ptol := 2 * c18AreaTol(2*n, 0)
	rec.add(sub, cls, fmt.Sprintf("%s: area %v + inverse area %v = %v", desc, area, li.Area(), sum),
		map[string]any{"ev": "pair", "sum": c18K(sum), "lo": c18K(4*math.Pi - ptol), "hi": c18K(4*math.Pi + ptol)})
}

// c18Area records area / classification / Normalize for one loop.
func c18Area(rec *c18Rec, vs []s2.Point, cls, desc string, expected, tol float64, w2 [][]int, tri []emb.P3, inv bool) {
	sub, ok := rec.next()
	if !ok {
		return
	}
	l := s2.LoopFromPoints(c18Clone(vs))
	area := l.Area()
	ln := s2.LoopFromPoints(c18Clone(vs))
	ln.Normalize()
	if w2 == nil {
		w2 = [][]int{}
	}
	if tri == nil {
		tri = []emb.P3{}
	}
	n := len(vs)
	herr := c18TurnErr(n) + c18AreaTol(2*n, 2*math.Pi)
	rec.add(sub, cls, fmt.Sprintf("%s: area %v expected %v +- %v, turning angle %v, normalized %v", desc, area, expected, tol, l.TurningAngle(), l.IsNormalized()),
		map[string]any{"ev": "area", "area": c18K(area), "lo": c18K(expected - tol), "hi": c18K(expected + tol),
			"norm": l.IsNormalized(), "ta": c18K(l.TurningAngle()), "w2": w2, "tri": tri, "inv": inv,
			"after":   []any{ln.IsNormalized(), c18Boundary(ln.Vertices(), vs)},
			"twopilo": c18K(2*math.Pi - herr), "twopihi": c18K(2*math.Pi + herr),
			// Gauss-Bonnet: turning angle = 2*pi - area, within turningAngleMaxError + the area error
			"gblo": c18K(2*math.Pi - area - herr), "gbhi": c18K(2*math.Pi - area + herr)})
}

// ---------------------------------------------------------------- W2

func c18GridPoint(face, g, i, j int) s2.Point {
	n := 1 << uint(g)
	ci, cj := i, j
	if ci > n-1 {
		ci = n - 1
	}
	if cj > n-1 {
		cj = n - 1
	}
	k := 0
	switch {
	case i > ci && j > cj:
		k = 2
	case i > ci:
		k = 1
	case j > cj:
		k = 3
	}
	return s2.CellFromCellID(emb.FromFaceIJ(face, g, ci, cj)).Vertex(k)
}

func c18RectVerts(face, g int, r []int, all bool) []s2.Point {
	i0, j0, w, h := r[0], r[1], r[2], r[3]
	if !all {
		return []s2.Point{c18GridPoint(face, g, i0, j0), c18GridPoint(face, g, i0+w, j0),
			c18GridPoint(face, g, i0+w, j0+h), c18GridPoint(face, g, i0, j0+h)}
	}
	var v []s2.Point
	for i := i0; i < i0+w; i++ {
		v = append(v, c18GridPoint(face, g, i, j0))
	}
	for j := j0; j < j0+h; j++ {
		v = append(v, c18GridPoint(face, g, i0+w, j))
	}
	for i := i0 + w; i > i0; i-- {
		v = append(v, c18GridPoint(face, g, i, j0+h))
	}
	for j := j0 + h; j > j0; j-- {
		v = append(v, c18GridPoint(face, g, i0, j))
	}
	return v
}

// c18Cells: sum of Cell.ExactArea and of the cells' true centroids over the block minus the hole.
func c18Cells(face, g int, r []int, hole []int) (area float64, cen r3.Vector, n int) {
	for i := r[0]; i < r[0]+r[2]; i++ {
		for j := r[1]; j < r[1]+r[3]; j++ {
			if hole != nil && i >= hole[0] && i < hole[0]+hole[2] && j >= hole[1] && j < hole[1]+hole[3] {
				continue
			}
			c := s2.CellFromCellID(emb.FromFaceIJ(face, g, i, j))
			area += c.ExactArea()
			v0, v1, v2, v3 := c.Vertex(0), c.Vertex(1), c.Vertex(2), c.Vertex(3)
			cen = cen.Add(s2.TrueCentroid(v0, v1, v2).Vector).Add(s2.TrueCentroid(v0, v2, v3).Vector)
			n++
		}
	}
	return
}

func opC18W2(raw json.RawMessage, o *Out) {
	var c struct {
		Cid   int
		Only  *int
		F, G  int
		A     []int
		Holes [][]int
		Seed  int64
	}
	if err := json.Unmarshal(raw, &c); err != nil {
		panic(err)
	}
	rec := c18NewRec(c.Cid, c.Only, o)
	defer rec.flush()
	o.nontrivial = true
	rnd := rand.New(rand.NewSource(c.Seed))
	shell := []int{c.F, c.G, c.A[0], c.A[1], c.A[2], c.A[3]}
	exp, _, ncell := c18Cells(c.F, c.G, c.A, nil)
	desc := fmt.Sprintf("face %d level %d cells [%d,%d)x[%d,%d)", c.F, c.G, c.A[0], c.A[0]+c.A[2], c.A[1], c.A[1]+c.A[3])
	deep := ""
	if c.G >= 20 {
		deep = "/deep"
	}
	for _, all := range []bool{true, false} {
		vs := c18RectVerts(c.F, c.G, c.A, all)
		name := "loop/w2-4corners" + deep
		if all {
			name = "loop/w2" + deep
		}
		// with a vertex at every grid corner the fan contains exactly collinear (zero-area) triangles whose
		// computed area is rounding noise of up to ~1e-15 each: only the absolute bound applies there
		tol := c18AreaTol(2*len(vs)+2*ncell, exp)
		if !all {
			tol = c18SmallTol(2*len(vs)+2*ncell, exp, float64(c18GridPoint(c.F, c.G, c.A[0], c.A[1]).Distance(c18GridPoint(c.F, c.G, c.A[0]+1, c.A[1]))))
		}
		c18Turn(rec, vs, name, desc, rnd)
		c18Area(rec, vs, name, desc, exp, tol, [][]int{shell}, nil, false)
		c18Area(rec, c18Rev(vs), name+"/reversed", desc+" reversed", 4*math.Pi-exp, tol, [][]int{shell}, nil, true)
		// Invert() of the loop object gives the same measures as the loop built from the reversed order
		if sub, ok := rec.next(); ok {
			li := s2.LoopFromPoints(c18Clone(vs))
			li.Invert()
			lr := s2.LoopFromPoints(c18Rev(vs))
			rec.add(sub, name+"/Invert()", desc, map[string]any{"ev": "area", "area": c18K(li.Area()),
				"lo": c18K(lr.Area() - tol), "hi": c18K(lr.Area() + tol), "norm": li.IsNormalized(), "ta": c18K(li.TurningAngle()),
				"w2": [][]int{shell}, "tri": []emb.P3{}, "inv": true, "after": []any{true, "reversed"},
				"twopilo": c18K(0), "twopihi": c18K(4 * math.Pi), "gblo": c18K(-7), "gbhi": c18K(7)})
		}
	}
	// centroid (integral of position) of the loop against the cells; the complement has the negated integral
	for _, rev := range []bool{false, true} {
		if sub, ok := rec.next(); ok {
			vs := c18RectVerts(c.F, c.G, c.A, true)
			cls := "loop/w2" + deep
			if rev {
				vs = c18Rev(vs)
				cls += "/reversed"
			}
			_, cexp, _ := c18Cells(c.F, c.G, c.A, nil)
			if rev {
				cexp = cexp.Mul(-1)
			}
			cen := s2.LoopFromPoints(vs).Centroid().Vector
			ctol := 1e-14*float64(ncell+len(vs)) + 1e-12*exp
			rec.add(sub, cls, fmt.Sprintf("%s: centroid %v cells %v", desc, cen, cexp),
				map[string]any{"ev": "cen", "cen": c18K3(cen),
					"clo": [3]emb.Key{c18K(cexp.X - ctol), c18K(cexp.Y - ctol), c18K(cexp.Z - ctol)},
					"chi": [3]emb.Key{c18K(cexp.X + ctol), c18K(cexp.Y + ctol), c18K(cexp.Z + ctol)}})
		}
	}
	// polygons: shell minus hole, nested and oriented construction; with an island inside the hole
	for _, h := range c.Holes {
		for variant := 0; variant < 6; variant++ {
			oriented := variant&1 == 1
			island := variant >= 2
			lake := variant >= 4 // a hole inside the island (depth 3)
			if (island && c.G+2 > 30) || (lake && c.G+4 > 30) {
				continue
			}
			sub, ok := rec.next()
			if !ok {
				continue
			}
			sh := s2.LoopFromPoints(c18RectVerts(c.F, c.G, c.A, true))
			hv := c18RectVerts(c.F, c.G, h, true)
			loops := []*s2.Loop{sh}
			cls := "polygon/w2-hole" + deep
			// the island: the central 2x2 block of level G+2 cells inside the first cell of the hole
			isl := []int{4*h[0] + 1, 4*h[1] + 1, 2, 2}
			if island {
				cls = "polygon/w2-hole-island" + deep
			}
			if oriented {
				loops = append(loops, s2.LoopFromPoints(c18Rev(hv)))
				cls += "/oriented"
			} else {
				loops = append(loops, s2.LoopFromPoints(hv))
			}
			lk := []int{16*h[0] + 7, 16*h[1] + 7, 2, 2}
			if island {
				loops = append(loops, s2.LoopFromPoints(c18RectVerts(c.F, c.G+2, isl, true)))
			}
			if lake {
				cls = "polygon/w2-hole-island-lake" + deep
				if oriented {
					cls += "/oriented"
					loops = append(loops, s2.LoopFromPoints(c18Rev(c18RectVerts(c.F, c.G+4, lk, true))))
				} else {
					loops = append(loops, s2.LoopFromPoints(c18RectVerts(c.F, c.G+4, lk, true)))
				}
			}
			var pg *s2.Polygon
			if oriented {
				pg = s2.PolygonFromOrientedLoops(loops)
			} else {
				pg = s2.PolygonFromLoops(loops)
			}
			pexp, cexp, pn := c18Cells(c.F, c.G, c.A, h)
			if island {
				ia, ic, in := c18Cells(c.F, c.G+2, isl, nil)
				pexp, cexp, pn = pexp+ia, cexp.Add(ic), pn+in
			}
			if lake {
				la, lc, ln := c18Cells(c.F, c.G+4, lk, nil)
				pexp, cexp, pn = pexp-la, cexp.Sub(lc), pn+ln
			}
			ptol := c18AreaTol(2*pg.NumEdges()+2*pn+2*h[2]*h[3], exp)
			var ssum float64
			var csum r3.Vector
			holes := []bool{}
			for i := 0; i < pg.NumLoops(); i++ {
				l := pg.Loop(i)
				ssum += float64(l.Sign()) * l.Area()
				if l.Sign() < 0 {
					csum = csum.Sub(l.Centroid().Vector)
				} else {
					csum = csum.Add(l.Centroid().Vector)
				}
				holes = append(holes, l.IsHole())
			}
			cen := pg.Centroid().Vector
			ctol := 1e-14*float64(pn+h[2]*h[3]+pg.NumEdges()) + 1e-12*exp
			clo := [3]emb.Key{c18K(cexp.X - ctol), c18K(cexp.Y - ctol), c18K(cexp.Z - ctol)}
			chi := [3]emb.Key{c18K(cexp.X + ctol), c18K(cexp.Y + ctol), c18K(cexp.Z + ctol)}
			rec.add(sub, cls, fmt.Sprintf("%s minus hole %v: area %v signed sum %v cells %v; centroid %v cells %v", desc, h, pg.Area(), ssum, pexp, cen, cexp),
				map[string]any{"ev": "poly", "area": c18K(pg.Area()), "ssum": c18K(ssum), "lo": c18K(pexp - ptol), "hi": c18K(pexp + ptol),
					"cen": c18K3(cen), "csum": c18K3(csum), "clo": clo, "chi": chi, "holes": holes, "chain": len(loops)})
			// A loop that has been a hole of this polygon, used again as the only loop of a new polygon: the new
			// polygon is that loop (area, centroid, sign), whatever the loop object went through before.
			for i := 0; i < pg.NumLoops(); i++ {
				l := pg.Loop(i)
				if !l.IsHole() {
					continue
				}
				la, lc := l.Area(), l.Centroid().Vector
				p1 := s2.PolygonFromLoops([]*s2.Loop{l})
				l1 := p1.Loop(0)
				sa := float64(l1.Sign()) * l1.Area()
				sc := l1.Centroid().Vector
				if l1.Sign() < 0 {
					sc = sc.Mul(-1)
				}
				t1 := 1e-13
				c1 := p1.Centroid().Vector
				rec.add(sub, cls+"/reused-hole", fmt.Sprintf("%s: loop %d (a hole of the polygon) as the single loop of a new polygon: area %v, the loop's area %v; centroid %v, the loop's %v", desc, i, p1.Area(), la, c1, lc),
					map[string]any{"ev": "poly", "area": c18K(p1.Area()), "ssum": c18K(sa), "lo": c18K(la - t1), "hi": c18K(la + t1),
						"cen": c18K3(c1), "csum": c18K3(sc),
						"clo": [3]emb.Key{c18K(lc.X - t1), c18K(lc.Y - t1), c18K(lc.Z - t1)}, "chi": [3]emb.Key{c18K(lc.X + t1), c18K(lc.Y + t1), c18K(lc.Z + t1)},
						"holes": []bool{l1.IsHole()}, "chain": 1})
				break
			}
		}
	}
	o.sample = map[string]any{"op": "c18.w2", "face": c.F, "level": c.G, "a": c.A, "holes": c.Holes}
}

// ---------------------------------------------------------------- W1

func opC18W1(raw json.RawMessage, o *Out) {
	var c struct {
		Cid     int
		Only    *int
		A, B, C emb.P3
		Seed    int64
	}
	if err := json.Unmarshal(raw, &c); err != nil {
		panic(err)
	}
	rec := c18NewRec(c.Cid, c.Only, o)
	defer rec.flush()
	o.nontrivial = true
	rnd := rand.New(rand.NewSource(c.Seed))
	tri := []emb.P3{c.A, c.B, c.C}
	vs := []s2.Point{emb.Unit(c.A), emb.Unit(c.B), emb.Unit(c.C)}
	desc := fmt.Sprintf("lattice triangle %v %v %v (normalised)", c.A, c.B, c.C)
	exp := s2.PointArea(vs[0], vs[1], vs[2])
	tol := c18AreaTol(4, exp)
	c18Turn(rec, vs, "loop/w1", desc, rnd)
	c18Tri3(rec, vs[0], vs[1], vs[2], "triangle/w1", desc)
	c18Area(rec, vs, "loop/w1", desc, exp, tol, nil, tri, false)
	c18Area(rec, c18Rev(vs), "loop/w1/reversed", desc+" reversed", 4*math.Pi-exp, tol, nil, tri, true)
	o.sample = map[string]any{"op": "c18.w1", "a": c.A, "b": c.B, "c": c.C}
}

// c18Tri3 records the relations between the triangle measures of three distinct points.
func c18Tri3(rec *c18Rec, a, b, c s2.Point, cls, desc string) {
	sub, ok := rec.next()
	if !ok {
		return
	}
	pa := s2.PointArea(a, b, c)
	perms := []emb.Key{c18K(s2.PointArea(b, c, a)), c18K(s2.PointArea(c, a, b)), c18K(s2.PointArea(c, b, a)),
		c18K(s2.PointArea(b, a, c)), c18K(s2.PointArea(a, c, b))}
	tol := 2*c18TriErr + 1e-12*pa
	sa := s2.SignedArea(a, b, c)
	tc := s2.TrueCentroid(a, b, c).Vector
	tc2 := s2.TrueCentroid(b, c, a).Vector
	ctol := 1e-14 + 1e-12*pa
	rec.add(sub, cls, fmt.Sprintf("%s: PointArea %v GirardArea %v SignedArea %v TurnAngle %v", desc, pa, s2.GirardArea(a, b, c), sa, s2.TurnAngle(a, b, c)),
		map[string]any{"ev": "tri3", "ta": c18K(float64(s2.TurnAngle(a, b, c))), "ntar": c18K(-float64(s2.TurnAngle(c, b, a))),
			"ang": c18K(float64(s2.Angle(a, b, c))), "angr": c18K(float64(s2.Angle(c, b, a))),
			"pa": c18K(pa), "npa": c18K(-pa), "perms": perms, "palo": c18K(pa - tol), "pahi": c18K(pa + tol),
			"girard": c18K(s2.GirardArea(a, b, c)), "glo": c18K(pa - 2*c18TriErr), "ghi": c18K(pa + 2*c18TriErr),
			"sa": c18K(sa), "sign": int(s2.RobustSign(a, b, c)),
			"tc": c18K3(tc2), "tclo": [3]emb.Key{c18K(tc.X - ctol), c18K(tc.Y - ctol), c18K(tc.Z - ctol)},
			"tchi": [3]emb.Key{c18K(tc.X + ctol), c18K(tc.Y + ctol), c18K(tc.Z + ctol)}})
}

// ---------------------------------------------------------------- slivers

func c18Probes(rnd *rand.Rand, vs []s2.Point) []s2.Point {
	// the great circle of the sliver (any two vertices); probes stay away from it
	nrm := vs[0].PointCross(vs[len(vs)-1]).Normalize()
	var out []s2.Point
	for len(out) < 40 {
		v := r3.Vector{X: rnd.NormFloat64(), Y: rnd.NormFloat64(), Z: rnd.NormFloat64()}.Normalize()
		if math.Abs(v.Dot(nrm)) < 1e-3 {
			continue
		}
		out = append(out, s2.Point{Vector: v})
	}
	return out
}

func c18Sliver(rec *c18Rec, vs []s2.Point, cls, desc string, rnd *rand.Rand) {
	c18SliverP(rec, vs, cls, desc, c18Probes(rnd, vs))
}

// c18SliverP: the same with given probes (none of them near the sliver).
func c18SliverP(rec *c18Rec, vs []s2.Point, cls, desc string, probes []s2.Point) {
	sub, ok := rec.next()
	if !ok {
		return
	}
	l := s2.LoopFromPoints(c18Clone(vs))
	cnt := 0
	for _, p := range probes {
		if l.ContainsPoint(p) {
			cnt++
		}
	}
	area := l.Area()
	rec.add(sub, cls, fmt.Sprintf("%s: area %v, contains %d of %d probes, turning angle %v, normalized %v", desc, area, cnt, len(probes), l.TurningAngle(), l.IsNormalized()),
		map[string]any{"ev": "sliv", "area": c18K(area), "small": c18K(1e-6), "big": c18K(4*math.Pi - 1e-6),
			"cnt": cnt, "m": len(probes), "norm": l.IsNormalized(), "ta": c18K(l.TurningAngle())})
}

func opC18Sliver(raw json.RawMessage, o *Out) {
	var c struct {
		Cid     int
		Only    *int
		A, B, C emb.P3
		Sos     int
		Seed    int64
	}
	if err := json.Unmarshal(raw, &c); err != nil {
		panic(err)
	}
	rec := c18NewRec(c.Cid, c.Only, o)
	defer rec.flush()
	o.nontrivial = true
	rnd := rand.New(rand.NewSource(c.Seed))
	a, b, cc := emb.Unit(c.A), emb.Unit(c.B), emb.Unit(c.C)
	desc := fmt.Sprintf("collinear lattice triple %v %v %v (normalised; model's perturbed sign %d)", c.A, c.B, c.C, c.Sos)
	for _, v := range []struct {
		name string
		vs   []s2.Point
	}{{"abc", []s2.Point{a, b, cc}}, {"cba", []s2.Point{cc, b, a}}, {"bca", []s2.Point{b, cc, a}}} {
		c18Sliver(rec, v.vs, "sliver/w1", desc+" order "+v.name, rnd)
		c18Turn(rec, v.vs, "sliver/w1", desc+" order "+v.name, rnd)
	}
	// nearly degenerate: the middle vertex moved off the great circle by a tiny amount
	nrm := a.PointCross(cc).Normalize()
	for _, d := range []float64{1e-300, 1e-18, 1e-16, 1e-15, 1e-13, 1e-10} {
		for _, sg := range []float64{1, -1} {
			m := s2.Point{Vector: b.Add(nrm.Mul(sg * d)).Normalize()}
			if m == a || m == cc {
				continue
			}
			vs := []s2.Point{a, m, cc}
			c18Tri3(rec, a, m, cc, "triangle/sliver", fmt.Sprintf("%s middle vertex moved by %g", desc, sg*d))
			c18Sliver(rec, vs, "sliver/near", fmt.Sprintf("%s middle vertex moved by %g", desc, sg*d), rnd)
			c18Turn(rec, vs, "sliver/near", fmt.Sprintf("%s middle vertex moved by %g", desc, sg*d), rnd)
		}
	}
	// (four or more collinear vertices are not used: under the perturbation such a "there and back"
	// loop may be self-intersecting, i.e. not a valid loop)
	// agreement of the real perturbed sign with the model's (informative: the embedding rounds)
	if int(s2.RobustSign(a, b, cc)) == c.Sos {
		o.Count("sliver_sign_agrees_with_lattice_model")
	} else {
		o.Count("sliver_sign_differs_after_normalisation")
	}
	o.sample = map[string]any{"op": "c18.sliver", "a": c.A, "b": c.B, "c": c.C, "sos": c.Sos}
}

// ---------------------------------------------------------------- seeded float loops

func c18RandPoint(rnd *rand.Rand) s2.Point {
	for {
		v := r3.Vector{X: rnd.NormFloat64(), Y: rnd.NormFloat64(), Z: rnd.NormFloat64()}
		if v.Norm() > 1e-3 {
			return s2.Point{Vector: v.Normalize()}
		}
	}
}

func opC18Rand(raw json.RawMessage, o *Out) {
	var c struct {
		Cid    int
		Only   *int
		Family string
		Seed   int64
		Count  int
		MaxN   int
	}
	if err := json.Unmarshal(raw, &c); err != nil {
		panic(err)
	}
	rec := c18NewRec(c.Cid, c.Only, o)
	defer rec.flush()
	o.nontrivial = true
	for it := 0; it < c.Count; it++ {
		rnd := rand.New(rand.NewSource(c.Seed*1000003 + int64(it)))
		ctr := c18RandPoint(rnd)
		switch c.Family {
		case "regular":
			ns := []int{3, 4, 5, 7, 16, 33, 100, 1000, 10000}
			n := ns[rnd.Intn(len(ns))]
			for n > c.MaxN {
				n = ns[rnd.Intn(len(ns))]
			}
			rad := math.Pow(10, -rnd.Float64()*7.5) * 3
			if rnd.Intn(5) == 0 {
				rad = []float64{math.Pi / 2, math.Pi/2 - 1e-9, math.Pi/2 + 1e-9, 3.1, 1e-7}[rnd.Intn(5)]
			}
			l := s2.RegularLoop(ctr, s1.Angle(rad), n)
			vs := c18Clone(l.Vertices())
			desc := fmt.Sprintf("regular loop centre %v radius %v n=%d", ctr, rad, n)
			c18Turn(rec, vs, "loop/regular", desc, rnd)
			// cap area as expectation only for many vertices; otherwise only the classification relations
			c18Area(rec, vs, "loop/regular", desc, 2*math.Pi, 2*math.Pi, nil, nil, false)
		case "star":
			n := 3 + rnd.Intn(40)
			if rnd.Intn(4) == 0 && c.MaxN >= 300 {
				n = 300
			}
			rad := math.Pow(10, -rnd.Float64()*6) * 1.5
			d0 := ctr.Ortho()
			d1 := ctr.Cross(d0).Normalize()
			var vs []s2.Point
			for k := 0; k < n; k++ {
				a := 2 * math.Pi * (float64(k) + 0.8*rnd.Float64()) / float64(n)
				r := rad * (0.3 + 0.7*rnd.Float64())
				dir := d0.Mul(math.Cos(a)).Add(d1.Mul(math.Sin(a)))
				vs = append(vs, s2.Point{Vector: ctr.Mul(math.Cos(r)).Add(dir.Mul(math.Sin(r))).Normalize()})
			}
			desc := fmt.Sprintf("star-shaped loop centre %v radius <= %v n=%d", ctr, rad, n)
			c18Turn(rec, vs, "loop/star", desc, rnd)
			c18Area(rec, vs, "loop/star", desc, 2*math.Pi, 2*math.Pi, nil, nil, false)
		case "antipodal":
			// Loops built from the branch conditions of Loop.surfaceIntegral*: with the fan started at vertex 0
			// a later vertex is within 1e-5 of the antipode of the current fan origin, which moves the origin
			// (1) to V0 x Vi, (2) back to V0, or (3), when V0/Vi and O/Vi+1 are both antipodal pairs, to V0 x O.
			// Templates in degrees (lat, lng) in a seed-chosen frame; "crit" vertices are placed within
			// delta of the exact antipode.  Every rotation of the vertex order starts the fan elsewhere.
			type tv struct {
				lat, lng float64
				crit     bool
			}
			tmpl := [][]tv{
				{{0, 0, false}, {5, 20, false}, {0, 50, false}, {0, 180, true}, {-90, 0, true}, {-30, -40, false}},                     // branches 1 and 3
				{{0, 0, false}, {0, 50, false}, {0, 180, true}, {-90, 0, true}, {-30, -40, false}},                                     // 1 and 3, a = 1
				{{0, 0, false}, {5, 20, false}, {0, 50, false}, {0, 180, true}, {-45, -120, false}, {-30, -40, false}},                 // branch 1 only
				{{0, 0, false}, {5, 20, false}, {0, 50, false}, {0, 180, true}, {-45, -120, false}, {-90, 0, true}, {-30, -40, false}}, // 1 then 2
				{{0, 0, false}, {0, 60, false}, {0, 120, false}, {0, 180, true}, {0, -120, false}, {0, -60, false}},                    // six points on a great circle
				{{0, 0, false}, {-5, 20, false}, {0, 50, false}, {0, 180, true}, {90, 0, true}, {30, -40, false}},                      // mirror image of the first
				{{0, 0, false}, {5, 20, false}, {0, 50, false}, {0, 180, true}, {-90, 0, true}, {-30, -40, false}, {-10, -30, false}, {-5, -10, false}},
				{{10, 0, false}, {0, 30, false}, {-10, 180, true}, {-80, 90, false}, {-20, -60, false}}, // antipode of a vertex off the frame axes
			}
			t := tmpl[rnd.Intn(len(tmpl))]
			delta := []float64{0, 1e-12, 1e-7, 3e-6, 9e-6, 9.9e-6, 1.5e-5}[rnd.Intn(7)]
			jit := []float64{0, 0, 1e-9, 1e-3, 1e-2}[rnd.Intn(5)]
			fx := ctr
			fy := s2.Point{Vector: ctr.Ortho()}
			fz := s2.Point{Vector: fx.Cross(fy.Vector).Normalize()}
			var vs []s2.Point
			for _, v := range t {
				p := s2.PointFromLatLng(s2.LatLngFromDegrees(v.lat, v.lng))
				d := jit
				if v.crit {
					d = delta
				}
				if d > 0 {
					p = s2.Point{Vector: p.Add(c18RandPoint(rnd).Mul(d * rnd.Float64())).Normalize()}
				}
				vs = append(vs, s2.Point{Vector: fx.Mul(p.X).Add(fy.Mul(p.Y)).Add(fz.Mul(p.Z)).Normalize()})
			}
			if rnd.Intn(2) == 0 {
				vs = c18Rev(vs)
			}
			desc := fmt.Sprintf("antipodal-origin template %v critical vertices within %g of the antipode, jitter %g, frame x=%v: vertices %v", t, delta, jit, ctr, vs)
			c18Turn(rec, vs, "loop/antipodal", desc, rnd)
			c18Area(rec, vs, "loop/antipodal", desc, 2*math.Pi, 2*math.Pi, nil, nil, false)
		case "nearpi":
			// An edge ab within gap of 180 degrees lying exactly in a coordinate plane, its exact midpoint m in
			// the same plane, and a third vertex p off that plane: the region (p,a,b) is exactly the union of
			// (p,a,m) and (p,m,b), whose edges are all short.  TrueCentroid is additive over the subdivision.
			gap := []float64{1e-2, 1e-3, 1e-4, 1e-5, 3e-6, 1e-6, 3e-7, 1e-7, 2.5e-8}[rnd.Intn(9)]
			th0 := []float64{0, 0.3, 1.1, 2.5, -2}[rnd.Intn(5)]
			perm := rnd.Intn(3)
			inPlane := func(th float64) s2.Point {
				c, sn := math.Cos(th), math.Sin(th)
				switch perm {
				case 0:
					return s2.Point{Vector: r3.Vector{X: c, Y: sn, Z: 0}.Normalize()}
				case 1:
					return s2.Point{Vector: r3.Vector{X: 0, Y: c, Z: sn}.Normalize()}
				}
				return s2.Point{Vector: r3.Vector{X: sn, Y: 0, Z: c}.Normalize()}
			}
			a, b, m := inPlane(th0), inPlane(th0+math.Pi-gap), inPlane(th0+(math.Pi-gap)/2)
			var pp s2.Point
			switch rnd.Intn(4) {
			case 0: // the pole of the plane
				pp = s2.Point{Vector: a.Cross(m.Vector).Normalize()}
			case 1:
				pp = s2.Point{Vector: a.Cross(m.Vector).Normalize().Mul(-1)}
			default:
				pp = c18RandPoint(rnd)
			}
			if math.Abs(pp.Dot(a.Cross(m.Vector).Normalize())) < 0.05 {
				continue
			}
			if sub, ok := rec.next(); ok {
				// no error bound is documented for TrueCentroid; side/sin(side) of the long side has a relative
				// error of ~eps/gap, so the tolerance is 1e-13 + 4e-14/gap (the seeded-style loss of half the
				// digits gives 1e-8/gap and more)
				tol := 1e-13 + 4e-14/gap
				whole := s2.TrueCentroid(pp, a, b).Vector
				parts := s2.TrueCentroid(pp, a, m).Add(s2.TrueCentroid(pp, m, b).Vector)
				lw := s2.LoopFromPoints([]s2.Point{pp, a, b}).Centroid().Vector
				lp := s2.LoopFromPoints([]s2.Point{pp, a, m, b}).Centroid().Vector
				pg := s2.PolygonFromLoops([]*s2.Loop{s2.LoopFromPoints([]s2.Point{pp, a, b})})
				if !pg.Loop(0).IsNormalized() {
					pg = s2.PolygonFromLoops([]*s2.Loop{s2.LoopFromPoints([]s2.Point{b, a, pp})})
				}
				pc := pg.Centroid().Vector
				if pc.Dot(parts) < 0 {
					pc = pc.Mul(-1) // the polygon was built from the reversed (normalized) order
				}
				rec.add(sub, "triangle/nearpi", fmt.Sprintf("edge a=%v b=%v within %g of 180 degrees, midpoint m=%v, p=%v: TrueCentroid(p,a,b)=%v, (p,a,m)+(p,m,b)=%v, Loop[p,a,b].Centroid=%v, Loop[p,a,m,b].Centroid=%v, Polygon centroid %v", a, b, gap, m, pp, whole, parts, lw, lp, pc),
					map[string]any{"ev": "cadd", "whole": c18K3(whole), "loop3": c18K3(lw), "loop4": c18K3(lp), "poly": c18K3(pc),
						"lo": [3]emb.Key{c18K(parts.X - tol), c18K(parts.Y - tol), c18K(parts.Z - tol)},
						"hi": [3]emb.Key{c18K(parts.X + tol), c18K(parts.Y + tol), c18K(parts.Z + tol)}})
			}
		case "strip":
			// A thin strip (half-width w) along a great circle that passes through or within tilt of the poles,
			// from th0 to th1 degrees (beyond both poles, beyond one, or between them), as a loop and as its
			// complement: a nearly degenerate sliver and a loop covering almost the whole sphere whose
			// longitude span is neither small nor necessarily full.
			w := []float64{2e-15, 2e-14, 1e-13, 1e-12}[rnd.Intn(4)]
			tilt := []float64{0, 0, 1e-15, 1e-12, 1e-6, 0.3}[rnd.Intn(6)]
			ends := [][2]float64{{-100, 100}, {-100, 100}, {-95, 80}, {-80, 95}, {-80, 80}, {-179, 170}}[rnd.Intn(6)]
			per := []int{2, 3, 10, 100}[rnd.Intn(4)]
			if per > c.MaxN/2 {
				per = 10
			}
			if ends[1]-ends[0] > 170*float64(per-1) {
				per = 3 // no edge of 180 degrees or more
			}
			rot := rnd.Float64() * 2 * math.Pi // longitude of the strip's plane
			mk := func(thDeg, y float64) s2.Point {
				th := thDeg * math.Pi / 180
				x0, y0, z0 := math.Cos(th), y, math.Sin(th)
				// tilt about the x-axis, then rotate about the z-axis
				y1, z1 := y0*math.Cos(tilt)-z0*math.Sin(tilt), y0*math.Sin(tilt)+z0*math.Cos(tilt)
				x2, y2 := x0*math.Cos(rot)-y1*math.Sin(rot), x0*math.Sin(rot)+y1*math.Cos(rot)
				return s2.Point{Vector: r3.Vector{X: x2, Y: y2, Z: z1}.Normalize()}
			}
			if rnd.Intn(3) == 0 {
				rot = 0 // exactly the xz-plane
				mk = func(thDeg, y float64) s2.Point {
					th := thDeg * math.Pi / 180
					return s2.Point{Vector: r3.Vector{X: math.Cos(th), Y: y, Z: math.Sin(th)}.Normalize()}
				}
				tilt = 0
			}
			var vs []s2.Point
			for k := 0; k < per; k++ {
				vs = append(vs, mk(ends[0]+(ends[1]-ends[0])*float64(k)/float64(per-1), -w))
			}
			for k := per - 1; k >= 0; k-- {
				vs = append(vs, mk(ends[0]+(ends[1]-ends[0])*float64(k)/float64(per-1), w))
			}
			nrm := mk(0, 0).Cross(mk(90, 0).Vector).Normalize()
			var probes []s2.Point
			for len(probes) < 40 {
				q := c18RandPoint(rnd)
				if math.Abs(q.Dot(nrm)) > 1e-3 {
					probes = append(probes, q)
				}
			}
			desc := fmt.Sprintf("strip of half-width %g along a great circle tilted %g from the poles, %g..%g degrees, %d vertices per side, plane longitude %g", w, tilt, ends[0], ends[1], per, rot)
			for _, v := range []struct {
				name string
				vs   []s2.Point
			}{{"complement", vs}, {"sliver", c18Rev(vs)}} {
				c18SliverP(rec, v.vs, "sliver/strip", desc+" ("+v.name+" order)", probes)
				c18Turn(rec, v.vs, "sliver/strip", desc+" ("+v.name+" order)", rnd)
				c18Area(rec, v.vs, "sliver/strip", desc+" ("+v.name+" order)", 2*math.Pi, 2*math.Pi, nil, nil, false)
			}
		case "longedge":
			// k points spaced around a great circle, pushed to one side by a small amount:
			// edges close to 180 degrees for k = 2 (plus one extra vertex) and hemisphere-like loops
			k := 3 + rnd.Intn(3)
			d0 := ctr.Ortho()
			d1 := ctr.Cross(d0).Normalize()
			lift := []float64{0, 1e-15, 1e-9, 1e-3, -1e-15, -1e-9, -1e-3}[rnd.Intn(7)]
			var vs []s2.Point
			for j := 0; j < k; j++ {
				a := 2 * math.Pi * float64(j) / float64(k)
				if k == 3 && j == 1 && rnd.Intn(2) == 0 {
					a = math.Pi - math.Pow(10, -float64(2+rnd.Intn(5))) // edge 0->1 close to 180 degrees
				}
				dir := d0.Mul(math.Cos(a)).Add(d1.Mul(math.Sin(a)))
				vs = append(vs, s2.Point{Vector: dir.Add(ctr.Mul(lift)).Normalize()})
			}
			desc := fmt.Sprintf("%d points around the great circle normal to %v lifted by %g", k, ctr, lift)
			c18Turn(rec, vs, "loop/longedge", desc, rnd)
			c18Area(rec, vs, "loop/longedge", desc, 2*math.Pi, 2*math.Pi, nil, nil, false)
		default:
			panic("c18.rand: unknown family " + c.Family)
		}
	}
	o.sample = map[string]any{"op": "c18.rand", "family": c.Family, "seed": c.Seed, "count": c.Count}
}
