package main

// C02: orientation and distance predicates, replayed from Gen_Sign / Gen_Dist.

import (
	"encoding/json"
	"fmt"
	"math"

	"github.com/golang/geo/s1"
	"github.com/golang/geo/s2"

	"verifharness/emb"
)

func init() {
	register("sign", opSign)
	register("cmpdist", opCmpDist)
	register("cmpdist1", opCmpDist1)
	register("signscale", opSignScale)
}

var colScales = [][3]int{
	{-3, -3, -3}, {-10, -10, -10}, {-300, 0, 300}, {300, -300, 0}, {0, 300, -300},
	{-340, -340, -340}, {-400, -400, -400}, {-60, 0, 0}, {0, 0, 500},
}

func opSign(raw json.RawMessage, o *Out) {
	var c struct {
		A, B, C emb.P3
		Det     int
		Want    int
	}
	if err := json.Unmarshal(raw, &c); err != nil {
		panic(err)
	}
	distinct := c.A != c.B && c.B != c.C && c.A != c.C
	if c.Det == 0 && distinct {
		o.nontrivial = true
		o.Count("degenerate_triples")
	}
	class := "nondegenerate"
	if c.Det == 0 {
		class = "degenerate"
	}
	if !distinct {
		class = "repeated-point"
	}
	for si, e := range colScales {
		a, b, cc := emb.ColScaled(c.A, e), emb.ColScaled(c.B, e), emb.ColScaled(c.C, e)
		tag := fmt.Sprintf("scale%v", e)
		got := int(s2.RobustSign(a, b, cc))
		if got != c.Want {
			o.Fail("sign/RobustSign/"+class, "RobustSign(%v,%v,%v) %s = %d, exact model %d (det %d)", c.A, c.B, c.C, tag, got, c.Want, c.Det)
		}
		if r := int(s2.RobustSign(b, cc, a)); r != got {
			o.Fail("sign/rotation/"+class, "RobustSign rotation %v %v %v %s: %d vs %d", c.A, c.B, c.C, tag, r, got)
		}
		if r := int(s2.RobustSign(cc, b, a)); r != -got {
			o.Fail("sign/antisymmetry/"+class, "RobustSign swap %v %v %v %s: %d vs %d", c.A, c.B, c.C, tag, r, -got)
		}
		if (got == 0) != !distinct {
			o.Fail("sign/zero-iff-equal/"+class, "RobustSign(%v,%v,%v) %s = %d", c.A, c.B, c.C, tag, got)
		}
		// stages: a fast path may give up (0) but must never return the wrong sign
		ds := sgn(c.Det)
		if t := int(s2.VerifTriageSign(a, b, cc)); t != 0 && t != ds {
			o.Fail("sign/triage/"+class, "triageSign(%v,%v,%v) %s = %d, exact det sign %d", c.A, c.B, c.C, tag, t, ds)
		} else if t != 0 {
			o.Count("triage_decided")
		}
		if t := int(s2.VerifStableSign(a, b, cc)); t != 0 && t != ds {
			o.Fail("sign/stable/"+class, "stableSign(%v,%v,%v) %s = %d, exact det sign %d", c.A, c.B, c.C, tag, t, ds)
		}
		if si < 7 { // exact stages: the expensive ones, on the main scalings
			if t := int(s2.VerifExactSign(a, b, cc, false)); t != ds {
				o.Fail("sign/exact-noperturb/"+class, "exactSign(perturb=false)(%v,%v,%v) %s = %d, det sign %d", c.A, c.B, c.C, tag, t, ds)
			}
			if distinct {
				if t := int(s2.VerifExactSign(a, b, cc, true)); t != c.Want {
					o.Fail("sign/exact-perturb/"+class, "exactSign(perturb=true)(%v,%v,%v) %s = %d, model %d", c.A, c.B, c.C, tag, t, c.Want)
				}
				if t := int(s2.VerifExpensiveSign(a, b, cc)); t != c.Want {
					o.Fail("sign/expensive/"+class, "expensiveSign(%v,%v,%v) %s = %d, model %d", c.A, c.B, c.C, tag, t, c.Want)
				}
			}
		}
	}
	// negative zeros: -0 == +0 as coordinates, so the same points with some zero coordinates
	// written as -0 must get the same answers (the perturbation order must not see the sign bit)
	{
		nz := func(p s2.Point, mask int) s2.Point {
			z := math.Copysign(0, -1)
			if p.X == 0 && mask&1 != 0 {
				p.X = z
			}
			if p.Y == 0 && mask&2 != 0 {
				p.Y = z
			}
			if p.Z == 0 && mask&4 != 0 {
				p.Z = z
			}
			return p
		}
		a, b, cc := emb.Dyadic(c.A, 3), emb.Dyadic(c.B, 3), emb.Dyadic(c.C, 3)
		for _, m := range [][3]int{{7, 0, 0}, {0, 7, 0}, {0, 0, 7}, {5, 2, 7}, {7, 7, 7}} {
			na, nb, nc := nz(a, m[0]), nz(b, m[1]), nz(cc, m[2])
			if got := int(s2.RobustSign(na, nb, nc)); got != c.Want {
				o.Fail("sign/negative-zero/"+class, "RobustSign(%v,%v,%v) with zero coordinates written as -0 (mask %v) = %d, model %d", c.A, c.B, c.C, m, got, c.Want)
			}
		}
	}
	// unit embedding: predictions only with an integer certificate (det != 0)
	ua, ub, uc := emb.Unit(c.A), emb.Unit(c.B), emb.Unit(c.C)
	got := int(s2.RobustSign(ua, ub, uc))
	if c.Det != 0 && got != sgn(c.Det) {
		o.Fail("sign/RobustSign-unit/"+class, "RobustSign on unit embedding (%v,%v,%v) = %d, det %d", c.A, c.B, c.C, got, c.Det)
	}
	if r := int(s2.RobustSign(ub, uc, ua)); r != got {
		o.Fail("sign/rotation-unit/"+class, "rotation on unit embedding %v %v %v", c.A, c.B, c.C)
	}
	if r := int(s2.RobustSign(uc, ub, ua)); r != -got {
		o.Fail("sign/antisymmetry-unit/"+class, "swap on unit embedding %v %v %v", c.A, c.B, c.C)
	}
	if (got == 0) != (ua == ub || ub == uc || ua == uc) {
		o.Fail("sign/zero-iff-equal-unit/"+class, "unit embedding %v %v %v = %d", c.A, c.B, c.C, got)
	}
	if c.Det != 0 {
		// OrderedCCW and Sign are consistent with the determinant
		if s2.Sign(ua, ub, uc) != (c.Det > 0) {
			o.Fail("sign/Sign-unit/"+class, "Sign(%v,%v,%v) = %v, det %d", c.A, c.B, c.C, s2.Sign(ua, ub, uc), c.Det)
		}
	}
	if o.nontrivial && o.sample == nil {
		o.sample = map[string]any{"op": "sign", "a": c.A, "b": c.B, "c": c.C, "det": c.Det, "model": c.Want, "RobustSign": int(s2.RobustSign(emb.Dyadic(c.A, 3), emb.Dyadic(c.B, 3), emb.Dyadic(c.C, 3)))}
	}
}

func opCmpDist(raw json.RawMessage, o *Out) {
	var c struct {
		X, A, B emb.P3
		Exact   int
		Want    int
	}
	if err := json.Unmarshal(raw, &c); err != nil {
		panic(err)
	}
	class := "separated"
	if c.Exact == 0 {
		class = "tie"
		if c.A != c.B {
			o.nontrivial = true
			o.Count("exact_distance_ties")
		}
	}
	for _, k := range []int{3, 9} {
		x, a, b := emb.Dyadic(c.X, k), emb.Dyadic(c.A, k), emb.Dyadic(c.B, k)
		if g := s2.VerifExactCompareDistances(x, a, b); g != c.Exact {
			o.Fail("cmpdist/exact/"+class, "exactCompareDistances(x=%v,a=%v,b=%v)*2^-%d = %d, model %d", c.X, c.A, c.B, k, g, c.Exact)
		}
		if c.Exact == 0 {
			if g := s2.VerifSymbolicCompareDistances(x, a, b); g != c.Want {
				o.Fail("cmpdist/symbolic/"+class, "symbolicCompareDistances(x=%v,a=%v,b=%v) = %d, model %d", c.X, c.A, c.B, g, c.Want)
			}
		}
	}
	x, a, b := emb.Unit(c.X), emb.Unit(c.A), emb.Unit(c.B)
	g := s2.CompareDistances(x, a, b)
	h := s2.CompareDistances(x, b, a)
	if g != -h {
		o.Fail("cmpdist/antisymmetry/"+class, "CompareDistances(x=%v,a=%v,b=%v)=%d but swapped=%d", c.X, c.A, c.B, g, h)
	}
	if (g == 0) != (a == b) {
		o.Fail("cmpdist/zero-iff-equal/"+class, "CompareDistances(x=%v,a=%v,b=%v)=%d", c.X, c.A, c.B, g)
	}
	if c.Exact != 0 {
		if g != c.Exact {
			o.Fail("cmpdist/CompareDistances/"+class, "CompareDistances(x=%v,a=%v,b=%v) unit = %d, model %d", c.X, c.A, c.B, g, c.Exact)
		}
		if t := s2.VerifTriageCompareCosDistances(x, a, b); t != 0 && t != c.Exact {
			o.Fail("cmpdist/triage-cos/"+class, "triageCompareCosDistances(x=%v,a=%v,b=%v) = %d, model %d", c.X, c.A, c.B, t, c.Exact)
		}
		ca := a.Dot(x.Vector)
		cb := b.Dot(x.Vector)
		if (ca > 0.71 && cb > 0.71) || (ca < -0.71 && cb < -0.71) {
			t := s2.VerifTriageCompareSin2Distances(x, a, b)
			if ca < 0 {
				t = -t
			}
			if t != 0 && t != c.Exact {
				o.Fail("cmpdist/triage-sin2/"+class, "triageCompareSin2Distances(x=%v,a=%v,b=%v) = %d, model %d", c.X, c.A, c.B, t, c.Exact)
			}
		}
		if t := s2.VerifExactCompareDistances(x, a, b); t != c.Exact {
			o.Fail("cmpdist/exact-unit/"+class, "exactCompareDistances unit (x=%v,a=%v,b=%v) = %d, model %d", c.X, c.A, c.B, t, c.Exact)
		}
	}
	if o.nontrivial {
		o.sample = map[string]any{"op": "cmpdist", "x": c.X, "a": c.A, "b": c.B, "exact": c.Exact, "model": c.Want, "unitResult": g}
	}
}

func opCmpDist1(raw json.RawMessage, o *Out) {
	var c struct {
		X, Y emb.P3
		Want map[string]int
		Dot  int
	}
	if err := json.Unmarshal(raw, &c); err != nil {
		panic(err)
	}
	// SignDotProd (requires |a|^2 <= 2: dyadic embedding)
	for _, k := range []int{3, 20} {
		x, y := emb.Dyadic(c.X, k), emb.Dyadic(c.Y, k)
		if g := s2.SignDotProd(x, y); g != c.Dot {
			o.Fail("sdp/SignDotProd", "SignDotProd(%v,%v)*2^-%d = %d, model %d", c.X, c.Y, k, g, c.Dot)
		}
		if g := s2.VerifTriageSignDotProd(x, y); g != 0 && g != c.Dot {
			o.Fail("sdp/triage", "triageSignDotProd(%v,%v) = %d, model %d", c.X, c.Y, g, c.Dot)
		}
	}
	ux, uy := emb.Unit(c.X), emb.Unit(c.Y)
	if c.Dot != 0 {
		if g := s2.SignDotProd(ux, uy); g != c.Dot {
			o.Fail("sdp/SignDotProd-unit", "SignDotProd unit (%v,%v) = %d, model %d", c.X, c.Y, g, c.Dot)
		}
	}
	for k := 0; k <= 32; k++ {
		want := c.Want[fmt.Sprint(k)]
		r := s1.ChordAngle(float64(k) / 8)
		class := "separated"
		if want == 0 {
			class = "tie"
			o.nontrivial = true
		}
		dx, dy := emb.Dyadic(c.X, 3), emb.Dyadic(c.Y, 3)
		if g := s2.VerifExactCompareDistance(dx, dy, r); g != want {
			o.Fail("cmpdist1/exact/"+class, "exactCompareDistance(%v,%v,r2=%d/8) = %d, model %d", c.X, c.Y, k, g, want)
		}
		if want != 0 {
			if g := s2.CompareDistance(ux, uy, r); g != want {
				o.Fail("cmpdist1/CompareDistance/"+class, "CompareDistance unit (%v,%v,r2=%d/8) = %d, model %d", c.X, c.Y, k, g, want)
			}
			if g := s2.VerifTriageCompareCosDistance(ux, uy, r); g != 0 && g != want {
				o.Fail("cmpdist1/triage-cos/"+class, "triageCompareCosDistance(%v,%v,r2=%d/8) = %d, model %d", c.X, c.Y, k, g, want)
			}
			if k < 4 && c.Dot > 0 { // XY < 90 and r < 45 degrees: squared chord < 2 - sqrt2 = 0.586
				if g := s2.VerifTriageCompareSin2Distance(ux, uy, r); g != 0 && g != want {
					o.Fail("cmpdist1/triage-sin2/"+class, "triageCompareSin2Distance(%v,%v,r2=%d/8) = %d, model %d", c.X, c.Y, k, g, want)
				}
			}
		}
	}
	// Exactly proportional unit-length points that are not bitwise equal / bitwise negations: X an axis
	// point, Y parallel to it, embedded as X and +-X*(1 - 2^-53) resp. +-X*(1 + 2^-52) (exact products).
	// The distance between the directions is exactly 0 or 180 degrees, so every limit has a model
	// answer, ties included, and the whole pipeline (triage stages included) must give it.
	ax := 0
	for _, v := range c.X {
		if v != 0 {
			ax++
		}
	}
	cross0 := c.X[1]*c.Y[2]-c.X[2]*c.Y[1] == 0 && c.X[2]*c.Y[0]-c.X[0]*c.Y[2] == 0 && c.X[0]*c.Y[1]-c.X[1]*c.Y[0] == 0
	if ax == 1 && c.X[0]*c.X[0]+c.X[1]*c.X[1]+c.X[2]*c.X[2] == 1 && cross0 && c.Dot != 0 {
		x := emb.Dyadic(c.X, 0)
		for _, scale := range []float64{1 - 0x1p-53, 1 + 0x1p-52} {
			y := s2.Point{Vector: x.Mul(float64(c.Dot) * scale)}
			for k := 0; k <= 32; k++ {
				want := c.Want[fmt.Sprint(k)]
				r := s1.ChordAngle(float64(k) / 8)
				if g := s2.CompareDistance(x, y, r); g != want {
					o.Fail("cmpdist1/CompareDistance/proportional", "CompareDistance(%v, %v*%v, r2=%d/8) = %d, model %d", c.X, c.Dot, scale, k, g, want)
				}
				if g := s2.CompareDistance(y, x, r); g != want {
					o.Fail("cmpdist1/CompareDistance/proportional", "CompareDistance(%v*%v, %v, r2=%d/8) = %d, model %d", c.Dot, scale, c.X, k, g, want)
				}
			}
		}
		o.Count("proportional_axis_pairs")
		o.nontrivial = true
	}
	if o.nontrivial {
		o.sample = map[string]any{"op": "cmpdist1", "x": c.X, "y": c.Y, "model": c.Want}
	}
}

// opSignScale: two-scale world (Gen_SignScale): only the exact stage is defined for such
// (far from unit length) vectors; it must return the sign of the exact determinant.
func opSignScale(raw json.RawMessage, o *Out) {
	var c struct {
		M    [3][3]int
		K    [3][3]int
		Want int
		Lead int
	}
	if err := json.Unmarshal(raw, &c); err != nil {
		panic(err)
	}
	o.nontrivial = true
	var p [3]s2.Point
	for r := 0; r < 3; r++ {
		p[r] = emb.ColScaled(emb.P3{c.M[r][0], c.M[r][1], c.M[r][2]}, [3]int{-520 * c.K[r][0], -520 * c.K[r][1], -520 * c.K[r][2]})
	}
	if g := int(s2.VerifExactSign(p[0], p[1], p[2], false)); g != c.Want {
		o.Fail("signscale/exact-precision", "exactSign(perturb=false) of rows %v with exponents -520*%v = %d, exact sign %d (leading power %d)", c.M, c.K, g, c.Want, c.Lead)
	}
	if g := int(s2.VerifExactSign(p[1], p[2], p[0], false)); g != c.Want {
		o.Fail("signscale/exact-precision-rotated", "exactSign of rotated rows %v exponents %v = %d, exact sign %d", c.M, c.K, g, c.Want)
	}
	o.sample = map[string]any{"op": "signscale", "m": c.M, "k": c.K, "want": c.Want}
}
