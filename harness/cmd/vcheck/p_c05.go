package main

// C05: coverings cover, interior coverings are contained, level limits are honoured;
// region predicates are one-sidedly safe.  Cases come from spec/Gen_Coverer.tla.
//
//   coverchunk  discrete regions (sets of depth-D cells below face or anchor roots) x the
//               270 configurations: the real RegionCoverer runs on a harness-implemented
//               exact s2.Region (or on the real s2.CellUnion / s2.Cell); results are
//               projected to leaf-id ranges and compared with the leaf set TLC emitted.
//   denorm      CellUnion.Denormalize against the exact result computed by the spec.
//   canonical   RegionCoverer.IsCanonical against the exact verdicts computed by the spec.
//   grid        W2 loops / polygons with a hole / polylines along grid lines built from
//               Cell.Vertex corners; the region is exactly a set of level-G cells.
//   region      float regions (caps, rects, regular loops, polylines, points) - relational:
//               witnesses are leaf-cell centres judged by the region's own ContainsPoint.

import (
	"encoding/json"
	"fmt"
	"math"
	"os"
	"runtime/debug"
	"sort"
	"strings"
	"sync"

	"github.com/golang/geo/r1"
	"github.com/golang/geo/s1"
	"github.com/golang/geo/s2"

	"verifharness/emb"
)

func init() {
	register("coverchunk", opC05Chunk)
	register("denorm", opC05Denorm)
	register("canonical", opC05Canonical)
	register("grid", opC05Grid)
	register("region", opC05Region)
	register("gridline", opC05GridLine)
}

// ---------------------------------------------------------------- id arithmetic (raw bits)

func c05Lsb(id s2.CellID) uint64        { return uint64(id) & -uint64(id) }
func c05Lo(id s2.CellID) uint64         { return uint64(id) - (c05Lsb(id) - 1) }
func c05Hi(id s2.CellID) uint64         { return uint64(id) + (c05Lsb(id) - 1) }
func c05LsbForLevel(level int) uint64   { return uint64(1) << uint(2*(30-level)) }
func c05Contains(a, b s2.CellID) bool   { return c05Lo(a) <= c05Lo(b) && c05Hi(b) <= c05Hi(a) }
func c05Intersects(a, b s2.CellID) bool { return c05Contains(a, b) || c05Contains(b, a) }
func c05Parent(id s2.CellID, level int) s2.CellID {
	l := c05LsbForLevel(level)
	return s2.CellID((uint64(id) & -l) | l)
}

type c05Range struct{ lo, hi uint64 }

// c05Merge sorts and merges the leaf-id ranges of ids (adjacent leaves differ by 2).
func c05Merge(ids []s2.CellID) []c05Range {
	rs := make([]c05Range, 0, len(ids))
	for _, id := range ids {
		rs = append(rs, c05Range{c05Lo(id), c05Hi(id)})
	}
	sort.Slice(rs, func(i, j int) bool { return rs[i].lo < rs[j].lo })
	out := rs[:0]
	for _, r := range rs {
		if n := len(out); n > 0 && r.lo <= out[n-1].hi+2 {
			if r.hi > out[n-1].hi {
				out[n-1].hi = r.hi
			}
			continue
		}
		out = append(out, r)
	}
	return out
}

func c05RangeInside(m []c05Range, lo, hi uint64) bool {
	i := sort.Search(len(m), func(i int) bool { return m[i].hi >= lo })
	return i < len(m) && m[i].lo <= lo && hi <= m[i].hi
}

func c05RangeMeets(m []c05Range, lo, hi uint64) bool {
	i := sort.Search(len(m), func(i int) bool { return m[i].hi >= lo })
	return i < len(m) && m[i].lo <= hi
}

// c05FirstUncovered returns a cell of need that is not inside the leaf set of have.
func c05FirstUncovered(need, have []s2.CellID) (s2.CellID, bool) {
	m := c05Merge(have)
	for _, id := range need {
		if !c05RangeInside(m, c05Lo(id), c05Hi(id)) {
			return id, true
		}
	}
	return 0, false
}

// ---------------------------------------------------------------- the discrete region

// c05Disc is an exact region: the union of the given cells, all of one level.
type c05Disc struct {
	level int
	cells []s2.CellID // sorted
	bound []s2.CellID
}

func (r *c05Disc) has(id s2.CellID) bool {
	i := sort.Search(len(r.cells), func(i int) bool { return r.cells[i] >= id })
	return i < len(r.cells) && r.cells[i] == id
}
func (r *c05Disc) count(id s2.CellID) int {
	lo, hi := c05Lo(id), c05Hi(id)
	i := sort.Search(len(r.cells), func(i int) bool { return uint64(r.cells[i]) >= lo })
	j := sort.Search(len(r.cells), func(i int) bool { return uint64(r.cells[i]) > hi })
	return j - i
}
func (r *c05Disc) ContainsCell(c s2.Cell) bool {
	id := c.ID()
	lv := emb.RawLevel(id)
	if lv >= r.level {
		return r.has(c05Parent(id, r.level))
	}
	d := r.level - lv
	if d > 15 {
		return false
	}
	return r.count(id) == 1<<uint(2*d)
}
func (r *c05Disc) IntersectsCell(c s2.Cell) bool {
	id := c.ID()
	lv := emb.RawLevel(id)
	if lv >= r.level {
		return r.has(c05Parent(id, r.level))
	}
	return r.count(id) > 0
}
func (r *c05Disc) ContainsPoint(p s2.Point) bool {
	return r.has(c05Parent(c05LeafOf(p), r.level))
}
func (r *c05Disc) CapBound() s2.Cap            { return s2.FullCap() }
func (r *c05Disc) RectBound() s2.Rect          { return s2.FullRect() }
func (r *c05Disc) CellUnionBound() []s2.CellID { return append([]s2.CellID(nil), r.bound...) }

// ---------------------------------------------------------------- model <-> real

type c05MCell [3]int // <<root, level, k>>

func c05PathOf(level, k int) []int {
	p := make([]int, level)
	for i := level - 1; i >= 0; i-- {
		p[i] = k & 3
		k >>= 2
	}
	return p
}

func c05Real(roots []s2.CellID, c c05MCell) s2.CellID {
	return emb.Under(roots[c[0]], c05PathOf(c[1], c[2]))
}

// c05Project maps a real id to the model cell below one of the roots.
func c05Project(roots []s2.CellID, id s2.CellID) (c05MCell, bool) {
	for r, root := range roots {
		if c05Contains(root, id) {
			k := 0
			for _, d := range emb.PathBelow(root, id) {
				k = k<<2 | d
			}
			return c05MCell{r, emb.RawLevel(id) - emb.RawLevel(root), k}, true
		}
	}
	return c05MCell{}, false
}

func c05ProjectAll(roots []s2.CellID, ids []s2.CellID) ([]c05MCell, bool) {
	out := make([]c05MCell, 0, len(ids))
	for _, id := range ids {
		m, ok := c05Project(roots, id)
		if !ok {
			return nil, false
		}
		out = append(out, m)
	}
	return out, true
}

// ---------------------------------------------------------------- clause checks on real ids

func c05LevelOK(l, mn, mx, md int) bool { return l >= mn && l <= mx && (l-mn)%md == 0 }

func c05LevelsOK(ids []s2.CellID, mn, mx, md int) (s2.CellID, bool) {
	for _, id := range ids {
		if !c05LevelOK(emb.RawLevel(id), mn, mx, md) {
			return id, false
		}
	}
	return 0, true
}

// c05DenormLevel is Coverer!DenormLevel with cap = 30.
func c05DenormLevel(l, mn, md int) int {
	a := l
	if mn > a {
		a = mn
	}
	b := a + (md-(a-mn)%md)%md
	if b > 30 {
		b = 30
	}
	return b
}

func c05Normalized(ids []s2.CellID) bool {
	for i := range ids {
		if i > 0 && c05Hi(ids[i-1]) >= c05Lo(ids[i]) {
			return false
		}
	}
	// no four siblings
	set := map[s2.CellID]bool{}
	for _, id := range ids {
		set[id] = true
	}
	for _, id := range ids {
		l := emb.RawLevel(id)
		if l == 0 {
			continue
		}
		par := c05Parent(id, l-1)
		lsb := c05Lsb(id)
		all := true
		for k := 0; k < 4; k++ {
			// child k of par: its range starts at lo(par) + k*(2*lsb), its id is that + lsb - 1
			child := s2.CellID(c05Lo(par) - 1 + uint64(2*k+1)*lsb)
			if !set[child] {
				all = false
				break
			}
		}
		if all {
			return false
		}
	}
	return true
}

// c05UnionLimits is Coverer!UnionLimitsOK.
func c05UnionLimits(ids []s2.CellID, mn, mx, md int) bool {
	if !c05Normalized(ids) {
		return false
	}
	for _, id := range ids {
		l := emb.RawLevel(id)
		if l > mx {
			return false
		}
		if !c05LevelOK(c05DenormLevel(l, mn, md), mn, mx, md) {
			return false
		}
	}
	return true
}

func c05Fmt(ids []s2.CellID) string {
	s := "["
	for i, id := range ids {
		if i > 0 {
			s += " "
		}
		if i >= 24 {
			s += fmt.Sprintf("... %d cells", len(ids))
			break
		}
		s += fmt.Sprintf("%d/%v", uint64(id)>>61, emb.RawPath(id))
	}
	return s + "]"
}

// ---------------------------------------------------------------- coverchunk

type c05RegionCase struct {
	Kind   string
	No     int
	D      int
	Leaves []int
	Canon  []c05MCell
	NMin   []int
}

var c05ObsMu sync.Mutex

func c05WriteObs(rec map[string]any) {
	path := os.Getenv("VERIF_C05_OBS")
	if path == "" {
		return
	}
	b, _ := json.Marshal(rec)
	c05ObsMu.Lock()
	defer c05ObsMu.Unlock()
	f, err := os.OpenFile(path, os.O_APPEND|os.O_CREATE|os.O_WRONLY, 0o644)
	if err != nil {
		panic(err)
	}
	f.Write(append(b, '\n'))
	f.Close()
}

func opC05Chunk(raw json.RawMessage, o *Out) {
	var c struct {
		Cfgs     [][4]int
		Roots    []emb.Cell
		Impl     string // disc | cu | cell
		Bound    string // root | cells
		ObsEvery int
		Regions  []c05RegionCase
	}
	if err := json.Unmarshal(raw, &c); err != nil {
		panic(err)
	}
	roots := make([]s2.CellID, len(c.Roots))
	for i, r := range c.Roots {
		roots[i] = r.ID()
	}
	a := emb.RawLevel(roots[0]) // anchor level: real level = a + model level
	embName := "top"
	if a == 26 {
		embName = "leaf" // model level 4 is the real leaf level
	} else if a > 0 {
		embName = "deep"
	}
	for _, rg := range c.Regions {
		p4d := 1 << uint(2*rg.D)
		cells := make([]s2.CellID, 0, len(rg.Leaves))
		for _, g := range rg.Leaves {
			cells = append(cells, c05Real(roots, c05MCell{g / p4d, rg.D, g % p4d}))
		}
		sort.Slice(cells, func(i, j int) bool { return cells[i] < cells[j] })
		canon := make([]s2.CellID, 0, len(rg.Canon))
		for _, m := range rg.Canon {
			canon = append(canon, c05Real(roots, m))
		}
		var region s2.Region
		switch c.Impl {
		case "disc":
			d := &c05Disc{level: a + rg.D, cells: cells}
			if c.Bound == "cells" {
				d.bound = canon
			} else {
				// the roots that meet the region
				for _, root := range roots {
					if d.count(root) > 0 {
						d.bound = append(d.bound, root)
					}
				}
			}
			region = d
		case "cu":
			cu := s2.CellUnion(append([]s2.CellID(nil), canon...))
			region = &cu
		case "cell":
			if len(canon) != 1 {
				continue
			}
			region = s2.CellFromCellID(canon[0])
		default:
			panic("impl " + c.Impl)
		}
		if len(rg.Leaves) > 0 && len(rg.Leaves) < p4d*len(roots) {
			o.nontrivial = true
		}
		regionDesc := fmt.Sprintf("roots=%s region(level %d)=%s impl=%s/%s", c05Fmt(roots), a+rg.D, c05Fmt(cells), c.Impl, c.Bound)
		for ci, cf := range c.Cfgs {
			mn, mx, md, mc := a+cf[0], a+cf[1], cf[2], cf[3]
			rc := &s2.RegionCoverer{MinLevel: mn, MaxLevel: mx, LevelMod: md, MaxCells: mc}
			cov := rc.Covering(region)
			fast := rc.FastCovering(region)
			inter := rc.InteriorCovering(region)
			cu := rc.CellUnion(region)
			icu := rc.InteriorCellUnion(region)
			o.Count("coverer_runs")
			desc := fmt.Sprintf("%s cfg{MinLevel:%d MaxLevel:%d LevelMod:%d MaxCells:%d}", regionDesc, mn, mx, md, mc)
			cls := fmt.Sprintf("md%d/%s", md, embName)
			v := map[string]bool{}
			// --- Covering
			if id, bad := c05FirstUncovered(cells, cov); bad {
				o.Fail("cover/Covering/covers/"+cls, "region cell %s not covered: Covering=%s %s", c05Fmt([]s2.CellID{id}), c05Fmt(cov), desc)
			} else {
				v["cov_covers"] = true
			}
			if id, ok := c05LevelsOK(cov, mn, mx, md); !ok {
				o.Fail("cover/Covering/levels/"+cls, "cell %s (level %d) violates the level limits: Covering=%s %s", c05Fmt([]s2.CellID{id}), emb.RawLevel(id), c05Fmt(cov), desc)
			} else {
				v["cov_levels"] = true
			}
			// Coverer!MaxCellsOK: MaxCells may be exceeded only if the minimum number of cells
			// required at MinLevel exceeds it; with MinLevel = 0 the result is then that minimum
			need := rg.NMin[cf[0]]
			if len(cov) <= mc || (need > mc && (cf[0] > 0 || len(cov) <= rg.NMin[0])) {
				v["cov_maxcells"] = true
			} else {
				o.Fail("cover/Covering/maxcells/"+cls, "%d cells > MaxCells although %d cells suffice at MinLevel: Covering=%s %s", len(cov), need, c05Fmt(cov), desc)
			}
			// --- FastCovering
			if id, bad := c05FirstUncovered(cells, fast); bad {
				o.Fail("cover/FastCovering/covers/"+cls, "region cell %s not covered: FastCovering=%s %s", c05Fmt([]s2.CellID{id}), c05Fmt(fast), desc)
			} else {
				v["fast_covers"] = true
			}
			if id, ok := c05LevelsOK(fast, mn, mx, md); !ok {
				o.Fail("cover/FastCovering/levels/"+cls, "cell %s (level %d) violates the level limits: FastCovering=%s %s", c05Fmt([]s2.CellID{id}), emb.RawLevel(id), c05Fmt(fast), desc)
			} else {
				v["fast_levels"] = true
			}
			// --- InteriorCovering
			if id, bad := c05FirstUncovered(inter, cells); bad {
				o.Fail("cover/InteriorCovering/inside/"+cls, "cell %s is not inside the region: InteriorCovering=%s %s", c05Fmt([]s2.CellID{id}), c05Fmt(inter), desc)
			} else {
				v["int_inside"] = true
			}
			if id, ok := c05LevelsOK(inter, mn, mx, md); !ok {
				o.Fail("cover/InteriorCovering/levels/"+cls, "cell %s (level %d) violates the level limits: InteriorCovering=%s %s", c05Fmt([]s2.CellID{id}), emb.RawLevel(id), c05Fmt(inter), desc)
			} else {
				v["int_levels"] = true
			}
			// --- CellUnion / InteriorCellUnion
			if id, bad := c05FirstUncovered(cells, cu); bad {
				o.Fail("cover/CellUnion/covers/"+cls, "region cell %s not covered: CellUnion=%s %s", c05Fmt([]s2.CellID{id}), c05Fmt(cu), desc)
			} else {
				v["cu_covers"] = true
			}
			if !c05UnionLimits(cu, mn, mx, md) {
				o.Fail("cover/CellUnion/limits/"+cls, "not normalized, or a cell below MaxLevel, or its (min,mod)-denormalisation violates the limits: CellUnion=%s %s", c05Fmt(cu), desc)
			} else {
				v["cu_limits"] = true
			}
			if id, bad := c05FirstUncovered(icu, cells); bad {
				o.Fail("cover/InteriorCellUnion/inside/"+cls, "cell %s is not inside the region: InteriorCellUnion=%s %s", c05Fmt([]s2.CellID{id}), c05Fmt(icu), desc)
			} else {
				v["icu_inside"] = true
			}
			if !c05UnionLimits(icu, mn, mx, md) {
				o.Fail("cover/InteriorCellUnion/limits/"+cls, "not normalized, or a cell below MaxLevel, or its (min,mod)-denormalisation violates the limits: InteriorCellUnion=%s %s", c05Fmt(icu), desc)
			} else {
				v["icu_limits"] = true
			}
			// --- direction B: log a sample for validation by the specification
			if c.ObsEvery > 0 && (rg.No*31+ci*17)%c.ObsEvery == 0 {
				pc, ok1 := c05ProjectAll(roots, cov)
				pf, ok2 := c05ProjectAll(roots, fast)
				pi, ok3 := c05ProjectAll(roots, inter)
				pu, ok4 := c05ProjectAll(roots, cu)
				pv, ok5 := c05ProjectAll(roots, icu)
				if ok1 && ok2 && ok3 && ok4 && ok5 {
					for _, k := range []string{"cov_covers", "cov_levels", "cov_maxcells", "fast_covers", "fast_levels", "int_inside", "int_levels", "cu_covers", "cu_limits", "icu_inside", "icu_limits"} {
						if !v[k] {
							v[k] = false
						}
					}
					v["cov_canonical"] = rc.IsCanonical(cov)
					c05WriteObs(map[string]any{"d": rg.D, "leaves": rg.Leaves, "cfg": cf, "cap": 30 - a,
						"cov": pc, "fast": pf, "int": pi, "cu": pu, "icu": pv, "verdict": v,
						"roots": c.Roots, "impl": c.Impl})
					o.Count("observations_logged")
				}
			}
		}
	}
	if len(c.Regions) > 0 {
		o.sample = map[string]any{"op": "coverchunk", "impl": c.Impl, "bound": c.Bound, "roots": c.Roots,
			"first_region_leaves": c.Regions[0].Leaves, "configs": len(c.Cfgs), "regions": len(c.Regions)}
	}
}

// ---------------------------------------------------------------- denorm / canonical

func c05RootsOf(rs []emb.Cell) []s2.CellID {
	out := make([]s2.CellID, len(rs))
	for i, r := range rs {
		out[i] = r.ID()
	}
	return out
}

func opC05Denorm(raw json.RawMessage, o *Out) {
	var c struct {
		Roots  []emb.Cell
		X      []c05MCell
		Mn, Md int
		Cap    int
		Want   []c05MCell
	}
	if err := json.Unmarshal(raw, &c); err != nil {
		panic(err)
	}
	roots := c05RootsOf(c.Roots)
	a := emb.RawLevel(roots[0])
	if 30-a != c.Cap && !(c.Cap == 30 && a+c.Mn+3 <= 30) {
		panic("denorm: embedding does not realise the cap of the case")
	}
	var cu s2.CellUnion
	for _, m := range c.X {
		cu = append(cu, c05Real(roots, m))
	}
	in := append([]s2.CellID(nil), cu...)
	var want []s2.CellID
	for _, m := range c.Want {
		want = append(want, c05Real(roots, m))
	}
	cu.Denormalize(a+c.Mn, c.Md)
	o.nontrivial = len(want) != len(in)
	same := len(cu) == len(want)
	for i := 0; same && i < len(want); i++ {
		same = cu[i] == want[i]
	}
	if !same {
		o.Fail(fmt.Sprintf("denorm/result/md%d", c.Md), "Denormalize(%d, %d) of %s = %s, specification: %s", a+c.Mn, c.Md, c05Fmt(in), c05Fmt(cu), c05Fmt(want))
	}
	o.sample = map[string]any{"op": "denorm", "x": c.X, "mn": c.Mn, "md": c.Md, "cap": c.Cap, "want_cells": len(c.Want)}
}

func opC05Canonical(raw json.RawMessage, o *Out) {
	var c struct {
		Roots []emb.Cell
		Cfgs  [][4]int
		X     []c05MCell
		Want  []int // 1-based indices of the configurations for which x is canonical
	}
	if err := json.Unmarshal(raw, &c); err != nil {
		panic(err)
	}
	roots := c05RootsOf(c.Roots)
	a := emb.RawLevel(roots[0])
	var cu s2.CellUnion
	for _, m := range c.X {
		cu = append(cu, c05Real(roots, m))
	}
	want := map[int]bool{}
	for _, i := range c.Want {
		want[i] = true
	}
	o.nontrivial = len(c.Want) > 0
	for i, cf := range c.Cfgs {
		rc := &s2.RegionCoverer{MinLevel: a + cf[0], MaxLevel: a + cf[1], LevelMod: cf[2], MaxCells: cf[3]}
		got := rc.IsCanonical(cu)
		o.Count("iscanonical_evals")
		if got != want[i+1] {
			o.Fail(fmt.Sprintf("canonical/verdict/%v", want[i+1]), "IsCanonical(%s) = %v with {MinLevel:%d MaxLevel:%d LevelMod:%d MaxCells:%d}, specification: %v",
				c05Fmt(cu), got, a+cf[0], a+cf[1], cf[2], cf[3], want[i+1])
		}
	}
	o.sample = map[string]any{"op": "canonical", "x": c.X, "canonical_for": len(c.Want)}
}

// ---------------------------------------------------------------- W2 regions

// c05Corner returns the grid point (i,j) of level g on face f as the real cell vertex.
func c05Corner(f, g, i, j int) s2.Point {
	n := 1 << uint(g)
	ci, cj, k := i, j, 0
	if i == n {
		ci = n - 1
		k = 1
	}
	if j == n {
		cj = n - 1
		if k == 1 {
			k = 2
		} else {
			k = 3
		}
	}
	return s2.CellFromCellID(emb.FromFaceIJ(f, g, ci, cj)).Vertex(k)
}

func c05Clamp(x, lo, hi int) int {
	if x < lo {
		return lo
	}
	if x > hi {
		return hi
	}
	return x
}

// c05RelCfg turns a relative configuration into a real one around the natural level nat.
func c05RelCfg(nat int, r [4]int) (mn, mx, md, mc int) {
	mn = 0
	if r[0] != -99 {
		mn = c05Clamp(nat+r[0], 0, 30)
	}
	mx = c05Clamp(nat+r[1], mn, 30)
	return mn, mx, r[2], r[3]
}

func opC05Grid(raw json.RawMessage, o *Out) {
	var c struct {
		Face, G  int
		Rect     [4]int
		Hole     int
		Shell    [][2]int
		Holewalk [][2]int
		Squares  [][2]int
		Cfgs     [][4]int
	}
	if err := json.Unmarshal(raw, &c); err != nil {
		panic(err)
	}
	o.nontrivial = true
	pts := func(w [][2]int) []s2.Point {
		out := make([]s2.Point, len(w))
		for i, ij := range w {
			out[i] = c05Corner(c.Face, c.G, ij[0], ij[1])
		}
		return out
	}
	squares := make([]s2.CellID, 0, len(c.Squares))
	for _, ij := range c.Squares {
		squares = append(squares, emb.FromFaceIJ(c.Face, c.G, ij[0], ij[1]))
	}
	sqm := c05Merge(squares)
	type variant struct {
		name   string
		region s2.Region
	}
	var vs []variant
	shell := s2.LoopFromPoints(pts(c.Shell))
	if c.Hole == 0 {
		vs = append(vs, variant{"loop", shell})
		vs = append(vs, variant{"polygon", s2.PolygonFromLoops([]*s2.Loop{s2.LoopFromPoints(pts(c.Shell))})})
	} else {
		hole := s2.LoopFromPoints(pts(c.Holewalk))
		vs = append(vs, variant{"polygon-hole", s2.PolygonFromLoops([]*s2.Loop{shell, hole})})
	}
	desc0 := fmt.Sprintf("face %d grid level %d rect [%d,%d)x[%d,%d) hole variant %d (%d shell vertices)", c.Face, c.G, c.Rect[0], c.Rect[1], c.Rect[2], c.Rect[3], c.Hole, len(c.Shell))
	for _, v := range vs {
		desc := v.name + " " + desc0
		// --- the predicates on every cell of the face down to level G+1, and the face cells
		var probe []s2.CellID
		for f := 0; f < 6; f++ {
			probe = append(probe, emb.RawID(f, nil))
		}
		for l := 1; l <= c.G+1; l++ {
			n := 1 << uint(l)
			for i := 0; i < n; i++ {
				for j := 0; j < n; j++ {
					probe = append(probe, emb.FromFaceIJ(c.Face, l, i, j))
				}
			}
		}
		for _, id := range probe {
			cell := s2.CellFromCellID(id)
			inside := c05RangeInside(sqm, c05Lo(id), c05Hi(id))
			meets := c05RangeMeets(sqm, c05Lo(id), c05Hi(id))
			o.Count("grid_predicate_evals")
			if v.region.ContainsCell(cell) && !inside {
				o.Fail("grid/"+v.name+"/ContainsCell-true-but-not-inside", "ContainsCell(%s)=true but the cell is not inside the region: %s", c05Fmt([]s2.CellID{id}), desc)
			}
			if !v.region.IntersectsCell(cell) && meets {
				o.Fail("grid/"+v.name+"/IntersectsCell-false-but-overlaps", "IntersectsCell(%s)=false but the cell shares interior with the region: %s", c05Fmt([]s2.CellID{id}), desc)
			}
			// centre probes: ContainsPoint is exact in W2
			if emb.RawLevel(id) == c.G+1 {
				if got := v.region.ContainsPoint(id.Point()); got != inside {
					o.Fail("grid/"+v.name+"/ContainsPoint", "ContainsPoint(centre of %s)=%v, model %v: %s", c05Fmt([]s2.CellID{id}), got, inside, desc)
				}
			}
		}
		// --- the coverer
		for _, rel := range c.Cfgs {
			mn, mx, md, mc := c05RelCfg(c.G, rel)
			rc := &s2.RegionCoverer{MinLevel: mn, MaxLevel: mx, LevelMod: md, MaxCells: mc}
			cd := fmt.Sprintf("%s cfg{MinLevel:%d MaxLevel:%d LevelMod:%d MaxCells:%d}", desc, mn, mx, md, mc)
			cls := fmt.Sprintf("%s/md%d", v.name, md)
			c05CheckExact(o, "grid", cls, cd, rc, v.region, squares)
		}
	}
	o.sample = map[string]any{"op": "grid", "face": c.Face, "g": c.G, "rect": c.Rect, "hole": c.Hole, "cfgs": len(c.Cfgs)}
}

// opC05GridLine: a polyline through the centres of a row and a column of level-G cells.
func opC05GridLine(raw json.RawMessage, o *Out) {
	var c struct {
		Face, G int
		Rect    [4]int
		Verts   [][2]int
		Cells   [][2]int
		Cfgs    [][4]int
	}
	if err := json.Unmarshal(raw, &c); err != nil {
		panic(err)
	}
	o.nontrivial = true
	var pl s2.Polyline
	for _, ij := range c.Verts {
		pl = append(pl, emb.FromFaceIJ(c.Face, c.G, ij[0], ij[1]).Point())
	}
	path := make([]s2.CellID, 0, len(c.Cells))
	for _, ij := range c.Cells {
		path = append(path, emb.FromFaceIJ(c.Face, c.G, ij[0], ij[1]))
	}
	desc := fmt.Sprintf("polyline through the centres of level-%d cells %v on face %d", c.G, c.Verts, c.Face)
	// every cell the line runs through the middle of, and each of its ancestors, intersects it
	for _, id := range path {
		for l := 0; l <= c.G; l++ {
			a := c05Parent(id, l)
			if !pl.IntersectsCell(s2.CellFromCellID(a)) {
				o.Fail("gridline/IntersectsCell-false-on-path", "IntersectsCell(%s)=false but the line runs through the middle of %s: %s", c05Fmt([]s2.CellID{a}), c05Fmt([]s2.CellID{id}), desc)
			}
		}
	}
	for _, rel := range c.Cfgs {
		mn, mx, md, mc := c05RelCfg(c.G, rel)
		rc := &s2.RegionCoverer{MinLevel: mn, MaxLevel: mx, LevelMod: md, MaxCells: mc}
		cd := fmt.Sprintf("%s cfg{MinLevel:%d MaxLevel:%d LevelMod:%d MaxCells:%d}", desc, mn, mx, md, mc)
		cls := fmt.Sprintf("md%d", md)
		o.Count("coverer_runs")
		for _, r := range []struct {
			name string
			ids  []s2.CellID
		}{{"Covering", rc.Covering(&pl)}, {"FastCovering", rc.FastCovering(&pl)}, {"CellUnion", rc.CellUnion(&pl)}} {
			if mx <= c.G {
				// covering cells are not finer than the path cells: each path cell must be inside one
				if id, bad := c05FirstUncovered(path, r.ids); bad {
					o.Fail("gridline/"+r.name+"/covers/"+cls, "path cell %s not covered: %s=%s %s", c05Fmt([]s2.CellID{id}), r.name, c05Fmt(r.ids), cd)
				}
			} else {
				m := c05Merge(r.ids)
				for _, id := range path {
					if !c05RangeMeets(m, c05Lo(id), c05Hi(id)) {
						o.Fail("gridline/"+r.name+"/misses-path-cell/"+cls, "no cell of %s=%s meets path cell %s: %s", r.name, c05Fmt(r.ids), c05Fmt([]s2.CellID{id}), cd)
						break
					}
				}
			}
			if r.name == "CellUnion" {
				if !c05UnionLimits(r.ids, mn, mx, md) {
					o.Fail("gridline/CellUnion/limits/"+cls, "not normalized, or a cell below MaxLevel, or its (min,mod)-denormalisation violates the limits: CellUnion=%s %s", c05Fmt(r.ids), cd)
				}
			} else if id, ok := c05LevelsOK(r.ids, mn, mx, md); !ok {
				o.Fail("gridline/"+r.name+"/levels/"+cls, "cell %s (level %d) violates the level limits: %s=%s %s", c05Fmt([]s2.CellID{id}), emb.RawLevel(id), r.name, c05Fmt(r.ids), cd)
			}
		}
		if mx-c.G <= 2 {
			if in := rc.InteriorCovering(&pl); len(in) != 0 {
				o.Fail("gridline/InteriorCovering/non-empty/"+cls, "a polyline has no interior but InteriorCovering=%s %s", c05Fmt(in), cd)
			}
		}
	}
	o.sample = map[string]any{"op": "gridline", "face": c.Face, "g": c.G, "verts": c.Verts, "cfgs": len(c.Cfgs)}
}

// c05CheckExact runs the five coverer calls on a region whose point set is exactly the
// union of the cells exact (up to boundaries) and checks the leaf-set postconditions.
func c05CheckExact(o *Out, op, cls, desc string, rc *s2.RegionCoverer, region s2.Region, exact []s2.CellID) {
	mn, mx, md := rc.MinLevel, rc.MaxLevel, rc.LevelMod
	o.Count("coverer_runs")
	type res struct {
		name     string
		ids      []s2.CellID
		interior bool
		union    bool
	}
	all := []res{
		{"Covering", rc.Covering(region), false, false},
		{"FastCovering", rc.FastCovering(region), false, false},
		{"InteriorCovering", rc.InteriorCovering(region), true, false},
		{"CellUnion", rc.CellUnion(region), false, true},
		{"InteriorCellUnion", rc.InteriorCellUnion(region), true, true},
	}
	for _, r := range all {
		if r.interior {
			if id, bad := c05FirstUncovered(r.ids, exact); bad {
				o.Fail(op+"/"+r.name+"/inside/"+cls, "cell %s is not inside the region: %s=%s %s", c05Fmt([]s2.CellID{id}), r.name, c05Fmt(r.ids), desc)
			}
		} else {
			if id, bad := c05FirstUncovered(exact, r.ids); bad {
				o.Fail(op+"/"+r.name+"/covers/"+cls, "region cell %s not covered: %s=%s %s", c05Fmt([]s2.CellID{id}), r.name, c05Fmt(r.ids), desc)
			}
		}
		if r.union {
			if !c05UnionLimits(r.ids, mn, mx, md) {
				o.Fail(op+"/"+r.name+"/limits/"+cls, "not normalized, or a cell below MaxLevel, or its (min,mod)-denormalisation violates the limits: %s=%s %s", r.name, c05Fmt(r.ids), desc)
			}
		} else if id, ok := c05LevelsOK(r.ids, mn, mx, md); !ok {
			o.Fail(op+"/"+r.name+"/levels/"+cls, "cell %s (level %d) violates the level limits: %s=%s %s", c05Fmt([]s2.CellID{id}), emb.RawLevel(id), r.name, c05Fmt(r.ids), desc)
		}
	}
	if mn == 0 {
		c05CheckMaxCells(o, op, cls, desc, rc, region, all[0].ids)
	}
}

// with MinLevel = 0 the least number of cells required is the number of faces the
// region (by its own IntersectsCell) meets.
func c05CheckMaxCells(o *Out, op, cls, desc string, rc *s2.RegionCoverer, region s2.Region, cov []s2.CellID) {
	faces := 0
	for f := 0; f < 6; f++ {
		if region.IntersectsCell(s2.CellFromCellID(emb.RawID(f, nil))) {
			faces++
		}
	}
	limit := rc.MaxCells
	if faces > limit {
		limit = faces
	}
	if len(cov) > limit {
		o.Fail(op+"/Covering/maxcells/"+cls, "%d cells > max(MaxCells, %d faces met): Covering=%s %s", len(cov), faces, c05Fmt(cov), desc)
	}
}

// ---------------------------------------------------------------- float regions (relational)

// "band" rectangles: degrees below the 45 degree apex of a cube edge, width and height in
// degrees, offset of the centre longitude from the apex meridian as a fraction of the width
var c05BandGaps = []float64{0.05, 0.5, 2, 6}
var c05BandWidths = []float64{20, 40, 60, 80, 120, 170}
var c05BandOffsets = []float64{0, 0.125, -0.2}
var c05BandHeights = []float64{0.5, 8, 30}

var c05Sizes = []float64{1e-7, 1e-5, 1e-3, 0.03, 0.3, 1.0, math.Pi/2 - 1e-7, math.Pi / 2, math.Pi/2 + 1e-7, 2.5, math.Pi - 1e-7, math.Pi}

func c05PlacePoint(p [5]int) s2.Point {
	id := emb.FromFaceIJ(p[0], p[1], p[2], p[3])
	if p[4] == 1 {
		return s2.CellFromCellID(id).Vertex(0)
	}
	return id.Point()
}

func c05LeafOf(p s2.Point) s2.CellID { return s2.CellFromPoint(p).ID() }

func c05Snap(p s2.Point) s2.Point { return c05LeafOf(p).Point() }

// c05Ring returns points at angular distance d from p in n directions.
func c05Ring(p s2.Point, d float64, n int) []s2.Point {
	x := p.Ortho()
	y := p.Cross(x).Normalize()
	out := make([]s2.Point, 0, n)
	for k := 0; k < n; k++ {
		t := 2*math.Pi*float64(k)/float64(n) + 0.1
		dir := x.Mul(math.Cos(t)).Add(y.Mul(math.Sin(t)))
		q := p.Mul(math.Cos(d)).Add(dir.Mul(math.Sin(d)))
		out = append(out, s2.Point{Vector: q.Normalize()})
	}
	return out
}

// c05CellProbes returns leaf cells of id: in its four corners, inside next to its four edge
// midpoints and around its centre (by (i,j) arithmetic on the defining tables).
func c05CellProbes(id s2.CellID) []s2.CellID {
	l := emb.RawLevel(id)
	if l == 30 {
		return []s2.CellID{id}
	}
	f := int(uint64(id) >> 61)
	i, j, _ := emb.IJ(id)
	sz := 1 << uint(30-l)
	i0, j0 := i*sz, j*sz
	h := sz / 2
	var out []s2.CellID
	for _, ij := range [][2]int{
		{i0, j0}, {i0 + sz - 1, j0}, {i0 + sz - 1, j0 + sz - 1}, {i0, j0 + sz - 1}, // corners
		{i0 + h, j0}, {i0 + sz - 1, j0 + h}, {i0 + h, j0 + sz - 1}, {i0, j0 + h}, // edge midpoints
		{i0 + h, j0 + h}, {i0 + h - 1, j0 + h - 1}, // centre
	} {
		out = append(out, emb.FromFaceIJ(f, 30, ij[0], ij[1]))
	}
	return out
}

// c05RectSeeds returns the corners of rect and points along and beside its edges.
func c05RectSeeds(rect s2.Rect) []s2.Point {
	var out []s2.Point
	dl := math.Max(rect.Lat.Length(), 1e-9) * 1e-3
	h := rect.Lat.Length()
	for _, la := range []float64{rect.Lat.Lo - dl, rect.Lat.Lo, rect.Lat.Lo + dl, rect.Lat.Lo + 0.13*h, rect.Lat.Lo + 0.31*h, (rect.Lat.Lo + rect.Lat.Hi) / 2,
		rect.Lat.Lo + 0.69*h, rect.Lat.Lo + 0.87*h, rect.Lat.Hi - dl, rect.Lat.Hi, rect.Lat.Hi + dl} {
		if la < -math.Pi/2 || la > math.Pi/2 {
			continue
		}
		for _, t := range []float64{-1e-3, 0, 1e-3, 0.25, 0.5, 0.75, 0.999, 1, 1.001} {
			lng := math.Remainder(rect.Lng.Lo+t*rect.Lng.Length(), 2*math.Pi)
			out = append(out, s2.PointFromLatLng(s2.LatLng{Lat: s1.Angle(la), Lng: s1.Angle(lng)}))
		}
	}
	return out
}

func opC05Region(raw json.RawMessage, o *Out) {
	var c struct {
		Kind  string
		Place [5]int
		Size  int
		Rect  [4]int
		Band  [6]int
		Cfgs  [][4]int
	}
	if err := json.Unmarshal(raw, &c); err != nil {
		panic(err)
	}
	// a panic inside golang/geo is a finding of this region kind (not of the op as a whole)
	defer func() {
		if r := recover(); r != nil {
			site := panicSite(string(debug.Stack()))
			if !strings.Contains(site, "github.com/golang/geo") {
				panic(r)
			}
			o.Fail("region/"+c.Kind+"/panic/"+shortSite(site), "panic: %v at %s (kind %s place %v size %d)", r, site, c.Kind, c.Place, c.Size)
		}
	}()
	p := c05PlacePoint(c.Place)
	r := 0.0
	if c.Size >= 0 && c.Size < len(c05Sizes) {
		r = c05Sizes[c.Size]
	}
	var region s2.Region
	var seeds []s2.Point   // points from which probes are derived
	var witness []s2.Point // points of the region by construction (leaf centres)
	extent := r
	ctr := p // centre of the rings of probe seeds
	switch c.Kind {
	case "cap":
		region = s2.CapFromCenterAngle(p, s1.Angle(r))
	case "capcompl":
		region = s2.CapFromCenterAngle(p, s1.Angle(r)).Complement()
		extent = math.Pi - r // the complement is a cap of this radius around -p
		ctr = s2.Point{Vector: p.Mul(-1)}
	case "rect":
		ll := s2.LatLngFromPoint(p)
		// even sizes: wider than tall; odd sizes: a thin north-south strip
		latSize, lngSize := 1.4*r, 2.6*r
		if c.Size%2 == 1 {
			latSize, lngSize = 6*r, 0.2*r
			extent = 3 * r
		}
		rect := s2.RectFromCenterSize(ll, s2.LatLng{Lat: s1.Angle(math.Min(latSize, math.Pi)), Lng: s1.Angle(math.Min(lngSize, 2*math.Pi))})
		region = rect
		seeds = append(seeds, c05RectSeeds(rect)...)
	case "latlng":
		lo, hi := float64(c.Rect[2])*math.Pi/4, float64(c.Rect[3])*math.Pi/4
		lng := s1.IntervalFromEndpoints(lo, hi)
		if lng.IsEmpty() {
			return
		}
		rect := s2.Rect{Lat: r1.Interval{Lo: float64(c.Rect[0]) * math.Pi / 8, Hi: float64(c.Rect[1]) * math.Pi / 8}, Lng: lng}
		region = rect
		p = s2.PointFromLatLng(rect.Center())
		extent = math.Max(rect.Lat.Length(), rect.Lng.Length()) / 2
		seeds = append(seeds, c05RectSeeds(rect)...)
	case "band":
		// face, hemisphere, gap, width, offset, height (indices chosen by the generator)
		deg := math.Pi / 180
		apexLng := []float64{0, 90, 0, 180, -90, 0}[c.Band[0]] * deg
		gap := c05BandGaps[c.Band[2]] * deg
		w := c05BandWidths[c.Band[3]] * deg
		off := c05BandOffsets[c.Band[4]] * w
		h := c05BandHeights[c.Band[5]] * deg
		lat := r1.Interval{Lo: 45*deg - gap, Hi: 45*deg - gap + h}
		if c.Band[1] == 1 {
			lat = r1.Interval{Lo: -lat.Hi, Hi: -lat.Lo}
		}
		lng := s1.IntervalFromEndpoints(math.Remainder(apexLng+off-w/2, 2*math.Pi), math.Remainder(apexLng+off+w/2, 2*math.Pi))
		rect := s2.Rect{Lat: lat, Lng: lng}
		region = rect
		p = s2.PointFromLatLng(rect.Center())
		ctr = p
		extent = math.Max(rect.Lat.Length(), rect.Lng.Length()) / 2
		seeds = append(seeds, c05RectSeeds(rect)...)
		// along the meridian of the apex of the cube edge, inside and beside the sliver
		for _, f := range []float64{-0.5, 0.05, 0.3, 0.6, 0.95, 1.5} {
			la := 45*deg - gap + f*gap
			if c.Band[1] == 1 {
				la = -la
			}
			for _, dl := range []float64{0, -0.01 * w, 0.01 * w} {
				seeds = append(seeds, s2.PointFromLatLng(s2.LatLng{Lat: s1.Angle(la), Lng: s1.Angle(math.Remainder(apexLng+dl, 2*math.Pi))}))
			}
		}
	case "regloop":
		n := []int{3, 4, 8, 33, 40}[(c.Place[0]+c.Place[1]+c.Size)%5]
		rr := math.Min(r, 1.5)
		extent = rr
		region = s2.RegularLoop(p, s1.Angle(rr), n)
	case "polyline":
		rr := math.Min(r, 1.5)
		extent = rr
		var vs []s2.Point
		vs = append(vs, c05Snap(p))
		for _, q := range c05Ring(p, rr, 5) {
			vs = append(vs, c05Snap(q))
		}
		pl := s2.Polyline(vs)
		region = &pl
		witness = vs
	case "fullloop", "emptyloop", "fullpolygon", "emptypolygon", "zeropolygon", "emptycap", "fullcap", "emptyrect", "fullrect":
		switch c.Kind {
		case "emptycap":
			region = s2.EmptyCap()
		case "fullcap":
			region = s2.FullCap()
		case "emptyrect":
			region = s2.EmptyRect()
		case "fullrect":
			region = s2.FullRect()
		case "fullloop":
			region = s2.FullLoop()
		case "emptyloop":
			region = s2.EmptyLoop()
		case "emptypolygon":
			region = s2.PolygonFromLoops([]*s2.Loop{s2.EmptyLoop()})
		case "zeropolygon":
			region = &s2.Polygon{} // "the zero value of Polygon is treated as the empty polygon"
		default:
			region = s2.FullPolygon()
		}
		extent = math.Pi
	case "point":
		q := p
		if c.Size%2 == 1 {
			q = c05Snap(p)
			witness = []s2.Point{q}
		}
		region = q
		extent = 0
	default:
		panic("kind " + c.Kind)
	}
	o.nontrivial = true
	desc := fmt.Sprintf("%s at place %v (%.17g,%.17g,%.17g) size %g rect %v", c.Kind, c.Place, p.X, p.Y, p.Z, r, c.Rect)
	if rr, ok := region.(s2.Rect); ok {
		desc = fmt.Sprintf("%s %v (lat [%.6f, %.6f] lng [%.6f, %.6f] degrees)", c.Kind, c.Band, rr.Lat.Lo*180/math.Pi, rr.Lat.Hi*180/math.Pi, rr.Lng.Lo*180/math.Pi, rr.Lng.Hi*180/math.Pi)
	}
	// natural level: cells about as wide as the region
	nat := 30
	if extent > 0 {
		nat = c05Clamp(s2.MinWidthMetric.MaxLevel(2*extent), 0, 30)
	}
	// --- probes: leaf cells whose centres are judged by the region's own ContainsPoint
	seeds = append(seeds, p, ctr)
	if extent > 0 {
		for _, f := range []float64{0.5, 0.999, 1 - 1e-7, 1 + 1e-7, 1.001, 1.5, 3} {
			if d := f * extent; d <= math.Pi {
				seeds = append(seeds, c05Ring(ctr, d, 8)...)
			}
		}
	}
	leafSet := map[s2.CellID]bool{}
	for _, s := range seeds {
		leafSet[c05LeafOf(s)] = true
	}
	for _, w := range witness {
		leafSet[c05LeafOf(w)] = true
	}
	// candidate cells contribute the leaves in their corners, next to their edge midpoints and
	// next to their centre: where a region that only grazes the cell would reach into it
	addCell := func(id s2.CellID) {
		for _, leaf := range c05CellProbes(id) {
			leafSet[leaf] = true
		}
	}
	for _, rel := range [][4]int{{-99, 0, 1, 8}, {-2, 2, 1, 8}} {
		mn, mx, md, mc := c05RelCfg(nat, rel)
		rc := &s2.RegionCoverer{MinLevel: mn, MaxLevel: mx, LevelMod: md, MaxCells: mc}
		for _, id := range rc.Covering(region) {
			addCell(id)
		}
	}
	if c.Kind != "point" && c.Kind != "polyline" {
		if nat <= 3 {
			// a large region: every cell of the three coarsest levels (and level 3 around its boundary)
			for f := 0; f < 6; f++ {
				for l := 0; l <= 2; l++ {
					for k := 0; k < 1<<uint(2*l); k++ {
						addCell(emb.RawID(f, c05PathOf(l, k)))
					}
				}
			}
		}
		// the cells of levels nat-1..nat+2 that meet a slightly enlarged bounding cap
		cb := region.CapBound()
		if !cb.IsEmpty() && !cb.IsFull() {
			grown := s2.CapFromCenterAngle(cb.Center(), cb.Radius()*1.2+1e-9)
			for l := c05Clamp(nat-1, 0, 30); l <= c05Clamp(nat+2, 0, 30); l++ {
				rc := &s2.RegionCoverer{MinLevel: l, MaxLevel: l, LevelMod: 1, MaxCells: 1}
				ids := rc.Covering(grown)
				step := len(ids)/40 + 1
				for x := (c.Size + c.Place[0]) % step; x < len(ids); x += step {
					addCell(ids[x])
				}
			}
		}
	}
	leaves := make([]s2.CellID, 0, len(leafSet))
	for id := range leafSet {
		leaves = append(leaves, id)
	}
	sort.Slice(leaves, func(i, j int) bool { return leaves[i] < leaves[j] })
	var in, out []s2.CellID
	isWitness := map[s2.CellID]bool{}
	for _, w := range witness {
		isWitness[c05LeafOf(w)] = true
	}
	for _, leaf := range leaves {
		if region.ContainsPoint(leaf.Point()) || isWitness[leaf] {
			in = append(in, leaf)
		} else {
			out = append(out, leaf)
		}
	}
	o.CountN("witness_in", len(in))
	o.CountN("witness_out", len(out))
	// --- one-sided predicates on every ancestor of every probe
	for _, leaf := range in {
		for l := 0; l <= 30; l++ {
			id := c05Parent(leaf, l)
			if !region.IntersectsCell(s2.CellFromCellID(id)) {
				o.Fail("region/"+c.Kind+"/IntersectsCell-false-but-contains-point", "IntersectsCell(%s)=false but the region contains the centre of its leaf %s: %s", c05Fmt([]s2.CellID{id}), c05Fmt([]s2.CellID{leaf}), desc)
				break
			}
		}
	}
	if c.Kind != "polyline" && c.Kind != "point" {
		for _, leaf := range out {
			for l := 0; l <= 30; l++ {
				id := c05Parent(leaf, l)
				if region.ContainsCell(s2.CellFromCellID(id)) {
					o.Fail("region/"+c.Kind+"/ContainsCell-true-but-misses-point", "ContainsCell(%s)=true but the region does not contain the centre of its leaf %s: %s", c05Fmt([]s2.CellID{id}), c05Fmt([]s2.CellID{leaf}), desc)
					break
				}
			}
		}
	}
	// --- the coverer: every in-witness covered, no out-witness in an interior covering
	for _, rel := range c.Cfgs {
		mn, mx, md, mc := c05RelCfg(nat, rel)
		rc := &s2.RegionCoverer{MinLevel: mn, MaxLevel: mx, LevelMod: md, MaxCells: mc}
		cd := fmt.Sprintf("%s cfg{MinLevel:%d MaxLevel:%d LevelMod:%d MaxCells:%d}", desc, mn, mx, md, mc)
		cls := fmt.Sprintf("%s/md%d", c.Kind, md)
		o.Count("coverer_runs")
		cov := rc.Covering(region)
		fast := rc.FastCovering(region)
		cu := rc.CellUnion(region)
		for _, r := range []struct {
			name string
			ids  []s2.CellID
		}{{"Covering", cov}, {"FastCovering", fast}, {"CellUnion", cu}} {
			if id, bad := c05FirstUncovered(in, r.ids); bad {
				o.Fail("region/"+r.name+"/covers/"+cls, "leaf %s whose centre the region contains is not covered: %s=%s %s", c05Fmt([]s2.CellID{id}), r.name, c05Fmt(r.ids), cd)
			}
		}
		if id, ok := c05LevelsOK(cov, mn, mx, md); !ok {
			o.Fail("region/Covering/levels/"+cls, "cell %s (level %d) violates the level limits: Covering=%s %s", c05Fmt([]s2.CellID{id}), emb.RawLevel(id), c05Fmt(cov), cd)
		}
		if id, ok := c05LevelsOK(fast, mn, mx, md); !ok {
			o.Fail("region/FastCovering/levels/"+cls, "cell %s (level %d) violates the level limits: FastCovering=%s %s", c05Fmt([]s2.CellID{id}), emb.RawLevel(id), c05Fmt(fast), cd)
		}
		if !c05UnionLimits(cu, mn, mx, md) {
			o.Fail("region/CellUnion/limits/"+cls, "not normalized, or a cell below MaxLevel, or its (min,mod)-denormalisation violates the limits: CellUnion=%s %s", c05Fmt(cu), cd)
		}
		if mn == 0 {
			c05CheckMaxCells(o, "region", cls, cd, rc, region, cov)
		}
		if c.Kind == "point" && c.Size%2 == 0 {
			// a raw point may lie on cell boundaries: some covering cell (closed) must contain it
			found := false
			for _, id := range cov {
				found = found || s2.CellFromCellID(id).ContainsPoint(p)
			}
			if !found {
				o.Fail("region/Covering/covers-point/"+cls, "no cell of the covering contains the point: Covering=%s %s", c05Fmt(cov), cd)
			}
		}
		// interior coverings subdivide the whole boundary down to MaxLevel: keep them cheap
		if c.Kind == "polyline" || c.Kind == "point" || mx-nat > 2 {
			continue
		}
		inter := rc.InteriorCovering(region)
		icu := rc.InteriorCellUnion(region)
		for _, r := range []struct {
			name string
			ids  []s2.CellID
		}{{"InteriorCovering", inter}, {"InteriorCellUnion", icu}} {
			m := c05Merge(r.ids)
			for _, leaf := range out {
				if c05RangeInside(m, uint64(leaf), uint64(leaf)) {
					o.Fail("region/"+r.name+"/inside/"+cls, "leaf %s whose centre the region does not contain lies in %s=%s %s", c05Fmt([]s2.CellID{leaf}), r.name, c05Fmt(r.ids), cd)
					break
				}
			}
		}
		if id, ok := c05LevelsOK(inter, mn, mx, md); !ok {
			o.Fail("region/InteriorCovering/levels/"+cls, "cell %s (level %d) violates the level limits: InteriorCovering=%s %s", c05Fmt([]s2.CellID{id}), emb.RawLevel(id), c05Fmt(inter), cd)
		}
		if !c05UnionLimits(icu, mn, mx, md) {
			o.Fail("region/InteriorCellUnion/limits/"+cls, "not normalized, or a cell below MaxLevel, or its (min,mod)-denormalisation violates the limits: InteriorCellUnion=%s %s", c05Fmt(icu), cd)
		}
	}
	o.sample = map[string]any{"op": "region", "kind": c.Kind, "place": c.Place, "size": r, "witness_in": len(in), "witness_out": len(out), "cfgs": len(c.Cfgs)}
}
