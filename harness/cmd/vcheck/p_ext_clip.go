package main

// Extension of C06 (spec/Clipping.tla, generator spec/Gen_Clip.tla): s2/edge_clipping.go and
// PaddedCell.ShrinkToFit on general grid rectangles.  Expected answers are computed by TLC in
// exact integer / rational arithmetic; this file only embeds the inputs, drives the real code
// and compares (rationals are compared with math/big, never recomputed).
//
//	op "ext/clip/rect"    ClipEdge, clippedEdgeBound, clipEdgeBound (chained), edgeIntersectsRect,
//	                      interpolateFloat64 on segments and rectangles of the integer grid 0..M,
//	                      embedded as dyadic rationals f*(k-c)*2^-s (optionally u<->v swapped).
//	op "ext/clip/face"    ClipToFace, ClipToPaddedFace, FaceSegments on edges between lattice
//	                      points (unit embedding).
//	op "ext/clip/shrink"  PaddedCell.ShrinkToFit(rect), rect spanned by grid lines K levels below
//	                      the cell, below seed-chosen anchors.
//	op "ext/clip/normal"  sumEqual, intersectsFace, intersectsOppositeEdges, exitAxis, exitPoint on
//	                      normals whose components are limb numbers c2*2^54 + c1*2^27 + c0.

import (
	"bufio"
	"encoding/json"
	"fmt"
	"io"
	"math"
	"math/big"
	"os"
	"os/exec"
	"runtime"
	"runtime/debug"
	"strings"
	"sync"
	"sync/atomic"
	"time"

	"github.com/golang/geo/r1"
	"github.com/golang/geo/r2"
	"github.com/golang/geo/r3"
	"github.com/golang/geo/s2"

	"verifharness/emb"
)

func init() {
	register("ext/clip/rect", opClipRect)
	register("ext/clip/face", opClipFace)
	register("ext/clip/shrink", opClipShrink)
	register("ext/clip/normal", opClipNormal)
	children["clipfs"] = clipFSChildMain
}

const (
	clipDblEpsilon       = 2.220446049250313e-16 // s2.dblEpsilon
	clipEdgeErrUVCoord   = 2.25 * clipDblEpsilon // edgeClipErrorUVCoord
	clipFaceErrUVDist    = 9 * clipDblEpsilon    // faceClipErrorUVDist
	clipEndpointSlack    = 1e-9                  // well-conditioned lattice edges: position along the line
	clipContinuitySlack  = 1e-14                 // angle between points that the documentation calls equal
	clipNormalLimbShift  = 27                    // S of Clipping.tla part D
	clipNormalBaseExpo   = -60                   // common exact scale of the limb numbers
	clipExitPointRelSlop = 4 * clipDblEpsilon    // one division, one multiplication
)

// ------------------------------------------------------------------------------------ part A

// clipEmb is a dyadic affine embedding of the model grid: model axis k maps to
// F[k]*(x-C[k])*2^-S; Sw exchanges the two axes afterwards (u<->v).
type clipEmb struct {
	S  int    `json:"s"`
	C  [2]int `json:"c"`
	F  [2]int `json:"f"`
	Sw bool   `json:"sw"`
}

func (e clipEmb) String() string {
	return fmt.Sprintf("u=%+d*(x-%d)*2^-%d v=%+d*(y-%d)*2^-%d swap=%v", e.F[0], e.C[0], e.S, e.F[1], e.C[1], e.S, e.Sw)
}

// coord embeds the integer x of model axis k.
func (e clipEmb) coord(k, x int) float64 { return math.Ldexp(float64(e.F[k]*(x-e.C[k])), -e.S) }

// rat embeds the rational n/d of model axis k, exactly.
func (e clipEmb) rat(k int, q [2]int) *big.Rat {
	r := big.NewRat(int64(e.F[k]*(q[0]-e.C[k]*q[1])), int64(q[1]))
	return r.Mul(r, new(big.Rat).SetFrac(big.NewInt(1), new(big.Int).Lsh(big.NewInt(1), uint(e.S))))
}

func (e clipEmb) pt(p [2]int) r2.Point {
	x, y := e.coord(0, p[0]), e.coord(1, p[1])
	if e.Sw {
		return r2.Point{X: y, Y: x}
	}
	return r2.Point{X: x, Y: y}
}

func (e clipEmb) ival(k, lo, hi int) r1.Interval {
	a, b := e.coord(k, lo), e.coord(k, hi)
	if a > b {
		a, b = b, a
	}
	return r1.Interval{Lo: a, Hi: b}
}

func (e clipEmb) rect(r [4]int) r2.Rect {
	x, y := e.ival(0, r[0], r[1]), e.ival(1, r[2], r[3])
	if e.Sw {
		return r2.Rect{X: y, Y: x}
	}
	return r2.Rect{X: x, Y: y}
}

// ratPt embeds a model point with rational coordinates; the result is (X, Y) of the real plane.
func (e clipEmb) ratPt(p [][2]int) [2]*big.Rat {
	x, y := e.rat(0, p[0]), e.rat(1, p[1])
	if e.Sw {
		return [2]*big.Rat{y, x}
	}
	return [2]*big.Rat{x, y}
}

func clipRatOf(f float64) *big.Rat { return new(big.Rat).SetFloat64(f) }

// clipRatIsFloat reports whether q is exactly a float64 and returns it.
func clipRatIsFloat(q *big.Rat) (float64, bool) {
	f, exact := q.Float64()
	return f, exact
}

// clipNear reports |f - q| <= tol.
func clipNear(f float64, q *big.Rat, tol float64) bool {
	d := new(big.Rat).Sub(clipRatOf(f), q)
	return d.Abs(d).Cmp(clipRatOf(tol)) <= 0
}

// clipCmpPoint compares a returned point with the exact one: exactly when demanded, otherwise
// within tol per coordinate.  It returns "" or a description.
func clipCmpPoint(got r2.Point, want [2]*big.Rat, exact bool, tol float64) string {
	g := [2]float64{got.X, got.Y}
	for k := 0; k < 2; k++ {
		if exact {
			if w, ok := clipRatIsFloat(want[k]); !ok || w != g[k] {
				return fmt.Sprintf("coordinate %d is %v (%b), exact value %s", k, g[k], g[k], want[k].RatString())
			}
		} else if !clipNear(g[k], want[k], tol) {
			return fmt.Sprintf("coordinate %d is %v, exact value %s = %s, tolerance %g", k, g[k], want[k].RatString(), want[k].FloatString(20), tol)
		}
	}
	return ""
}

func clipRectOfRat(p, q [2]*big.Rat) (lo, hi [2]*big.Rat) {
	for k := 0; k < 2; k++ {
		if p[k].Cmp(q[k]) <= 0 {
			lo[k], hi[k] = p[k], q[k]
		} else {
			lo[k], hi[k] = q[k], p[k]
		}
	}
	return
}

func clipCmpBound(got r2.Rect, lo, hi [2]*big.Rat, exact bool, tol float64) string {
	if got.IsEmpty() {
		return "the bound is empty"
	}
	if s := clipCmpPoint(got.Lo(), lo, exact, tol); s != "" {
		return "low corner: " + s
	}
	if s := clipCmpPoint(got.Hi(), hi, exact, tol); s != "" {
		return "high corner: " + s
	}
	return ""
}

func opClipRect(raw json.RawMessage, o *Out) {
	var c struct {
		A, B   [2]int
		R, R2  [4]int
		M      int
		Ok     bool
		Cls    string
		Ex     bool
		Ex2    bool
		P0, P1 [][2]int
		Cuts   [4][4]int
		Embs   []clipEmb
	}
	if err := json.Unmarshal(raw, &c); err != nil {
		panic(err)
	}
	if len(c.Embs) == 0 {
		s := 0
		for (1 << uint(s)) < c.M {
			s++
		}
		c.Embs = []clipEmb{{S: s, C: [2]int{0, 0}, F: [2]int{1, 1}}}
	}
	if c.Ok != (c.Cls != "out") || (c.Ok && (len(c.P0) != 2 || len(c.P1) != 2)) {
		panic("ext/clip/rect: inconsistent case")
	}
	deg := "rect"
	switch {
	case c.R[0] == c.R[1] && c.R[2] == c.R[3]:
		deg = "point-rect"
	case c.R[0] == c.R[1] || c.R[2] == c.R[3]:
		deg = "line-rect"
	}
	if c.A == c.B {
		deg += "/point-edge"
	}
	for _, e := range c.Embs {
		a, b, rect := e.pt(c.A), e.pt(c.B), e.rect(c.R)
		in := fmt.Sprintf("A=%v B=%v R=%v [model A=%v B=%v R=%v, %s; class %s, all cuts dyadic: %v]", a, b, rect, c.A, c.B, c.R, e, c.Cls, c.Ex)
		bbox := r2.RectFromPoints(a, b)
		var w0, w1, wlo, whi [2]*big.Rat
		if c.Ok {
			w0, w1 = e.ratPt(c.P0), e.ratPt(c.P1)
			wlo, whi = clipRectOfRat(w0, w1)
		}
		mustTrue := c.Cls == "int" || (c.Cls == "touch" && c.Ex)
		mustFalse := c.Cls == "out"
		how := c.Cls
		if c.Ex {
			how += "-exact"
		}

		// ---- ClipEdge
		a1, b1, ok := s2.ClipEdge(a, b, rect)
		o.Count("clip_rect_calls")
		switch {
		case mustTrue && !ok:
			o.Fail("ext/clip/rect/ClipEdge/missed/"+how+"/"+deg, "ClipEdge reports no intersection; the exact clipped part is %v .. %v: %s", c.P0, c.P1, in)
		case mustFalse && ok:
			o.Fail("ext/clip/rect/ClipEdge/phantom/"+deg, "ClipEdge returns %v %v but AB misses the closed rectangle: %s", a1, b1, in)
		}
		if ok && !mustFalse {
			if !rect.ContainsPoint(a1) || !rect.ContainsPoint(b1) || !bbox.ContainsPoint(a1) || !bbox.ContainsPoint(b1) {
				o.Fail("ext/clip/rect/ClipEdge/outside/"+deg, "clipped edge %v %v is not inside the clip rectangle and the bound of AB: %s", a1, b1, in)
			}
			if s := clipCmpPoint(a1, w0, c.Ex, clipEdgeErrUVCoord); s != "" {
				o.Fail("ext/clip/rect/ClipEdge/endpoint/"+how+"/"+deg, "aClip = %v: %s: %s", a1, s, in)
			} else if s := clipCmpPoint(b1, w1, c.Ex, clipEdgeErrUVCoord); s != "" {
				o.Fail("ext/clip/rect/ClipEdge/endpoint/"+how+"/"+deg, "bClip = %v: %s: %s", b1, s, in)
			}
		}

		// ---- clippedEdgeBound agrees with ClipEdge
		cb := s2.VerifClippedEdgeBound(a, b, rect)
		if cb.IsEmpty() == ok {
			o.Fail("ext/clip/rect/clippedEdgeBound/emptiness/"+deg, "clippedEdgeBound = %v (empty %v) but ClipEdge intersects = %v: %s", cb, cb.IsEmpty(), ok, in)
		} else if ok && cb != r2.RectFromPoints(a1, b1) {
			o.Fail("ext/clip/rect/clippedEdgeBound/differs/"+deg, "clippedEdgeBound = %v, ClipEdge gives %v %v: %s", cb, a1, b1, in)
		}

		// ---- edgeIntersectsRect: every product and sum is exact on these inputs
		if got := s2.VerifEdgeIntersectsRect(a, b, rect); got != c.Ok {
			k := "missed"
			if got {
				k = "phantom"
			}
			o.Fail("ext/clip/rect/edgeIntersectsRect/"+k+"/"+c.Cls+"/"+deg, "edgeIntersectsRect = %v, exact answer %v: %s", got, c.Ok, in)
		}

		// ---- clipping to a larger rectangle first, then to R ("clips an edge to a sequence of rectangles")
		rect2 := e.rect(c.R2)
		bd, ok1 := s2.VerifClipEdgeBound(a, b, rect2, bbox)
		ok2 := false
		if ok1 {
			bd, ok2 = s2.VerifClipEdgeBound(a, b, rect, bd)
		}
		exact := c.Ex && c.Ex2
		switch {
		case (c.Cls == "int" || (c.Cls == "touch" && exact)) && !ok2:
			o.Fail("ext/clip/rect/clipEdgeBound-chain/missed/"+how+"/"+deg, "clipping to %v and then to R reports no intersection (first %v, second %v): %s", rect2, ok1, ok2, in)
		case mustFalse && ok2:
			o.Fail("ext/clip/rect/clipEdgeBound-chain/phantom/"+deg, "clipping to %v and then to R gives %v but AB misses R: %s", rect2, bd, in)
		case ok2 && !mustFalse:
			if s := clipCmpBound(bd, wlo, whi, exact, clipEdgeErrUVCoord); s != "" {
				o.Fail("ext/clip/rect/clipEdgeBound-chain/bound/"+how+"/"+deg, "clipping to %v and then to R gives %v: %s: %s", rect2, bd, s, in)
			}
		}

		// ---- interpolateFloat64 at the supporting lines of R
		am, bm := c.A, c.B
		for _, cut := range c.Cuts {
			if cut[0] == 0 {
				continue
			}
			k := cut[0] - 1
			x, xa, xb := e.coord(k, cut[1]), e.coord(k, am[k]), e.coord(k, bm[k])
			ya, yb := e.coord(1-k, am[1-k]), e.coord(1-k, bm[1-k])
			want := e.rat(1-k, [2]int{cut[2], cut[3]})
			got := s2.VerifInterpolateFloat64(x, xa, xb, ya, yb)
			o.Count("clip_interpolations")
			wf, isF := clipRatIsFloat(want)
			desc := fmt.Sprintf("interpolateFloat64(%v, %v, %v, %v, %v) = %v (%b)", x, xa, xb, ya, yb, got, got)
			switch {
			case got < math.Min(ya, yb) || got > math.Max(ya, yb):
				o.Fail("ext/clip/rect/interpolate/not-between", "%s is not between a1 and b1: %s", desc, in)
			case isF && got != wf:
				o.Fail("ext/clip/rect/interpolate/exact", "%s, the exact value %s is a float64: %s", desc, want.RatString(), in)
			case !isF && !clipNear(got, want, clipEdgeErrUVCoord):
				o.Fail("ext/clip/rect/interpolate/tolerance", "%s, exact value %s, tolerance %g: %s", desc, want.FloatString(20), clipEdgeErrUVCoord, in)
			}
			// the documented guarantees hold for arbitrary floats: the same configuration scaled by factors that
			// are not powers of two (all five numbers are rounded; equal model coordinates stay equal floats)
			for _, fac := range [][2]float64{{0.1, 0.7}, {1.0 / 3, 0.3}, {0.9, 1.0 / 7}, {1e-3, 0.6}} {
				rx, rxa, rxb := x*fac[0], xa*fac[0], xb*fac[0]
				rya, ryb := ya*fac[1], yb*fac[1]
				g := s2.VerifInterpolateFloat64(rx, rxa, rxb, rya, ryb)
				rdesc := fmt.Sprintf("interpolateFloat64(%b, %b, %b, %b, %b) = %b", rx, rxa, rxb, rya, ryb, g)
				switch {
				case rx == rxa && g != rya:
					o.Fail("ext/clip/rect/interpolate/guarantee/x==a", "%s: x == a must give a1 exactly", rdesc)
				case rx == rxb && g != ryb:
					o.Fail("ext/clip/rect/interpolate/guarantee/x==b", "%s: x == b must give b1 exactly", rdesc)
				case g < math.Min(rya, ryb) || g > math.Max(rya, ryb):
					o.Fail("ext/clip/rect/interpolate/guarantee/between", "%s: x is between a and b, the result must be between a1 and b1", rdesc)
				}
			}
		}
	}
	o.nontrivial = c.Cls == "touch" || !c.Ex
	o.Count("clip_rect_" + c.Cls)
	o.sample = map[string]any{"op": "ext/clip/rect", "a": c.A, "b": c.B, "r": c.R, "class": c.Cls}
}

// ------------------------------------------------------------------------------------ part B

// clipUVW is S2's (u,v,w) frame of a face applied to an integer vector.
func clipUVW(f int, p [3]int) [3]int {
	switch f {
	case 0:
		return [3]int{p[1], p[2], p[0]}
	case 1:
		return [3]int{-p[0], p[2], p[1]}
	case 2:
		return [3]int{-p[0], -p[1], p[2]}
	case 3:
		return [3]int{-p[2], -p[1], -p[0]}
	case 4:
		return [3]int{-p[2], p[0], -p[1]}
	}
	return [3]int{p[1], p[0], -p[2]}
}

// clipUVToXYZ is the documented inverse frame (a point of the cube face, not normalised).
func clipUVToXYZ(f int, u, v float64) r3.Vector {
	switch f {
	case 0:
		return r3.Vector{X: 1, Y: u, Z: v}
	case 1:
		return r3.Vector{X: -u, Y: 1, Z: v}
	case 2:
		return r3.Vector{X: -u, Y: -v, Z: 1}
	case 3:
		return r3.Vector{X: -1, Y: -v, Z: -u}
	case 4:
		return r3.Vector{X: v, Y: -1, Z: -u}
	}
	return r3.Vector{X: v, Y: u, Z: -1}
}

func clipCross(a, b [3]int) [3]int {
	return [3]int{a[1]*b[2] - a[2]*b[1], a[2]*b[0] - a[0]*b[2], a[0]*b[1] - a[1]*b[0]}
}

// clipLineDist2 compares the distance of (u,v) from the line n.(u,v,1) = 0 with tol, exactly:
// it returns whether (n.p)^2 <= tol^2 (nu^2 + nv^2).
func clipOnLine(n [3]int, p r2.Point, tol float64) bool {
	d := new(big.Rat).Mul(big.NewRat(int64(n[0]), 1), clipRatOf(p.X))
	d.Add(d, new(big.Rat).Mul(big.NewRat(int64(n[1]), 1), clipRatOf(p.Y)))
	d.Add(d, big.NewRat(int64(n[2]), 1))
	d.Mul(d, d)
	t := clipRatOf(tol)
	t.Mul(t, t)
	t.Mul(t, big.NewRat(int64(n[0]*n[0]+n[1]*n[1]), 1))
	return d.Cmp(t) <= 0
}

type clipFaceRow struct {
	Cls    string
	T0, T1 [2]int
	P0, P1 [3]int
}

// uv of the integer direction p on face f (w > 0).
func clipUVOf(f int, p [3]int) (r2.Point, bool) {
	q := clipUVW(f, p)
	if q[2] <= 0 {
		return r2.Point{}, false
	}
	return r2.Point{X: float64(q[0]) / float64(q[2]), Y: float64(q[1]) / float64(q[2])}, true
}

func clipDist(p, q r2.Point) float64 { return math.Max(math.Abs(p.X-q.X), math.Abs(p.Y-q.Y)) }

func opClipFace(raw json.RawMessage, o *Out) {
	var c struct {
		A, B   emb.P3
		Pad    [2]int
		F0, F1 [6]clipFaceRow
		Robust bool
		Seq    []int
	}
	if err := json.Unmarshal(raw, &c); err != nil {
		panic(err)
	}
	a, b := emb.Unit(c.A), emb.Unit(c.B)
	same := c.A == c.B
	nrm := clipCross([3]int(c.A), [3]int(c.B))
	// the real inputs are the lattice points normalised: the real line differs from the lattice line by the
	// rounding of the normalisation, amplified by 1/sin(AB) and by the gnomonic projection
	sinAB := 1.0
	if !same {
		sinAB = math.Sqrt(float64(nrm[0]*nrm[0]+nrm[1]*nrm[1]+nrm[2]*nrm[2])) /
			math.Sqrt(float64((c.A[0]*c.A[0]+c.A[1]*c.A[1]+c.A[2]*c.A[2])*(c.B[0]*c.B[0]+c.B[1]*c.B[1]+c.B[2]*c.B[2])))
	}
	lineTol := func(rr float64) float64 { return clipFaceErrUVDist + 8*clipDblEpsilon*(1+2*rr*rr)/sinAB }
	in := fmt.Sprintf("A=%v B=%v (unit embedding)", c.A, c.B)
	kind := "edge"
	if same {
		kind = "point-edge"
	}

	type padSet struct {
		name string
		pad  float64
		rows *[6]clipFaceRow
	}
	sets := []padSet{{"pad0", 0, &c.F0}, {"pad", float64(c.Pad[0])/float64(c.Pad[1]) - 1, &c.F1}}
	for _, ps := range sets {
		rr := 1 + ps.pad
		for f := 0; f < 6; f++ {
			row := ps.rows[f]
			aUV, bUV, ok := s2.ClipToPaddedFace(a, b, f, ps.pad)
			o.Count("clip_face_calls")
			where := fmt.Sprintf("face %d padding %g: %s [class %s, exact part t in [%d/%d, %d/%d]]", f, ps.pad, in, row.Cls, row.T0[0], row.T0[1], row.T1[0], row.T1[1])
			if ps.pad == 0 {
				a2, b2, ok2 := s2.ClipToFace(a, b, f)
				if ok2 != ok || (ok && (a2 != aUV || b2 != bUV)) {
					o.Fail("ext/clip/face/ClipToFace-vs-padded", "ClipToFace = %v %v %v, ClipToPaddedFace(0) = %v %v %v: %s", a2, b2, ok2, aUV, bUV, ok, where)
				}
			}
			switch {
			case row.Cls == "in" && !ok:
				o.Fail("ext/clip/face/ClipToPaddedFace/missed/"+ps.name+"/"+kind, "no intersection reported, AB passes through the interior of the face: %s", where)
			case row.Cls == "out" && ok:
				o.Fail("ext/clip/face/ClipToPaddedFace/phantom/"+ps.name+"/"+kind, "intersection %v %v reported, AB misses the closed face: %s", aUV, bUV, where)
			}
			if !ok || row.Cls == "out" {
				continue
			}
			lim := rr
			if ps.pad != 0 {
				lim = rr * (1 + 4*clipDblEpsilon)
			}
			for _, p := range []r2.Point{aUV, bUV} {
				if !(math.Abs(p.X) <= lim && math.Abs(p.Y) <= lim) {
					o.Fail("ext/clip/face/ClipToPaddedFace/outside-face/"+ps.name, "vertex %v lies outside [-%v,%v]^2: %s", p, rr, rr, where)
				}
				if !same && !clipOnLine(clipUVW(f, nrm), p, lineTol(rr)) {
					o.Fail("ext/clip/face/ClipToPaddedFace/off-line/"+ps.name, "vertex %v is farther than %g from the line AB (normal %v in the face frame): %s", p, lineTol(rr), clipUVW(f, nrm), where)
				}
			}
			if row.Cls == "in" {
				w0, ok0 := clipUVOf(f, row.P0)
				w1, ok1 := clipUVOf(f, row.P1)
				if !ok0 || !ok1 {
					panic("ext/clip/face: exact clipped direction not on the face")
				}
				if clipDist(aUV, w0) > clipEndpointSlack || clipDist(bUV, w1) > clipEndpointSlack {
					o.Fail("ext/clip/face/ClipToPaddedFace/endpoint/"+ps.name+"/"+kind, "clipped edge %v %v, exact %v %v (directions %v %v): %s", aUV, bUV, w0, w1, row.P0, row.P1, where)
				}
			}
		}
	}

	// ---- FaceSegments
	segs, fsErr := clipFaceSegments(c.A, c.B)
	o.Count("clip_facesegments_calls")
	if fsErr != "" {
		if strings.HasPrefix(fsErr, "panic") {
			o.Fail("ext/clip/face/panic/FaceSegments", "%s: %s", fsErr, in)
		} else {
			o.Fail("ext/clip/face/FaceSegments/no-termination/"+kind, "%s: %s", fsErr, in)
		}
		return
	}
	var faces []int
	desc := ""
	for _, s := range segs {
		f, p, q := s.F, s.A, s.B
		faces = append(faces, f)
		desc += fmt.Sprintf(" %d:%v-%v", f, p, q)
	}
	where := fmt.Sprintf("FaceSegments =%s: %s [model: faces through their interior %v, no face merely touched: %v]", desc, in, c.Seq, c.Robust)
	if len(segs) == 0 {
		o.Fail("ext/clip/face/FaceSegments/empty", "no segments: %s", in)
		return
	}
	seen := map[int]bool{}
	var inVisited []int
	for k, s := range segs {
		f, p, q := s.F, s.A, s.B
		if f < 0 || f > 5 {
			o.Fail("ext/clip/face/FaceSegments/face-range", "segment %d: %s", k, where)
			return
		}
		if seen[f] {
			o.Fail("ext/clip/face/FaceSegments/face-twice", "face %d is visited twice: %s", f, where)
		}
		seen[f] = true
		row := c.F0[f]
		switch row.Cls {
		case "out":
			o.Fail("ext/clip/face/FaceSegments/stray-face/"+kind, "face %d is visited but AB misses the closed face: %s", f, where)
		case "in":
			inVisited = append(inVisited, f)
		}
		for _, v := range []r2.Point{p, q} {
			if !(math.Abs(v.X) <= 1 && math.Abs(v.Y) <= 1) {
				o.Fail("ext/clip/face/FaceSegments/outside-face", "vertex %v of segment %d lies outside [-1,1]^2: %s", v, k, where)
			}
			if !same && row.Cls != "out" && !clipOnLine(clipUVW(f, nrm), v, lineTol(1)) {
				o.Fail("ext/clip/face/FaceSegments/off-line", "vertex %v of segment %d is farther than %g from the line AB: %s", v, k, lineTol(1), where)
			}
		}
		if k > 0 {
			pf, pq := segs[k-1].F, segs[k-1].B
			if pf == f || (pf+3)%6 == f {
				o.Fail("ext/clip/face/FaceSegments/not-adjacent", "segments %d and %d lie on faces %d and %d: %s", k-1, k, pf, f, where)
			}
			x, y := clipUVToXYZ(pf, pq.X, pq.Y).Normalize(), clipUVToXYZ(f, p.X, p.Y).Normalize()
			if x.Angle(y).Radians() > clipContinuitySlack {
				o.Fail("ext/clip/face/FaceSegments/gap", "segment %d ends at %v, segment %d starts at %v: %s", k-1, x, k, y, where)
			}
		}
		if row.Cls == "in" && c.Robust && !same {
			w0, _ := clipUVOf(f, row.P0)
			w1, _ := clipUVOf(f, row.P1)
			if clipDist(p, w0) > clipEndpointSlack || clipDist(q, w1) > clipEndpointSlack {
				o.Fail("ext/clip/face/FaceSegments/endpoint", "segment %d = %v %v, exact %v %v: %s", k, p, q, w0, w1, where)
			}
		}
	}
	// the path starts at A and ends at B
	f0, p0 := segs[0].F, segs[0].A
	fn, qn := segs[len(segs)-1].F, segs[len(segs)-1].B
	if x := clipUVToXYZ(f0, p0.X, p0.Y).Normalize(); x.Angle(a.Vector).Radians() > clipContinuitySlack {
		o.Fail("ext/clip/face/FaceSegments/start", "the path starts at %v, A = %v: %s", x, a, where)
	}
	if x := clipUVToXYZ(fn, qn.X, qn.Y).Normalize(); x.Angle(b.Vector).Radians() > clipContinuitySlack {
		o.Fail("ext/clip/face/FaceSegments/end", "the path ends at %v, B = %v: %s", x, b, where)
	}
	// every face whose interior AB crosses is visited, in the order of the parameter
	if fmt.Sprint(inVisited) != fmt.Sprint(c.Seq) {
		o.Fail("ext/clip/face/FaceSegments/sequence/interior-faces/"+kind, "faces crossed through their interior, as visited: %v, exact order %v: %s", inVisited, c.Seq, where)
	} else if c.Robust && fmt.Sprint(faces) != fmt.Sprint(c.Seq) {
		o.Fail("ext/clip/face/FaceSegments/sequence/robust/"+kind, "visited faces %v, exact sequence %v: %s", faces, c.Seq, where)
	}
	o.nontrivial = len(c.Seq) > 1 || !c.Robust
	if c.Robust {
		o.Count("clip_face_robust")
	} else {
		o.Count("clip_face_touching")
	}
	o.sample = map[string]any{"op": "ext/clip/face", "a": c.A, "b": c.B, "faces": faces, "model": c.Seq}
}

// FaceSegments follows the edge from face to face "until we reach the face containing B"; a version that
// never gets there appends segments for ever and cannot be stopped from outside.  It is therefore called
// in a child process (`vcheck child clipfs`, one per replay process, calls serialised) that ends itself
// when a call takes longer than 2 s or allocates more than 512 MB; the parent reports that as
// non-termination of FaceSegments on that input and starts a new child.

type clipSeg struct {
	F    int
	A, B r2.Point
}

type clipFSReply struct {
	Segs  [][5]uint64 `json:"segs"` // face, bits of a.X, a.Y, b.X, b.Y
	Panic string      `json:"panic,omitempty"`
}

func clipFSChildMain(args []string) {
	var busy atomic.Int64 // start time (ns) of the running call, 0 = idle
	go func() {
		var m0, m runtime.MemStats
		runtime.ReadMemStats(&m0)
		for {
			time.Sleep(20 * time.Millisecond)
			t := busy.Load()
			if t == 0 {
				continue
			}
			if time.Since(time.Unix(0, t)) > 2*time.Second {
				os.Exit(7)
			}
			runtime.ReadMemStats(&m)
			if m.HeapAlloc > m0.HeapAlloc+(512<<20) {
				os.Exit(8)
			}
		}
	}()
	sc := bufio.NewScanner(os.Stdin)
	w := bufio.NewWriter(os.Stdout)
	for sc.Scan() {
		var a, b emb.P3
		if _, err := fmt.Sscan(sc.Text(), &a[0], &a[1], &a[2], &b[0], &b[1], &b[2]); err != nil {
			fmt.Fprintln(os.Stderr, "clipfs child: bad request:", err)
			os.Exit(3)
		}
		var rep clipFSReply
		func() {
			defer func() {
				if r := recover(); r != nil {
					rep = clipFSReply{Panic: fmt.Sprintf("panic: %v at %s", r, panicSite(string(debug.Stack())))}
				}
			}()
			busy.Store(time.Now().UnixNano())
			segs := s2.FaceSegments(emb.Unit(a), emb.Unit(b))
			busy.Store(0)
			for _, sg := range segs {
				f, p, q := s2.VerifFaceSegmentParts(sg)
				rep.Segs = append(rep.Segs, [5]uint64{uint64(int64(f)), math.Float64bits(p.X), math.Float64bits(p.Y), math.Float64bits(q.X), math.Float64bits(q.Y)})
			}
		}()
		busy.Store(0)
		out, _ := json.Marshal(rep)
		w.Write(out)
		w.WriteByte('\n')
		w.Flush()
	}
}

var clipFS struct {
	mu    sync.Mutex
	cmd   *exec.Cmd
	in    io.WriteCloser
	lines chan string
}

func clipFSStop() {
	if clipFS.cmd == nil {
		return
	}
	clipFS.in.Close()
	clipFS.cmd.Process.Kill()
	go func(ch chan string) {
		for range ch {
		}
	}(clipFS.lines)
	clipFS.cmd.Wait()
	clipFS.cmd = nil
}

// clipFaceSegments returns FaceSegments(Unit(a), Unit(b)), or a description of the panic (prefix "panic") or
// of the missing termination.
func clipFaceSegments(a, b emb.P3) ([]clipSeg, string) {
	clipFS.mu.Lock()
	defer clipFS.mu.Unlock()
	if clipFS.cmd == nil {
		exe, err := os.Executable()
		if err != nil {
			panic(err)
		}
		var cmd *exec.Cmd
		if pl, err := exec.LookPath("prlimit"); err == nil {
			cmd = exec.Command(pl, fmt.Sprintf("--as=%d", int64(4<<30)), exe, "child", "clipfs")
		} else {
			cmd = exec.Command(exe, "child", "clipfs")
		}
		cmd.Env = append(os.Environ(), "GOMAXPROCS=2", "GOTRACEBACK=single")
		in, err := cmd.StdinPipe()
		if err != nil {
			panic(err)
		}
		out, err := cmd.StdoutPipe()
		if err != nil {
			panic(err)
		}
		if err := cmd.Start(); err != nil {
			panic(err)
		}
		lines := make(chan string, 4)
		go func() {
			sc := bufio.NewScanner(out)
			sc.Buffer(make([]byte, 1<<16), 1<<26)
			for sc.Scan() {
				lines <- sc.Text()
			}
			close(lines)
		}()
		clipFS.cmd, clipFS.in, clipFS.lines = cmd, in, lines
	}
	if _, err := fmt.Fprintf(clipFS.in, "%d %d %d %d %d %d\n", a[0], a[1], a[2], b[0], b[1], b[2]); err != nil {
		clipFSStop()
		return nil, "FaceSegments: the child process is gone: " + err.Error()
	}
	var ln string
	var ok bool
	select {
	case ln, ok = <-clipFS.lines:
	case <-time.After(30 * time.Second):
	}
	if !ok {
		clipFSStop()
		return nil, "FaceSegments did not return (the call ran for more than 2 s or allocated more than 512 MB of segments)"
	}
	var rep clipFSReply
	if err := json.Unmarshal([]byte(ln), &rep); err != nil {
		panic("clipfs: bad reply " + ln)
	}
	if rep.Panic != "" {
		return nil, rep.Panic
	}
	segs := make([]clipSeg, len(rep.Segs))
	for i, r := range rep.Segs {
		segs[i] = clipSeg{F: int(int64(r[0])),
			A: r2.Point{X: math.Float64frombits(r[1]), Y: math.Float64frombits(r[2])},
			B: r2.Point{X: math.Float64frombits(r[3]), Y: math.Float64frombits(r[4])}}
	}
	return segs, ""
}

// ------------------------------------------------------------------------------------ part C

// clipGridLine returns the u (axis 0) or v (axis 1) coordinate of grid line g of the given level on a
// face, read from the uv bounds of the cells next to it.
func clipGridLine(face, level, axis, g int) float64 {
	n := 1 << uint(level)
	cellAt := func(k int) r2.Rect {
		if axis == 0 {
			return s2.CellFromCellID(emb.FromFaceIJ(face, level, k, 0)).BoundUV()
		}
		return s2.CellFromCellID(emb.FromFaceIJ(face, level, 0, k)).BoundUV()
	}
	pick := func(r r2.Rect, hi bool) float64 {
		iv := r.X
		if axis == 1 {
			iv = r.Y
		}
		if hi {
			return iv.Hi
		}
		return iv.Lo
	}
	if g < n {
		return pick(cellAt(g), false)
	}
	return pick(cellAt(g-1), true)
}

func opClipShrink(raw json.RawMessage, o *Out) {
	var c struct {
		K       int
		R       [4]int
		Want    [3]int
		Anchors [][4]int // <<face, level, i, j>>
	}
	if err := json.Unmarshal(raw, &c); err != nil {
		panic(err)
	}
	if len(c.Anchors) == 0 {
		c.Anchors = [][4]int{{0, 0, 0, 0}}
	}
	shape := "rect"
	switch {
	case c.R[0] == c.R[1] && c.R[2] == c.R[3]:
		shape = "point"
	case c.R[0] == c.R[1] || c.R[2] == c.R[3]:
		shape = "line"
	}
	if c.Want[0] < 0 {
		shape += "/corner"
	}
	for _, an := range c.Anchors {
		face, n, ci, cj := an[0], an[1], an[2], an[3]
		lvl := n + c.K
		if lvl > 30 {
			o.Count("clip_shrink_skipped_level")
			continue
		}
		size := 1 << uint(lvl)
		gi0, gi1 := ci<<uint(c.K)+c.R[0], ci<<uint(c.K)+c.R[1]
		gj0, gj1 := cj<<uint(c.K)+c.R[2], cj<<uint(c.K)+c.R[3]
		if gi0 < 0 || gj0 < 0 || gi1 > size || gj1 > size {
			o.Count("clip_shrink_skipped_outside_face")
			continue
		}
		id := emb.FromFaceIJ(face, n, ci, cj)
		rect := r2.Rect{
			X: r1.Interval{Lo: clipGridLine(face, lvl, 0, gi0), Hi: clipGridLine(face, lvl, 0, gi1)},
			Y: r1.Interval{Lo: clipGridLine(face, lvl, 1, gj0), Hi: clipGridLine(face, lvl, 1, gj1)},
		}
		var want s2.CellID
		if k := c.Want[0]; k >= 0 {
			want = emb.FromFaceIJ(face, n+k, ci<<uint(k)+c.Want[1], cj<<uint(k)+c.Want[2])
		} else {
			sh := uint(30 - n)
			want = emb.FromFaceIJ(face, 30, (ci+c.Want[1])<<sh-c.Want[1], (cj+c.Want[2])<<sh-c.Want[2])
		}
		cls := "mid"
		switch {
		case n == 0:
			cls = "face"
		case lvl == 30:
			cls = "leaf"
		}
		for pi, pad := range []float64{0, math.Ldexp(1, -(lvl + 3))} {
			if pi == 1 && c.Want[0] < 0 {
				// the rectangle meets the cell in one corner: with padding, every small descendant within
				// the padding of the corner counts, the answer depends on the padding (not predicted)
				continue
			}
			pc := s2.PaddedCellFromCellID(id, pad)
			if !pc.Bound().Intersects(rect) {
				panic("ext/clip/shrink: the rectangle does not intersect the padded cell")
			}
			got := pc.ShrinkToFit(rect)
			o.Count("clip_shrink_calls")
			if got != want {
				k := "too-deep"
				if emb.RawLevel(got) < emb.RawLevel(want) {
					k = "too-shallow"
				} else if emb.RawLevel(got) == emb.RawLevel(want) {
					k = "wrong-cell"
				}
				o.Fail("ext/clip/shrink/ShrinkToFit/"+k+"/"+shape+"/"+cls+"/"+[]string{"pad0", "pad"}[pi],
					"PaddedCell(%s = face %d level %d (%d,%d), padding %g).ShrinkToFit(%v) = %s (level %d); the smallest cell containing all descendants whose bounds meet the rectangle is %s (level %d) [rect = grid lines %v of level %d relative to the cell, model answer %v]",
					id.String(), face, n, ci, cj, pad, rect, got.String(), emb.RawLevel(got), want.String(), emb.RawLevel(want), c.R, lvl, c.Want)
			}
		}
	}
	o.nontrivial = shape != "rect" || c.R[0] < 0 || c.R[2] < 0 || c.R[1] > 1<<uint(c.K) || c.R[3] > 1<<uint(c.K)
	o.sample = map[string]any{"op": "ext/clip/shrink", "k": c.K, "rect": c.R, "want": c.Want}
}

// ------------------------------------------------------------------------------------ part D

// clipLimb returns the float64 c2*2^(2S) + c1*2^S + c0 scaled by 2^base, if that number is a float64.
func clipLimb(c [3]int) (float64, bool) {
	v := new(big.Int)
	for _, x := range c {
		v.Lsh(v, clipNormalLimbShift)
		v.Add(v, big.NewInt(int64(x)))
	}
	f, acc := new(big.Float).SetInt(v).Float64()
	if acc != big.Exact {
		return 0, false
	}
	return math.Ldexp(f, clipNormalBaseExpo), true
}

func opClipNormal(raw json.RawMessage, o *Out) {
	var c struct {
		N         [3][3]int
		Face, Opp bool
		Axes      [8][2]bool
		Se        [8]bool
	}
	if err := json.Unmarshal(raw, &c); err != nil {
		panic(err)
	}
	var mag [3]float64
	small := true // all three are small integers (lowest limb only)
	limbs := 0
	for k := 0; k < 3; k++ {
		f, ok := clipLimb(c.N[k])
		if !ok {
			o.Count("clip_normal_not_a_float")
			return
		}
		mag[k] = f
		if c.N[k][0] != 0 || c.N[k][1] != 0 {
			small = false
		}
		for _, x := range c.N[k] {
			if x != 0 {
				limbs++
			}
		}
	}
	zero := mag[0] == 0 && mag[1] == 0 && mag[2] == 0
	for pat := 0; pat < 8; pat++ {
		var v [3]float64
		var iv [3]int
		skip := false
		for k := 0; k < 3; k++ {
			v[k] = mag[k]
			iv[k] = c.N[k][2]
			if pat>>uint(k)&1 == 1 {
				if mag[k] == 0 {
					skip = true // no negative zeros
				}
				v[k] = -mag[k]
				iv[k] = -iv[k]
			}
		}
		if skip {
			continue
		}
		in := fmt.Sprintf("(%b, %b, %b) [limbs %v, signs pattern %d]", v[0], v[1], v[2], c.N, pat)
		if got := s2.VerifSumEqual(v[0], v[1], v[2]); got != c.Se[pat] {
			o.Fail("ext/clip/normal/sumEqual", "sumEqual%s = %v, exactly u+v==w is %v", in, got, c.Se[pat])
		}
		o.Count("clip_normal_calls")
		if zero {
			continue
		}
		n := r3.Vector{X: v[0], Y: v[1], Z: v[2]}
		if got := s2.VerifIntersectsFace(n); got != c.Face {
			o.Fail("ext/clip/normal/intersectsFace", "intersectsFace%s = %v; the signs of N at the four corners say %v", in, got, c.Face)
			continue
		}
		if !c.Face {
			continue
		}
		if got := s2.VerifIntersectsOppositeEdges(n); got != c.Opp {
			o.Fail("ext/clip/normal/intersectsOppositeEdges", "intersectsOppositeEdges%s = %v; the signs of N at the corners say %v", in, got, c.Opp)
		}
		ax := s2.VerifExitAxis(n)
		if ax < 0 || ax > 1 || !c.Axes[pat][ax] {
			o.Fail("ext/clip/normal/exitAxis", "exitAxis%s = %d; the directed line leaves the face through axis u: %v, v: %v", in, ax, c.Axes[pat][0], c.Axes[pat][1])
			continue
		}
		if small {
			// exit point: the coordinate on the exit axis is +-1, the other one (-s*Na - Nw)/Nb
			p := s2.VerifExitPoint(n, ax)
			var fixed, free float64
			var num, den, sg int
			if ax == 0 {
				sg = -1
				if iv[1] > 0 {
					sg = 1
				}
				fixed, free = p.X, p.Y
				num, den = -sg*iv[0]-iv[2], iv[1]
			} else {
				sg = -1
				if iv[0] < 0 {
					sg = 1
				}
				fixed, free = p.Y, p.X
				num, den = -sg*iv[1]-iv[2], iv[0]
			}
			want := big.NewRat(int64(num), int64(den))
			wf, _ := want.Float64()
			if fixed != float64(sg) || math.Abs(free) > 1 || math.Abs(free-wf) > clipExitPointRelSlop {
				o.Fail("ext/clip/normal/exitPoint", "exitPoint%s axis %d = %v; exact exit point has coordinate %d on the exit axis and %s on the other", in, ax, p, sg, want.RatString())
			}
			o.Count("clip_normal_exit_points")
		}
	}
	o.nontrivial = limbs > 3 || !small
	o.sample = map[string]any{"op": "ext/clip/normal", "n": c.N, "face": c.Face, "opposite": c.Opp}
}
