package main

// C04: point containment = crossing parity; every evaluation path gives the same answer;
// tiling families contain every point exactly once.
//   c04loop  lattice loops (Gen_InLoop.tla) on the unit embedding
//   c04grid  one grid-world region per case (Gen_Grid.tla, Mode "loop")
//   c04tile  families of regions tiling a face, completed to a tiling of the sphere
// Uses the W2 embedding helpers (w2*) of p_c06.go.

import (
	"encoding/json"
	"fmt"

	"github.com/golang/geo/s2"

	"verifharness/emb"
)

func init() {
	register("c04loop", opC04Loop)
	register("c04grid", opC04Grid)
	register("c04tile", opC04Tile)
	recorders["c04origin"] = recC04Origin
}

// c04Path is one way of evaluating point containment of the same region.
type c04Path struct {
	name string
	f    func(p s2.Point) bool
	// ref, when set, is the reference vertex the path draws its crossing segment from: the
	// path is undefined for the exactly antipodal query point (not an S2 edge)
	ref *s2.Point
}

func (pa *c04Path) defined(p s2.Point) bool {
	return pa.ref == nil || p.Vector != pa.ref.Vector.Mul(-1)
}

func c04CopyPts(p []s2.Point) []s2.Point { return append([]s2.Point(nil), p...) }

// c04LoopPaths returns every evaluation path for a single loop given by its vertices.
// The first path is the reference (Loop.ContainsPoint).
func c04LoopPaths(pts []s2.Point) (paths []c04Path, loop *s2.Loop) {
	loop = s2.LoopFromPoints(c04CopyPts(pts))
	fresh := s2.LoopFromPoints(c04CopyPts(pts)) // never queried through the index before
	paths = append(paths,
		c04Path{"Loop.ContainsPoint", loop.ContainsPoint, nil},
		c04Path{"Loop.bruteForceContainsPoint", func(p s2.Point) bool { return s2.VerifLoopBruteForceContains(fresh, p) }, nil},
		c04Path{"Loop.index-path", func(p s2.Point) bool { return s2.VerifLoopIndexContains(loop, p) }, nil},
		c04Path{"containsBruteForce(Loop)", func(p s2.Point) bool { return s2.VerifContainsBruteForce(loop, p) }, nil},
	)
	lq := s2.NewContainsPointQuery(s2.VerifLoopIndex(loop), s2.VertexModelSemiOpen)
	paths = append(paths, c04Path{"ContainsPointQuery(loop index, semi-open)", lq.Contains, nil})
	// the same loop in a separate index, as Loop, LaxLoop and LaxPolygon
	idx := s2.NewShapeIndex()
	l2 := s2.LoopFromPoints(c04CopyPts(pts))
	lax := s2.LaxLoopFromPoints(pts)
	laxp := s2.LaxPolygonFromPoints([][]s2.Point{pts})
	idx.Add(l2)
	idx.Add(lax)
	idx.Add(laxp)
	q := s2.NewContainsPointQuery(idx, s2.VertexModelSemiOpen)
	// lax shapes anchor their brute force at a vertex of the shape
	laxRef := lax.ReferencePoint().Point
	paths = append(paths,
		c04Path{"ContainsPointQuery.ShapeContains(Loop)", func(p s2.Point) bool { return q.ShapeContains(l2, p) }, nil},
		c04Path{"ContainsPointQuery.ShapeContains(LaxLoop)", func(p s2.Point) bool { return q.ShapeContains(lax, p) }, nil},
		c04Path{"ContainsPointQuery.ShapeContains(LaxPolygon)", func(p s2.Point) bool { return q.ShapeContains(laxp, p) }, nil},
		c04Path{"containsBruteForce(LaxLoop)", func(p s2.Point) bool { return s2.VerifContainsBruteForce(lax, p) }, &laxRef},
	)
	// a polygon made of the loop
	poly := s2.PolygonFromLoops([]*s2.Loop{s2.LoopFromPoints(c04CopyPts(pts))})
	paths = append(paths, c04PolygonPaths(poly, "")...)
	return paths, loop
}

func c04PolygonPaths(poly *s2.Polygon, suffix string) []c04Path {
	pq := s2.NewContainsPointQuery(s2.VerifPolygonIndex(poly), s2.VertexModelSemiOpen)
	return []c04Path{
		{"Polygon.ContainsPoint" + suffix, poly.ContainsPoint, nil},
		{"Polygon.brute-force" + suffix, func(p s2.Point) bool { return s2.VerifPolygonBruteForceContains(poly, p) }, nil},
		{"Polygon.index-path" + suffix, func(p s2.Point) bool { return s2.VerifPolygonIndexContains(poly, p) }, nil},
		{"containsBruteForce(Polygon)" + suffix, func(p s2.Point) bool { return s2.VerifContainsBruteForce(poly, p) }, nil},
		{"ContainsPointQuery(polygon index, semi-open)" + suffix, pq.Contains, nil},
	}
}

// c04Agree evaluates every path at p; all must agree with the first, and with want when predicted.
// Returns the reference answer.
func c04Agree(o *Out, op string, paths []c04Path, p s2.Point, want string, what func() string) bool {
	ref := paths[0].f(p)
	for _, pa := range paths[1:] {
		if !pa.defined(p) {
			o.Count("path_undefined_antipodal_reference")
			continue
		}
		if g := pa.f(p); g != ref {
			o.Fail(op+"/paths-disagree/"+pa.name, "%s = %v but %s = %v at %s", pa.name, g, paths[0].name, ref, what())
		}
	}
	o.Count("points_all_paths")
	if want == "T" || want == "F" {
		o.Count("points_predicted")
		if tf(ref) != want {
			o.Fail(op+"/vs-model/"+paths[0].name, "%s = %v, model %s at %s", paths[0].name, ref, want, what())
		}
	}
	return ref
}

// ---- W1 ------------------------------------------------------------------------------

func opC04Loop(raw json.RawMessage, o *Out) {
	var c struct {
		N     int
		Verts []emb.P3
		Pts   []emb.P3
		Want  []string
	}
	if err := json.Unmarshal(raw, &c); err != nil {
		panic(err)
	}
	pts := make([]s2.Point, len(c.Verts))
	isVertex := map[emb.P3]bool{}
	for n, v := range c.Verts {
		pts[n] = emb.Unit(v)
		isVertex[v] = true
	}
	paths, loop := c04LoopPaths(pts)
	if err := loop.Validate(); err != nil {
		// the model certified validity with non-zero determinants
		o.Fail("c04loop/model-valid-loop-rejected", "Loop.Validate: %v for lattice loop %v", err, c.Verts)
		return
	}
	// the complement: Invert() of a copy whose index has been used, and a fresh reversed loop
	inv := s2.LoopFromPoints(c04CopyPts(pts))
	inv.ContainsPoint(pts[0])
	s2.VerifLoopIndexContains(inv, pts[0])
	inv.Invert()
	rev := s2.LoopFromPoints(w2Rev(pts))
	invPaths := []c04Path{
		{"Invert().ContainsPoint", inv.ContainsPoint, nil},
		{"Invert().index-path", func(p s2.Point) bool { return s2.VerifLoopIndexContains(inv, p) }, nil},
		{"Invert().brute-force", func(p s2.Point) bool { return s2.VerifLoopBruteForceContains(inv, p) }, nil},
		{"reversed-loop.ContainsPoint", rev.ContainsPoint, nil},
		{"reversed-loop.index-path", func(p s2.Point) bool { return s2.VerifLoopIndexContains(rev, p) }, nil},
	}
	vm := []*s2.ContainsPointQuery{
		s2.NewContainsPointQuery(s2.VerifLoopIndex(loop), s2.VertexModelOpen),
		s2.NewContainsPointQuery(s2.VerifLoopIndex(loop), s2.VertexModelClosed),
	}
	npred := 0
	for n, lp := range c.Pts {
		p := emb.Unit(lp)
		what := func() string { return fmt.Sprintf("lattice point %v, loop %v [unit]", lp, c.Verts) }
		in := c04Agree(o, "c04loop", paths, p, c.Want[n], what)
		if c.Want[n] != "U" {
			npred++
		}
		out := c04Agree(o, "c04loop-inverse", invPaths, p, "U", what)
		if in == out {
			o.Fail("c04loop/exactly-once/loop-and-inverse", "loop and its inverse both answer %v at %s", in, what())
		}
		// open / closed models differ from semi-open only at the loop's own vertices
		op, cl := vm[0].Contains(p), vm[1].Contains(p)
		if isVertex[lp] {
			if op || !cl {
				o.Fail("c04loop/vertex-models-at-vertex", "open=%v closed=%v at vertex %s", op, cl, what())
			}
		} else if op != in || cl != in {
			o.Fail("c04loop/vertex-models-off-vertex", "open=%v closed=%v semi-open=%v at %s", op, cl, in, what())
		}
	}
	o.nontrivial = npred < len(c.Pts) || len(c.Verts) > 3
	o.sample = map[string]any{"op": "c04loop", "verts": c.Verts, "predicted": npred, "points": len(c.Pts)}
}

// ---- W2: one region ---------------------------------------------------------------

// c04Points enumerates the query points of a face: probes of level G+1 (and G+2 when deep),
// all grid vertices, with the model class of each for the given shape.
type c04Pt struct {
	p    s2.Point
	want string // "T", "F", "U"
	what string
}

func c04FacePoints(c *w2Case, sh *w2Shape, face int, deep bool) []c04Pt {
	S := 1 << uint(c.G)
	var out []c04Pt
	levels := []int{c.G + 1}
	if deep {
		levels = append(levels, c.G+2)
	}
	for _, lv := range levels {
		n := S << uint(lv-c.G)
		for pi := 0; pi < n; pi++ {
			for pj := 0; pj < n; pj++ {
				w := "F"
				if sh != nil && sh.Face == face && sh.inCell(c.G, lv, pi, pj) {
					w = "T"
				}
				out = append(out, c04Pt{w2Probe(face, lv, pi, pj), w, fmt.Sprintf("probe level %d ij=%d,%d face %d", lv, pi, pj, face)})
			}
		}
	}
	for I := 0; I <= S; I++ {
		for J := 0; J <= S; J++ {
			w := "U"
			if sh != nil && sh.Face == face {
				switch sh.VClass[J][I] {
				case 0:
					w = "F"
				case 1:
					w = "T"
				}
			} else if I > 0 && I < S && J > 0 && J < S {
				w = "F"
			}
			out = append(out, c04Pt{w2Vertex(face, c.G, I, J), w, fmt.Sprintf("grid vertex %d,%d face %d", I, J, face)})
		}
	}
	return out
}

// c04EdgePoints: the midpoint of every edge and a point a quarter along it (points that are
// on the boundary up to rounding: no prediction, consistency and exactly-once only).
func c04EdgePoints(loops [][]s2.Point) []c04Pt {
	var out []c04Pt
	for ln, l := range loops {
		for n := range l {
			a, b := l[n], l[(n+1)%len(l)]
			mid := s2.Point{Vector: a.Add(b.Vector).Normalize()}
			q := s2.Point{Vector: a.Mul(3).Add(b.Vector).Normalize()}
			out = append(out, c04Pt{mid, "U", fmt.Sprintf("midpoint of edge %d of loop %d", n, ln)},
				c04Pt{q, "U", fmt.Sprintf("quarter point of edge %d of loop %d", n, ln)})
		}
	}
	return out
}

func c04OtherFacePoints(c *w2Case, face int) []c04Pt {
	var out []c04Pt
	for f := 0; f < 6; f++ {
		if f == face {
			continue
		}
		out = append(out, c04Pt{w2Probe(f, 0, 0, 0), "F", fmt.Sprintf("centre of face %d", f)},
			c04Pt{w2Probe(f, 1, 1, 0), "F", fmt.Sprintf("level-1 cell centre on face %d", f)})
	}
	return out
}

func opC04Grid(raw json.RawMessage, o *Out) {
	var c w2Case
	if err := json.Unmarshal(raw, &c); err != nil {
		panic(err)
	}
	sh := &c.Shapes[0]
	desc := fmt.Sprintf("g=%d face=%d step=%d pieces=%v", c.G, sh.Face, sh.Step, sh.Pcs)
	var loops [][]s2.Point
	nv := 0
	for _, l := range sh.Loops {
		loops = append(loops, w2Pts(sh.Face, c.G, l))
		nv += len(l)
	}
	var paths []c04Path
	var objs []*w2Obj
	var loop *s2.Loop
	if len(loops) == 1 {
		paths, loop = c04LoopPaths(loops[0])
		_ = loop
	}
	// polygons: from oriented loops (holes clockwise) and from nested counter-clockwise loops
	for _, kind := range []string{"Polygon", "PolygonNested"} {
		ob := w2Realise(o, &c, 0, kind)
		if ob == nil {
			return
		}
		objs = append(objs, ob)
		paths = append(paths, c04PolygonPaths(ob.poly, "/"+kind)...)
	}
	if len(loops) == 1 {
		if ob := w2Realise(o, &c, 0, "Loop"); ob != nil {
			objs = append(objs, ob)
		}
	} else {
		ob := w2Realise(o, &c, 0, "LaxPolygon")
		if ob == nil {
			return
		}
		idx := s2.NewShapeIndex()
		idx.Add(ob.shape)
		q := s2.NewContainsPointQuery(idx, s2.VertexModelSemiOpen)
		paths = append(paths,
			c04Path{"ContainsPointQuery(LaxPolygon)", q.Contains, nil},
			c04Path{"containsBruteForce(LaxPolygon)", func(p s2.Point) bool { return s2.VerifContainsBruteForce(ob.shape, p) }, nil})
	}
	o.nontrivial = nv > 32 || len(loops) > 1
	o.sample = map[string]any{"op": "c04grid", "g": c.G, "face": sh.Face, "step": sh.Step, "pieces": sh.Pcs, "vertices": nv}
	if nv > 32 {
		o.Count("regions_over_32_vertices")
	} else {
		o.Count("regions_up_to_32_vertices")
	}

	pts := c04FacePoints(&c, sh, sh.Face, c.G <= 3)
	pts = append(pts, c04EdgePoints(loops)...)
	pts = append(pts, c04OtherFacePoints(&c, sh.Face)...)
	ref := make([]bool, len(pts))
	for n, pt := range pts {
		pt := pt
		ref[n] = c04Agree(o, "c04grid", paths, pt.p, pt.want, func() string { return pt.what + ": " + desc })
	}

	// the index of every object: containsCenter of every index cell = the model's answer
	for _, ob := range objs {
		var idx *s2.ShapeIndex
		if ob.loop != nil {
			idx = s2.VerifLoopIndex(ob.loop)
		} else {
			idx = s2.VerifPolygonIndex(ob.poly)
		}
		idx.Build()
		w2CheckIndex(o, &c, "own-index", idx, []*w2Obj{ob})
	}

	// complement: a loop and its Invert(), a polygon and its Invert(), a fresh reversed loop
	var comp []c04Path
	if len(loops) == 1 {
		inv := s2.LoopFromPoints(c04CopyPts(loops[0]))
		inv.ContainsPoint(pts[0].p) // the index exists (for > 32 vertices) before Invert
		s2.VerifLoopIndexContains(inv, pts[0].p)
		inv.Invert()
		rev := s2.LoopFromPoints(w2Rev(loops[0]))
		comp = append(comp,
			c04Path{"Loop.Invert().ContainsPoint", inv.ContainsPoint, nil},
			c04Path{"Loop.Invert().index-path", func(p s2.Point) bool { return s2.VerifLoopIndexContains(inv, p) }, nil},
			c04Path{"Loop.Invert().brute-force", func(p s2.Point) bool { return s2.VerifLoopBruteForceContains(inv, p) }, nil},
			c04Path{"reversed-loop.ContainsPoint", rev.ContainsPoint, nil},
			c04Path{"reversed-loop.brute-force", func(p s2.Point) bool { return s2.VerifLoopBruteForceContains(rev, p) }, nil})
	}
	if ob := w2Realise(o, &c, 0, "Polygon"); ob != nil {
		ob.poly.ContainsPoint(pts[0].p)
		ob.poly.Invert()
		comp = append(comp, c04PolygonPaths(ob.poly, "/Invert()")...)
	}
	for n, pt := range pts {
		pt := pt
		what := func() string { return pt.what + ": " + desc }
		out := c04Agree(o, "c04grid-complement", comp, pt.p, "U", what)
		if out == ref[n] {
			o.Fail("c04grid/exactly-once/region-and-complement", "the region and its complement (%s) both answer %v at %s", comp[0].name, out, what())
		}
	}
}

// ---- W2: tilings ----------------------------------------------------------------------------

type c04Member struct {
	name  string
	paths []c04Path
	sh    *w2Shape // nil for the whole-face loops of the other faces
	face  int
	loops [][]s2.Point
}

func opC04Tile(raw json.RawMessage, o *Out) {
	var c w2Case
	if err := json.Unmarshal(raw, &c); err != nil {
		panic(err)
	}
	S := 1 << uint(c.G)
	var members []*c04Member
	desc := fmt.Sprintf("g=%d face=%d kv=%d members=", c.G, c.Face, c.KV)
	for k := range c.Shapes {
		sh := &c.Shapes[k]
		m := &c04Member{name: fmt.Sprintf("member %d %v", k, sh.Pcs), sh: sh, face: sh.Face}
		for _, l := range sh.Loops {
			m.loops = append(m.loops, w2Pts(sh.Face, c.G, l))
		}
		unit := len(sh.Pcs) == 1 && sh.Pcs[0].Kind == "rect" && sh.Pcs[0].P[2] == sh.Pcs[0].P[0]+1 && sh.Pcs[0].P[3] == sh.Pcs[0].P[1]+1
		switch {
		case unit && c.KV%2 == 1:
			// a single cell: the library's own constructor
			l := s2.LoopFromCell(s2.CellFromCellID(emb.FromFaceIJ(sh.Face, c.G, sh.Pcs[0].P[0], sh.Pcs[0].P[1])))
			m.paths = []c04Path{
				{"LoopFromCell.ContainsPoint", l.ContainsPoint, nil},
				{"LoopFromCell.index-path", func(p s2.Point) bool { return s2.VerifLoopIndexContains(l, p) }, nil},
				{"LoopFromCell.brute-force", func(p s2.Point) bool { return s2.VerifLoopBruteForceContains(l, p) }, nil},
			}
		case len(m.loops) == 1:
			m.paths, _ = c04LoopPaths(m.loops[0])
		default:
			ob := w2Realise(o, &c, k, "Polygon")
			if ob == nil {
				return
			}
			m.paths = c04PolygonPaths(ob.poly, "")
		}
		desc += fmt.Sprintf("%v ", sh.Pcs)
		members = append(members, m)
	}
	// the other five faces as whole-face loops with a vertex at every grid point, so that every
	// edge on a face boundary is shared exactly with the members of the tiled face (a family
	// with T-junctions does not share edges and is outside the property)
	step := 1
	for f := 0; f < 6; f++ {
		if f == c.Face {
			continue
		}
		var vs [][2]int
		for x := 0; x < S; x += step {
			vs = append(vs, [2]int{x, 0})
		}
		for y := 0; y < S; y += step {
			vs = append(vs, [2]int{S, y})
		}
		for x := S; x > 0; x -= step {
			vs = append(vs, [2]int{x, S})
		}
		for y := S; y > 0; y -= step {
			vs = append(vs, [2]int{0, y})
		}
		m := &c04Member{name: fmt.Sprintf("whole face %d", f), face: f, loops: [][]s2.Point{w2Pts(f, c.G, vs)}}
		m.paths, _ = c04LoopPaths(m.loops[0])
		members = append(members, m)
	}
	o.nontrivial = true
	o.sample = map[string]any{"op": "c04tile", "g": c.G, "face": c.Face, "members": len(members), "desc": desc}

	// query points: every grid vertex and level-(G+1) probe of the tiled face, the grid vertices
	// of the boundary ring shared with the other faces, the edge points of every member, and
	// centres/corners of the other faces
	type tp struct {
		p      s2.Point
		what   string
		member int // predicted member (-1: exactly-once only)
	}
	var pts []tp
	n := 2 * S
	for pi := 0; pi < n; pi++ {
		for pj := 0; pj < n; pj++ {
			want := -1
			for k := range c.Shapes {
				if c.Shapes[k].inCell(c.G, c.G+1, pi, pj) {
					want = k
				}
			}
			pts = append(pts, tp{w2Probe(c.Face, c.G+1, pi, pj), fmt.Sprintf("probe level %d ij=%d,%d face %d", c.G+1, pi, pj, c.Face), want})
		}
	}
	for f := 0; f < 6; f++ {
		st := 1
		if f != c.Face {
			st = S / 4
			if st < 1 {
				st = 1
			}
		}
		for I := 0; I <= S; I += st {
			for J := 0; J <= S; J += st {
				pts = append(pts, tp{w2Vertex(f, c.G, I, J), fmt.Sprintf("grid vertex %d,%d face %d", I, J, f), -1})
			}
		}
		if f != c.Face {
			for k, m := range members {
				if m.sh == nil && m.face == f {
					pts = append(pts, tp{w2Probe(f, 0, 0, 0), fmt.Sprintf("centre of face %d", f), k},
						tp{w2Probe(f, 2, 1, 2), fmt.Sprintf("level-2 cell centre on face %d", f), k})
				}
			}
		}
	}
	for _, m := range members {
		for _, ep := range c04EdgePoints(m.loops) {
			pts = append(pts, tp{ep.p, ep.what + " of " + m.name, -1})
		}
	}
	// the one-member tiling {full} and the empty family: the special loops and polygons must
	// contain every point / no point, and Invert() must exchange them
	type special struct {
		name string
		f    func(p s2.Point) bool
		want bool
	}
	fullInv, emptyInv := s2.FullLoop(), s2.EmptyLoop()
	fullInv.Invert()
	emptyInv.Invert()
	fpInv, epInv := s2.FullPolygon(), s2.PolygonFromLoops(nil)
	fpInv.Invert()
	epInv.Invert()
	specials := []special{
		{"FullLoop.ContainsPoint", s2.FullLoop().ContainsPoint, true},
		{"EmptyLoop.ContainsPoint", s2.EmptyLoop().ContainsPoint, false},
		{"FullLoop.Invert.ContainsPoint", fullInv.ContainsPoint, false},
		{"EmptyLoop.Invert.ContainsPoint", emptyInv.ContainsPoint, true},
		{"FullPolygon.ContainsPoint", s2.FullPolygon().ContainsPoint, true},
		{"PolygonFromLoops(FullLoop).ContainsPoint", s2.PolygonFromLoops([]*s2.Loop{s2.FullLoop()}).ContainsPoint, true},
		{"EmptyPolygon.ContainsPoint", s2.PolygonFromLoops(nil).ContainsPoint, false},
		{"FullPolygon.Invert.ContainsPoint", fpInv.ContainsPoint, false},
		{"EmptyPolygon.Invert.ContainsPoint", epInv.ContainsPoint, true},
	}
	for _, sp := range specials {
		sp := sp
		for _, pt := range pts[:8] {
			pt := pt
			c06Try(o, "c04tile/special-panic/"+sp.name, sp.name+" at "+pt.what, func() {
				if g := sp.f(pt.p); g != sp.want {
					o.Fail("c04tile/special/"+sp.name, "%s = %v, must be %v at %s", sp.name, g, sp.want, pt.what)
				}
			})
		}
	}
	for _, pt := range pts {
		pt := pt
		count := 0
		var who []string
		for k, m := range members {
			want := "U"
			if pt.member >= 0 {
				want = tf(pt.member == k)
			}
			m := m
			if c04Agree(o, "c04tile", m.paths, pt.p, want, func() string { return pt.what + " in " + m.name + ": " + desc }) {
				count++
				who = append(who, m.name)
			}
		}
		o.Count("tiling_points")
		if count != 1 {
			o.Fail("c04tile/exactly-once", "%s is contained in %d members %v of the tiling: %s", pt.what, count, who, desc)
		}
	}
}

// recC04Origin prints, for every grid level 1..8, the face and the (i,j) of the cell that
// contains S2's fixed reference point OriginPoint(), as one JSON object.  The driver passes it
// to Gen_Grid (constants OI, OJ) so that regions can be placed around the point from which
// Loop and Polygon count crossings.  The cell is found from the real point; the (i,j) decoding
// is the table-driven one of package emb.
func recC04Origin(args []string) {
	leaf := s2.CellFromPoint(s2.OriginPoint()).ID()
	out := map[string]any{"face": int(uint64(leaf) >> 61)}
	levels := map[string][2]int{}
	for g := 1; g <= 8; g++ {
		// the ancestor at level g by bit arithmetic on the id
		path := emb.RawPath(leaf)[:g]
		i, j, _ := emb.IJ(emb.RawID(int(uint64(leaf)>>61), path))
		levels[fmt.Sprint(g)] = [2]int{i, j}
	}
	out["ij"] = levels
	b, _ := json.Marshal(out)
	fmt.Println(string(b))
}
