package main

// C01: cell ids form a consistent, invertible quadtree along the Hilbert curve.
// Cases come from spec/Gen_Cells.tla: one model cell (on its full path) with the
// answers of spec/Cells.tla, or one exactly projectable point with its admissible
// leaf cells.  Real ids are built by plain bit arithmetic (emb.RawID), never by
// the functions under test.

import (
	"encoding/json"
	"fmt"
	"math"
	"sort"
	"strings"

	"github.com/golang/geo/r3"
	"github.com/golang/geo/s2"

	"verifharness/emb"
)

func init() {
	register("cell", opC01Cell)
	register("pt", opC01Point)
}

// c01Cell is a model cell; f = -1: no such cell, f = 6: End(level).
type c01Cell struct {
	F int   `json:"f"`
	P []int `json:"p"`
}

func (c c01Cell) id() s2.CellID { return emb.RawID(c.F, c.P) }
func (c c01Cell) String() string {
	return c01Str(c.F, c.P)
}

func c01Str(f int, p []int) string {
	var b strings.Builder
	fmt.Fprintf(&b, "%d/", f)
	for _, d := range p {
		b.WriteByte("0123"[d&3])
	}
	return b.String()
}

func c01IDs(cs []c01Cell) []s2.CellID {
	out := make([]s2.CellID, len(cs))
	for i, c := range cs {
		out[i] = c.id()
	}
	return out
}

// c01IJ is a model cell in coordinate form <<face, level, i, j>> (i, j in units of
// its own level).  It is embedded with emb.FromFaceIJ (S2's defining tables, level by
// level); every case re-validates that embedding against the path form of the
// specification (c01EmbeddingCheck).
type c01IJ [4]int

func (x c01IJ) id() s2.CellID { return emb.FromFaceIJ(x[0], x[1], x[2], x[3]) }

func c01IJIDs(xs []c01IJ) []s2.CellID {
	out := make([]s2.CellID, len(xs))
	for i, x := range xs {
		out[i] = x.id()
	}
	return out
}

// c01EmbeddingCheck: the coordinate embedding and the path embedding of the
// specification's cells must coincide (otherwise the harness itself is wrong).
func c01EmbeddingCheck(x c01IJ, p c01Cell) {
	if x.id() != p.id() {
		panic(fmt.Sprintf("embedding mismatch: spec cell %v has spec path %s but emb.FromFaceIJ gives %v", x, p, x.id()))
	}
	if i, j, _ := emb.IJ(p.id()); i != x[2] || j != x[3] {
		panic(fmt.Sprintf("embedding mismatch: spec path %s has spec (i,j)=(%d,%d) but emb.IJ gives (%d,%d)", p, x[2], x[3], i, j))
	}
}

func c01SetEq(got, want []s2.CellID) bool {
	g := map[s2.CellID]bool{}
	w := map[s2.CellID]bool{}
	for _, x := range got {
		g[x] = true
	}
	for _, x := range want {
		w[x] = true
	}
	if len(g) != len(w) {
		return false
	}
	for x := range g {
		if !w[x] {
			return false
		}
	}
	return true
}

func c01Fmt(ids []s2.CellID) string {
	s := make([]string, len(ids))
	for i, x := range ids {
		s[i] = c01Str(int(uint64(x)>>61), emb.RawPath(x))
	}
	sort.Strings(s)
	return "[" + strings.Join(s, " ") + "]"
}

func c01Pad(p []int, d, n int) []int {
	out := append([]int(nil), p...)
	for len(out) < n {
		out = append(out, d)
	}
	return out
}

func c01RawPos(id s2.CellID) uint64 { return uint64(id) & (uint64(1)<<61 - 1) }

// c01Class names the embedding class of a case for violation keys.
func c01Class(al, n int) string {
	switch {
	case n == 30:
		return "leaf"
	case al == 0:
		return "top"
	}
	return "deep"
}

type c01Case struct {
	F    int    `json:"f"`
	P    []int  `json:"p"`
	Al   int    `json:"al"`
	IJ   [3]int `json:"ij"`
	CL   [2]int `json:"cl"`
	Par  c01Cell
	Kids []c01Cell
	Rmin []int
	Rmax []int
	Nx   c01Cell
	Pv   c01Cell
	Nxw  c01Cell
	Pvw  c01Cell
	Adv  []struct {
		Q  int64
		M  int
		A  c01Cell
		Aw c01Cell
	}
	Tok []int
	Str []int
	En  []c01IJ
	Enp []c01Cell
	Vn  []struct {
		Lev   int
		Cells []c01IJ
	}
	An []struct {
		Lev   int
		Cells []c01IJ
	}
	Vc [][]c01IJ
	Pp []struct {
		F   int
		Q   []int
		Rel int
		Ct  bool
		Cb  bool
		It  bool
		Cal int
		Mt  int
	}
}

// c01PointChecks: the leaf chosen for p is valid, CellFromPoint agrees, every
// ancestor (levels 0..30) is the raw path prefix and contains p.
func c01PointChecks(o *Out, what, class string, p s2.Point, desc string) (leaf s2.CellID, ok bool) {
	leaf = s2.VerifCellIDFromPoint(p)
	if !leaf.IsValid() || !leaf.IsLeaf() {
		o.Fail("point/"+what+"/invalid-leaf/"+class, "cellIDFromPoint(%v) = %x is not a valid leaf: %s", p, uint64(leaf), desc)
		return leaf, false
	}
	if c := s2.CellFromPoint(p); c.ID() != leaf {
		o.Fail("point/"+what+"/CellFromPoint-id/"+class, "CellFromPoint(%v).ID() = %v, cellIDFromPoint = %v: %s", p, c.ID(), leaf, desc)
	}
	path := emb.RawPath(leaf)
	face := int(uint64(leaf) >> 61)
	for l := 0; l <= 30; l++ {
		anc := leaf.Parent(l)
		if anc != emb.RawID(face, path[:l]) {
			o.Fail("point/"+what+"/ancestor-not-prefix/"+class, "leaf %v Parent(%d) = %v: %s", leaf, l, anc, desc)
			continue
		}
		if !s2.CellFromCellID(anc).ContainsPoint(p) {
			o.Fail("point/"+what+"/ancestor-ContainsPoint/"+class, "level %d ancestor %v of leaf %v does not contain %v: %s", l, anc, leaf, p, desc)
		}
	}
	o.Count("points_checked")
	return leaf, true
}

// c01Ulps returns the six points that differ from p by one ulp in one coordinate.
// Nothing is predicted for them (their projection is not exact); they only have to
// satisfy the consistency clauses of the property (valid leaf, ancestors are prefixes,
// every ancestor contains the point).
func c01Ulps(p s2.Point) []s2.Point {
	var out []s2.Point
	for ax := 0; ax < 3; ax++ {
		for _, dir := range []float64{math.Inf(1), math.Inf(-1)} {
			q := p
			switch ax {
			case 0:
				q.X = math.Nextafter(q.X, dir)
			case 1:
				q.Y = math.Nextafter(q.Y, dir)
			default:
				q.Z = math.Nextafter(q.Z, dir)
			}
			out = append(out, q)
		}
	}
	return out
}

func opC01Cell(raw json.RawMessage, o *Out) {
	var c c01Case
	if err := json.Unmarshal(raw, &c); err != nil {
		panic(err)
	}
	n := len(c.P)
	id := emb.RawID(c.F, c.P)
	me := c01Str(c.F, c.P)
	cls := c01Class(c.Al, n)
	fail := func(check, format string, args ...any) {
		o.Fail("cell/"+check+"/"+cls, "cell %s (id %x): %s", me, uint64(id), fmt.Sprintf(format, args...))
	}
	lsb := uint64(1) << uint(2*(30-n))
	c01EmbeddingCheck(c01IJ{c.F, n, c.IJ[0], c.IJ[1]}, c01Cell{c.F, c.P})
	for k := range c.En {
		c01EmbeddingCheck(c.En[k], c.Enp[k])
	}

	// ---- identity: level, face, position, child positions, validity
	if !id.IsValid() {
		fail("IsValid", "IsValid() = false")
	}
	if id.Level() != n {
		fail("Level", "Level() = %d, model %d", id.Level(), n)
	}
	if id.Face() != c.F {
		fail("Face", "Face() = %d, model %d", id.Face(), c.F)
	}
	if id.Pos() != c01RawPos(id) {
		fail("Pos", "Pos() = %x, id bits %x", id.Pos(), c01RawPos(id))
	}
	if id.IsLeaf() != (n == 30) {
		fail("IsLeaf", "IsLeaf() = %v at level %d", id.IsLeaf(), n)
	}
	for k := 1; k <= n; k++ {
		if g := id.ChildPosition(k); g != c.P[k-1] {
			fail("ChildPosition", "ChildPosition(%d) = %d, model %d", k, g, c.P[k-1])
		}
		if g := id.Parent(k - 1); g != emb.RawID(c.F, c.P[:k-1]) {
			fail("Parent", "Parent(%d) = %v, model %s", k-1, g, c01Str(c.F, c.P[:k-1]))
		}
	}
	if g := id.Parent(n); g != id {
		fail("Parent", "Parent(own level) = %v", g)
	}
	if n > 0 {
		if g := s2.VerifImmediateParent(id); g != c.Par.id() {
			fail("immediateParent", "immediateParent() = %v, model %s", g, c.Par)
		}
	}
	// ---- children, ranges
	if n < 30 {
		kids := id.Children()
		for k := 0; k < 4; k++ {
			if kids[k] != c.Kids[k].id() {
				fail("Children", "Children()[%d] = %v, model %s", k, kids[k], c.Kids[k])
			}
		}
		if g := id.ChildBegin(); g != c.Kids[0].id() {
			fail("ChildBegin", "ChildBegin() = %v, model %s", g, c.Kids[0])
		}
		if g := id.ChildEnd(); g != c.Kids[3].id()+s2.CellID(lsb>>1) {
			fail("ChildEnd", "ChildEnd() = %x, one step after model last child %s", uint64(g), c.Kids[3])
		}
	}
	rmin, rmax := emb.RawID(c.F, c.Rmin), emb.RawID(c.F, c.Rmax)
	if g := id.RangeMin(); g != rmin {
		fail("RangeMin", "RangeMin() = %v, model %s", g, c01Str(c.F, c.Rmin))
	}
	if g := id.RangeMax(); g != rmax {
		fail("RangeMax", "RangeMax() = %v, model %s", g, c01Str(c.F, c.Rmax))
	}
	if g := id.ChildBeginAtLevel(30); g != rmin {
		fail("ChildBeginAtLevel", "ChildBeginAtLevel(30) = %v, model %s", g, c01Str(c.F, c.Rmin))
	}
	// ---- face/pos/level constructor (position is truncated to the cell centre)
	for _, src := range []s2.CellID{id, rmin, rmax} {
		if g := s2.CellIDFromFacePosLevel(c.F, c01RawPos(src), n); g != id {
			fail("CellIDFromFacePosLevel", "CellIDFromFacePosLevel(%d, %x, %d) = %v", c.F, c01RawPos(src), n, g)
		}
	}
	for _, k := range []int{0, n / 2} {
		if g := s2.CellIDFromFacePosLevel(c.F, c01RawPos(rmax), k); g != emb.RawID(c.F, c.P[:k]) {
			fail("CellIDFromFacePosLevel", "CellIDFromFacePosLevel(%d, %x, %d) = %v, model %s", c.F, c01RawPos(rmax), k, g, c01Str(c.F, c.P[:k]))
		}
	}
	// ---- along the curve
	if g := id.Next(); g != c.Nx.id() {
		fail("Next", "Next() = %x, model %s", uint64(g), c.Nx)
	}
	if c.Pv.F >= 0 {
		if g := id.Prev(); g != c.Pv.id() {
			fail("Prev", "Prev() = %x, model %s", uint64(g), c.Pv)
		}
	}
	if g := id.NextWrap(); g != c.Nxw.id() {
		fail("NextWrap", "NextWrap() = %x, model %s", uint64(g), c.Nxw)
	}
	if g := id.PrevWrap(); g != c.Pvw.id() {
		fail("PrevWrap", "PrevWrap() = %x, model %s", uint64(g), c.Pvw)
	}
	for _, a := range c.Adv {
		steps := a.Q * (int64(1) << uint(2*a.M))
		if g := id.Advance(steps); g != a.A.id() {
			fail("Advance", "Advance(%d*4^%d) = %x, model %s", a.Q, a.M, uint64(g), a.A)
		}
		if g := id.AdvanceWrap(steps); g != a.Aw.id() {
			fail("AdvanceWrap", "AdvanceWrap(%d*4^%d) = %x, model %s", a.Q, a.M, uint64(g), a.Aw)
		}
		o.Count("advance_checked")
	}
	// ---- text forms
	var tb strings.Builder
	for _, d := range c.Tok {
		tb.WriteByte("0123456789abcdef"[d&15])
	}
	tok := tb.String()
	if g := id.ToToken(); g != tok {
		fail("ToToken", "ToToken() = %q, model %q", g, tok)
	}
	if g := s2.CellIDFromToken(tok); g != id {
		fail("CellIDFromToken", "CellIDFromToken(%q) = %x", tok, uint64(g))
	}
	if g := s2.CellIDFromToken(id.ToToken()); g != id {
		fail("token-roundtrip", "CellIDFromToken(ToToken()) = %x", uint64(g))
	}
	str := fmt.Sprintf("%d/", c.Str[0])
	for _, d := range c.Str[1:] {
		str += string("0123"[d&3])
	}
	if g := id.String(); g != str {
		fail("String", "String() = %q, model %q", g, str)
	}
	if g := s2.CellIDFromString(str); g != id {
		fail("CellIDFromString", "CellIDFromString(%q) = %x", str, uint64(g))
	}
	// ---- (i,j) coordinates
	shift := uint(30 - n)
	f, i, j, or := s2.VerifFaceIJOrientation(id)
	if f != c.F || i != c.CL[0] || j != c.CL[1] || or != c.IJ[2] {
		fail("faceIJOrientation", "faceIJOrientation() = (%d,%d,%d,%d), model (%d,%d,%d,%d)", f, i, j, or, c.F, c.CL[0], c.CL[1], c.IJ[2])
	}
	if i>>shift != c.IJ[0] || j>>shift != c.IJ[1] {
		fail("faceIJOrientation-cell", "leaf (%d,%d) is not inside the model cell (i,j)=(%d,%d) of level %d", i, j, c.IJ[0], c.IJ[1], n)
	}
	if g := s2.VerifCellIDFromFaceIJ(c.F, c.CL[0], c.CL[1]); g != emb.RawID(c.F, emb.RawPath(id|1)) || g.Parent(n) != id {
		fail("cellIDFromFaceIJ-centre", "cellIDFromFaceIJ(%d,%d,%d) = %v", c.F, c.CL[0], c.CL[1], g)
	}
	ilo, jlo := c.IJ[0]<<shift, c.IJ[1]<<shift
	ihi, jhi := ilo+(1<<shift)-1, jlo+(1<<shift)-1
	for _, q := range [][2]int{{ilo, jlo}, {ihi, jlo}, {ihi, jhi}, {ilo, jhi}} {
		g := s2.VerifCellIDFromFaceIJ(c.F, q[0], q[1])
		if !g.IsLeaf() || g.Parent(n) != id {
			fail("cellIDFromFaceIJ-corner", "cellIDFromFaceIJ(%d,%d,%d) = %v is not a leaf of the cell", c.F, q[0], q[1], g)
		}
		if gi, gj, _ := emb.IJ(g); gi != q[0] || gj != q[1] {
			fail("cellIDFromFaceIJ-corner", "cellIDFromFaceIJ(%d,%d,%d) = %v decodes to (%d,%d)", c.F, q[0], q[1], g, gi, gj)
		}
	}
	if cf, si, ti := s2.VerifCenterFaceSiTi(id); cf != c.F || si != (2*c.IJ[0]+1)<<shift || ti != (2*c.IJ[1]+1)<<shift {
		fail("centerFaceSiTi", "centerFaceSiTi() = (%d,%d,%d), model centre (%d,%d,%d)", cf, si, ti, c.F, (2*c.IJ[0]+1)<<shift, (2*c.IJ[1]+1)<<shift)
	}
	// ---- neighbours
	boundary := false
	en := id.EdgeNeighbors()
	wantEN := c01IJIDs(c.En)
	for k := 0; k < 4; k++ {
		if c.En[k][0] != c.F {
			boundary = true
		}
		if en[k].Level() != n || !en[k].IsValid() {
			fail("EdgeNeighbors-level", "EdgeNeighbors()[%d] = %v is not a level-%d cell", k, en[k], n)
		}
		if en[k].Intersects(id) {
			fail("EdgeNeighbors-disjoint", "EdgeNeighbors()[%d] = %v intersects the cell", k, en[k])
		}
		for m := 0; m < k; m++ {
			if en[k] == en[m] {
				fail("EdgeNeighbors-distinct", "EdgeNeighbors()[%d] = [%d] = %v", k, m, en[k])
			}
		}
	}
	if !c01SetEq(en[:], wantEN) {
		fail("EdgeNeighbors-set", "EdgeNeighbors() = %s, model %s", c01Fmt(en[:]), c01Fmt(wantEN))
	} else {
		for k := 0; k < 4; k++ {
			if en[k] != wantEN[k] {
				fail("EdgeNeighbors-order", "EdgeNeighbors()[%d] = %v, model (down,right,up,left)[%d] = %s", k, en[k], k, c.Enp[k])
			}
		}
	}
	for _, v := range c.Vn {
		got := id.VertexNeighbors(v.Lev)
		want := c01IJIDs(v.Cells)
		for k, g := range got {
			if g.Level() != v.Lev || !g.IsValid() {
				fail("VertexNeighbors-level", "VertexNeighbors(%d)[%d] = %v is not of the requested level", v.Lev, k, g)
			}
			for m := 0; m < k; m++ {
				if got[m] == g {
					fail("VertexNeighbors-distinct", "VertexNeighbors(%d) repeats %v", v.Lev, g)
				}
			}
		}
		if !c01SetEq(got, want) {
			fail("VertexNeighbors-set", "VertexNeighbors(%d) = %s, model %s", v.Lev, c01Fmt(got), c01Fmt(want))
		}
		if len(want) == 3 {
			o.Count("vertex_nbrs_at_cube_corner")
		}
		o.Count("vertex_nbr_sets")
	}
	for _, a := range c.An {
		got := id.AllNeighbors(a.Lev)
		want := c01IJIDs(a.Cells)
		for k, g := range got {
			if g.Level() != a.Lev || !g.IsValid() {
				fail("AllNeighbors-level", "AllNeighbors(%d)[%d] = %v is not of the requested level", a.Lev, k, g)
			}
			if g.Intersects(id) {
				fail("AllNeighbors-disjoint", "AllNeighbors(%d)[%d] = %v intersects the cell", a.Lev, k, g)
			}
		}
		if !c01SetEq(got, want) {
			fail("AllNeighbors-set", "AllNeighbors(%d) = %s, model %s", a.Lev, c01Fmt(got), c01Fmt(want))
		}
		o.Count("all_nbr_sets")
	}
	// ---- relations with partner cells
	anchor := c.P[:c.Al]
	zp := c01Pad(c.P, 0, 30)
	for _, p := range c.Pp {
		var d s2.CellID
		if p.Rel == 1 {
			d = emb.RawID(p.F, append(append([]int(nil), anchor...), p.Q...))
		} else {
			d = emb.RawID(p.F, p.Q)
		}
		if g := id.Contains(d); g != p.Ct {
			fail("Contains", "Contains(%v) = %v, model %v", d, g, p.Ct)
		}
		if g := d.Contains(id); g != p.Cb {
			fail("Contains", "%v.Contains(cell) = %v, model %v", d, g, p.Cb)
		}
		if g := id.Intersects(d); g != p.It {
			fail("Intersects", "Intersects(%v) = %v, model %v", d, g, p.It)
		}
		if g := d.Intersects(id); g != p.It {
			fail("Intersects", "%v.Intersects(cell) = %v, model %v", d, g, p.It)
		}
		lv, ok := id.CommonAncestorLevel(d)
		if ok != (p.Cal >= 0) || (ok && lv != p.Cal) {
			fail("CommonAncestorLevel", "CommonAncestorLevel(%v) = (%d,%v), model %d", d, lv, ok, p.Cal)
		}
		wantMT := d
		if p.Mt >= 0 {
			wantMT = emb.RawID(c.F, zp[:p.Mt])
		}
		if g := id.MaxTile(d); g != wantMT {
			fail("MaxTile", "MaxTile(%v) = %v, model %v (level %d)", d, g, wantMT, p.Mt)
		}
		o.Count("pairs_checked")
	}
	// ---- points made from the cell: its vertices and its centre
	cell := s2.CellFromCellID(id)
	if cell.Level() != n || cell.Face() != c.F || cell.ID() != id {
		fail("Cell-fields", "CellFromCellID: level %d face %d id %v", cell.Level(), cell.Face(), cell.ID())
	}
	for k := 0; k < 4; k++ {
		v := cell.Vertex(k)
		leaf, ok := c01PointChecks(o, "vertex", cls, v, fmt.Sprintf("vertex %d of cell %s", k, me))
		if !ok {
			continue
		}
		in := false
		for _, w := range c.Vc[k] {
			if leaf.Parent(n) == w.id() {
				in = true
			}
		}
		for _, q := range c01Ulps(v) {
			c01PointChecks(o, "vertex-ulp", cls, q, fmt.Sprintf("1-ulp neighbour of vertex %d of cell %s", k, me))
		}
		if !in {
			o.Fail("point/vertex/leaf-not-adjacent/"+cls, "vertex %d of cell %s maps to leaf %v whose level-%d ancestor is not one of the cells around that vertex %v",
				k, me, leaf, n, c01Fmt(c01IJIDs(c.Vc[k])))
		}
	}
	ctr := id.Point()
	if leaf, ok := c01PointChecks(o, "centre", cls, ctr, "centre of cell "+me); ok && leaf.Parent(n) != id {
		o.Fail("point/centre/leaf-outside-cell/"+cls, "centre of cell %s maps to leaf %v outside the cell", me, leaf)
	}
	if g := cell.Center(); g != ctr {
		fail("Cell-Center", "Cell.Center() differs from CellID.Point()")
	}

	o.nontrivial = boundary || n >= 28 || c.Al > 0
	if boundary {
		o.Count("cells_on_face_boundary")
	}
	if n == 30 {
		o.Count("leaf_cells")
	}
	o.Count("cells")
	o.sample = map[string]any{"op": "cell", "cell": me, "token": tok, "ij": c.IJ, "edgeNeighbors": c01Fmt(wantEN), "anchorLevel": c.Al}
}

func opC01Point(raw json.RawMessage, o *Out) {
	var c struct {
		D   [3]int
		Adm []c01Cell
	}
	if err := json.Unmarshal(raw, &c); err != nil {
		panic(err)
	}
	o.nontrivial = true // every one of these points lies on a cell boundary of every level
	vec := r3.Vector{X: float64(c.D[0]), Y: float64(c.D[1]), Z: float64(c.D[2])}
	embs := []struct {
		name string
		p    s2.Point
	}{
		{"x1", s2.Point{Vector: vec}},
		{"x0.5", s2.Point{Vector: vec.Mul(0.5)}},
		{"x2^-20", s2.Point{Vector: vec.Mul(math.Ldexp(1, -20))}},
		{"x3", s2.Point{Vector: vec.Mul(3)}},
		{"unit", s2.Point{Vector: vec.Normalize()}},
	}
	adm := c01IDs(c.Adm)
	for _, e := range embs {
		desc := fmt.Sprintf("direction %v [%s]", c.D, e.name)
		leaf, ok := c01PointChecks(o, "exact", e.name, e.p, desc)
		if !ok {
			continue
		}
		in := false
		for _, a := range adm {
			if a == leaf {
				in = true
			}
		}
		if !in {
			o.Fail("point/exact/leaf-not-admissible/"+e.name, "%s maps to leaf %v; the closed leaf cells containing the point are %s", desc, leaf, c01Fmt(adm))
		}
		if e.name == "x1" || e.name == "unit" {
			for _, q := range c01Ulps(e.p) {
				c01PointChecks(o, "exact-ulp", e.name, q, "1-ulp neighbour of "+desc)
			}
		}
		// closed cells: every cell whose closed square contains the point contains it
		for _, a := range adm {
			for l := 0; l <= 30; l++ {
				if !s2.CellFromCellID(a.Parent(l)).ContainsPoint(e.p) {
					o.Fail("point/exact/closed-ContainsPoint/"+e.name, "%s lies on the boundary of %v (level %d) but ContainsPoint is false", desc, a.Parent(l), l)
				}
			}
		}
	}
	o.Count("exact_points")
	o.sample = map[string]any{"op": "pt", "d": c.D, "admissible": c01Fmt(adm)}
}
