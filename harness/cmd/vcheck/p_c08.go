package main

// C08: closest and furthest edge queries equal an exhaustive scan.
//
// One case (op "eq", produced by Gen_EdgeQuery.tla) is a scene (shapes with lattice or
// cell-grid vertices), a target and, for lattice scenes, the model's exact expectation:
//   lt[g], le[g]  position window of edge g in a sorted result list (tie-aware)
//   lc[g]         -1/0/1: edge g strictly within / exactly at / strictly beyond the limit
//   ins[s]        1/-1/0: target certainly inside / certainly outside polygon s / no prediction
//   fz[g]         face-cell target: 1 distance exactly zero, -1 certainly positive, 0 no prediction
// The handler runs every option combination maxResults x limit x maxError x includeInteriors
// with fresh query and target objects, once with UseBruteForce(true) and once without, and
// checks (a) well-formedness, (b) optimized == exhaustive scan of the code, (c) both
// against the model, (d) Distance and the threshold predicates, (e) interiors.
//
// Float comparisons: distances of the SAME edge computed by the two paths are compared for
// equality (same function, same arguments).  The maxError clause d_i <= scan_i + maxError
// (furthest: d_i >= scan_i - maxError) is asserted directly on the s1.ChordAngle values - the
// arithmetic the library itself uses for distances and MaxError (distance.sub); it implies the
// same relation between the angles.  Slack 1e-14.  (The model's relation is r <= t + e on
// distances, EdgeQuery.tla ResultsComplete; TLC has no reals to evaluate it on floats.)

import (
	"encoding/json"
	"fmt"
	"math"
	"sort"

	"github.com/golang/geo/s1"
	"github.com/golang/geo/s2"

	"verifharness/emb"
)

func init() {
	register("eq", opEQ)
}

type c08Shape struct {
	K string  `json:"k"`
	V [][]int `json:"v"`
}

type c08Case struct {
	W      int        `json:"w"`
	Shapes []c08Shape `json:"shapes"`
	Tgt    struct {
		K string  `json:"k"`
		V [][]int `json:"v"`
		F int     `json:"f"`
	} `json:"tgt"`
	Far   bool    `json:"far"`
	Sweep bool    `json:"sweep"` // sweep MaxError over the distance gaps of the scene (W3)
	Lt    []int   `json:"lt"`
	Le    []int   `json:"le"`
	Lc    []int   `json:"lc"`
	Lim   [][]int `json:"lim"`
	Ins   []int   `json:"ins"`
	Fz    []int   `json:"fz"`
}

type c08Res struct {
	D    s1.ChordAngle
	S, E int32
}

type c08Opts struct {
	mr     int    // 0 = unlimited
	lim    string // "inf", "mid" (from the model, or a third through the scan), "near" (the third best distance of the scan), "zero"
	err    int    // 0: none; k: the k-th permitted error of c08Errs; c08Sweep: errVal
	inc    bool
	errVal s1.ChordAngle
}

// permitted errors (radians) of the option combinations
var c08Errs = []float64{0, 0.15, 0.6}

const c08Sweep = 99

// maxError returns the permitted error of the option set as the library's type.
func (o c08Opts) maxError() s1.ChordAngle {
	if o.err == c08Sweep {
		return o.errVal
	}
	if o.err == 0 {
		return 0
	}
	return s1.ChordAngleFromAngle(s1.Angle(c08Errs[o.err]))
}

func (o c08Opts) String() string {
	return fmt.Sprintf("maxResults=%d limit=%s maxError=%.17g(chord^2)=%grad includeInteriors=%v", o.mr, o.lim, float64(o.maxError()), o.maxError().Angle().Radians(), o.inc)
}

type c08Variant struct {
	kind  string // pt, edge, cell, idx
	model bool   // lt/le/lc apply
	mk    func() s2.VerifDistanceTarget
	pts   []s2.Point // vertices of the target (cell: its four vertices)
}

type c08Ctx struct {
	o       *Out
	c       *c08Case
	idx     *s2.ShapeIndex
	offs    []int // first global edge number of each shape
	nEdges  int
	hasPoly bool
	far     bool
	mid     s1.ChordAngle
	hasMid  bool
	near    s1.ChordAngle // a small limit taken from the exhaustive scan: small search disc
	hasNear bool
	failed  map[string]bool
	covBad  bool // optimized results are not judged: the top-level covering lost index cells
	covDone bool
	capBad  bool // this variant's capBound does not bound the target: finite-limit optimized searches are not judged
	optRuns int
	desc    string
}

func (x *c08Ctx) fail(key, format string, args ...any) {
	if x.failed[key] {
		return
	}
	x.failed[key] = true
	x.o.Fail(key, "%s; %s", fmt.Sprintf(format, args...), x.desc)
}

func (x *c08Ctx) kindName() string {
	if x.far {
		return "furthest"
	}
	return "closest"
}

// c08Corner returns the grid corner (i, j) of level l on face f, i, j in 0..2^l,
// as the bit-identical vertex of an adjacent cell.
func c08Corner(f, l, i, j int) s2.Point {
	n := 1 << uint(l)
	ci, cj, di, dj := i, j, 0, 0
	if i == n {
		ci, di = n-1, 1
	}
	if j == n {
		cj, dj = n-1, 1
	}
	k := 0
	switch {
	case di == 1 && dj == 0:
		k = 1
	case di == 1 && dj == 1:
		k = 2
	case di == 0 && dj == 1:
		k = 3
	}
	return s2.CellFromCellID(emb.FromFaceIJ(f, l, ci, cj)).Vertex(k)
}

func c08Pt(v []int) s2.Point {
	switch len(v) {
	case 3:
		return emb.Unit(emb.P3{v[0], v[1], v[2]})
	case 4:
		return c08Corner(v[0], v[1], v[2], v[3])
	case 5:
		// last entry 0: the grid corner, 2: the centre of the cell (i, j); 1, 3: their exact antipodes
		p := c08Corner(v[0], v[1], v[2], v[3])
		if v[4] >= 2 {
			p = emb.FromFaceIJ(v[0], v[1], v[2], v[3]).Point()
		}
		if v[4]%2 == 1 {
			return s2.Point{Vector: p.Mul(-1)}
		}
		return p
	}
	panic(fmt.Sprintf("c08: bad vertex %v", v))
}

func c08Pts(vs [][]int) []s2.Point {
	out := make([]s2.Point, len(vs))
	for i, v := range vs {
		out[i] = c08Pt(v)
	}
	return out
}

func (x *c08Ctx) less(a, b s1.ChordAngle) bool {
	if x.far {
		return a > b
	}
	return a < b
}

func (x *c08Ctx) zero() s1.ChordAngle {
	if x.far {
		return s1.StraightChordAngle
	}
	return 0
}

func (x *c08Ctx) infinity() s1.ChordAngle {
	if x.far {
		return s1.NegativeChordAngle
	}
	return s1.InfChordAngle()
}

func (x *c08Ctx) options(o c08Opts, brute bool) *s2.EdgeQueryOptions {
	var q *s2.EdgeQueryOptions
	if x.far {
		q = s2.NewFurthestEdgeQueryOptions()
	} else {
		q = s2.NewClosestEdgeQueryOptions()
	}
	if o.mr > 0 {
		q.MaxResults(o.mr)
	}
	switch o.lim {
	case "mid":
		q.DistanceLimit(x.mid)
	case "near":
		q.DistanceLimit(x.near)
	case "zero":
		q.DistanceLimit(x.zero())
	}
	if o.err > 0 {
		q.MaxError(o.maxError())
	}
	q.IncludeInteriors(o.inc)
	q.UseBruteForce(brute)
	return q
}

func (x *c08Ctx) query(o c08Opts, brute bool) *s2.EdgeQuery {
	if x.far {
		return s2.NewFurthestEdgeQuery(x.idx, x.options(o, brute))
	}
	return s2.NewClosestEdgeQuery(x.idx, x.options(o, brute))
}

// find runs FindEdges with a fresh query and a fresh target.
func (x *c08Ctx) find(v c08Variant, o c08Opts, brute bool) ([]c08Res, s2.VerifQueryFlags) {
	q := x.query(o, brute)
	t := v.mk()
	if brute {
		s2.VerifTargetSetUseBruteForce(t, true)
	}
	rs := q.FindEdges(t)
	out := make([]c08Res, len(rs))
	for i, r := range rs {
		out[i] = c08Res{r.Distance(), r.ShapeID(), r.EdgeID()}
	}
	fl := s2.VerifEdgeQueryFlags(q)
	if !brute {
		if s2.VerifEdgeQueryLastPath(q) == "optimized" {
			x.optRuns++
			x.o.Count("optimized_queries")
			// the covering is computed lazily: a query that returns early has none yet
			if cov := s2.VerifEdgeQueryCovering(q); !x.covDone && len(cov) > 0 {
				x.checkCovering(cov)
			}
		} else {
			x.o.Count("below_threshold_queries")
		}
	}
	return out, fl
}

// checkCovering compares the cached top-level covering of the query with what
// EdgeQuery.tla (CoveringGood) demands of it.
func (x *c08Ctx) checkCovering(cov []s2.CellID) {
	x.covDone = true
	cells := s2.VerifIndexCells(x.idx)
	if len(cells) == 0 {
		return
	}
	contains := func(t, c s2.CellID) bool {
		tp, cp := emb.RawPath(t), emb.RawPath(c)
		if uint64(t)>>61 != uint64(c)>>61 || len(tp) > len(cp) {
			return false
		}
		for i := range tp {
			if tp[i] != cp[i] {
				return false
			}
		}
		return true
	}
	faces := map[uint64]bool{}
	for _, c := range cells {
		faces[uint64(c.ID)>>61] = true
		ok := false
		for _, t := range cov {
			if contains(t, c.ID) {
				ok = true
			}
		}
		if !ok {
			x.covBad = true
			x.fail("eq/covering/incomplete", "index cell %v (face %d) is not covered by the top-level covering %v of the optimized search; the index has cells on %d.. faces",
				c.ID, c.ID.Face(), cov, len(faces))
			return
		}
	}
	bad := ""
	if len(cov) > 6 {
		bad = "more than 6 cells"
	}
	for i, t := range cov {
		for j, u := range cov {
			if i < j && (contains(t, u) || contains(u, t)) {
				bad = fmt.Sprintf("cells %v and %v overlap", t, u)
			}
		}
		// tight: the longest common prefix of the index cells below t
		var under []s2.CellID
		for _, c := range cells {
			if contains(t, c.ID) {
				under = append(under, c.ID)
			}
		}
		if len(under) == 0 {
			bad = fmt.Sprintf("cell %v contains no index cell", t)
			continue
		}
		lcp := emb.RawPath(under[0])
		for _, u := range under[1:] {
			p := emb.RawPath(u)
			n := 0
			for n < len(lcp) && n < len(p) && lcp[n] == p[n] {
				n++
			}
			lcp = lcp[:n]
		}
		if want := emb.RawID(int(uint64(t)>>61), lcp); want != t && bad == "" {
			bad = fmt.Sprintf("cell %v is not the smallest cell %v covering its index cells", t, want)
		}
	}
	if bad != "" {
		x.fail("eq/covering/malformed", "top-level covering %v: %s", cov, bad)
	}
}

func (x *c08Ctx) gid(r c08Res) int {
	if int(r.S) >= len(x.offs) || r.S < 0 {
		return -1
	}
	g := x.offs[r.S] + int(r.E)
	end := x.nEdges
	if int(r.S)+1 < len(x.offs) {
		end = x.offs[r.S+1]
	}
	if r.E < 0 || g >= end {
		return -1
	}
	return g
}

// wellFormed: sorted, duplicate-free, within the result limit and the distance limit.
func (x *c08Ctx) wellFormed(rs []c08Res, o c08Opts, v c08Variant, side string) bool {
	k := x.kindName() + "/" + v.kind + "/" + side
	seen := map[[2]int32]bool{}
	for _, r := range rs {
		// a distance is a valid chord angle: in [0, 4]
		if !(r.D >= 0 && r.D <= s1.StraightChordAngle) {
			x.fail("eq/invalid-distance/"+x.kindName()+"/"+v.kind, "result %v has a distance outside [0, 4] (%s path), %v", r, side, o)
			return false
		}
	}
	for i, r := range rs {
		if i > 0 && x.less(r.D, rs[i-1].D) {
			x.fail("eq/sorted/"+k, "result %d (%v) is better than result %d (%v) with %v", i, r, i-1, rs[i-1], o)
		}
		id := [2]int32{r.S, r.E}
		if seen[id] {
			x.fail("eq/duplicate/"+k, "edge (%d,%d) reported twice with %v: %v", r.S, r.E, o, rs)
		}
		seen[id] = true
		if r.E < 0 {
			if !o.inc {
				x.fail("eq/interior-unwanted/"+k, "interior result %v with IncludeInteriors(false), %v", r, o)
			} else if r.D != x.zero() {
				x.fail("eq/interior-distance/"+k, "interior result %v not at distance zero, %v", r, o)
			}
			if int(r.S) >= len(x.c.Shapes) || r.S < 0 {
				x.fail("eq/bad-id/"+k, "result %v names no shape, %v", r, o)
			}
		} else if x.gid(r) < 0 {
			x.fail("eq/bad-id/"+k, "result %v names no edge, %v", r, o)
		}
		switch o.lim {
		case "mid":
			if !x.less(r.D, x.mid) {
				x.fail("eq/limit/"+k, "result %v not within the distance limit %v, %v", r, float64(x.mid), o)
			}
		case "near":
			if !x.less(r.D, x.near) {
				x.fail("eq/limit/"+k, "result %v not within the distance limit %v, %v", r, float64(x.near), o)
			}
		case "zero":
			x.fail("eq/limit-zero/"+k, "result %v although the distance limit is zero, %v", r, o)
		}
	}
	if o.mr > 0 && len(rs) > o.mr {
		x.fail("eq/maxresults/"+k, "%d results with %v", len(rs), o)
	}
	return true
}

func c08SameDist(a, b []c08Res) bool {
	if len(a) != len(b) {
		return false
	}
	for i := range a {
		if a[i].D != b[i].D {
			return false
		}
	}
	return true
}

func c08Same(a, b []c08Res) bool {
	if len(a) != len(b) {
		return false
	}
	for i := range a {
		if a[i] != b[i] {
			return false
		}
	}
	return true
}

func c08Show(rs []c08Res) string {
	if len(rs) > 8 {
		return fmt.Sprintf("%v...(%d)", rs[:8], len(rs))
	}
	return fmt.Sprintf("%v", rs)
}

// withinError: len equal and every distance between the exact optimum and optimum + maxError.
func (x *c08Ctx) withinError(rs, exact []c08Res, o c08Opts) (bool, string) {
	if len(rs) != len(exact) {
		return false, fmt.Sprintf("%d results, exhaustive exact scan has %d", len(rs), len(exact))
	}
	e := float64(o.maxError())
	for i := range rs {
		r, t := float64(rs[i].D), float64(exact[i].D)
		if x.far {
			// furthest: the reported distance may be up to maxError BELOW the true maximum
			if r < t-e-1e-14 {
				return false, fmt.Sprintf("result %d at %.17g, true %d-th maximum %.17g, permitted error %.17g: off by %.3f x MaxError", i, r, i, t, e, (t-r)/e)
			}
			if r > t+1e-14 {
				return false, fmt.Sprintf("result %d at %.17g exceeds the %d-th maximum %.17g of the exhaustive scan", i, r, i, t)
			}
			continue
		}
		if r > t+e+1e-14 {
			return false, fmt.Sprintf("result %d at %.17g, true %d-th minimum %.17g, permitted error %.17g: off by %.3f x MaxError", i, r, i, t, e, (r-t)/e)
		}
		if r < t-1e-14 {
			return false, fmt.Sprintf("result %d at %.17g is below the %d-th minimum %.17g of the exhaustive scan", i, r, i, t)
		}
	}
	return true, ""
}

// model: position windows, limit classification and completeness.
func (x *c08Ctx) model(rs []c08Res, o c08Opts, v c08Variant, side, class string) {
	if !v.model || x.c.Lt == nil || o.lim == "near" {
		return
	}
	k := x.kindName() + "/" + v.kind + "/" + side + "/" + class
	present := map[int]bool{}
	p, nint := 0, 0
	for _, r := range rs {
		if r.E < 0 {
			nint++
			continue
		}
		g := x.gid(r)
		if g < 0 {
			return
		}
		present[g] = true
		if !(x.c.Lt[g] <= p && p < x.c.Le[g]) {
			x.fail("eq/model-rank/"+k, "edge (%d,%d) at position %d of the edge results, the exact model allows positions %d..%d (exactly %d edges are strictly better), %v, results %s",
				r.S, r.E, p, x.c.Lt[g], x.c.Le[g]-1, x.c.Lt[g], o, c08Show(rs))
		}
		if o.lim == "mid" && x.c.Lc[g] > 0 {
			x.fail("eq/model-limit/"+k, "edge (%d,%d) reported although it is strictly beyond the limit in the exact model, %v", r.S, r.E, o)
		}
		p++
	}
	if o.lim == "zero" {
		return // wellFormed demands the empty list
	}
	certain, possible, nintCertain := 0, 0, 0
	for g := 0; g < x.nEdges; g++ {
		if o.lim == "inf" || x.c.Lc[g] < 0 {
			certain++
		}
		if o.lim == "inf" || x.c.Lc[g] <= 0 {
			possible++
		}
	}
	if o.inc {
		for _, f := range x.c.Ins {
			if f == 1 {
				nintCertain++
			}
		}
	}
	truncated := o.mr > 0 && len(rs) >= o.mr
	if !truncated {
		for g := 0; g < x.nEdges; g++ {
			if (o.lim == "inf" || x.c.Lc[g] < 0) && !present[g] {
				x.fail("eq/model-missing/"+k, "edge #%d is strictly within the limit in the exact model but is not reported, %v, %d results", g, o, len(rs))
				break
			}
		}
		if p > possible {
			x.fail("eq/model-limit/"+k, "%d edge results, the exact model has at most %d within the limit, %v", p, possible, o)
		}
	}
	if o.mr > 0 && certain+nintCertain >= o.mr && len(rs) != o.mr {
		x.fail("eq/model-missing/"+k, "%d results, the exact model has at least %d candidates and maxResults=%d, %v", len(rs), certain+nintCertain, o.mr, o)
	}
}

// interiors: a target inside an indexed polygon is at distance zero.
func (x *c08Ctx) interiors(rs []c08Res, o c08Opts, v c08Variant, side string) {
	if x.c.Ins == nil || o.lim == "zero" {
		return
	}
	k := x.kindName() + "/" + v.kind + "/" + side
	has := map[int32]bool{}
	for _, r := range rs {
		if r.E < 0 {
			has[r.S] = true
		}
	}
	anyIn := false
	for s, f := range x.c.Ins {
		if f == 1 && o.inc {
			anyIn = true
			if o.mr == 0 && !has[int32(s)] {
				x.fail("eq/interior-missing/"+k, "the target is inside polygon %d (exact model) but there is no interior result, %v, results %s", s, o, c08Show(rs))
			}
		}
		if f == -1 && has[int32(s)] {
			x.fail("eq/interior-wrong/"+k, "interior result for shape %d although the target is strictly outside it (or it is no polygon), %v", s, o)
		}
	}
	if anyIn && (len(rs) == 0 || rs[0].D != x.zero()) {
		x.fail("eq/interior-distance-zero/"+k, "the target is inside an indexed polygon, IncludeInteriors(true), but the best result is %s, %v", c08Show(rs), o)
	}
	// every containing polygon is a candidate at distance zero: the first min(maxResults, n) results are at zero
	n := 0
	if o.inc {
		for _, f := range x.c.Ins {
			if f == 1 {
				n++
			}
		}
	}
	if o.mr > 0 && n > o.mr {
		n = o.mr
	}
	for i := 0; i < n; i++ {
		if i >= len(rs) || rs[i].D != x.zero() {
			x.fail("eq/interior-count/"+k, "the target is inside %d indexed polygons (exact model), so the best %d results are at distance zero; got %s, %v", n, n, c08Show(rs), o)
			break
		}
	}
}

// inclusiveLimits: the limit set with Closest/FurthestInclusiveDistanceLimit (through the hook: the setters
// belong to the unexported options core) at a distance some edge attains exactly - "results whose distance
// is exactly equal to the limit are also returned" - and with the Conservative setters ("all edges whose
// true distance is <= (>=) limit will be returned, along with some edges slightly beyond").
func (x *c08Ctx) inclusiveLimits(v c08Variant, kn string) {
	if !x.hasNear {
		return
	}
	type id struct{ S, E int32 }
	o0 := c08Opts{0, "inf", 0, true, 0}
	all, _ := x.find(v, o0, true)
	want, allSet := map[id]s1.ChordAngle{}, map[id]bool{}
	for _, r := range all {
		allSet[id{r.S, r.E}] = true
		if !x.less(x.near, r.D) { // at the limit or better
			want[id{r.S, r.E}] = r.D
		}
	}
	for _, brute := range []bool{true, false} {
		path := "optimized"
		if brute {
			path = "brute"
		}
		run := func(conservative bool) map[id]s1.ChordAngle {
			q := x.options(o0, brute)
			if conservative {
				s2.VerifSetConservativeLimit(q, x.far, x.near)
			} else {
				s2.VerifSetInclusiveLimit(q, x.far, x.near)
			}
			var eq *s2.EdgeQuery
			if x.far {
				eq = s2.NewFurthestEdgeQuery(x.idx, q)
			} else {
				eq = s2.NewClosestEdgeQuery(x.idx, q)
			}
			t := v.mk()
			if brute {
				s2.VerifTargetSetUseBruteForce(t, true)
			}
			out := map[id]s1.ChordAngle{}
			for _, r := range eq.FindEdges(t) {
				out[id{r.ShapeID(), r.EdgeID()}] = r.Distance()
			}
			return out
		}
		x.o.Count("inclusive_limit_queries")
		got := run(false)
		for k, d := range want {
			if gd, ok := got[k]; !ok || gd != d {
				x.fail("eq/inclusive-limit/missing/"+kn+"/"+path, "inclusive distance limit %.17g: shape %d edge %d at distance %.17g of the exhaustive scan is not returned (%d results, %d expected)", float64(x.near), k.S, k.E, float64(d), len(got), len(want))
				break
			}
		}
		for k, d := range got {
			if _, ok := want[k]; !ok {
				x.fail("eq/inclusive-limit/beyond/"+kn+"/"+path, "inclusive distance limit %.17g: result shape %d edge %d at distance %.17g is beyond the limit or not in the exhaustive scan", float64(x.near), k.S, k.E, float64(d))
				break
			}
		}
		cons := run(true)
		for k, d := range want {
			if _, ok := cons[k]; !ok {
				x.fail("eq/conservative-limit/missing/"+kn+"/"+path, "conservative distance limit %.17g: shape %d edge %d at distance %.17g of the exhaustive scan is not returned", float64(x.near), k.S, k.E, float64(d))
				break
			}
		}
		for k := range cons {
			if !allSet[k] {
				x.fail("eq/conservative-limit/unknown/"+kn+"/"+path, "conservative distance limit %.17g: result shape %d edge %d is not a result of the unlimited exhaustive scan", float64(x.near), k.S, k.E)
				break
			}
		}
	}
}

func (x *c08Ctx) class(o c08Opts, fl s2.VerifQueryFlags) string {
	if fl.AvoidDuplicates {
		return "dup"
	}
	if o.lim == "mid" || o.lim == "near" {
		return "lim"
	}
	return "all"
}

// checkCapBound: distanceTarget.capBound "returns a Cap that bounds the set of points whose
// distance to the target is distance.zero()" - the target itself for closest-edge queries,
// its antipodal image for furthest-edge queries.  The optimized search derives its search
// disc from it whenever the distance limit is finite.
func (x *c08Ctx) checkCapBound(v c08Variant) {
	x.capBad = false
	cb := s2.VerifTargetCapBound(v.mk())
	for _, p := range v.pts {
		if x.far {
			p = s2.Point{Vector: p.Mul(-1)}
		}
		if d := float64(cb.Center().Distance(p)); d > float64(cb.Radius())+1e-13 {
			x.capBad = true
			x.fail("eq/capbound/"+x.kindName()+"/"+v.kind, "capBound() = %v does not contain the point %v of the zero-distance set of the target (%.17g rad from its centre)", cb, p.Vector, d)
			return
		}
	}
}

func (x *c08Ctx) runVariant(v c08Variant) {
	kn := x.kindName() + "/" + v.kind
	x.checkCapBound(v)
	x.inclusiveLimits(v, kn)
	incs := []bool{true}
	if x.hasPoly {
		incs = []bool{false, true}
	}
	lims := []string{"inf", "zero"}
	if x.hasMid {
		lims = append(lims, "mid")
	}
	if x.hasNear {
		lims = append(lims, "near")
	}
	for _, inc := range incs {
		for _, lim := range lims {
			for _, mr := range []int{1, 2, 3, 0} {
				o0 := c08Opts{mr, lim, 0, inc, 0}
				exact, _ := x.find(v, o0, true) // exhaustive scan, no permitted error
				x.wellFormed(exact, o0, v, "brute")
				cl := "all"
				if lim == "mid" || lim == "near" {
					cl = "lim"
				}
				x.model(exact, o0, v, "brute", cl)
				x.interiors(exact, o0, v, "brute")
				if v.kind == "cell" && x.c.Fz != nil && mr == 0 && lim == "inf" {
					x.faceZero(exact, v, "brute")
				}
				for ei := range c08Errs {
					er := ei > 0
					o := c08Opts{mr, lim, ei, inc, 0}
					if er {
						// the scan with a permitted error is itself only approximate; it visits the
						// shapes in Go's random map order, so it is repeated a few times
						for rep := 0; rep < 4; rep++ {
							b, _ := x.find(v, o, true)
							if x.wellFormed(b, o, v, "brute") {
								if ok, why := x.withinError(b, exact, o); !ok {
									x.fail("eq/maxerror/"+kn+"/brute", "%s, %v", why, o)
								}
								x.interiors(b, o, v, "brute")
							}
						}
					}
					opt, fl := x.find(v, o, false)
					if x.covBad {
						x.o.Count("masked_by_incomplete_covering")
						continue
					}
					// a wrong cap bound misplaces the search disc, which is used whenever the limit is
					// finite - also after maxResults = 1 has tightened an infinite limit
					if x.capBad && (lim == "mid" || lim == "near" || mr == 1) {
						x.o.Count("masked_by_wrong_capbound")
						continue
					}
					class := x.class(o, fl)
					if !x.wellFormed(opt, o, v, "opt") {
						continue
					}
					usesErr := er && (v.kind == "idx" || mr == 1)
					if class == "dup" {
						// the search had to avoid duplicates explicitly (testedEdges): one key for this mode
						ok := true
						why := ""
						if usesErr {
							ok, why = x.withinError(opt, exact, o)
						} else if !c08Same(opt, exact) {
							ok, why = false, "differs from the exhaustive scan"
						}
						if !ok {
							x.fail("eq/avoid-duplicates/"+kn, "optimized search with avoidDuplicates: %s; optimized %s, exhaustive scan %s, %v", why, c08Show(opt), c08Show(exact), o)
							continue
						}
					}
					switch {
					case class == "dup":
					case !usesErr && mr != 1:
						if !c08Same(opt, exact) {
							x.fail("eq/opt-vs-brute/"+kn+"/"+class, "optimized search returns %s, the exhaustive scan %s, %v", c08Show(opt), c08Show(exact), o)
							continue
						}
					case !usesErr:
						if !c08SameDist(opt, exact) {
							x.fail("eq/opt-vs-brute/"+kn+"/"+class, "optimized search returns %s, the exhaustive scan %s, %v", c08Show(opt), c08Show(exact), o)
							continue
						}
					default:
						if ok, why := x.withinError(opt, exact, o); !ok {
							x.fail("eq/maxerror/"+kn+"/"+class, "optimized search: %s, %v, optimized %s exact scan %s", why, o, c08Show(opt), c08Show(exact))
							continue
						}
					}
					if !er {
						x.model(opt, o, v, "opt", class)
					}
					x.interiors(opt, o, v, "opt")
					if v.kind == "cell" && x.c.Fz != nil && mr == 0 && lim == "inf" && !er {
						x.faceZero(opt, v, "opt")
					}
				}
			}
			// Distance() is the first result
			o1 := c08Opts{1, lim, 0, inc, 0}
			first, _ := x.find(v, o1, true)
			want := x.infinity()
			if len(first) > 0 {
				want = first[0].D
			}
			for _, brute := range []bool{true, false} {
				side := "opt"
				if brute {
					side = "brute"
				} else if x.covBad || x.capBad {
					continue // Distance() is a maxResults = 1 search
				}
				q := x.query(c08Opts{0, lim, 0, inc, 0}, brute)
				t := v.mk()
				if brute {
					s2.VerifTargetSetUseBruteForce(t, true)
				}
				if got := q.Distance(t); got != want {
					x.fail("eq/distance/"+kn+"/"+side, "Distance() = %.17g, first result of the exhaustive scan %.17g (limit %s, interiors %v)", float64(got), float64(want), lim, inc)
				}
			}
		}
		x.predicates(v, inc)
	}
}

func (x *c08Ctx) faceZero(rs []c08Res, v c08Variant, side string) {
	for _, r := range rs {
		if r.E < 0 {
			continue
		}
		g := x.gid(r)
		if g < 0 || g >= len(x.c.Fz) {
			continue
		}
		if x.c.Fz[g] == 1 && r.D != 0 {
			x.fail("eq/model-face/closest/cell/"+side, "edge (%d,%d) has an endpoint strictly inside the face cell or properly crosses its boundary (exact model) but distance %.17g", r.S, r.E, float64(r.D))
		}
		if x.c.Fz[g] == -1 && r.D == 0 {
			x.fail("eq/model-face/closest/cell/"+side, "point (%d,%d) is strictly outside the face cell but at distance 0", r.S, r.E)
		}
	}
}

// pred evaluates the threshold predicate of the query kind with a fresh query.
func (x *c08Ctx) pred(v c08Variant, inc, brute, conservative bool, limit s1.ChordAngle) bool {
	q := x.query(c08Opts{0, "inf", 0, inc, 0}, brute)
	t := v.mk()
	if brute {
		s2.VerifTargetSetUseBruteForce(t, true)
	}
	switch {
	case !x.far && !conservative:
		return q.IsDistanceLess(t, limit)
	case !x.far:
		return q.IsConservativeDistanceLessOrEqual(t, limit)
	case !conservative:
		return q.IsDistanceGreater(t, limit)
	}
	return q.IsConservativeDistanceGreaterOrEqual(t, limit)
}

func (x *c08Ctx) predicates(v c08Variant, inc bool) {
	kn := x.kindName() + "/" + v.kind
	name := "IsDistanceLess"
	cname := "IsConservativeDistanceLessOrEqual"
	if x.far {
		name, cname = "IsDistanceGreater", "IsConservativeDistanceGreaterOrEqual"
	}
	best, _ := x.find(v, c08Opts{1, "inf", 0, inc, 0}, true)
	for _, brute := range []bool{true, false} {
		side := "opt"
		if brute {
			side = "brute"
		} else if x.covBad || x.capBad {
			continue
		}
		if x.hasMid {
			within, _ := x.find(v, c08Opts{0, "mid", 0, inc, 0}, true)
			got := x.pred(v, inc, brute, false, x.mid)
			if got != (len(within) > 0) {
				x.fail("eq/predicate/"+kn+"/"+side, "%s(limit) = %v but the exhaustive scan finds %d edges within the limit %.17g (interiors %v)", name, got, len(within), float64(x.mid), inc)
			}
			if v.model && x.c.Lc != nil {
				strict, tie := false, false
				for _, f := range x.c.Lc {
					if f < 0 {
						strict = true
					}
					if f == 0 {
						tie = true
					}
				}
				inside, maybeInside := false, false
				if inc {
					for _, f := range x.c.Ins {
						if f == 1 {
							inside = true
						}
						if f == 0 {
							maybeInside = true
						}
					}
				}
				if (strict || inside) && !got {
					x.fail("eq/model-predicate/"+kn+"/"+side, "%s(limit) = false, in the exact model an edge is strictly within the limit (interiors %v)", name, inc)
				}
				if !strict && !tie && !inside && !maybeInside && got {
					x.fail("eq/model-predicate/"+kn+"/"+side, "%s(limit) = true, in the exact model every edge is strictly beyond the limit (interiors %v)", name, inc)
				}
				cg := x.pred(v, inc, brute, true, x.mid)
				if (strict || tie || inside) && !cg {
					x.fail("eq/model-predicate/"+kn+"/"+side, "%s(limit) = false, in the exact model an edge is within or exactly at the limit (interiors %v)", cname, inc)
				}
				if !strict && !tie && !inside && !maybeInside && cg {
					x.fail("eq/model-predicate/"+kn+"/"+side, "%s(limit) = true, in the exact model every edge is strictly beyond the limit (interiors %v)", cname, inc)
				}
			}
		}
		// thresholds strictly separated from Distance()
		if len(best) > 0 {
			d := float64(best[0].D)
			lo, hi := s1.ChordAngle(d*0.5), s1.ChordAngle(math.Min(4, d*1.5+1e-9))
			if !x.far {
				if float64(hi) > d && !x.pred(v, inc, brute, false, hi) {
					x.fail("eq/predicate/"+kn+"/"+side, "%s(%.17g) = false but Distance() = %.17g (interiors %v)", name, float64(hi), d, inc)
				}
				if d > 0 && x.pred(v, inc, brute, false, lo) {
					x.fail("eq/predicate/"+kn+"/"+side, "%s(%.17g) = true but Distance() = %.17g (interiors %v)", name, float64(lo), d, inc)
				}
			} else {
				if d > 0 && !x.pred(v, inc, brute, false, lo) {
					x.fail("eq/predicate/"+kn+"/"+side, "%s(%.17g) = false but Distance() = %.17g (interiors %v)", name, float64(lo), d, inc)
				}
				if float64(hi) > d && x.pred(v, inc, brute, false, hi) {
					x.fail("eq/predicate/"+kn+"/"+side, "%s(%.17g) = true but Distance() = %.17g (interiors %v)", name, float64(hi), d, inc)
				}
			}
		}
	}
}

// sweep: the maxError relation for permitted errors chosen relative to the distance gaps of
// the scene (gap < e < 2 gap, ...), maxResults 1 and 2, unlimited search.  The gaps are read
// from exhaustive scans (of the whole target and of each of its points); the float values
// only select the inputs, the verdict is withinError against the exhaustive exact scan.
func (x *c08Ctx) sweep(v c08Variant, single []c08Variant) {
	kn := x.kindName() + "/" + v.kind
	all, _ := x.find(v, c08Opts{0, "inf", 0, false, 0}, true)
	if len(all) < 2 {
		return
	}
	abs := func(a float64) float64 { return math.Abs(a) }
	var g2, g1 []float64
	for k := 1; k < len(all) && len(g2) < 4; k++ {
		if d := abs(float64(all[k].D - all[0].D)); d > 1e-12 && (len(g2) == 0 || d > g2[len(g2)-1]*1.0000001) {
			g2 = append(g2, d)
		}
	}
	// best distance of every single target point
	var best []float64
	for _, sv := range single {
		if r, _ := x.find(sv, c08Opts{1, "inf", 0, false, 0}, true); len(r) > 0 {
			best = append(best, float64(r[0].D))
		}
	}
	g1 = append(g1, 0)
	for i := range best {
		for j := i + 1; j < len(best); j++ {
			if d := abs(best[i] - best[j]); d > 1e-12 {
				g1 = append(g1, d)
			}
		}
	}
	seen := map[float64]bool{}
	var errs []float64
	add := func(e float64) {
		if e > 1e-12 && e < 4 && !seen[e] && len(errs) < 40 {
			seen[e] = true
			errs = append(errs, e)
		}
	}
	for _, b := range g2 {
		for _, a := range g1 {
			if a < b {
				add((math.Max(a, b-a) + b) / 2) // a < e < b <= a + e
			}
		}
		for _, f := range []float64{0.55, 0.75, 0.95, 1.05, 1.5, 2.5} {
			add(f * b)
		}
	}
	for _, e := range errs {
		for _, mr := range []int{1, 2} {
			exact := all
			if len(exact) > mr {
				exact = exact[:mr]
			}
			o := c08Opts{mr, "inf", c08Sweep, false, s1.ChordAngle(e)}
			for rep := 0; rep < 2; rep++ {
				if b, _ := x.find(v, o, true); x.wellFormed(b, o, v, "brute") {
					if ok, why := x.withinError(b, exact, o); !ok {
						x.fail("eq/maxerror-sweep/"+kn+"/brute", "%s, %v, results %s", why, o, c08Show(b))
					}
				}
			}
			opt, _ := x.find(v, o, false)
			if x.covBad || x.capBad || !x.wellFormed(opt, o, v, "opt") {
				continue
			}
			if ok, why := x.withinError(opt, exact, o); !ok {
				x.fail("eq/maxerror-sweep/"+kn+"/opt", "optimized search: %s, %v, optimized %s, exhaustive exact scan %s", why, o, c08Show(opt), c08Show(exact))
			}
			x.o.Count("maxerror_sweep_queries")
		}
	}
}

func opEQ(raw json.RawMessage, o *Out) {
	var c c08Case
	if err := json.Unmarshal(raw, &c); err != nil {
		panic(err)
	}
	x := &c08Ctx{o: o, c: &c, far: c.Far, failed: map[string]bool{}}
	x.idx = s2.NewShapeIndex()
	for _, sh := range c.Shapes {
		pts := c08Pts(sh.V)
		x.offs = append(x.offs, x.nEdges)
		switch sh.K {
		case "pts":
			pv := s2.PointVector(pts)
			x.idx.Add(&pv)
			x.nEdges += len(pts)
		case "line", "gline":
			pl := s2.Polyline(pts)
			x.idx.Add(&pl)
			x.nEdges += len(pts) - 1
		case "loop", "gloop":
			l := s2.LoopFromPoints(pts)
			if err := l.Validate(); err != nil {
				panic(fmt.Sprintf("c08: generated loop is invalid: %v %v", err, sh.V))
			}
			if l.Area() > 2*math.Pi {
				panic(fmt.Sprintf("c08: generated loop is not counter-clockwise: %v", sh.V))
			}
			x.idx.Add(l)
			x.nEdges += len(pts)
			x.hasPoly = true
		default:
			panic("c08: unknown shape kind " + sh.K)
		}
	}
	x.idx.Build()
	if c.Lt != nil && (len(c.Lt) != x.nEdges || len(c.Le) != x.nEdges || len(c.Lc) != x.nEdges) {
		panic(fmt.Sprintf("c08: model arrays have %d entries, scene has %d edges", len(c.Lt), x.nEdges))
	}
	if c.Fz != nil && len(c.Fz) != x.nEdges {
		panic("c08: fz length")
	}
	faces := map[int]bool{}
	cells := s2.VerifIndexCells(x.idx)
	for _, ic := range cells {
		faces[ic.ID.Face()] = true
	}
	x.desc = fmt.Sprintf("scene: %d shapes, %d edges, %d index cells on %d faces; target %s %v far=%v", len(c.Shapes), x.nEdges, len(cells), len(faces), c.Tgt.K, c.Tgt.V, c.Far)

	// targets
	mkPoint := func(p s2.Point) func() s2.VerifDistanceTarget {
		return func() s2.VerifDistanceTarget {
			if x.far {
				return s2.NewMaxDistanceToPointTarget(p)
			}
			return s2.NewMinDistanceToPointTarget(p)
		}
	}
	mkEdge := func(a, b s2.Point) func() s2.VerifDistanceTarget {
		return func() s2.VerifDistanceTarget {
			if x.far {
				return s2.NewMaxDistanceToEdgeTarget(s2.Edge{V0: a, V1: b})
			}
			return s2.NewMinDistanceToEdgeTarget(s2.Edge{V0: a, V1: b})
		}
	}
	mkCell := func(id s2.CellID) func() s2.VerifDistanceTarget {
		return func() s2.VerifDistanceTarget {
			if x.far {
				return s2.NewMaxDistanceToCellTarget(s2.CellFromCellID(id))
			}
			return s2.NewMinDistanceToCellTarget(s2.CellFromCellID(id))
		}
	}
	mkIndex := func(ti *s2.ShapeIndex) func() s2.VerifDistanceTarget {
		ti.Build()
		return func() s2.VerifDistanceTarget {
			if x.far {
				return s2.NewMaxDistanceToShapeIndexTarget(ti)
			}
			return s2.NewMinDistanceToShapeIndexTarget(ti)
		}
	}
	cloud := func(ps []s2.Point) *s2.ShapeIndex {
		ti := s2.NewShapeIndex()
		pv := s2.PointVector(ps)
		ti.Add(&pv)
		return ti
	}
	line := func(ps []s2.Point) *s2.ShapeIndex {
		ti := s2.NewShapeIndex()
		pl := s2.Polyline(ps)
		ti.Add(&pl)
		return ti
	}
	cellPts := func(id s2.CellID) []s2.Point {
		c := s2.CellFromCellID(id)
		return []s2.Point{c.Vertex(0), c.Vertex(1), c.Vertex(2), c.Vertex(3)}
	}
	var variants []c08Variant
	tp := []s2.Point{}
	if c.Tgt.K != "gctr" && c.Tgt.K != "gcloud" {
		tp = c08Pts(c.Tgt.V)
	}
	switch c.Tgt.K {
	case "pt":
		variants = []c08Variant{
			{"pt", true, mkPoint(tp[0]), tp},
			{"edge", true, mkEdge(tp[0], tp[0]), tp},
			{"idx", true, mkIndex(cloud(tp)), tp},
		}
	case "gctr":
		v := c.Tgt.V[0]
		id := emb.FromFaceIJ(v[0], v[1], v[2], v[3])
		p := id.Point()
		variants = []c08Variant{
			{"pt", false, mkPoint(p), []s2.Point{p}},
			{"cell", false, mkCell(id), cellPts(id)},
			{"idx", false, mkIndex(cloud([]s2.Point{p})), []s2.Point{p}},
			{"edge", false, mkEdge(p, p), []s2.Point{p}},
		}
	case "gcloud":
		var ps []s2.Point
		for _, v := range c.Tgt.V {
			ps = append(ps, emb.FromFaceIJ(v[0], v[1], v[2], v[3]).Point())
		}
		variants = []c08Variant{{"idx", false, mkIndex(cloud(ps)), ps}}
		if len(ps) <= 3 {
			var singles []c08Variant
			for _, p := range ps {
				singles = append(singles, c08Variant{"pt", false, mkPoint(p), []s2.Point{p}})
			}
			sv := variants[0]
			x.checkCapBound(sv)
			x.sweep(sv, singles)
			rv := c08Variant{"idx", false, mkIndex(cloud([]s2.Point{ps[len(ps)-1], ps[0]})), []s2.Point{ps[len(ps)-1], ps[0]}}
			x.checkCapBound(rv)
			x.sweep(rv, singles)
		}
	case "edge":
		variants = []c08Variant{
			{"edge", true, mkEdge(tp[0], tp[1]), tp},
			{"idx", true, mkIndex(line(tp)), tp},
		}
	case "cloud":
		variants = []c08Variant{{"idx", c.Lt != nil, mkIndex(cloud(tp)), tp}}
		if c.Sweep || len(tp) <= 3 {
			// the order of the target's points decides through which of them a bound is measured
			var singles []c08Variant
			for _, p := range tp {
				singles = append(singles, c08Variant{"pt", false, mkPoint(p), []s2.Point{p}})
			}
			perms := [][]s2.Point{tp}
			if len(tp) == 2 {
				perms = append(perms, []s2.Point{tp[1], tp[0]})
			} else if len(tp) == 3 {
				perms = append(perms, []s2.Point{tp[1], tp[0], tp[2]}, []s2.Point{tp[2], tp[1], tp[0]}, []s2.Point{tp[0], tp[2], tp[1]})
			}
			if c.Sweep && len(tp) > 1 {
				for _, p := range tp { // index targets of one point
					perms = append(perms, []s2.Point{p})
				}
			}
			for _, pp := range perms {
				sv := c08Variant{"idx", false, mkIndex(cloud(pp)), pp}
				x.checkCapBound(sv)
				x.sweep(sv, singles)
			}
		}
	case "pline":
		variants = []c08Variant{{"idx", true, mkIndex(line(tp)), tp}}
	case "face":
		variants = []c08Variant{{"cell", false, mkCell(s2.CellIDFromFace(c.Tgt.F)), cellPts(s2.CellIDFromFace(c.Tgt.F))}}
	default:
		panic("c08: unknown target kind " + c.Tgt.K)
	}
	for _, v := range variants {
		// the distance limit "mid": from the model (two lattice points) or, where the model
		// predicts no distances, a third of the way through the exhaustive scan
		x.hasMid, x.hasNear = false, false
		all, _ := x.find(v, c08Opts{0, "inf", 0, false, 0}, true)
		if len(c.Lim) == 2 {
			x.mid = s2.ChordAngleBetweenPoints(c08Pt(c.Lim[0]), c08Pt(c.Lim[1]))
			x.hasMid = true
		} else if len(all) >= 3 {
			x.mid = all[len(all)/3].D
			x.hasMid = x.mid != x.zero()
		}
		if len(all) >= 3 && all[2].D != x.zero() && all[2].D >= 0 && all[2].D <= 4 {
			x.near = all[2].D
			x.hasNear = true
		}
		x.runVariant(v)
		o.Count("target_" + v.kind)
	}
	o.Count(fmt.Sprintf("scenes_on_%d_faces", len(faces)))
	if x.far {
		o.Count("furthest_cases")
	} else {
		o.Count("closest_cases")
	}
	if x.covBad {
		o.Count("cases_with_incomplete_covering")
	}
	o.nontrivial = x.optRuns > 0
	keys := make([]string, 0, len(x.failed))
	for k := range x.failed {
		keys = append(keys, k)
	}
	sort.Strings(keys)
	o.sample = map[string]any{"op": "eq", "world": c.W, "shapes": len(c.Shapes), "edges": x.nEdges, "index_cells": len(cells),
		"faces": len(faces), "target": c.Tgt.K, "far": c.Far, "optimized_queries": x.optRuns, "failed_keys": keys}
}
