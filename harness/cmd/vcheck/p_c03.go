package main

// C03: crossing predicates (Gen_Cross) and EdgeCrosser behaviours (Crosser).

import (
	"encoding/json"
	"fmt"

	"github.com/golang/geo/s2"

	"verifharness/emb"
)

func init() {
	register("cross4", opCross4)
	register("crosser", opCrosser)
}

func opCross4(raw json.RawMessage, o *Out) {
	var c struct {
		A, B, C, D emb.P3
		Want       string
		Robust     bool
		Valid      bool
		VCR        bool   `json:"vcr"`
		VC         string `json:"vc"`
		EOVC       string `json:"eovc"`
	}
	if err := json.Unmarshal(raw, &c); err != nil {
		panic(err)
	}
	if !c.Valid {
		// an edge with antipodal/parallel distinct endpoints is not an S2 edge
		o.Count("invalid_edge_skipped")
		return
	}
	if !c.Robust {
		o.nontrivial = true // some deciding determinant is exactly zero
		o.Count("degenerate_quads")
	}
	if c.Want == "CROSS" {
		o.Count("cross")
	} else if c.Want == "MAYBE" {
		o.Count("maybe")
	}
	parallel := collapses(c.A, c.B, c.C, c.D)
	for _, e := range []embedding{embDyadic3, embUnit} {
		if e.name == "unit" && parallel {
			continue
		}
		predict := e.name != "unit" || c.Robust
		a, b, cc, d := e.f(c.A), e.f(c.B), e.f(c.C), e.f(c.D)
		got := crossStr(s2.CrossingSign(a, b, cc, d))
		desc := fmt.Sprintf("a=%v b=%v c=%v d=%v [%s]", c.A, c.B, c.C, c.D, e.name)
		if predict && got != c.Want {
			o.Fail("cross4/CrossingSign/"+e.name+"/"+c.Want, "CrossingSign %s = %s, exact model %s", desc, got, c.Want)
		}
		if g := crossStr(s2.CrossingSign(b, a, cc, d)); g != got {
			o.Fail("cross4/reverse-ab/"+e.name, "CrossingSign(b,a,c,d)=%s but (a,b,c,d)=%s %s", g, got, desc)
		}
		if g := crossStr(s2.CrossingSign(a, b, d, cc)); g != got {
			o.Fail("cross4/reverse-cd/"+e.name, "CrossingSign(a,b,d,c)=%s but (a,b,c,d)=%s %s", g, got, desc)
		}
		if g := crossStr(s2.CrossingSign(cc, d, a, b)); g != got {
			o.Fail("cross4/swap/"+e.name, "CrossingSign(c,d,a,b)=%s but (a,b,c,d)=%s %s", g, got, desc)
		}
		shared := a == cc || a == d || b == cc || b == d
		if (got == "MAYBE") != shared {
			o.Fail("cross4/maybe-iff-shared/"+e.name, "CrossingSign %s = %s, shared endpoint=%v", desc, got, shared)
		}
		// EdgeCrosser object agrees with the stateless function
		cr := s2.NewEdgeCrosser(a, b)
		if g := crossStr(cr.CrossingSign(cc, d)); g != got {
			o.Fail("cross4/crosser-vs-stateless/"+e.name, "EdgeCrosser.CrossingSign=%s stateless=%s %s", g, got, desc)
		}
		eo := s2.EdgeOrVertexCrossing(a, b, cc, d)
		predictEO := predict && (c.Want != "MAYBE" || e.name != "unit" || c.VCR)
		if predictEO && c.EOVC != "U" && tf(eo) != c.EOVC {
			o.Fail("cross4/EdgeOrVertexCrossing/"+e.name, "EdgeOrVertexCrossing %s = %v, model %s", desc, eo, c.EOVC)
		}
		if g := s2.NewEdgeCrosser(a, b).EdgeOrVertexCrossing(cc, d); g != eo {
			o.Fail("cross4/crosser-eovc/"+e.name, "EdgeCrosser.EdgeOrVertexCrossing=%v stateless=%v %s", g, eo, desc)
		}
		if c.VC != "-" {
			vc := s2.VertexCrossing(a, b, cc, d)
			if c.VC != "U" && (e.name != "unit" || c.VCR) && tf(vc) != c.VC {
				o.Fail("cross4/VertexCrossing/"+e.name, "VertexCrossing %s = %v, model %s", desc, vc, c.VC)
			}
			if s2.VertexCrossing(a, b, d, cc) != vc || s2.VertexCrossing(b, a, cc, d) != vc || s2.VertexCrossing(b, a, d, cc) != vc {
				o.Fail("cross4/VertexCrossing-symmetry/"+e.name, "VertexCrossing not invariant under reversal %s", desc)
			}
			// exactly one of two edges meeting at exactly one vertex crosses
			n := 0
			for _, x := range []s2.Point{a, b} {
				for _, y := range []s2.Point{cc, d} {
					if x == y {
						n++
					}
				}
			}
			if n == 1 && a != b && cc != d {
				if s2.VertexCrossing(cc, d, a, b) == vc {
					o.Fail("cross4/VertexCrossing-exactly-one/"+e.name, "VC(a,b,c,d)=VC(c,d,a,b)=%v %s", vc, desc)
				}
				o.Count("exactly_one_checked")
			}
		}
	}
	if o.nontrivial {
		o.sample = map[string]any{"op": "cross4", "a": c.A, "b": c.B, "c": c.C, "d": c.D, "model": c.Want, "eovc": c.EOVC}
	}
}

type crosserStep struct {
	Act  string
	Args []emb.P3
	R    string
	W    string
}

func opCrosser(raw json.RawMessage, o *Out) {
	var c struct {
		A, B  emb.P3
		Steps []crosserStep
	}
	if err := json.Unmarshal(raw, &c); err != nil {
		panic(err)
	}
	o.nontrivial = true
	for _, e := range []embedding{embDyadic3, embUnit} {
		pts := []emb.P3{c.A, c.B}
		for _, s := range c.Steps {
			pts = append(pts, s.Args...)
		}
		if e.name == "unit" && collapses(pts...) {
			continue
		}
		a, b := e.f(c.A), e.f(c.B)
		cr := s2.NewEdgeCrosser(a, b)
		var prev s2.Point
		names := ""
		for i, s := range c.Steps {
			names += s.Act
			if i < len(c.Steps)-1 {
				names += ";"
			}
			var got, stateless string
			var cpt, dpt s2.Point
			switch s.Act {
			case "RestartAt":
				cr.RestartAt(e.f(s.Args[0]))
				prev = e.f(s.Args[0])
				got, stateless = "-", "-"
			case "Chain":
				cpt, dpt = prev, e.f(s.Args[0])
				got = crossStr(cr.ChainCrossingSign(dpt))
				stateless = crossStr(s2.CrossingSign(a, b, cpt, dpt))
				prev = dpt
			case "CrossingSign":
				cpt, dpt = e.f(s.Args[0]), e.f(s.Args[1])
				got = crossStr(cr.CrossingSign(cpt, dpt))
				stateless = crossStr(s2.CrossingSign(a, b, cpt, dpt))
				prev = dpt
			case "EOVChain":
				cpt, dpt = prev, e.f(s.Args[0])
				got = tf(cr.EdgeOrVertexChainCrossing(dpt))
				stateless = tf(s2.EdgeOrVertexCrossing(a, b, cpt, dpt))
				prev = dpt
			case "EOVCrossing":
				cpt, dpt = e.f(s.Args[0]), e.f(s.Args[1])
				got = tf(cr.EdgeOrVertexCrossing(cpt, dpt))
				stateless = tf(s2.EdgeOrVertexCrossing(a, b, cpt, dpt))
				prev = dpt
			default:
				panic("unknown crosser action " + s.Act)
			}
			desc := fmt.Sprintf("edge %v-%v [%s] step %d of %s args %v", c.A, c.B, e.name, i+1, names, s.Args)
			if got != stateless {
				o.Fail("crosser/vs-stateless/"+s.Act+"/"+e.name, "crosser reply %s, stateless %s: %s", got, stateless, desc)
			}
			if e.name != "unit" && s.W != "U" && got != s.W {
				o.Fail("crosser/vs-model/"+s.Act+"/"+e.name, "crosser reply %s, model %s: %s", got, s.W, desc)
			}
			// projection of the real object: chain vertex and cached orientation
			rc, racb := s2.VerifCrosserState(cr)
			if rc != prev {
				o.Fail("crosser/state-c/"+s.Act+"/"+e.name, "crosser.c not the last vertex: %s", desc)
			}
			exact := -int(s2.RobustSign(a, b, prev))
			if int(racb) != 0 && int(racb) != exact {
				o.Fail("crosser/state-acb/"+s.Act+"/"+e.name, "cached acb=%d but -RobustSign(a,b,c)=%d: %s", racb, exact, desc)
			}
		}
	}
	o.sample = map[string]any{"op": "crosser", "a": c.A, "b": c.B, "steps": len(c.Steps), "first": c.Steps[0]}
}
