//go:build race

package main

import "runtime"

// Synchronisation performed by the replay scheduler itself must not create
// happens-before edges in the race detector, otherwise the serialised
// schedule would hide every race of the code under test.
func raceDisable() { runtime.RaceDisable() }
func raceEnable()  { runtime.RaceEnable() }

const raceBuild = true
