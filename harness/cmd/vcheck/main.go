// vcheck: the Go side of the model-based verification of golang/geo.
//
//	vcheck replay --in cases.ndjson --out result.json [--jobs n]
//
// Every case is a JSON object with an "op" field produced by TLC (or by the
// driver from a TLC behaviour).  The handler registered for the op embeds the
// abstract inputs into real S2 values, drives the real API and compares with
// the expectation computed by the specification.
package main

import (
	"bufio"
	"encoding/json"
	"flag"
	"fmt"
	"os"
	"runtime"
	"runtime/debug"
	"sort"
	"strings"
	"sync"
	"sync/atomic"
	"syscall"
)

// Viol is one disagreement between the specification and the code.
type Viol struct {
	Key    string          `json:"key"`
	Detail string          `json:"detail"`
	Case   json.RawMessage `json:"case"`
}

// Out collects what one case produced.
type Out struct {
	viols      []Viol
	nontrivial bool
	sample     any
	counters   map[string]int
	raw        json.RawMessage
}

// Fail records a violation.  key must be stable for the failing input/call site.
func (o *Out) Fail(key, format string, args ...any) {
	o.viols = append(o.viols, Viol{Key: key, Detail: fmt.Sprintf(format, args...), Case: o.raw})
}

// Count increments a named counter reported in the evidence.
func (o *Out) Count(name string) { o.CountN(name, 1) }

// CountN adds n to a named counter.
func (o *Out) CountN(name string, n int) {
	if o.counters == nil {
		o.counters = map[string]int{}
	}
	o.counters[name] += n
}

// Handler executes one case.
type Handler func(raw json.RawMessage, o *Out)

var handlers = map[string]Handler{}

func register(op string, h Handler) { handlers[op] = h }

type result struct {
	Evaluations int            `json:"evaluations"`
	Nontrivial  int            `json:"nontrivial"`
	Violations  []Viol         `json:"violations"`
	Samples     []any          `json:"samples"`
	Counters    map[string]int `json:"counters"`
	AbortedAt   int            `json:"aborted_at"` // index of the case after which the replay stopped, -1 = ran to the end
}

// abortReplay is set by a handler that leaves goroutines of the library blocked for good (a hang
// it has reported): no further case is started in this process, the results so far are written,
// and the process ends without running exit handlers (the race runtime's finaliser crashes when
// goroutines are blocked inside a sync primitive).
var abortReplay atomic.Bool

func runCase(raw json.RawMessage) (o *Out) {
	o = &Out{raw: raw}
	var hdr struct {
		Op string `json:"op"`
	}
	if err := json.Unmarshal(raw, &hdr); err != nil {
		fmt.Fprintf(os.Stderr, "bad case: %v\n", err)
		os.Exit(3)
	}
	h, ok := handlers[hdr.Op]
	if !ok {
		fmt.Fprintf(os.Stderr, "unknown op %q\n", hdr.Op)
		os.Exit(3)
	}
	defer func() {
		if r := recover(); r != nil {
			st := string(debug.Stack())
			// a panic inside golang/geo is observable behaviour of the code; a panic in
			// the harness itself is an infrastructure error.
			site := panicSite(st)
			if strings.Contains(site, "github.com/golang/geo") {
				o.Fail(hdr.Op+"/panic/"+shortSite(site), "panic: %v at %s", r, site)
			} else {
				fmt.Fprintf(os.Stderr, "harness panic: %v\n%s\n", r, st)
				os.Exit(3)
			}
		}
	}()
	h(raw, o)
	return o
}

// panicSite returns the first frame below the panic that belongs either to
// golang/geo or to the harness (package main).
func panicSite(st string) string {
	lines := strings.Split(st, "\n")
	start := 0
	for i, ln := range lines {
		if strings.HasPrefix(ln, "panic(") {
			start = i
		}
	}
	for j := start + 2; j+1 < len(lines); j += 2 {
		if strings.HasPrefix(lines[j], "main.") || strings.Contains(lines[j], "github.com/golang/geo") {
			return strings.TrimSpace(lines[j]) + " " + strings.TrimSpace(lines[j+1])
		}
	}
	return "unknown"
}

func shortSite(site string) string {
	f := strings.Fields(site)
	if len(f) == 0 {
		return "unknown"
	}
	fn := f[0]
	if i := strings.LastIndex(fn, "("); i > 0 {
		fn = fn[:i]
	}
	if i := strings.LastIndex(fn, "/"); i >= 0 {
		fn = fn[i+1:]
	}
	return fn
}

func cmdReplay(args []string) {
	fs := flag.NewFlagSet("replay", flag.ExitOnError)
	in := fs.String("in", "", "ndjson cases")
	out := fs.String("out", "", "result json")
	jobs := fs.Int("jobs", runtime.NumCPU(), "parallel workers")
	fs.Parse(args)
	f, err := os.Open(*in)
	if err != nil {
		fmt.Fprintln(os.Stderr, err)
		os.Exit(3)
	}
	defer f.Close()
	sc := bufio.NewScanner(f)
	sc.Buffer(make([]byte, 1<<20), 1<<28)
	var cases []json.RawMessage
	for sc.Scan() {
		b := sc.Bytes()
		if len(b) == 0 {
			continue
		}
		cases = append(cases, append(json.RawMessage(nil), b...))
	}
	if err := sc.Err(); err != nil {
		fmt.Fprintln(os.Stderr, err)
		os.Exit(3)
	}
	outs := make([]*Out, len(cases))
	var abortedAt atomic.Int64
	abortedAt.Store(-1)
	var wg sync.WaitGroup
	ch := make(chan int)
	for w := 0; w < *jobs; w++ {
		wg.Add(1)
		go func() {
			defer wg.Done()
			for i := range ch {
				if abortReplay.Load() {
					continue
				}
				outs[i] = runCase(cases[i])
				if abortReplay.Load() {
					abortedAt.CompareAndSwap(-1, int64(i))
				}
			}
		}()
	}
	for i := range cases {
		ch <- i
	}
	close(ch)
	wg.Wait()
	res := result{Counters: map[string]int{}, Violations: []Viol{}, Samples: []any{}}
	res.AbortedAt = int(abortedAt.Load())
	for i, o := range outs {
		if o == nil {
			continue
		}
		res.Evaluations++
		if o.nontrivial {
			res.Nontrivial++
		}
		res.Violations = append(res.Violations, o.viols...)
		for k, v := range o.counters {
			res.Counters[k] += v
		}
		if o.sample != nil && len(res.Samples) < 4 && (i%(len(outs)/4+1) == 0) {
			res.Samples = append(res.Samples, o.sample)
		}
	}
	sort.SliceStable(res.Violations, func(i, j int) bool { return res.Violations[i].Key < res.Violations[j].Key })
	if len(res.Violations) > 400 {
		// keep at most a few per key
		seen := map[string]int{}
		var kept []Viol
		for _, v := range res.Violations {
			if seen[v.Key] < 2 {
				kept = append(kept, v)
			}
			seen[v.Key]++
		}
		res.Violations = kept
	}
	b, _ := json.Marshal(res)
	if err := os.WriteFile(*out, b, 0o644); err != nil {
		fmt.Fprintln(os.Stderr, err)
		os.Exit(3)
	}
	if abortReplay.Load() {
		syscall.Kill(os.Getpid(), syscall.SIGKILL)
	}
}

func main() {
	if len(os.Args) < 2 {
		fmt.Fprintln(os.Stderr, "usage: vcheck replay|record|child ...")
		os.Exit(3)
	}
	switch os.Args[1] {
	case "replay":
		cmdReplay(os.Args[2:])
	case "record":
		cmdRecord(os.Args[2:])
	case "child":
		cmdChild(os.Args[2:])
	default:
		fmt.Fprintln(os.Stderr, "unknown command", os.Args[1])
		os.Exit(3)
	}
}
