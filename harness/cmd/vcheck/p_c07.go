package main

// C07: loop/polygon relations on W2 pairs (Gen_Relations: c07pair), nesting forests
// (c07forest) and the trace direction on random large loops (recorder/op c07rand).
//
// Embedding: the vertex (x,y) of the fine grid level gf on face f is a corner of the
// level-gf cell built from (f,x,y) by bit arithmetic (emb.FromFaceIJ); corners are obtained
// through Cell.Vertex, so corners shared by several cells and levels are bit-identical and
// every loop is exactly a union of cells.

import (
	"bufio"
	"encoding/json"
	"flag"
	"fmt"
	"math"
	"math/rand"
	"os"
	"sort"
	"strings"

	"github.com/golang/geo/r3"
	"github.com/golang/geo/s1"
	"github.com/golang/geo/s2"

	"verifharness/emb"
)

func init() {
	register("c07pair", opC07Pair)
	register("c07forest", opC07Forest)
	register("c07rand", opC07Rand)
	recorders["c07rand"] = recC07Rand
}

// c07Point embeds the grid vertex (x,y) of level gf on face f.
func c07Point(f, gf, x, y int) s2.Point {
	n := 1 << uint(gf)
	cx, cy := x, y
	if cx == n {
		cx = n - 1
	}
	if cy == n {
		cy = n - 1
	}
	k := 0
	switch {
	case x-cx == 1 && y-cy == 0:
		k = 1
	case x-cx == 1 && y-cy == 1:
		k = 2
	case x-cx == 0 && y-cy == 1:
		k = 3
	}
	p := s2.CellFromCellID(emb.FromFaceIJ(f, gf, cx, cy)).Vertex(k)
	// self-check of the embedding: the same corner through the parent-level cell
	if x%2 == 0 && y%2 == 0 && gf > 0 && (x+y)%8 == 0 {
		q := c07PointRaw(f, gf-1, x/2, y/2)
		if p != q {
			panic(fmt.Sprintf("embedding: corner (%d,%d)@%d on face %d differs across levels", x, y, gf, f))
		}
	}
	return p
}

func c07PointRaw(f, gf, x, y int) s2.Point {
	n := 1 << uint(gf)
	cx, cy := x, y
	if cx == n {
		cx = n - 1
	}
	if cy == n {
		cy = n - 1
	}
	k := 0
	switch {
	case x-cx == 1 && y-cy == 0:
		k = 1
	case x-cx == 1 && y-cy == 1:
		k = 2
	case x-cx == 0 && y-cy == 1:
		k = 3
	}
	return s2.CellFromCellID(emb.FromFaceIJ(f, gf, cx, cy)).Vertex(k)
}

// c07V is a grid vertex: [x, y] on the face of its region, or [face, x, y] (loops over two faces).
type c07V []int

func (v c07V) xy() (int, int) { return v[len(v)-2], v[len(v)-1] }

// c07Adjacency re-checks, once, the face adjacency the model uses for two-face loops: the side
// x = N of an even face f is the side x = 0 of face f+1 (same y); the side y = N of an odd
// face f is the side y = 0 of face f+1 (same x).
var c07AdjacencyChecked = func() bool {
	const g, n = 3, 8
	for f := 0; f < 5; f++ {
		for t := 0; t <= n; t++ {
			a, b := c07PointRaw(f, g, n, t), c07PointRaw(f+1, g, 0, t)
			if f%2 == 1 {
				a, b = c07PointRaw(f, g, t, n), c07PointRaw(f+1, g, t, 0)
			}
			if a.Distance(b) > 1e-15 {
				panic(fmt.Sprintf("embedding: faces %d and %d are not glued as the model assumes", f, f+1))
			}
		}
	}
	return true
}()

func c07Pts(f, gf int, vs []c07V, reverse bool) []s2.Point {
	pts := make([]s2.Point, len(vs))
	for i, v := range vs {
		x, y := v.xy()
		vf := f
		if len(v) == 3 {
			vf = v[0]
		}
		pts[i] = c07Point(vf, gf, x, y)
	}
	if reverse {
		for i, j := 0, len(pts)-1; i < j; i, j = i+1, j-1 {
			pts[i], pts[j] = pts[j], pts[i]
		}
	}
	return pts
}

type c07Region struct {
	Loops [][]c07V `json:"loops"`
	Top   int      `json:"top"`
}

// loops of the region, or of its complement (the top-level loop `Top` reversed)
func (r c07Region) build(f, gf int, complement bool) []*s2.Loop {
	out := make([]*s2.Loop, len(r.Loops))
	for k, vs := range r.Loops {
		out[k] = s2.LoopFromPoints(c07Pts(f, gf, vs, complement && k == r.Top))
	}
	return out
}

func (r c07Region) maxVerts() int {
	m := 0
	for _, l := range r.Loops {
		if len(l) > m {
			m = len(l)
		}
	}
	return m
}

type c07Want struct {
	C [2][2]bool `json:"c"` // X_s.Contains(Y_u)
	D [2][2]bool `json:"d"` // Y_u.Contains(X_s)
	I [2][2]bool `json:"i"` // X_s.Intersects(Y_u)
}

// c07Spans looks for edge-free index cells of x that strictly contain index cells of y.
// n is the largest number of such cells of y inside one empty cell of x (capped at 2): the
// evidence counts the pairs with n >= 2 (one empty cell spanning several cells of the other
// index).  center reports whether some strictly contained cell of y has its centre inside y:
// the exact situation in which the branch of loopCrosser.hasCrossingRelation that reasons
// from edge-free interior cells decides the outcome of Contains.
func c07Spans(x, y *s2.ShapeIndex) (n int, center bool) {
	x.Build()
	y.Build()
	xc := s2.VerifIndexCells(x)
	yc := s2.VerifIndexCells(y)
	sort.Slice(yc, func(i, j int) bool { return yc[i].ID < yc[j].ID })
	for _, c := range xc {
		edges := 0
		for _, s := range c.Shapes {
			edges += len(s.Edges)
		}
		if edges != 0 {
			continue
		}
		lo, hi := c.ID.RangeMin(), c.ID.RangeMax()
		a := sort.Search(len(yc), func(i int) bool { return yc[i].ID >= lo })
		b := sort.Search(len(yc), func(i int) bool { return yc[i].ID > hi })
		m := 0
		for i := a; i < b; i++ {
			if yc[i].ID == c.ID {
				continue
			}
			m++
			for _, s := range yc[i].Shapes {
				if s.ContainsCenter {
					center = true
				}
			}
		}
		if m > 2 {
			m = 2
		}
		if m > n {
			n = m
		}
	}
	return
}

// c07SpanClass classifies a call recv.rel(arg) by the index structure of the loops involved:
// "recv-span": an edge-free index cell of a loop of recv strictly contains an index cell of a
// loop of arg whose centre is inside that loop; "arg-span": the same with the roles exchanged.
// many reports whether some edge-free cell strictly contains >= 2 cells of the other index.
func c07SpanClass(recv, arg []*s2.Loop) (cls string, many bool) {
	cls = "nospan"
	for _, x := range recv {
		for _, y := range arg {
			n, ctr := c07Spans(s2.VerifLoopIndex(x), s2.VerifLoopIndex(y))
			if ctr {
				cls = "recv-span"
			}
			many = many || n >= 2
		}
	}
	for _, x := range recv {
		for _, y := range arg {
			n, ctr := c07Spans(s2.VerifLoopIndex(y), s2.VerifLoopIndex(x))
			if ctr && cls == "nospan" {
				cls = "arg-span"
			}
			many = many || n >= 2
		}
	}
	return
}

type c07Answers struct {
	C, D, I, J [2][2]bool
}

// c07Laws evaluates the laws of the property on recorded answers and returns the names of
// the violated ones together with the answers each one involves.
func c07Laws(a c07Answers) []string {
	var bad []string
	for s := 0; s < 2; s++ {
		for u := 0; u < 2; u++ {
			if a.I[s][u] != a.J[s][u] {
				bad = append(bad, "sym")
			}
			if a.I[s][u] != !a.C[1-s][u] || a.J[s][u] != !a.D[s][1-u] {
				bad = append(bad, "meets")
			}
			if a.C[s][u] != a.D[1-s][1-u] {
				bad = append(bad, "dual")
			}
		}
	}
	return c07Uniq(bad)
}

func c07Uniq(in []string) []string {
	sort.Strings(in)
	var out []string
	for i, s := range in {
		if i == 0 || in[i-1] != s {
			out = append(out, s)
		}
	}
	return out
}

func opC07Pair(raw json.RawMessage, o *Out) {
	var c struct {
		Fa, Fb, Gf, Ga, Gb int
		A, B               c07Region
		Touch              bool
		Twoface, Spike     bool
		Want               c07Want
	}
	if err := json.Unmarshal(raw, &c); err != nil {
		panic(err)
	}
	touch := "clear"
	if c.Touch {
		touch = "touch"
	}
	single := len(c.A.Loops) == 1 && len(c.B.Loops) == 1
	desc := fmt.Sprintf("faces %d/%d levels %d/%d of %d A=%s B=%s", c.Fa, c.Fb, c.Ga, c.Gb, c.Gf, c07Desc(c.A), c07Desc(c.B))
	names := [2]string{"", "~"}
	o.nontrivial = c.A.maxVerts() > 32 && c.B.maxVerts() > 32
	o.Count("pairs")
	if c.Touch {
		o.Count("pairs_touching")
	}
	if c.Fa != c.Fb {
		o.Count("pairs_two_faces")
	}
	// shape family of A, part of the violation key
	family := ""
	if c.Twoface {
		family = "/two-face-loop"
		o.Count("pairs_loop_over_two_faces")
	}
	if c.Spike {
		family = "/spike"
		o.Count("pairs_spike")
		if c.B.maxVerts() >= 20 {
			o.Count("pairs_spike_vs_20_or_more_edges")
		}
	}

	// loops used for the span classification of every combination
	var xl, yl [2][]*s2.Loop
	for s := 0; s < 2; s++ {
		xl[s] = c.A.build(c.Fa, c.Gf, s == 1)
		yl[s] = c.B.build(c.Fb, c.Gf, s == 1)
		for _, l := range append(append([]*s2.Loop{}, xl[s]...), yl[s]...) {
			if err := l.Validate(); err != nil {
				o.Fail("c07pair/precondition/loop-validate", "Validate()=%v on a model-valid loop; %s", err, desc)
				return
			}
		}
	}
	spanAny := false
	var spanXY, spanYX [2][2]string
	for s := 0; s < 2; s++ {
		for u := 0; u < 2; u++ {
			var many bool
			spanXY[s][u], many = c07SpanClass(xl[s], yl[u])
			spanYX[s][u], _ = c07SpanClass(yl[u], xl[s])
			spanAny = spanAny || many
		}
	}
	if spanAny {
		o.Count("pairs_edge_free_cell_spans_other_index")
		if o.nontrivial {
			o.Count("nontrivial_pairs_edge_free_cell_spans_other_index")
		}
	}

	// compare one family of answers with the model; returns whether all matched
	check := func(kind string, got c07Answers) bool {
		ok := true
		one := func(rel string, g, w bool, recv, arg string, span string) {
			if g != w {
				ok = false
				o.Fail(fmt.Sprintf("c07pair/%s/%s/want=%s/%s/%s%s", kind, rel, tf(w), touch, span, family),
					"%s%s(%s) = %v, model (cell sets) says %v; %s", recv, "."+rel, arg, g, w, desc)
			}
		}
		for s := 0; s < 2; s++ {
			for u := 0; u < 2; u++ {
				x, y := names[s]+"A", names[u]+"B"
				one("Contains", got.C[s][u], c.Want.C[s][u], x, y, spanXY[s][u])
				one("Contains", got.D[s][u], c.Want.D[s][u], y, x, spanYX[s][u])
				one("Intersects", got.I[s][u], c.Want.I[s][u], x, y, spanXY[s][u])
				one("Intersects", got.J[s][u], c.Want.I[s][u], y, x, spanYX[s][u])
			}
		}
		if bad := c07Laws(got); len(bad) > 0 {
			if ok {
				// cannot happen while the model satisfies the laws (TLC checks that), kept as a guard
				o.Fail("c07pair/"+kind+"/laws/"+strings.Join(bad, "+"), "laws violated by answers that all match the model?! %s", desc)
			} else {
				o.Count("law_violations_explained_by_wrong_answers")
			}
		}
		return ok
	}

	if single {
		o.Count("loop_pairs")
		var got c07Answers
		for s := 0; s < 2; s++ {
			for u := 0; u < 2; u++ {
				x, y := xl[s][0], yl[u][0]
				got.C[s][u] = x.Contains(y)
				got.D[s][u] = y.Contains(x)
				got.I[s][u] = x.Intersects(y)
				got.J[s][u] = y.Intersects(x)
			}
		}
		check("loop", got)
		// every region contains and intersects itself; equal loops contain each other
		for s := 0; s < 2; s++ {
			for _, pr := range [][2]*s2.Loop{{xl[s][0], c.A.build(c.Fa, c.Gf, s == 1)[0]}, {yl[s][0], c.B.build(c.Fb, c.Gf, s == 1)[0]}} {
				l, eq := pr[0], pr[1]
				if !l.Contains(l) || !l.Intersects(l) {
					o.Fail("c07pair/loop/self", "loop does not contain/intersect itself (inverted=%v); %s", s == 1, desc)
				}
				if !l.Contains(eq) || !eq.Contains(l) || !l.Intersects(eq) {
					o.Fail("c07pair/loop/equal", "equal loops do not contain/intersect each other (inverted=%v); %s", s == 1, desc)
				}
			}
		}
		// Loop.Invert: on a loop whose index was never built, and on one already queried
		for stage := 0; stage < 2; stage++ {
			la := c.A.build(c.Fa, c.Gf, false)[0]
			y := yl[0][0]
			if stage == 1 {
				la.Contains(y)
				la.ContainsPoint(y.Vertex(0))
			}
			built := s2.VerifIndexStateOf(s2.VerifLoopIndex(la)).PendingAdditionsPos > 0
			la.Invert()
			// compared with the answers of the independently built reversed loop, so that a wrong
			// relation (reported above) is not reported again as a wrong Invert
			g := [3]bool{la.Contains(y), y.Contains(la), la.Intersects(y)}
			w := [3]bool{got.C[1][0], got.D[1][0], got.I[1][0]}
			if g != w {
				cls := "index-not-built"
				if built {
					cls = "index-built"
				}
				o.Fail("c07pair/loop/Invert/"+cls, "after A.Invert(): Contains(B),B.Contains,Intersects = %v, the loop built from the reversed vertices answers %v (model %v); %s",
					g, w, [3]bool{c.Want.C[1][0], c.Want.D[1][0], c.Want.I[1][0]}, desc)
			}
		}
	}

	// polygons: single-loop polygons must answer like the loops, multi-loop ones like the model
	kind := "poly"
	if single {
		kind = "poly1"
	} else {
		o.Count("polygon_pairs")
	}
	var px, py [2]*s2.Polygon
	for s := 0; s < 2; s++ {
		px[s] = s2.PolygonFromLoops(c.A.build(c.Fa, c.Gf, s == 1))
		py[s] = s2.PolygonFromLoops(c.B.build(c.Fb, c.Gf, s == 1))
		for _, p := range []*s2.Polygon{px[s], py[s]} {
			if err := p.Validate(); err != nil {
				o.Fail("c07pair/precondition/polygon-validate", "Validate()=%v on a model-valid polygon; %s", err, desc)
				return
			}
		}
	}
	var pg c07Answers
	for s := 0; s < 2; s++ {
		for u := 0; u < 2; u++ {
			pg.C[s][u] = px[s].Contains(py[u])
			pg.D[s][u] = py[u].Contains(px[s])
			pg.I[s][u] = px[s].Intersects(py[u])
			pg.J[s][u] = py[u].Intersects(px[s])
		}
	}
	check(kind, pg)
	for s := 0; s < 2; s++ {
		for _, p := range []*s2.Polygon{px[s], py[s]} {
			if !p.Contains(p) || !p.Intersects(p) {
				o.Fail("c07pair/"+kind+"/self", "polygon does not contain/intersect itself (complement=%v); %s", s == 1, desc)
			}
		}
	}
	// Polygon.Invert against the independently constructed complement, for A and for B
	for side := 0; side < 2; side++ {
		var loops []*s2.Loop
		var orig, compl, other *s2.Polygon
		var w [3]bool
		name := "A"
		if side == 0 {
			loops = c.A.build(c.Fa, c.Gf, false)
			orig, compl, other = px[0], px[1], py[0]
			w = [3]bool{pg.C[1][0], pg.D[1][0], pg.I[1][0]} // ~A.Contains(B), B.Contains(~A), ~A.Intersects(B)
		} else {
			name = "B"
			loops = c.B.build(c.Fb, c.Gf, false)
			orig, compl, other = py[0], py[1], px[0]
			w = [3]bool{pg.D[0][1], pg.C[0][1], pg.J[0][1]} // ~B.Contains(A), A.Contains(~B), ~B.Intersects(A)
		}
		pa := s2.PolygonFromLoops(loops)
		built := false
		for _, l := range loops {
			if s2.VerifIndexStateOf(s2.VerifLoopIndex(l)).PendingAdditionsPos > 0 {
				built = true
			}
		}
		pa.Invert()
		g := [3]bool{pa.Contains(other), other.Contains(pa), pa.Intersects(other)}
		if g != w {
			cls := "loop-index-not-built"
			if built {
				cls = "loop-index-built"
			}
			o.Fail("c07pair/"+kind+"/Invert/"+cls, "after %s.Invert(): Contains(other),other.Contains,Intersects = %v, the polygon built from the complement's loops answers %v; %s",
				name, g, w, desc)
		}
		// the inverted polygon is the complement: same loops, equal to the independently built
		// complement polygon (equal regions contain each other), disjoint from the original
		if pa.NumLoops() != len(loops) || !pa.Contains(compl) || !compl.Contains(pa) || pa.Intersects(orig) || orig.Intersects(pa) {
			o.Fail("c07pair/"+kind+"/Invert/not-the-complement", "after %s.Invert(): NumLoops=%d (was %d), Contains(complement)=%v, complement.Contains=%v, Intersects(original)=%v, original.Intersects=%v; %s",
				name, pa.NumLoops(), len(loops), pa.Contains(compl), compl.Contains(pa), pa.Intersects(orig), orig.Intersects(pa), desc)
		}
	}
	if o.nontrivial || spanAny {
		o.sample = map[string]any{"op": "c07pair", "faces": []int{c.Fa, c.Fb}, "levels": []int{c.Ga, c.Gb, c.Gf},
			"A": c07Desc(c.A), "B": c07Desc(c.B), "touch": c.Touch, "span": spanAny, "want": c.Want}
	}
}

// c07Desc is a short readable form: vertex count and bounding box of every loop.
func c07Desc(r c07Region) string {
	var sb strings.Builder
	for k, l := range r.Loops {
		x0, y0, x1, y1 := 1<<30, 1<<30, -1, -1
		faces := map[int]bool{}
		for _, v := range l {
			x, y := v.xy()
			x0, x1 = min(x0, x), max(x1, x)
			y0, y1 = min(y0, y), max(y1, y)
			if len(v) == 3 {
				faces[v[0]] = true
			}
		}
		if len(faces) > 1 {
			sb.WriteString("two-face:")
		}
		if k > 0 {
			sb.WriteString("+")
		}
		fmt.Fprintf(&sb, "[%d,%d]x[%d,%d]/%dv", x0, x1, y0, y1, len(l))
	}
	return sb.String()
}

// ------------------------------------------------------------------ forests

func opC07Forest(raw json.RawMessage, o *Out) {
	var c struct {
		F, Gf, N, Code int
		Real           string
		Loops          [][]c07V
		Want           []struct {
			Depth  int
			Hole   bool
			Parent int
			Ndesc  int
			Wit    [2]int
			Inside bool
		}
		Re []struct {
			Sel  []int
			Want []struct {
				Depth  int
				Hole   bool
				Parent int
				Ndesc  int
			}
			Inside []bool
		}
	}
	if err := json.Unmarshal(raw, &c); err != nil {
		panic(err)
	}
	desc := fmt.Sprintf("forest code=%d n=%d real=%s face=%d level=%d input=%s", c.Code, c.N, c.Real, c.F, c.Gf, c07Desc(c07Region{Loops: c.Loops}))
	loops := make([]*s2.Loop, len(c.Loops))
	idx := map[*s2.Loop]int{}
	maxDepth := 0
	for k, vs := range c.Loops {
		loops[k] = s2.LoopFromPoints(c07Pts(c.F, c.Gf, vs, false))
		idx[loops[k]] = k
		if c.Want[k].Depth > maxDepth {
			maxDepth = c.Want[k].Depth
		}
	}
	o.nontrivial = len(loops) >= 3 && maxDepth >= 1
	o.Count("forests")
	in := append([]*s2.Loop(nil), loops...)
	p := s2.PolygonFromLoops(in)
	cls := fmt.Sprintf("%s/n=%d", c.Real, c.N)
	if p.NumLoops() != len(loops) {
		o.Fail("c07forest/numloops/"+cls, "NumLoops=%d want %d; %s", p.NumLoops(), len(loops), desc)
		return
	}
	if err := p.Validate(); err != nil {
		o.Fail("c07forest/validate/"+cls, "Validate()=%v on a model-valid polygon; %s", err, desc)
	}
	seen := map[int]bool{}
	for k := 0; k < p.NumLoops(); k++ {
		l := p.Loop(k)
		i, ok := idx[l]
		if !ok || seen[i] {
			o.Fail("c07forest/loops-permuted/"+cls, "polygon loop %d is not one of the input loops (or repeated); %s", k, desc)
			return
		}
		seen[i] = true
		w := c.Want[i]
		if d := s2.VerifLoopDepth(l); d != w.Depth {
			o.Fail("c07forest/depth/"+cls, "input loop %d: depth %d, model %d; %s", i, d, w.Depth, desc)
		}
		if l.IsHole() != w.Hole {
			o.Fail("c07forest/hole/"+cls, "input loop %d: IsHole=%v, model (odd number of enclosing loops) %v; %s", i, l.IsHole(), w.Hole, desc)
		}
		pk, has := p.Parent(k)
		switch {
		case has != (w.Parent >= 0):
			o.Fail("c07forest/Parent", "input loop %d: Parent ok=%v, model parent %d; %s", i, has, w.Parent, desc)
		case has && (pk < 0 || pk >= p.NumLoops() || idx[p.Loop(pk)] != w.Parent):
			o.Fail("c07forest/Parent", "input loop %d (depth %d) at position %d: Parent=%d, model: position of input loop %d; %s", i, w.Depth, k, pk, w.Parent, desc)
		}
		if ld := p.LastDescendant(k); ld != k+w.Ndesc {
			o.Fail("c07forest/lastdescendant/"+cls, "input loop %d at %d: LastDescendant=%d, model %d; %s", i, k, ld, k+w.Ndesc, desc)
		}
		// the witness cell of the loop lies inside it and in none of its descendants
		ctr := emb.FromFaceIJ(c.F, c.Gf, w.Wit[0], w.Wit[1]).Point()
		if g := p.ContainsPoint(ctr); g != w.Inside {
			o.Fail("c07forest/region/"+cls, "polygon.ContainsPoint(witness cell of input loop %d)=%v, model %v; %s", i, g, w.Inside, desc)
		}
	}
	// the children of a loop precede its next sibling: preorder layout
	for k := 0; k < p.NumLoops(); k++ {
		for m := k + 1; m <= p.LastDescendant(k) && m < p.NumLoops(); m++ {
			if s2.VerifLoopDepth(p.Loop(m)) <= s2.VerifLoopDepth(p.Loop(k)) {
				o.Fail("c07forest/preorder/"+cls, "loop %d inside the descendant range of %d has depth <= it; %s", m, k, desc)
			}
		}
	}
	// Reassembly on the SAME loop objects (they now carry the depths of the polygon above): every
	// selection must give the polygon of the induced forest, and must answer like the polygon
	// assembled from fresh copies of the selected loops.
	fresh := func(sel []int) *s2.Polygon {
		in := make([]*s2.Loop, len(sel))
		for m, k := range sel {
			in[m] = s2.LoopFromPoints(c07Pts(c.F, c.Gf, c.Loops[k], false))
		}
		return s2.PolygonFromLoops(in)
	}
	all := make([]int, len(loops))
	for k := range all {
		all[k] = k
	}
	full := fresh(all)
	for step, re := range c.Re {
		if len(re.Sel) == 0 {
			continue
		}
		o.Count("forest_reassembly_steps")
		rcls := "several"
		if len(re.Sel) == 1 {
			rcls = "single"
			if c.Want[re.Sel[0]].Hole {
				rcls = "single-former-hole"
			}
		}
		rdesc := fmt.Sprintf("reassembly step %d from input loops %v of the same objects; %s", step, re.Sel, desc)
		in := make([]*s2.Loop, len(re.Sel))
		pos := map[*s2.Loop]int{}
		for m, k := range re.Sel {
			in[m] = loops[k]
			pos[loops[k]] = m
		}
		pr := s2.PolygonFromLoops(in)
		if pr.NumLoops() != len(in) {
			o.Fail("c07forest/reassemble/numloops/"+rcls, "NumLoops=%d want %d; %s", pr.NumLoops(), len(in), rdesc)
			continue
		}
		bad := false
		for k := 0; k < pr.NumLoops(); k++ {
			l := pr.Loop(k)
			m, ok := pos[l]
			if !ok {
				o.Fail("c07forest/reassemble/loops-permuted/"+rcls, "loop %d is not a selected loop; %s", k, rdesc)
				bad = true
				break
			}
			w := re.Want[m]
			if d := s2.VerifLoopDepth(l); d != w.Depth || l.IsHole() != w.Hole {
				o.Fail("c07forest/reassemble/depth/"+rcls, "input loop %d: depth %d IsHole %v, model of the induced forest %d %v (a loop is a hole iff an odd number of the OTHER SELECTED loops enclose it); %s",
					re.Sel[m], d, l.IsHole(), w.Depth, w.Hole, rdesc)
			}
			pk, has := pr.Parent(k)
			if has != (w.Parent >= 0) || (has && (pk < 0 || pk >= pr.NumLoops() || idx[pr.Loop(pk)] != w.Parent)) {
				o.Fail("c07forest/reassemble/Parent/"+rcls, "input loop %d: Parent=%d,%v, model: input loop %d; %s", re.Sel[m], pk, has, w.Parent, rdesc)
			}
			if ld := pr.LastDescendant(k); ld != k+w.Ndesc {
				o.Fail("c07forest/reassemble/lastdescendant/"+rcls, "input loop %d at %d: LastDescendant=%d, model %d; %s", re.Sel[m], k, ld, k+w.Ndesc, rdesc)
			}
		}
		if bad {
			continue
		}
		for k, w := range c.Want {
			ctr := emb.FromFaceIJ(c.F, c.Gf, w.Wit[0], w.Wit[1]).Point()
			if g := pr.ContainsPoint(ctr); g != re.Inside[k] {
				o.Fail("c07forest/reassemble/region/"+rcls, "ContainsPoint(witness cell of input loop %d)=%v, model %v; %s", k, g, re.Inside[k], rdesc)
			}
		}
		// history independence: the same answers as the polygon built from fresh copies of the loops
		pf := fresh(re.Sel)
		got := [4]bool{pr.Contains(full), full.Contains(pr), pr.Intersects(full), full.Intersects(pr)}
		ref := [4]bool{pf.Contains(full), full.Contains(pf), pf.Intersects(full), full.Intersects(pf)}
		if got != ref || pr.RectBound() != pf.RectBound() {
			o.Fail("c07forest/reassemble/history/"+rcls, "against the full polygon: Contains,contained,Intersects,intersected = %v, from fresh copies %v; RectBound %v vs %v; %s",
				got, ref, pr.RectBound(), pf.RectBound(), rdesc)
		}
		if len(in) == 1 {
			// single-loop polygon answers = loop answers
			l := s2.LoopFromPoints(c07Pts(c.F, c.Gf, c.Loops[re.Sel[0]], false))
			for _, fl := range full.Loops() {
				one := s2.PolygonFromLoops([]*s2.Loop{s2.LoopFromPoints(fl.Vertices())})
				if pr.Contains(one) != l.Contains(one.Loop(0)) || pr.Intersects(one) != l.Intersects(one.Loop(0)) || one.Contains(pr) != one.Loop(0).Contains(l) {
					o.Fail("c07forest/reassemble/single-vs-loop/"+rcls, "single-loop polygon of input loop %d answers differently from the loop against another loop of the scene; %s", re.Sel[0], rdesc)
					break
				}
			}
		}
	}

	// the same polygon assembled from oriented loops: holes given clockwise
	{
		ol := make([]*s2.Loop, len(c.Loops))
		oidx := map[*s2.Loop]int{}
		for k, vs := range c.Loops {
			ol[k] = s2.LoopFromPoints(c07Pts(c.F, c.Gf, vs, c.Want[k].Hole))
			oidx[ol[k]] = k
		}
		po := s2.PolygonFromOrientedLoops(append([]*s2.Loop(nil), ol...))
		if po.NumLoops() != len(ol) {
			o.Fail("c07forest/oriented/numloops", "PolygonFromOrientedLoops: NumLoops=%d want %d; %s", po.NumLoops(), len(ol), desc)
		} else {
			for k := 0; k < po.NumLoops(); k++ {
				l := po.Loop(k)
				i, ok := oidx[l]
				if !ok {
					o.Fail("c07forest/oriented/loops-permuted", "loop %d is not an input loop; %s", k, desc)
					break
				}
				w := c.Want[i]
				if d := s2.VerifLoopDepth(l); d != w.Depth || l.IsHole() != w.Hole {
					o.Fail("c07forest/oriented/depth", "PolygonFromOrientedLoops input loop %d: depth %d hole %v, model %d %v; %s", i, d, l.IsHole(), w.Depth, w.Hole, desc)
				}
				ctr := emb.FromFaceIJ(c.F, c.Gf, w.Wit[0], w.Wit[1]).Point()
				if g := po.ContainsPoint(ctr); g != w.Inside {
					o.Fail("c07forest/oriented/region", "PolygonFromOrientedLoops: ContainsPoint(witness cell of input loop %d)=%v, model %v; %s", i, g, w.Inside, desc)
				}
			}
		}
	}
	if o.nontrivial {
		o.sample = map[string]any{"op": "c07forest", "code": c.Code, "n": c.N, "real": c.Real, "loops": c07Desc(c07Region{Loops: c.Loops})}
	}
}

// -------------------------------------------------------- trace direction

// c07RandPair builds the k-th random pair of the seed: regular loops of 40..3000 vertices.
// c07BandPair: X is a band around the equator spanning more than 180 degrees of longitude (its
// bound straddles the equator, is wider than 180 degrees and not full in latitude); Y is a thin
// triangle well inside the band with one edge along the equator between two points that are almost,
// but not exactly, antipodal (RectBounder gives such an edge the full bound).  Y's first two
// vertices are exact: an axis point and its antipode moved by a few 1e-16 along the equator.
func c07BandPair(seed int64, k int, r *rand.Rand) (x, y []s2.Point, cert string, info string) {
	q := r.Intn(4)
	lng0 := float64(q) * 90
	ax := [4][2]float64{{1, 0}, {0, 1}, {-1, 0}, {0, -1}}[q]
	e := []float64{2e-16, 3e-16, 5e-16, 8e-16}[r.Intn(4)]
	p0 := s2.Point{Vector: r3.Vector{X: ax[0], Y: ax[1], Z: 0}}
	p1 := s2.Point{Vector: r3.Vector{X: -ax[0] - e*ax[1], Y: -ax[1] + e*ax[0], Z: 0}}
	hS, hN := 4+r.Float64()*31, 4+r.Float64()*31
	hz := (0.2 + 0.4*r.Float64()) * math.Min(hS, hN)
	north := r.Intn(2) == 0
	zl := hz
	if !north {
		zl = -hz
	}
	p2 := s2.PointFromLatLng(s2.LatLngFromDegrees(zl, lng0+90+(r.Float64()*20-10)))
	if north {
		y = []s2.Point{p0, p1, p2}
	} else {
		y = []s2.Point{p0, p2, p1}
	}
	o1, o2 := 5+r.Float64()*65, 5+r.Float64()*65
	step := []float64{5, 10, 20}[r.Intn(3)]
	lo, hi := lng0-o1, lng0+180+o2
	for l := lo; l < hi; l += step {
		x = append(x, s2.PointFromLatLng(s2.LatLngFromDegrees(-hS, l)))
	}
	x = append(x, s2.PointFromLatLng(s2.LatLngFromDegrees(-hS, hi)))
	for l := hi; l > lo; l -= step {
		x = append(x, s2.PointFromLatLng(s2.LatLngFromDegrees(hN, l)))
	}
	x = append(x, s2.PointFromLatLng(s2.LatLngFromDegrees(hN, lo)))
	cert = "nested"
	info = fmt.Sprintf("seed=%d k=%d X: band lat -%.2f..%.2f lng %.2f..%.2f step %.0f (%d vertices), Y: triangle (lng %.0f lat 0) - (antipode - %.0e) - (lat %.2f), cert=%q",
		seed, k, hS, hN, lo, hi, step, len(x), lng0, e, zl, cert)
	return
}

func c07RandPair(seed int64, k int) (x, y []s2.Point, cert string, info string) {
	r := rand.New(rand.NewSource(seed*1000003 + int64(k)))
	if k%5 == 4 {
		return c07BandPair(seed, k, r)
	}
	rp := func() s2.Point {
		for {
			p := s2.PointFromCoords(r.NormFloat64(), r.NormFloat64(), r.NormFloat64())
			if p.Norm() > 0.5 {
				return p
			}
		}
	}
	logu := func(lo, hi float64) float64 { return math.Exp(math.Log(lo) + r.Float64()*(math.Log(hi)-math.Log(lo))) }
	nx := 40 + r.Intn(1200)
	ny := 40 + r.Intn(1200)
	if r.Intn(4) == 0 {
		nx = 1000 + r.Intn(2000)
	}
	cx := rp()
	rx := logu(0.02, 1.5)
	var cy s2.Point
	var ry float64
	switch k % 3 {
	case 0: // nested with a wide margin
		ry = rx * logu(0.01, 0.3)
		d := r.Float64() * (0.45*rx - ry)
		if d < 0 {
			d = 0
			ry = rx * 0.2
		}
		cy = s2.InterpolateAtDistance(s1.Angle(d), cx, rp())
		cert = "nested"
	case 1: // disjoint with a wide margin
		ry = logu(0.005, 1.0)
		if rx+ry > 1.3 {
			ry = 0.05
		}
		d := (rx+ry)*1.15 + r.Float64()*0.3
		cy = s2.InterpolateAtDistance(s1.Angle(d), cx, rp())
		cert = "disjoint"
	default: // anything
		ry = logu(0.01, 1.5)
		cy = s2.InterpolateAtDistance(s1.Angle(r.Float64()*(rx+ry)*1.2), cx, rp())
	}
	x = s2.RegularLoop(cx, s1.Angle(rx), nx).Vertices()
	y = s2.RegularLoop(cy, s1.Angle(ry), ny).Vertices()
	info = fmt.Sprintf("seed=%d k=%d X: regular n=%d r=%.4f, Y: regular n=%d r=%.4f, cert=%q", seed, k, nx, rx, ny, ry, cert)
	return
}

func c07Rev(p []s2.Point) []s2.Point {
	q := make([]s2.Point, len(p))
	for i := range p {
		q[i] = p[len(p)-1-i]
	}
	return q
}

type c07Event struct {
	Seed  int64      `json:"seed"`
	K     int        `json:"k"`
	C     [2][2]bool `json:"c"`
	D     [2][2]bool `json:"d"`
	I     [2][2]bool `json:"i"`
	J     [2][2]bool `json:"j"`
	PC    [2][2]bool `json:"pc"`
	PD    [2][2]bool `json:"pd"`
	PI    [2][2]bool `json:"pi"`
	SelfC [4]bool    `json:"selfc"`
	SelfI [4]bool    `json:"selfi"`
	Cert  string     `json:"cert"`
	Span  bool       `json:"span"`
	Hole  bool       `json:"hole"` // cert nested: PolygonFromLoops({X,Y}) makes Y a hole and X a shell, in both input orders
	info  string
}

func c07Observe(seed int64, k int) c07Event {
	xp, yp, cert, info := c07RandPair(seed, k)
	ev := c07Event{Seed: seed, K: k, Cert: cert, info: info}
	xs := [2]*s2.Loop{s2.LoopFromPoints(xp), s2.LoopFromPoints(c07Rev(xp))}
	ys := [2]*s2.Loop{s2.LoopFromPoints(yp), s2.LoopFromPoints(c07Rev(yp))}
	for s := 0; s < 2; s++ {
		for u := 0; u < 2; u++ {
			ev.C[s][u] = xs[s].Contains(ys[u])
			ev.D[s][u] = ys[u].Contains(xs[s])
			ev.I[s][u] = xs[s].Intersects(ys[u])
			ev.J[s][u] = ys[u].Intersects(xs[s])
			_, c1 := c07Spans(s2.VerifLoopIndex(xs[s]), s2.VerifLoopIndex(ys[u]))
			_, c2 := c07Spans(s2.VerifLoopIndex(ys[u]), s2.VerifLoopIndex(xs[s]))
			ev.Span = ev.Span || c1 || c2
		}
	}
	ev.Hole = true
	if cert == "nested" {
		for order := 0; order < 2; order++ {
			lx, ly := s2.LoopFromPoints(xp), s2.LoopFromPoints(yp)
			in := []*s2.Loop{lx, ly}
			if order == 1 {
				in = []*s2.Loop{ly, lx}
			}
			pg := s2.PolygonFromLoops(in)
			if pg.NumLoops() != 2 || lx.IsHole() || !ly.IsHole() {
				ev.Hole = false
			}
		}
	}
	for n, l := range []*s2.Loop{xs[0], xs[1], ys[0], ys[1]} {
		ev.SelfC[n] = l.Contains(l)
		ev.SelfI[n] = l.Intersects(l)
	}
	px := [2]*s2.Polygon{s2.PolygonFromLoops([]*s2.Loop{s2.LoopFromPoints(xp)}), s2.PolygonFromLoops([]*s2.Loop{s2.LoopFromPoints(c07Rev(xp))})}
	py := [2]*s2.Polygon{s2.PolygonFromLoops([]*s2.Loop{s2.LoopFromPoints(yp)}), s2.PolygonFromLoops([]*s2.Loop{s2.LoopFromPoints(c07Rev(yp))})}
	for s := 0; s < 2; s++ {
		for u := 0; u < 2; u++ {
			ev.PC[s][u] = px[s].Contains(py[u])
			ev.PD[s][u] = py[u].Contains(px[s])
			ev.PI[s][u] = px[s].Intersects(py[u])
		}
	}
	return ev
}

// c07EventLaws: the law names of Gen_Relations!TraceLawTable that the event violates
// (used to reproduce, in a fresh process, an event that the TLA+ trace spec rejected).
func c07EventLaws(e c07Event) []string {
	var bad []string
	for s := 0; s < 2; s++ {
		for u := 0; u < 2; u++ {
			if e.I[s][u] != e.J[s][u] {
				bad = append(bad, "sym")
			}
			if e.I[s][u] != !e.C[1-s][u] || e.J[s][u] != !e.D[s][1-u] {
				bad = append(bad, "meets")
			}
			if e.C[s][u] != e.D[1-s][1-u] {
				bad = append(bad, "dual")
			}
		}
	}
	for n := 0; n < 4; n++ {
		if !e.SelfC[n] || !e.SelfI[n] {
			bad = append(bad, "self")
		}
	}
	if e.PC != e.C || e.PD != e.D || e.PI != e.I {
		bad = append(bad, "poly1")
	}
	if e.Cert == "nested" && !(e.C[0][0] && e.I[0][0] && !e.I[1][0]) {
		bad = append(bad, "certNested")
	}
	if e.Cert == "nested" && !e.Hole {
		bad = append(bad, "certNestedHole")
	}
	if e.Cert == "disjoint" && !(!e.I[0][0] && !e.C[0][0] && !e.D[0][0] && e.C[1][0]) {
		bad = append(bad, "certDisjoint")
	}
	return c07Uniq(bad)
}

func recC07Rand(args []string) {
	fs := flag.NewFlagSet("c07rand", flag.ExitOnError)
	seed := fs.Int64("seed", 1, "seed")
	n := fs.Int("n", 100, "number of pairs")
	out := fs.String("out", "", "ndjson trace")
	fs.Parse(args)
	f, err := os.Create(*out)
	if err != nil {
		fmt.Fprintln(os.Stderr, err)
		os.Exit(3)
	}
	w := bufio.NewWriter(f)
	for k := 0; k < *n; k++ {
		b, _ := json.Marshal(c07Observe(*seed, k))
		w.Write(b)
		w.WriteByte('\n')
	}
	w.Flush()
	f.Close()
}

// opC07Rand re-executes one random pair and reports the laws it violates.
func opC07Rand(raw json.RawMessage, o *Out) {
	var c struct {
		Seed int64
		K    int
	}
	if err := json.Unmarshal(raw, &c); err != nil {
		panic(err)
	}
	ev := c07Observe(c.Seed, c.K)
	o.nontrivial = true
	span := "nospan"
	if ev.Span {
		span = "span"
	}
	if c.K%5 == 4 {
		span += "/equatorial-band" // the c07BandPair family
	}
	for _, law := range c07EventLaws(ev) {
		o.Fail("c07rand/law/"+law+"/"+span, "random regular loops violate law %q: %s c=%v d=%v i=%v j=%v", law, ev.info, ev.C, ev.D, ev.I, ev.J)
	}
}
