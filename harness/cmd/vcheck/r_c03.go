package main

// C03 trace direction: record crossing answers on adversarial float inputs.

import (
	"bufio"
	"encoding/json"
	"flag"
	"math"
	"math/rand"
	"os"

	"github.com/golang/geo/r3"
	"github.com/golang/geo/s2"
)

func init() { recorders["cross"] = recCross }

func quadEvent(a, b, c, d s2.Point) map[string]any {
	sign := s2.CrossingSign(a, b, c, d)
	n := 0
	for _, x := range []s2.Point{a, b} {
		for _, y := range []s2.Point{c, d} {
			if x == y {
				n++
			}
		}
	}
	return map[string]any{
		"ev": "quad", "a": bitsOf(a), "b": bitsOf(b), "c": bitsOf(c), "d": bitsOf(d),
		"sign": crossStr(sign), "revab": crossStr(s2.CrossingSign(b, a, c, d)), "revcd": crossStr(s2.CrossingSign(a, b, d, c)),
		"swap": crossStr(s2.CrossingSign(c, d, a, b)), "crosser": crossStr(s2.NewEdgeCrosser(a, b).CrossingSign(c, d)),
		"shared": a == c || a == d || b == c || b == d, "nshared": n, "degenerate": a == b || c == d,
		"eovc": s2.EdgeOrVertexCrossing(a, b, c, d), "eovcCrosser": s2.NewEdgeCrosser(a, b).EdgeOrVertexCrossing(c, d),
		"vcab": s2.VertexCrossing(a, b, c, d), "vccd": s2.VertexCrossing(c, d, a, b), "vcabRev": s2.VertexCrossing(b, a, d, c),
	}
}

// beyond returns a point near the extension of edge ab beyond b, at angle t past b, off the line by eps.
func beyond(r *rand.Rand, a, b s2.Point, t, eps float64) s2.Point {
	n := a.Cross(b.Vector).Normalize()
	dir := n.Cross(b.Vector).Normalize() // tangent at b pointing away from a
	p := b.Mul(math.Cos(t)).Add(dir.Mul(math.Sin(t))).Add(n.Mul(eps))
	return s2.Point{Vector: p.Normalize()}
}

func recCross(args []string) {
	fs := flag.NewFlagSet("cross", flag.ExitOnError)
	seed := fs.Int64("seed", 1, "")
	n := fs.Int("n", 1000, "")
	out := fs.String("out", "", "")
	from := fs.String("from", "", "")
	line := fs.Int("line", 0, "")
	first := fs.Int("first", 0, "re-record the lines first..line in order (0: only line)")
	fs.Parse(args)
	f, err := os.Create(*out)
	if err != nil {
		panic(err)
	}
	defer f.Close()
	w := bufio.NewWriter(f)
	defer w.Flush()
	emit := func(e map[string]any) {
		b, _ := json.Marshal(e)
		w.Write(append(b, '\n'))
	}
	if *from != "" {
		in, _ := os.Open(*from)
		sc := bufio.NewScanner(in)
		sc.Buffer(make([]byte, 1<<20), 1<<24)
		for k := 1; sc.Scan(); k++ {
			if k > *line || k < *line && (*first == 0 || k < *first) {
				continue
			}
			var e struct {
				Ev         string
				A, B, C, D [3]string
				Chain      [][3]string
				I          int
			}
			json.Unmarshal(sc.Bytes(), &e)
			if e.Ev == "quad" {
				emit(quadEvent(fromBits(e.A), fromBits(e.B), fromBits(e.C), fromBits(e.D)))
			} else {
				pts := make([]s2.Point, len(e.Chain))
				for i := range pts {
					pts[i] = fromBits(e.Chain[i])
				}
				for _, ev := range chainEvents(fromBits(e.A), fromBits(e.B), pts) {
					if ev["i"].(int) == e.I {
						emit(ev)
					}
				}
			}
		}
		return
	}
	r := rand.New(rand.NewSource(*seed))
	for i := 0; i < *n; i++ {
		a := randUnit(r)
		var b s2.Point
		switch r.Intn(4) {
		case 0:
			b = randUnit(r)
		default: // edge lengths from tiny to ~170 degrees
			t := math.Pow(10, -r.Float64()*8) * 3
			if r.Intn(2) == 0 {
				t = 0.5 + r.Float64()*2.4
			}
			dir := s2.Ortho(a)
			b = s2.Point{Vector: a.Mul(math.Cos(t)).Add(dir.Mul(math.Sin(t))).Normalize()}
		}
		// shared vertex, other endpoint beyond the shared end (the tangent early-out's home ground)
		for k := 0; k < 3; k++ {
			t := math.Pow(10, -r.Float64()*6)
			eps := (r.Float64() - 0.5) * math.Pow(10, -r.Float64()*16)
			d := beyond(r, a, b, t, eps)
			emit(quadEvent(a, b, b, d))
			d2 := beyond(r, b, a, t, eps)
			emit(quadEvent(a, b, d2, a))
		}
		// nearly collinear quadruple on one great circle, perturbed by a few ulps
		on := func(t float64) s2.Point {
			n := a.Cross(b.Vector).Normalize()
			dir := n.Cross(a.Vector)
			return nudge(r, s2.Point{Vector: a.Mul(math.Cos(t)).Add(dir.Mul(math.Sin(t))).Normalize()}, 3)
		}
		ab := a.Angle(b.Vector).Radians()
		c, d := on(ab*(r.Float64()*2-0.5)), on(ab*(r.Float64()*2-0.5))
		emit(quadEvent(a, b, c, d))
		emit(quadEvent(a, b, randUnit(r), randUnit(r)))
		// a chain: fine sampling of a great circle crossing or grazing ab
		if i%8 == 0 {
			m := 12
			chain := make([]s2.Point, m)
			mid := s2.Point{Vector: a.Add(b.Vector).Normalize()}
			axis := randUnit(r)
			if r.Intn(2) == 0 {
				axis = s2.Point{Vector: a.Cross(b.Vector).Normalize()} // along ab itself
			}
			start := s2.Point{Vector: mid.Cross(axis.Vector).Normalize()}
			step := math.Pow(10, -r.Float64()*5)
			for k := range chain {
				t := step * float64(k-m/2)
				chain[k] = s2.Point{Vector: mid.Mul(math.Cos(t)).Add(start.Mul(math.Sin(t))).Normalize()}
			}
			if r.Intn(3) == 0 {
				chain[r.Intn(m)] = a
			}
			for _, ev := range chainEvents(a, b, chain) {
				emit(ev)
			}
		}
	}
}

func chainEvents(a, b s2.Point, chain []s2.Point) []map[string]any {
	cb := make([][3]string, len(chain))
	for i, p := range chain {
		cb[i] = bitsOf(p)
	}
	cr := s2.NewChainEdgeCrosser(a, b, chain[0])
	var out []map[string]any
	for i := 1; i < len(chain); i++ {
		reply := crossStr(cr.ChainCrossingSign(chain[i]))
		_, acb := s2.VerifCrosserState(cr)
		e := map[string]any{"ev": "chain", "a": bitsOf(a), "b": bitsOf(b), "i": i,
			"reply": reply, "stateless": crossStr(s2.CrossingSign(a, b, chain[i-1], chain[i])),
			"acb": int(acb), "acbExact": -int(s2.RobustSign(a, b, chain[i]))}
		if i == 1 {
			e["chain"] = cb
		}
		out = append(out, e)
	}
	// the chain itself is needed to re-record any step: attach it to every event (compact enough)
	for _, e := range out {
		e["chain"] = cb
	}
	return out
}

var _ = r3.Vector{}
