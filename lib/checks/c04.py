"""C04: point containment = crossing parity; all evaluation paths agree; tilings contain every point exactly once."""
import random
import vlib
from checks import c06 as w2

LEVEL = "model_checking"

INLOOP_INV = ["ExactlyOnce", "ValidBackwards", "AnchorIndependent", "Emit"]
GRID_INV = ["CaseTheorems", "Emit"]


def lattice_loops(ctx, rnd):
    q = ctx.quick()
    cases = []
    allp = set(range(1, 27))
    # N = 1: 26 directions (every one primitive); loops over a seed-chosen subset, all 26 points queried
    runs = [(1, 9, 5)] if q else [(1, 13, 5), (1, 26, 4), (1, 12, 5)]
    for n, k, maxlen in runs:
        sub = set(rnd.sample(range(1, 27), k))
        r = ctx.tlc("Gen_InLoop", vlib.cfg(constants={"N": n, "SubIdx": sub, "ProbeIdx": allp, "MaxLen": maxlen, "Op": '"c04loop"', "NQ": 0},
                                             invariants=INLOOP_INV), workers=12, timeout=2400, heap="4g" if q else "8g")
        cases += r.tagged.get("CASE", [])
    # N = 2: 98 primitive directions; sub-lattices
    for _ in range(1 if q else 2):
        sub = set(rnd.sample(range(1, 99), 7 if q else 11))
        probes = sub | set(rnd.sample(range(1, 99), 40))
        r = ctx.tlc("Gen_InLoop", vlib.cfg(constants={"N": 2, "SubIdx": sub, "ProbeIdx": probes, "MaxLen": 4 if q else 5, "Op": '"c04loop"', "NQ": 0},
                                             invariants=INLOOP_INV), workers=12, timeout=2400, heap="4g" if q else "8g")
        cases += r.tagged.get("CASE", [])
    if q and len(cases) > 2500:
        cases = rnd.sample(cases, 2500)
    ctx.log("lattice loops: %d" % len(cases))
    ctx.replay(cases, timeout=1800)


def grid_regions(ctx, rnd):
    q = ctx.quick()
    fams = ["rect", "face", "hole1", "hole2", "island", "facehole", "stair", "ell", "shells2", "touch"]
    # (G, families, faces, steps, prove local rules)
    if q:
        plan = [(3, fams, 3, [1, 3], True), (4, ["rect", "hole1", "hole2", "stair", "ell", "face", "shells2", "touch"], 2, [1, 6], False),
                (5, ["rect", "hole1", "face"], 1, [1], False)]
    else:
        plan = [(2, fams, 6, [1, 2, 4], True), (3, fams, 6, [1, 3, 8], True), (3, fams, 6, [1, 2], True),
                (4, fams, 6, [1, 6], False), (4, fams, 3, [1, 2, 16], True), (5, fams, 3, [1, 9], False), (5, ["rect", "hole1", "hole2", "face"], 6, [1], False)]
    cases = []
    for G, fm, nf, steps, prove in plan:
        faces = rnd.sample(range(6), nf)
        cfg = w2.grid_cfg(rnd, G, "loop", "c04grid", fm, faces, steps, [0], with_cells=False, prove=prove, edge=True,
                          nwin=3 if G < 5 or not q else 2, invariants=GRID_INV)
        r = ctx.tlc("Gen_Grid", cfg, workers=12, timeout=1500)
        cases += r.tagged.get("CASE", [])
    ctx.log("grid regions: %d" % len(cases))
    ctx.replay(cases, timeout=1800)


def origin_regions(ctx, rnd):
    """Regions placed relative to OriginPoint(), the fixed point from which Loop / Polygon count crossings
    (shells around it, holes that surround it, islands in such holes, shells beside it)."""
    import json
    q = ctx.quick()
    p = ctx.run_harness(["record", "c04origin"], timeout=120)
    if p.returncode != 0:
        raise vlib.Infra("vcheck record c04origin failed: %s" % p.stderr[-2000:])
    org = json.loads(p.stdout)
    cases = []
    for G, steps in ([(4, [1, 4])] if q else [(3, [1, 2]), (4, [1, 4]), (5, [1, 8]), (6, [1])]):
        oi, oj = org["ij"][str(G)]
        cfg = w2.grid_cfg(rnd, G, "loop", "c04grid", ["ohole", "oisland", "onear"], [org["face"]], steps, [0], with_cells=False,
                          prove=G <= 3, invariants=GRID_INV, origin=(oi, oj))
        r = ctx.tlc("Gen_Grid", cfg, workers=12, timeout=1500)
        cases += r.tagged.get("CASE", [])
    ctx.log("regions around OriginPoint (face %d): %d" % (org["face"], len(cases)))
    ctx.replay(cases, timeout=1800)


def tilings(ctx, rnd):
    q = ctx.quick()
    if q:
        plan = [(2, ["cells", "guillotine", "ring", "strips", "wholeface"], 2), (4, ["guillotine", "ring"], 1)]
    else:
        plan = [(1, ["cells", "wholeface"], 6), (2, ["cells", "guillotine", "ring", "strips", "wholeface"], 6),
                (3, ["cells", "guillotine", "ring", "strips"], 6),
                (4, ["guillotine", "ring", "strips"], 3), (5, ["guillotine", "ring"], 2)]
    cases = []
    # every member has a vertex at every grid point of its boundary (step 1): members share edges exactly
    for G, fm, nf in plan:
        faces = rnd.sample(range(6), nf)
        cfg = w2.grid_cfg(rnd, G, "tile", "c04tile", fm, faces, [1], [rnd.randrange(2)], with_cells=False,
                          prove=G <= 3, edge=False, invariants=GRID_INV)
        r = ctx.tlc("Gen_Grid", cfg, workers=12, timeout=1500)
        cases += r.tagged.get("CASE", [])
    ctx.log("tilings: %d" % len(cases))
    ctx.replay(cases, timeout=1800)


def run(ctx):
    rnd = random.Random(ctx.seed)
    ctx.rule = ("W1: every valid lattice loop of 3..5 vertices over a seed-chosen sub-lattice (validity and InLoop decided by TLC), "
                "queried at every lattice point; non-trivial: more than 3 vertices or some query point not predicted (exactly degenerate). "
                "W2: every rectangle / holed rectangle / staircase / L-shape spanned by a seed-chosen window, on seed-chosen faces, "
                "vertex spacing 1 (index path) and large (brute force); non-trivial: more than 32 vertices or holes. "
                "Tilings: guillotine partitions, ring families, strips, all cells of a level; every case non-trivial (shared edges and vertices)")
    ctx.assumptions += [
        "unit embedding of lattice points: a model answer is used only when every deciding determinant is a non-zero integer (or the decision is by point identity)",
        "loops handed to the library are valid: certified by TLC with non-zero determinants (W1) / rectilinear cell unions (W2)",
        "W2: Cell.Vertex corners of one face are bit-identical for the cells sharing them; probes are cell centres (CellID.Point)",
        "points on region boundaries (grid vertices on edges, edge midpoints): no prediction, only agreement of all paths and exactly-once",
        "OriginPoint() lies strictly inside a cell of every grid level used (the harness locates the cell from the real point)",
    ]
    lattice_loops(ctx, rnd)
    grid_regions(ctx, rnd)
    origin_regions(ctx, rnd)
    tilings(ctx, rnd)
    # extension: ContainsVertexQuery / AngleContainsVertex on the integer lattice (spec/VertexQuery.tla)
    try:
        from checks import ext_wedge
        ext_wedge.run_ext(ctx)
    except vlib.Infra:
        raise
