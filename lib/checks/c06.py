"""C06: spatial-index queries = brute force; every shape exposes one edge set."""
import random
import vlib

LEVEL = "model_checking"

SHAPE_INV = ["WellFormedInv", "LawsInv", "DepthInv", "LaxSameChains", "Emit"]


def shapes(ctx):
    q = ctx.quick()
    r = ctx.tlc("Gen_Shapes", vlib.cfg(constants={
        "MaxChains": 4, "MaxLen": 4 if not q else 3, "MaxSingle": 6 if q else 9,
        "PolyLens": {3, 4} if q else {3, 4, 5}, "MaxPolyLoops": 3 if q else 4,
        "BigPoly": {13} if q else {12, 13, 14, 17}}, invariants=SHAPE_INV), workers=8, timeout=900)
    ctx.replay(r.tagged.get("CASE", []))


GRID_INV = ["CaseTheorems", "QueryTheorems", "Emit"]


def window(rnd, S, n, lo=0, force_edge=False):
    """n distinct sorted vertex coordinates in lo..S-lo; optionally touching the face boundary."""
    xs = sorted(rnd.sample(range(lo, S - lo + 1), n))
    if force_edge:
        if rnd.random() < 0.5:
            xs[0] = 0
        else:
            xs[-1] = S
    return xs


def inner(rnd, xs, n):
    """n distinct coordinates strictly inside the hull of xs (when there is room)."""
    cand = list(range(xs[0] + 1, xs[-1]))
    if len(cand) < 2:
        return set(xs)
    return set(rnd.sample(cand, min(n, len(cand))))


def grid_cfg(rnd, G, mode, op, families, faces, steps, kvs, with_cells=True, prove=False, nwin=3, edge=False, nq=12,
             invariants=None):
    S = 1 << G
    xs = window(rnd, S, nwin, force_edge=edge and rnd.random() < 0.5)
    ys = window(rnd, S, nwin, force_edge=edge and rnd.random() < 0.5)
    return vlib.cfg(constants={
        "G": G, "Mode": '"%s"' % mode, "Op": '"%s"' % op, "Faces": set(faces),
        "XS": set(xs), "YS": set(ys), "XH": inner(rnd, xs, 3), "YH": inner(rnd, ys, 3),
        "Steps": set(steps), "StairN": {2, 3, min(5, S)}, "Families": "{" + ", ".join('"%s"' % f for f in families) + "}",
        "KVs": set(kvs), "QSeed": rnd.randrange(1000), "NQ": nq, "Parts": 4, "WithCells": with_cells, "Prove": prove},
        invariants=invariants or GRID_INV)


def scenes(ctx, rnd):
    q = ctx.quick()
    cases = []
    allf = ["one", "two", "polyline", "four", "thin", "faces", "compl"]
    # (G, families, number of faces, steps, prove the local rules on every case)
    if q:
        plan = [(3, allf, 2, [1, 8], True), (4, ["two", "polyline", "faces", "compl"], 2, [1, 5], False), (5, ["two", "polyline", "compl"], 1, [1], False)]
    else:
        plan = [(2, allf, 6, [1, 2], True), (3, allf, 6, [1, 3, 8], True), (3, allf, 3, [1, 2], True),
                (4, allf, 6, [1, 5], False), (4, allf, 2, [1, 2, 16], True), (5, allf, 3, [1, 7], False), (5, ["two", "four"], 2, [1], False)]
    for G, fams, nf, steps, prove in plan:
        faces = rnd.sample(range(6), nf)
        r = ctx.tlc("Gen_Grid", grid_cfg(rnd, G, "scene", "c06scene", fams, faces, steps, [rnd.randrange(4)], prove=prove, edge=True),
                    workers=12, timeout=1500)
        cases += r.tagged.get("CASE", [])
    ctx.log("scenes: %d" % len(cases))
    ctx.replay(cases)


def run(ctx):
    rnd = random.Random(ctx.seed)
    ctx.rule = ("(i) every abstract shape (kind x chain-length vector x nesting) within the bounds, enumerated by TLC; "
                "non-trivial: more than one chain, a closed chain or an empty/full special shape")
    ctx.assumptions += [
        "shape accessors are called on their documented domain only (edge ids < NumEdges, chain ids < NumChains, offsets < chain length)",
    ]
    shapes(ctx)
    scenes(ctx, rnd)
