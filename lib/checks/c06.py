"""C06: spatial-index queries = brute force; every shape exposes one edge set."""
import random
import vlib

LEVEL = "model_checking"

SHAPE_INV = ["WellFormedInv", "LawsInv", "DepthInv", "LaxSameChains", "Emit"]


def shapes(ctx):
    q = ctx.quick()
    r = ctx.tlc("Gen_Shapes", vlib.cfg(constants={
        "MaxChains": 4, "MaxLen": 4 if not q else 3, "MaxSingle": 6 if q else 9,
        "PolyLens": {3, 4} if q else {3, 4, 5}, "MaxPolyLoops": 3 if q else 4,
        "BigPoly": {13} if q else {12, 13, 14, 17}, "BigLax": {13} if q else {12, 13, 14, 16}},
        invariants=SHAPE_INV), workers=8, timeout=900)
    ctx.replay(r.tagged.get("CASE", []))


GRID_INV = ["CaseTheorems", "QueryTheorems", "Emit"]


def window(rnd, S, n, lo=0, force_edge=False):
    """n distinct sorted vertex coordinates in lo..S-lo; optionally touching the face boundary."""
    xs = sorted(rnd.sample(range(lo, S - lo + 1), n))
    if force_edge:
        if rnd.random() < 0.5:
            xs[0] = 0
        else:
            xs[-1] = S
    return xs


def inner(rnd, xs, n):
    """n distinct coordinates strictly inside the hull of xs (when there is room)."""
    cand = list(range(xs[0] + 1, xs[-1]))
    if len(cand) < 2:
        return set(xs)
    return set(rnd.sample(cand, min(n, len(cand))))


def grid_cfg(rnd, G, mode, op, families, faces, steps, kvs, with_cells=True, prove=False, nwin=3, edge=False, nq=12,
             invariants=None, origin=(0, 0)):
    S = 1 << G
    xs = window(rnd, S, nwin, force_edge=edge and rnd.random() < 0.5)
    ys = window(rnd, S, nwin, force_edge=edge and rnd.random() < 0.5)
    return vlib.cfg(constants={
        "G": G, "Mode": '"%s"' % mode, "Op": '"%s"' % op, "Faces": set(faces),
        "XS": set(xs), "YS": set(ys), "XH": inner(rnd, xs, 3), "YH": inner(rnd, ys, 3),
        "Steps": set(steps), "StairN": {2, 3, min(5, S)}, "Families": "{" + ", ".join('"%s"' % f for f in families) + "}",
        "KVs": set(kvs), "QSeed": rnd.randrange(1000), "NQ": nq, "Parts": 4, "OI": origin[0], "OJ": origin[1], "WithCells": with_cells, "Prove": prove},
        invariants=invariants or GRID_INV)


def scenes(ctx, rnd):
    q = ctx.quick()
    cases = []
    allf = ["one", "two", "polyline", "four", "thin", "faces", "compl"]
    # (G, families, number of faces, steps, prove the local rules on every case)
    if q:
        plan = [(3, allf, 1, [1, 8], True), (4, ["two", "polyline", "faces", "compl"], 1, [1, 5], False), (5, ["two", "compl"], 1, [1], False)]
    else:
        plan = [(2, allf, 6, [1, 2], True), (3, allf, 6, [1, 3, 8], True), (3, allf, 3, [1, 2], True),
                (4, allf, 6, [1, 5], False), (4, allf, 2, [1, 2, 16], True), (5, allf, 3, [1, 7], False), (5, ["two", "four"], 2, [1], False)]
    for G, fams, nf, steps, prove in plan:
        faces = rnd.sample(range(6), nf)
        r = ctx.tlc("Gen_Grid", grid_cfg(rnd, G, "scene", "c06scene", fams, faces, steps, [rnd.randrange(4)], prove=prove, edge=True),
                    workers=12, timeout=1500)
        cases += r.tagged.get("CASE", [])
    ctx.log("scenes: %d" % len(cases))
    ctx.replay(cases)


def lattice(ctx, rnd):
    """(iii) lattice scenes: edges spanning several faces, degenerate query edges."""
    q = ctx.quick()
    inv = ["ExactlyOnce", "ValidBackwards", "CrossSymmetric", "CellDemandsConsistent", "Emit"]
    cases = []
    for n, k, maxlen, total in ([(1, 8, 5, 26)] if q else [(1, 12, 5, 26), (2, 9, 5, 98), (2, 9, 5, 98)]):
        sub = set(rnd.sample(range(1, total + 1), k))
        probes = set(range(1, 27)) if n == 1 else sub | set(rnd.sample(range(1, total + 1), 30))
        r = ctx.tlc("Gen_InLoop", vlib.cfg(constants={"N": n, "SubIdx": sub, "ProbeIdx": probes, "MaxLen": maxlen,
                                                       "Op": '"c06lattice"', "NQ": 12}, invariants=inv),
                    workers=12, timeout=2400)
        cases += r.tagged.get("CASE", [])
    if q and len(cases) > 600:
        cases = rnd.sample(cases, 600)
    ctx.log("lattice scenes: %d" % len(cases))
    ctx.replay(cases, timeout=1800)


def run(ctx):
    rnd = random.Random(ctx.seed)
    ctx.rule = ("(i) every abstract shape (kind x chain-length vector x nesting) within the bounds, enumerated by TLC; "
                "non-trivial: more than one chain, a closed chain or an empty/full special shape. "
                "(ii) grid-world scenes of 1..4 shapes (polygons with holes, complements, loops, polylines along and across grid "
                "lines, point sets; sharing vertices/edges; on one or two faces) spanned by a seed-chosen window at G=2..5, "
                "every scene of the enumerated families; non-trivial: more than 27 edges (index path of CrossingEdgeQuery) or several shapes")
    ctx.assumptions += [
        "shape accessors are called on their documented domain only (edge ids < NumEdges, chain ids < NumChains, offsets < chain length)",
        "W2: grid edges are great-circle arcs (u=const / v=const planes); Cell.Vertex corners are bit-identical for the cells sharing them",
        "an edge must be listed in every index cell (level <= G+2) whose closed square it meets; unit diagonals: the cell they lie in and the cells around their endpoints",
        "ContainsCell may conservatively be false for a cell inside the region whose closed square touches the boundary (class 2); IntersectsCell must be true whenever an edge meets the closed cell",
        "query segments between probes lie on u=const or v=const lines: crossings with grid edges are decided by integer comparison; a unit diagonal met inside its own cell is not predicted",
        "points on a boundary that are not vertices of the shape: no prediction, index = brute force only",
        "(iii) lattice scenes on the unit embedding: model answers used only when every deciding determinant is non-zero; index = code's brute force always",
        "a brute-force reference segment between exactly antipodal points is not an S2 edge: such point/shape pairs are skipped",
    ]
    shapes(ctx)
    scenes(ctx, rnd)
    lattice(ctx, rnd)
    from checks import ext_iter   # EXT: EdgeIterator, ShapeIndexRegion (spec/Iterators.tla, spec/Gen_IterRegions.tla)
    ext_iter.run_c06(ctx)
    from checks import ext_clip   # EXT: edge_clipping.go, ShrinkToFit (spec/Clipping.tla, spec/Gen_Clip.tla)
    ext_clip.run(ctx)
