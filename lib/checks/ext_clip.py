"""Extension of C06: s2/edge_clipping.go and PaddedCell.ShrinkToFit on general grid rectangles.

spec/Clipping.tla defines, in exact integer / rational arithmetic,
  A  the part of a 2D grid segment inside a closed grid rectangle (parameter interval), its class
     (through the interior / touching / outside) and the values the code interpolates;
  B  the part of a great-circle edge between lattice points on a (padded) cube face, the class per
     face and the sequence of faces the edge passes through;
  C  ShrinkToFit of a rectangle spanned by grid lines K levels below the cell;
  D  the exact predicates on a line normal (sumEqual, intersectsFace, intersectsOppositeEdges,
     exitAxis) on limb numbers whose float sums round.
spec/Gen_Clip.tla enumerates the cases (one TLC run), checks the model theorems on every case and
prints the expected answers; harness/cmd/vcheck/p_ext_clip.go replays them against ClipEdge,
clipEdgeBound, clippedEdgeBound, edgeIntersectsRect, interpolateFloat64, ClipToFace,
ClipToPaddedFace, FaceSegments, PaddedCell.ShrinkToFit and the predicates (through
/repo/s2/verif_hooks_clip.go where unexported).  Violation keys start with ext/clip/."""
import random
import time

import vlib

LAWS = ["RectLaws", "RectSymmetry", "FaceLaws", "FaceSymmetry", "ShrinkLaws", "NormalLaws"]


def _lat_codes(n):
    d = 2 * n + 1
    return list(range(d * d * d))


def _interior_codes(n):
    """codes of lattice points strictly inside a face (one coordinate strictly largest in magnitude)"""
    d = 2 * n + 1
    out = []
    for c in range(d * d * d):
        p = sorted((abs(c // (d * d) - n), abs((c // d) % d - n), abs(c % d - n)))
        if p[2] > p[1]:
            out.append(c)
    return out


def _embeddings(rnd, m, count):
    """dyadic embeddings of the grid 0..m into [-1,1]^2: scale 2^-s (2^s >= m), integer centre, axis
    flips, u<->v swap; the first one is the symmetric one at the coarsest scale"""
    bits = max(1, (m - 1).bit_length())
    out = [{"s": bits, "c": [m // 2, m // 2], "f": [1, 1], "sw": False}]
    while len(out) < count:
        out.append({"s": rnd.choice([bits, bits + 1, rnd.randrange(bits, 24)]),
                    "c": [rnd.randrange(m + 1), rnd.randrange(m + 1)],
                    "f": [rnd.choice([1, -1]), rnd.choice([1, -1])], "sw": rnd.random() < 0.5})
    return out


def _anchors(rnd, kmax, count):
    """cells <<face, level, i, j>> whose descendants kmax levels down exist: a face, a cell whose grid lines
    kmax levels down are leaf lines, cells at a face corner / boundary / inside on middle levels"""
    out = [[rnd.randrange(6), 0, 0, 0]]
    lev = 30 - kmax
    out.append([rnd.randrange(6), lev, rnd.randrange(1, (1 << lev) - 1), rnd.randrange(1, (1 << lev) - 1)])
    while len(out) < count:
        lev = rnd.choice([1, 2, rnd.randrange(3, 30 - kmax), 30 - kmax])
        m = (1 << lev) - 1
        kind = rnd.randrange(3)
        if kind == 0:
            i, j = rnd.choice([0, m]), rnd.choice([0, m])
        elif kind == 1:
            i, j = rnd.choice([0, m]), rnd.randrange(m + 1)
            if rnd.random() < 0.5:
                i, j = j, i
        else:
            i, j = rnd.randrange(m + 1), rnd.randrange(m + 1)
        out.append([rnd.randrange(6), lev, i, j])
    return out


# limb magnitudes c2*25 + c1*5 + c0 that are float64 numbers and make float sums round
_POOL_CORE = [0, 1, 3, 4, 5, 6, 25, 29, 30, 50]
_POOL_MORE = [2, 9, 10, 20, 24, 34, 45, 49, 55, 75, 100, 105, 15, 54]


def run(ctx):
    rnd = random.Random(ctx.seed * 104729 + 6)
    q = ctx.quick()
    t0 = time.time()
    if q:
        m = 4
        aidx = set(rnd.sample(range((m + 1) ** 2), 3))
        n = 2
        inner = _interior_codes(n)
        pidx = set(rnd.sample(inner, 5)) | set(rnd.sample(_lat_codes(n), 4))
        qidx = set(_lat_codes(n))
        ks = {1, 2}
        pool = set(_POOL_CORE) | set(rnd.sample(_POOL_MORE, 2))
        runs = [(m, aidx, n, pidx, qidx, ks, pool, {"rect", "face", "shrink", "normal"})]
    else:
        runs = []
        # A: the whole 5x5 grid; seed-chosen parts of the 7x7 and 9x9 grids (slopes k/6, k/8)
        # B: the whole lattices N = 1, 2; seed-chosen first end points for N = 3, 4
        runs.append((4, set(range(25)), 1, set(_lat_codes(1)), set(_lat_codes(1)), {1, 2, 3},
                     set(_POOL_CORE) | set(rnd.sample(_POOL_MORE, 12)), {"rect", "face", "shrink", "normal"}))
        runs.append((6, set(rnd.sample(range(49), 6)), 2, set(_lat_codes(2)), set(_lat_codes(2)), set(), set(), {"rect", "face"}))
        inner = _interior_codes(3)
        runs.append((8, set(rnd.sample(range(81), 2)), 3, set(rnd.sample(inner, 24)) | set(rnd.sample(_lat_codes(3), 12)),
                     set(_lat_codes(3)), set(), set(), {"rect", "face"}))
        inner = _interior_codes(4)
        runs.append((4, set(), 4, set(rnd.sample(inner, 10)) | set(rnd.sample(_lat_codes(4), 5)), set(_lat_codes(4)), set(), set(), {"face"}))
    pad = rnd.choice([(3, 2), (5, 4), (2, 1), (9, 8)])
    ncases = 0
    for (m, aidx, n, pidx, qidx, ks, pool, fams) in runs:
        cfg = vlib.cfg(constants={"Families": "{" + ", ".join('"%s"' % f for f in sorted(fams)) + "}",
                                  "M": m, "AIdx": aidx, "N": n, "PIdx": pidx, "QIdx": qidx,
                                  "PadN": pad[0], "PadD": pad[1], "KS": ks, "Pool": pool},
                       invariants=LAWS + ["Emit"])
        r = ctx.tlc("Gen_Clip", cfg, workers=8 if q else 12, timeout=3000, heap="4g" if q else "8g")
        batch = r.tagged.get("CASE", [])
        embs = _embeddings(rnd, m, 6)
        kmax = max(ks) if ks else 1
        anchors = _anchors(rnd, kmax, 4 if q else 8)
        for i, c in enumerate(batch):
            if c["op"] == "ext/clip/rect":
                c["embs"] = [embs[i % len(embs)], embs[(i // len(embs) + 1 + i) % len(embs)]]
            elif c["op"] == "ext/clip/shrink":
                c["anchors"] = anchors
        ncases += len(batch)
        ctx.replay(batch, timeout=3000)
    ctx.assumptions += [
        "ext/clip A: segment and rectangle coordinates are grid integers embedded as dyadic rationals f*(k-c)*2^-s in [-1,1] "
        "(every product the code forms is exact); an edge through the interior of the rectangle must be reported, an edge missing "
        "the closed rectangle must not; an edge that only touches the boundary (or a degenerate rectangle) is predicted exactly "
        "where every coordinate the code interpolates is a dyadic rational (then each floating-point operation is exact), "
        "otherwise either answer is accepted; clipped coordinates: exact where dyadic, else within edgeClipErrorUVCoord",
        "ext/clip A: edgeIntersectsRect is exact on these inputs (the closed rectangle, including grazing contact)",
        "ext/clip B: edges between lattice points under the unit embedding; per face the class in / out is robust under the "
        "normalisation (AB meets the open face cone / misses the closed one), touching faces are not predicted; returned vertices "
        "must lie in the (padded) face square and within faceClipErrorUVDist + 8*eps*(1+2R^2)/sin(AB) of the lattice line (the "
        "second term covers the rounding of the normalised inputs); clipped end points of robust faces within 1e-9 of the exact ones",
        "ext/clip B: FaceSegments: faces crossed through their interior are visited in parameter order, no face missed by the closed "
        "edge is visited, consecutive faces are adjacent and consecutive segments meet; the exact sequence is demanded when no "
        "face is merely touched; antipodal and parallel distinct lattice points are excluded",
        "ext/clip C: ShrinkToFit(rect) for rectangles spanned by grid lines (uv values of Cell.BoundUV) K levels below the cell, "
        "padding 0 or 2^-(level+3): closed bounds that touch intersect",
        "ext/clip D: normal components are limb numbers c2*2^54 + c1*2^27 + c0 that are exactly float64 values (others skipped)",
    ]
    ctx.notes.append("ext_clip: %d cases, %.1fs" % (ncases, time.time() - t0))
