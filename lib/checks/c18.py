"""C18: area, curvature and centroid are consistent with containment and orientation.

Direction A: TLC enumerates the W2 rectangles-with-holes and W1 triangles (Gen_Bounds) and the exactly
collinear lattice triples with the model's perturbed sign (Gen_Measures).  Direction B: the harness
measures the real objects and records events (floats as order-preserving keys, documented tolerances
added in Go and logged as lo/hi keys); TLC validates every event against Trace_Measures.tla."""
import random
import vlib
from checks import c10 as base

LEVEL = "model_checking"


def run(ctx):
    rnd = random.Random(ctx.seed)
    q = ctx.quick()
    ctx.rule = ("loops: rectangles of grid cells (W2, levels 1..30, with holes), lattice triangles (W1), exactly collinear lattice "
                "triples and their near-degenerate perturbations (1e-300..1e-10), seeded regular / star-shaped / long-edge loops with "
                "3..10^4 vertices; every event is non-trivial (an identity of float keys, a model-certified classification or a "
                "tolerance relation on the real object)")
    ctx.assumptions += [
        "NOT decided: independence of the triangulation within the documented error for arbitrary loops (needs real arithmetic); only "
        "rotations of the start vertex and the cell decomposition of W2 loops are compared",
        "tolerances are added in Go with float64 arithmetic and logged: PointArea 'maximum error is about 5e-15' per triangle (doubled, "
        "2n triangles as in the comment of Loop.Area) + 1e-12 relative; turningAngleMaxError = 11.25*eps per vertex",
        "the oracle for float inputs is relational; exact clauses (rotation / inversion of TurningAngle, canonical vertex order, signed sums) "
        "are identities of float keys",
        "expected area of a W2 loop = sum of Cell.ExactArea of its cells (library function, itself PointArea-based)",
        "slivers: unit embedding rounds, so the model's perturbed sign is informative only; decided is the consistency of Area / IsNormalized "
        "with the number of probes the loop's own ContainsPoint accepts",
    ]
    tr = base.TraceRun(ctx, "VERIF_C18_TRACE", "Trace_Measures", {"N": 2}, "c18")
    windows = []
    for g in ([2, 9, 30] if q else [1, 2, 3, 6, 14, 25, 30]):
        s = 1 << g
        win = min(4, s)
        f = rnd.randrange(6)
        ai = rnd.randrange(0, s - win + 1)
        aj = rnd.randrange(0, s - win + 1)
        windows.append((f, g, ai, aj, win, g))
        if not q:
            windows.append((rnd.choice([2, 5]), g, max(0, s // 2 - 2), max(0, s // 2 - 2), win, g))
    all26 = list(range(1, 27))
    scenes = base.scenes_from_tlc(ctx, windows, 1, all26 if not q else rnd.sample(all26, 14))
    w2 = [dict(c, op="c18.w2") for c in scenes if c["op"] == "c10.w2"]
    w1 = [dict(c, op="c18.w1") for c in scenes if c["op"] == "c10.w1"]
    for c in w2:
        for k in ("pin", "pout", "subs"):
            c.pop(k, None)
    rnd.shuffle(w2)
    rnd.shuffle(w1)
    if q:
        bywin = {}
        for c in w2:
            bywin.setdefault((c["f"], c["g"]), []).append(c)
        w2 = [c for v in bywin.values() for c in (sorted(v, key=lambda c: -len(c["holes"]))[:6] + v[:14])]
        w1 = w1[:350]
    else:
        w1 = w1[:1968]
    # degenerate slivers
    sl = []
    r = ctx.tlc("Gen_Measures", vlib.cfg(constants={"N": 1, "SubIdx": set(all26)}, invariants=["SignThm", "Emit"]), workers=8)
    sl += r.tagged.get("CASE", [])
    if not q:
        r = ctx.tlc("Gen_Measures", vlib.cfg(constants={"N": 2, "SubIdx": set(rnd.sample(range(1, 125), 60))},
                                             invariants=["SignThm", "Emit"]), workers=8)
        sl += r.tagged.get("CASE", [])
    rnd.shuffle(sl)
    if q:
        sl = sl[:420]
    fam = []
    for name, cnt in (("regular", 30), ("star", 30), ("longedge", 40), ("antipodal", 60), ("nearpi", 60), ("strip", 40)):
        for k in range(3 if q else 30):
            fam.append({"op": "c18.rand", "family": name, "seed": ctx.seed * 100 + k, "count": cnt if q else cnt * 2,
                        "maxn": 1000 if q else 10000})
    batch = w2 + w1 + sl + fam
    for c in batch:
        c["seed"] = c.get("seed", rnd.randrange(1 << 30))
    ctx.log("W2 scenes %d, W1 triangles %d, slivers %d, families %d" % (len(w2), len(w1), len(sl), len(fam)))
    # trace files of at most ~60k events each (TLC keeps the whole file in memory)
    est = {"c18.w2": 40, "c18.w1": 6, "c18.sliver": 45}
    cands, group, size = [], [], 0
    for c in batch:
        e = est.get(c["op"], 3 * c.get("count", 1))
        if group and size + e > 60000:
            cands += tr.run(group, "c18")
            group, size = [], 0
        group.append(c)
        size += e
    if group:
        cands += tr.run(group, "c18")
    ctx.counters["trace_events_validated_by_tlc"] = tr.events
    base.settle(ctx, tr, cands)
