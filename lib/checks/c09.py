"""C09: encoding is lossless (decode(encode(v)) = v bit for bit; encoding is deterministic)."""
import json
import os
import random
import vlib

LEVEL = "model_checking"

TH = ["ThTransport", "ThReceiver", "ThPolygon", "ThCoder", "ThZigZag", "ThInterleave", "ThUvarint", "ThCell", "ThCellUnion", "ThLoop", "Emit"]
KINDS = ["centre-ring", "centre-ring-extreme", "corner-ring", "holes", "mixed", "faces", "multi", "many-loops", "special-polygon",
         "loop", "polyline", "point", "cap", "rect", "cellid", "cellunion", "long-stream"]


def vcode(K, f, si, ti, ex):
    M = 2 ** (K + 1)
    return ((f * (M + 1) + si) * (M + 1) + ti) * 2 + (1 if ex else 0)


def alphabet(rnd, K, n):
    """Vertex codes: mostly exact cell centres of one level, some centres of other levels, some points that are
    not centres (mixed coordinate levels, one ulp off a centre), some extreme coordinates (0, 2^(K+1), first/last cell)."""
    M = 2 ** (K + 1)
    out = set()
    lvl = rnd.randint(max(1, K - 1), K)

    def centre(level, edge=False):
        st = 2 ** (K - level)
        i = rnd.choice([0, 2 ** level - 1]) if edge else rnd.randrange(2 ** level)
        return (i * 2 + 1) * st
    while len(out) < n:
        f = rnd.randrange(6)
        r = rnd.random()
        if r < 0.45:
            out.add(vcode(K, f, centre(lvl), centre(lvl), True))
        elif r < 0.55:
            out.add(vcode(K, f, centre(lvl, True), centre(lvl, rnd.random() < 0.5), True))     # first / last cell
        elif r < 0.70:
            l2 = rnd.randint(0, K)
            out.add(vcode(K, f, centre(l2), centre(l2), True))
        elif r < 0.80:
            out.add(vcode(K, f, centre(lvl), centre(lvl), False))                              # one ulp off a centre
        elif r < 0.90:
            out.add(vcode(K, f, rnd.randrange(1, M), rnd.randrange(1, M), True))               # mixed levels
        else:
            out.add(vcode(K, f, rnd.choice([0, M, centre(lvl)]), rnd.choice([0, M]), True))    # face boundary
    return out


def run(ctx):
    rnd = random.Random(ctx.seed)
    q = ctx.quick()
    ctx.rule = ("(i) TLC enumerates model values (every vertex sequence up to length LMax over a seed-chosen alphabet of "
                "(face,si,ti,exact) vertices on a 2^(K+1) grid, multi-loop polygons, 64+ vertex loops, cells, cell unions, "
                "polylines, loops, points, caps, rects, coder/zig-zag/interleave/uvarint inputs), proves "
                "Decode(Encode(v)) = v on the model for each, and emits the bytes; the real encoder must write exactly these "
                "bytes and the real decoder must return the value from them; non-trivial = a value with at least one vertex / "
                "a coder sequence whose second difference wraps. (ii) round trips of seed-generated rich values recorded "
                "from the real code and validated by Trace_Wire.tla, each also decoded through TLC-generated transports "
                "(reader without ReadByte, pieces of 1..4097 bytes; Wire!ChunkingInvariant) and into receivers that already hold "
                "another decoded value of a TLC-generated class (Wire!ReceiverLaw); every event is non-trivial")
    ctx.assumptions += [
        "model vertices are embedded on the real (si,ti) scale by a shift of 30-K bits: model level = real level, model "
        "(pi,qi) = real (pi,qi), so the model's bytes are the real bytes; the 32-bit word of the derivative coder is bound "
        "by the homomorphism x -> x*2^(32-w) from w-bit words",
        "float64 payloads are opaque to the model: the expected 8 bytes are the IEEE bits of the real value's field",
        "for a vertex on a cube-face boundary (si or ti = 0 or 2^31) the face is a tie: when the library puts it on another "
        "face than the model no bytes are predicted, only the round trip is checked",
        "round trips at levels up to 30 (where (pi,qi) need 30 bits and the coder's int32 arithmetic wraps) are relational "
        "only: TLC validates equalities between recorded fingerprints/hashes and the format-choice rule, it does not "
        "recompute the bytes",
        "bounds that are recomputed by the decoder (compressed loops below 64 vertices) are compared but a difference is "
        "only counted, not a violation; answers of containment queries must be identical",
    ]
    # ---- (i) wire level --------------------------------------------------------
    # (K, |VA|, LMax, |VB|, NL)
    runs = [(3, 8, 3, 4, 2), (6, 6, 3, 3, 2)] if q else [(3, 9, 4, 4, 3), (4, 8, 4, 4, 2), (5, 7, 4, 3, 2), (8, 6, 3, 3, 2)]
    transports = []
    receivers = set()
    for (K, na, lmax, nb, nl) in runs:
        va = alphabet(rnd, K, na)
        vb = set(rnd.sample(sorted(va), nb))
        longs = {n * 1000000 + rnd.randrange(1, 999) * 1000 + rnd.randrange(0, 999) for n in ([64, 70] if q else [63, 64, 65, 99])}
        consts = {"K": K, "Kinds": {'"single"', '"multi"', '"long"', '"thresh"', '"simple"', '"prim"', '"transport"'}, "VA": va, "VB": vb,
                  "LMax": lmax, "NL": nl, "LongSpec": longs, "WP": 3,
                  "CSizes": {1, 3, 7, 8, 9, 4095, 4096, 4097} if K == runs[0][0] else {1}}
        r = ctx.tlc("Gen_Wire", vlib.cfg(constants=consts, invariants=TH), workers=8, timeout=1500, heap="6g")
        ctx.replay(r.tagged.get("CASE", []), timeout=1800)
        transports += r.tagged.get("TRANSPORT", [])
        receivers |= {x["class"] for x in r.tagged.get("RECEIVER", [])}
        ctx.log("wire-level cases replayed (K=%d)" % K)
    # ---- (ii) round trips of rich values, trace direction ----------------------
    per = 50 if q else 600
    cases = []
    # every value is also decoded through TLC-generated transports: a plain reader delivering whole buffers
    # (the case a file or socket presents) and two seed-chosen (mode, piece lengths) combinations
    transports = sorted(transports, key=lambda t: json.dumps(t, sort_keys=True))
    if not transports:
        raise vlib.Infra("TLC generated no transports")
    whole = {"mode": "plain", "pat": [4096]}
    # ... and a second time into a receiver that already holds a decoded value of a TLC-generated class
    # (one seed-chosen class per value; every class for the special values: empty, full, single cell)
    receivers = sorted(receivers)
    if not receivers:
        raise vlib.Infra("TLC generated no receiver classes")
    for k in KINDS:
        for i in range(per if k != "long-stream" else max(12, per // 10)):
            cases.append({"op": "roundtrip", "kind": k, "seed": ctx.seed, "i": i, "tr": len(cases) + 1,
                          "tp": [whole] + rnd.sample(transports, 2),
                          "rc": receivers if k == "special-polygon" or (k in ("loop", "cap", "rect") and i % 5 < 2)
                          else [rnd.choice(receivers)]})
    trace = os.path.join(ctx.scratch, "c09-trace.ndjson")
    os.environ["VERIF_C09_TRACE"] = trace
    try:
        res = ctx.replay(cases, timeout=2400, confirm=False)
    finally:
        del os.environ["VERIF_C09_TRACE"]
    nlines = sum(1 for _ in open(trace))
    if nlines != len(cases):
        raise vlib.Infra("trace has %d events for %d cases" % (nlines, len(cases)))
    r = ctx.tlc("Trace_Wire", vlib.cfg(constants={"TraceFile": '"%s"' % trace}, invariants=["Done"], properties=[]),
                workers=1, timeout=900)
    done = r.tagged.get("DONE", [])
    if not done or done[0]["lines"] != len(cases):
        raise vlib.Infra("Trace_Wire did not consume the whole trace: %s" % done)
    bad = {b["tr"]: b["why"] for b in r.tagged.get("BAD", [])}
    flagged = set()
    for v in res.get("violations", []):
        c = v["case"] if isinstance(v["case"], dict) else json.loads(v["case"])
        flagged.add(c["tr"])
    ctx.log("trace validated by TLC: %d events, %d rejected; harness flagged %d" % (len(cases), len(bad), len(flagged)))
    # the two judges (TLC on the trace, the harness on the value) must agree on which values fail
    # (the harness reports at most a few violations per key, so compare the set it lists and the total count)
    nfailed = res.get("counters", {}).get("roundtrip_values_failed", 0)
    if not flagged <= set(bad) or nfailed != len(bad):
        raise vlib.Infra("TLC rejects %d events %s but the harness fails %d values %s" %
                         (len(bad), sorted(bad)[:10], nfailed, sorted(flagged)[:10]))
    ctx.counters["trace_events_validated_by_tlc"] = len(cases)
    ctx.counters["trace_events_rejected_by_tlc"] = len(bad)
    ctx.handle_violations(res.get("violations", []))
