"""C05: coverings cover, interior coverings are contained, level limits honoured;
region predicates one-sidedly safe.  Spec: Coverer.tla, generator/validator: Gen_Coverer.tla."""
import json
import os
import random

import vlib

LEVEL = "model_checking"

MODEL_INV = ["CanonLaws", "DenormLaws", "Satisfiable", "Emit"]
VERDICT_KEYS_HARNESS = ["cov_covers", "cov_levels", "cov_maxcells", "fast_covers", "fast_levels", "int_inside",
                        "int_levels", "cu_covers", "cu_limits", "icu_inside", "icu_limits"]


def _anchor(rnd, level, face=None):
    return {"f": rnd.randrange(6) if face is None else face, "p": [rnd.randrange(4) for _ in range(level)]}


def _chunks(seq, n):
    for i in range(0, len(seq), n):
        yield seq[i:i + n]


def run(ctx):
    rnd = random.Random(ctx.seed)
    q = ctx.quick()
    ctx.rule = ("TLC enumerates discrete regions (subsets of the 16 depth-2 cells of a root; pattern products over the six "
                "faces), W2 grid loops/polygons with holes/grid polylines, and descriptors of float regions; every region "
                "is run through the real RegionCoverer for every configuration (270 for the discrete regions). A case is "
                "non-trivial when the region is neither empty nor everything (discrete) / always for geometric regions")
    ctx.assumptions += [
        "coverage is decided on leaf-id ranges (depth 30), never by containment of a depth-D region cell in one covering cell",
        "level limits are demanded of Covering/InteriorCovering/FastCovering; CellUnion()/InteriorCellUnion() must be "
        "normalized, have no cell below MaxLevel and denormalise (MinLevel, LevelMod) into the limits",
        "MaxCells exactly as documented: it may be exceeded only if the number of MinLevel cells the region meets exceeds it "
        "('MinLevel takes priority'); with MinLevel = 0 the result then has that minimum number (of faces); with MinLevel > 0 "
        "'an arbitrary number of cells may be returned' and no bound is demanded; for float regions only the MinLevel = 0 "
        "rule is checked (faces met, by the region's own IntersectsCell)",
        "float regions are checked relationally: witnesses are leaf-cell centres judged by the region's own ContainsPoint; "
        "points of the region that are not witnesses are not decided (continuum)",
        "W2 grid loops: cell edges are great circles, the region is exactly a union of level-G cells; predictions are made "
        "only for cells that share interior with / are not inside the region (boundary contact is not predicted)",
        "raw Point regions on cell boundaries: the covering must have a cell whose closed Cell.ContainsPoint holds (uses C12 code)",
        "InteriorCovering MaxCells and FastCovering MaxCells are not demanded (not promised by the documentation)",
    ]
    # ------------------------------------------------------------------ generation
    grid_g = rnd.choice([2, 3]) if q else 3
    consts = {
        "OneA": set(rnd.sample(range(16), 1)) if q else set(range(16)),
        "Stride": 4 if q else 1, "Off": rnd.randrange(4) if q else 0,
        "MultiRoots": set(rnd.sample(range(1, 10), 1)) if q else set(range(1, 10)),
        "MultiMenu": set(rnd.sample(range(1, 10), 3)) if q else set(rnd.sample(range(1, 10), 4)),
        "BigRoots": set(rnd.sample(range(5), 1)) if q else set(range(5)),
        "BigN": 2 if q else 7,
        "ModelEvery": 257 if q else 131,
        "PredEvery": 13 if q else 5,
        "GridFaces": set(rnd.sample(range(6), 2)) if q else set(range(6)),
        "GridG": grid_g,
        "GridEvery": (3 if grid_g == 2 else 40) if q else 3,
        "GridOff": 0,
        "RealKinds": set(range(1, 16)),
        "RealPlaces": set(rnd.sample(range(1, 52), 24)) if q else set(range(1, 52)),
        "RealSizes": set(rnd.sample(range(12), 8)) if q else set(range(12)),
        "RealEvery": 12 if q else 4,
        "RectEvery": 40 if q else 3,
        "RectOff": rnd.randrange(3),
        "BandFaces": {0, 1, 3, 4},
        "BandEvery": 9 if q else 1,
        "BandOff": rnd.randrange(9) if q else 0,
        "ObsFile": '""',
    }
    r = ctx.tlc("Gen_Coverer", vlib.cfg(constants=consts, invariants=MODEL_INV), workers=12,
                timeout=300 if q else 2400, heap="8g")
    cases = r.tagged.get("CASE", [])
    cfgs = r.tagged["CFGS"][0]["cfgs"]
    by = {}
    for c in cases:
        by.setdefault(c["op"], []).append(c)
    ctx.log("cases: " + ", ".join("%s=%d" % (k, len(v)) for k, v in sorted(by.items())))
    if not q:
        ctx.exhaustive = {"regions_one_root": "all 65536 subsets of the 16 depth-2 cells",
                          "configurations": "all 270 (MinLevel<=MaxLevel in 0..4, LevelMod 1..3, MaxCells in {1,2,3,4,8,100})"}

    # ------------------------------------------------------------------ replay 1: discrete regions
    obs_path = os.path.join(ctx.scratch, "c05_obs.ndjson")
    os.environ["VERIF_C05_OBS"] = obs_path
    covers = by.get("cover", [])
    one = [c for c in covers if c["kind"] == "one"]
    multi = [c for c in covers if c["kind"] == "multi"]
    big = [c for c in covers if c["kind"] == "big"]
    total_evals = (len(one) * 2 + len(multi) * 2) * len(cfgs)
    obs_every = max(1, total_evals // (2500 if q else 30000))
    chunks = []
    faces = [{"f": f, "p": []} for f in range(6)]
    for k, ch in enumerate(_chunks(one, 32)):
        # every region under a top-level face with the harness region and root bound ...
        chunks.append({"op": "coverchunk", "cfgs": cfgs, "roots": [_anchor(rnd, 0)], "impl": "disc", "bound": "root",
                       "obsevery": obs_every, "regions": ch})
        # ... and (every chunk in quick, every other chunk in thorough) once more under a second
        # embedding / implementation of the region
        if not q and k % 2 == 1:
            continue
        m = (k // (1 if q else 2)) % 4
        if m == 0:
            extra = {"roots": [_anchor(rnd, 26)], "impl": "disc", "bound": "root"}
        elif m == 1:
            extra = {"roots": [_anchor(rnd, rnd.randrange(1, 26))], "impl": "disc", "bound": "cells"}
        elif m == 2:
            extra = {"roots": [_anchor(rnd, rnd.choice([0, 0, 26, rnd.randrange(1, 26)]))], "impl": "cu", "bound": "root"}
        else:
            extra = {"roots": [_anchor(rnd, 26)], "impl": "disc", "bound": "cells"}
        extra.update({"op": "coverchunk", "cfgs": cfgs, "obsevery": obs_every, "regions": ch})
        chunks.append(extra)
    single = [c for c in one if len(c["canon"]) == 1]
    for ch in _chunks(single, 8):
        chunks.append({"op": "coverchunk", "cfgs": cfgs, "roots": [_anchor(rnd, rnd.choice([0, 7, 26]))], "impl": "cell",
                       "bound": "root", "obsevery": obs_every, "regions": ch})
    for k, ch in enumerate(_chunks(multi, 16)):
        chunks.append({"op": "coverchunk", "cfgs": cfgs, "roots": faces, "impl": "disc",
                       "bound": "root" if k % 2 == 0 else "cells", "obsevery": obs_every, "regions": ch})
        chunks.append({"op": "coverchunk", "cfgs": cfgs, "roots": faces, "impl": "cu", "bound": "root",
                       "obsevery": obs_every, "regions": ch})
    for c in big:
        # a region whose CellUnionBound is its own (large) normal form, and the real CellUnion
        chunks.append({"op": "coverchunk", "cfgs": cfgs, "roots": faces, "impl": "disc", "bound": "cells",
                       "obsevery": obs_every * 4, "regions": [c]})
        chunks.append({"op": "coverchunk", "cfgs": cfgs, "roots": faces, "impl": "cu", "bound": "root",
                       "obsevery": 0, "regions": [c]})
    rnd.shuffle(chunks)
    ctx.replay(chunks, timeout=3000)

    # ------------------------------------------------------------------ exact predictions: Denormalize, IsCanonical
    pred = []
    for c in by.get("denorm", []):
        n = c["roots"]
        if c["cap"] == 4:
            lv = 26
        else:
            lv = rnd.choice([0, 0, rnd.randrange(1, 24)])
        if n == 1:
            c["roots"] = [_anchor(rnd, lv)]
        elif lv == 0:
            c["roots"] = faces
        else:
            c["roots"] = [_anchor(rnd, lv, face=f) for f in range(6)]
        pred.append(c)
    for c in by.get("canonical", []):
        n = c["roots"]
        lv = rnd.choice([0, rnd.randrange(1, 24)])
        c["roots"] = [_anchor(rnd, lv)] if n == 1 else (faces if lv == 0 else [_anchor(rnd, lv, face=f) for f in range(6)])
        c["cfgs"] = cfgs
        pred.append(c)
    ctx.replay(pred, timeout=1200)

    # ------------------------------------------------------------------ replay 2: W2 regions and float regions
    ctx.replay(by.get("grid", []) + by.get("gridline", []), timeout=2400)
    ctx.replay(by.get("region", []), timeout=2400)

    # ------------------------------------------------------------------ direction B: the spec judges logged results
    if os.path.exists(obs_path):
        nobs = sum(1 for _ in open(obs_path))
        consts_b = dict(consts)
        consts_b["ObsFile"] = '"%s"' % obs_path
        rb = ctx.tlc("Gen_Coverer", vlib.cfg(init="TInit", next_="TNext", constants=consts_b, invariants=["ObsAgree"]),
                     workers=12, timeout=600 if q else 2400, heap="8g")
        ctx.traces += nobs
        ctx.counters["observations_validated_by_tlc"] = nobs
        if rb.distinct < nobs:
            raise vlib.Infra("trace validation visited %d states for %d observations" % (rb.distinct, nobs))
        dis = rb.tagged.get("DISAGREE", [])
        lines = open(obs_path).read().splitlines()
        extra = []
        for d in dis:
            bad = [k for k in d["spec"] if d["spec"][k] != d["harness"][k]]
            if [k for k in bad if k != "cov_canonical"]:
                raise vlib.Infra("harness comparator and specification disagree on %s: observation %s" %
                                 (bad, lines[d["line"] - 1][:600]))
            # the real IsCanonical and the specification disagree on a real covering: replay it as a prediction case
            ob = json.loads(lines[d["line"] - 1])
            extra.append({"op": "canonical", "roots": ob["roots"], "cfgs": [ob["cfg"]], "x": ob["cov"],
                          "want": [1] if d["spec"]["cov_canonical"] else []})
        ctx.log("direction B: %d observations validated, %d IsCanonical disagreements" % (nobs, len(extra)))
        ctx.replay(extra[:50])
    from checks import ext_iter   # EXT: RegionUnion (spec/Gen_IterRegions.tla)
    ext_iter.run_c05(ctx)
