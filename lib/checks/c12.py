"""C12: cell geometry agrees with cell ids (containment, children, bounds, distances).
Spec: CellGeom.tla, generator: Gen_CellGeom.tla."""
import random

import vlib

LEVEL = "model_checking"

INV = ["T_Prefix", "T_Children", "T_Curve", "T_Touch", "T_Seg", "Emit"]


def _chunks(seq, n):
    for i in range(0, len(seq), n):
        yield seq[i:i + n]


def _gen(ctx, L, face, path, seg_every, seg_off, pair_every, pair_off, ulp_n=0, ulp_seed=0):
    lvl = len(path)
    lo_digits = path[-13:] if lvl > 13 else path
    hi_digits = path[:-13] if lvl > 13 else []
    num = lambda ds: sum(d * 4 ** (len(ds) - 1 - i) for i, d in enumerate(ds))
    consts = {"L": L, "AnchorFace": face, "AnchorLevel": lvl, "AnchorHi": num(hi_digits), "AnchorLo": num(lo_digits),
              "SegEvery": seg_every, "SegOff": seg_off, "PairEvery": pair_every, "PairOff": pair_off,
              "UlpN": ulp_n, "UlpSeed": ulp_seed}
    r = ctx.tlc("Gen_CellGeom", vlib.cfg(constants=consts, invariants=INV), workers=8, timeout=1200, heap="6g")
    root = r.tagged["ROOT"][0]
    if root["apath"] != path:
        raise vlib.Infra("anchor path decoded by the spec %s differs from the driver's %s" % (root["apath"], path))
    return root, r.tagged.get("CASE", [])


def _cases(root, cases, face):
    root = dict(root)
    root["face"] = face
    cells = [c for c in cases if c["op"] == "cell"]
    segs = [c for c in cases if c["op"] == "seg"]
    shr = [c for c in cases if c["op"] == "shrink"]
    out = []
    for ch in _chunks(cells, 6):
        out.append({"op": "c12cells", "root": root, "cells": ch})
    for ch in _chunks(segs, 12):
        out.append({"op": "c12segs", "root": root, "segs": ch})
    for ch in _chunks(shr, 400):
        out.append({"op": "c12shrink", "root": root, "shrinks": ch})
    return out


def _ulp_cases(cases):
    return [c for c in cases if c["op"] == "c12ulp"]


def run(ctx):
    rnd = random.Random(ctx.seed)
    q = ctx.quick()
    ctx.rule = ("TLC enumerates every cell of levels 0..L below a root (cube face or deep anchor), sampled row/column "
                "segments through probe centres and probe pairs; for each it derives from the Hilbert tables the contained "
                "probes, touched grid vertices, touching cells, crossed cells, child quadrants, curve entry/exit corners and "
                "edge coordinates. Every case is non-trivial (each compares many real geometric answers with the model)")
    ctx.assumptions += [
        "probes are centres of cells one level below the deepest model level: strictly interior to every cell that "
        "contains them and at least half a probe cell away from every cell that does not (margin certificate)",
        "lines of constant u or v are great circles: a segment between two centres of one grid row crosses exactly the row's cells between them",
        "grid vertices shared by several cells are bit-identical floats (Cell.Vertex); Distance to a vertex on the boundary "
        "is not required to be exactly 0 (only non-touching vertices are required to be at positive distance)",
        "order relations between floats are compared directly with a slack of 5e-15 absolute error in the chord length "
        "(2*sqrt(x)*5e-15 on the squared chord x); 'within the documented error' of positive distances is NOT decided",
        "cross-face DistanceToCell == 0 is not predicted (only same-root pairs, where the uv rectangles share bit-identical bounds)",
        "the same model cases are embedded under every face of the root's parity (the tables depend on face % 2 only); "
        "RectBound/CapBound are evaluated for the cell with the same path on all six faces (own vertices, centre, 84 descendant centres)",
        "boundary-ulp class: points on a cell boundary st = k/2^level and up to 6 ulps beside it in u/v, normalised, "
        "nudged by up to 3 ulps per xyz coordinate and round-tripped through LatLng; the leaf is the one the library itself "
        "assigns (CellFromPoint), containment in the leaf and in its 30 ancestors is demanded (prefix relation; closed cells)",
        "long edge targets (95..175 degrees through / near the antipode of the cell centre): MaxDistanceToEdge is compared with "
        "the library's own point-to-edge and point-to-point distances of sampled cell points, and with 4 - DistanceToEdge(-a,-b)",
    ]
    runs = []
    L_top = 4
    # top embedding: one TLC run per parity, replayed under faces of that parity
    # (quick: the full depth for one parity under two of its faces, depth 2 for the other parity under
    # all three of its faces; the bounds of every model cell are evaluated on all six faces anyway)
    first = rnd.randrange(2)
    for parity in [first, 1 - first]:
        faces = [f for f in range(6) if f % 2 == parity]
        full = (not q) or parity == first
        if q and full:
            faces = rnd.sample(faces, 2)
        # the boundary-ulp class (all six faces, levels 1..30) rides on the first run
        ulp_n = (16 if q else 240) if parity == first else 0
        root, cases = _gen(ctx, L_top if full else 2, parity, [], 31 if q else 5, rnd.randrange(5), 5 if q else 1,
                           rnd.randrange(64), ulp_n, rnd.randrange(60000))
        for f in faces:
            runs += _cases(root, cases, f)
        runs += _ulp_cases(cases)
    # deep embeddings: a leaf-level anchor (model probes are real leaf cells) and mid-level anchors
    anchors = []
    Ld = 4
    anchors.append([rnd.randrange(4) for _ in range(30 - (Ld + 1))])
    for _ in range(1 if q else 4):
        anchors.append([rnd.randrange(4) for _ in range(rnd.randrange(1, 30 - (Ld + 1)))])
    if not q:
        # anchors in face corners and along face edges (paths of one repeated digit hug a corner)
        anchors.append([0] * 24)
        anchors.append([3] * 25)
        anchors.append([2] * 10)
    for path in anchors:
        face = rnd.randrange(6)
        root, cases = _gen(ctx, Ld, face, path, 61 if q else 9, rnd.randrange(9), 7 if q else 2, rnd.randrange(64))
        runs += _cases(root, cases, face)
    rnd.shuffle(runs)
    ctx.log("replay cases: %d" % len(runs))
    ctx.replay(runs, timeout=3000)
    # EXT: PaddedCell in the cell-grid world (spec/PaddedCells.tla)
    from checks import ext_structs
    ext_structs.run_paddedcell(ctx)
