"""C13, direction B: index updates recorded from real executions (the repository's own test suite
run with the verif tag, and a sample of the TLC histories replayed by the harness) validated
against spec/IndexBook.tla by spec/Trace_IndexBook.tla."""
import json
import os
import re
import subprocess
import vlib

INV = ["BTypeOK", "FreshMeansComplete", "UpdatedAndHeldIsIndexed", "LingeringIsQueued"]


def _env():
    e = dict(os.environ)
    e.update({"GOFLAGS": "-mod=mod", "GOPROXY": "off", "GOSUMDB": "off", "GOTOOLCHAIN": "local"})
    return e


def record_repo_tests(ctx, path):
    """Runs the library's own s2 tests with the tracer on.  The tests' own verdicts are not ours."""
    if os.path.exists(path):
        os.remove(path)
    e = _env()
    e["VERIF_INDEX_TRACE"] = path
    try:
        p = subprocess.run(["go", "test", "-tags", "verif", "-vet=off", "-count=1", "./s2"], cwd=ctx.repo, env=e,
                           capture_output=True, text=True, timeout=1500)
    except subprocess.TimeoutExpired:
        raise vlib.Infra("the repository's tests (verif tag) timed out")
    if "[build failed]" in (p.stdout + p.stderr) or not os.path.exists(path):
        raise vlib.Infra("the repository's tests do not build with the verif tag: %s" % (p.stdout + p.stderr)[-1500:])
    return p.returncode


def record_harness(ctx, cases, path, tag):
    if os.path.exists(path):
        os.remove(path)
    cp = ctx.write_cases("ixtrace-%s.ndjson" % tag, cases)
    out = cp + ".result.json"
    if os.path.exists(out):
        os.remove(out)
    p = ctx.run_harness(["replay", "--in", cp, "--out", out], timeout=1500, env_extra={"VERIF_INDEX_TRACE": path})
    # (a replay that reported hangs stops itself after writing its results: rc -9 with a result file)
    if not os.path.exists(path) or (p.returncode != 0 and not os.path.exists(out)):
        raise vlib.Infra("harness replay with index tracing failed rc=%s: %s" % (p.returncode, (p.stderr or "")[-1500:]))


def load_grouped(path, cap=None):
    ev = []
    for line in open(path):
        line = line.strip()
        if line:
            try:
                ev.append(json.loads(line))
            except ValueError:
                pass   # a line cut by the end of the process
    ev.sort(key=lambda e: e["ix"])   # stable: per-index order is the recorded order
    if cap and len(ev) > cap:
        last = ev[cap - 1]["ix"]
        ev = [e for e in ev[:cap + 64] if e["ix"] <= last]
    return ev


def sig(e):
    return json.dumps({k: e[k] for k in ("ev", "next", "pend", "fresh", "live", "hid", "idx", "nrem")}, sort_keys=True)


def validate(ctx, ev, tag):
    """Returns a list of (what, event, previous events of the same index) for the rejected lines."""
    found = []
    start = 0
    part = 0
    while start < len(ev) and len(found) < 4:
        part += 1
        path = os.path.join(ctx.scratch, "ixtrace-%s-v%d.ndjson" % (tag, part))
        with open(path, "w") as f:
            for e in ev[start:]:
                f.write(json.dumps(e) + "\n")
        c = ('INIT TraceInit\nNEXT TraceNext\nCONSTANT MaxID = 64\nCONSTANT TraceFile = "%s"\n' % path +
             "".join("INVARIANT %s\n" % i for i in INV))
        r = ctx.tlc("Trace_IndexBook", c, workers=1, deadlock=True, allow_violation=True, timeout=1200, heap="6g")
        if r.ok:
            break
        txt = "\n".join(r.lines)
        ls = re.findall(r"^/\\ l = (\d+)", txt, re.M)
        if not ls or not ("Deadlock reached" in txt or "is violated" in txt):
            raise vlib.Infra("index trace validation failed unexpectedly:\n" + "\n".join(r.lines[-25:]))
        pos = int(ls[-1])
        inv = re.findall(r"Invariant (\w+) is violated", txt)
        what = inv[0] if inv else "unexplained"
        # a violated invariant is reported in the state after the event was consumed
        k = start + pos - 1 - (1 if inv and pos > 1 else 0)
        k = min(max(k, 0), len(ev) - 1)
        e = ev[k]
        prev = [x for x in ev[max(0, k - 8):k] if x["ix"] == e["ix"]]
        found.append((what, e, prev))
        # continue after this index
        nxt = k + 1
        while nxt < len(ev) and ev[nxt]["ix"] == e["ix"]:
            nxt += 1
        start = nxt
    ctx.counters["index_trace_events_%s" % tag] = ctx.counters.get("index_trace_events_%s" % tag, 0) + len(ev)
    ctx.traces += len(ev)
    return found


def run(ctx, histories):
    q = ctx.quick()
    known = vlib.load_known(ctx.prop)
    sources = []
    repo_path = os.path.join(ctx.scratch, "ixtrace-repo.ndjson")
    sources.append(("repo-tests", lambda p=repo_path: (record_repo_tests(ctx, p), p)[1]))
    sample = [h for h in histories if h.get("op") in ("c13.index", "c13.loop")][:1500 if q else 12000]
    if sample:
        hp = os.path.join(ctx.scratch, "ixtrace-harness.ndjson")
        sources.append(("replayed-histories", lambda p=hp: (record_harness(ctx, sample, p, "h"), p)[1]))
    for name, rec in sources:
        path = rec()
        ev = load_grouped(path, cap=60000 if q else 600000)
        ctx.log("index trace %s: %d events of %d indexes" % (name, len(ev), len(set(e["ix"] for e in ev))))
        if not ev:
            raise vlib.Infra("no index events recorded from %s (tracer not active?)" % name)
        bad = validate(ctx, ev, name)
        for what, e, prev in bad:
            key = "c13/indextrace/%s/%s/%s" % (name, what, e["ev"])
            # confirm: record again in a fresh process and look for the same rejected observation
            path2 = rec()
            ev2 = load_grouped(path2, cap=60000 if q else 600000)
            bad2 = validate(ctx, ev2, name + "-confirm")
            if not any(w2 == what and sig(e2) == sig(e) for w2, e2, _ in bad2):
                ctx.unreproduced.append("rejected index observation not reproduced when recorded again: %s %s" % (what, sig(e)))
                continue
            detail = ("recorded index update is not a behaviour of IndexBook (%s): event %s after %s" %
                      ("no action explains it" if what == "unexplained" else "invariant " + what, sig(e), [sig(x) for x in prev][-3:]))
            case = {"op": "indextrace", "source": name, "what": what, "event": e, "previous": prev}
            if key in known:
                ctx.known_hits.append((key, known[key]))
            elif not any(v.key == key for v in ctx.violations):
                ctx.violations.append(vlib.Violation(key, detail, case))


def replay_case(ctx, case):
    """bin/check --replay of an indextrace violation: record the source again and look for the same rejected observation."""
    name = case["source"]
    if name == "repo-tests":
        path = os.path.join(ctx.scratch, "ixtrace-repo.ndjson")
        record_repo_tests(ctx, path)
    else:
        # the sample is derived from the TLC histories of a full run: regenerate them through the check itself
        from checks import c13
        hs = c13.histories(ctx)
        sample = [h for h in hs if h.get("op") in ("c13.index", "c13.loop")][:1500 if ctx.quick() else 12000]
        path = os.path.join(ctx.scratch, "ixtrace-harness.ndjson")
        record_harness(ctx, sample, path, "h")
    ev = load_grouped(path, cap=600000)
    bad = validate(ctx, ev, name + "-replay")
    return any(w == case["what"] and sig(e) == sig(case["event"]) for w, e, _ in bad)
