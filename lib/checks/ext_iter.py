"""EXT: iterators, the query priority queue and two Region wrappers.

  run_c06(ctx)   EdgeIterator over a ShapeIndex (spec/Iterators.tla, machine "iter"),
                 ShapeIndexRegion bounds (spec/Gen_IterRegions.tla, modes "sir" and "scene") and the
                 cell iterator ShapeIndexIterator (spec/IndexIter.tla; handler p_ext_ixiter.go)
  run_c08(ctx)   queryQueue of the distance queries with both distance flavours (Iterators.tla,
                 machines "queue" and "less")
  run_c05(ctx)   RegionUnion over cells, cell unions, points, nested unions and caps
                 (Gen_IterRegions.tla, mode "ru")

Handlers: harness/cmd/vcheck/p_ext_iter.go; hooks: /repo/s2/verif_hooks_iter.go.
Violation keys are prefixed ext/iter/, ext/queue/, ext/regionunion/, ext/shapeindexregion/."""
import json
import random

import vlib

ITER_INV = ["IterEnumerates", "PairSeqLaws", "QueueLaws", "DrainLaws"]
OPS = {"ext.iter": "ext/iter/run", "ext.queue": "ext/queue/run", "ext.less": "ext/queue/less",
       "ext.ru": "ext/regionunion/case", "ext.sir": "ext/shapeindexregion/cells",
       "ext.sirscene": "ext/shapeindexregion/scene", "ext.ixiter": "ext/ixiter/case"}


def _ops(cases):
    for c in cases:
        c["op"] = OPS[c["op"]]
    return cases


def _dedup(hs):
    uniq = {}
    for x in hs:
        uniq[json.dumps(x, sort_keys=True)] = x
    return list(uniq.values())


def _strset(xs):
    return "{" + ", ".join('"%s"' % x for x in xs) + "}"


def _iter_cfg(machines, kinds=("pv", "pl"), maxv=2, maxmut=3, maxiters=1, keys=(1, 3, 5), maxops=5, flavours=("min", "max")):
    return vlib.cfg(constants={"Machines": _strset(machines), "Kinds": _strset(kinds), "MaxV": maxv, "MaxMut": maxmut,
                               "MaxIters": maxiters, "Keys": set(keys), "MaxOps": maxops, "Flavours": _strset(flavours)},
                    invariants=ITER_INV)


# ---------------------------------------------------------------------------------- cell world helpers
def _cpf(L):
    return (4 ** (L + 1) - 1) // 3


def _idx(L, f, path):
    n = 0
    for d in path:
        n = 4 * n + d
    return f * _cpf(L) + (4 ** len(path) - 1) // 3 + n


def _rand_cell(rnd, L, faces, levels):
    lv = rnd.choice(levels)
    return _idx(L, rnd.choice(faces), [rnd.randrange(4) for _ in range(lv)])


def _regions_cfg(mode, L, NF, **kw):
    c = {"Mode": '"%s"' % mode, "L": L, "NF": NF, "PickCells": set(), "PickCaps": set(), "PickPts": set(), "PickU": set(),
         "PickN": set(), "MaxMembers": 0, "SirPool": set(), "MaxSir": 0, "G": 3, "SFaces": {0}, "XS": {0}, "YS": {0}, "MaxRects": 0}
    c.update(kw)
    return vlib.cfg(constants=c, invariants=["Laws", "Emit"])


# ---------------------------------------------------------------------------------- C06: EdgeIterator
def run_iter(ctx):
    q = ctx.quick()
    ctx.assumptions += [
        "edge iterator: the index is not modified while an iterator is in use; Edge/ShapeID/EdgeID are read only while Done() is false",
        "edge iterator: one call of Next after the end is made and only Done() is demanded of it",
    ]
    # exhaustive: every history of up to MaxMut index mutations followed by one complete iteration
    r = ctx.tlc("Iterators", _iter_cfg(["iter"], maxmut=3 if q else 4, maxv=2 if q else 3,
                                        kinds=("pv", "pl") if q else ("pv", "pl", "ll")), workers=6, timeout=1800, heap="6g")
    hs = r.tagged.get("HIST", [])
    if not q:
        # two iterations with mutations in between, and long random histories
        hs += ctx.tlc("Iterators", _iter_cfg(["iter"], maxmut=4, maxiters=2, kinds=("pv",)), workers=6, timeout=1800, heap="6g").tagged.get("HIST", [])
        hs += ctx.tlc("Iterators", _iter_cfg(["iter"], maxmut=12, maxiters=3, maxv=4, kinds=("pv", "pl", "ll")), workers=1,
                      simulate="num=1000", depth=80, seed=ctx.seed * 10 + 1).tagged.get("HIST", [])
    hs = _ops(_dedup(hs))
    ctx.log("edge iterator behaviours: %d" % len(hs))
    ctx.replay(hs, timeout=1800)


# ---------------------------------------------------------------------------------- C06: ShapeIndexRegion
def run_sir(ctx):
    q = ctx.quick()
    rnd = random.Random(ctx.seed * 7907 + 13)
    ctx.assumptions += [
        "shapeindexregion: CellUnionBound is compared as a set of cells with the construction its doc comment gives "
        "(one smallest covering cell per face, or per child of the smallest common cell); index cell sets are installed "
        "through the hook VerifIndexFromCells (pairwise disjoint cells, empty contents) - only the cell iterator is used",
        "shapeindexregion: on real indexes of grid rectangles the bounds are only required to cover the centres of the "
        "rectangles' cells and to respect the documented size (4 cells inside one face, else 6): index cells are padded, "
        "so the exact cell set is not predicted there",
    ]
    cases = []
    # (a) the function of the index cell set, top embedding over all six faces and deep embeddings
    L = 2 if q else 3
    faces = rnd.sample(range(6), 3)
    pool = set()
    d0 = rnd.randrange(4)                              # a family below one level-1 cell (one face, one child of it)
    for _ in range(4):
        pool.add(_idx(L, faces[0], [d0] + [rnd.randrange(4) for _ in range(rnd.choice([1, L - 1]))]))
    while len(pool) < (11 if q else 15):
        pool.add(_rand_cell(rnd, L, faces, [0, 1, 2, 2, L, L]))
    r = ctx.tlc("Gen_IterRegions", _regions_cfg("sir", L, 6, SirPool=pool, MaxSir=4), workers=6, timeout=1200)
    cases += r.tagged.get("CASE", [])
    if not q:
        for n in range(3):
            pool = set(rnd.sample(range(1, _cpf(4)), 14))
            r = ctx.tlc("Gen_IterRegions", _regions_cfg("sir", 4, 1, SirPool=pool, MaxSir=5), workers=6, timeout=1200)
            deep = r.tagged.get("CASE", [])
            alen = rnd.choice([26, 26, 10, 0])        # 26: model leaves are real leaf cells
            anchor = {"f": rnd.randrange(6), "p": [rnd.randrange(4) for _ in range(alen)]}
            for c in deep:
                c["anchor"] = anchor
            cases += deep
    else:
        pool = set(rnd.sample(range(1, _cpf(3)), 9))
        r = ctx.tlc("Gen_IterRegions", _regions_cfg("sir", 3, 1, SirPool=pool, MaxSir=4), workers=6, timeout=1200)
        deep = r.tagged.get("CASE", [])
        anchor = {"f": rnd.randrange(6), "p": [rnd.randrange(4) for _ in range(27)]}
        for c in deep:
            c["anchor"] = anchor
        cases += deep
    # (b) real indexes
    for G, nf, nx, maxr in ([(3, 2, 3, 2)] if q else [(3, 3, 3, 3), (4, 2, 4, 2), (2, 6, 3, 2), (5, 2, 3, 2)]):
        S = 1 << G
        xs = set(rnd.sample(range(1, S), nx - 1)) | {rnd.choice([0, S])}
        ys = set(rnd.sample(range(0, S + 1), nx))
        r = ctx.tlc("Gen_IterRegions", _regions_cfg("scene", 1, 1, G=G, SFaces=set(rnd.sample(range(6), nf)), XS=xs, YS=ys,
                                                    MaxRects=maxr), workers=6, timeout=1200)
        cases += r.tagged.get("CASE", [])
    cases = _ops(cases)
    rnd.shuffle(cases)
    ctx.log("ShapeIndexRegion cases: %d" % len(cases))
    ctx.replay(cases, timeout=1800)


# ---------------------------------------------------------------------------------- C06/C13: ShapeIndexIterator
def _ixiter_cfg(mode, L, NF, pool, maxcells, maxops=0):
    return vlib.cfg(next_="NextStep", constants={"Mode": '"%s"' % mode, "L": L, "NF": NF, "Pool": set(pool), "MaxCells": maxcells,
                                                 "MaxOps": maxops},
                    invariants=["TypeOK", "AlgoMeetsSpec", "LocateLaws"], properties=["PosMoves"])


def run_ixiter(ctx):
    """spec/IndexIter.tla: the cell iterator of a ShapeIndex (Begin/End/Next/Prev/LocatePoint/LocateCellID).
    TLC checks that the code's seek-and-compare algorithm equals the documented meaning on every antichain of the
    pool and every target of the model world, and emits every transition of the state graph (and random walks) as
    tests; the harness installs the cells with VerifIndexFromCells and reaches each pre-state by several routes."""
    q = ctx.quick()
    rnd = random.Random(ctx.seed * 3571 + 41)
    ctx.assumptions += [
        "index iterator: Next is called only while Done() is false; Prev/Next/CellID/Done are not used while the position is "
        "undefined (fresh iterator without start position, LocatePoint = false, LocateCellID = Disjoint)",
        "index iterator: the index is static; index cells are installed through the hook VerifIndexFromCells (pairwise disjoint "
        "cells with empty contents); LocatePoint targets are the centres of model leaves",
    ]
    cases = []

    def pool_for(L, NF, n, lvls):
        faces = rnd.sample(range(NF), min(NF, 3))
        pool = set()
        f0, d0 = faces[0], rnd.randrange(4)
        if L >= 2:      # neighbours on the curve below one parent: the seek lands between siblings
            for k in rnd.sample(range(4), 3):
                pool.add(_idx(L, f0, [d0, k]))
        pool.add(_idx(L, faces[-1], [3] * rnd.choice([1, L])))          # a last cell of a face
        pool.add(_idx(L, faces[0], [0] * rnd.choice([1, L])))           # a first cell of a face
        while len(pool) < n:
            pool.add(_rand_cell(rnd, L, faces, lvls))
        return pool

    # (a) top embedding: model roots are the six cube faces
    L, n, mc = (1, 8, 3) if q else (2, 10, 4)
    r = ctx.tlc("IndexIter", _ixiter_cfg("trans", L, 6, pool_for(L, 6, n, [0, 1, 1, L, L]), mc), workers=6, timeout=1800, heap="6g")
    cases += r.tagged.get("CASE", [])
    # (b) deep embedding: one root at level 30-L (model leaves are real leaf cells) or higher up
    for rep in range(1 if q else 3):
        L = 3
        r = ctx.tlc("IndexIter", _ixiter_cfg("trans", L, 1, pool_for(L, 1, 8 if q else 10, [1, 2, 2, 3, 3]), 3 if q else 4),
                    workers=6, timeout=1800, heap="6g")
        deep = r.tagged.get("CASE", [])
        alen = 27 if rep == 0 else rnd.choice([27, 12, 3, 0])
        anchor = {"f": rnd.randrange(6), "p": [rnd.randrange(4) for _ in range(alen)]}
        for c in deep:
            c["anchor"] = anchor
        cases += deep
    # (c) long behaviours from a fresh iterator
    for L, NF in ([(2, 2)] if q else [(2, 2), (2, 6), (3, 1)]):
        r = ctx.tlc("IndexIter", _ixiter_cfg("walk", L, NF, pool_for(L, NF, 8, [0, 1, 2, 2]), 4, maxops=12 if q else 30),
                    workers=1, simulate="num=%d" % (150 if q else 1500), depth=40, seed=ctx.seed * 10 + 3)
        walks = r.tagged.get("CASE", [])
        if NF == 1:
            anchor = {"f": rnd.randrange(6), "p": [rnd.randrange(4) for _ in range(27)]}
            for c in walks:
                c["anchor"] = anchor
        cases += walks
    cases = _ops(_dedup(cases))
    rnd.shuffle(cases)
    ctx.log("index iterator cases: %d" % len(cases))
    ctx.replay(cases, timeout=1800)
    if cases and ctx.counters.get("ixiter_trans_several-cells", 0) == 0:
        raise vlib.Infra("no index iterator transition on an index of several cells was replayed")


def run_c06(ctx):
    run_iter(ctx)
    run_sir(ctx)
    run_ixiter(ctx)


# ---------------------------------------------------------------------------------- C08: queryQueue
def run_c08(ctx):
    q = ctx.quick()
    rnd = random.Random(ctx.seed * 6151 + 3)
    ctx.assumptions += [
        "query queue: pop is called on a non-empty queue only; among entries with equal distance any may be returned "
        "(the replay follows the branch of the model the real queue takes)",
        "query queue: chord angles are the ranks -1 < 0 < 1/4 < 1 < 2 < 4 < +Inf of the model (exact floats)",
    ]
    keys = sorted(rnd.sample(range(0, 7), 3))
    r = ctx.tlc("Iterators", _iter_cfg(["queue", "less"], keys=keys, maxops=5 if q else 7), workers=6, timeout=1800, heap="6g")
    hs = r.tagged.get("HIST", [])
    # longer queues (the heap has several levels): random walks
    hs += ctx.tlc("Iterators", _iter_cfg(["queue"], keys=range(0, 7), maxops=14 if q else 24), workers=1,
                  simulate="num=%d" % (300 if q else 1500), depth=40, seed=ctx.seed * 10 + 2).tagged.get("HIST", [])
    hs = _ops(_dedup(hs))
    rnd.shuffle(hs)
    ctx.log("query queue behaviours: %d" % len(hs))
    ctx.replay(hs, timeout=1800)


# ---------------------------------------------------------------------------------- C05: RegionUnion
def run_c05(ctx):
    q = ctx.quick()
    rnd = random.Random(ctx.seed * 4993 + 29)
    ctx.assumptions += [
        "regionunion: a cap member is twice the bounding cap of a cell a; it is predicted to contain a (and what a contains), "
        "to be disjoint from the cube face opposite to a, and is not predicted elsewhere; probe points are centres of model leaves",
        "regionunion: bounds are only required to contain the centres of the leaves inside members (margin of half a leaf)",
    ]
    cases = []
    for L, rounds in ([(2, 1)] if q else [(2, 3), (3, 2)]):
        for _ in range(rounds):
            faces = list(range(6))
            near = rnd.sample(faces, 2)
            cells = {_rand_cell(rnd, L, near, [0, 1, 1, 2, 2]) for _ in range(3)} | {_rand_cell(rnd, L, faces, range(L + 1))}
            caps = {_rand_cell(rnd, L, near, [0, 1, 2]), _rand_cell(rnd, L, faces, [1, 2])}
            pts = {_rand_cell(rnd, L, near, [L])}
            f, d = rnd.choice(near), rnd.randrange(4)
            pu = {_idx(L, f, [d, k]) for k in range(4)} | {_rand_cell(rnd, L, faces, [1, 2])}     # four siblings and one more cell
            pn = {_rand_cell(rnd, L, near, [1, 2]), _rand_cell(rnd, L, faces, [0, 1, 2])}
            r = ctx.tlc("Gen_IterRegions", _regions_cfg("ru", L, 6, PickCells=cells, PickCaps=caps, PickPts=pts, PickU=pu, PickN=pn,
                                                        MaxMembers=3), workers=6, timeout=1800, heap="6g")
            cases += r.tagged.get("CASE", [])
    cases = _ops(cases)
    ctx.log("RegionUnion cases: %d" % len(cases))
    ctx.replay(cases, timeout=1800)
    if ctx.counters.get("ru_predictions", 0) == 0 and cases:
        raise vlib.Infra("no RegionUnion answer was predicted")


def run(ctx):
    run_c06(ctx)
    run_c08(ctx)
    run_c05(ctx)
