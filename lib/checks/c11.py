"""C11: cell-union algebra is exact set algebra on leaf cells; CellIndex range/contents
iteration; s2intersect.Find.

TLC (CellUnions.tla / CellIndex.tla through Gen_CellUnions / Gen_CellIndex) enumerates
multisets of cells, pairs and tuples of them, leaf ranges, small cell indexes and iterator
call sequences, and computes every expected result from the leaf-set semantics.  The Go
harness (p_c11.go) embeds each case at the top of the hierarchy and deep down (model leaves
= real leaf cells) and demands exact equality."""
import itertools
import json
import math
import random

import vlib
from checks import ext_cells

LEVEL = "model_checking"


# ---- cell indices (mirror of CellUnions!Idx; used only to choose WHAT to enumerate) ----
def cpf(L):
    return (4 ** (L + 1) - 1) // 3


def idx(L, f, path):
    k = 0
    for d in path:
        k = 4 * k + d
    return f * cpf(L) + (4 ** len(path) - 1) // 3 + k


def all_cells(L, faces):
    out = []
    for f in faces:
        for l in range(L + 1):
            for k in range(4 ** l):
                path = [(k >> (2 * (l - 1 - i))) & 3 for i in range(l)]
                out.append((f, tuple(path)))
    return out


def subtree(L, f, path):
    out = []
    for l in range(len(path), L + 1):
        ext = l - len(path)
        for k in range(4 ** ext):
            out.append((f, tuple(path) + tuple((k >> (2 * (ext - 1 - i))) & 3 for i in range(ext))))
    return out


def cascade_pool(L, f, rnd):
    """Cells whose subsets produce sibling merges cascading up to the face."""
    y = [rnd.randrange(4) for _ in range(L - 1)]
    pool = set()
    pool.update((f, tuple(y) + (d,)) for d in range(4))
    for l in range(len(y), 0, -1):
        a = y[:l]
        pool.update((f, tuple(a[:-1]) + (d,)) for d in range(4))
    pool.add((f, ()))
    return pool


def confusable_index_sets(NU):
    """Groups of distinct sets of union indices (size 2..3, below NU) whose sorted decimal
    renderings coincide once separators are ignored, e.g. {1,2,13} / {12,13}."""
    by = {}
    for n in (2, 3):
        for s in itertools.combinations(range(NU), n):
            by.setdefault("".join(str(x) for x in s), []).append(s)
    return [g for k, g in sorted(by.items()) if len(g) >= 2]


def ids(L, cells):
    return set(idx(L, f, p) for f, p in cells)


class Gen:
    def __init__(self, ctx):
        self.ctx = ctx
        self.n = 0

    def seeded(self, cases):
        for c in cases:
            self.n += 1
            c["seed"] = self.ctx.seed * 1000003 + self.n
        return cases

    def cu(self, L, NF, NU, K, first, poolA, poolB=(), poolC=(), with_empty=True, strict=False, percell=False,
           invariants=(), simulate=None, simlen=0, seed=None, workers=10, timeout=900):
        consts = {"L": L, "NF": NF, "NU": NU, "K": K, "First": set(first), "WithEmpty": with_empty,
                  "PoolA": set(poolA), "PoolB": set(poolB), "PoolC": set(poolC), "Strict": strict,
                  "PerCell": percell, "SimLen": simlen, "IdxSets": set(), "RegionPool": set(), "Fillers": set(),
                  "Bare": set()}
        if simulate:
            cfg = vlib.cfg(init="InitS", next_="NextS", constants=consts)
            r = self.ctx.tlc("Gen_CellUnions", cfg, workers=1, simulate="num=%d" % simulate, depth=simlen + 2,
                             seed=seed, timeout=timeout)
            cases = r.tagged.get("CASE", [])
            cases = [json.loads(x) for x in sorted(set(json.dumps(c, sort_keys=True) for c in cases))]
        else:
            cfg = vlib.cfg(constants=consts, invariants=list(invariants) + ["Emit"])
            r = self.ctx.tlc("Gen_CellUnions", cfg, workers=workers, timeout=timeout, heap="8g")
            cases = r.tagged.get("CASE", [])
        return self.seeded(cases)

    def ranges(self, L, NF):
        consts = {"L": L, "NF": NF, "NU": 1, "K": 0, "First": set(), "WithEmpty": False, "PoolA": set(),
                  "PoolB": set(), "PoolC": set(), "Strict": False, "PerCell": False, "SimLen": 0,
                  "IdxSets": set(), "RegionPool": set(), "Fillers": set(), "Bare": set()}
        cfg = vlib.cfg(init="InitR", next_="NextR", constants=consts, invariants=["RangeTheorem", "EmitR"])
        r = self.ctx.tlc("Gen_CellUnions", cfg, workers=8)
        return self.seeded(r.tagged.get("CASE", []))

    def many(self, L, NF, NU, idxsets, regions, fillers, bare=()):
        """Find with NU >= 14 unions: single-cell unions plus two shared regions at index sets from idxsets."""
        consts = {"L": L, "NF": NF, "NU": NU, "K": 0, "First": set(), "WithEmpty": False, "PoolA": set(),
                  "PoolB": set(), "PoolC": set(), "Strict": False, "PerCell": False, "SimLen": 0,
                  "IdxSets": "{" + ", ".join("{" + ", ".join(str(x) for x in sorted(g)) + "}" for g in idxsets) + "}",
                  "RegionPool": set(regions), "Fillers": set(fillers), "Bare": set(bare)}
        cfg = vlib.cfg(init="InitM", next_="NextM", constants=consts, invariants=["ManyTheorem", "Emit"])
        r = self.ctx.tlc("Gen_CellUnions", cfg, workers=8, timeout=900)
        return self.seeded(r.tagged.get("CASE", []))

    def index(self, L, NF, lo, hi, given, NL, maxlen, nes=(True, False), mode="static", simulate=None, depth=None,
              seed=None, invariants=(), workers=8, timeout=900, seeks=()):
        consts = {"L": L, "NF": NF, "LoAtBegin": lo, "HiAtEnd": hi, "MaxLen": maxlen, "NL": NL, "SeekSet": set(seeks),
                  "NEs": set(nes), "Given": "{" + ", ".join("{" + ", ".join(str(x) for x in sorted(g)) + "}" for g in given) + "}"}
        if mode == "static":
            cfg = vlib.cfg(init="Init", next_="NoStep", constants=consts, invariants=["BuildTheorem", "EmitIndex"])
            r = self.ctx.tlc("Gen_CellIndex", cfg, workers=1, timeout=timeout)
            return self.seeded(r.tagged.get("CASE", []))
        cfg = vlib.cfg(init="Init", next_="GNext", constants=consts, invariants=list(invariants))
        if simulate:
            r = self.ctx.tlc("Gen_CellIndex", cfg, workers=1, simulate="num=%d" % simulate, depth=depth, seed=seed,
                             timeout=timeout)
        else:
            r = self.ctx.tlc("Gen_CellIndex", cfg, workers=workers, timeout=timeout, heap="8g")
        hist = r.tagged.get("HIST", [])
        hist = [json.loads(x) for x in sorted(set(json.dumps(c, sort_keys=True) for c in hist))]
        return self.seeded(hist)


def pair_codes(L, NL, cells_labels):
    """Encode a multiset of (cell index, label) as the integer set Gen_CellIndex expects."""
    out = set()
    cnt = {}
    for c, l in cells_labels:
        k = cnt.get((c, l), 0)
        cnt[(c, l)] = k + 1
        out.add((c * NL + l) * 4 + min(k, 3))
    return frozenset(out)


def random_index(L, NF, NL, rnd, n):
    """A small index with nesting, duplicates and abutting cells."""
    faces = list(range(NF))
    f = rnd.choice(faces)
    top = [rnd.randrange(4)] if L >= 2 and rnd.random() < 0.7 else []
    pool = subtree(L, f, top) + [(f, ())] + [(g, ()) for g in faces] + [(rnd.choice(faces), (rnd.randrange(4),))]
    chosen = []
    for _ in range(n):
        if chosen and rnd.random() < 0.25:
            c = rnd.choice(chosen)[0]       # same cell again (other or same label)
        else:
            c = rnd.choice(pool)
        chosen.append((c, rnd.randrange(NL)))
    return pair_codes(L, NL, [(idx(L, c[0], c[1]), l) for c, l in chosen])


def run(ctx):
    rnd = random.Random(ctx.seed)
    q = ctx.quick()
    g = Gen(ctx)
    ctx.rule = ("cases are multisets of cells of a depth-2/3 tree on 1-6 roots (pairs, triples, leaf ranges, cell indexes "
                "and iterator call sequences) enumerated by TLC; a case is non-trivial when the input is not already "
                "normalized (cu1), the two unions overlap without being equal (cu2), an overlap of >= 2 unions exists "
                "(cufind), the tiling has > 1 cell (curange), the index has > 2 ranges (cindex); every iterator "
                "behaviour is non-trivial")
    ctx.assumptions += [
        "binary operations (intersection, difference, Contains, Intersects, cell membership) are given normalized operands, "
        "as the C++ original requires; Normalize, CellUnionFromUnion and s2intersect.Find receive raw multisets",
        "cells are embedded by bit arithmetic on the documented id layout (emb.RawID/Under), not through the code under test",
        "Denormalize is specified for levelMod 1..3 (the range RegionCoverer allows); the spec proves the code's modular "
        "arithmetic equals the documented rule there",
        "Seek(target) is specified as 'the range containing target' (the C++ contract), non-empty variant: first non-empty range at or after it",
        "Find entries with an empty cell union are ignored (an empty overlap is the empty set)",
        "ExpandAtLevel / ExpandByRadius are not covered (need the neighbour relation of Cells.tla)",
    ]
    L2 = all_cells(2, [0, 1])
    all2 = ids(2, L2)
    face0 = ids(2, all_cells(2, [0]))

    def pick(s, n):
        s = sorted(s)
        return set(s) if n >= len(s) else set(rnd.sample(s, n))

    def pick_budget(pool, K, budget):
        """First cells (= smallest index of the multiset) whose partitions hold about `budget` cases."""
        pool = sorted(pool)
        order = pool[:]
        rnd.shuffle(order)
        out, total = set(), 0
        for c in order:
            n = len([x for x in pool if x >= c])
            size = sum(math.comb(n + k - 2, k - 1) for k in range(1, K + 1))
            if total + size <= budget:
                out.add(c)
                total += size
        return out or {pool[-1]}

    # ---- 1. single unions: Normalize, predicates, leaf count, Denormalize, per-cell queries
    cases = g.cu(2, 2, 1, 3, pick_budget(all2, 3, 1500) if q else all2, all2, percell=True,
                 invariants=["NormalForm"] + ([] if q else ["InterCellLaws", "DenormTheorem"]))
    ctx.replay(cases)
    cases = g.cu(2, 2, 1, 4, pick_budget(all2, 4, 8000) if q else all2, all2, with_empty=False, invariants=["NormalForm"])
    ctx.replay(cases, timeout=1800)
    # cascading sibling merges: all subsets of a pool holding complete sibling groups at every level
    for i in range((1 if ctx.seed % 2 else 0) if q else 5):
        L = 3
        pool = cascade_pool(L, 0, rnd) | set(rnd.sample(all_cells(L, [1]), 1))
        percell = (i == 0 and not q)
        if q or percell:
            pool = set(sorted(pool)[:1]) | set(rnd.sample(sorted(pool), 11 if q else 10))
        p = ids(L, pool)
        cases = g.cu(L, 2, 1, len(p), p, p, strict=True, percell=percell, invariants=["NormalForm"])
        ctx.replay(cases, timeout=1800)
    # the whole sphere: subsets of the six faces and some of their children
    if not q or ctx.seed % 2 == 0:
        c6 = all_cells(1, range(6))
        p = ids(1, [c for c in c6 if not c[1]] + [(5, (d,)) for d in range(4)] + rnd.sample([c for c in c6 if c[1] and c[0] < 5], 2))
        ctx.replay(g.cu(1, 6, 1, len(p), p, p, strict=True, percell=True, invariants=["NormalForm"]))
    # ---- 2. pairs: union, intersection (lowerBound skipping), difference recursion, Contains/Intersects/Equal
    cases = g.cu(2, 1, 2, 2, pick_budget(face0, 2, 30) if q else face0, face0, poolB=face0, with_empty=not q,
                 invariants=[] if q else ["PairLaws"])
    ctx.replay(cases)
    if not q:
        cases = g.cu(2, 1, 2, 3, pick(face0, 7), pick(face0, 14) | {0}, poolB=pick(face0, 12) | {0}, invariants=[])
        ctx.replay(cases, timeout=1800)
        c1 = ids(1, all_cells(1, [0, 1]))
        ctx.replay(g.cu(1, 2, 2, 3, c1, c1, poolB=c1, invariants=["PairLaws"]))
    # many-cell operands: subsets of two pools inside one subtree (cells nested in / straddling the other union's cells)
    for i in range(1 if q else 5):
        L = 3
        f = rnd.randrange(2)
        t = subtree(L, f, [rnd.randrange(4)])
        casc = sorted(cascade_pool(L, f, rnd))
        n = 6 if q else 7
        pa = ids(L, rnd.sample(t, n - 2) + rnd.sample(casc, 2))
        pb = ids(L, rnd.sample(t, n - 3) + rnd.sample(casc, 2) + [(1 - f, ())])
        cases = g.cu(L, 2, 2, n, pa, pa, poolB=pb, strict=True)
        ctx.replay(cases)
    # random larger operands at depth 3
    for i in range(1 if q else 4):
        L = 3
        t = subtree(L, 0, [rnd.randrange(4)]) + subtree(L, 1, [rnd.randrange(4), rnd.randrange(4)]) + [(0, ()), (1, ())]
        p = ids(L, t)
        cases = g.cu(L, 2, 2, 99, p, p, poolB=p, simulate=(400 if q else 2500), simlen=rnd.choice([8, 12, 16]),
                     seed=ctx.seed * 100 + i)
        ctx.replay(cases)
    # ---- 3. multi-way overlaps (s2intersect.Find)
    pool = pick(face0, 4 if q else 8) | {0}
    cases = g.cu(2, 1, 3, 2, pool, pool, poolB=pool, poolC=pool, invariants=["FindLaws"])
    ctx.replay(cases)
    for i in range(1 if q else 3):
        L = 3
        t = subtree(L, 0, [rnd.randrange(4)]) + [(0, ()), (1, ()), (1, (2,))]
        p = ids(L, t)
        cases = g.cu(L, 2, 4, 99, p, p, poolB=p, poolC=p, simulate=(200 if q else 2000), simlen=rnd.choice([8, 12]),
                     seed=ctx.seed * 100 + 50 + i)
        ctx.replay(cases)
    # many unions: index sets of the overlaps that are easy to confuse when rendered as text (14..24 unions),
    # and indices around the machine-word boundaries 64 and 128 (65..130 unions)
    small = [rnd.randrange(14, 25)] if q else [14, 24, rnd.randrange(15, 24)]
    large = [rnd.choice([65, 66, 70, 129, 130])] if q else [63, 64, 65, 66, 70, 128, 129, 130]
    for NU in small + large:
        L = 3
        NF = 2 if NU <= 24 else 3
        groups = confusable_index_sets(min(NU, 24))
        chosen = rnd.sample(groups, min(len(groups), 3 if q else 8) if NU <= 24 else 1)
        idxsets = set(frozenset(s) for grp in chosen for s in grp)
        idxsets.add(frozenset(rnd.sample(range(NU), rnd.randrange(2, 5))))
        if NU > 24:
            edge = [(7, 66), (64, 65), (67, 69), (62, 63), (63, 64), (0, 64), (1, 63, 65), (31, 32), (127, 128),
                    (128, 129), (5, 129), (64, 128), (NU - 2, NU - 1), (0, NU - 1)]
            edge = [e for e in edge if max(e) < NU]
            idxsets.update(frozenset(e) for e in rnd.sample(edge, min(len(edge), 5 if q else 8)))
            idxsets.add(frozenset(rnd.sample(range(max(0, NU - 8), NU), 3)))
        top = rnd.randrange(4)
        regions = ids(L, rnd.sample(subtree(L, 0, [top]), 3 if q or NU > 24 else 5) + [(0, ((top + 1) % 4,))])
        leaves = [c for f in range(1, NF) for c in subtree(L, f, []) if len(c[1]) == L]
        nbare = max(2, NU - len(leaves) + rnd.randrange(0, 3))
        bare = set(rnd.sample(range(NU), nbare))
        fillers = ids(L, rnd.sample(leaves, NU - nbare))
        cases = g.many(L, NF, NU, idxsets, regions, fillers, bare)
        ctx.replay(cases)
    # ---- 4. minimal tilings of leaf ranges, MaxTile
    if q:
        ctx.replay(g.ranges(*rnd.choice([(2, 2), (1, 6), (2, 1), (1, 3)])))
    else:
        for (l, nf) in [(2, 2), (1, 6), (3, 2), (2, 3), (3, 1)]:
            ctx.replay(g.ranges(l, nf))
    # ---- 5. CellIndex
    flagsets = [(False, False), (True, False), (False, True)]
    if q:
        flagsets = [rnd.choice(flagsets)]
    static, hist = [], []
    inv = ["TypeOK", "NonEmptyLaw", "AtLeastOnce", "ExactlyOnce"]

    def seeks(n, k):
        return set(rnd.sample(range(0, n + 2), k))      # target + 1

    for (lo, hi) in flagsets:
        L, NF, NL = 2, 2, 2
        n = NF * 4 ** L
        given = {frozenset()} | {random_index(L, NF, NL, rnd, rnd.randrange(1, 7)) for _ in range(25 if q else 300)}
        static += g.index(L, NF, lo, hi, given, NL, 0)
        small = sorted(given, key=lambda s: (len(s), sorted(s)))
        # model-level: the theorems over ALL call sequences (no history), a few indexes
        g.index(L, NF, lo, hi, rnd.sample(small, 3 if q else 12), NL, 0, mode="explore", seeks=seeks(n, 6),
                invariants=["TypeOK", "ExactlyOnce", "CutoffSound"], workers=10)
        # behaviours: random walks of 14 calls
        for j in range(1 if q else 4):
            hist += g.index(L, NF, lo, hi, rnd.sample(small, 12 if q else 40), NL, 14, mode="sim", seeks=seeks(n, 5),
                            simulate=(150 if q else 1500), depth=16, seed=ctx.seed * 100 + 70 + len(hist) % 17,
                            invariants=inv)
        if not q:
            # all behaviours of 3 calls on two indexes
            hist += g.index(L, NF, lo, hi, rnd.sample(small, 2), NL, 3, mode="bfs", nes=(rnd.random() < 0.5,),
                            seeks=seeks(n, 4), invariants=inv, workers=10)
    # the whole curve: six faces, both ends of the curve are model positions
    L, NF, NL = 1, 6, 2
    given = {frozenset()} | {random_index(L, NF, NL, rnd, rnd.randrange(1, 6)) for _ in range(15 if q else 150)}
    static += g.index(L, NF, True, True, given, NL, 0)
    hist += g.index(L, NF, True, True, rnd.sample(sorted(given, key=sorted), 8 if q else 40), NL, 12, mode="sim",
                    seeks=seeks(24, 5), simulate=(100 if q else 2000), depth=14, seed=ctx.seed * 100 + 90, invariants=inv)
    ctx.log("cell index: %d static cases, %d iterator behaviours" % (len(static), len(hist)))
    ctx.replay(static)
    ctx.replay(hist)
    ctx.exhaustive = (not q)
    ext_cells.run_expand(ctx)
