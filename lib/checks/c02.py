"""C02: orientation and distance predicates = sign of the exact quantity."""
import json
import os
import random
import re
import vlib

SIGN_TRACE_INV = ["TriageNeverWrong", "StableNeverWrong", "PerturbOnlyBreaksTies", "PerturbNonZero", "ResultIsFirstNonZero",
                  "RotationInvariant", "SwapNegates", "ZeroIffEqual", "CosNeverWrong", "Sin2NeverWrong", "DistResult",
                  "DistAntiSym", "DistZeroIffEqual", "CosZeroOnTie", "DotTriageNeverWrong", "DotResult"]


def validate_sign_trace(ctx, path):
    c = 'INIT Init\nNEXT Next\nCONSTANT TraceFile = "%s"\n' % path + "".join("INVARIANT %s\n" % i for i in SIGN_TRACE_INV)
    r = ctx.tlc("Trace_SignPipeline", c, workers=1, allow_violation=True, timeout=900, heap="6g")
    if r.ok:
        return None
    txt = "\n".join(r.lines)
    inv = re.findall(r"Invariant (\w+) is violated", txt)
    ls = re.findall(r"^l = (\d+)|^/\\ l = (\d+)", txt, re.M)
    if not inv or not ls:
        raise vlib.Infra("sign trace validation failed unexpectedly:\n" + "\n".join(r.lines[-20:]))
    pos = int([x for x in ls[-1] if x][0])
    return inv[0], pos


def trace_direction(ctx):
    """Direction B: stage outcomes on adversarial floats, validated by Trace_SignPipeline.tla."""
    n = 4000 if ctx.quick() else 60000
    path = os.path.join(ctx.scratch, "signtrace.ndjson")
    p = ctx.run_harness(["record", "sign", "--seed", str(ctx.seed), "--n", str(n), "--out", path], timeout=1200)
    if p.returncode != 0:
        raise vlib.Infra("record sign failed: " + (p.stderr or "")[-2000:])
    events = sum(1 for _ in open(path))
    bad = validate_sign_trace(ctx, path)
    ctx.evaluations += events
    ctx.traces += events
    ctx.counters["float_trace_events"] = events
    if bad:
        inv, pos = bad
        ev = open(path).read().splitlines()[pos - 1]
        # confirm: re-record this single input in a fresh process and validate it alone
        single = os.path.join(ctx.scratch, "signtrace1.ndjson")
        ctx.run_harness(["record", "sign", "--from", path, "--line", str(pos), "--out", single])
        again = validate_sign_trace(ctx, single)
        if not again:
            raise vlib.Infra("rejected trace event not reproduced: " + ev)
        key = "signtrace/" + again[0]
        known = vlib.load_known(ctx.prop)
        if key in known:
            ctx.known_hits.append((key, known[key]))
        else:
            ctx.violations.append(vlib.Violation(key, "recorded stage outcomes violate %s: %s" % (again[0], ev),
                                                 {"op": "signtrace", "event": json.loads(ev)}))

LEVEL = "model_checking"


def run(ctx):
    rnd = random.Random(ctx.seed)
    ctx.rule = ("TLC enumerates ordered triples/pairs of integer lattice points (W1); a case is "
                "non-trivial when the exact determinant is 0 with distinct points (decided by the "
                "symbolic perturbation) or when two distances tie exactly")
    ctx.assumptions += [
        "lattice points embedded as exact dyadic floats (p*2^e per column) or as normalised unit vectors",
        "on the unit embedding an answer is predicted only with an integer certificate (non-zero determinant / strict inequality)",
        "sufficiency of the floating-point error constants is only searched, not proved",
    ]
    all26 = set(range(1, 27))
    trace_direction(ctx)
    # 1. N=1: all 17,576 ordered triples, model theorems + replay
    r = ctx.tlc("Gen_Sign", vlib.cfg(constants={"N": 1, "SubIdx": all26, "EmitAll": True},
                                     invariants=["TableEqualsSoS", "Rotation", "AntiSym", "ZeroIffEqual", "DetSign", "SemanticEqualsOracle", "Emit"]),
                workers=8)
    cases = r.tagged.get("CASE", [])
    if len(cases) != 26 ** 3:
        raise vlib.Infra("expected 17576 sign cases, got %d" % len(cases))
    ctx.replay(cases)
    # 2. N=2..4: seed-chosen sub-lattices
    plan = [(2, 14 if ctx.quick() else 30), (3, 10 if ctx.quick() else 24), (4, 8 if ctx.quick() else 20)]
    reps = 1 if ctx.quick() else 3
    for n, size in plan:
        total = (2 * n + 1) ** 3 - 1
        for _ in range(reps):
            sub = set(rnd.sample(range(1, total + 1), size))
            r = ctx.tlc("Gen_Sign", vlib.cfg(constants={"N": n, "SubIdx": sub, "EmitAll": False},
                                             invariants=["TableEqualsSoS", "Rotation", "AntiSym", "ZeroIffEqual", "DetSign", "SemanticEqualsOracle", "Emit"]),
                        workers=8)
            ctx.replay(r.tagged.get("CASE", []))
    # 3. distances
    r = ctx.tlc("Gen_Dist", vlib.cfg(constants={"N": 1, "SubIdx": all26},
                                     invariants=["AntiSym", "NonZero", "SelfClosest", "ChordEnds", "Emit"]), workers=8)
    ctx.replay(r.tagged.get("CASE", []))
    for n, size in [(2, 12 if ctx.quick() else 26), (3, 8 if ctx.quick() else 20)]:
        total = (2 * n + 1) ** 3 - 1
        for _ in range(reps):
            sub = set(rnd.sample(range(1, total + 1), size))
            r = ctx.tlc("Gen_Dist", vlib.cfg(constants={"N": n, "SubIdx": sub},
                                             invariants=["AntiSym", "NonZero", "SelfClosest", "ChordEnds", "Emit"]), workers=8)
            ctx.replay(r.tagged.get("CASE", []))
