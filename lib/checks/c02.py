"""C02: orientation and distance predicates = sign of the exact quantity."""
import json
import os
import random
import re
import vlib

SIGN_TRACE_INV = ["TriageNeverWrong", "StableNeverWrong", "PerturbOnlyBreaksTies", "PerturbNonZero", "ResultIsFirstNonZero",
                  "RotationInvariant", "SwapNegates", "ZeroIffEqual", "CosNeverWrong", "Sin2NeverWrong", "DistResult",
                  "DistAntiSym", "DistZeroIffEqual", "CosZeroOnTie", "DotTriageNeverWrong", "DotResult"]


def run(ctx):
    rnd = random.Random(ctx.seed)
    ctx.rule = ("TLC enumerates ordered triples/pairs of integer lattice points (W1); a case is "
                "non-trivial when the exact determinant is 0 with distinct points (decided by the "
                "symbolic perturbation) or when two distances tie exactly")
    ctx.assumptions += [
        "lattice points embedded as exact dyadic floats (p*2^e per column) or as normalised unit vectors",
        "on the unit embedding an answer is predicted only with an integer certificate (non-zero determinant / strict inequality)",
        "sufficiency of the floating-point error constants is only searched, not proved",
    ]
    all26 = set(range(1, 27))
    ctx.trace_direction("sign", "Trace_SignPipeline", SIGN_TRACE_INV, 12000 if ctx.quick() else 120000, "signtrace")
    # 1. N=1: all 17,576 ordered triples, model theorems + replay
    r = ctx.tlc("Gen_Sign", vlib.cfg(constants={"N": 1, "SubIdx": all26, "EmitAll": True},
                                     invariants=["TableEqualsSoS", "Rotation", "AntiSym", "ZeroIffEqual", "DetSign", "SemanticEqualsOracle", "Emit"]),
                workers=8)
    cases = r.tagged.get("CASE", [])
    if len(cases) != 26 ** 3:
        raise vlib.Infra("expected 17576 sign cases, got %d" % len(cases))
    ctx.replay(cases)
    # 2. N=2..4: seed-chosen sub-lattices
    plan = [(2, 14 if ctx.quick() else 30), (3, 10 if ctx.quick() else 24), (4, 8 if ctx.quick() else 20)]
    reps = 1 if ctx.quick() else 3
    for n, size in plan:
        total = (2 * n + 1) ** 3 - 1
        for _ in range(reps):
            sub = set(rnd.sample(range(1, total + 1), size))
            r = ctx.tlc("Gen_Sign", vlib.cfg(constants={"N": n, "SubIdx": sub, "EmitAll": False},
                                             invariants=["TableEqualsSoS", "Rotation", "AntiSym", "ZeroIffEqual", "DetSign", "SemanticEqualsOracle", "Emit"]),
                        workers=8)
            ctx.replay(r.tagged.get("CASE", []))
    # 2a. N=2: every lattice point of one plane through the origin.  All triples are coplanar with the
    # origin, many pairs are proportional: the deep rows of the symbolic perturbation decide.
    pts2 = sorted((x, y, z) for x in range(-2, 3) for y in range(-2, 3) for z in range(-2, 3) if (x, y, z) != (0, 0, 0))
    planes = [lambda q: q[0] == 0, lambda q: q[1] == 0, lambda q: q[2] == 0,
              lambda q: q[0] == q[1], lambda q: q[1] == q[2], lambda q: q[0] == q[2],
              lambda q: q[0] == -q[1], lambda q: q[1] == -q[2], lambda q: q[0] == -q[2]]
    chosen = planes[:3] if ctx.quick() else planes
    for pl in chosen:
        sub = {i + 1 for i, q in enumerate(pts2) if pl(q)}
        r = ctx.tlc("Gen_Sign", vlib.cfg(constants={"N": 2, "SubIdx": sub, "EmitAll": False},
                                         invariants=["TableEqualsSoS", "Rotation", "AntiSym", "ZeroIffEqual", "DetSign", "Emit"]),
                    workers=8)
        ctx.replay(r.tagged.get("CASE", []))
    # 2b. two-scale world: the exact stage needs > 2000 bits
    for _ in range(1 if ctx.quick() else 4):
        sub = set(rnd.sample(range(1, 27), 9 if ctx.quick() else 14))
        kidx = set(rnd.sample(range(1, 3 ** 9), 10 if ctx.quick() else 30)) | {0}
        r = ctx.tlc("Gen_SignScale", vlib.cfg(constants={"N": 1, "SubIdx": sub, "KIdx": kidx}, invariants=["Consistent", "Emit"]), workers=8)
        ctx.replay(r.tagged.get("CASE", []))
    # 3. distances
    r = ctx.tlc("Gen_Dist", vlib.cfg(constants={"N": 1, "SubIdx": all26},
                                     invariants=["AntiSym", "NonZero", "SelfClosest", "ChordEnds", "Emit"]), workers=8)
    ctx.replay(r.tagged.get("CASE", []))
    for n, size in [(2, 12 if ctx.quick() else 26), (3, 8 if ctx.quick() else 20)]:
        total = (2 * n + 1) ** 3 - 1
        for _ in range(reps):
            sub = set(rnd.sample(range(1, total + 1), size))
            r = ctx.tlc("Gen_Dist", vlib.cfg(constants={"N": n, "SubIdx": sub},
                                             invariants=["AntiSym", "NonZero", "SelfClosest", "ChordEnds", "Emit"]), workers=8)
            ctx.replay(r.tagged.get("CASE", []))
