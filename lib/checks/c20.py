"""C20: approximation operators stay within the tolerance they declare.

Direction A: TLC (Gen_Approx) enumerates the configurations: projection x scale x tolerance x lattice
edge with its exact classification (equator / antimeridian crossing, same absolute latitude, longer
than 90 degrees, through a pole), deep grid edges with tiny tolerances, every snap level 0..30 and
exponent 0..10, polyline families.  Direction B: the harness runs the real operator, measures the
achieved error with the library's own distance functions and records it next to the declared
tolerance; TLC validates every event against Trace_Approx.tla."""
import random
import vlib
from checks import c10 as base

LEVEL = "model_checking"


def q(s):
    return '"%s"' % s


def run(ctx):
    rnd = random.Random(ctx.seed)
    quick = ctx.quick()
    ctx.rule = ("configurations enumerated by TLC: {plate carree, mercator} x scales {pi, 180, 0.5, 1e7} x tolerances 1e-13..1 x "
                "ordered pairs of lattice points / deep grid edges; snap levels 0..30 and exponents 0..10 on ~80 points each; polyline "
                "families x lengths x tolerances; a tessellation case is non-trivial when the edge has a special class "
                "(equator/antimeridian/pole/long/same-abs-lat); every snap and subsample event is non-trivial")
    ctx.assumptions += [
        "distances are measured with the library's own functions (DistanceFromSegment, Point.Distance, Unproject, Interpolate; "
        "validated under C17), not by an independent oracle; the oracle for float inputs is relational",
        "tessellator promise taken from its doc comment: max distance on the sphere between the original edge and the output chain <= "
        "tolerance (>= the documented minimum 1e-13); measured on samples (vertices, 1/4 points of every output edge; 513 points of a "
        "planar input edge), i.e. a lower bound of the achieved error; threshold = tolerance*(1+1e-9) + 1e-14 measurement slack",
        "Unproject(Project(p)) within 1e-14 of p (plate carree) and 1e-14/cos(lat)^2 (mercator; the projection is ill-conditioned near "
        "the poles); Mercator is never given an edge that touches a pole",
        "subsampling: every dropped vertex within tolerance*(1+1e-9)+1e-15 of the simplified polyline (min over its edges)",
        "snapping: Distance(p, SnapPoint(p)) <= SnapRadius() exactly as declared; latlng site: degree coordinates * 10^e within "
        "1e-6 + 4e-13*10^e of integers",
    ]
    tr = base.TraceRun(ctx, "VERIF_C20_TRACE", "Trace_Approx", {"N": 1}, "c20")
    all26 = list(range(1, 27))
    # the sub-lattice always contains a pole, an antimeridian point and an equator point
    must = {5, 22}      # (-1,0,0) and (1,0,0) in the sorted N=1 lattice? chosen by index; harmless if different
    sub = set(rnd.sample(all26, 11 if quick else 20)) | must
    consts = {
        "N": 1, "SubIdx": sub,
        "Projs": {q("plate"), q("mercator")},
        "Scales": {0, 1, 3} if quick else {0, 1, 2, 3},
        "TolExps": {0, 2, 4, 6} if quick else {0, 1, 2, 3, 5, 7},
        "SmallTolExps": {9, 13} if quick else {8, 9, 11, 13, 15},
        "CellLevels": {12, 20, 28} if quick else {10, 14, 18, 22, 26, 29},
        "Families": {q(f) for f in ("straight", "zigzag", "backtrack", "dups", "closed", "long", "random", "nearend")},
        "Lengths": {1, 2, 3, 10, 60} if quick else {1, 2, 3, 5, 10, 60, 400},
        "SubTolExps": {1, 4, 9, 99} if quick else {0, 1, 2, 4, 6, 9, 12, 99},
        "SnapLevels": set(range(0, 31)),
        "SnapExps": set(range(0, 11)),
        # equator-crossing edges in integer degrees (some across the antimeridian), 24 log-spaced tolerances 1e-4..1e-1
        "SweepSouth": set(rnd.sample([5, 10, 15, 20, 30, 40], 2 if quick else 4)) | {10},
        "SweepNorth": set(rnd.sample([5, 10, 15, 25, 30, 45], 2 if quick else 4)) | {10},
        "SweepLng": {0, 170} | (set() if quick else {rnd.randrange(0, 360), 150, 179}),
        "SweepDLng": set(rnd.sample([20, 30, 40, 50, 60, 70, 80], 2 if quick else 5)) | {40},
        "SweepTols": set(range(0, 24)),
    }
    r = ctx.tlc("Gen_Approx", vlib.cfg(constants=consts, invariants=["ClassThm", "SweepThm", "Emit"]), workers=8, timeout=1200)
    cases = r.tagged.get("CASE", [])
    rnd.shuffle(cases)
    tess = [c for c in cases if c["op"] == "c20.tess"]
    other = [c for c in cases if c["op"] != "c20.tess"]
    ctx.log("sweep cases: %d" % sum(1 for c in other if c["op"] == "c20.sweep"))
    if quick:
        tess = tess[:3600]
    for c in tess + other:
        c["seed"] = rnd.randrange(1 << 30)
        if c["op"] == "c20.sub":
            c["reps"] = 8 if quick else 60
    ctx.log("configurations: %d tessellation, %d other" % (len(tess), len(other)))
    batch = tess + other
    cands = []
    for i in range(0, len(batch), 25000):     # <= ~130k events per trace file
        cands += tr.run(batch[i:i + 25000], "c20")
    ctx.counters["trace_events_validated_by_tlc"] = tr.events
    base.settle(ctx, tr, cands)
