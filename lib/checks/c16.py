"""C16: the intersection point of two crossing edges is accurate and order-independent.

Direction A: Gen_Intersect.tla enumerates the crossing quadruples of the lattice W1 with the
exact integer intersection direction / the collinear endpoint rule; the harness compares.
Direction B: the harness records one event per seed-random / adversarial float pair (keys and
booleans reported by the library itself); Trace_Intersect.tla decides the relations."""
import json
import os
import random
import re

import vlib

LEVEL = "model_checking"

GEN_INV = ["OrientAgree", "ExpansionOK", "DirSymmetric", "CollinearTwoInside", "OnBothCircles", "Emit"]


# ----------------------------------------------------------------------------------------
# generic machinery of the trace direction (also used by c17.py)

def tlc_validate(ctx, module, path, timeout=1500):
    """Run the trace spec on the recorded file; returns the list of rejected events
    [{l, tr, cls, rel:[..]}] as decided by TLC."""
    n = sum(1 for _ in open(path))
    if n == 0:
        return [], 0
    c = "INIT Init\nNEXT Next\nCONSTANT TraceFile = \"%s\"\nINVARIANT Emit\n" % path
    r = ctx.tlc(module, c, workers=1, timeout=timeout, heap="6g")
    if r.distinct != n:
        raise vlib.Infra("%s: TLC visited %d states for %d events" % (module, r.distinct, n))
    return r.tagged.get("REJ", []), n


def record(ctx, recorder, args, out):
    p = ctx.run_harness(["record", recorder] + args + ["--out", out], timeout=1500)
    if p.returncode != 0 or not os.path.exists(out):
        raise vlib.Infra("vcheck record %s failed rc=%s: %s" % (recorder, p.returncode, (p.stderr or p.stdout)[-3000:]))


def selftest(ctx, module, events, corrupt, tag):
    """Binding demonstration: corrupted copies of recorded events must be rejected by TLC with
    the expected relation (the relations are not vacuous)."""
    lines, want = [], []
    for name, fn, src in corrupt:
        e = json.loads(json.dumps(src))
        fn(e)
        e["tr"] = len(lines) + 1
        lines.append(e)
        want.append(name)
    path = os.path.join(ctx.scratch, "selftest-%s.ndjson" % tag)
    with open(path, "w") as f:
        for e in lines:
            f.write(json.dumps(e, separators=(",", ":")) + "\n")
    rej, _ = tlc_validate(ctx, module, path)
    got = {r["l"]: r["rel"] for r in rej}
    for i, name in enumerate(want):
        if name not in got.get(i + 1, []):
            raise vlib.Infra("selftest: corrupted event %d was not rejected with relation %s (got %s)" % (i + 1, name, got.get(i + 1)))
    ctx.counters["selftest_corruptions_rejected"] = ctx.counters.get("selftest_corruptions_rejected", 0) + len(want)


def trace_direction(ctx, module, recorder, prefix, n, case_of, nontrivial_of, detail_of, key_of=None, seed=None):
    """Record n events, let TLC decide them, confirm every rejected relation/class on a single
    re-recorded input in a fresh process, classify as known finding or violation."""
    path = os.path.join(ctx.scratch, "trace-%s.ndjson" % recorder)
    record(ctx, recorder, ["--seed", str(ctx.seed if seed is None else seed), "--n", str(n)], path)
    rej, nev = tlc_validate(ctx, module, path)
    events = [json.loads(x) for x in open(path)]
    ctx.evaluations += nev
    ctx.traces += nev
    ctx.nontrivial += sum(1 for e in events if nontrivial_of(e))
    by_cls = {}
    for e in events:
        k = "events_%s" % e.get("cls", "?")
        by_cls[k] = by_cls.get(k, 0) + 1
    for k, v in by_cls.items():
        ctx.counters[k] = ctx.counters.get(k, 0) + v
    ctx.counters["events_rejected"] = ctx.counters.get("events_rejected", 0) + len(rej)
    for e in events[:2]:
        if len(ctx.samples) < 6:
            ctx.samples.append({k: e[k] for k in list(e.keys())[:9]})
    first = {}
    for r in rej:
        e = events[r["l"] - 1]
        for rel in r["rel"]:
            key = key_of(rel, e) if key_of else "%s/%s/%s" % (prefix, rel, e["cls"])
            first.setdefault(key, (rel, e))
    known = vlib.load_known(ctx.prop)
    todo = [(key, rel, e) for key, (rel, e) in sorted(first.items())
            if not any(v.key == key for v in ctx.violations) and not any(k == key for k, _ in ctx.known_hits)]
    if todo:
        # confirmation: the single inputs are re-recorded in a fresh process and re-validated by TLC
        ipath = ctx.write_cases("confirm-in-%s.ndjson" % recorder, [case_of(e) for _, _, e in todo])
        tpath = os.path.join(ctx.scratch, "confirm-trace-%s.ndjson" % recorder)
        if os.path.exists(tpath):
            os.remove(tpath)
        record(ctx, recorder, ["--inputs", ipath], tpath)
        rej2, _ = tlc_validate(ctx, module, tpath)
        got = {r["l"]: r["rel"] for r in rej2}
        for i, (key, rel, e) in enumerate(todo):
            case = case_of(e)
            if rel not in got.get(i + 1, []):
                raise vlib.Infra("rejected event not reproduced in a fresh process: %s %s" % (key, json.dumps(case)))
            if key in known:
                ctx.known_hits.append((key, known[key]))
            else:
                ctx.violations.append(vlib.Violation(key, detail_of(rel, e), case))
    return events


# ----------------------------------------------------------------------------------------

def _case_of(e):
    return {"op": "c16float", "cls": e["cls"], "in": e["in"], "inarc": e["inarc"]}


def _key_of(rel, e):
    # the path taken for the original argument order is part of the key: the stable
    # (floating point) method accepted, or the exact-arithmetic fallback was used
    return "c16/%s/%s/%s" % (rel, e["cls"], "stable" if e["st"] else "exact")


def _detail(rel, e):
    return ("recorded crossing pair of class %s violates relation %s of Trace_Intersect.tla "
            "(inputs as IEEE bit patterns a0,a1,b0,b1: %s)" % (e["cls"], rel, " ".join(e["in"])))


def _corruptions(events):
    x = next(e for e in events if e["ev"] == "X" and e["st"] and e["eok"])
    col = next((e for e in events if e["ev"] == "COL"), None)

    def order(e):
        e["perm"][5] = [e["perm"][5][0], e["perm"][5][1], [e["perm"][5][2][0], e["perm"][5][2][1], e["perm"][5][2][2] ^ 1]]

    def unit(e):
        e["unit"] = False

    def hemi(e):
        e["da"] = [1000, 0, 0]      # a large negative float

    def onedge(e):
        e["eb"] = [e["etol"][0] + 1, 0, 0]

    def stable(e):
        e["sx"] = [e["stol"][0] + 1, 0, 0]

    def nan(e):
        e["perm"] = [[[-1, -1, -1]] * 3] * 8

    def tight(e):
        e["n2"] = [e["n2hi"][0], e["n2hi"][1], e["n2hi"][2] + 3]

    def planes(e):
        e["pa"] = [e["ptol"][0] + 1, 0, 0]

    out = [("unit-tight", tight, x), ("on-planes", planes, x),
           ("order", order, x), ("unit", unit, x), ("hemisphere", hemi, x), ("on-edge", onedge, x),
           ("stable-vs-exact", stable, x), ("order", nan, x)]
    if col is not None:
        def endpoint(e):
            e["res"] = 0
        out.append(("collinear-endpoint", endpoint, col))
    return out


def run(ctx):
    rnd = random.Random(ctx.seed)
    q = ctx.quick()
    ctx.rule = ("W1: every CROSS quadruple (exact crossing test incl. symbolic perturbation) of the lattice, generated by TLC "
                "with the exact intersection direction; non-trivial = a deciding determinant is 0 (edges touch / are collinear) "
                "or the exact-arithmetic fallback was taken.  Floats: recorded crossing pairs by class (random, small crossing "
                "angle down to 1e-15, crossing next to / exactly at an endpoint, edges of length 1e-300..1e-17, nearly antipodal "
                "endpoints, exactly collinear overlapping edges); non-trivial = adversarial class or exact fallback taken")
    ctx.assumptions += [
        "NOT decided: the accuracy bound 8*2^-53 rad itself against an independent high-precision intersection; decided instead: "
        "relations between values the library reports (level_note: for float inputs the oracle is relational)",
        "level_note: model_checking of the exact lattice semantics (TLC) + conformance; the float direction validates recorded events "
        "against relational invariants evaluated by TLC on order-preserving keys",
        "W1 unit embedding: Intersection is only called when s2.CrossingSign of the rounded points is Cross (precondition); the "
        "direction is compared to 2e-6 rad by integer cross-multiplication (wrong branch/sign/operand, not ulp errors)",
        "tolerances are added in Go with the library's own constants and logged: intersectionError (8*dblError, edge_crossings.go), "
        "2*dblError directional error of intersectionExact (comment in intersectionExact), minUpdateDistanceMaxError (edge_distances.go) "
        "for the distance of the result to each edge, points unit to within 2*dblEpsilon (comment in interiorDist) for the hemisphere test",
        "the on-edge relation is not demanded for edges antipodal to within 1e-2 rad (documented limitation of minUpdateDistanceMaxError)",
        "unit-tight: squared length within 5*dblEpsilon of 1 (points normalised to within 2*dblEpsilon, comment in interiorDist, plus the "
        "rounding of Norm2); on-planes: |sin| of the angle to the EXACT plane of each edge (r3.PreciseVector cross/dot) <= intersectionError, "
        "an exact measurement that stays valid for endpoints within an ulp of antipodal where UpdateMinDistance is not usable",
        "all tolerances are absolute (radians / squared chord), none is relative to an edge length; the distance of the result to an edge "
        "shorter than 1e-140 rad is measured to the nearer endpoint because UpdateMinDistance squares |a x b|, which underflows there",
        "collinear float inputs lie on circles that stay exactly planar in float64 (z = 0, x = y and their coordinate permutations); "
        "which endpoints lie inside the other edge is known from the integer slots of the construction",
    ]
    all26 = set(range(1, 27))
    # ---- direction A ---------------------------------------------------------------
    aidx = set(rnd.sample(range(1, 27), 12)) if q else all26
    r = ctx.tlc("Gen_Intersect", vlib.cfg(constants={"N": 1, "AIdx": aidx, "SubIdx": all26}, invariants=GEN_INV),
                workers=8, timeout=1200)
    cases = r.tagged.get("CASE", [])
    if not q:
        if len(cases) != 36032:
            raise vlib.Infra("expected 36032 crossing quadruples with valid edges on the N=1 lattice, got %d" % len(cases))
        ctx.exhaustive = "all 36,032 CROSS quadruples of the 26-point lattice with edges shorter than 180 degrees (of 44,160 CROSS quadruples)"
    ctx.replay(cases, timeout=1200)
    if not q:
        for _ in range(5):
            sub = set(rnd.sample(range(1, 125), 16))
            r = ctx.tlc("Gen_Intersect", vlib.cfg(constants={"N": 2, "AIdx": sub, "SubIdx": sub}, invariants=GEN_INV), workers=8)
            ctx.replay(r.tagged.get("CASE", []))
    # ---- direction B ---------------------------------------------------------------
    for k in range(1 if q else 6):
        events = trace_direction(ctx, "Trace_Intersect", "c16", "c16", 40000 if q else 100000, _case_of,
                                 lambda e: e["cls"] != "random" or not e["st"], _detail, key_of=_key_of,
                                 seed=ctx.seed * 1000 + k)
        ctx.counters["float_stable_accepted"] = ctx.counters.get("float_stable_accepted", 0) + sum(1 for e in events if e["st"])
        ctx.counters["float_exact_fallback"] = ctx.counters.get("float_exact_fallback", 0) + sum(1 for e in events if not e["st"])
    selftest(ctx, "Trace_Intersect", events, _corruptions(events), "c16")
