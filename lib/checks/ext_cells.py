"""Extensions of the cell-hierarchy specification (used by c11.py and c01.py).

run_expand(ctx)   CellUnion.ExpandAtLevel / ExpandByRadius: spec/Expand.tla on top of the neighbour
                  relation of Cells.tla; TLC (Gen_Expand through a generated MC_Expand module) enumerates
                  small unions below seed-chosen anchors x levels and computes the normalized expansion;
                  p_ext_cells.go demands exact equality.  Keys expand/...
run_metrics(ctx)  Metric.Value/MinLevel/MaxLevel/ClosestLevel: spec/Metrics.tla (exponent model),
                  Gen_Metrics emits (dimension, value class, expected levels).  Keys metric/...
run_apalache(ctx) the 64-bit id algebra (spec/IdAlgebra.tla) as inductive obligations discharged by
                  Apalache over unbounded integers; results go to ctx.counters / ctx.notes only."""
import os
import random
import re
import shutil
import signal
import subprocess
import time
from concurrent.futures import ThreadPoolExecutor

import vlib

# ------------------------------------------------------------------------------------------ expand

EXPAND_LAWS = ["LawContains", "LawNormal", "LawTouch", "LawDef", "LawRaise", "LawPaths"]


def _corner_anchor(rnd, lev):
    """An anchor at a cube corner and the edge neighbour (1 down, 2 right, 3 up, 4 left) that lies
    across the face boundary."""
    m = (1 << lev) - 1
    i, j = rnd.choice([0, m]), rnd.choice([0, m])
    k = rnd.choice([4 if i == 0 else 2, 1 if j == 0 else 3])
    return (rnd.randrange(6), lev, i, j), k


def _edge_anchor(rnd, lev):
    """An anchor on a face boundary (not at a corner) and the neighbour across that boundary."""
    m = (1 << lev) - 1
    o = rnd.randrange(1, m) if m > 1 else 0
    side = rnd.randrange(4)
    i, j, k = [(0, o, 4), (m, o, 2), (o, 0, 1), (o, m, 3)][side]
    return (rnd.randrange(6), lev, i, j), k


def _pool(rnd, n, second):
    """Model cells <<anchor, depth, di, dj>> (depth <= 3): three siblings, a cousin, corner and boundary cells
    of the anchors, sometimes an anchor itself, random cells."""
    out = []

    def add(c):
        if c not in out:
            out.append(c)

    d = rnd.choice([1, 2, 3])
    pi, pj = rnd.randrange(1 << (d - 1)), rnd.randrange(1 << (d - 1))
    sibs = [(1, d, 2 * pi + a, 2 * pj + b) for a in (0, 1) for b in (0, 1)]
    rnd.shuffle(sibs)
    for c in sibs[:3]:
        add(c)
    # a cousin of the first sibling (same grandparent, other parent): with a level between them the
    # level-ancestors of the finer cells are distinct siblings
    if d >= 2:
        add((1, d, sibs[0][2] ^ 2, sibs[0][3]))
    else:
        y = rnd.randrange(4)
        add((1, 2, rnd.randrange(2), y))
        add((1, 2, 2 + rnd.randrange(2), y))
    anchors = [1, 2] if second else [1]
    for a in anchors:
        d = rnd.choice([1, 2, 3])
        m = (1 << d) - 1
        add((a, d, rnd.choice([0, m]), rnd.choice([0, m])))          # a corner of the anchor
    if rnd.random() < 0.5:
        add((rnd.choice(anchors), 0, 0, 0))                          # an anchor itself
    while len(out) < n:
        a = rnd.choice(anchors)
        d = rnd.choice([1, 2, 2, 3, 3])
        m = (1 << d) - 1
        kind = rnd.randrange(3)
        if kind == 0:
            c = (a, d, rnd.choice([0, m]), rnd.randrange(m + 1))      # on a boundary of the anchor
        elif kind == 1:
            c = (a, d, rnd.randrange(m + 1), rnd.choice([0, m]))
        else:
            c = (a, d, rnd.randrange(m + 1), rnd.randrange(m + 1))
        add(c)
    return out[:n]


def _tup(t):
    return "<<" + ", ".join(str(x) for x in t) + ">>"


def _groups(rnd, quick):
    """(anchor1, anchor2 code, second?) choices: top embedding on 1-2 faces, deep embeddings (anchor level 27:
    model leaves are real leaves) and middle levels, at cube corners, face boundaries and inside faces."""
    gs = []
    f = rnd.randrange(6)
    gs.append(((f, 0, 0, 0), (-1, rnd.randrange(1, 5), 0, 0)))                 # two adjacent faces
    a, k = _corner_anchor(rnd, 27)
    gs.append((a, (-1, k, 0, 0)))                                               # deep, at a cube corner
    a, k = _edge_anchor(rnd, rnd.choice([27, rnd.randrange(4, 26)]))
    gs.append((a, (-1, k, 0, 0)))                                               # deep/mid, on a face boundary
    alt = [((f, 0, 0, 0), ((f + 3) % 6, 0, 0, 0)),                              # two opposite faces
           ((rnd.randrange(6), 0, 0, 0), (-2, 0, 0, 0)),                        # one face
           ((rnd.randrange(6), 27, rnd.randrange(1, 1 << 27), rnd.randrange(1, 1 << 27)), (-1, rnd.randrange(1, 5), 0, 0)),
           (_corner_anchor(rnd, rnd.randrange(2, 26))[0], (-2, 0, 0, 0)),
           ((5, 27, 0, (1 << 27) - 1), (-1, rnd.randrange(1, 5), 0, 0)),       # the last cells of the curve (5/33..3)
           ((0, 27, 0, 0), (-1, rnd.randrange(1, 5), 0, 0))]                   # the first cells of the curve
    if quick:
        gs.append(rnd.choice(alt))
    else:
        gs += alt
        for _ in range(6):
            lev = rnd.choice([27, 27, 1, 2, rnd.randrange(3, 27)])
            a, k = rnd.choice([_corner_anchor, _edge_anchor])(rnd, lev)
            gs.append((a, (-1, k, 0, 0)))
    return gs


def run_expand(ctx):
    rnd = random.Random(ctx.seed * 7919 + 11)
    q = ctx.quick()
    t0 = time.time()
    n = 6 if q else 9
    groups = []
    for a1, a2 in _groups(rnd, q):
        pool = _pool(rnd, n, a2[0] != -2)
        groups.append("<< %s, %s, {%s} >>" % (_tup(a1), _tup(a2), ", ".join(_tup(c) for c in pool)))
    mod = "MC_Expand"
    with open(os.path.join(ctx.specdir(), mod + ".tla"), "w") as f:
        f.write("---- MODULE %s ----\nEXTENDS Gen_Expand\nMCGroups == <<\n  %s\n>>\n====\n" % (mod, ",\n  ".join(groups)))
    cfg = vlib.cfg(constants={"K": 3, "MaxUp": 2 if q else 3, "DefMax": 2 if q else 3},
                   invariants=EXPAND_LAWS + ["Emit"]).replace("NEXT Next\n", "NEXT Next\nCONSTANT Groups <- MCGroups\n")
    r = ctx.tlc(mod, cfg, workers=6, timeout=1500, heap="4g")
    cases = r.tagged.get("CASE", [])
    ctx.replay(cases)
    ctx.counters["expand_groups"] = ctx.counters.get("expand_groups", 0) + len(groups)
    ctx.assumptions += [
        "ExpandAtLevel/ExpandByRadius (extension): inputs are normalized unions (<= 3 pairwise disjoint cells of depth <= 3 below "
        "one or two anchors: faces, cells of level 27 or of a middle level, at cube corners / face boundaries / inside), sorted by id; "
        "the expected result is the normal form of {cell raised to the level} + AllNeighbors at the level as Expand.tla defines it on "
        "the neighbour relation of Cells.tla, compared bit-exactly",
        "ExpandByRadius is checked only through the level it reduces to: radii are MinWidthMetric.Deriv * 2^e * f with f in "
        "{1.25, 1.5, 1.9375}, strictly between two thresholds, so MinWidthMetric.MaxLevel(radius) is unambiguous (Metrics.tla); "
        "that the expansion really covers the radius geometrically is not decided",
    ]
    ctx.assumptions[:] = [a for a in ctx.assumptions if not a.startswith("ExpandAtLevel / ExpandByRadius are not covered")]
    ctx.notes.append("ext_cells.run_expand: %d groups, %d cases, %.1fs" % (len(groups), len(cases), time.time() - t0))


# ------------------------------------------------------------------------------------------ metrics

METRIC_LAWS = ["MetricLaws", "ValueLaws", "OrderLaws", "DegenerateLaws"]


def run_metrics(ctx):
    t0 = time.time()
    _apalache_start_quick(ctx)          # overlaps with the TLC run below (quick tier only)
    r = ctx.tlc("Gen_Metrics", vlib.cfg(constants={"ENeg": 70, "EPos": 8}, invariants=METRIC_LAWS + ["Emit"]),
                workers=2, timeout=600, heap="2g")
    cases = r.tagged.get("CASE", [])
    ctx.replay(cases)
    ctx.assumptions += [
        "Metric level functions (extension): values are deriv * 2^e built with an exact power of two (e in -70..8), their one-ulp "
        "neighbours (math.Nextafter), +-0, negative values, 2^-1022, 5e-324, MaxFloat64, +Inf; for these the comparison with every "
        "Value(level) = deriv * 2^-(dim*level) is decided by the exponents (Metrics.tla), and the rounding of v/deriv cannot "
        "reach a power of two (a one-ulp step is at least 2^-53 relative)",
        "ClosestLevel is specified as a level nearest on the logarithmic scale; both levels are accepted at an exact tie "
        "(dim 2, odd exponent); for negative values only a valid level is demanded; NaN is not covered",
    ]
    ctx.notes.append("ext_cells.run_metrics: %d cases (each applied to every metric of its dimension), %.1fs" % (len(cases), time.time() - t0))


# ------------------------------------------------------------------------------------------ apalache

APALACHE = "apalache-mc"


def _apalache_job(ctx, name, lev, olev, init, inv, length, expect_error=False, timeout=300):
    return {"name": name, "lev": lev, "olev": olev, "init": init, "inv": inv, "length": length,
            "expect_error": expect_error, "timeout": timeout}


def _apalache_cmd(ctx, job, n):
    d = os.path.join(ctx.scratch, "apalache")
    os.makedirs(d, exist_ok=True)
    spec = os.path.join(d, "IdAlgebra.tla")
    if not os.path.exists(spec):
        shutil.copy(os.path.join(vlib.SPEC, "IdAlgebra.tla"), spec)
    cfg = os.path.join(d, "c_%d_%d.cfg" % (job["lev"], job["olev"]))
    with open(cfg, "w") as f:
        f.write("CONSTANT Lev = %d\nCONSTANT OLev = %d\nINIT %s\nNEXT Next\n" % (job["lev"], job["olev"], job["init"]))
    out = os.path.join(d, "out%d" % n)
    return ["timeout", str(job["timeout"]), APALACHE, "check", "--config=" + cfg, "--init=" + job["init"],
            "--inv=" + job["inv"], "--length=%d" % job["length"], "--discard-disabled=false", "--no-deadlock=true", "--out-dir=" + out, spec], d


def _apalache_env():
    env = dict(os.environ)
    env.setdefault("JVM_ARGS", "-Xmx2g")
    return env


def _apalache_classify(job, rc, text, wall):
    """-> (status, detail): proved / refuted / unknown."""
    if "The outcome is: NoError" in text:
        status = "proved"
    elif "The outcome is: Error" in text and ("violated" in text or "violation" in text.lower()):
        status = "refuted"
    elif "Parsing error" in text or "Typing input error" in text or "Type checker [FAIL]" in text or "Input error" in text:
        status = "broken"       # the specification does not load: infrastructure problem, not "no result"
    else:
        status = "unknown"
    if job["expect_error"]:
        # a satisfiability witness: the negated statement must have a counterexample
        status = {"refuted": "proved", "proved": "refuted"}.get(status, status)
    tail = ""
    if status != "proved":
        lines = [ln for ln in text.splitlines() if ln.strip()]
        tail = " | ".join(lines[-4:])[:600]
    return status, ("rc=%s %.1fs %s" % (rc, wall, tail)).strip()


def _apalache_spawn(cmd, d):
    """Own session / process group, so that the wrapper script, the JVM and z3 can be killed together."""
    return subprocess.Popen(cmd, cwd=d, env=_apalache_env(), stdout=subprocess.PIPE, stderr=subprocess.STDOUT, text=True,
                            start_new_session=True)


def _apalache_wait(p, seconds):
    """-> (rc, output); rc 124 when the run did not end in time (the whole group is killed)."""
    try:
        text, _ = p.communicate(timeout=max(1.0, seconds))
        return p.returncode, text or ""
    except subprocess.TimeoutExpired:
        try:
            os.killpg(p.pid, signal.SIGKILL)
        except OSError:
            pass
        try:
            text = p.communicate(timeout=10)[0] or ""
        except Exception:
            text = ""
        return 124, text


def _apalache_run(ctx, job, n):
    cmd, d = _apalache_cmd(ctx, job, n)
    t0 = time.time()
    rc, text = _apalache_wait(_apalache_spawn(cmd, d), job["timeout"] + 20)
    wall = time.time() - t0
    status, detail = _apalache_classify(job, rc, text, wall)
    return dict(job, status=status, detail=detail, wall=wall)


def _apalache_start_quick(ctx):
    """Quick tier: one tiny obligation (validity is preserved by the moves + the one-level laws at one
    seed-chosen level), started in the background so that it overlaps with the metrics run."""
    if not ctx.quick() or shutil.which(APALACHE) is None or getattr(ctx, "_ext_apalache", None) is not None:
        return
    lev = random.Random(ctx.seed * 31 + 5).randrange(0, 31)
    job = _apalache_job(ctx, "step+one-level laws at level %d" % lev, lev, lev, "IndInit", "IndInv,OneLevelLaws", 1, timeout=25)
    cmd, d = _apalache_cmd(ctx, job, 0)
    ctx._ext_apalache = (job, _apalache_spawn(cmd, d), time.time())


def _apalache_plan(ctx):
    """Thorough tier.  Obligations, all for an arbitrary valid id (unbounded integer) of a literal level:
    base (faces are valid), a satisfiability witness, for every level 0..30 the inductive step together
    with the one-level laws, and the two-level laws for seed-chosen level pairs."""
    rnd = random.Random(ctx.seed * 131 + 7)
    jobs = [_apalache_job(ctx, "base: face cells satisfy IndInv", 0, 0, "Init", "IndInv", 0),
            _apalache_job(ctx, "witness: IndInit is satisfiable (NotStart must be refuted)", 17, 12, "IndInit", "NotStart", 0, expect_error=True)]
    for lev in range(31):
        jobs.append(_apalache_job(ctx, "level %d: IndInv inductive under child/parent/next/prev moves; Lsb/Range/Child/Next laws" % lev,
                                  lev, lev, "IndInit", "IndInv,OneLevelLaws", 1))
    pairs = set()
    for lev in range(31):
        for o in (lev - 1, lev + 1):
            if 0 <= o <= 30:
                pairs.add((lev, o))
    for lev in (0, 30):
        for o in (0, 30, 15):
            pairs.add((lev, o))
            pairs.add((o, lev))
    npairs = int(os.environ.get("VERIF_APALACHE_PAIRS", "90"))
    allp = [(a, b) for a in range(31) for b in range(31)]
    rnd.shuffle(allp)
    for p in allp:
        if len(pairs) >= npairs:
            break
        pairs.add(p)
    for (a, b) in sorted(pairs):
        jobs.append(_apalache_job(ctx, "levels (%d,%d): level unique; Parent/ChildBeginAtLevel/Contains/Intersects laws" % (a, b),
                                  a, b, "IndInit", "TwoLevelLaws", 0))
    return jobs


def _apalache_report(ctx, results, planned, t0):
    proved = [r for r in results if r["status"] == "proved"]
    refuted = [r for r in results if r["status"] == "refuted"]
    unknown = [r for r in results if r["status"] == "unknown"]
    broken = [r for r in results if r["status"] == "broken"]
    if broken:
        raise vlib.Infra("Apalache cannot load spec/IdAlgebra.tla (%s): %s" % (broken[0]["name"], broken[0]["detail"]))
    ctx.counters["apalache_obligations"] = ctx.counters.get("apalache_obligations", 0) + planned
    ctx.counters["apalache_discharged"] = ctx.counters.get("apalache_discharged", 0) + len(proved)
    ctx.notes.append("apalache (spec/IdAlgebra.tla, unbounded integers): %d obligations planned, %d attempted, %d discharged, "
                     "%d without result (timeout/error: not a violation), %.1fs wall; discharged: %s" %
                     (planned, len(results), len(proved), len(unknown), time.time() - t0,
                      "; ".join(r["name"] for r in proved[:3]) + (" ... (%d more)" % (len(proved) - 3) if len(proved) > 3 else "")))
    for r in unknown[:5]:
        ctx.notes.append("apalache: no result for '%s' (%s)" % (r["name"], r["detail"]))
    if refuted:
        r = refuted[0]
        raise vlib.Infra("Apalache refutes a model-level obligation of IdAlgebra.tla (%s): %s - the id-algebra model is wrong "
                         "(or, if reproducible through the C01 replay, a defect)" % (r["name"], r["detail"]))


def run_apalache(ctx):
    t0 = time.time()
    if shutil.which(APALACHE) is None:
        ctx.notes.append("apalache-mc not installed: id-algebra obligations not attempted")
        return
    if ctx.quick():
        _apalache_start_quick(ctx)
        st = getattr(ctx, "_ext_apalache", None)
        if not st:
            return
        job, p, started = st
        rc, text = _apalache_wait(p, 28 - (time.time() - started))
        status, detail = _apalache_classify(job, rc, text, time.time() - started)
        ctx._ext_apalache = None
        _apalache_report(ctx, [dict(job, status=status, detail=detail)], 1, started)
        return
    jobs = _apalache_plan(ctx)
    par = int(os.environ.get("VERIF_APALACHE_JOBS", "4"))
    budget = float(os.environ.get("VERIF_APALACHE_BUDGET", "420"))
    results = []

    def work(item):
        n, job = item
        if time.time() - t0 > budget:
            return None
        return _apalache_run(ctx, job, n + 1)

    with ThreadPoolExecutor(max_workers=par) as ex:
        for r in ex.map(work, list(enumerate(jobs))):
            if r is not None:
                results.append(r)
    skipped = len(jobs) - len(results)
    if skipped:
        ctx.notes.append("apalache: %d obligations not started within the %.0fs budget" % (skipped, budget))
    _apalache_report(ctx, results, len(jobs), t0)
