"""C19: interval / rectangle / cap algebra is sound with respect to point membership."""
import random
import vlib

LEVEL = "model_checking"

IV_INV = ["XTLaws", "S1Unary", "S1Binary", "PPLaws", "R1Unary", "R1Binary", "R2Unary", "R2Binary", "RcUnary", "RcBinary", "Emit"]
CAP_INV = ["CapUnary", "CapBinary", "ChordLaws", "CTLaws", "Emit"]


def _k(vals):
    return set(v + 100 for v in vals)


def _cases(r):
    return [c for c in r.tagged.get("CASE", []) if c.get("op") != "c19nop"]


def run(ctx):
    rnd = random.Random(ctx.seed)
    q = ctx.quick()
    ctx.rule = ("TLC enumerates every operand (unary cases: all probes of the half-step grid, all margins) and every ordered "
                "pair of operands (binary cases) of the discrete circle Z_2M / integer line / integer grid / lat-lng grid / "
                "lattice caps; a case is non-trivial when an operand is empty, full, a singleton, inverted, has an endpoint at "
                "+-pi or a pole, or when the model marks an exact tie (two acceptable results)")
    ctx.assumptions += [
        "circle positions embed as k*pi/M (M a power of two, +-M -> +-math.Pi exactly); k*pi/M is monotone in k so comparisons are preserved",
        "results are compared bit-exactly where the code only compares and copies endpoints; Expanded results (float arithmetic) within 1e-13 and by membership of half-step probes",
        "exact ties (positiveDistance, Length, Expanded to exactly full/singleton) are marked by the model and either result is accepted",
        "caps: unit embedding of lattice directions; point membership is predicted for strict inequalities and for axis-aligned / identical points (exact float64 computation); cap-cap relations are predicted in the rational-angle sub-world (radii 0, pi/3, pi/2, 2pi/3, pi; centre distances multiples of pi/12) with strict margins, and for concentric / point caps",
        "Cap.InteriorIntersects with exactly antipodal axis-aligned centres and radii summing to more than pi (or a full receiver) is predicted true (the interiors overlap); the code answers false because the chord-angle sum is clamped at pi: recorded as a known finding; off-axis antipodal centres are not predicted (the float distance may fall below 4)",
        "s2.Rect.expanded is unexported; it is reached through the add-only hook VerifRectExpanded and through RectFromCenterSize",
        "s2.Rect has no InteriorContains/InteriorIntersects in this tree; Cap.Expanded requires a non-negative distance",
    ]
    # ---- 1. circle, line, planar rectangles: exhaustive over all operands and pairs
    consts = {"M": 4, "NL": 3, "ML": 2, "NR": 1, "Fams": '{"s1", "pp", "r1", "r2", "xt"}',
              "AIdxS1": set(), "AIdxRc": {1}, "BIdxRc": set(), "XtSeed": ctx.seed % 1000000, "RcMlK": _k([0]), "RcMgK": _k([0])}
    r = ctx.tlc("Gen_Intervals", vlib.cfg(constants=consts, invariants=IV_INV), workers=8, timeout=900)
    cases = _cases(r)
    if len(cases) != 66 + 66 * 66 + 81 + 49 + 49 * 49 + 45 + 45 * 45 + 64 * 21:
        raise vlib.Infra("unexpected number of interval cases: %d" % len(cases))
    ctx.replay(cases)
    ctx.exhaustive = {"s1.Interval": "M=4: all 66 intervals, all 4356 ordered pairs, 16 probes, margins -8..8 steps",
                      "r1.Interval": "7 grid positions: all 49 intervals (21 empty representations), all pairs, 19 probes",
                      "r2.Rect": "3x3 grid: all 45 valid rectangles (9 empty representations), all pairs, 25 probes"}
    # ---- 2. lat-lng rectangles: seeded first operands x all second operands
    n_rc = 15 * 65 + 1
    na = 20 if q else 60
    consts = {"M": 4, "NL": 3, "ML": 2, "NR": 1, "Fams": '{"rc"}',
              "AIdxS1": set(), "AIdxRc": set(rnd.sample(range(1, n_rc + 1), na)) | {1, n_rc},
              "BIdxRc": (set(rnd.sample(range(1, n_rc + 1), 450)) | {1, n_rc}) if q else set(),
              "XtSeed": ctx.seed % 1000000, "RcMlK": _k([-2, -1, 0, 1, 2] if not q else [-1, 0, 1, 2]),
              "RcMgK": _k([-4, -2, -1, 0, 1, 2, 4] if not q else [-2, -1, 0, 1, 4])}
    r = ctx.tlc("Gen_Intervals", vlib.cfg(constants=consts, invariants=IV_INV), workers=12, timeout=1500, heap="8g")
    ctx.replay(_cases(r))
    # ---- 3. caps and chord angles
    radii = [-8, 0, 1, 4, 8, 12, 16, 20, 24, 28, 31, 32]
    all26 = set(range(1, 27))
    # (13, 14 = the two z-axis directions in TLC's enumeration order: one exact axis-aligned pair always present)
    ca = (set(rnd.sample(range(1, 27), 3)) | {13, 14}) if q else all26
    consts = {"M": 4, "NL": 3, "ML": 2, "Fams": '{"cap", "chord", "ct"}', "CtSeed": ctx.seed % 1000000, "CIdxA": ca, "CIdxB": all26,
              "EAK": _k(radii), "EBK": _k(radii if not q else [-8, 0, 4, 8, 16, 24, 31, 32])}
    r = ctx.tlc("Gen_Caps", vlib.cfg(constants=consts, invariants=CAP_INV), workers=12, timeout=1500, heap="8g")
    ctx.replay(_cases(r), timeout=1800)
    if not q:
        # M = 8 circle (258 intervals): seeded first operands x all second operands; finer line
        consts = {"M": 8, "NL": 4, "ML": 4, "NR": 1, "Fams": '{"s1", "pp", "r1", "xt"}',
                  "AIdxS1": set(rnd.sample(range(1, 259), 60)), "AIdxRc": {1}, "BIdxRc": set(),
                  "XtSeed": ctx.seed % 1000000, "RcMlK": _k([0]), "RcMgK": _k([0])}
        r = ctx.tlc("Gen_Intervals", vlib.cfg(constants=consts, invariants=IV_INV), workers=14, timeout=2400, heap="8g")
        ctx.replay(_cases(r), timeout=1800)
        # finer lat-lng grid, sampled on both sides
        n_rc = 45 * 257 + 1
        consts = {"M": 8, "NL": 3, "ML": 4, "NR": 1, "Fams": '{"rc"}', "AIdxS1": set(),
                  "AIdxRc": set(rnd.sample(range(1, n_rc + 1), 20)) | {1, n_rc},
                  "BIdxRc": set(rnd.sample(range(1, n_rc + 1), 300)) | {1, n_rc},
                  "XtSeed": ctx.seed % 1000000, "RcMlK": _k([-3, -1, 0, 1, 4]), "RcMgK": _k([-8, -3, -1, 0, 1, 3, 8])}
        r = ctx.tlc("Gen_Intervals", vlib.cfg(constants=consts, invariants=IV_INV), workers=14, timeout=2400, heap="8g")
        ctx.replay(_cases(r), timeout=1800)
