"""C07: loop/polygon containment and intersection = point-set semantics on the cell grid (W2);
laws; nesting forests; trace direction on random large loops."""
import json
import math
import os
import random

import vlib

LEVEL = "model_checking"

PAIR_INV = ["PairTheorems", "EmitPair"]
FOREST_INV = ["ForestTheorems", "EmitForest"]


def q(s):
    return '"%s"' % s


def base_constants():
    """every constant of Gen_Relations needs a value in every cfg"""
    return {
        "GF": 3, "GA": 1, "GB": 3,
        "XsA": {0, 1, 2}, "YsA": {0, 1, 2}, "XsB": {0, 1, 2}, "YsB": {0, 1, 2},
        "HXsA": set(), "HYsA": set(), "HXsB": set(), "HYsB": set(), "GlueXs": set(),
        "SpikeSides": set(), "SpikePos": set(), "SpikeLens": set(),
        "ThinMod": 1, "ThinRem": 0,
        "KindsA": {0}, "KindsB": {0}, "PitchA": {1}, "PitchB": {1},
        "MaxLoopsA": 1, "MaxLoopsB": 1, "FacePairs": {0}, "CheckAll": False,
        "Codes": {1000}, "Reals": {q("gap")}, "Scales": {0}, "Subs": {False}, "FBase": 1,
        "TraceFile": q(""),
    }


def nrects(xs, ys):
    return (len(xs) * (len(xs) - 1) // 2) * (len(ys) * (len(ys) - 1) // 2)


def coarse_coords(rnd, n, whole):
    """3 coordinates of a level with n cells per side; whole => include both face edges"""
    if whole:
        return {0, rnd.randint(1, n - 1), n}
    c = set(rnd.sample(range(0, n + 1), 3))
    return c


def fine_coords(rnd, coarse, s, n, count):
    """coordinates of the fine level: aligned with the coarse ones (touching), just beside them,
    and free ones"""
    out = set()
    cl = sorted(coarse)
    anchors = rnd.sample(cl, min(len(cl), 2))
    for a in anchors:
        out.add(a * s)
        d = rnd.choice([1, 1, 2, s // 2, s - 1, s])
        sgn = rnd.choice([-1, 1])
        v = a * s + sgn * d
        if 0 <= v <= n:
            out.add(v)
    while len(out) < count:
        out.add(rnd.randint(0, n))
    if len(out) > count:
        out = set(rnd.sample(sorted(out), count))
    return out


def pair_cfg(rnd, ga, gb, whole, multi, quick, target):
    """one instance of the pair generator: region A on level ga, region B on level gb"""
    gf = max(ga, gb)
    k = base_constants()
    na, nb = 2 ** ga, 2 ** gb
    k.update({"GF": gf, "GA": ga, "GB": gb})
    xa, ya = coarse_coords(rnd, na, whole), coarse_coords(rnd, na, whole)
    # scale between the levels, in cells of B's level per cell of A's level (or the reverse)
    if gb >= ga:
        s = 2 ** (gb - ga)
        xb = fine_coords(rnd, xa, s, nb, 5 if quick else 6)
        yb = fine_coords(rnd, ya, s, nb, 4 if quick else 5)
    else:
        # B is the coarse one: choose B freely and align A's candidates to it
        xb, yb = coarse_coords(rnd, nb, whole), coarse_coords(rnd, nb, whole)
        s = 2 ** (ga - gb)
        xa = fine_coords(rnd, xb, s, na, 4)
        ya = fine_coords(rnd, yb, s, na, 4)
    k.update({"XsA": xa, "YsA": ya, "XsB": xb, "YsB": yb})
    # vertex spacing: 1 = every grid point of the own level (many vertices, many index cells)
    k["PitchA"] = {1} if ga <= gb else {rnd.choice([1, 2]), 4}
    k["PitchB"] = {rnd.choice([1, 2]), rnd.choice([4, 8, 0])} if gb >= ga else {1}
    kinds = [1, 2, 3, 4]
    k["KindsA"] = {0, rnd.choice(kinds)}
    k["KindsB"] = {0} if quick else {0, rnd.choice(kinds)}
    f = rnd.randrange(6)
    k["FacePairs"] = {f * 6 + f}
    est_a = nrects(xa, ya) * len(k["PitchA"]) * 1.3
    est_b = nrects(xb, yb) * len(k["PitchB"]) * (1.0 if quick else 1.5)
    if multi:
        k["MaxLoopsA"] = 3
        k["MaxLoopsB"] = 2 if quick else 3
        # the first loop of A is sometimes an L-shape (on a polar face its longitude span exceeds 180 degrees)
        k["KindsA"], k["KindsB"] = ({0, rnd.choice(kinds)} if rnd.random() < 0.5 else {0}), {0}
        coarse_pitch = {rnd.choice([0, 1])}
        fine_pitch = {rnd.choice([1, 2, 4])}
        k["PitchA"] = coarse_pitch if ga <= gb else fine_pitch
        k["PitchB"] = fine_pitch if gb >= ga else coarse_pitch

        def poly_coords(n, whole_):
            # first loop: one or a few rectangles; further loops: 3x3 coordinates mostly inside it
            lo = 0 if whole_ else rnd.randint(0, n // 4)
            hi = n if whole_ else rnd.randint(n - n // 4, n)
            inner = set(rnd.sample(range(lo + 1, hi), min(3, hi - lo - 1)))
            return {lo, hi}, inner

        xa, hxa = poly_coords(na, whole)
        ya, hya = poly_coords(na, whole)
        s = 2 ** abs(gb - ga)
        if gb >= ga:
            # B's coordinates: aligned with A's shell or holes, next to them, or free
            allx, ally = sorted(xa | hxa), sorted(ya | hya)
            xb = fine_coords(rnd, allx, s, nb, 3)
            yb = fine_coords(rnd, ally, s, nb, 3)
            hxb = fine_coords(rnd, allx, s, nb, 3)
            hyb = fine_coords(rnd, ally, s, nb, 3)
        else:
            xb, hxb = poly_coords(nb, whole)
            yb, hyb = poly_coords(nb, whole)
            xa = fine_coords(rnd, sorted(xb | hxb), s, na, 2)
            ya = fine_coords(rnd, sorted(yb | hyb), s, na, 2)
            hxa = fine_coords(rnd, sorted(xb | hxb), s, na, 3)
            hya = fine_coords(rnd, sorted(yb | hyb), s, na, 3)
        k.update({"XsA": xa, "YsA": ya, "XsB": xb, "YsB": yb, "HXsA": hxa, "HYsA": hya, "HXsB": hxb, "HYsB": hyb})
        sa, ha = nrects(xa, ya), nrects(hxa, hya)
        sb, hb = nrects(xb, yb), nrects(hxb, hyb)
        est_a = sa + sa * ha * 0.4 + sa * ha * ha * 0.08
        est_b = sb + sb * hb * 0.4 + (0 if quick else sb * hb * hb * 0.08)
    est = max(1.0, est_a * est_b)
    k["ThinMod"] = max(1, int(round(est / target)))
    k["ThinRem"] = rnd.randrange(k["ThinMod"])
    return k


def polar_cfg(rnd, quick):
    """A = an L-shaped loop on a polar face whose notch holds the pole: it spans about 270 degrees of
    longitude without containing the pole; B = two shells near the two ends of the L, so that the
    longitude interval of B's bound runs through the notch (the wrap-around case of Polygon.Contains)"""
    k = base_constants()
    ga, gb = rnd.choice([(3, 6), (3, 5), (2, 5)])
    na, nb = 2 ** ga, 2 ** gb
    s = nb // na
    m = rnd.randint(1, na // 2 - 1) if na > 2 else 1       # notch corner, below the face centre
    k.update({"GF": gb, "GA": ga, "GB": gb, "XsA": {0, m, na}, "YsA": {0, m, na}, "KindsA": {0, 1}, "KindsB": {0},
              "PitchA": {rnd.choice([0, 1])}, "PitchB": {rnd.choice([1, 2])}, "MaxLoopsA": 1, "MaxLoopsB": 2})
    lo = sorted(rnd.sample(range(0, m * s + 1), 3))         # inside the arms' width
    hi = sorted(rnd.sample(range(nb // 2 + 2, nb + 1), 3))  # beyond the centre
    k.update({"XsB": set(hi), "YsB": set(lo), "HXsB": set(lo), "HYsB": set(hi)})
    f = rnd.choice([2, 5])
    k["FacePairs"] = {f * 6 + f}
    k["ThinMod"] = 3 if quick else 1
    k["ThinRem"] = rnd.randrange(k["ThinMod"])
    return k


def coarse_cfg(rnd, quick, target):
    """A = loops with very few vertices and face-sized (or level-1/2) index cells: plain 4-vertex
    rectangles of level 1..2 (the whole face included) and loops over TWO faces across their common
    side (6 vertices, one index cell per face); B = small fine-level loops placed along A's boundary
    on the later face, in particular in the second half of the Hilbert range of A's last index cell
    (where a range iterator has to step back onto that cell), crossing / touching / inside / outside"""
    k = base_constants()
    ga = rnd.choice([2, 3])
    gb = rnd.choice([5, 6])
    na, nb = 2 ** ga, 2 ** gb
    s = nb // na
    fa = rnd.choice([1, 3, 5] if quick else [1, 2, 3, 4, 5])
    # generic frame of a two-face loop: "along" = across the common side, "transverse" = along it; the
    # second half of the later face's Hilbert range is the half with the larger transverse coordinate.
    # The half on the later face straddles the face centre (=> its index cell is the whole face) and
    # stays off the other face sides (=> that cell is the loop's last one).
    y0, y1 = rnd.randint(0, na // 2 - 1), rnd.randint(na // 2 + 1, na - 1)
    ys = {y0, y1, na if rnd.random() < 0.5 else rnd.randint(na // 2, na)}
    m = rnd.randint(na // 2 + 1, na - 1)
    glue = {m, rnd.randint(1, na)}
    k.update({"GF": gb, "GA": ga, "GB": gb, "XsA": {0, na}, "YsA": ys, "GlueXs": glue,
              "KindsA": {0}, "KindsB": {0}, "PitchA": {0}, "PitchB": {1, rnd.choice([2, 4])}})
    # B: rectangles from 4 x 4 coordinates: astride / on / inside the far side of the half on the later
    # face, and astride / on the upper transverse side, strictly inside the upper half of the face
    # (the second half of the Hilbert range of the face cell); one coordinate elsewhere
    along = {m * s - rnd.randint(1, s - 2), m * s, m * s + rnd.randint(1, s - 2), rnd.randint(2, nb - 2)}
    trans = {y1 * s - rnd.randint(1, s - 3), y1 * s, y1 * s + rnd.randint(1, s - 2),
             rnd.choice([rnd.randint(2, nb // 2), rnd.randint(nb // 2 + 3, nb - 2)])}
    # for an even later face the two-face loop is transposed (common side y = 0): transpose B's coordinates too
    k["XsB"], k["YsB"] = (along, trans) if fa % 2 == 1 else (trans, along)
    k["FacePairs"] = {fa * 6 + fa, fa * 6 + fa - 1} if not quick else {fa * 6 + fa}
    est = (3 + 2 * 2 * 3) * nrects(along, trans) * 2 * len(k["FacePairs"])
    k["ThinMod"] = max(1, int(est / (2.5 * target)))     # est is an upper bound: many candidates are not valid pairs
    k["ThinRem"] = rnd.randrange(k["ThinMod"])
    return k


def spike_cfg(rnd, quick, target):
    """A = a rectangle given by its 4 corners only, astride the face centre (one face-sized index cell),
    with a thin short spike (1 fine cell wide, 2..3 long) at odd fine coordinates: a loop of 8..10
    vertices whose big index cell contains very short edges that fit in a 4..8-cell quadtree cell;
    B = a rectangle with 40..200 vertices spaced 4..8 fine cells (>= 20 edges, several index cells much
    larger than the spike) standing next to A so that its side cuts the spike, meets its tip, or misses
    it: the only crossings are on the spike's edges.  Reaches the CrossingEdgeQuery branch of the loop
    crosser (an index cell of A covering >= 20 edges of B) with a tiny query edge."""
    k = base_constants()
    gf = rnd.choice([6, 7])
    n = 2 ** gf
    side = rnd.randrange(4)
    out = 1 if side in (0, 1) else -1
    if out > 0:
        base = rnd.choice([v for v in range(n // 2 + 2, n - 24) if v % 4 == 1])
        opp = rnd.randint(2, n // 2 - 2)
    else:
        base = rnd.choice([v for v in range(24, n // 2 - 2) if v % 4 == 3])
        opp = rnd.randint(n // 2 + 2, n - 2)
    c0, c1 = rnd.randint(2, n // 2 - 8), rnd.randint(n // 2 + 8, n - 2)
    if side in (0, 2):
        k.update({"XsA": {base, opp}, "YsA": {c0, c1}})
    else:
        k.update({"XsA": {c0, c1}, "YsA": {base, opp}})
    npos = 3 if quick else 5
    pos = set(rnd.sample([v for v in range(c0 + 3, c1 - 3) if v % 2 == 1], npos))
    k.update({"GF": gf, "GA": gf, "GB": gf, "KindsA": {0}, "KindsB": {0}, "PitchA": {0},
              "PitchB": {8, rnd.choice([4, 8, 16])}, "SpikeSides": {side}, "SpikePos": pos, "SpikeLens": {2, 3}})
    # B: near side cutting the spikes (1 cell beyond A's side), at the tips, on A's side, or beyond the tips;
    # far side 20..45 cells further; across: covering all / some / none of the spikes
    room = (n - base) if out > 0 else base
    near = {base + out, base + 2 * out, base, base + out * rnd.randint(5, 9)}
    far = {base + out * rnd.randint(20, min(45, room))}
    along = near | far
    mid = sorted(pos)[len(pos) // 2]
    across = {max(0, min(pos) - rnd.randint(6, 30)), min(n, max(pos) + rnd.randint(7, 30)), mid - rnd.randint(1, 3), mid + 1}
    if side in (0, 2):
        k["XsB"], k["YsB"] = along, across
    else:
        k["XsB"], k["YsB"] = across, along
    f = rnd.randrange(6)
    k["FacePairs"] = {f * 6 + f}
    est = (1 + npos * 2) * nrects(k["XsB"], k["YsB"]) * 2
    k["ThinMod"] = max(1, int(est / (1.5 * target)))
    k["ThinRem"] = rnd.randrange(k["ThinMod"])
    return k


def small_cfg(rnd, quick):
    """tiny fine level: every cell of the sphere is enumerated, so TLC proves on each generated
    pair that the probe universe is exact and that the corner sequences bound the cell sets;
    all six faces and pairs on two different faces"""
    k = base_constants()
    ga, gb = rnd.choice([(1, 3), (2, 3), (1, 2), (3, 1)])
    gf = max(ga, gb)
    na, nb = 2 ** ga, 2 ** gb
    k.update({"GF": gf, "GA": ga, "GB": gb, "CheckAll": True})
    k["XsA"] = set(range(0, na + 1)) if na <= 2 else set(rnd.sample(range(0, na + 1), 4))
    k["YsA"] = set(range(0, na + 1)) if na <= 2 else set(rnd.sample(range(0, na + 1), 3))
    k["XsB"] = set(range(0, nb + 1)) if nb <= 2 else set(rnd.sample(range(0, nb + 1), 4))
    k["YsB"] = set(range(0, nb + 1)) if nb <= 2 else set(rnd.sample(range(0, nb + 1), 3))
    k["KindsA"] = {0, 1, 2, 3, 4}
    k["KindsB"] = {0, rnd.choice([1, 2, 3, 4])}
    k["PitchA"] = {0, 1}
    k["PitchB"] = {1}
    if ga <= gb:
        k["GlueXs"] = set(rnd.sample(range(1, na + 1), 1))
    if ga < gb:
        k.update({"SpikeSides": {rnd.randrange(4)}, "SpikePos": set(rnd.sample(range(1, 2 ** gf - 1), 2)), "SpikeLens": {1, 2}})
    f1, f2, f3 = rnd.sample(range(6), 3)
    k["FacePairs"] = {f1 * 6 + f1, f2 * 6 + f3} if quick else {f * 6 + f for f in range(6)} | {f2 * 6 + f3, f3 * 6 + f1}
    est = (nrects(k["XsA"], k["YsA"]) * 3.0 + len(k["GlueXs"]) ** 2 * nrects({0, 1}, k["YsA"]) * 2) * nrects(k["XsB"], k["YsB"]) * 1.5 * len(k["FacePairs"])
    k["ThinMod"] = max(1, int(round(est / (250 if quick else 4000))))
    k["ThinRem"] = rnd.randrange(k["ThinMod"])
    return k


def run(ctx):
    rnd = random.Random(ctx.seed)
    quick = ctx.quick()
    ctx.rule = ("TLC enumerates pairs of rectilinear regions (rectangles, L-shapes, polygons with holes/islands/several "
                "shells, and their complements) whose two members live on different cell-grid levels, and every nesting "
                "forest of <= 5 loops x every input order; a pair is non-trivial when both regions have a loop of more "
                "than 32 vertices (index path); counter nontrivial_pairs_edge_free_cell_spans_other_index counts those "
                "where an edge-free index cell of one loop strictly contains >= 2 index cells of the other")
    ctx.assumptions += [
        "grid corners obtained through Cell.Vertex are bit-identical across cells and levels (self-checked by the harness on every run)",
        "cell edges are great-circle arcs, so a rectilinear loop is exactly a union of cells; the model gives every loop a vertex wherever "
        "another loop's vertex lies on its boundary (TLC-checked), so boundaries meet only in shared vertices and identical edges",
        "pairs on two different faces keep one region off the face boundary (corners on a common face edge are not bit-identical)",
        "trace direction: nested/disjoint certificates of random regular loops come from their construction with a margin of >= 10% of the radii; "
        "every fifth event is an equatorial band spanning > 180 degrees of longitude with a thin triangle (one edge between nearly antipodal points) "
        "built well inside it",
    ]
    ctx.specdir()
    target = 500 if quick else 1800

    def pairs(k, label, workers=12, timeout=1500):
        r = ctx.tlc("Gen_Relations", vlib.cfg(init="InitPair", next_="NextPair", constants=k,
                                              invariants=PAIR_INV + (["PairExact"] if k["CheckAll"] else [])),
                    workers=workers, timeout=timeout, heap="6g")
        cases = r.tagged.get("CASE", [])
        ctx.log("%s: %d cases (levels %d/%d, thin 1/%d)" % (label, len(cases), k["GA"], k["GB"], k["ThinMod"]))
        ctx.replay(cases, timeout=1200)

    # 1. the known reproduction shape of the design probe is part of every run:
    #    A = a whole face on level 4 (64 vertices), B = level-7 rectangles well inside / beside / across
    k = base_constants()
    f = rnd.randrange(6)
    k.update({"GF": 7, "GA": 4, "GB": 7, "XsA": {0, 16, rnd.randint(3, 13)}, "YsA": {0, 16},
              "XsB": {40, 48, rnd.randint(49, 120), rnd.randint(0, 39)}, "YsB": {40, 48, rnd.randint(56, 128)},
              "PitchA": {1}, "PitchB": {1}, "FacePairs": {f * 6 + f}})
    pairs(k, "whole-face pairs")

    # 2. tiny level with full-universe proofs (all faces, two-face pairs)
    pairs(small_cfg(rnd, quick), "exhaustive-universe pairs")

    # 2b. wrap-around longitudes on a polar face
    pairs(polar_cfg(rnd, quick), "polar wrap-around polygon pairs")

    # 2c. few-vertex loops with coarse index cells (also over two faces) against small loops
    for _ in range(1 if quick else 6):
        pairs(coarse_cfg(rnd, quick, 450 if quick else 2500), "coarse-cell / two-face pairs")

    # 2d. a coarse few-vertex loop with a thin short spike against many-vertex loops cutting the spike
    for _ in range(1 if quick else 6):
        pairs(spike_cfg(rnd, quick, 400 if quick else 2000), "spike pairs")

    # 3. mixed-level loop pairs and polygon pairs
    levels = [(4, 7), (3, 6), (4, 6), (5, 7), (3, 5), (2, 5), (7, 4), (6, 3), (5, 3)]
    plan = []
    if quick:
        plan.append((rnd.choice(levels[:4]), True, False))
        plan.append((rnd.choice(levels[:6]), rnd.random() < 0.5, True))
    else:
        for lv in levels:
            plan.append((lv, True, False))
            plan.append((lv, False, False))
        for lv in levels[:6] + levels[6:8]:
            plan.append((lv, rnd.random() < 0.6, True))
    for (ga, gb), whole, multi in plan:
        k = pair_cfg(rnd, ga, gb, whole, multi, quick, target)
        pairs(k, "%s pairs" % ("polygon" if multi else "loop"))

    # 4. nesting forests: all forests of <= 4 loops, and of 5 loops (quick: a seeded subset), x all
    #    input orders x two realisations; plain rectangles (4 vertices: linear vertex search) and
    #    subdivided ones (>= 10 vertices: vertex search through the loop's index); thorough adds scaled copies
    def forests(k):
        r = ctx.tlc("Gen_Relations", vlib.cfg(init="InitForest", next_="NextForest", constants=k, invariants=FOREST_INV),
                    workers=12, timeout=1500, heap="6g")
        ctx.replay(r.tagged.get("CASE", []), timeout=1200)

    small = {n * 1000 + c for n in (1, 2, 3, 4) for c in range(math.factorial(n))}
    k = base_constants()
    if quick:
        k.update({"Codes": small | {5000 + c for c in rnd.sample(range(120), 3)}, "Reals": {q("gap"), q("diag")},
                  "Scales": {0}, "Subs": {False, True}, "FBase": rnd.randint(0, 5)})
        forests(k)
    else:
        k.update({"Codes": small | {5000 + c for c in range(120)}, "Reals": {q("gap"), q("diag")},
                  "Scales": {0}, "Subs": {False}, "FBase": rnd.randint(0, 5)})
        forests(k)
        ctx.exhaustive = "all 153 parent vectors (every forest of <= 5 nodes) x all input orders x 2 realisations"
        k = base_constants()
        k.update({"Codes": small | {5000 + c for c in rnd.sample(range(120), 24)}, "Reals": {q("gap"), q("diag")},
                  "Scales": {0, 1, 2}, "Subs": {True}, "FBase": rnd.randint(0, 5)})
        forests(k)

    # 5. trace direction: random large regular loops (and their inverses), laws validated by TLC
    n = 60 if quick else 600
    trace = os.path.join(ctx.scratch, "c07trace.ndjson")
    p = ctx.run_harness(["record", "c07rand", "--seed", str(ctx.seed), "--n", str(n), "--out", trace], timeout=900)
    if p.returncode != 0 or not os.path.exists(trace):
        raise vlib.Infra("recorder c07rand failed rc=%s: %s" % (p.returncode, (p.stderr or "")[-2000:]))
    events = [json.loads(x) for x in open(trace)]
    k = base_constants()
    k["TraceFile"] = q(trace)
    r = ctx.tlc("Gen_Relations", vlib.cfg(init="InitTrace", next_="NextTrace", constants=k, invariants=["TraceLaws"]),
                workers=1, timeout=600)
    if r.distinct != len(events) + 1:
        raise vlib.Infra("trace not consumed: %d states for %d events" % (r.distinct, len(events)))
    ctx.traces += len(events)
    ctx.evaluations += len(events)
    spans = sum(1 for e in events if e.get("span"))
    ctx.nontrivial += spans
    ctx.counters["trace_events"] = ctx.counters.get("trace_events", 0) + len(events)
    ctx.counters["trace_events_edge_free_cell_spans"] = ctx.counters.get("trace_events_edge_free_cell_spans", 0) + spans
    viols = []
    for b in r.tagged.get("BADEVENT", []):
        for law in b["laws"]:
            fam = "/equatorial-band" if b["k"] % 5 == 4 else ""   # the c07BandPair family of the recorder
            viols.append({"key": "c07rand/law/%s/%s%s" % (law, "span" if b["span"] else "nospan", fam),
                          "detail": "trace event %d rejected by TraceLaws (%s)" % (b["line"], law),
                          "case": {"op": "c07rand", "seed": b["seed"], "k": b["k"]}})
    ctx.log("trace: %d events, %d rejected" % (len(events), len(r.tagged.get("BADEVENT", []))))
    ctx.handle_violations(viols)

    # 6. extension: wedge relations at a shared vertex on the integer lattice (spec/Wedges.tla)
    try:
        from checks import ext_wedge
        ext_wedge.run_ext(ctx)
    except vlib.Infra:
        raise
