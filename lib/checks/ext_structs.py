"""EXT: small stateful / discrete data structures with a sequential meaning.

  run_lexicon(ctx), run_windows(ctx)   called at the end of C13 (history independence of small objects)
  run_paddedcell(ctx)                  called at the end of C12 (cell geometry agrees with cell ids)

Specs: Lexicon.tla, Windows.tla, PaddedCells.tla; handlers: p_ext_structs.go (ops lexicon.seq,
lexicon.idset, windows.chain, windows.valid, paddedcell); hooks: /repo/s2/verif_hooks_ext.go.
Violation keys are prefixed lexicon/, windows/, paddedcell/."""
import json
import os
import random

import vlib

LEX_INV = ["Dense", "Injective", "LastCall", "SetIdsFunctional", "Layout"]
SEQ_FAMS = ["prefix", "neg", "sum1", "sum2", "sum3", "sum4", "sum5", "nsum", "pick"]
SET_FAMS = ["small", "ssum7", "ssum8", "ssum9", "ssum10", "ssum11", "spick"]
WIN_INV = ["T_Repr", "T_InvRepr", "T_Dilate", "T_Upsample", "T_ChainValid"]
PC_INV = ["T_Under", "T_Curve", "T_Children", "T_Shrink", "Emit"]


def _dedup(hs):
    uniq = {}
    for x in hs:
        uniq[json.dumps(x, sort_keys=True)] = x
    return list(uniq.values())


def run_lexicon(ctx):
    rnd = random.Random(ctx.seed * 7919 + 11)
    q = ctx.quick()
    ctx.assumptions += [
        "lexicon: idSetLexicon arguments are non-negative (documented precondition); sequenceLexicon arguments are any int32",
        "lexicon: ids are looked up only while valid (issued since the last clear, or implicit empty/singleton ids)",
    ]
    fams = set('"%s"' % f for f in SEQ_FAMS + SET_FAMS)
    pick = set(rnd.sample(range(1, 86), 6))
    # exhaustive: every sequence of add/clear calls over each family (content projected after every call)
    c = vlib.cfg(constants={"MaxLen": 3 if q else 5, "Reads": False, "Fams": fams, "PickIdx": pick}, invariants=LEX_INV)
    r = ctx.tlc("Lexicon", c, workers=6, timeout=1800, heap="6g")
    hs = r.tagged.get("HIST", [])
    if not q:
        # explicit read calls interleaved: exhaustive to a smaller depth and random walks
        c = vlib.cfg(constants={"MaxLen": 4, "Reads": True, "Fams": fams, "PickIdx": pick}, invariants=LEX_INV)
        hs += ctx.tlc("Lexicon", c, workers=6, timeout=1800, heap="6g").tagged.get("HIST", [])
        c = vlib.cfg(constants={"MaxLen": 10, "Reads": True, "Fams": fams, "PickIdx": set(rnd.sample(range(1, 86), 6))}, invariants=LEX_INV)
        hs += ctx.tlc("Lexicon", c, workers=1, simulate="num=3000", depth=12, seed=ctx.seed * 10 + 3).tagged.get("HIST", [])
    hs = _dedup(hs)
    rnd.shuffle(hs)
    ctx.log("lexicon behaviours: %d" % len(hs))
    ctx.replay(hs, timeout=1800)


def run_windows(ctx):
    q = ctx.quick()
    rnd = random.Random(ctx.seed * 31337 + 2)
    ctx.assumptions += [
        "windows: upsample is specified exactly only for integer multiples of the size (block replication); for other "
        "target sizes only the laws (valid window of the requested size, corner cells filled) are demanded - the "
        "documentation ('an upscaled version of this window') does not fix the rounding",
        "windows: upsample targets are not smaller than the window (the C++ original CHECKs this; the Go TODO leaves it open)",
    ]
    consts = ({"MaxDim": 4, "MaxRad": 3, "MaxUp": 5, "ChainDim": 3, "ChainLen": 2, "InvRows": 2, "InvVal": 3,
               "Parts": 3, "Part": rnd.randrange(3)} if q else
              {"MaxDim": 5, "MaxRad": 4, "MaxUp": 10, "ChainDim": 3, "ChainLen": 4, "InvRows": 3, "InvVal": 4, "Parts": 1, "Part": 0})
    r = ctx.tlc("Windows", vlib.cfg(constants=consts, invariants=WIN_INV), workers=6, timeout=2400, heap="6g")
    cases = r.tagged.get("HIST", []) + r.tagged.get("CASE", [])
    ctx.log("window call sequences: %d, isValid cases: %d" % (len(r.tagged.get("HIST", [])), len(r.tagged.get("CASE", []))))
    ctx.replay(cases, timeout=1800)


def _anchor_text(a):
    return "<<%d, <<%s>>>>" % (a[0], ", ".join(str(d) for d in a[1]))


def run_paddedcell(ctx):
    rnd = random.Random(ctx.seed * 104729 + 5)
    q = ctx.quick()
    ctx.assumptions += [
        "paddedcell: ShrinkToFit is predicted for rect = the exact uv bound of a descendant with padding 0 and a quarter "
        "of the descendant's width: closed bounds meet exactly the neighbours within Chebyshev distance 1 on the "
        "descendant's level (the implementation's own 1.5*dblEpsilon guard is far below a leaf width)",
        "paddedcell: floats are compared with ==: both sides evaluate the same expression on the same exact s/t values "
        "(Cell.Vertex / Cell.BoundUV are the reference for vertices and bounds)",
    ]
    L, D = (3, 2) if q else (4, 3)
    anchors = [(f, []) for f in range(6)]
    # a leaf-level anchor (targets reach level 30), mid-level anchors, corner/edge huggers
    anchors.append((rnd.randrange(6), [rnd.randrange(4) for _ in range(30 - L - D)]))
    anchors.append((rnd.randrange(6), [rnd.randrange(4) for _ in range(30 - L)]))       # cells reach level 30
    for _ in range(1 if q else 5):
        anchors.append((rnd.randrange(6), [rnd.randrange(4) for _ in range(rnd.randrange(1, 30 - L - D))]))
    if not q:
        anchors.append((rnd.randrange(6), [0] * 24))
        anchors.append((rnd.randrange(6), [3] * 25))
        anchors.append((rnd.randrange(6), [2] * 12))
        anchors.append((rnd.randrange(6), [1] * 27))
    d = ctx.specdir()
    with open(os.path.join(d, "PaddedCells_MC.tla"), "w") as f:
        f.write("---- MODULE PaddedCells_MC ----\nEXTENDS PaddedCells\nMCAnchors == <<%s>>\n====\n" %
                ", ".join(_anchor_text(a) for a in anchors))
    c = vlib.cfg(constants={"L": L, "D": D}, invariants=PC_INV) + "CONSTANT Anchors <- MCAnchors\n"
    r = ctx.tlc("PaddedCells_MC", c, workers=6, timeout=2400, heap="6g")
    cases = r.tagged.get("CASE", [])
    rnd.shuffle(cases)
    ctx.log("padded cells: %d (roots: %d)" % (len(cases), len(anchors)))
    ctx.replay(cases, timeout=1800)
