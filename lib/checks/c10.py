"""C10: bounds are conservative (nothing contained lies outside its bound); convex hull.

Direction A: TLC (Gen_Hull, Gen_Bounds) enumerates point sets with their exact hull and the W1/W2
regions with the witnesses the model certifies to be inside; the harness executes them.
Direction B: every region/witness is recorded as an event (floats as order-preserving keys, the
library's own answers as booleans) and TLC validates each event against Trace_Bounds.tla; a
rejected line is a violation keyed by the violated relation and the input class, confirmed by
re-recording that single input in a fresh process."""
import json
import math
import os
import random
import re
import struct
import vlib

LEVEL = "model_checking"


# ------------------------------------------------------------------ trace machinery (shared with C18, C20)
def fkey(x):
    """order-preserving key of a float64 (same as emb.FloatKey)."""
    if x != x:
        return [-1, -1, -1]
    if x == 0:
        x = 0.0
    b = struct.unpack("<Q", struct.pack("<d", x))[0]
    if b >> 63:
        b = (~b) & ((1 << 64) - 1)
    else:
        b |= 1 << 63
    return [b >> 42, (b >> 21) & ((1 << 21) - 1), b & ((1 << 21) - 1)]


def header():
    return {"ev": "hdr", "pi": fkey(math.pi), "npi": fkey(-math.pi), "zero": fkey(0.0), "twopi": fkey(2 * math.pi),
            "fourpi": fkey(4 * math.pi), "one": fkey(1.0), "halfpi": fkey(math.pi / 2), "nhalfpi": fkey(-math.pi / 2)}


class TraceRun:
    """Runs cases through `vcheck replay` with a trace file and validates the trace with TLC.

    Pass 1 (all cases): a rejected line gives a candidate (relation, input class, case restricted to the
    single region/input that produced the line).  Pass 2 (settle): the candidates are re-recorded in ONE
    fresh process in detail mode and validated again; the keys of the rejections of pass 2 are final."""

    def __init__(self, ctx, envvar, module, constants, keyprefix, keyfn=None, suffixes=()):
        self.ctx = ctx
        self.envvar = envvar
        self.module = module
        self.constants = constants
        self.keyprefix = keyprefix
        self.keyfn = keyfn or (lambda rel, info, reg: "%s/%s/%s" % (keyprefix, rel, reg.get("cls", "?")))
        self.suffixes = suffixes   # magnitude suffixes the detail pass may append to a relation name
        self.n = 0
        self.events = 0

    def record(self, cases, tag, timeout=1500, detail=False):
        self.n += 1
        path = os.path.join(self.ctx.scratch, "trace-%s-%d.ndjson" % (tag, self.n))
        with open(path, "w") as f:
            f.write(json.dumps(header(), separators=(",", ":")) + "\n")
        with open(path + ".info", "w") as f:
            f.write('{"cid":-1,"sub":-1,"cls":"hdr"}\n')
        os.environ[self.envvar] = path
        if detail:
            os.environ[self.envvar.replace("_TRACE", "_DETAIL")] = "1"
        try:
            res = self.ctx.replay(cases, confirm=False, timeout=timeout, name="%s-%d.ndjson" % (tag, self.n))
        finally:
            os.environ.pop(self.envvar, None)
            os.environ.pop(self.envvar.replace("_TRACE", "_DETAIL"), None)
        return res, path

    def validate(self, path, workers=8, count=True, detail=False):
        """Returns list of (line number, [relations])."""
        n = sum(1 for _ in open(path))
        if n <= 1:
            return []
        if count:
            self.events += n - 1
        chunks = max(1, min(64, n // 200))
        consts = dict(self.constants)
        consts.update({"TraceFile": '"%s"' % path, "Chunks": chunks, "Detail": detail})
        r = self.ctx.tlc(self.module, vlib.cfg(constants=consts, invariants=["Verdict"]), workers=workers,
                         timeout=1800, heap="6g", count=count)
        if r.distinct != n + chunks:
            # every line is one state, plus the chunk roots
            raise vlib.Infra("trace validation visited %d states for %d lines (+%d roots)" % (r.distinct, n, chunks))
        return [(x["line"], x["rel"]) for x in r.tagged.get("REJ", [])]

    def rejections(self, path, rej):
        """-> list of (relation, info of the event, info of its region, detail text)."""
        out = []
        if not rej:
            return out
        infos = open(path + ".info").read().split("\n")
        lines = open(path).read().split("\n")
        for ln, rels in rej:
            info = json.loads(infos[ln - 1])
            reg = info
            if "back" in info:
                reg = json.loads(infos[ln - 1 - info["back"]])
            for rel in rels:
                detail = "%s: %s | %s | event %s" % (rel, json.dumps(reg, separators=(",", ":")),
                                                    json.dumps(info, separators=(",", ":")) if reg is not info else "", lines[ln - 1])
                out.append((rel, info, reg, detail[:2500]))
        return out

    def run(self, cases, tag, workers=8):
        """Pass 1.  Returns candidates [{key (provisional), detail, case, trace}] incl. harness violations."""
        for i, c in enumerate(cases):
            c["cid"] = i
        res, path = self.record(cases, tag)
        cands = [dict(v, trace=False) for v in res.get("violations", [])]
        for c in cands:
            c["case"] = json.loads(c["case"]) if isinstance(c["case"], str) else c["case"]
        for rel, info, reg, detail in self.rejections(path, self.validate(path, workers=workers)):
            case = dict(cases[info["cid"]])
            case["only"] = info["sub"]
            cands.append({"key": "%s/%s/%s" % (self.keyprefix, rel, reg.get("cls", "?")), "detail": detail, "case": case, "trace": True})
        return cands


def settle(ctx, tr, cands, reps=2, limit=60):
    """Pass 2: re-record representatives of every candidate key in one fresh process (detail mode),
    validate again with TLC, and classify the reproduced keys as known findings or violations."""
    groups = {}
    for v in cands:
        groups.setdefault(v["key"], [])
        if len(groups[v["key"]]) < reps:
            groups[v["key"]].append(v)
    if not groups:
        return
    if len(groups) > limit:
        ctx.notes.append("more than %d distinct candidate keys; only the first %d are confirmed" % (limit, limit))
        groups = dict(list(groups.items())[:limit])
    cases, owner = [], []
    for key, vs in groups.items():
        for v in vs:
            c = dict(v["case"])
            c["cid"] = len(cases)
            cases.append(c)
            owner.append(key)
    res, path = tr.record(cases, "confirm", detail=True)
    final = {}            # final key -> (detail, case)
    reproduced = set()    # provisional keys
    for v in res.get("violations", []):
        case = v["case"] if isinstance(v["case"], dict) else json.loads(v["case"])
        cid = case.get("cid", 0)
        if not groups.get(owner[cid], [{}])[0].get("trace", True) and v["key"] == owner[cid]:
            reproduced.add(owner[cid])
            final.setdefault(v["key"], (v["detail"], cases[cid]))
    for rel, info, reg, detail in tr.rejections(path, tr.validate(path, workers=4, count=False, detail=True)):
        cid = info["cid"]
        prov = owner[cid]
        # the provisional key is reproduced when the same strict relation is rejected again for that input
        base = rel
        for sfx in tr.suffixes:
            if base.endswith(sfx):
                base = base[:-len(sfx)]
        if prov == "%s/%s/%s" % (tr.keyprefix, base, reg.get("cls", "?")):
            reproduced.add(prov)
            final.setdefault(tr.keyfn(rel, info, reg), (detail, cases[cid]))
    missing = [k for k in groups if k not in reproduced]
    if missing:
        raise vlib.Infra("candidate violation(s) not reproduced in a fresh process: %s" % ", ".join(missing[:5]))
    known = vlib.load_known(ctx.prop)
    for key, (detail, case) in final.items():
        if any(x.key == key for x in ctx.violations) or any(k == key for k, _ in ctx.known_hits):
            continue
        if key in known:
            ctx.known_hits.append((key, known[key]))
        else:
            ctx.violations.append(vlib.Violation(key, detail, case))


# ------------------------------------------------------------------ C10
HULL_INV = ["Hemisphere", "CycleThm", "ConvexThm", "ClassThm", "ContainThm", "Emit"]


def c10_key(rel, info, reg):
    """Final key: strict relation + magnitude suffix (from the detail pass) + input class.  For ulp/small
    magnitudes the class is the region kind (the defect sits in the bound function shared by all
    constructions of that kind), except for cap-bound on caps where the constructing operation matters and
    for cells (level 0 has its own code path)."""
    cls = reg.get("cls", "?")
    kind = reg.get("kind", cls.split("/")[0])
    if (rel.endswith("-ulp") or rel.endswith("-small")) and not (kind == "cap" and rel.startswith("cap-bound")) and kind != "cell":
        cls = kind
    if kind == "cell" and rel.startswith("rect-bound"):
        # the known finding c10/rect-bound-ulp/cell/L0 is about the LONGITUDE range of a face cell: a witness that
        # falls outside the latitude range is a different failure and gets a key of its own
        try:
            m = re.match(r"lat\[([^,]+),([^\]]+)\]", reg.get("rect", ""))
            lo, hi, lat = float(m.group(1)), float(m.group(2)), float(info["lat"])
            if not (lo <= lat <= hi):
                rel += "-lat"
        except Exception:
            pass
    return "c10/%s/%s" % (rel, cls)


def scenes_from_tlc(ctx, windows, n, sub):
    """One TLC run of Gen_Bounds for a set of windows (tuples) and a W1 sub-lattice."""
    ctx.specdir()
    ctx._c10mc = getattr(ctx, "_c10mc", 0) + 1
    name = "Gen_Bounds_MC%d" % ctx._c10mc
    wtxt = ", ".join("<<%d, %d, %d, %d, %d, %d>>" % tuple(w) for w in windows)
    with open(os.path.join(ctx.specdir(), name + ".tla"), "w") as f:
        f.write("---- MODULE %s ----\nEXTENDS Gen_Bounds\nWindowsDef == {%s}\n====\n" % (name, wtxt))
    c = vlib.cfg(constants={"N": n, "SubIdx": set(sub)}, invariants=["TriCert", "InclCert", "HoleCert", "Emit"])
    c += "CONSTANT Windows <- WindowsDef\n"
    r = ctx.tlc(name, c, workers=8, timeout=1200)
    return r.tagged.get("CASE", [])


def run(ctx):
    rnd = random.Random(ctx.seed)
    q = ctx.quick()
    ctx.rule = ("regions: rectangles of grid cells (W2; windows around the poles of faces 2/5, face corners, the antimeridian; "
                "levels 1..30), lattice triangles (W1, incl. vertices at the poles and edges through them), their complements, "
                "polygons with holes, and seeded caps/cells/cell unions/rectangles/polylines/regular loops; a witness event is "
                "non-trivial when the region's own containment test or the model's integer certificate accepts the point "
                "(counter witness_contained); hull cases: every subset of <= MaxK points of a cube-face lattice, non-trivial "
                "when it has an exactly collinear triple or an interior point")
    ctx.assumptions += [
        "the sufficiency of the padding constants (3.84, 1.16, 5, 9 eps ...) for ALL floats is NOT decided: TLC decides order relations "
        "between floats the library reports (keys) and exact W1/W2 certificates; the check hunts counterexamples in adversarial worlds",
        "the oracle for float inputs is relational: witness accepted by the region's own crossing-parity test (without the bound "
        "pre-check of Loop.ContainsPoint) or certified inside by integer comparison => its LatLngFromPoint is in RectBound, the point "
        "is in CapBound and its leaf cell is covered by CellUnionBound",
        "sub-region clause only for grid rectangles that do not touch a pole (documented restriction of ExpandForSubregions)",
        "polyline edge-interior points (s2.Interpolate) are compared with the latitude bound with a slack of 1e-14 rad: a gross-error "
        "detector, not a documented guarantee; polyline vertices are hard witnesses",
        "the verdict of every relation is strict; in the confirmation pass a rejected bound relation gets a magnitude suffix in its key "
        "(-ulp: satisfied when the witness coordinates move by 1e-14, -small: 1e-6) computed from slackened copies logged by the harness",
        "hull query histories (HullQuery.tla): after every query step CapBound (with 1e-12 slack, see the known ulp findings) and "
        "ConvexHull must contain every vertex added so far, equal the model hull (exactly when no triple is collinear and <= 8 points) "
        "and equal the answer of a fresh query object fed the same geometry",
        "hull: exact vertex cycle predicted on the dyadic embedding always and on the unit embedding only when no triple is exactly "
        "collinear; otherwise strictly extreme points must be vertices and strictly interior points must not",
    ]
    tr = TraceRun(ctx, "VERIF_C10_TRACE", "Trace_Bounds", {"N": 1}, "c10", keyfn=c10_key, suffixes=("-ulp", "-small"))
    cands = []

    # ---- direction A: convex hull of lattice point sets
    cases = []
    for rep in range(1 if q else 4):
        n = 2 if (q or rep < 2) else 3
        side = (2 * n + 1) ** 2
        sub = set(rnd.sample(range(1, side + 1), 9 if q else 12))
        axis, sgn = rnd.choice([1, 2, 3]), rnd.choice([1, -1])
        r = ctx.tlc("Gen_Hull", vlib.cfg(constants={"N": n, "Axis": axis, "NegSide": sgn < 0, "SubIdx": sub,
                                                   "MaxK": 5 if q else 6}, invariants=HULL_INV), workers=8, timeout=1500)
        for c in r.tagged.get("CASE", []):
            c["perm"] = rnd.randrange(1 << 30)
            cases.append(c)
    ctx.log("hull cases: %d" % len(cases))

    # ---- direction A: ConvexHullQuery as a state machine (HullQuery.tla): behaviours replayed on one object
    hist = {}
    for rep in range(2 if q else 8):
        grid = rnd.sample(range(1, 82), 5 if rep % 2 == 0 else 7)
        forests = {1, 2, 3, 4} if rep % 2 == 0 else set(rnd.sample([1, 2, 3, 4], 2))
        c = vlib.cfg(constants={"N": 4, "Axis": rnd.choice([1, 2, 3]), "NegSide": rnd.random() < 0.5, "SubIdx": set(grid),
                                "Forests": forests, "MaxLen": 5 if q else 7},
                     invariants=["HullCoversAll", "SubsetThm"])
        r = ctx.tlc("HullQuery", c, workers=6, simulate="num=%d" % (9 if q else 40), depth=18, seed=ctx.seed * 10 + rep, timeout=900)
        for hh in r.tagged.get("HIST", []):
            hist[json.dumps(hh, sort_keys=True)] = hh
    hq = list(hist.values())
    ctx.log("hull query behaviours: %d" % len(hq))
    cases += hq

    # ---- direction A: W2 windows and W1 triangles (one TLC run per tier step)
    windows = []
    polar = [2, 30] if q else [1, 2, 3, 5, 12, 24, 29, 30]
    for g in polar:
        half = 1 << (g - 1)
        win = 4 if g >= 2 else 2
        for f in ([rnd.choice([2, 5])] if q else [2, 5]):
            # the pole is the centre of the window
            windows.append((f, g, half - win // 2, half - win // 2, win, min(g + (0 if q else 1), 30)))
    for g in ([3] if q else [2, 4, 30]):
        s = 1 << g
        win = min(3, s)
        windows.append((rnd.randrange(6), g, 0, 0, win, min(g + 1, 30)))                          # face corner
        windows.append((3, g, s // 2 - 1, max(0, s // 2 - 2), win, min(g + 1, 30)))               # antimeridian inside
        if not q:
            windows.append((rnd.randrange(6), g, s - win, rnd.randrange(0, max(1, s - win)), win, g))   # face edge
    all26 = list(range(1, 27))
    scenes = scenes_from_tlc(ctx, windows, 1, all26 if not q else rnd.sample(all26, 11))
    w2 = [c for c in scenes if c["op"] == "c10.w2"]
    w1 = [c for c in scenes if c["op"] == "c10.w1"]
    rnd.shuffle(w2)
    rnd.shuffle(w1)
    if q:
        # keep every window represented
        bywin = {}
        for c in w2:
            bywin.setdefault((c["f"], c["g"]), []).append(c)
        w2 = [c for v in bywin.values() for c in v[:6]]
        w1 = w1[:40]
    else:
        w1 += scenes_from_tlc(ctx, [], 2, rnd.sample(range(1, 125), 16))
        # every window stays represented; the trace volume is capped (TLC validates ~5k events/s)
        bywin = {}
        for c in w2:
            bywin.setdefault((c["f"], c["g"]), []).append(c)
        w2 = [c for v in bywin.values() for c in v[:8]]
        w1 = w1[:300]
    for c in w2:
        c["dense"] = rnd.random() < 0.25
    ctx.log("W2 scenes: %d, W1 triangles: %d" % (len(w2), len(w1)))

    # ---- direction B: seeded float families
    fam = []
    for name, cnt in (("cap", 16), ("cell", 40), ("cellunion", 16), ("rect", 30), ("loop", 10), ("meridian", 24), ("index", 40), ("polyline", 60), ("longline", 60), ("hull", 60)):
        for k in range(1 if q else 5):
            fam.append({"op": "c10.rand", "family": name, "seed": ctx.seed * 100 + k, "count": cnt})

    batch = cases + w2 + w1 + fam
    # trace files of at most ~120k events each (TLC validates 5-8k events/s and keeps the whole file in memory)
    est = {"c10.hull": 0, "c10.hullq": 0, "c10.w2": 1400, "c10.w1": 360, "cap": 1150, "cell": 215, "cellunion": 450, "rect": 160, "loop": 700, "meridian": 700, "index": 120,
           "polyline": 25, "longline": 40, "hull": 3}
    group, size = [], 0
    for c in batch:
        e = est[c["op"]] if c["op"] != "c10.rand" else est[c["family"]] * c["count"]
        if group and size + e > 120000:
            cands += tr.run(group, "c10")
            group, size = [], 0
        group.append(c)
        size += e
    if group:
        cands += tr.run(group, "c10")
    ctx.counters["trace_events_validated_by_tlc"] = tr.events
    settle(ctx, tr, cands)
