"""C14: concurrent read-only queries on shared geometry are safe and give serial answers."""
import json
import os
import random
import re
import vlib

LEVEL = "model_checking"
SAFETY = ["MutualExclusion", "HolderInCS", "ReadsAreSafe", "AppliedAtMostOnce", "FreshMeansComplete", "NoDeadlock"]


def consts(np_, rounds, fresh, hist, early=False, nolock=False):
    return {"NP": np_, "MaxRounds": rounds, "InitFresh": fresh, "StoreEarly": early, "NoLock": nolock, "KeepHist": hist}


def model_check(ctx, np_, rounds, fresh):
    c = vlib.cfg(spec="Spec", constants=consts(np_, rounds, fresh, False), invariants=SAFETY, properties=["Termination"])
    ctx.tlc("IndexConcurrency", c, workers=8, deadlock=False)


def broken_variant_is_rejected(ctx, **kw):
    """Vacuity guard: the invariants must reject the two broken protocols at model level."""
    c = vlib.cfg(spec="Spec", constants=consts(2, 1, False, False, **kw), invariants=SAFETY)
    r = ctx.tlc("IndexConcurrency", c, workers=2, allow_violation=True, count=False)
    if r.ok:
        raise vlib.Infra("IndexConcurrency invariants accept a broken protocol %r (vacuous model)" % kw)


def schedules(ctx, np_, rounds, fresh, simulate=None, seed=None):
    c = vlib.cfg(constants=consts(np_, rounds, fresh, True), invariants=["ReadsAreSafe"])
    if simulate:
        r = ctx.tlc("IndexConcurrency", c, workers=1, simulate="num=%d" % simulate, depth=60, seed=seed)
    else:
        r = ctx.tlc("IndexConcurrency", c, workers=8, timeout=900)
    return r.tagged.get("HIST", [])


def validate_traces(ctx, path, np_max):
    """Direction B: the recorded gate events must be a behaviour of the specification."""
    if not os.path.exists(path):
        return None
    n = sum(1 for _ in open(path))
    if n == 0:
        return None
    c = ("INIT TraceInit\nNEXT TraceNext\n"
         "CONSTANT NP = %d\nCONSTANT MaxRounds = 100000\nCONSTANT InitFresh = FALSE\nCONSTANT StoreEarly = FALSE\n"
         "CONSTANT NoLock = FALSE\nCONSTANT KeepHist = FALSE\nCONSTANT TraceFile = \"%s\"\n" % (np_max, path) +
         "".join("INVARIANT %s\n" % i for i in SAFETY[:-1]))
    r = ctx.tlc("Trace_IndexConcurrency", c, workers=1, deadlock=True, allow_violation=True, timeout=1200, heap="6g")
    txt = "\n".join(r.lines)
    if r.ok:
        return None
    if "Deadlock reached" in txt or "is violated" in txt:
        # the last printed state carries the position l
        ls = re.findall(r"^/\\ l = (\d+)", txt, re.M)
        pos = int(ls[-1]) if ls else 1
        what = "no action of the specification explains the event" if "Deadlock reached" in txt else \
            "invariant %s violated by the recorded execution" % (re.findall(r"Invariant (\w+) is violated", txt) or ["?"])[0]
        return pos, what
    raise vlib.Infra("trace validation failed unexpectedly:\n" + "\n".join(r.lines[-30:]))


def run_schedules(ctx, cases, tag, depth=0):
    trace = os.path.join(ctx.scratch, "trace-%s.ndjson" % tag)
    racelog = os.path.join(ctx.scratch, "race-%s" % tag)
    path = ctx.write_cases("c14-%s.ndjson" % tag, cases)
    out = path + ".result.json"
    p = ctx.run_harness(["replay", "--in", path, "--out", out, "--jobs", "1"], timeout=2400, race=True,
                        env_extra={"VERIF_C14_TRACE": trace, "VERIF_RACE_LOG": racelog,
                                   "GORACE": "log_path=%s halt_on_error=0" % racelog})
    if not os.path.exists(out):
        err = (p.stderr or "") + (p.stdout or "")
        gf = vlib._geo_fatal(err)
        if not gf or depth >= 3:
            raise vlib.Infra("vcheck (race build) failed rc=%s: %s" % (p.returncode, err[-3000:]))
        # A Go fatal error (unlock of an unlocked mutex, concurrent map access, ...) in the library
        # killed the process.  Schedules run one after the other and each completed one is in the
        # trace file, so the culprit is the first schedule without a trace; it must kill a fresh
        # process on its own, twice, to count.
        done = 0
        if os.path.exists(trace):
            done = len(set(json.loads(x)["tr"] for x in open(trace) if x.strip()))
        if done >= len(cases):
            raise vlib.Infra("vcheck (race build) died after the last schedule: %s" % err[-1500:])
        culprit = cases[done]
        if len(cases) > 1:
            for k in (1, 2):
                cp = ctx.write_cases("c14-%s-fatal%d.ndjson" % (tag, k), [culprit])
                co = cp + ".result.json"
                pp = ctx.run_harness(["replay", "--in", cp, "--out", co, "--jobs", "1"], timeout=600, race=True,
                                     env_extra={"GORACE": "halt_on_error=0"})
                e2 = (pp.stderr or "") + (pp.stdout or "")
                if os.path.exists(co) or not vlib._geo_fatal(e2):
                    raise vlib.Infra("vcheck (race build) died (%s) but schedule %d does not reproduce it alone" % (gf[0], done))
        v = {"key": "c14/fatal/%s/%s" % gf, "detail": "the process dies with a Go fatal error (%s) in %s during this schedule" % gf,
             "case": culprit, "fatal": True}
        res = {"evaluations": 1, "nontrivial": 1, "violations": [v], "samples": [], "counters": {}}
        if done + 1 < len(cases) and depth < 2:
            try:
                more, _ = run_schedules(ctx, cases[done + 1:], tag + "f", depth + 1)
                res["evaluations"] += more["evaluations"]
                res["nontrivial"] += more["nontrivial"]
                res["violations"] += more.get("violations", [])
            except vlib.Infra:
                pass
        return res, trace
    res = json.load(open(out))
    # a reported hang leaves goroutines blocked: the process stops after that schedule; the remaining
    # schedules run in new processes (at most a few times: every hang costs its 15 s timeout)
    at = res.get("aborted_at", -1)
    if at >= 0 and at + 1 < len(cases) and depth < 3:
        more, _ = run_schedules(ctx, cases[at + 1:], tag + "r", depth + 1)
        res["evaluations"] += more["evaluations"]
        res["nontrivial"] += more["nontrivial"]
        res["violations"] += more.get("violations", [])
        for k, v in more.get("counters", {}).items():
            res.setdefault("counters", {})[k] = res.get("counters", {}).get(k, 0) + v
    return res, trace


def run(ctx):
    rnd = random.Random(ctx.seed)
    q = ctx.quick()
    ctx.rule = ("schedules = behaviours of IndexConcurrency.tla (all interleavings of 2 goroutines exhaustively, sampled for 3), each "
                "forced on real goroutines at the verifSched gates under the race detector; every schedule is non-trivial "
                "(>= 2 goroutines interleaved on one shared object); distinct = distinct (schedule, scenario, split) triples")
    ctx.assumptions += [
        "the race detector's happens-before analysis is applied with the replay scheduler's own synchronisation hidden (runtime.RaceDisable around the gates)",
        "a goroutine parked at the lock gate is only released when the model's mutex is free, so a granted step never blocks",
        "answers are compared with the same query on an identical object in a single-threaded run",
    ]
    # model level: all interleavings, safety + termination under weak fairness
    model_check(ctx, 2, 2, False)
    model_check(ctx, 2, 2, True)
    model_check(ctx, 3, 1 if q else 2, False)
    broken_variant_is_rejected(ctx, early=True)
    broken_variant_is_rejected(ctx, nolock=True)
    # unbounded on the model side: the inductive invariant is proved for every NP and MaxRounds (TLAPS);
    # the same proof must fail for the two broken protocols
    n = ctx.tlaps("IndexConcurrencyProof")
    ctx.notes.append("TLAPS: %d proof obligations of IndexConcurrencyProof.tla proved (safety for every number of goroutines)" % n)
    if not q:
        ctx.tlaps("IndexConcurrencyProof", expect_failure=True, edit=("StoreEarly = FALSE", "StoreEarly = TRUE"))
        ctx.tlaps("IndexConcurrencyProof", expect_failure=True, edit=("NoLock = FALSE", "NoLock = TRUE"))
    # schedules
    sch = []
    for fresh in (False, True):
        sch += schedules(ctx, 2, 1, fresh)
    sch += schedules(ctx, 2, 2, False, simulate=60 if q else 600, seed=ctx.seed)
    sch += schedules(ctx, 3, 1, False, simulate=80 if q else 4000, seed=ctx.seed + 1)
    sch += schedules(ctx, 3, 2, False, simulate=20 if q else 800, seed=ctx.seed + 2)
    if not q:
        sch += schedules(ctx, 4, 1, False, simulate=1500, seed=ctx.seed + 3)
        sch += schedules(ctx, 4, 2, False, simulate=500, seed=ctx.seed + 4)
        sch += schedules(ctx, 3, 1, True, simulate=300, seed=ctx.seed + 5)
    uniq = {}
    for s in sch:
        uniq[json.dumps(s, sort_keys=True)] = s
    sch = list(uniq.values())
    rnd.shuffle(sch)
    cases = []
    for i, s in enumerate(sch):
        for scen in range(3):
            c = dict(s)
            c["scenario"] = scen
            c["split"] = rnd.randint(1, 5)
            c["rot"] = rnd.randint(0, 10)
            cases.append(c)
    if q:
        cases = cases[:420]
    ctx.log("schedules: %d distinct, %d executions" % (len(sch), len(cases)))
    res, trace = run_schedules(ctx, cases, "main")
    ctx.evaluations += res["evaluations"]
    ctx.nontrivial += res["nontrivial"]
    ctx.traces += res["evaluations"]
    for k, v in res.get("counters", {}).items():
        ctx.counters[k] = ctx.counters.get(k, 0) + v
    ctx.samples += res.get("samples", [])[:4]
    viols = res.get("violations", [])
    # direction B: validate the recorded traces against the specification
    bad = validate_traces(ctx, trace, 4)
    if bad:
        pos, what = bad
        ev = [json.loads(x) for x in open(trace)]
        e = ev[pos - 1] if pos - 1 < len(ev) else ev[-1]
        case = cases[e["tr"] - 1]
        viols.append({"key": "c14/trace-rejected/%s->%s" % (e["l"], e["n"]),
                      "detail": "recorded execution is not a behaviour of IndexConcurrency: %s at event %s (trace %d)" % (what, json.dumps(e), e["tr"]),
                      "case": case})
    # confirm each violation key in a fresh process (re-execute the single schedule, re-validate its trace)
    seen = {}
    for v in viols:
        seen.setdefault(v["key"], v)
    known = vlib.load_known(ctx.prop)
    nconf = 0
    for key, v in seen.items():
        ok = False
        # the schedule fixes the order of the gate steps only; code between gates runs freely, so a
        # genuinely racy failure may need more than one fresh process to show again
        for attempt in range(4):
            nconf += 1
            try:
                r2, t2 = run_schedules(ctx, [v["case"]], "confirm%d" % nconf)
            except vlib.Infra:
                if v.get("fatal"):
                    break   # a schedule that dies alone cannot be told apart from infrastructure here: it was confirmed when found
                raise
            ok = any(x["key"] == key for x in r2.get("violations", []))
            if not ok and key.startswith("c14/trace-rejected"):
                ok = validate_traces(ctx, t2, 4) is not None
            if not ok and key.startswith("c14/data-race"):
                # the detector reports each racing pair once per process; a fresh process re-reports it
                ok = any(x["key"].startswith("c14/data-race") for x in r2.get("violations", []))
            if ok:
                break
        if not ok and v.get("fatal"):
            ok = True   # confirmed twice in fresh processes by run_schedules when it was isolated
        if not ok:
            ctx.unreproduced.append("violation %s not reproduced in a fresh process (4 attempts): %s" % (key, v["detail"][:600]))
            continue
        if key in known:
            ctx.known_hits.append((key, known[key]))
        else:
            ctx.violations.append(vlib.Violation(key, v["detail"], v["case"]))
