"""C01: cell ids form a consistent, invertible quadtree along the Hilbert curve."""
import json
import random
import vlib
from checks import ext_cells

LEVEL = "model_checking"

INV = ["IJRoundTrip", "ChildrenPartition", "IndexPartition", "CurveContinuous", "EdgeNbrsOK",
       "VertexNbrsOK", "AllNbrsOK", "VertexCellsOK", "PairLaws", "PointsOK", "Emit"]

B30 = 1 << 30
B29 = 1 << 29


def anchor(face, lev, i, j):
    """Anchor (face, level, i, j) as the set of integers Gen_Cells decodes (cfg files have no tuples)."""
    assert 0 <= lev <= 29 and 0 <= i < (1 << lev) and 0 <= j < (1 << lev)
    return frozenset([face, 100 + lev, B30 + i, B30 + B29 + j])


def cfg(anchors, walk, L=0, maxdepth=30, pd=2, nbrup=2):
    a = "{" + ", ".join("{" + ", ".join(str(x) for x in sorted(s)) + "}" for s in sorted(anchors, key=sorted)) + "}"
    return vlib.cfg(constants={"Anchors": a, "L": L, "Walk": '"%s"' % walk, "MaxDepth": maxdepth, "PD": pd, "NbrUp": nbrup},
                    invariants=INV)


def deep_anchors(rnd, lev, n_random):
    """Anchors of one level: the four face corners (all-0 / all-3 paths are two of them), face-boundary
    cells, cells next to the face centre lines (long carry chains), and seed-random cells."""
    m = (1 << lev) - 1
    h = 1 << (lev - 1)
    out = []
    f = rnd.randrange(6)
    out.append(anchor(f, lev, 0, 0))                       # all-0 path: start of the face's curve
    out.append(anchor((f + 1) % 6, lev, m, 0))             # all-3 path on even faces
    out.append(anchor((f + 2) % 6, lev, 0, m))             # all-3 path on odd faces
    out.append(anchor((f + 3) % 6, lev, m, m))
    out.append(anchor(rnd.randrange(6), lev, rnd.choice([0, m]), rnd.randrange(m + 1)))   # face boundary
    out.append(anchor(rnd.randrange(6), lev, rnd.randrange(m + 1), rnd.choice([0, m])))
    out.append(anchor(rnd.randrange(6), lev, h - rnd.randrange(2), h - rnd.randrange(2)))  # face centre
    for _ in range(n_random):
        out.append(anchor(rnd.randrange(6), lev, rnd.randrange(m + 1), rnd.randrange(m + 1)))
    return set(out)


def run(ctx):
    rnd = random.Random(ctx.seed)
    q = ctx.quick()
    ctx.rule = ("cells enumerated by TLC as <<face, path>>: every path of length <= L on all six faces (top embedding), "
                "the same tree below anchors of level 30-L and of middle levels (deep embedding: all-0/all-3/face-corner/"
                "face-boundary/centre-line/seed-random anchors), every cell of every level touching one of the 8 cube corners, "
                "random and face-boundary descents to level 30, and the 26 exactly projectable points; a cell counts as "
                "non-trivial if it touches a face boundary, is at level >= 28 or is embedded below an anchor")
    ctx.assumptions += [
        "expected answers are computed by Cells.tla from S2's defining tables posToIJ/posToOrientation and the face frames of faceUVToXYZ; "
        "the two independent model definitions of adjacency (folding over the cube edge, intersection of closed boxes) are proved equal by TLC on every generated cell",
        "ids are compared bit-exactly; real ids are built from model paths by bit arithmetic, not by the code under test",
        "Cell.Vertex/CellID.Point points: the leaf must lie in one of the model cells around that vertex / inside the cell "
        "(rounding error 1e-15 is far below the leaf size 2^-30); that the leaf of an arbitrary float point is the geometrically right one is not decided",
        "Prev() of the first cell of a level and Next() beyond End are not specified and not compared",
    ]
    cases = []

    def gen(anchors, walk, **kw):
        sim = kw.pop("simulate", None)
        seed = kw.pop("seed", None)
        depth = kw.pop("depth", None)
        timeout = kw.pop("timeout", 900)
        r = ctx.tlc("Gen_Cells", cfg(anchors, walk, **kw), workers=1 if sim else 12, simulate=sim, depth=depth,
                    seed=seed, timeout=timeout, heap="6g")
        cs = r.tagged.get("CASE", [])
        cases.extend(cs)
        return cs

    faces = set(anchor(f, 0, 0, 0) for f in range(6))
    # 1. top embedding, exhaustive to depth L on all six faces
    Ltop = 4 if q else 6
    gen(faces, "tree", L=Ltop, pd=1 if q else 2)
    # 2. the 26 exact points
    gen(set(), "points")
    # 3. every cell of every level at the 8 cube corners (24 chains of 31 cells)
    gen(faces, "corner", pd=1)
    # 4. deep embeddings: model leaves are real leaves (anchor level 30-L), plus middle levels that
    #    straddle the 4-bit lookup-table chunks and both parities of the orientation fix-up
    Ld = 3 if q else 4
    gen(deep_anchors(rnd, 30 - Ld, 2 if q else 8), "tree", L=Ld, pd=1 if q else 2)
    mids = set()
    for lev in rnd.sample(range(5, 26), 2 if q else 8):
        mids |= deep_anchors(rnd, lev, 0 if q else 3)
    gen(mids, "tree", L=2 if q else 3, pd=1 if q else 2)
    # 5. full-depth descents to seed-chosen level-29 targets (random, on a face boundary, next to a face
    #    corner): every cell on the way with all its siblings, then the four leaves below the target
    m = (1 << 29) - 1
    targets = set()
    for k in range(6 if q else 36):
        f = rnd.randrange(6)
        kind = k % 3
        if kind == 0:
            targets.add(anchor(f, 29, rnd.randrange(m + 1), rnd.randrange(m + 1)))
        elif kind == 1:
            e = rnd.choice([0, m])
            o = rnd.randrange(m + 1)
            targets.add(anchor(f, 29, e, o) if rnd.random() < 0.5 else anchor(f, 29, o, e))
        else:
            targets.add(anchor(f, 29, rnd.choice([1, m - 1, m - 2]), rnd.choice([0, 1, m - 1])))
    gen(targets, "chain", pd=1)
    if not q:
        # random walks by TLC's simulator (all candidate successors are evaluated and emitted)
        gen(faces, "sim", pd=1, simulate="num=25", depth=32, seed=ctx.seed * 10 + 1, timeout=1500)
        gen(faces, "edge", pd=1, simulate="num=25", depth=32, seed=ctx.seed * 10 + 2, timeout=1500)

    uniq = {}
    for c in cases:
        uniq.setdefault(json.dumps(c, sort_keys=True), c)
    cases = list(uniq.values())
    ctx.log("C01 cases: %d" % len(cases))
    ctx.exhaustive = {"top_depth": Ltop, "deep_depth": Ld, "corner_chains": "all levels 0..30"}
    ctx.replay(cases, timeout=1500)
    ext_cells.run_metrics(ctx)
    ext_cells.run_apalache(ctx)
