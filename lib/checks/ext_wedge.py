"""Extension of the W1 (integer lattice) specification, called from the C07 and C04 drivers.

Component A (C07): wedge relations at a shared vertex (s2/wedge_relations.go), spec Wedges.tla,
generator Gen_Wedges.tla, replay op "wedge" (keys wedge/...).
Component B (C04): ContainsVertexQuery / AngleContainsVertex (s2/contains_vertex_query.go,
s2/edge_crossings.go), spec VertexQuery.tla, generator Gen_VertexQuery.tla, replay op
"vertexquery" (keys vertexquery/...).
"""
import random

import vlib

WEDGE_INV = ["SeqIsCyclicOrder", "Laws", "Reflexive", "PointLevel", "TablesAreDefinitions", "Emit"]
VQ_INV = ["SeqIsCyclicOrder", "Laws", "Sibling", "Angle", "ExactlyOne", "Emit"]
WORKERS = 6


def lattice(n):
    """the points of Exact!Pts in the order of PtSeq (lexicographic); index = position + 1"""
    r = range(-n, n + 1)
    return [(x, y, z) for x in r for y in r for z in r if (x, y, z) != (0, 0, 0)]


def core_indices(n, m=1):
    """indices (1-based, into the sorted N=n lattice) of the points with all coordinates in -m..m"""
    return [i + 1 for i, p in enumerate(lattice(n)) if max(abs(c) for c in p) <= m]


def mixed_sub(rnd, n, k_core, k_any):
    """a sub-lattice of the N=n lattice: k_core points of the N=1 core (many exactly collinear
    configurations) and k_any arbitrary ones"""
    total = (2 * n + 1) ** 3 - 1
    core = core_indices(n)
    sub = set(rnd.sample(core, min(k_core, len(core))))
    while len(sub) < k_core + k_any:
        sub.add(rnd.randint(1, total))
    return sub


def wedges(ctx, rnd):
    q = ctx.quick()
    ctx.rule += (" | ext wedge: every 5-tuple (a0, o, a2, b0, b2) of lattice points around a shared vertex o over seed-chosen "
                 "sub-lattices (thorough: the whole N=1 lattice), expected WedgeRelation/WedgeContains/WedgeIntersects from the "
                 "piece-set semantics of Wedges.tla; a tuple is non-trivial when a deciding determinant is exactly 0 (the symbolic "
                 "perturbation decides) or the two wedges share an arm")
    ctx.assumptions += [
        "ext wedge: wedges with a0 = a2 or b0 = b2 and arms antipodal to the shared vertex are outside the documented precondition "
        "(non-empty wedges of S2 edges): exercised, not predicted",
        "ext wedge: unit embedding predicted only when all six lattice determinants Det(o, p, q) between distinct arms are non-zero; "
        "the laws (projections of the relation, converse, complement) are checked on every tuple",
    ]
    plan = []
    if q:
        sub = mixed_sub(rnd, 2, 8, 4)
        plan.append((2, set(rnd.sample(sorted(sub), 2)) | {rnd.choice(core_indices(2))}, sub))
    else:
        all26 = list(range(1, 27))
        rnd.shuffle(all26)
        for i in range(0, 26, 7):
            plan.append((1, set(all26[i:i + 7]), set(range(1, 27))))
        for _ in range(3):
            sub = mixed_sub(rnd, 2, 7, 7)
            plan.append((2, set(rnd.sample(sorted(sub), 3)) | {rnd.choice(core_indices(2))}, sub))
        sub = mixed_sub(rnd, 3, 5, 8)
        plan.append((3, set(rnd.sample(sorted(sub), 3)), sub))
    for n, oidx, sub in plan:
        r = ctx.tlc("Gen_Wedges", vlib.cfg(constants={"N": n, "OIdx": oidx, "SubIdx": sub}, invariants=WEDGE_INV),
                    workers=WORKERS, timeout=1800, heap="4g")
        ctx.replay(r.tagged.get("CASE", []), timeout=1800)
    if not q:
        ctx.notes.append("ext wedge: all 26 x 25^4 tuples with a shared vertex of the N=1 lattice enumerated")


def vertex_queries(ctx, rnd):
    q = ctx.quick()
    ctx.rule += (" | ext vertexquery: every multiset of <= 4 incident edges (neighbour, direction) of a target vertex over "
                 "seed-chosen sub-lattices, expected ContainsVertex() from VertexQuery.tla, replayed in every insertion order; "
                 "non-trivial: at least two edges (ordering around the vertex, duplicates or cancelling pairs matter)")
    ctx.assumptions += [
        "ext vertexquery: comparisons against the reference direction are predicted only when the integer determinant with "
        "Exact!RefDir is non-zero (otherwise the answer is checked for order independence and the laws only)",
        "ext vertexquery: multisets whose net multiplicity of an edge exceeds 1 violate the precondition of the C++ original "
        "(S2_DCHECK): only order independence is checked",
    ]
    plan = []
    if q:
        sub = mixed_sub(rnd, 2, 4, 3)
        plan.append((2, set(rnd.sample(sorted(sub), 1)) | {rnd.choice(core_indices(2))}, sub, 4))
    else:
        for _ in range(2):
            sub = set(rnd.sample(range(1, 27), 12))
            plan.append((1, set(rnd.sample(range(1, 27), 5)), sub, 4))
        # all 25 neighbours, multisets of <= 3 edges
        plan.append((1, set(rnd.sample(range(1, 27), 4)), set(range(1, 27)), 3))
        for _ in range(2):
            sub = mixed_sub(rnd, 2, 5, 6)
            plan.append((2, set(rnd.sample(sorted(sub), 3)) | set(rnd.sample(core_indices(2), 2)), sub, 4))
        sub = mixed_sub(rnd, 3, 4, 7)
        plan.append((3, set(rnd.sample(sorted(sub), 4)), sub, 4))
    for n, oidx, sub, maxlen in plan:
        r = ctx.tlc("Gen_VertexQuery", vlib.cfg(constants={"N": n, "OIdx": oidx, "SubIdx": sub, "MaxLen": maxlen}, invariants=VQ_INV),
                    workers=WORKERS, timeout=1800, heap="4g")
        ctx.replay(r.tagged.get("CASE", []), timeout=1800)


def run_ext(ctx, component=None):
    """component: "wedge" (default for C07), "vertexquery" (default for C04), or "both" """
    if component is None:
        component = {"C07": "wedge", "C04": "vertexquery"}.get(ctx.prop, "both")
    # an own random stream: the extension does not disturb the seeded choices of the host driver
    rnd = random.Random(ctx.seed * 7919 + 17)
    if component in ("wedge", "both"):
        wedges(ctx, rnd)
    if component in ("vertexquery", "both"):
        vertex_queries(ctx, rnd)
