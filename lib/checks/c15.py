"""C15: decoding arbitrary bytes is total (an error or a usable value, never a crash)."""
import os
import random
import vlib

# The input space is all byte strings; the model enumerates the structured neighbourhood of
# valid encodings (every field boundary, every count/token), not all byte strings.
LEVEL = "exploration"

INV = ["Sticky", "AllocAdmissible", "Accepts", "CutErrors", "OverLimitRejected", "EmitBase"]
ALL_TYPES = ["Point", "Cap", "Rect", "CellID", "Cell", "CellUnion", "Polyline", "Loop", "PolygonL", "PolygonC"]


def vcode(K, f, si, ti, ex):
    M = 2 ** (K + 1)
    return ((f * (M + 1) + si) * (M + 1) + ti) * 2 + (1 if ex else 0)


def alphabet(rnd, K, n):
    """Vertex codes: mostly exact cell centres of one level (so that the compressed format is the
    natural one), some centres of other levels, some non-centres, some extreme coordinates."""
    M = 2 ** (K + 1)
    out = set()
    lvl = rnd.randint(max(1, K - 1), K)
    step = 2 ** (K - lvl)

    def centre(level):
        st = 2 ** (K - level)
        return (rnd.randrange(2 ** level) * 2 + 1) * st
    while len(out) < n:
        f = rnd.randrange(6)
        r = rnd.random()
        if r < 0.55:
            out.add(vcode(K, f, centre(lvl), centre(lvl), True))
        elif r < 0.70:
            l2 = rnd.randint(0, K)
            out.add(vcode(K, f, centre(l2), centre(l2), True))
        elif r < 0.80:
            out.add(vcode(K, f, centre(lvl), centre(lvl), False))          # near a centre, not exact
        elif r < 0.90:
            out.add(vcode(K, f, rnd.randrange(M + 1), rnd.randrange(M + 1), True))   # mixed levels
        else:
            out.add(vcode(K, f, rnd.choice([0, M, centre(lvl)]), rnd.choice([0, M]), True))  # extreme
    _ = step
    return out


def polyspec(lens, a):
    p = len(lens) + 10000000 * a
    for j, n in enumerate(lens):
        p += 10 * (100 ** j) * n
    return p


def join(r):
    bases = {}
    for b in r.tagged.get("BASE", []):
        bases[b["b"]] = b
    out = []
    for c in r.tagged.get("CASE", []):
        b = bases.get(c["b"])
        if b is None:
            raise vlib.Infra("case refers to unknown base %s" % c["b"])
        d = dict(b)
        d.update(c)
        out.append(d)
    return out


HEAVY = {"LIMIT", "LIMIT+1", "2^31-1", "2^31", "2^32-1", "2^63-1"}


def thin(cases, rnd, keep):
    """Count tokens at/above the limit cost up to a second each (gigabyte allocations, child restarts) and behave
    the same for every base of one type: keep `keep` seed-chosen bases per (type, format, field role, token)."""
    groups = {}
    out = []
    for c in cases:
        hv = [m for m in c["muts"] if m["m"] == "tok" and m["tok"] in HEAVY and c["fields"][m["at"] - 1]["lim"] >= 0]
        if hv:
            m = hv[0]
            groups.setdefault((c["t"], c["fmt"], c["fields"][m["at"] - 1]["r"], m["tok"], len(c["muts"])), []).append(c)
        else:
            out.append(c)
    for k in sorted(groups):
        g = groups[k]
        out += rnd.sample(g, min(keep, len(g)))
    return out


def run(ctx):
    rnd = random.Random(ctx.seed)
    q = ctx.quick()
    ctx.rule = ("TLC enumerates every single mutation (end of input in front of / one byte into / one byte before the end "
                "of every field; every count field set to each of the tokens 0,1,limit,limit+1,2^31-1,2^31,2^32-1,2^63-1,"
                "2^63,2^64-1; version bytes; face runs; off-centre counts and indices; flags; float payloads) of valid model "
                "encodings of every type and format version, plus random pairs of mutations (-simulate); each mutant is run "
                "through the model's sticky-error decoder, then decoded by the real code in a child process under an "
                "address-space limit and a watchdog; non-trivial = every mutated input")
    ctx.assumptions += [
        "the model demands an error only for a count above its documented limit (maxEncodedLoops, maxEncodedVertices, "
        "maxCells) reached with the preceding fields intact; every other mutant may be rejected or accepted",
        "a rejected over-limit count must not have allocated more than 64 MB (runtime.MemStats.TotalAlloc around Decode); "
        "counts at or below the documented limit may allocate up to limit*element size (child address space 4 GB)",
        "a value returned with a nil error is queried (containment, RectBound/CapBound, edges/chains, Validate, re-encode); "
        "any panic there is a violation",
        "inputs outside the structured neighbourhood of valid encodings (arbitrary byte strings) are not explored",
    ]
    K = 3 if q else rnd.choice([3, 4, 5])
    va = alphabet(rnd, K, 7)
    a = rnd.randrange(1, 90)
    specs = {polyspec([], 0), polyspec([3], a), polyspec([4, 1, 3], a + 1)}
    if not q:
        specs |= {polyspec([1], a + 2), polyspec([64], a + 3), polyspec([5, 3], a + 4), polyspec([2, 66, 3], a + 5)}
    else:
        specs |= {polyspec([64], a + 3)} if rnd.random() < 0.5 else {polyspec([5, 3], a + 4)}
    consts = {"K": K, "Types": set('"%s"' % t for t in ALL_TYPES), "VA": va, "PolySpecs": specs,
              "LoopLens": {0, 1, 3} if q else {0, 1, 2, 3, 7}, "LineLens": {0, 2} if q else {0, 1, 2, 5},
              "UnionLens": {0, 2} if q else {0, 1, 3, 5},
              "ManySpecs": {1300 + rnd.randint(2, 12)} if q else {1300 + rnd.randint(2, 12), 1401, 2000 + rnd.randint(2, 19)},
              "Double": False}
    # 1. every single mutation of every base
    r = ctx.tlc("Gen_WireMut", vlib.cfg(constants=consts, invariants=INV), workers=8, timeout=1500, heap="6g")
    cases = thin(join(r), rnd, 1 if q else 3)
    ctx.log("single mutations: %d cases over %d bases" % (len(cases), len(r.tagged.get("BASE", []))))
    ctx.replay(cases, timeout=2400, jobs=12)
    ctx.log("single mutations replayed")
    if ctx.counters.get("outcome_timeout", 0) > 0:
        # a decoder has hung under the full watchdog: later harness processes of this run (second stage,
        # confirmation) start with the short watchdog instead of paying the full one per input again
        os.environ["VERIF_C15_HANG_SEEN"] = "1"
        ctx.log("decode hangs seen (%d): short watchdog from here on" % ctx.counters.get("outcome_timeout", 0))
    # 2. random pairs of mutations over larger bases
    va2 = alphabet(rnd, K, 12)
    specs2 = {polyspec([rnd.randint(1, 9) for _ in range(rnd.randint(1, 3))], rnd.randrange(1, 90)) for _ in range(4)}
    specs2 |= {polyspec([rnd.randint(64, 70)], rnd.randrange(1, 90))}
    consts2 = dict(consts, VA=va2, PolySpecs=specs2, ManySpecs={1300 + rnd.randint(2, 12)}, Double=True)
    nsim = 600 if q else 6000
    r = ctx.tlc("Gen_WireMut", vlib.cfg(constants=consts2, invariants=INV), workers=1 if q else 4,
                simulate="num=%d" % nsim, depth=600, seed=ctx.seed * 100 + 15, timeout=1500, heap="6g")
    cases2 = join(r)
    import json as _j
    uniq = {}
    for c in cases2:
        uniq.setdefault(_j.dumps([c["b"], c["muts"]], sort_keys=True), c)
    cases2 = thin(list(uniq.values()), rnd, 1 if q else 4)
    ctx.log("random mutation pairs: %d distinct cases" % len(cases2))
    ctx.replay(cases2, timeout=2400, jobs=12)
    ctx.log("random pairs replayed")
    if ctx.counters.get("base_ok", 0) == 0:
        raise vlib.Infra("no unmutated model encoding was accepted by the real decoders: the machinery is broken")
    if ctx.counters.get("base_rejected", 0) or ctx.counters.get("base_differs_from_encoder_output", 0):
        ctx.notes.append("%d unmutated model encodings rejected, %d differ from the encoder's output (C09 checks this relation)" %
                         (ctx.counters.get("base_rejected", 0), ctx.counters.get("base_differs_from_encoder_output", 0)))
    acc = sorted(k for k in ctx.counters if k.startswith("accepted_where_model_decoder_rejects/"))
    if acc:
        ctx.notes.append("implementation returned nil error where the model's decoder rejects (not demanded by the property): " +
                         ", ".join("%s x%d" % (k.split("/", 1)[1], ctx.counters[k]) for k in acc))
