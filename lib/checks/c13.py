"""C13: answers depend on current geometry and options only, never on call history."""
import json
import random
import vlib

LEVEL = "model_checking"
INV = ["FreshMeansComplete", "PendNeverAhead", "LastAnswerOK", "LoopPendOK"]


ALL = {'"S1"', '"S2"', '"S3"', '"SF"'}


def hist(ctx, mode, maxlen, simulate=None, seed=None, workers=8, catalog=None):
    c = vlib.cfg(constants={"Mode": '"%s"' % mode, "MaxLen": maxlen, "AsImplemented": False, "Catalog": catalog or ALL}, invariants=INV)
    if simulate:
        r = ctx.tlc("IndexLifecycle", c, workers=1, simulate="num=%d" % simulate, depth=maxlen + 2, seed=seed)
    else:
        r = ctx.tlc("IndexLifecycle", c, workers=workers, timeout=1800, heap="8g")
    return r.tagged.get("HIST", [])


def shape(prefix):
    return ";".join(a.split("(")[0] for a in prefix.split(";"))


def group(viols):
    """One key per (machine, check, failing action): the shortest failing prefix, arguments abstracted."""
    best = {}
    for v in viols:
        op, check, prefix = v["key"].split("/", 2)
        if check in ("panic",):
            site, prefix = prefix.split("/", 1)
            check = "panic/" + site
        last = prefix.split(";")[-1].split("(")[0]
        g = (op, check, last)
        cand = (len(prefix.split(";")), shape(prefix), prefix)
        if g not in best or cand < best[g][0]:
            best[g] = (cand, v)
    out = []
    for (op, check, last), (cand, v) in sorted(best.items()):
        w = dict(v)
        w["orig_key"] = v["key"]
        w["key"] = "%s/%s/%s" % (op, check, cand[1])
        out.append(w)
    return out


def model_check_book(ctx):
    """IndexBook.tla itself: every reachable state within the bound satisfies the invariants the traces are held to."""
    c = vlib.cfg(spec="BSpec", constants={"MaxID": 3 if ctx.quick() else 4},
                 invariants=["BTypeOK", "FreshMeansComplete", "UpdatedAndHeldIsIndexed", "LingeringIsQueued"])
    ctx.tlc("IndexBook", c, workers=4, deadlock=False)
    # the same invariants for every bound on the number of ids (TLAPS); in the thorough tier the proof is
    # also run against a broken ApplyEnd (the cell map is not refreshed) and must fail
    n = ctx.tlaps("IndexBookProof")
    ctx.notes.append("TLAPS: %d proof obligations of IndexBookProof.tla proved (bookkeeping invariants for every number of shape ids)" % n)
    if not ctx.quick():
        import os
        import shutil
        import subprocess
        d = os.path.join(ctx.scratch, "spec-bookmut")
        shutil.copytree(ctx.specdir(), d, ignore=shutil.ignore_patterns(".tlacache", "states", "*.cfg", "md*"))
        f = os.path.join(d, "IndexBook.tla")
        t = open(f).read()
        if "idx' = live" not in t:
            raise vlib.Infra("IndexBook.tla: text of ApplyEnd not found for the vacuity check")
        open(f, "w").write(t.replace("idx' = live /\\ rem' = 0", "idx' = idx /\\ rem' = 0"))
        out = vlib.run_in_own_group(["tlapm", "--threads", "8", "IndexBookProof.tla"], d, 900)
        if out is None:
            raise vlib.Infra("tlapm timed out on the broken IndexBook")
        if "obligations failed" not in out:
            raise vlib.Infra("tlapm did not reject the broken IndexBook (vacuous proof?):\n" + out[-1500:])
        ctx.log("TLAPS IndexBookProof on a broken ApplyEnd: rejected")


def run(ctx):
    rnd = random.Random(ctx.seed)
    q = ctx.quick()
    ctx.rule = ("every maximal history of the three machines of IndexLifecycle.tla up to the depth bound (exhaustive), plus random "
                "walks; each history is executed on real objects; all histories are non-trivial (>= 2 operations on one object); "
                "distinct = distinct action sequences")
    ctx.assumptions += [
        "a query object is used only while the index epoch equals the epoch at which it was created (library contract)",
        "abstract answers come from a fixed scene whose stated properties (edge counts, separations) are asserted by the harness at start",
        "hang detection: a history that does not finish within 20 s is reported as a hang",
    ]
    # vacuity guard: on the literal transcription of the original (defective) implementation TLC must
    # find a history that violates the invariants
    for mode, ln in (("eq", 2), ("index", 3), ("loop", 3)):
        c = vlib.cfg(constants={"Mode": '"%s"' % mode, "MaxLen": ln, "AsImplemented": True, "Catalog": ALL}, invariants=INV)
        r = ctx.tlc("IndexLifecycle", c, workers=2, allow_violation=True, count=False)
        if r.ok:
            raise vlib.Infra("IndexLifecycle invariants accept the AsImplemented variant in mode %s (vacuous model)" % mode)
    hs = histories(ctx)
    ctx.log("histories: %d" % len(hs))
    ctx.replay(hs, timeout=3000, postprocess=group)
    # direction B: index updates recorded from the repository's own tests and from replayed histories
    # must be behaviours of IndexBook.tla
    from checks import c13_trace
    model_check_book(ctx)
    c13_trace.run(ctx, hs)
    # EXT: history independence of small stateful objects (spec/Lexicon.tla, spec/Windows.tla)
    from checks import ext_structs
    ext_structs.run_lexicon(ctx)
    ext_structs.run_windows(ctx)


def histories(ctx):
    """The TLC-generated histories of one run (a function of tier and seed)."""
    rnd = random.Random(ctx.seed * 7919 + 13)
    q = ctx.quick()
    hs = []
    # exhaustive over a seed-chosen catalogue of two shapes (one of them may be the edgeless full polygon),
    # random walks over the whole catalogue
    cat = set(rnd.sample(['"S1"', '"S2"', '"S3"'], 1 if q else 2)) | {rnd.choice(['"SF"', '"S2"', '"S1"'])}
    hs += hist(ctx, "index", 4 if q else 5, catalog=cat)
    hs += hist(ctx, "eq", 2 if q else 3)
    hs += hist(ctx, "eq1", 3)
    hs += hist(ctx, "eq-grow", 3 if q else 4)
    hs += hist(ctx, "loop", 3 if q else 4)
    for mode, ln, n in [("index", 9, 150 if q else 1500), ("eq", 6, 150 if q else 1500), ("loop", 8, 100 if q else 800)]:
        hs += hist(ctx, mode, ln, simulate=n, seed=ctx.seed * 10 + ln)
    # long-lived query objects across removals, re-additions and rebuilds (two shapes, one of them the 40-edge S2)
    hs += hist(ctx, "index-ceq", 7 if q else 8, catalog={'"S2"'})
    hs += hist(ctx, "index-cpq", 7 if q else 8, catalog={rnd.choice(['"S1"', '"S2"', '"S3"'])})
    if not q:
        hs += hist(ctx, "index-q", 7, catalog={'"S2"', rnd.choice(['"S1"', '"S3"'])})
    hs += hist(ctx, "index-q", 10, simulate=300 if q else 5000, seed=ctx.seed * 10 + 3, catalog={'"S2"', rnd.choice(['"S1"', '"S3"'])})
    uniq = {}
    for x in hs:
        uniq[json.dumps(x, sort_keys=True)] = x
    hs = list(uniq.values())
    rnd.shuffle(hs)
    return hs
