"""C08: closest and furthest edge queries equal an exhaustive scan.

1. Model run: EdgeQuery.tla - the search of s2/edge_query.go as a state machine over an
   abstract index (cells on 1..6 faces, edges with integer distances, admissible cell bounds).
   TLC explores all small scenes x option combinations and proves the C08 statement on
   termination; the same spec with AsImplemented = {"break"}, {"dup"}, {"capbound"}, {"nosat"} (the
   literal behaviour of the pinned tree before the fix: commits) must produce a counterexample.
2. Replay: Gen_EdgeQuery.tla generates concrete scenes in W1 (lattice points, polylines,
   triangles; targets point / edge / face cell / other index) with the exact, tie-aware expected
   ranks, limit membership and interior flags, and in W2 (grid rectangles and rows on several
   faces, far above the brute-force thresholds) with exact containment.  The Go handler runs
   every option combination with fresh objects, optimized and brute force.
"""
import random
import re

import vlib

LEVEL = "model_checking"

INF = 1000
MODEL_INV = ["TypeOK", "SceneAdmissible", "ResultsWellFormed", "ResultsComplete", "ResultsExact", "NoPanic", "CoveringOK"]


def lattice(n):
    r = range(-n, n + 1)
    return [(x, y, z) for x in r for y in r for z in r if (x, y, z) != (0, 0, 0)]  # lexicographic = PtSeq


def gcd3(p):
    from math import gcd
    return gcd(gcd(abs(p[0]), abs(p[1])), abs(p[2]))


def face_of(p):
    """Cube face of a direction (S2 numbering), None on a face boundary."""
    a = [abs(c) for c in p]
    m = max(a)
    if a.count(m) > 1:
        return None
    ax = a.index(m)
    return ax if p[ax] > 0 else ax + 3


def tla_set_of_sets(sets):
    return "{" + ", ".join(vlib.tla_value(set(s)) for s in sets) + "}"


def model_cfg(faces, depth, fanout, maxcells, nedges, dmax, nshapes, mrs, lims, errs, brute, minenq, maxdisc,
              maxspan, tags):
    return vlib.cfg(constants={
        "Faces": set(faces), "Fanout": fanout, "Depth": depth, "MaxCells": maxcells, "NEdges": nedges,
        "DMax": dmax, "NShapes": nshapes, "MaxResultsSet": set(mrs), "LimitSet": set(lims),
        "MaxErrSet": set(errs), "BruteSet": "{" + ", ".join("TRUE" if b else "FALSE" for b in brute) + "}",
        "MinEnq": minenq, "MaxDisc": maxdisc, "MaxSpan": maxspan,
        "AsImplemented": "{" + ", ".join('"%s"' % t for t in tags) + "}",
    }, invariants=MODEL_INV)


def model_runs(ctx, rnd):
    q = ctx.quick()
    # (a) exhaustive: index cells = face cells, scenes on 1..k faces, every option combination
    if q:
        faces = sorted(rnd.sample(range(1, 7), 3))
        mrs = [1, rnd.choice([2, INF])]
        lims = [INF, rnd.choice([1, 0])]
        ctx.tlc("EdgeQuery", model_cfg(faces, 0, 2, 3, 2, 2, 0, mrs, lims, [0, 1], [False], 2, 2, 1, []),
                workers=8, timeout=300)
    else:
        faces = sorted(rnd.sample(range(1, 7), 3))
        ctx.tlc("EdgeQuery", model_cfg(faces, 0, 2, 3, 2, 2, 0, [1, 2, INF], [INF, 1, 0], [0, 1], [False],
                                       2, 2, 2, []), workers=12, timeout=2400, heap="8g")
        # a two-level tree on one and two faces (split, children, the single-face covering rule)
        faces = sorted(rnd.sample(range(1, 7), 2))
        ctx.tlc("EdgeQuery", model_cfg(faces, 1, 2, 3, 2, 2, 0, [1, rnd.choice([2, INF])], [INF, rnd.choice([1, 0])],
                                       [0, 1], [False], 2, 2, 1, []), workers=12, timeout=2400, heap="8g")
    # (a') structure only: every antichain of index cells on all six faces, the covering is what
    # initCovering is specified to produce (complete, tight, disjoint, sorted, <= 6 cells)
    # (TLC's kSubset needs fewer than 63 tree nodes)
    all6 = set(range(1, 7))
    for (fcs, fan, depth, mc) in ([(all6, 2, 1, 4)] if q else
                                  [(all6, 2, 2, 4), (all6, 4, 1, 5), (set(rnd.sample(range(1, 7), 3)), 3, 2, 4)]):
        ctx.tlc("EdgeQuery", vlib.cfg(constants=dict(
            Faces=fcs, Fanout=fan, Depth=depth, MaxCells=mc, NEdges=1, DMax=1, NShapes=0,
            MaxResultsSet={1}, LimitSet={INF}, MaxErrSet={0}, BruteSet="{FALSE}", MinEnq=2, MaxDisc=1, MaxSpan=1,
            AsImplemented="{}"), invariants=["CoveringOK"], constraints=["CellsOnly"]), workers=4 if q else 10, timeout=900)
    # (b) random walks over larger scenes: all six faces, two tree levels, three edges, IsDistanceLess options
    sims = [
        ([1, 2, 3, 4, 5, 6], 0, 2, 6, 3, 3, 1, [1, 2, 3, INF], [INF, 2, 0], [0, 1, INF], [False, True], 2, 2, 2),
        ([1, 3], 2, 2, 4, 3, 3, 1, [1, 2, 3, INF], [INF, 2, 0], [0, 1, INF], [False], 2, 3, 3),
        ([2], 2, 3, 4, 3, 2, 0, [1, 2, INF], [INF, 1, 0], [0, 1], [False], 3, 3, 2),
    ]
    for i, s in enumerate(sims[:1] if q else sims):
        ctx.tlc("EdgeQuery", model_cfg(*s, []), workers=1 if q else 4,
                simulate="num=%d" % ((100, 60)[i] if q else 6000), depth=60, seed=ctx.seed * 10 + i, timeout=1800)
    # (b') the early-termination sweep in the abstract model: one queued cell (>= MinEnq edges) next to
    # cells scanned at once, a target that uses MaxError, every distance/bound/error combination:
    # the conservative cell distance keeps the result within MaxError; exhaustive
    sweep = ([1, 2], 0, 2, 2, 3, 2 if q else 3, 0, [1, 2], [INF], [1] if q else [1, 2], [False], 2, 1, 1)
    ctx.tlc("EdgeQuery", model_cfg(*sweep, []), workers=4 if q else 10, timeout=900)
    r = ctx.tlc("EdgeQuery", model_cfg(*sweep, ["nocons"]), workers=4 if q else 10, timeout=900, allow_violation=True,
                count=False)
    inv = [m.group(1) for ln in r.lines for m in [re.match(r"Error: Invariant (\w+) is violated", ln)] if m]
    if r.ok or not inv:
        raise vlib.Infra('EdgeQuery.tla with AsImplemented={"nocons"} produced no counterexample')
    ctx.notes.append('model level: AsImplemented={"nocons"} (conservative cell distance off on an unlimited search, '
                     'seeded change C08-seed2) violates %s (TLC counterexample found)' % inv[0])
    ctx.counters["model_defect_confirmed_nocons"] = 1
    # (b") initQueue's clean-up of the initial cells when the search disc is covered by descendants of an
    # index cell (Indexed / Subdivided / Disjoint), finite limits, maxResults > 1; exhaustive.  With the tag
    # "descid" (seeded change C08-seed3: the index cell is queued under the id of the small initial cell)
    # TLC must find a counterexample.
    desc = ([1] if q else [1, 2], 1, 2, 2 if q else 3, 2, 2, 0, [2, INF] if q else [2, 3, INF], [1, 2], [0], [False],
            2, 2, 1)
    ctx.tlc("EdgeQuery", model_cfg(*desc, []), workers=4 if q else 10, timeout=900)
    r = ctx.tlc("EdgeQuery", model_cfg(*desc, ["descid"]), workers=4 if q else 10, timeout=900, allow_violation=True,
                count=False)
    inv = [m.group(1) for ln in r.lines for m in [re.match(r"Error: Invariant (\w+) is violated", ln)] if m]
    if r.ok or not inv:
        raise vlib.Infra('EdgeQuery.tla with AsImplemented={"descid"} produced no counterexample')
    ctx.notes.append('model level: AsImplemented={"descid"} (index cell queued under the id of a descendant initial '
                     'cell, seeded change C08-seed3) violates %s (TLC counterexample found)' % inv[0])
    ctx.counters["model_defect_confirmed_descid"] = 1
    # (c) the behaviour of the pinned tree before the fix: commits e6edaf0, 3d5e407, 38223d4, 8676a07,
    # transcribed: TLC itself must find the counterexamples (regression models; they show that the
    # invariants are sensitive to exactly these defects)
    for tag, s in [("break", sims[0]), ("dup", sims[0]), ("capbound", sims[0]), ("nosat", sims[0])]:
        r = ctx.tlc("EdgeQuery", model_cfg(*s, [tag]), workers=1, simulate="num=200000", depth=60,
                    seed=ctx.seed * 10 + 7, timeout=600, allow_violation=True, count=False)
        inv = [m.group(1) for ln in r.lines for m in [re.match(r"Error: Invariant (\w+) is violated", ln)] if m]
        if r.ok or not inv:
            raise vlib.Infra("EdgeQuery.tla with AsImplemented={%s} produced no counterexample" % tag)
        ctx.notes.append('model level: AsImplemented={"%s"} violates %s (TLC counterexample found)' % (tag, inv[0]))
        ctx.counters["model_defect_confirmed_" + tag] = 1


K_DEFAULTS = {"KLevel": 6, "KIC": 1, "KJC": 1, "KSize": 10, "KA1": {1}, "KA0D": {1}, "KRA": {1},
              "QLevel": 6, "QPtCodes": set(), "QBases": set(), "QD": {4}, "QR": 1}
EMPTY_W12 = {"N": 1, "PointIdx": set(), "LineSets": "{}", "TriSets": "{}", "TgtPts": set(), "TgtEdges": "{}",
             "TgtClouds": "{}", "TgtLines": "{}", "TgtFaces": set(), "LimPairs": "{}",
             "GLevel": 3, "GRectCodes": set(), "GRowCodes": set(), "GTgtCodes": set(), "GCloudCodes": "{}"}


def w4_family(rnd, nbases, noffs):
    """Tiny search discs inside coarse index cells (see Gen_EdgeQuery W4)."""
    lvl = rnd.choice([10, 11, 12, 13])
    n = 2 ** lvl
    code = lambda f, i, j: (f * n + i) * n + j
    faces = rnd.sample(range(6), 4)
    pts, first = set(), []
    for f in faces[:3]:
        # ten points, at least one in every quadrant: the face stays one index cell with 10 edges
        quads = [(0, 0), (0, 1), (1, 0), (1, 1)] + [(rnd.randint(0, 1), rnd.randint(0, 1)) for _ in range(6)]
        grp = set()
        while len(grp) < 10:
            qi, qj = quads[len(grp)]
            grp.add(code(f, qi * n // 2 + rnd.randint(n // 16, n // 2 - n // 16),
                         qj * n // 2 + rnd.randint(n // 16, n // 2 - n // 16)))
        pts |= grp
        if f == faces[0]:
            first = sorted(grp)
    while len(pts) < 35:
        pts.add(code(faces[3], rnd.randint(n // 8, n - n // 8), rnd.randint(n // 8, n - n // 8)))
    d = dict(EMPTY_W12)
    d.update(K_DEFAULTS)
    offs = set(rnd.sample(range(0, 9), noffs))      # offset + 4
    d.update({"QLevel": lvl, "QPtCodes": pts, "QBases": set(rnd.sample(first, nbases)), "QD": offs,
              "QR": rnd.randint(5, 7)})
    return d


def w3_family(rnd, big):
    """Isolated clusters (see Gen_EdgeQuery W3): TLC enumerates the step counts."""
    lvl = rnd.choice([7, 8, 9, 10])
    n = 2 ** lvl
    a = rnd.randint(4, 9)
    ka1 = {a, a + rnd.randint(1, 3)} if big else {a}
    d = {**EMPTY_W12, **K_DEFAULTS,
         "KLevel": lvl, "KIC": n - max(ka1) - rnd.randint(1, 2), "KJC": n // 2 + rnd.randint(-n // 8, n // 8),
         "KSize": rnd.choice([10, 10, 12]), "KA1": ka1,
         "KA0D": set(rnd.sample(range(1, 5), 3 if big else 2)),
         "KRA": set(rnd.sample(range(1, 13), 6 if big else 4))}
    return d


def w1_scene(rnd, n, nfaces, npts, nlines, ntris, big):
    pts = lattice(n)
    idx = {p: i + 1 for i, p in enumerate(pts)}
    prim = [p for p in pts if gcd3(p) == 1]
    faces = rnd.sample(range(6), nfaces)
    pool = [p for p in prim if face_of(p) in faces]
    rnd.shuffle(pool)
    use = pool[:]
    take = lambda k: [use.pop() for _ in range(min(k, len(use)))]
    cloud = take(npts)
    lines = [take(rnd.randint(3, 9)) for _ in range(nlines)]
    tris = [take(3) for _ in range(ntris)]
    anyp = prim[:]
    rnd.shuffle(anyp)
    tg_pts = anyp[:2] + cloud[:1] + ([lines[0][0]] if lines and lines[0] else [])
    # a target strictly inside each triangle, and one whose antipode is (furthest-edge queries)
    det = lambda a, b, c: (a[0] * (b[1] * c[2] - b[2] * c[1]) - a[1] * (b[0] * c[2] - b[2] * c[0])
                           + a[2] * (b[0] * c[1] - b[1] * c[0]))
    for t in tris:
        if len(t) == 3:
            a, b, c = t if det(*t) > 0 else (t[0], t[2], t[1])
            ins = [p for p in prim if det(a, b, p) > 0 and det(b, c, p) > 0 and det(c, a, p) > 0]
            if ins:
                p = rnd.choice(ins)
                tg_pts += [p, tuple(-x for x in p)]
    tg_edges = [rnd.sample(prim, 2) for _ in range(2)]
    clouds = [rnd.sample(prim, 3)]
    tlines = [rnd.sample(prim, 5)]
    if big == "cloud":
        clouds.append(rnd.sample(prim, min(len(prim), rnd.randint(31, 40))))
    elif big == "line":
        tlines.append(rnd.sample(prim, min(len(prim), rnd.randint(32, 38))))
    lim = [rnd.sample(prim, 2)]
    S = lambda ps: {idx[p] for p in ps}
    return {
        "N": n, "PointIdx": S(cloud), "LineSets": tla_set_of_sets([S(l) for l in lines if len(l) >= 2]),
        "TriSets": tla_set_of_sets([S(t) for t in tris if len(t) == 3]),
        "TgtPts": S(tg_pts), "TgtEdges": tla_set_of_sets([S(e) for e in tg_edges]),
        "TgtClouds": tla_set_of_sets([S(c) for c in clouds]), "TgtLines": tla_set_of_sets([S(l) for l in tlines]),
        "TgtFaces": set(rnd.sample(range(6), 1) + faces[:1]), "LimPairs": tla_set_of_sets([S(l) for l in lim]),
        "GLevel": 3, "GRectCodes": set(), "GRowCodes": set(), "GTgtCodes": set(), "GCloudCodes": "{}",
        **K_DEFAULTS,
    }


def w2_scene(rnd, g, nfaces, rows, bundle=False, nclouds=2):
    k, k2 = 2 ** g + 1, 2 ** (g + 2)
    n = 2 ** g
    faces = rnd.sample(range(6), nfaces)
    rects, rws, tg = set(), set(), set()
    for f in faces:
        if rnd.random() < 0.25:
            i0, i1, j0, j1 = 0, n, 0, n          # the whole face
        else:
            i0 = rnd.randint(0, n - 2)
            i1 = rnd.randint(i0 + 1, n)
            j0 = rnd.randint(0, n - 2)
            j1 = rnd.randint(j0 + 1, n)
        rects.add((((f * k + i0) * k + i1) * k + j0) * k + j1)
        if f == faces[0] and (i0 > 0 or i1 < n) and (j0 > 0 or j1 < n):
            # a second polygon around the first: targets inside both
            rects.add((((f * k + max(i0 - 1, 0)) * k + min(i1 + 1, n)) * k + max(j0 - 1, 0)) * k + min(j1 + 1, n))
        # targets: inside, and anywhere
        tg.add((f * k2 + rnd.randint(4 * i0, 4 * i1 - 1)) * k2 + rnd.randint(4 * j0, 4 * j1 - 1))
    for _ in range(rows):
        f = rnd.choice(faces)
        i0 = rnd.randint(0, n - 1)
        rws.add(((f * k + i0) * k + rnd.randint(i0 + 1, n)) * k + rnd.randint(0, n))
    if bundle:
        # a dozen rows on one grid line, all covering its middle: index cells with >= 10 edges
        f, j = rnd.choice(faces), rnd.randint(0, n)
        for i0 in range(0, n // 2 - 1):
            for i1 in range(n // 2 + 1, n + 1):
                if len(rws) < 14:
                    rws.add(((f * k + i0) * k + i1) * k + j)
    for _ in range(3):
        tg.add((rnd.randrange(6) * k2 + rnd.randrange(k2)) * k2 + rnd.randrange(k2))
    # index targets: a few cell centres spread over the sphere / near the shapes
    clouds = []
    for _ in range(nclouds):
        c = {(rnd.randrange(6) * k2 + rnd.randrange(k2)) * k2 + rnd.randrange(k2) for _ in range(rnd.randint(2, 6))}
        if rnd.random() < 0.5:
            c.add(rnd.choice(sorted(tg)))
        clouds.append(c)
    return {
        "N": 1, "PointIdx": set(), "LineSets": "{}", "TriSets": "{}", "TgtPts": set(), "TgtEdges": "{}",
        "TgtClouds": "{}", "TgtLines": "{}", "TgtFaces": set(), "LimPairs": "{}",
        "GLevel": g, "GRectCodes": rects, "GRowCodes": rws, "GTgtCodes": tg,
        "GCloudCodes": tla_set_of_sets(clouds), **K_DEFAULTS,
    }


def run(ctx):
    rnd = random.Random(ctx.seed)
    q = ctx.quick()
    ctx.rule = ("scenes and targets generated by TLC (Gen_EdgeQuery) from seeded index sets; every case runs all option "
                "combinations maxResults {1,2,3,inf} x limit {inf,mid,0} x maxError {0,e} x includeInteriors, optimized and "
                "brute force, with fresh query/target objects; a case is non-trivial iff at least one of its queries really "
                "took the optimized path (read from the fields the code branches on)")
    ctx.assumptions += [
        "W1 expectations are exact integer comparisons of angles between primitive lattice directions (N<=3); they are "
        "stated tie-aware (position windows), limit membership only when strictly inside/outside, so the 1e-16 rounding "
        "of the unit-vector embedding cannot change a predicted answer (smallest non-zero margin of the lattice > 1e-6)",
        "distances of the same edge from the optimized and the brute-force path are compared for float equality (same "
        "function, same arguments); index targets are compared with an exhaustive scan on both levels (hook "
        "VerifTargetSetUseBruteForce)",
        "maxError clause: d_i <= scan_i + maxError (furthest: >= scan_i - maxError) asserted directly on the "
        "s1.ChordAngle values (the arithmetic of distance.sub; implies the same relation on angles), slack 1e-14 (TLC "
        "has no reals; the relation is the model's ResultsComplete)",
        "the abstract model treats closest and furthest queries alike (the distance interface is an order with zero, "
        "infinity and sub); furthest expectations in W1 are the closest expectations of the negated target",
        "query objects are fresh per call: history dependence (Distance/IsDistanceLess mutating the query's options) is "
        "property C13, not judged here",
        "W3 (isolated clusters): MaxError is swept over values chosen from the distance gaps of the scene as measured by "
        "exhaustive scans of the code; the floats only select inputs, the verdict is the maxError relation against the "
        "exhaustive exact scan, on s1.ChordAngle values (the library's own distance arithmetic), slack 1e-14",
        "cell targets: model expectation only for level-0 cells (zero distance iff an endpoint is strictly inside the face); "
        "other cell targets are checked optimized-vs-brute only",
    ]
    model_runs(ctx, rnd)

    cases = []
    # W1
    if q:
        plan = [(3, 1, 33, 0, 1, "cloud"), (2, rnd.choice([2, 3]), 28, 1, 1, None), (2, 6, 45, 2, 2, "line")]
    else:
        plan = []
        for nf in (1, 1, 1, 2, 2, 2, 3, 3, 4, 4, 5, 5, 6, 6, 6, 6, 6, 6):
            n = 3 if nf <= 2 else rnd.choice([2, 3])
            plan.append((n, nf, rnd.choice([8, 24, 29, 33, 45, 60]), rnd.randint(0, 2), rnd.randint(0, 2),
                         rnd.choice([None, "cloud", "line"])))
        for nf in (1, 1, 2, 2, 3, 4, 6, 6):
            plan.append((3, nf, rnd.choice([26, 31, 40]), 1, 1, rnd.choice(["cloud", "line"])))
    for (n, nf, npts, nl, nt, big) in plan:
        consts = w1_scene(rnd, n, nf, npts, nl, nt, big)
        r = ctx.tlc("Gen_EdgeQuery", vlib.cfg(init="InitW1", next_="NextW1", constants=consts,
                                              invariants=["EmitW1", "OracleOrder", "OracleAgreesWithExact"]),
                    workers=8 if q else 12, timeout=900)
        cases += r.tagged.get("CASE", [])
    # W2
    for (g, nf, rows, bundle) in (rnd.sample([(3, 3, 1, True), (4, 1, 0, False), (3, 5, 2, True), (4, 2, 1, True)], 2) if q else
                                  [(3, 1, 2, True), (3, 2, 1, False), (3, 3, 1, True), (4, 2, 1, False), (4, 4, 2, True),
                                   (3, 6, 2, False), (5, 1, 1, False), (4, 6, 0, True), (2, 6, 2, True), (4, 3, 3, False),
                                   (5, 2, 2, True), (3, 4, 0, False)]):
        consts = w2_scene(rnd, g, nf, rows, bundle, nclouds=3 if q else 12)
        r = ctx.tlc("Gen_EdgeQuery", vlib.cfg(init="InitW2", next_="NextW2", constants=consts,
                                              invariants=["EmitW2", "GridLoopsSimple"]), workers=4, timeout=600)
        cases += r.tagged.get("CASE", [])
    # W3: isolated clusters, MaxError swept over the gaps of the scene (early termination of the search)
    for _ in range(1 if q else 6):
        r = ctx.tlc("Gen_EdgeQuery", vlib.cfg(init="InitW3", next_="NextW3", constants=w3_family(rnd, True),
                                              invariants=["EmitW3"]), workers=4, timeout=600)
        cases += r.tagged.get("CASE", [])
    # W4: search discs much smaller than the (coarse, 10-edge) index cell containing them
    for _ in range(1 if q else 5):
        r = ctx.tlc("Gen_EdgeQuery", vlib.cfg(init="InitW4", next_="NextW4",
                                              constants=w4_family(rnd, 10, 2 if q else 3),
                                              invariants=["EmitW4"]), workers=4, timeout=600)
        cases += r.tagged.get("CASE", [])
    ctx.log("cases: %d" % len(cases))
    ctx.replay(cases, timeout=2400)
    if ctx.counters.get("optimized_queries", 0) == 0:
        raise vlib.Infra("no query took the optimized path")
    from checks import ext_iter   # EXT: the priority queue of the distance queries (spec/Iterators.tla)
    ext_iter.run_c08(ctx)
