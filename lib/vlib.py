"""Shared driver machinery: scratch space, TLC runs, harness build/run, evidence,
known findings, violation confirmation.  Standard library only."""
import hashlib
import json
import os
import re
import shutil
import subprocess
import sys
import tempfile
import time

VERIF = os.path.dirname(os.path.dirname(os.path.abspath(__file__)))
SPEC = os.path.join(VERIF, "spec")
HARNESS = os.path.join(VERIF, "harness")
EVID = os.path.join(VERIF, "evidence")
KNOWN = os.path.join(VERIF, "known_findings.txt")

GOENV = {
    "GOFLAGS": "-mod=mod",
    "GOPROXY": "off",
    "GOSUMDB": "off",
    "GOTOOLCHAIN": "local",
}


def run_in_own_group(cmd, cwd, timeout):
    """Runs a command in its own process group and kills the whole group afterwards: the proof
    system's back ends (z3, Zenon, Isabelle) can outlive tlapm when an obligation fails, and a
    runaway prover must not be left behind.  Returns the combined output, or None on timeout."""
    import signal
    p = subprocess.Popen(cmd, cwd=cwd, stdout=subprocess.PIPE, stderr=subprocess.STDOUT, text=True, start_new_session=True)
    try:
        out, _ = p.communicate(timeout=timeout)
    except subprocess.TimeoutExpired:
        out = None
    finally:
        try:
            os.killpg(p.pid, signal.SIGKILL)
        except (ProcessLookupError, PermissionError):
            pass
        try:
            p.wait(timeout=10)
        except Exception:
            pass
    return out


def _geo_fatal(err):
    """(kind, function) if the text is a Go fatal-error dump whose stack shows golang/geo, else None."""
    m = re.search(r"fatal error: ([^\n]+)", err)
    if not m:
        return None
    kind = re.sub(r"[^a-z0-9]+", "-", m.group(1).lower()).strip("-")[:40]
    fs = re.findall(r"github\.com/golang/geo/[\w./]*?\.((?:\(\*?\w+\)\.)?\w+)", err)
    if not fs:
        return None
    # the function that appears most often in the dump (the recursion, for a stack overflow)
    return kind, max(sorted(set(fs)), key=fs.count)


class Infra(Exception):
    """Infrastructure problem: exit 2, never a violation."""


class Violation:
    def __init__(self, key, detail, case=None):
        self.key = key
        self.detail = detail
        self.case = case

    def __repr__(self):
        return "Violation(%s: %s)" % (self.key, self.detail)


class TLCResult:
    def __init__(self):
        self.generated = 0
        self.distinct = 0
        self.depth = 0
        self.lines = []      # raw stdout lines
        self.tagged = {}     # tag -> list of decoded JSON payloads
        self.ok = False
        self.error = None
        self.wall = 0.0
        self.coverage = {}


_TAG_RE = re.compile(r'^<<"([A-Z]+)", (".*")>>$')


def _decode_tagged(line):
    m = _TAG_RE.match(line)
    if not m:
        return None
    tag, q = m.group(1), m.group(2)
    try:
        s = json.loads(q)        # TLA+ string escapes are JSON string escapes
        return tag, json.loads(s)
    except Exception:
        return None


class Ctx:
    def __init__(self, prop, tier, seed):
        self.prop = prop
        self.tier = tier
        self.seed = seed
        self.repo = os.environ.get("VERIF_REPO", "/repo")
        self.t0 = time.time()
        self.scratch = tempfile.mkdtemp(prefix="verif-%s-" % prop, dir=os.environ.get("VERIF_SCRATCH", "/var/tmp"))
        self.vcheck = None
        self.states = 0
        self.transitions = 0
        self.tlc_runs = []
        self.evaluations = 0
        self.nontrivial = 0
        self.traces = 0
        self.samples = []
        self.violations = []     # confirmed, unknown
        self.known_hits = []     # (key, text)
        self.unreproduced = []
        self.notes = []
        self.assumptions = []
        self.counters = {}
        self.exhaustive = None
        self.rule = ""
        self._specdir = None
        self._nrun = 0

    # ------------------------------------------------------------------ misc
    def cleanup(self):
        if os.environ.get("VERIF_KEEP"):
            print("scratch kept:", self.scratch)
            return
        shutil.rmtree(self.scratch, ignore_errors=True)

    def log(self, *a):
        print("[%s %s %6.1fs]" % (self.prop, self.tier, time.time() - self.t0), *a, flush=True)

    def quick(self):
        return self.tier == "quick"

    # ------------------------------------------------------------------- TLC
    def specdir(self):
        if self._specdir is None:
            d = os.path.join(self.scratch, "spec")
            shutil.copytree(SPEC, d)
            self._specdir = d
        return self._specdir

    def tlaps(self, module, timeout=900, expect_failure=False, edit=None):
        """Check the proofs of spec/<module>.tla with the TLA+ proof system in the scratch copy.
        Returns the number of proved obligations.  edit: (old, new) textual replacement applied to a
        copy of the module first (used to show that the proof is not vacuous: it must then fail)."""
        d = self.specdir()
        name = module
        if edit:
            name = module + "Mut"
            t = open(os.path.join(d, module + ".tla")).read()
            if edit[0] not in t:
                raise Infra("tlaps edit text not found in %s" % module)
            t = t.replace(edit[0], edit[1]).replace("MODULE " + module, "MODULE " + name)
            open(os.path.join(d, name + ".tla"), "w").write(t)
        t0 = time.time()
        out = run_in_own_group(["tlapm", "--threads", "12", name + ".tla"], d, timeout)
        if out is None:
            raise Infra("tlapm timed out on %s" % name)
        m = re.search(r"All (\d+) obligations? proved", out)
        f = re.search(r"(\d+)/(\d+) obligations? failed", out)
        self.log("TLAPS %s: %s, %.1fs" % (name, m.group(0) if m else (f.group(0) if f else "no verdict"), time.time() - t0))
        if expect_failure:
            if not f:
                raise Infra("tlapm proved (or could not read) the broken variant %s:\n%s" % (name, out[-1500:]))
            return 0
        if not m:
            raise Infra("tlapm did not prove %s:\n%s" % (name, out[-3000:]))
        n = int(m.group(1))
        self.tlc_runs.append({"module": name, "tool": "tlapm", "obligations_proved": n, "wall_s": round(time.time() - t0, 1)})
        return n

    def tlc(self, module, cfg_text=None, cfg=None, workers=4, timeout=600, simulate=None,
            depth=None, extra=(), heap="4g", seed=None, count=True, allow_violation=False,
            deadlock=False, dfs=False):
        """Run TLC on spec/<module>.tla.  cfg_text = contents of the cfg file
        (written to scratch), or cfg = name of an existing cfg in spec/.
        Returns TLCResult; raises Infra on crash/timeout/parse errors."""
        d = self.specdir()
        self._nrun += 1
        if cfg_text is not None:
            cfgname = "%s_run%d.cfg" % (module, self._nrun)
            with open(os.path.join(d, cfgname), "w") as f:
                f.write(cfg_text)
        else:
            cfgname = cfg
        meta = os.path.join(self.scratch, "meta%d" % self._nrun)
        cmd = ["java", "-XX:+UseParallelGC", "-Xmx" + heap, "-Xss64m"]
        if dfs:
            cmd.append("-Dtlc2.tool.queue.IStateQueue=StateDeque")
        cmd += ["-cp", "/opt/veriftools/tla/tla2tools.jar:/opt/veriftools/tla/CommunityModules-deps.jar",
                "tlc2.TLC", "-workers", str(workers), "-metadir", meta, "-noGenerateSpecTE"]
        if not deadlock:
            cmd += ["-deadlock"]
        if simulate is not None:
            cmd += ["-simulate", simulate]
            if depth is not None:
                cmd += ["-depth", str(depth)]
        if seed is not None:
            cmd += ["-seed", str(seed)]
        cmd += list(extra)
        cmd += ["-config", cfgname, module + ".tla"]
        t0 = time.time()
        try:
            p = subprocess.run(cmd, cwd=d, stdout=subprocess.PIPE, stderr=subprocess.STDOUT,
                               timeout=timeout, text=True)
        except subprocess.TimeoutExpired:
            subprocess.run(["pkill", "-f", meta], check=False)
            raise Infra("TLC timeout after %ds on %s" % (timeout, module))
        r = TLCResult()
        r.wall = time.time() - t0
        r.lines = p.stdout.splitlines()
        for ln in r.lines:
            t = _decode_tagged(ln)
            if t:
                r.tagged.setdefault(t[0], []).append(t[1])
                continue
            m = re.match(r"^(\d+) states generated, (\d+) distinct states found", ln)
            if m:
                r.generated, r.distinct = int(m.group(1)), int(m.group(2))
            m = re.match(r"^The depth of the complete state graph search is (\d+)", ln)
            if m:
                r.depth = int(m.group(1))
            m = re.match(r"^The number of states generated: (\d+)", ln)
            if m and simulate is not None:
                r.generated = int(m.group(1))
                r.distinct = int(m.group(1))
            if ln.startswith("Error:") and r.error is None:
                r.error = ln
        shutil.rmtree(meta, ignore_errors=True)
        txt = p.stdout
        finished = "Model checking completed. No error has been found." in txt or \
            (simulate is not None and p.returncode == 0)
        if finished and r.error is None:
            r.ok = True
        elif allow_violation and ("is violated" in txt or "Assumption" in txt or "Deadlock reached" in txt):
            r.ok = False
        else:
            tail = "\n".join(r.lines[-40:])
            if "is violated" in txt or ("Assumption" in txt and "is false" in txt):
                # a model-level theorem failed: the spec itself is inconsistent.  This is
                # an infrastructure problem of the machinery (the model is wrong), not a
                # statement about the code.
                raise Infra("TLC reports a model-level violation in %s:\n%s" % (module, tail))
            raise Infra("TLC failed on %s (rc=%s):\n%s" % (module, p.returncode, tail))
        if count:
            self.states += r.distinct
            self.transitions += max(r.generated, 0)
        self.tlc_runs.append({"module": module, "cfg": cfgname, "generated": r.generated,
                              "distinct": r.distinct, "depth": r.depth, "wall_s": round(r.wall, 2),
                              "simulate": simulate})
        self.log("TLC %s: %d generated, %d distinct, depth %d, %.1fs" %
                 (module, r.generated, r.distinct, r.depth, r.wall))
        return r

    # --------------------------------------------------------------- harness
    def build(self, race=False):
        """Build the Go harness against the repo working tree with hooks on."""
        key = "race" if race else "norace"
        if self.vcheck and self.vcheck.get(key):
            return self.vcheck[key]
        h = os.path.join(self.scratch, "harness")
        if not os.path.isdir(h):
            shutil.copytree(HARNESS, h)
            only = os.environ.get("VERIF_PFILES")
            if only:
                keep = set(x.strip() for x in only.split(","))
                vd = os.path.join(h, "cmd", "vcheck")
                for fn in os.listdir(vd):
                    if fn.startswith("p_") and fn not in keep:
                        os.remove(os.path.join(vd, fn))
            with open(os.path.join(h, "go.mod"), "w") as f:
                f.write("module verifharness\n\ngo 1.21.0\n\nrequire github.com/golang/geo v0.0.0\n\n"
                        "replace github.com/golang/geo => %s\n" % self.repo)
            gs = os.path.join(self.repo, "go.sum")
            if os.path.exists(gs):
                shutil.copy(gs, os.path.join(h, "go.sum"))
        out = os.path.join(self.scratch, "vcheck-" + key)
        env = dict(os.environ)
        env.update(GOENV)
        cmd = ["go", "build", "-tags", "verif"]
        if race:
            cmd.append("-race")
        cmd += ["-o", out, "./cmd/vcheck"]
        t0 = time.time()
        p = subprocess.run(cmd, cwd=h, env=env, stdout=subprocess.PIPE, stderr=subprocess.STDOUT, text=True)
        if p.returncode != 0:
            raise Infra("harness build failed:\n" + p.stdout[-4000:])
        self.log("harness built (%s) in %.1fs" % (key, time.time() - t0))
        self.vcheck = self.vcheck or {}
        self.vcheck[key] = out
        return out

    def write_cases(self, name, cases):
        path = os.path.join(self.scratch, name)
        with open(path, "w") as f:
            for c in cases:
                f.write(json.dumps(c, separators=(",", ":")))
                f.write("\n")
        return path

    def run_harness(self, args, timeout=900, race=False, env_extra=None, ok_codes=(0,)):
        exe = self.build(race=race)
        env = dict(os.environ)
        if env_extra:
            env.update(env_extra)
        # An address-space limit turns a runaway allocation of the code under test (an unbounded loop
        # that appends) into a Go "out of memory" fatal error with a stack, instead of a silent kill by
        # the kernel.  (Not for race builds: the race runtime reserves terabytes of address space.)
        pre = None
        if not race:
            gb = int(os.environ.get("VERIF_MEM_GB", "24"))

            def pre():
                import resource
                resource.setrlimit(resource.RLIMIT_AS, (gb << 30, gb << 30))
        try:
            p = subprocess.run([exe] + list(args), stdout=subprocess.PIPE, stderr=subprocess.PIPE,
                               timeout=timeout, text=True, env=env, cwd=self.scratch, preexec_fn=pre)
        except subprocess.TimeoutExpired:
            raise Infra("harness timeout: %s" % " ".join(args))
        return p

    def replay(self, cases, timeout=900, jobs=None, name=None, confirm=True, postprocess=None, depth=0):
        """Run `vcheck replay` over a list of case dicts.  Returns the merged
        result dict; confirmed violations are appended to self.violations (or
        matched against known findings)."""
        if not cases:
            return {"evaluations": 0, "nontrivial": 0, "violations": [], "samples": [], "counters": {}}
        self._nrun += 1
        name = name or ("cases%d.ndjson" % self._nrun)
        path = self.write_cases(name, cases)
        out = path + ".result.json"
        args = ["replay", "--in", path, "--out", out]
        if jobs:
            args += ["--jobs", str(jobs)]
        p = self.run_harness(args, timeout=timeout)
        fatal = []
        stopped_itself = False
        if p.returncode != 0 and os.path.exists(out):
            try:   # a process that reported hangs writes its results and then ends without exit handlers
                stopped_itself = json.load(open(out)).get("aborted_at", -1) >= 0
            except ValueError:
                stopped_itself = False
        if (p.returncode != 0 and not stopped_itself) or not os.path.exists(out):
            # The process died.  A Go fatal error (stack overflow, concurrent map access, out of
            # memory) cannot be recovered inside the harness; if its stack shows the library, find
            # the case that kills a fresh process on its own: that is behaviour of the real code.
            err = (p.stderr or "") + (p.stdout or "")
            if not _geo_fatal(err):
                raise Infra("vcheck replay failed rc=%s: %s" % (p.returncode, err[-3000:]))
            culprit = self.locate_fatal(cases, timeout)
            if culprit is None:
                raise Infra("vcheck replay died (rc=%s) but no single case reproduces it: %s" % (p.returncode, err[-2000:]))
            idx, key, detail = culprit
            fatal.append({"key": key, "detail": detail, "case": cases[idx], "fatal": True})
            rest = cases[:idx] + cases[idx + 1:]
            empty = {"evaluations": 0, "nontrivial": 0, "violations": [], "samples": [], "counters": {}}
            res = empty
            if rest and depth < 2:
                try:
                    res = self.replay(rest, timeout=timeout, jobs=jobs, confirm=False, postprocess=None, depth=depth + 1)
                except Infra as e:
                    # more cases than can be isolated one by one kill the process: the verdict rests on
                    # the case already isolated; the other cases of this file were not evaluated
                    self.notes.append("replay of the remaining %d cases died again: %s" % (len(rest), str(e)[:200]))
                    res = empty
            res["violations"] = fatal + res.get("violations", [])
            res["evaluations"] = res.get("evaluations", 0) + 1
            res["nontrivial"] = res.get("nontrivial", 0) + 1
            self.evaluations += 1
            self.nontrivial += 1
            self.traces += 1
            if postprocess:
                res["violations"] = fatal + postprocess([v for v in res["violations"] if not v.get("fatal")])
            if confirm:
                self.handle_violations(res.get("violations", []), context=cases)
            return res
        res = json.load(open(out))
        if res.get("aborted_at", -1) >= 0:
            self.notes.append("replay of %s stopped after repeated hangs (reported as violations); %d of %d cases evaluated" %
                              (name, res.get("evaluations", 0), len(cases)))
        self.evaluations += res.get("evaluations", 0)
        self.nontrivial += res.get("nontrivial", 0)
        self.traces += res.get("evaluations", 0)
        for k, v in res.get("counters", {}).items():
            self.counters[k] = self.counters.get(k, 0) + v
        for s in res.get("samples", []):
            if len(self.samples) < 6:
                self.samples.append(s)
        if postprocess:
            res["violations"] = postprocess(res.get("violations", []))
        if confirm:
            self.handle_violations(res.get("violations", []), context=cases)
        return res

    def _dies(self, cases, timeout, tag):
        """Runs the cases in a fresh process; returns the output if it died with a fatal error in the library."""
        path = self.write_cases("fatal-%s.ndjson" % tag, cases)
        out = path + ".result.json"
        if os.path.exists(out):
            os.remove(out)
        p = self.run_harness(["replay", "--in", path, "--out", out], timeout=timeout)
        if p.returncode != 0 and not os.path.exists(out):
            err = (p.stderr or "") + (p.stdout or "")
            if _geo_fatal(err):
                return err
        return None

    def locate_fatal(self, cases, timeout):
        """Bisects for one case that kills a fresh process on its own (twice)."""
        lo, hi = 0, len(cases)
        n = 0
        while hi - lo > 1:
            mid = (lo + hi) // 2
            n += 1
            if self._dies(cases[lo:mid], timeout, "b%d" % n):
                hi = mid
            elif self._dies(cases[mid:hi], timeout, "c%d" % n):
                lo = mid
            else:
                return None   # needs a combination of cases: no verdict
        err = self._dies(cases[lo:hi], timeout, "single1")
        if not err or not self._dies(cases[lo:hi], timeout, "single2"):
            return None
        kind, fn = _geo_fatal(err)
        op = cases[lo].get("op", "?") if isinstance(cases[lo], dict) else "?"
        return lo, "%s/fatal/%s/%s" % (op, kind, fn), "the process dies with a Go fatal error (%s) in %s while running this case alone" % (kind, fn)

    # ------------------------------------------------------- trace direction
    def validate_trace(self, module, path, invariants, timeout=1200):
        """Validate an ndjson trace of independent events with a Trace_* module whose state is the
        line number l and whose INVARIANTs are the relations.  Returns None or (invariant, line)."""
        c = 'INIT Init\nNEXT Next\nCONSTANT TraceFile = "%s"\n' % path + "".join("INVARIANT %s\n" % i for i in invariants)
        r = self.tlc(module, c, workers=1, allow_violation=True, timeout=timeout, heap="8g")
        if r.ok:
            return None
        txt = "\n".join(r.lines)
        inv = re.findall(r"Invariant (\w+) is violated", txt)
        ls = re.findall(r"^(?:/\\ )?l = (\d+)", txt, re.M)
        if not inv or not ls:
            raise Infra("trace validation of %s failed unexpectedly:\n%s" % (module, "\n".join(r.lines[-20:])))
        return inv[0], int(ls[-1])

    def trace_direction(self, recorder, module, invariants, n, key_prefix, chunk=40000, max_findings=6):
        """Direction B: record events from the real code on seeded adversarial inputs, validate every
        event against the TLA+ trace spec, confirm each rejected event by re-recording it alone in a
        fresh process."""
        total = 0
        part = 0
        found = {}
        histories = {}
        while total < n and len(found) < max_findings:
            part += 1
            m = min(chunk, n - total)
            path = os.path.join(self.scratch, "%s-trace-%d.ndjson" % (recorder, part))
            p = self.run_harness(["record", recorder, "--seed", str(self.seed * 1000 + part), "--n", str(m), "--out", path], timeout=1800)
            if p.returncode != 0:
                raise Infra("record %s failed: %s" % (recorder, (p.stderr or "")[-2000:]))
            total += m
            lines = open(path).read().splitlines()
            self.evaluations += len(lines)
            self.traces += len(lines)
            self.counters["%s_trace_events" % recorder] = self.counters.get("%s_trace_events" % recorder, 0) + len(lines)
            start = 0
            rejections = 0
            while start < len(lines) and len(found) < max_findings and rejections < 2 * max_findings:
                rejections += 1
                cur = path
                if start:
                    cur = path + ".rest"
                    with open(cur, "w") as f:
                        f.write("\n".join(lines[start:]) + "\n")
                bad = self.validate_trace(module, cur, invariants)
                if not bad:
                    break
                inv, pos = bad
                ev = lines[start + pos - 1]
                single = os.path.join(self.scratch, "%s-single.ndjson" % recorder)
                self.run_harness(["record", recorder, "--from", cur, "--line", str(pos), "--out", single])
                again = self.validate_trace(module, single, invariants)
                hist = None
                if not again:
                    # the recorder is sequential: the real code may have kept state from the events
                    # recorded before this one.  Re-record a window of preceding events in order.
                    for k in (1, 4, 32, 256):
                        first = max(1, pos - k)
                        r = self.run_harness(["record", recorder, "--from", cur, "--line", str(pos), "--first", str(first), "--out", single])
                        if r.returncode != 0:
                            break
                        got = self.validate_trace(module, single, invariants)
                        if got and got[1] >= 1:
                            wl = open(single).read().splitlines()
                            if wl and json.loads(wl[got[1] - 1]) == json.loads(ev):
                                again, hist = got, [json.loads(x) for x in lines[start + first - 1:start + pos]]
                                break
                        if first == 1:
                            break
                if not again:
                    raise Infra("rejected trace event not reproduced in a fresh process: " + ev[:500])
                key = "%s/%s" % (key_prefix, again[0])
                if hist is not None:
                    histories[key] = hist
                found.setdefault(key, ev)
                start += pos  # continue after the rejected line
        known = load_known(self.prop)
        for key, ev in found.items():
            if key in known:
                self.known_hits.append((key, known[key]))
            else:
                self.violations.append(Violation(key, "recorded event violates %s: %s" % (key.split("/")[-1], ev[:700]),
                                                 {"op": "trace", "recorder": recorder, "module": module,
                                                  "invariants": list(invariants), "event": json.loads(ev),
                                                  "history": histories.get(key)}))

    def replay_trace_case(self, case):
        """Re-record the single logged input of a trace-direction violation and validate it again."""
        src = os.path.join(self.scratch, "replay-src.ndjson")
        evs = case.get("history") or [case["event"]]
        with open(src, "w") as f:
            for e in evs:
                f.write(json.dumps(e) + "\n")
        single = os.path.join(self.scratch, "replay-single.ndjson")
        args = ["record", case["recorder"], "--from", src, "--line", str(len(evs)), "--out", single]
        if len(evs) > 1:
            args += ["--first", "1"]
        self.run_harness(args)
        return self.validate_trace(case["module"], single, case["invariants"])

    # ------------------------------------------------------ violation handling
    def handle_violations(self, viols, limit=25, context=None):
        """viols: list of {key, detail, case}.  De-duplicate by key, confirm each in a
        fresh process, then classify as known finding or new violation.  A violation that does
        not reproduce alone is retried together with the cases that preceded it (context): the
        real code may keep state between calls, and a wrong answer that depends on the calls
        made before it is still a wrong answer of the real code."""
        seen = {}
        for v in viols:
            seen.setdefault(v["key"], v)
        known = load_known(self.prop)
        n = 0
        confirmed = 0
        unreproduced = []
        for key, v in seen.items():
            if any(x.key == key for x in self.violations) or any(k == key for k, _ in self.known_hits):
                continue
            n += 1
            if n > limit:
                self.notes.append("more than %d distinct violation keys; remaining not confirmed" % limit)
                break
            ok = self.confirm(v)
            if not ok and context:
                ok = self.confirm_with_history(v, context)
            if not ok:
                unreproduced.append("violation %s not reproduced in a fresh process: %s" % (key, v.get("detail")))
                continue
            confirmed += 1
            if key in known:
                self.known_hits.append((key, known[key]))
            else:
                self.violations.append(Violation(key, v.get("detail", ""), v.get("case")))
        # an answer that cannot be reproduced is never reported as a violation.  If other keys of
        # the same run are confirmed the run has its verdict from those; otherwise it has none
        # (decided in finish()).
        self.unreproduced.extend(unreproduced)

    def confirm(self, v):
        case = v.get("case")
        if case is None:
            return True
        if v.get("fatal"):
            return self._dies([case], 600, "confirm") is not None
        path = self.write_cases("confirm-%s.ndjson" % hashlib.sha1(v["key"].encode()).hexdigest()[:10], [case])
        out = path + ".result.json"
        if os.path.exists(out):
            os.remove(out)
        p = self.run_harness(["replay", "--in", path, "--out", out], timeout=300)
        if not os.path.exists(out):
            return False
        res = json.load(open(out))
        if p.returncode != 0 and res.get("aborted_at", -1) < 0:
            # a crash of the harness on a single case is itself reproduced behaviour only
            # if the case was reported as a crash; otherwise infrastructure.  (A process that
            # stopped itself after reporting a hang has written its results first.)
            return False
        want = v.get("orig_key", v["key"])
        return any(x["key"] == want for x in res.get("violations", []))

    def _replay_sequential(self, name, seq, timeout=900):
        path = self.write_cases(name, seq)
        out = path + ".result.json"
        p = self.run_harness(["replay", "--in", path, "--out", out, "--jobs", "1"], timeout=timeout)
        if p.returncode != 0 or not os.path.exists(out):
            return []
        return json.load(open(out)).get("violations", [])

    def confirm_with_history(self, v, context):
        """Replay windows of the cases that precede the failing one, in file order, in one
        goroutine of a fresh process; accept the first window that reproduces the violation
        twice.  The replay artefact is then the whole window (op "sequence")."""
        want = v.get("orig_key", v["key"])
        tag = hashlib.sha1(v["key"].encode()).hexdigest()[:10]
        try:
            idx = context.index(v.get("case"))
        except ValueError:
            idx = None
        windows = []
        if idx is not None:
            for k in (1, 2, 4, 8, 32, 128, 1024):
                lo = max(0, idx - k)
                windows.append(context[lo:idx + 1])
                if lo == 0:
                    break
        if len(context) <= 200000:
            windows.append(list(context))
        for i, seq in enumerate(windows):
            hit = [x for x in self._replay_sequential("confirm-%s-h%d.ndjson" % (tag, i), seq) if x["key"] == want]
            if not hit:
                continue
            again = [x for x in self._replay_sequential("confirm-%s-h%d-again.ndjson" % (tag, i), seq) if x["key"] == want]
            if not again:
                continue
            if len(seq) > 200:
                # the whole file: prefer a case of it that fails on its own
                for x in hit[:5]:
                    if self.confirm({"key": v["key"], "orig_key": want, "case": x.get("case")}):
                        v["case"], v["detail"] = x.get("case"), x.get("detail", "")
                        return True
            v["case"] = {"op": "sequence", "cases": seq,
                         "note": "the answer depends on the calls made before it: replay the cases in order in one goroutine"}
            v["detail"] = (v.get("detail", "") + " [reproduced only after the %d preceding case(s): state is kept between calls]" % (len(seq) - 1))
            return True
        return False

    # ---------------------------------------------------------------- finish
    def finish(self, level="model_checking"):
        wall = time.time() - self.t0
        if self.unreproduced:
            if not self.violations:
                raise Infra(self.unreproduced[0])
            for u in self.unreproduced[:5]:
                self.notes.append(u[:400])
        os.makedirs(EVID, exist_ok=True)
        replay_dir = os.path.join(EVID, "replay", self.prop)
        if os.environ.get("VERIF_NO_EVIDENCE"):
            replay_dir = os.path.join(os.environ.get("VERIF_SCRATCH", "/var/tmp"), "verif-mutant-replays", self.prop)
        lines = []
        for key, text in self.known_hits:
            lines.append("KNOWN-FINDING: property=%s key=%s %s" % (self.prop, key, text))
        for v in self.violations:
            os.makedirs(replay_dir, exist_ok=True)
            rp = os.path.join(replay_dir, hashlib.sha1(v.key.encode()).hexdigest()[:12] + ".json")
            with open(rp, "w") as f:
                json.dump({"property": self.prop, "key": v.key, "detail": v.detail, "case": v.case}, f, indent=1)
            lines.append("VIOLATION property=%s replay=%s" % (self.prop, rp))
            lines.append("  key=%s detail=%s" % (v.key, v.detail))
        cov = {
            "states": self.states,
            "transitions": self.transitions,
            "traces_validated_against_impl": self.traces,
            "evaluations": self.evaluations,
            "distinct_nontrivial": self.nontrivial,
            "rule": self.rule,
            "samples": self.samples[:6] if self.samples else ["(none)"],
            "tlc_runs": self.tlc_runs,
            "counters": self.counters,
            "known_findings_reproduced": [k for k, _ in self.known_hits],
            "notes": self.notes,
        }
        if self.exhaustive is not None:
            if isinstance(self.exhaustive, bool):
                cov["exhaustive"] = self.exhaustive
            else:
                # a description of the sub-spaces that were enumerated completely (the schema's
                # "exhaustive" is a boolean about the whole run, which this is not)
                cov["exhaustive_subspaces"] = self.exhaustive
        ev = {
            "property_id": self.prop,
            "tier": self.tier,
            "seed": self.seed,
            "level": level,
            "coverage": cov,
            "assumptions": self.assumptions,
            "wall_s": round(wall, 2),
            "violations": len(self.violations),
        }
        evpath = os.path.join(EVID, self.prop + ".json")
        if os.environ.get("VERIF_NO_EVIDENCE"):
            evpath = os.path.join(self.scratch, "evidence.json")
        with open(evpath, "w") as f:
            json.dump(ev, f, indent=1)
        for ln in lines:
            print(ln, flush=True)
        self.log("done: evaluations=%d nontrivial=%d states=%d violations=%d known=%d" %
                 (self.evaluations, self.nontrivial, self.states, len(self.violations), len(self.known_hits)))
        return 1 if self.violations else 0


def load_known(prop):
    out = {}
    if not os.path.exists(KNOWN):
        return out
    for ln in open(KNOWN):
        ln = ln.strip()
        m = re.match(r"^known: property=(\S+) key=(\S+) (.*)$", ln)
        if m and m.group(1) == prop:
            out[m.group(2)] = m.group(3)
    return out


def cfg(init="Init", next_="Next", invariants=(), constants=None, constraints=(), spec=None,
        properties=(), view=None, postcondition=None, action_constraints=()):
    """Build a TLC cfg text."""
    out = []
    if spec:
        out.append("SPECIFICATION %s" % spec)
    else:
        out.append("INIT %s" % init)
        out.append("NEXT %s" % next_)
    for k, v in (constants or {}).items():
        out.append("CONSTANT %s = %s" % (k, tla_value(v)))
    for i in invariants:
        out.append("INVARIANT %s" % i)
    for i in properties:
        out.append("PROPERTY %s" % i)
    for c in constraints:
        out.append("CONSTRAINT %s" % c)
    for c in action_constraints:
        out.append("ACTION_CONSTRAINT %s" % c)
    if view:
        out.append("VIEW %s" % view)
    if postcondition:
        out.append("POSTCONDITION %s" % postcondition)
    return "\n".join(out) + "\n"


def tla_value(v):
    if isinstance(v, bool):
        return "TRUE" if v else "FALSE"
    if isinstance(v, int):
        return str(v)
    if isinstance(v, str):
        return v  # raw TLA text (caller quotes strings)
    if isinstance(v, (set, frozenset)):
        return "{" + ", ".join(tla_value(x) for x in sorted(v, key=repr)) + "}"
    if isinstance(v, (list, tuple)):
        return "<<" + ", ".join(tla_value(x) for x in v) + ">>"
    raise ValueError(v)
