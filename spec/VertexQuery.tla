----------------------------- MODULE VertexQuery -----------------------------
(***************************************************************************)
(* W1 extension: ContainsVertexQuery (s2/contains_vertex_query.go).         *)
(*                                                                         *)
(* The state of a query is the target vertex o and a multiset M of         *)
(* incident edges <<v, d>>: v the other end point, d = +1 outgoing,         *)
(* d = -1 incoming.  An outgoing and an incoming edge to the same v cancel  *)
(* ("matched sibling pair").  ContainsVertex() is                           *)
(*     0   when every edge is matched,                                      *)
(*    +1   when the unmatched edge met first sweeping CLOCKWISE from the     *)
(*         reference direction RefDir(o) is outgoing,                       *)
(*    -1   when it is incoming.                                             *)
(* The reference direction is not a lattice point: comparisons against it   *)
(* follow Exact!OrderedCCWRef ("U" = not predicted when the integer         *)
(* determinant vanishes), comparisons between edges are exact.              *)
(* The answer is a function of the multiset: it cannot depend on the order  *)
(* of the AddEdge calls.                                                    *)
(***************************************************************************)
EXTENDS Exact

Nbrs(M) == {M[i][1] : i \in DOMAIN M}
Net(M, v) == Cardinality({i \in DOMAIN M : M[i] = <<v, 1>>}) - Cardinality({i \in DOMAIN M : M[i] = <<v, -1>>})
Unmatched(M) == {v \in Nbrs(M) : Net(M, v) # 0}
\* precondition (S2_DCHECK in the C++ original): an edge and its direction occur at most once net
PreQuery(M) == \A v \in Nbrs(M) : Net(M, v) \in {-1, 0, 1}
\* the edges are S2 edges
ValidQuery(M, o) == \A v \in Nbrs(M) : v # o /\ ~Parallel(o, v)

\* e is the edge immediately clockwise from the reference direction r: every other unmatched edge f
\* is met before e when sweeping counter-clockwise from r, i.e. OrderedCCW(r, f, e, o).
\* Candidates: the edges for which this is not refuted.
Candidates(U, o) == {e \in U : \A f \in U \ {e} : OrderedCCWRef(f, e, o) # "F"}
Certain(U, o) == {e \in U : \A f \in U \ {e} : OrderedCCWRef(f, e, o) = "T"}

Unknown == 2
ContainsVertexOn(M, U, o) ==
    IF U = {} THEN 0
    ELSE LET vals == {Sgn(Net(M, e)) : e \in Candidates(U, o)}
         IN  IF Cardinality(vals) = 1 THEN CHOOSE x \in vals : TRUE ELSE Unknown
ContainsVertex(M, o) == ContainsVertexOn(M, Unmatched(M), o)

\* every lattice determinant between two unmatched edges is non-zero, and the answer is known:
\* it survives normalisation of the points
QueryRobust(M, o) ==
    \A p \in Unmatched(M), q \in Unmatched(M) : p # q => Det(o, p, q) # 0

ReverseAll(M) == [i \in DOMAIN M |-> <<M[i][1], -M[i][2]>>]
NegU(x) == IF x = Unknown THEN Unknown ELSE -x

(***************************************************************************)
(* Model-level laws.                                                       *)
(***************************************************************************)
\* the candidates are never refuted away; at most one edge is certainly the first
CandidateLaw(M, o) ==
    LET U == Unmatched(M)
    IN  /\ U # {} => Candidates(U, o) # {}
        /\ Cardinality(Certain(U, o)) <= 1
        /\ Certain(U, o) \subseteq Candidates(U, o)
        /\ ContainsVertex(M, o) \in {-1, 0, 1, Unknown}
        /\ (U = {}) => ContainsVertex(M, o) = 0
        /\ (PreQuery(M) /\ ContainsVertex(M, o) = 0) => U = {}
\* reversing every edge negates the answer
ReverseLaw(M, o) == ContainsVertex(ReverseAll(M), o) = NegU(ContainsVertex(M, o))
\* adding a matched pair changes nothing
SiblingLaw(M, o, v) == ContainsVertex(M \o << <<v, 1>>, <<v, -1>> >>, o) = ContainsVertex(M, o)
\* edge_crossings.go: AngleContainsVertex(a, b, c) == (query(b); AddEdge(a, -1); AddEdge(c, +1); ContainsVertex() > 0)
\* Exact!AngleContainsVertex resolves its two unknown signs independently; for the degenerate angle ABA
\* they are the same sign and the documented answer is always false
AngleContainsVertexD(a, b, c) == IF a = c THEN "F" ELSE AngleContainsVertex(a, b, c)
AngleLaw(a, b, c) ==
    LET cv == ContainsVertex(<< <<a, -1>>, <<c, 1>> >>, b)
        acv == AngleContainsVertexD(a, b, c)
    IN  /\ (acv = "T") <=> (cv = 1)
        /\ (acv = "F") <=> (cv \in {0, -1})
        /\ (acv = "U") <=> (cv = Unknown)
        /\ (a = c) => (acv = "F" /\ cv = 0)
\* property (3) of AngleContainsVertex: with the neighbours s[1..k] in CCW order around b exactly one
\* of the k angles (s[i+1], b, s[i]) contains b; stated for the query object as well
AnglesOf(s, b) == [i \in 1..Len(s) |-> AngleContainsVertexD(s[(i % Len(s)) + 1], b, s[i])]
ExactlyOneLaw(s, b) ==
    Len(s) >= 2 =>
        LET acv == AnglesOf(s, b)
        IN  /\ Cardinality({i \in 1..Len(s) : acv[i] = "T"}) <= 1
            /\ (\A i \in 1..Len(s) : acv[i] # "U") => Cardinality({i \in 1..Len(s) : acv[i] = "T"}) = 1

=============================================================================
