--------------------------- MODULE Trace_EdgeDist ---------------------------
(***************************************************************************)
(* C17, direction B: recorded events of the edge distance / projection /   *)
(* interpolation primitives on adversarial float inputs.  Every float the  *)
(* library reports is an order-preserving key; tolerances were added in Go *)
(* with the library's own error functions and logged as further keys.      *)
(* The specification states the relations that must hold between the       *)
(* logged values; one state per event, violated relations are printed.     *)
(*                                                                         *)
(* ev = "D": point x, edge (a,b)                                           *)
(*   d,ok      UpdateMinDistance(x,a,b,Inf)        four = 4.0              *)
(*   dseg,dang DistanceFromSegment(x,a,b), d.Angle()                       *)
(*   endmin    min(ChordAngleBetweenPoints(x,a),(x,b)); endhi = endmin +   *)
(*             MaxPointError; dlo = d - minUpdateDistanceMaxError(d)       *)
(*   own       1/2 if x is bit-identical to a/b, else 0                    *)
(*   vi,oki    UpdateMinInteriorDistance(x,a,b,Inf)                        *)
(*   dm,okm    UpdateMaxDistance(x,a,b,Negative); dmhi, endmaxlo, farlo    *)
(*   dp        chord(x, Project(x,a,b)); dplo,dphi = d -+ tolerance        *)
(*   pe,petol  distance of the projected point to the edge, tolerance      *)
(*   dh        d*(1+8eps): limits above dh are "away from the tie"         *)
(*   th        per limit l: less = IsDistanceLess, (v,ok) = UpdateMin-     *)
(*             Distance, (vm,okm) = UpdateMaxDistance, (vi,oki) = Update-  *)
(*             MinInteriorDistance, oki2 = IsInteriorDistanceLess          *)
(* ev = "I": edge (a,b), parameter t; p = Interpolate(t,a,b)               *)
(* ev = "L": polyline, fraction, query point                               *)
(* ev = "E": edge pair                                                     *)
(***************************************************************************)
EXTENDS Numeric, TLC, Json

CONSTANT TraceFile
Trace == ndJsonDeserialize(TraceFile)

Bad(name, ok) == IF ok THEN {} ELSE {name}
RangeOf(s) == {s[i] : i \in 1..Len(s)}

\* ---- "D" -------------------------------------------------------------------
ThreshD(e, t) ==
    \* the value returned with a limit is below the limit and not below the distance by more
    \* than the documented error (near a tie the endpoint formula may replace the interior one)
    Bad("thresh-consistent", t.less = t.ok /\ (IF t.ok THEN FLess(t.v, t.l) /\ FLeq(e.dl2, t.v) ELSE FEq(t.v, t.l)))
    \* limit clearly above the computed distance: reported less, with the same value
    \cup Bad("thresh-less", FLess(e.dh, t.l) => (t.less /\ FEq(t.v, e.d)))
    \* limit below the computed distance by more than twice the documented error: not less
    \cup Bad("thresh-not-less", FLeq(t.l, e.dl2) => ~t.less)
    \cup Bad("thresh-max", /\ t.okm = FLess(t.l, e.dm)
                           /\ (IF t.okm THEN FEq(t.vm, e.dm) ELSE FEq(t.vm, t.l)))
    \cup Bad("thresh-interior", /\ t.oki = t.oki2
                                /\ (IF t.oki THEN FEq(t.vi, e.d) /\ FLess(e.d, t.l) ELSE FEq(t.vi, t.l))
                                /\ ((e.oki /\ FLess(e.dh, t.l)) => t.oki)
                                /\ (t.oki => e.oki))
ViolD(e) ==
    Bad("valid", e.ok /\ FLeq(KZero, e.d) /\ FLeq(e.d, e.four) /\ FLeq(KZero, e.dseg))
    \cup Bad("segment-eq", FEq(e.dseg, e.dang))
    \* d(x,ab) <= min(d(x,a), d(x,b)) up to the documented errors
    \cup Bad("le-endpoints", FLeq(e.dlo, e.endhi))
    \cup Bad("own-endpoint-zero", e.own # 0 => FIsZero(e.d))
    \* interior case: the interior distance is the distance; otherwise it is the endpoint distance
    \cup Bad("interior-consistent", IF e.oki THEN FEq(e.vi, e.d) ELSE FEq(e.d, e.endmin))
    \cup Bad("max-valid", e.okm /\ FLeq(KZero, e.dm) /\ FLeq(e.dm, e.four))
    \cup Bad("max-ge-endpoints", FLeq(e.endmaxlo, e.dmhi))
    \cup Bad("min-le-max", FLeq(e.dlo, e.dmhi))
    \* farlo: distance from x to the point of the edge closest to the antipode of x (a point of the edge)
    \cup Bad("max-ge-far", e.farok => FLeq(e.farlo, e.dmhi))
    \cup Bad("project-unit", e.punit)
    \cup Bad("project-realises", FBetween(e.dplo, e.dp, e.dphi))
    \cup Bad("project-on-edge", FLeq(e.pe, e.petol))
    \* angle domain: DistanceFromSegment (xplo/xphi = it -+ tolerance) against Point.Distance
    \* from x to the projected point (xp), which does not go through the chord representation
    \cup Bad("segment-angle", FBetween(e.xplo, e.xp, e.xphi))
    \* class latitude: the distance is known by construction (latlo/lathi = latitude -+ documented
    \* error); rt = ChordAngleFromAngle(latitude).Angle() must round-trip to 8 ulps
    \cup (IF e.lat THEN Bad("latitude", FBetween(e.latlo, e.dsegl, e.lathi))
                       \cup Bad("chord-angle-roundtrip", FBetween(e.rtlo, e.rt, e.rthi))
          ELSE {})
    \cup UNION {ThreshD(e, t) : t \in RangeOf(e.th)}

\* ---- "I" -------------------------------------------------------------------
ViolI(e) ==
    Bad("interp-unit", e.punit)
    \cup Bad("interp-ends", (e.tends = 1 => PEq(e.p, e.pa)) /\ (e.tends = 2 => PEq(e.p, e.pb)))
    \cup Bad("interp-eq", e.tends = 0 => PEq(e.p, e.r))
    \cup Bad("interp-distance", FBetween(e.aplo, e.ap, e.aphi))
    \cup (IF e.t01
          THEN Bad("interp-sum", FBetween(e.sumlo, e.sum, e.sumhi))
               \cup Bad("interp-on-edge", FLeq(e.pe, e.petol))
          ELSE {})
    \cup (IF e.t01 /\ e.distinct
          THEN Bad("fraction", FBetween(e.felo, e.fe, e.fehi))
               \cup Bad("interp-at-fraction", FLeq(e.qp, e.qptol))
          ELSE {})

\* ---- "L" -------------------------------------------------------------------
ViolL(e) ==
    Bad("poly-next-range", e.next \in 1..e.n /\ e.pnext \in 1..e.n)
    \cup Bad("poly-clamp", /\ (e.fle0 => (PEq(e.p, e.v0) /\ e.next = 1))
                           /\ (e.fge1 => (FLeq(e.plast, e.angtol) /\ e.next >= e.n - 1)))
    \cup Bad("poly-distinct-next", ~e.isnext)
    \* Length() = sum of Point.Distance over the edges (4 ulps per edge)
    \cup Bad("poly-length", FBetween(e.lenlo, e.len, e.lenhi))
    \* the interpolated point lies at arc length fraction * (sum of edge lengths) from vertex 0
    \cup Bad("poly-interp-arclength", FBetween(e.alonglo, e.along, e.alonghi))
    \cup Bad("poly-on-segment", FLeq(e.ps, e.pstol))
    \cup Bad("poly-uninterpolate", FBetween(e.flo, e.f2, e.fhi) /\ FBetween(e.zero, e.f2, e.one))
    \cup Bad("poly-project-min", FBetween(e.dqlo, e.dq, e.dqhi))
    \cup Bad("poly-project-on-segment", FLeq(e.qs, e.qstol))
    \cup Bad("poly-onright", e.side # 0 => (e.right = (e.side = 1)))

\* ---- "E" -------------------------------------------------------------------
ThreshE(e, t) ==
    Bad("pair-thresh", /\ (IF t.ok THEN FLess(t.v, t.l) /\ FLeq(e.dl2, t.v) ELSE FEq(t.v, t.l))
                       /\ (FLess(e.dh, t.l) => (t.ok /\ FEq(t.v, e.dm)))
                       /\ (FLeq(t.l, e.dl2) => ~t.ok))
    \* (a current maximum above 180 degrees is outside the domain of the function)
    \cup Bad("pair-thresh-max", FLeq(t.l, e.four) =>
                                  (/\ t.okm = FLess(t.l, e.dx)
                                   /\ (IF t.okm THEN FEq(t.vm, e.dx) ELSE FEq(t.vm, t.l))))
ViolE(e) ==
    Bad("pair-min", e.ok /\ (IF e.cross THEN FIsZero(e.dm) ELSE FEq(e.dm, e.min4)))
    \cup Bad("pair-max", e.okx /\ (IF e.crossanti THEN FEq(e.dx, e.four) ELSE FEq(e.dx, e.max4)))
    \cup Bad("pair-cross-same-point", e.cross => PEq(e.pa, e.pb))
    \cup Bad("pair-closest-realises", FBetween(e.dpplo, e.dpp, e.dpphi))
    \cup Bad("pair-closest-on-edges", FLeq(e.ea, e.etol) /\ FLeq(e.eb, e.etol))
    \cup UNION {ThreshE(e, t) : t \in RangeOf(e.th)}

Violated(e) ==
    IF e.panic # "" THEN {"panic"}
    ELSE IF e.ev = "D" THEN ViolD(e)
    ELSE IF e.ev = "I" THEN ViolI(e)
    ELSE IF e.ev = "L" THEN ViolL(e)
    ELSE IF e.ev = "E" THEN ViolE(e)
    ELSE {"unknown-event"}

VARIABLE l
Init == l = 1
Next == l < Len(Trace) /\ l' = l + 1

Emit ==
    IF l <= Len(Trace) /\ Violated(Trace[l]) # {}
    THEN PrintT(<<"REJ", ToJson([l |-> l, tr |-> Trace[l].tr, cls |-> Trace[l].cls, rel |-> Violated(Trace[l])])>>)
    ELSE TRUE
=============================================================================
