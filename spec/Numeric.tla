------------------------------ MODULE Numeric -------------------------------
(***************************************************************************)
(* Floats observed in the implementation appear in traces as order-        *)
(* preserving KEYS (emb.FloatKey): the IEEE bits b mapped to               *)
(* b ^ (sign ? ~0 : 1<<63) and split into limbs of 22, 21, 21 bits.        *)
(* The specification only COMPARES keys; it never does arithmetic on them. *)
(* Where a documented tolerance is needed, the projection function adds it *)
(* with the library's own types and logs the sum as another key.           *)
(* NaN is logged as <<-1,-1,-1>>; no relation accepts it.                  *)
(***************************************************************************)
EXTENDS Integers, Sequences

IsKey(k) == Len(k) = 3 /\ k[1] >= 0 /\ k[2] >= 0 /\ k[3] >= 0
FLess(a, b) == /\ IsKey(a) /\ IsKey(b)
               /\ \/ a[1] < b[1]
                  \/ (a[1] = b[1] /\ (a[2] < b[2] \/ (a[2] = b[2] /\ a[3] < b[3])))
FEq(a, b) == IsKey(a) /\ IsKey(b) /\ a = b
FLeq(a, b) == FLess(a, b) \/ FEq(a, b)

\* key of +0.0 (-0.0 is normalised to +0.0 by the projection): bits 1<<63
KZero == <<2097152, 0, 0>>
FPos(a) == FLess(KZero, a)
FNeg(a) == FLess(a, KZero)
FIsZero(a) == FEq(a, KZero)
FSign(a) == IF FPos(a) THEN 1 ELSE IF FNeg(a) THEN -1 ELSE 0
\* a <= x <= b
FBetween(a, x, b) == FLeq(a, x) /\ FLeq(x, b)

\* a point is a triple of keys
PEq(p, q) == FEq(p[1], q[1]) /\ FEq(p[2], q[2]) /\ FEq(p[3], q[3])
=============================================================================
