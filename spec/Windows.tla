------------------------------ MODULE Windows ------------------------------
(***************************************************************************)
(* EXT (C13, small objects with a sequential meaning): the search windows  *)
(* of s2/polyline_alignment.go.                                            *)
(*                                                                         *)
(* A window is "a sparse binary matrix with specific structural            *)
(* constraints": it is represented by one column stride [start, end) per   *)
(* row.  The six documented validity rules are stated twice: on the        *)
(* strides (StridesValid, what isValid must decide) and on the matrix of   *)
(* filled cells (MatrixValid); TLC proves that they agree on everything    *)
(* enumerated.                                                             *)
(*                                                                         *)
(* dilate: "returns a new, equal-size window by dilating this window with  *)
(* a square structuring element with half-length radius.  Radius = 1       *)
(* corresponds to a 3x3 square morphological dilation."  Specified on the  *)
(* cell set: a cell of the rows x cols matrix is filled afterwards iff a   *)
(* filled cell lies within Chebyshev distance radius of it.  The six rules *)
(* admit windows whose rows are far apart (row 0 = [0,1), row 1 = [4,5));  *)
(* their morphological dilation can have a gap in a row and is then not a  *)
(* window at all (TLC finds the first example at 2 x 5).  Where the        *)
(* dilation is a window (always for windows whose consecutive rows touch,  *)
(* T_Dilate) the result is fixed exactly; elsewhere the documentation      *)
(* contradicts itself and only laws are demanded: a valid window of the    *)
(* same size that contains the dilation.                                   *)
(*                                                                         *)
(* upsample: "returns a new, larger window that is an upscaled version of  *)
(* this window."  This is all the documentation says.  The specification   *)
(* therefore fixes the result only where "upscaled version" has one        *)
(* meaning: new sizes that are integer multiples (every cell becomes a     *)
(* kr x kc block; kr = kc = 1 is the identity).  For all other sizes only  *)
(* laws are demanded (the harness checks them on the real result): the     *)
(* result is a valid window of exactly the requested size (which includes  *)
(* the two corner cells).  The rounding rule of the implementation is NOT  *)
(* copied.                                                                 *)
(*                                                                         *)
(* Behaviours: build any valid window (row by row), then apply dilate /    *)
(* upsample calls; every step carries the expected strides.  A separate    *)
(* phase enumerates arbitrary (mostly invalid) stride lists for isValid.   *)
(***************************************************************************)
EXTENDS Integers, Sequences, FiniteSets, TLC, Json

CONSTANTS MaxDim,      \* windows of up to MaxDim x MaxDim are enumerated
          MaxRad,      \* dilation radii 0..MaxRad
          MaxUp,       \* upsample targets up to MaxUp x MaxUp
          ChainDim,    \* call sequences are continued for windows up to ChainDim x ChainDim
          ChainLen,    \* length of call sequences
          InvRows,     \* isValid: stride lists of 1..InvRows rows
          InvVal,      \* isValid: start/end values 0..InvVal
          Parts, Part  \* windows with more than 9 cells of matrix are explored if Hash % Parts = Part (1, 0: all)

Abs(x) == IF x < 0 THEN -x ELSE x
MinOf(S) == CHOOSE x \in S : \A y \in S : x <= y
MaxOf(S) == CHOOSE x \in S : \A y \in S : x >= y

\* ---- windows as stride lists ---------------------------------------------------
Rows(w) == Len(w)
Cols(w) == w[Len(w)][2]                   \* windowFromStrides: cols = end of the last stride
\* the six rules, for a window value with explicit dimensions (R rows, C columns)
StridesValid(w, R, C) ==
    /\ R > 0 /\ C > 0 /\ Len(w) = R
    /\ w[1][1] = 0                                              \* rule 5
    /\ w[R][2] = C                                              \* rule 6
    /\ \A r \in 1..R : w[r][1] < w[r][2]                          \* rules 1, 2
    /\ \A r \in 2..R : w[r][1] >= w[r - 1][1]                     \* rule 3
    /\ \A r \in 2..R : w[r][2] >= w[r - 1][2]                     \* rule 4
    /\ w[1][2] >= 0                                             \* (ends are column indices)

\* ---- windows as binary matrices (rows and columns counted from 0) ------------------
Cells(w) == UNION {{<<r - 1, c>> : c \in w[r][1]..(w[r][2] - 1)} : r \in 1..Len(w)}
RowCols(S, r) == {p[2] : p \in {q \in S : q[1] = r}}
MatrixValid(S, R, C) ==
    /\ R > 0 /\ C > 0
    /\ S \subseteq (0..(R - 1)) \X (0..(C - 1))
    /\ \A r \in 0..(R - 1) :
         LET cs == RowCols(S, r)
         IN  /\ cs # {}                                                        \* 2
             /\ Cardinality(cs) = MaxOf(cs) - MinOf(cs) + 1                    \* 1
             /\ r > 0 => /\ MinOf(cs) >= MinOf(RowCols(S, r - 1))              \* 3
                         /\ MaxOf(cs) >= MaxOf(RowCols(S, r - 1))              \* 4
    /\ <<0, 0>> \in S                                                          \* 5
    /\ <<R - 1, C - 1>> \in S                                                  \* 6
\* (TLC evaluates operator arguments and LET definitions again at every use: values that are used
\* more than once are bound by a one-element set, "x \in {e}")
RowStride(S, r) == CHOOSE st \in {<<MinOf(cs), MaxOf(cs) + 1>> : cs \in {RowCols(S, r)}} : TRUE
RECURSIVE StridesUpTo(_, _)
StridesUpTo(S, r) == IF r = 0 THEN <<>> ELSE Append(StridesUpTo(S, r - 1), RowStride(S, r - 1))
StridesOf(S, R) == StridesUpTo(S, R)

\* ---- the documented operations, on cell sets ------------------------------------
DilateCells(S, R, C, rad) ==
    {p \in (0..(R - 1)) \X (0..(C - 1)) :
        \E q \in S : Abs(p[1] - q[1]) <= rad /\ Abs(p[2] - q[2]) <= rad}
\* every row of S is one non-empty run of columns: S can be written as strides
Representable(S, R) ==
    \A r \in 0..(R - 1) : \A cs \in {RowCols(S, r)} : cs # {} /\ Cardinality(cs) = MaxOf(cs) - MinOf(cs) + 1
\* consecutive rows share a column or are diagonal neighbours (every window built from a warp path)
Connected(w) == \A r \in 2..Len(w) : w[r][1] <= w[r - 1][2]
\* the strides of the dilation (its row-wise hull where it is not representable)
Dilate(w, rad) ==
    CHOOSE x \in {StridesOf(Dd, Rows(w)) : Dd \in {DilateCells(S, Rows(w), Cols(w), rad) : S \in {Cells(w)}}} : TRUE
\* integer scale factors: every cell becomes a kr x kc block
BlockCells(S, R, C, kr, kc) ==
    {p \in (0..(kr * R - 1)) \X (0..(kc * C - 1)) : <<p[1] \div kr, p[2] \div kc>> \in S}
UpsampleInt(w, kr, kc) ==
    CHOOSE x \in {StridesOf(B, kr * Rows(w)) : B \in {BlockCells(S, Rows(w), Cols(w), kr, kc) : S \in {Cells(w)}}} : TRUE
IsMultiple(w, nr, nc) == nr % Rows(w) = 0 /\ nc % Cols(w) = 0

\* ---- state ----------------------------------------------------------------------
VARIABLES ph,     \* "build" | "run" | "inv"
          R, C,   \* dimensions of the window being built
          w,      \* build/inv: rows so far;  run: the current window
          w0,     \* run: the window the call sequence started from
          done,   \* run: the sequence cannot be continued (last result not fixed by the spec, or a one-call case)
          h       \* run: the calls with their expected results
vars == <<ph, R, C, w, w0, done, h>>

Init ==
    /\ w = <<>> /\ w0 = <<>> /\ h = <<>> /\ done = FALSE
    /\ \/ ph = "build" /\ R \in 1..MaxDim /\ C \in 1..MaxDim
       \/ ph = "inv" /\ R = 0 /\ C = 0

\* build every valid window of R x C row by row
RECURSIVE Hash(_)
Hash(x) == IF x = <<>> THEN 0 ELSE 3 * Head(x)[1] + 5 * Head(x)[2] + Len(x) + Hash(Tail(x))
Build ==
    /\ ph = "build" /\ Len(w) < R
    /\ \E s \in 0..(C - 1), e \in 1..C :
         /\ s < e
         /\ IF Len(w) = 0 THEN s = 0 ELSE s >= w[Len(w)][1] /\ e >= w[Len(w)][2]
         /\ Len(w) = R - 1 => e = C
         /\ w' = Append(w, <<s, e>>)
         /\ (Len(w) = R - 1 /\ R * C > 9) => Hash(w') % Parts = Part
    /\ ph' = IF Len(w) = R - 1 THEN "run" ELSE "build"
    /\ w0' = IF Len(w) = R - 1 THEN w' ELSE w0
    /\ UNCHANGED <<R, C, done, h>>

DilateStep(rad, last) ==
    \E Dd \in {DilateCells(Cells(w), Rows(w), Cols(w), rad)} :
      IF Representable(Dd, Rows(w))
      THEN /\ w' = StridesOf(Dd, Rows(w))
           /\ h' = Append(h, [a |-> "Dilate", rad |-> rad, exact |-> TRUE, want |-> w'])
           /\ done' = last
      ELSE /\ w' = w          \* want: the row-wise hull of the dilation, a lower bound of the result
           /\ h' = Append(h, [a |-> "Dilate", rad |-> rad, exact |-> FALSE, want |-> StridesOf(Dd, Rows(w))])
           /\ done' = TRUE
UpsampleStep(nr, nc, last) ==
    /\ nr >= Rows(w) /\ nc >= Cols(w)
    /\ IF IsMultiple(w, nr, nc)
       THEN /\ w' = UpsampleInt(w, nr \div Rows(w), nc \div Cols(w))
            /\ h' = Append(h, [a |-> "Upsample", nr |-> nr, nc |-> nc, exact |-> TRUE, want |-> w'])
            /\ done' = last
       ELSE /\ w' = w
            /\ h' = Append(h, [a |-> "Upsample", nr |-> nr, nc |-> nc, exact |-> FALSE, want |-> <<>>])
            /\ done' = TRUE

Small(x) == Rows(x) <= ChainDim /\ Cols(x) <= ChainDim
\* first call: every radius and every target size; a sequence is continued only from the chain calls
First ==
    /\ ph = "run" /\ Len(h) = 0
    /\ \/ \E rad \in 0..MaxRad : DilateStep(rad, ~(Small(w) /\ rad \in 1..2 /\ ChainLen > 1))
       \/ \E nr \in Rows(w)..MaxUp, nc \in Cols(w)..MaxUp :
             UpsampleStep(nr, nc, ~(Small(w) /\ ChainLen > 1 /\ nr \in {Rows(w), 2 * Rows(w)} /\ nc \in {Cols(w), 2 * Cols(w)}
                                     /\ <<nr, nc>> # <<Rows(w), Cols(w)>>))
    /\ UNCHANGED <<ph, R, C, w0>>
Later ==
    /\ ph = "run" /\ Len(h) >= 1 /\ Len(h) < ChainLen /\ ~done
    /\ \/ \E rad \in 1..2 : DilateStep(rad, FALSE)
       \/ \E kr \in 1..2, kc \in 1..2 :
             /\ kr * kc > 1 /\ kr * Rows(w) <= MaxUp /\ kc * Cols(w) <= MaxUp
             /\ UpsampleStep(kr * Rows(w), kc * Cols(w), FALSE)
    /\ UNCHANGED <<ph, R, C, w0>>
Finish ==
    /\ ph = "run" /\ Len(h) >= 1 /\ (done \/ Len(h) = ChainLen)
    /\ PrintT(<<"HIST", ToJson([op |-> "windows.chain", w |-> w0, steps |-> h])>>)
    /\ UNCHANGED vars

\* arbitrary stride lists for isValid: the expected answer for every claimed column count
Inv ==
    /\ ph = "inv" /\ Len(w) < InvRows
    /\ \E s \in 0..InvVal, e \in 0..InvVal :
         /\ w' = Append(w, <<s, e>>)
         /\ PrintT(<<"CASE", ToJson([op |-> "windows.valid", w |-> w',
                                     cols |-> [c \in 1..(InvVal + 2) |-> StridesValid(w', Len(w'), c - 1)]])>>)
    /\ UNCHANGED <<ph, R, C, w0, done, h>>

Next == Build \/ First \/ Later \/ Finish \/ Inv

\* ---- theorems (INVARIANTs) ------------------------------------------------------
Fresh == ph = "run" /\ Len(h) = 0          \* a newly built window
\* the two statements of validity agree, and the stride form is a faithful representation
T_Repr ==
    Fresh => \A S0 \in {Cells(w)} :
             /\ StridesValid(w, R, C) /\ MatrixValid(S0, R, C)
             /\ Rows(w) = R /\ Cols(w) = C /\ StridesOf(S0, R) = w
T_InvRepr ==     \* on arbitrary stride lists with non-empty rows: StridesValid <=> MatrixValid of the cells
    (ph = "inv" /\ Len(w) >= 1 /\ \A r \in 1..Len(w) : w[r][1] < w[r][2]) =>
        \A c \in 1..(InvVal + 1) : StridesValid(w, Len(w), c) <=> MatrixValid(Cells(w), Len(w), c)
\* dilation: extensive, radius 0 is the identity, monotone in the radius, radii add up, a radius >=
\* both dimensions fills the matrix; a window whenever it has no gaps in a row, which is the case
\* for every connected window
T_Dilate ==
    Fresh => \A S0 \in {Cells(w)} :
      /\ \A rad \in 0..MaxRad :
           \A D \in {DilateCells(S0, R, C, rad)} :      \* (bound once: TLC re-evaluates LET definitions at every use)
               /\ S0 \subseteq D
               /\ Representable(D, R) => MatrixValid(D, R, C) /\ Cells(Dilate(w, rad)) = D
               /\ Connected(w) => Representable(D, R)
               /\ StridesValid(Dilate(w, rad), R, C) /\ D \subseteq Cells(Dilate(w, rad))     \* the hull is a window
               /\ rad = 0 => D = S0
               /\ rad > 0 => DilateCells(S0, R, C, rad - 1) \subseteq D
               /\ (rad >= R - 1 /\ rad >= C - 1) => D = (0..(R - 1)) \X (0..(C - 1))
      /\ \A a \in 1..MaxRad, b \in 1..MaxRad :
           a + b <= MaxRad => \A Da \in {DilateCells(S0, R, C, a)} : DilateCells(Da, R, C, b) = DilateCells(S0, R, C, a + b)
\* integer upsampling: valid window of the new size, identity for factor 1, factors multiply
T_Upsample ==
    Fresh => \A S0 \in {Cells(w)} :
      \A kr \in 1..2, kc \in 1..2 :
        \A B \in {BlockCells(S0, R, C, kr, kc)} :
            /\ MatrixValid(B, kr * R, kc * C)
            /\ Cells(UpsampleInt(w, kr, kc)) = B
            /\ (kr = 1 /\ kc = 1) => UpsampleInt(w, kr, kc) = w
            /\ UpsampleInt(UpsampleInt(w, kr, 1), 1, kc) = UpsampleInt(w, kr, kc)
\* every window on a call sequence is valid
T_ChainValid == (ph = "run" /\ Len(w) > 0) => StridesValid(w, Rows(w), Cols(w))
=============================================================================
