------------------------------ MODULE Windows ------------------------------
(***************************************************************************)
(* EXT (C13, small objects with a sequential meaning): the search windows  *)
(* of s2/polyline_alignment.go.                                            *)
(*                                                                         *)
(* A window is "a sparse binary matrix with specific structural            *)
(* constraints": it is represented by one column stride [start, end) per   *)
(* row.  The six documented validity rules are stated twice: on the        *)
(* strides (StridesValid, what isValid must decide) and on the matrix of   *)
(* filled cells (MatrixValid); TLC proves that they agree on everything    *)
(* enumerated.                                                             *)
(*                                                                         *)
(* dilate: "returns a new, equal-size window by dilating this window with  *)
(* a square structuring element with half-length radius.  Radius = 1       *)
(* corresponds to a 3x3 square morphological dilation."  Specified on the  *)
(* cell set: a cell of the rows x cols matrix is filled afterwards iff a   *)
(* filled cell lies within Chebyshev distance radius of it.                *)
(*                                                                         *)
(* upsample: "returns a new, larger window that is an upscaled version of  *)
(* this window."  This is all the documentation says.  The specification   *)
(* therefore fixes the result only where "upscaled version" has one        *)
(* meaning: new sizes that are integer multiples (every cell becomes a     *)
(* kr x kc block; kr = kc = 1 is the identity).  For all other sizes only  *)
(* laws are demanded (the harness checks them on the real result): the     *)
(* result is a valid window of exactly the requested size (which includes  *)
(* the two corner cells).  The rounding rule of the implementation is NOT  *)
(* copied.                                                                 *)
(*                                                                         *)
(* Behaviours: build any valid window (row by row), then apply dilate /    *)
(* upsample calls; every step carries the expected strides.  A separate    *)
(* phase enumerates arbitrary (mostly invalid) stride lists for isValid.   *)
(***************************************************************************)
EXTENDS Integers, Sequences, FiniteSets, TLC, Json

CONSTANTS MaxDim,      \* windows of up to MaxDim x MaxDim are enumerated
          MaxRad,      \* dilation radii 0..MaxRad
          MaxUp,       \* upsample targets up to MaxUp x MaxUp
          ChainDim,    \* call sequences are continued for windows up to ChainDim x ChainDim
          ChainLen,    \* length of call sequences
          InvRows,     \* isValid: stride lists of 1..InvRows rows
          InvVal       \* isValid: start/end values 0..InvVal

Abs(x) == IF x < 0 THEN -x ELSE x
MinOf(S) == CHOOSE x \in S : \A y \in S : x <= y
MaxOf(S) == CHOOSE x \in S : \A y \in S : x >= y

\* ---- windows as stride lists ---------------------------------------------------
Rows(w) == Len(w)
Cols(w) == w[Len(w)][2]                   \* windowFromStrides: cols = end of the last stride
\* the six rules, for a window value with explicit dimensions (R rows, C columns)
StridesValid(w, R, C) ==
    /\ R > 0 /\ C > 0 /\ Len(w) = R
    /\ w[1][1] = 0                                              \* rule 5
    /\ w[R][2] = C                                              \* rule 6
    /\ \A r \in 1..R : w[r][1] < w[r][2]                          \* rules 1, 2
    /\ \A r \in 2..R : w[r][1] >= w[r - 1][1]                     \* rule 3
    /\ \A r \in 2..R : w[r][2] >= w[r - 1][2]                     \* rule 4
    /\ w[1][2] >= 0                                             \* (ends are column indices)

\* ---- windows as binary matrices (rows and columns counted from 0) ------------------
Cells(w) == UNION {{<<r - 1, c>> : c \in w[r][1]..(w[r][2] - 1)} : r \in 1..Len(w)}
RowCols(S, r) == {p[2] : p \in {q \in S : q[1] = r}}
MatrixValid(S, R, C) ==
    /\ R > 0 /\ C > 0
    /\ S \subseteq (0..(R - 1)) \X (0..(C - 1))
    /\ \A r \in 0..(R - 1) :
         LET cs == RowCols(S, r)
         IN  /\ cs # {}                                                        \* 2
             /\ Cardinality(cs) = MaxOf(cs) - MinOf(cs) + 1                    \* 1
             /\ r > 0 => /\ MinOf(cs) >= MinOf(RowCols(S, r - 1))              \* 3
                         /\ MaxOf(cs) >= MaxOf(RowCols(S, r - 1))              \* 4
    /\ <<0, 0>> \in S                                                          \* 5
    /\ <<R - 1, C - 1>> \in S                                                  \* 6
StridesOf(S, R) == [r \in 1..R |-> <<MinOf(RowCols(S, r - 1)), MaxOf(RowCols(S, r - 1)) + 1>>]

\* ---- the documented operations, on cell sets ------------------------------------
DilateCells(S, R, C, rad) ==
    {p \in (0..(R - 1)) \X (0..(C - 1)) :
        \E q \in S : Abs(p[1] - q[1]) <= rad /\ Abs(p[2] - q[2]) <= rad}
Dilate(w, rad) == StridesOf(DilateCells(Cells(w), Rows(w), Cols(w), rad), Rows(w))
\* integer scale factors: every cell becomes a kr x kc block
BlockCells(S, R, C, kr, kc) ==
    {p \in (0..(kr * R - 1)) \X (0..(kc * C - 1)) : <<p[1] \div kr, p[2] \div kc>> \in S}
UpsampleInt(w, kr, kc) == StridesOf(BlockCells(Cells(w), Rows(w), Cols(w), kr, kc), kr * Rows(w))
IsMultiple(w, nr, nc) == nr % Rows(w) = 0 /\ nc % Cols(w) = 0

\* ---- state ----------------------------------------------------------------------
VARIABLES ph,     \* "build" | "run" | "inv"
          R, C,   \* dimensions of the window being built
          w,      \* build/inv: rows so far;  run: the current window
          w0,     \* run: the window the call sequence started from
          done,   \* run: the sequence cannot be continued (last result not fixed by the spec, or a one-call case)
          h       \* run: the calls with their expected results
vars == <<ph, R, C, w, w0, done, h>>

Init ==
    /\ w = <<>> /\ w0 = <<>> /\ h = <<>> /\ done = FALSE
    /\ \/ ph = "build" /\ R \in 1..MaxDim /\ C \in 1..MaxDim
       \/ ph = "inv" /\ R = 0 /\ C = 0

\* build every valid window of R x C row by row
Build ==
    /\ ph = "build" /\ Len(w) < R
    /\ \E s \in 0..(C - 1), e \in 1..C :
         /\ s < e
         /\ IF Len(w) = 0 THEN s = 0 ELSE s >= w[Len(w)][1] /\ e >= w[Len(w)][2]
         /\ Len(w) = R - 1 => e = C
         /\ w' = Append(w, <<s, e>>)
    /\ ph' = IF Len(w) = R - 1 THEN "run" ELSE "build"
    /\ w0' = IF Len(w) = R - 1 THEN w' ELSE w0
    /\ UNCHANGED <<R, C, done, h>>

DilateStep(rad, last) ==
    /\ w' = Dilate(w, rad)
    /\ h' = Append(h, [a |-> "Dilate", rad |-> rad, want |-> w'])
    /\ done' = last
UpsampleStep(nr, nc, last) ==
    /\ nr >= Rows(w) /\ nc >= Cols(w)
    /\ IF IsMultiple(w, nr, nc)
       THEN /\ w' = UpsampleInt(w, nr \div Rows(w), nc \div Cols(w))
            /\ h' = Append(h, [a |-> "Upsample", nr |-> nr, nc |-> nc, exact |-> TRUE, want |-> w'])
            /\ done' = last
       ELSE /\ w' = w
            /\ h' = Append(h, [a |-> "Upsample", nr |-> nr, nc |-> nc, exact |-> FALSE, want |-> <<>>])
            /\ done' = TRUE

Small(x) == Rows(x) <= ChainDim /\ Cols(x) <= ChainDim
\* first call: every radius and every target size; a sequence is continued only from the chain calls
First ==
    /\ ph = "run" /\ Len(h) = 0
    /\ \/ \E rad \in 0..MaxRad : DilateStep(rad, ~(Small(w) /\ rad \in 1..2 /\ ChainLen > 1))
       \/ \E nr \in Rows(w)..MaxUp, nc \in Cols(w)..MaxUp :
             UpsampleStep(nr, nc, ~(Small(w) /\ ChainLen > 1 /\ nr \in {Rows(w), 2 * Rows(w)} /\ nc \in {Cols(w), 2 * Cols(w)}
                                     /\ <<nr, nc>> # <<Rows(w), Cols(w)>>))
    /\ UNCHANGED <<ph, R, C, w0>>
Later ==
    /\ ph = "run" /\ Len(h) >= 1 /\ Len(h) < ChainLen /\ ~done
    /\ \/ \E rad \in 1..2 : DilateStep(rad, FALSE)
       \/ \E kr \in 1..2, kc \in 1..2 :
             /\ kr * kc > 1 /\ kr * Rows(w) <= MaxUp /\ kc * Cols(w) <= MaxUp
             /\ UpsampleStep(kr * Rows(w), kc * Cols(w), FALSE)
    /\ UNCHANGED <<ph, R, C, w0>>
Finish ==
    /\ ph = "run" /\ Len(h) >= 1 /\ (done \/ Len(h) = ChainLen)
    /\ PrintT(<<"HIST", ToJson([op |-> "windows.chain", w |-> w0, steps |-> h])>>)
    /\ UNCHANGED vars

\* arbitrary stride lists for isValid: the expected answer for every claimed column count
Inv ==
    /\ ph = "inv" /\ Len(w) < InvRows
    /\ \E s \in 0..InvVal, e \in 0..InvVal :
         /\ w' = Append(w, <<s, e>>)
         /\ PrintT(<<"CASE", ToJson([op |-> "windows.valid", w |-> w',
                                     cols |-> [c \in 1..(InvVal + 2) |-> StridesValid(w', Len(w'), c - 1)]])>>)
    /\ UNCHANGED <<ph, R, C, w0, done, h>>

Next == Build \/ First \/ Later \/ Finish \/ Inv

\* ---- theorems (INVARIANTs) ------------------------------------------------------
Fresh == ph = "run" /\ Len(h) = 0          \* a newly built window
S0 == Cells(w)
\* the two statements of validity agree, and the stride form is a faithful representation
T_Repr ==
    Fresh => /\ StridesValid(w, R, C) /\ MatrixValid(S0, R, C)
             /\ Rows(w) = R /\ Cols(w) = C /\ StridesOf(S0, R) = w
T_InvRepr ==     \* on arbitrary stride lists with non-empty rows: StridesValid <=> MatrixValid of the cells
    (ph = "inv" /\ Len(w) >= 1 /\ \A r \in 1..Len(w) : w[r][1] < w[r][2]) =>
        \A c \in 1..(InvVal + 1) : StridesValid(w, Len(w), c) <=> MatrixValid(Cells(w), Len(w), c)
\* dilation: valid result of the same size, radius 0 is the identity, monotone in the radius,
\* extensive, radii add up, a radius >= both dimensions fills the matrix
T_Dilate ==
    Fresh =>
      /\ \A rad \in 0..MaxRad :
           \A D \in {DilateCells(S0, R, C, rad)} :      \* (bound once: TLC re-evaluates LET definitions at every use)
               /\ MatrixValid(D, R, C) /\ S0 \subseteq D
               /\ rad = 0 => D = S0
               /\ rad > 0 => DilateCells(S0, R, C, rad - 1) \subseteq D
               /\ (rad >= R - 1 /\ rad >= C - 1) => D = (0..(R - 1)) \X (0..(C - 1))
               /\ Cells(Dilate(w, rad)) = D
      /\ \A a \in 1..MaxRad, b \in 1..MaxRad :
           a + b <= MaxRad => DilateCells(DilateCells(S0, R, C, a), R, C, b) = DilateCells(S0, R, C, a + b)
\* integer upsampling: valid window of the new size, identity for factor 1, factors multiply
T_Upsample ==
    Fresh =>
      \A kr \in 1..2, kc \in 1..2 :
        \A B \in {BlockCells(S0, R, C, kr, kc)} :
            /\ MatrixValid(B, kr * R, kc * C)
            /\ Cells(UpsampleInt(w, kr, kc)) = B
            /\ (kr = 1 /\ kc = 1) => UpsampleInt(w, kr, kc) = w
            /\ UpsampleInt(UpsampleInt(w, kr, 1), 1, kc) = UpsampleInt(w, kr, kc)
\* every window on a call sequence is valid
T_ChainValid == (ph = "run" /\ Len(w) > 0) => StridesValid(w, Rows(w), Cols(w))
=============================================================================
