------------------------------- MODULE Bounds -------------------------------
(***************************************************************************)
(* C10: bounds are conservative; convex hull.                              *)
(*                                                                         *)
(* Three groups of definitions:                                            *)
(*  1. order relations on float keys (a float64 observed in Go is an       *)
(*     order-preserving key <<k2,k1,k0>>; the spec only compares keys) and *)
(*     the set semantics of r1.Interval / s1.Interval / Rect / Cap /       *)
(*     cell-id ranges expressed on keys;                                   *)
(*  2. W2 certificates: containment of a probe (centre of a grid cell) in  *)
(*     a rectangle-with-holes of grid cells and inclusion of one rectangle *)
(*     in another, by integer comparison; whether a rectangle of a polar   *)
(*     face touches the pole; W1 certificates: an integer combination of   *)
(*     the vertices of a lattice triangle with positive coefficients is    *)
(*     strictly inside it;                                                 *)
(*  3. the exact convex hull of a finite lattice point set under the       *)
(*     perturbed orientation predicate of Exact.tla.                       *)
(***************************************************************************)
EXTENDS Exact

\* ------------------------------------------------------------------ keys
NaNKey == <<-1, -1, -1>>
IsNum(a) == a # NaNKey
FLess(a, b) == /\ IsNum(a) /\ IsNum(b)
               /\ (a[1] < b[1] \/ (a[1] = b[1] /\ (a[2] < b[2] \/ (a[2] = b[2] /\ a[3] < b[3]))))
FLeq(a, b) == IsNum(a) /\ IsNum(b) /\ ~FLess(b, a)
FEq(a, b) == IsNum(a) /\ a = b

\* r1.Interval [lo,hi] on keys (empty iff lo > hi)
R1Empty(lo, hi) == FLess(hi, lo)
R1Has(lo, hi, x) == FLeq(lo, x) /\ FLeq(x, hi)
R1HasInterval(lo, hi, olo, ohi) == R1Empty(olo, ohi) \/ (FLeq(lo, olo) /\ FLeq(ohi, hi))

\* s1.Interval on keys.  pi / npi are the keys of +pi and -pi (logged by the harness).
S1Inverted(lo, hi) == FLess(hi, lo)
S1Empty(lo, hi, pi, npi) == lo = pi /\ hi = npi
S1Full(lo, hi, pi, npi) == lo = npi /\ hi = pi
\* x already normalised (-pi mapped to pi) by the projection
S1Has(lo, hi, x, pi, npi) ==
    IF S1Inverted(lo, hi)
    THEN (FLeq(lo, x) \/ FLeq(x, hi)) /\ ~S1Empty(lo, hi, pi, npi)
    ELSE FLeq(lo, x) /\ FLeq(x, hi)
S1HasInterval(lo, hi, olo, ohi, pi, npi) ==
    IF S1Inverted(lo, hi)
    THEN IF S1Inverted(olo, ohi)
         THEN FLeq(lo, olo) /\ FLeq(ohi, hi)
         ELSE (FLeq(lo, olo) \/ FLeq(ohi, hi)) /\ ~S1Empty(lo, hi, pi, npi)
    ELSE IF S1Inverted(olo, ohi)
         THEN S1Full(lo, hi, pi, npi) \/ S1Empty(olo, ohi, pi, npi)
         ELSE FLeq(lo, olo) /\ FLeq(ohi, hi)

\* a Rect is <<latLo, latHi, lngLo, lngHi>>
RectHas(r, lat, lng, pi, npi) == R1Has(r[1], r[2], lat) /\ S1Has(r[3], r[4], lng, pi, npi)
RectHasRect(r, o, pi, npi) ==
    R1HasInterval(r[1], r[2], o[1], o[2]) /\ S1HasInterval(r[3], r[4], o[3], o[4], pi, npi)

\* Cap.ContainsPoint(p) is  ChordAngle(centre, p) <= radius
CapHas(radius, dist) == FLeq(dist, radius)

\* a cell id is logged as a key of its 64 bits; a covering cell as <<rangeMin, rangeMax>>
CoverHas(cov, leaf) == \E k \in 1..Len(cov) : FLeq(cov[k][1], leaf) /\ FLeq(leaf, cov[k][2])

\* ------------------------------------------------------- W2 certificates
\* A grid rectangle is <<face, level, i0, j0, w, h>>: the cells i0 <= i < i0+w, j0 <= j < j0+h
\* of that level.  A probe is <<face, level, i, j>>: the centre of that cell.
P2T == <<1, 2, 4, 8, 16, 32, 64, 128, 256, 512, 1024, 2048, 4096, 8192, 16384, 32768, 65536,
         131072, 262144, 524288, 1048576, 2097152, 4194304, 8388608, 16777216, 33554432,
         67108864, 134217728, 268435456, 536870912, 1073741824>>
Two(k) == P2T[k + 1]

\* probe (level pl >= rectangle level) is inside the rectangle: compare in probe-level units
ProbeInRect(p, r) ==
    /\ p[1] = r[1] /\ p[2] >= r[2]
    /\ LET s == Two(p[2] - r[2])
       IN  /\ r[3] * s <= p[3] /\ p[3] < (r[3] + r[5]) * s
           /\ r[4] * s <= p[4] /\ p[4] < (r[4] + r[6]) * s
\* shell minus holes
ProbeInRegion(p, shell, holes) ==
    ProbeInRect(p, shell) /\ \A k \in 1..Len(holes) : ~ProbeInRect(p, holes[k])

\* rectangle b (any level) is included in rectangle a: compare at the finer level
RectInRect(b, a) ==
    /\ b[1] = a[1]
    /\ LET m == IF a[2] > b[2] THEN a[2] ELSE b[2]
           sa == Two(m - a[2]) sb == Two(m - b[2])
       IN  /\ a[3] * sa <= b[3] * sb /\ (b[3] + b[5]) * sb <= (a[3] + a[5]) * sa
           /\ a[4] * sa <= b[4] * sb /\ (b[4] + b[6]) * sb <= (a[4] + a[6]) * sa

\* faces 2 and 5 are centred at the north / south pole: grid corner (S/2, S/2)
TouchesPole(a) ==
    /\ a[1] \in {2, 5} /\ a[2] >= 1
    /\ LET c == Two(a[2] - 1)
       IN  a[3] <= c /\ c <= a[3] + a[5] /\ a[4] <= c /\ c <= a[4] + a[6]
\* a level-0 "rectangle" is the whole face
EnclosesPoleOrFace(a) == IF a[2] = 0 THEN a[1] \in {2, 5} ELSE TouchesPole(a)

\* ------------------------------------------------------- W1 certificates
\* a, b, c counter-clockwise (Det > 0); k1*a + k2*b + k3*c with positive
\* coefficients has Det(a,b,w) = k3*Det(a,b,c) > 0 etc.: strictly inside.
Comb(k, a, b, c) == << k[1]*a[1] + k[2]*b[1] + k[3]*c[1],
                       k[1]*a[2] + k[2]*b[2] + k[3]*c[2],
                       k[1]*a[3] + k[2]*b[3] + k[3]*c[3] >>
TriStrictlyInside(k, a, b, c) ==
    /\ Det(a, b, c) > 0 /\ k[1] > 0 /\ k[2] > 0 /\ k[3] > 0
TriWitnessCert(k, a, b, c) ==
    LET w == Comb(k, a, b, c)
    IN  TriStrictlyInside(k, a, b, c) =>
            Det(a, b, w) > 0 /\ Det(b, c, w) > 0 /\ Det(c, a, w) > 0

\* ------------------------------------------------------------ convex hull
\* S: a finite set of pairwise non-parallel lattice points inside an open
\* hemisphere.  Under the perturbed predicate no three distinct points are
\* collinear, so the hull boundary is the set of directed pairs (p,q) having
\* every other point strictly on the left.
HullEdges(S) == {e \in S \X S : e[1] # e[2] /\ \A r \in S \ {e[1], e[2]} : RobustSign(e[1], e[2], r) = 1}
HullVerts(S) == {e[1] : e \in HullEdges(S)}
HullSucc(S, p) == CHOOSE q \in S : <<p, q>> \in HullEdges(S)
\* the edges form one simple cycle through HullVerts
HullIsCycle(S) ==
    LET E == HullEdges(S) V == HullVerts(S)
    IN  /\ \A p \in V : Cardinality({e \in E : e[1] = p}) = 1 /\ Cardinality({e \in E : e[2] = p}) = 1
        /\ {e[2] : e \in E} = V
RECURSIVE HullWalk(_, _, _, _)
HullWalk(S, start, p, n) ==
    IF n = 0 THEN <<>> ELSE <<p>> \o HullWalk(S, start, HullSucc(S, p), n - 1)
\* the cycle as a sequence starting at the lexicographically smallest vertex
HullCycle(S) ==
    LET V == HullVerts(S)
        s == CHOOSE p \in V : \A q \in V : p = q \/ LexLess(p, q)
    IN  HullWalk(S, s, s, Cardinality(V))

\* robust classification for the normalised embedding (rounding may flip
\* only determinants that are exactly zero)
StrictEdge(S, p, q) == p # q /\ \A r \in S \ {p, q} : Det(p, q, r) > 0
MustVerts(S) == {p \in S : \E q \in S : StrictEdge(S, p, q) \/ StrictEdge(S, q, p)}
StrictlyInsideTri(p, a, b, c) == Det(a, b, p) > 0 /\ Det(b, c, p) > 0 /\ Det(c, a, p) > 0
MustNotVerts(S) == {p \in S : \E a \in S, b \in S, c \in S : StrictlyInsideTri(p, a, b, c)}
NoZeroDet(S) == \A a \in S, b \in S, c \in S :
                    (a # b /\ b # c /\ a # c) => Det(a, b, c) # 0
=============================================================================
