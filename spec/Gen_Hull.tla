------------------------------ MODULE Gen_Hull ------------------------------
(* C10, convex hull: every subset (size <= MaxK) of a seed-chosen part of the  *)
(* hemisphere sub-lattice {p : p[Axis] = Side*N} (the integer grid of one cube *)
(* face: dense in exactly collinear triples).  The expected hull is computed   *)
(* by orientation tests only (Bounds!HullEdges with Exact!RobustSign).         *)
EXTENDS Bounds, Json

CONSTANT Axis      \* 1..3
CONSTANT NegSide   \* BOOLEAN: the face Axis = -N instead of +N
Side == IF NegSide THEN -1 ELSE 1
CONSTANT SubIdx    \* indices into the sorted face grid
CONSTANT MaxK

FaceGrid == {p \in Pts : p[Axis] = Side * N}
FaceSeq == SetToSortSeq(FaceGrid, LexLess)
Sub == {FaceSeq[i] : i \in SubIdx \cap (1..Len(FaceSeq))}

VARIABLE t
Init == t \in {[root |-> TRUE, S |-> {p}] : p \in Sub}
Next == /\ t.root
        /\ LET p == CHOOSE x \in t.S : TRUE
               Bigger == {q \in Sub : LexLess(p, q)}
           IN  t' \in {[root |-> FALSE, S |-> {p} \cup R] :
                          R \in {R \in SUBSET Bigger : Cardinality(R) <= MaxK - 1}}

Case == ~t.root
S == t.S
K == Cardinality(S)

\* ---- model theorems ----------------------------------------------------------
\* all points of the face grid lie strictly inside one open hemisphere and no two are parallel
Hemisphere == \A p \in S, q \in S : p[Axis] * Side > 0 /\ (p # q => ~Parallel(p, q))
CycleThm == (Case /\ K >= 3) => HullIsCycle(S)
ConvexThm == (Case /\ K >= 3) =>
    LET c == HullCycle(S) n == Len(c)
    IN  \A i \in 1..n : RobustSign(c[i], c[(i % n) + 1], c[((i + 1) % n) + 1]) = 1 \/ n < 3
ClassThm == (Case /\ K >= 3) =>
    /\ MustVerts(S) \subseteq HullVerts(S)
    /\ MustNotVerts(S) \cap HullVerts(S) = {}
    /\ NoZeroDet(S) => MustVerts(S) = HullVerts(S)
\* every input is a vertex or strictly left of every hull edge
ContainThm == (Case /\ K >= 3) =>
    \A p \in S \ HullVerts(S) : \A e \in HullEdges(S) : RobustSign(e[1], e[2], p) = 1

LexSeq(X) == SetToSortSeq(X, LexLess)
Emit ==
    IF Case
    THEN PrintT(<<"CASE", ToJson([op |-> "c10.hull", n |-> N,
                                  pts |-> LexSeq(S),
                                  hull |-> IF K >= 3 THEN HullCycle(S) ELSE LexSeq(S),
                                  robust |-> NoZeroDet(S),
                                  must |-> IF K >= 3 THEN LexSeq(MustVerts(S)) ELSE LexSeq(S),
                                  mustnot |-> IF K >= 3 THEN LexSeq(MustNotVerts(S)) ELSE <<>>])>>)
    ELSE TRUE
=============================================================================
