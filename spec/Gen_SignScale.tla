---------------------------- MODULE Gen_SignScale ---------------------------
(* C02: the exact stage must carry enough precision.  Two-scale world: entry *)
(* (r,c) of the matrix is m[r][c] * T^(-K[r][c]) with m a lattice coordinate *)
(* and T = 2^520 a scale far larger than any coefficient.  The determinant   *)
(* is a polynomial in 1/T with small integer coefficients; its sign is the   *)
(* sign of the coefficient of the lowest power with a non-zero coefficient.  *)
(* Terms of the real determinant then differ by up to 2^3120: an "exact"     *)
(* stage with fewer bits returns zero or the wrong sign.                     *)
EXTENDS Exact, Json

CONSTANT SubIdx     \* points used
CONSTANT KIdx       \* exponent matrices, encoded in base 3 (9 digits)

PtSeq == SetToSortSeq(Pts, LexLess)
Sub == {PtSeq[i] : i \in SubIdx \cap (1..Len(PtSeq))}

Digit(n, k) == (n \div (3^k)) % 3
KMat(n) == << <<Digit(n, 0), Digit(n, 1), Digit(n, 2)>>,
              <<Digit(n, 3), Digit(n, 4), Digit(n, 5)>>,
              <<Digit(n, 6), Digit(n, 7), Digit(n, 8)>> >>

VARIABLE t
Init == t \in {<<a>> : a \in Sub}
Next == /\ Len(t) = 1
        /\ t' \in {<<t[1], b, c, k>> : b \in Sub, c \in Sub, k \in KIdx}
Full == Len(t) = 4
M == <<t[1], t[2], t[3]>>
K == KMat(t[4])

PermSeq == << <<1, 2, 3, 1>>, <<2, 3, 1, 1>>, <<3, 1, 2, 1>>, <<1, 3, 2, -1>>, <<2, 1, 3, -1>>, <<3, 2, 1, -1>> >>
TermExp(p) == K[1][p[1]] + K[2][p[2]] + K[3][p[3]]
TermVal(p) == p[4] * M[1][p[1]] * M[2][p[2]] * M[3][p[3]]
Coef(s) == SumSet({i * 100 + 50 + TermVal(PermSeq[i]) : i \in {j \in 1..6 : TermExp(PermSeq[j]) = s}})
           - SumSet({i * 100 + 50 : i \in {j \in 1..6 : TermExp(PermSeq[j]) = s}})
NonZero == {s \in 0..6 : Coef(s) # 0}
PolySign == IF NonZero = {} THEN 0 ELSE Sgn(Coef(Min(NonZero)))

\* with all exponents equal the polynomial sign is the ordinary determinant sign
Consistent == Full /\ t[4] = 0 => PolySign = Sgn(Det(M[1], M[2], M[3]))

Emit ==
    IF Full /\ PolySign # 0 /\ Cardinality({TermExp(PermSeq[i]) : i \in 1..6}) > 1
    THEN PrintT(<<"CASE", ToJson([op |-> "signscale", m |-> M, k |-> K, want |-> PolySign,
                                  lead |-> Min(NonZero)])>>)
    ELSE TRUE
=============================================================================
