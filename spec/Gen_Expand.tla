----------------------------- MODULE Gen_Expand -----------------------------
(***************************************************************************)
(* Generator for Expand.tla.  The driver (lib/checks/ext_cells.py) writes  *)
(* a small module MC_Expand that EXTENDS this one and defines the groups:  *)
(*     Groups == << <<anchor1, anchor2, pool>>, ... >>                     *)
(*   anchor1 = <<face, level, i, j>>: the root of the model tree (a face   *)
(*             under the top embedding, a cell of level 30-L or of a       *)
(*             middle level under the deep embeddings);                    *)
(*   anchor2 = a second root <<face, level, i, j>>, or <<-1, k, 0, 0>>:    *)
(*             the k-th edge neighbour (1..4) of anchor1 - possibly on     *)
(*             another face -, or <<-2, 0, 0, 0>>: none;                   *)
(*   pool    = set of model cells <<a, d, di, dj>>: the cell of depth d    *)
(*             (<= 3) below anchor a with coordinates (di, dj) relative to *)
(*             the anchor.                                                 *)
(* States: <<g>> -> <<g, first cell>> -> <<g, union>> (at most K pairwise  *)
(* disjoint pool cells) -> <<g, union, level, E, R>> with E the rim cells  *)
(* and R the normalized expansion, computed once.  The last kind of state  *)
(* is checked against the laws of Expand.tla and printed as a replay case. *)
(***************************************************************************)
EXTENDS Expand, Json

CONSTANT Groups
CONSTANT K          \* cells per union
CONSTANT MaxUp      \* expansion levels reach up to (coarsest level of the union) + MaxUp
CONSTANT DefMax     \* DefLaw (enumeration of all cells of the level) is checked up to this level

A1(g) == Groups[g][1]
A2(g) == LET c == Groups[g][2] IN
         IF c[1] >= 0 THEN c ELSE IF c[1] = -1 THEN EdgeNeighborsIJ(A1(g))[c[2]] ELSE NoneIJ
AnchorOf(g, a) == IF a = 1 THEN A1(g) ELSE A2(g)
\* the model cell p of group g as an ij-cell with real level and coordinates
XOf(g, p) == LET a == AnchorOf(g, p[1])  s == Pow2(p[2])
             IN  <<a[1], a[2] + p[2], a[3] * s + p[3], a[4] * s + p[4]>>
XS(g, U) == {XOf(g, p) : p \in U}
Key(p) == ((p[1] * 8 + p[2]) * 16 + p[3]) * 16 + p[4]
\* the child positions of x below its anchor (what emb.Under expects)
PathBelow(a, x) == LET q == FromIJ(x[1], x[2], x[3], x[4])[2] IN SubSeq(q, a[2] + 1, x[2])

MinLev(S) == CHOOSE n \in {x[2] : x \in S} : \A x \in S : n <= x[2]
\* levels: everything from just above the anchor to MaxUp below the coarsest cell, and (for unions
\* of one or two cells) far above the anchor
LevelsFor(g, S) ==
    LET al == A1(g)[2]  top == Min(MaxLevel, MinLev(S) + MaxUp)
    IN  {l \in 0..top : l >= al - 1} \cup (IF Cardinality(S) <= 2 THEN {0, al \div 2} ELSE {})

VARIABLE t
Init == t \in {<<g>> : g \in 1..Len(Groups)}
Next ==
    \/ /\ Len(t) = 1
       /\ t' \in {<<t[1], p>> : p \in Groups[t[1]][3]}
    \/ /\ Len(t) = 2 /\ Len(t[2]) = 4            \* <<g, first cell>>
       /\ LET g == t[1]  p1 == t[2]
              later == {p \in Groups[g][3] : Key(p) > Key(p1)}
          IN  t' \in {<<g, {p1} \cup W, "u">> : W \in {W \in SUBSET later : Cardinality(W) <= K - 1 /\
                          \A p \in W \cup {p1}, q \in W : p # q => ~IntersectsIJ(XOf(g, p), XOf(g, q))}}
    \/ /\ Len(t) = 3
       /\ \E lev \in LevelsFor(t[1], XS(t[1], t[2])) :
            \E E \in {ExpandCells(XS(t[1], t[2]), lev)} :
              \E R \in {CanonIJ(E)} :
                t' = <<t[1], t[2], lev, E, R>>

IsCase == Len(t) = 5
G == t[1]
U == XS(t[1], t[2])
Lev == t[3]
EE == t[4]
RR == t[5]

\* ---- model theorems (Expand.tla)
LawContains == IsCase => ContainsInput(U, RR)
LawNormal == IsCase => NormalForm(EE, RR)
LawTouch == IsCase => TouchLaw(U, Lev, EE) /\ RingLaw(U, Lev)
LawDef == (IsCase /\ Lev <= DefMax) => DefLaw(U, Lev, RR)
LawRaise == IsCase => RaiseLaw(U, Lev, RR) /\ MonotoneLaw(U, Lev, RR)
\* the model cells lie below their anchors and the anchors are cells
LawPaths ==
    IsCase => \A p \in t[2] :
        LET a == AnchorOf(G, p[1])  x == XOf(G, p) IN
        /\ a # NoneIJ /\ ContainsIJ(a, x)
        /\ Len(PathBelow(a, x)) = p[2]
        /\ ToIJ(FromIJ(x[1], x[2], x[3], x[4])) = x

\* ---- ExpandByRadius: radii (exponent e, factor strictly between 1 and 2) and maxLevelDiff values
\* that reduce to exactly this case's level
ERCombos ==
    LET mn == MinLev(U) IN
    {c \in {[e |-> -Lev - 1, d |-> Max(0, Lev - mn) + 1],          \* the radius level decides
            [e |-> -Lev - 1, d |-> Max(0, Lev - mn) + 7],
            [e |-> -Min(MaxLevel, Lev + 2) - 1, d |-> Lev - mn],    \* maxLevelDiff decides
            [e |-> -40, d |-> Lev - mn]}                            \* a tiny radius (level 30)
       : c.d >= 0 /\ ~RadiusTwice(c.e) /\ ByRadiusLevel(U, c.e, c.d) = Lev}
\* radii above the width of a face cell: expanded twice at level 0
ERTwice == IF Lev = 0 THEN {c \in {[e |-> 0, d |-> 0], [e |-> 3, d |-> 2]} : RadiusTwice(c.e) /\ ByRadiusLevel(U, c.e, c.d) = 0} ELSE {}

Emit ==
    IF ~IsCase THEN TRUE
    ELSE PrintT(<<"CASE", ToJson(
        [op |-> "expand", a1 |-> A1(G), a2 |-> A2(G), lev |-> Lev,
         in |-> {[a |-> p[1], q |-> PathBelow(AnchorOf(G, p[1]), XOf(G, p)), x |-> XOf(G, p)] : p \in t[2]},
         want |-> RR,
         raised |-> CanonIJ(Raised(U, Lev)),
         er |-> ERCombos,
         er2 |-> ERTwice,
         want2 |-> IF Lev = 0 THEN ExpandAtLevel(RR, 0) ELSE {}])>>)
=============================================================================
