------------------------------ MODULE Metrics -------------------------------
(***************************************************************************)
(* Extension of C01: the level functions of s2.Metric (s2/metric.go).      *)
(*                                                                         *)
(* A metric is (dim, deriv), dim in {1, 2}; Value(level) = deriv *          *)
(* 2^-(dim*level).  deriv is an opaque positive real: the model works on   *)
(* exponents only.  A value is                                             *)
(*     [s |-> sign, e |-> exponent, c |-> class]                           *)
(*  s = 1 : deriv * 2^e          (c = "at"),                               *)
(*          a value strictly between deriv*2^e and deriv*2^(e+1) ("above"),*)
(*          a value strictly between deriv*2^(e-1) and deriv*2^e ("below");*)
(*  s = 0 : zero;   s = -1 : a negative value.                             *)
(* The embedding multiplies deriv by an exact power of two, and takes the  *)
(* one-ulp neighbours with math.Nextafter for the "above"/"below" classes, *)
(* so every comparison Value(level) <= v is decided by the exponents.      *)
(* ValLeq/ValGeq/MinLevelOf/MaxLevelOf hold for the whole open intervals;  *)
(* ClosestLevelsOf reads "above"/"below" as one-ulp neighbours.            *)
(***************************************************************************)
EXTENDS Integers, FiniteSets

Levels == 0..30
Classes == {"at", "above", "below"}
Clamp(l) == IF l < 0 THEN 0 ELSE IF l > 30 THEN 30 ELSE l
Abs(x) == IF x < 0 THEN -x ELSE x

\* Value(l) = deriv * 2^ValueExp(dim, l)
ValueExp(dim, l) == -(dim * l)

\* Value(l) <= v   and   Value(l) >= v
ValLeq(dim, l, v) == v.s = 1 /\ (IF v.c = "below" THEN ValueExp(dim, l) < v.e ELSE ValueExp(dim, l) <= v.e)
ValGeq(dim, l, v) == v.s < 1 \/ (IF v.c = "above" THEN ValueExp(dim, l) > v.e ELSE ValueExp(dim, l) >= v.e)

(***************************************************************************)
(* The documented functions.                                               *)
(*  MinLevel: "the minimum level such that the metric is at most the given *)
(*            value, or MaxLevel (30) if there is no such level"           *)
(*  MaxLevel: "the maximum level such that the metric is at least the      *)
(*            given value, or zero if there is no such level"              *)
(***************************************************************************)
MinLevelOf(dim, v) ==
    IF \E l \in Levels : ValLeq(dim, l, v)
    THEN CHOOSE l \in Levels : ValLeq(dim, l, v) /\ \A m \in Levels : ValLeq(dim, m, v) => l <= m
    ELSE 30
MaxLevelOf(dim, v) ==
    IF \E l \in Levels : ValGeq(dim, l, v)
    THEN CHOOSE l \in Levels : ValGeq(dim, l, v) /\ \A m \in Levels : ValGeq(dim, m, v) => m <= l
    ELSE 0

(***************************************************************************)
(* ClosestLevel: "the level at which the metric has approximately the      *)
(* given value".  Read as: a level whose Value is nearest to v on the      *)
(* logarithmic scale.  Positions are in quarter-exponent units so that the *)
(* three classes are distinct points: at 4e, above 4e+1.., below ..4e-1    *)
(* ("above"/"below" stand for one-ulp neighbours, i.e. positions 4e +- a   *)
(* tiny amount: the ordering against every half-way point 4x+2 is that of  *)
(* 4e+-1).  Both levels are admissible at an exact tie (dim 2, odd         *)
(* exponent).  For zero the nearest level is the deepest one; for negative *)
(* values only "a valid level" is promised.                                *)
(***************************************************************************)
Pos4(v) == 4 * v.e + (IF v.c = "above" THEN 1 ELSE IF v.c = "below" THEN -1 ELSE 0)
Dist4(dim, l, v) == Abs(4 * ValueExp(dim, l) - Pos4(v))
ClosestLevelsOf(dim, v) ==
    IF v.s < 0 THEN Levels
    ELSE IF v.s = 0 THEN {30}
    ELSE {l \in Levels : \A m \in Levels : Dist4(dim, l, v) <= Dist4(dim, m, v)}

(***************************************************************************)
(* The arithmetic of metric.go, on exponents.  ilogb(x) = floor(log2 x);   *)
(* `>> (dim-1)` is the floor division by dim for dim in {1, 2}.            *)
(*   MinLevel(v) = clamp(-(ilogb(v/deriv) >> (dim-1))), 30 for v < 0       *)
(*   MaxLevel(v) = clamp(ilogb(deriv/v) >> (dim-1)),    30 for v <= 0      *)
(*   ClosestLevel(v) = MinLevel(sqrt2 * v) (dim 1), MinLevel(2 * v) (dim 2)*)
(* ilogb(0) is a huge negative number, so MinLevel(0) = 30.                *)
(***************************************************************************)
FloorLog(v) == IF v.c = "below" THEN v.e - 1 ELSE v.e            \* floor(log2(v / deriv))
FloorLogInv(v) == IF v.c = "above" THEN -v.e - 1 ELSE -v.e       \* floor(log2(deriv / v))
MinLevelCode(dim, v) == IF v.s < 1 THEN 30 ELSE Clamp(-(FloorLog(v) \div dim))
MaxLevelCode(dim, v) == IF v.s < 1 THEN 30 ELSE Clamp(FloorLogInv(v) \div dim)
\* sqrt2 * v lies strictly between deriv*2^e and deriv*2^(e+1) whatever the class (v is deriv*2^e or
\* a one-ulp neighbour, and one ulp is far less than the factor sqrt2); 2 * v is exact and keeps the class
ClosestLevelCode(dim, v) ==
    IF v.s < 1 THEN 30
    ELSE IF dim = 1 THEN MinLevelCode(1, [s |-> 1, e |-> v.e, c |-> "above"])
    ELSE MinLevelCode(2, [s |-> 1, e |-> v.e + 1, c |-> v.c])

(***************************************************************************)
(* The discrete laws (checked by TLC for every generated value).           *)
(***************************************************************************)
At(e) == [s |-> 1, e |-> e, c |-> "at"]
\* Value is strictly decreasing in the level
ValueMonotone(dim) == \A l \in 0..29 : ValueExp(dim, l + 1) < ValueExp(dim, l)
\* MinLevel(Value(l)) = l = MaxLevel(Value(l)) = ClosestLevel(Value(l))
RoundTrip(dim) ==
    \A l \in Levels :
        /\ MinLevelOf(dim, At(ValueExp(dim, l))) = l
        /\ MaxLevelOf(dim, At(ValueExp(dim, l))) = l
        /\ ClosestLevelsOf(dim, At(ValueExp(dim, l))) = {l}
\* the arithmetic of the code computes the documented functions
CodeIsSpec(dim, v) ==
    /\ MinLevelCode(dim, v) = MinLevelOf(dim, v)
    /\ MaxLevelCode(dim, v) = MaxLevelOf(dim, v)
    /\ ClosestLevelCode(dim, v) \in ClosestLevelsOf(dim, v)
\* Galois-style characterisations: the answers are thresholds of Value
Thresholds(dim, v) ==
    v.s = 1 =>
        LET mn == MinLevelOf(dim, v)  mx == MaxLevelOf(dim, v) IN
        /\ \A l \in Levels : ValLeq(dim, l, v) <=> (l >= mn /\ (mn < 30 \/ ValLeq(dim, 30, v)))
        /\ \A l \in Levels : ValGeq(dim, l, v) <=> (l <= mx /\ (mx > 0 \/ ValGeq(dim, 0, v)))
        \* at a threshold inside the range both coincide, strictly between thresholds they are adjacent
        /\ (ValLeq(dim, 30, v) /\ ValGeq(dim, 0, v)) =>
              mn = (IF \E l \in Levels : ValueExp(dim, l) = v.e /\ v.c = "at" THEN mx ELSE mx + 1)
        /\ Cardinality(ClosestLevelsOf(dim, v)) \in {1, 2}
        /\ \A l \in ClosestLevelsOf(dim, v) : l \in {Clamp(mx), Clamp(mn)}
\* larger values need coarser cells
Antitone(dim, v, w) ==
    (v.s = 1 /\ w.s = 1 /\ Pos4(v) <= Pos4(w)) =>
        /\ MinLevelOf(dim, v) >= MinLevelOf(dim, w)
        /\ MaxLevelOf(dim, v) >= MaxLevelOf(dim, w)
=============================================================================
