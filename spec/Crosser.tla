------------------------------ MODULE Crosser -------------------------------
(***************************************************************************)
(* C03: the incremental EdgeCrosser as a state machine, written like       *)
(* s2/edge_crosser.go.  State = fixed edge (a,b), previous chain vertex c  *)
(* and the cached orientation acb.  On lattice points embedded as dyadic   *)
(* floats triageSign is exactly Sgn(Det).  The tangent early-out is        *)
(* modelled as a nondeterministic refinement: it may fire (early = TRUE)   *)
(* only when the exact answer is NO; whether it fires determines whether   *)
(* the deferred state update stores the triage or the robust orientation.  *)
(*                                                                         *)
(* Invariant proved by TLC over all call sequences: every reply equals the *)
(* stateless Exact!CrossingSign / EdgeOrVertexCrossing of the same four    *)
(* points, and acb is 0 or -RobustSign(a,b,c).                             *)
(***************************************************************************)
EXTENDS Exact, Json

CONSTANT PIdx          \* indices of the points used as chain vertices
CONSTANT EIdx          \* indices of the points used for the fixed edge
CONSTANT MaxLen        \* history bound (0 = no history kept: exhaustive state exploration)

PtSeq == SetToSortSeq(Pts, LexLess)
P == {PtSeq[i] : i \in PIdx \cap (1..Len(PtSeq))}
E == {PtSeq[i] : i \in EIdx \cap (1..Len(PtSeq))}

None == <<0, 0, 0>>

VARIABLES a, b, c, acb, reply, want, h
vars == <<a, b, c, acb, reply, want, h>>

Triage(x, y, z) == Sgn(Det(x, y, z))

Rec(act, args, r, w) ==
    [act |-> act, args |-> args, r |-> r, w |-> w]
Log(e) == IF MaxLen = 0 THEN h ELSE Append(h, e)

Init ==
    /\ a \in E /\ b \in E /\ ValidEdge(a, b)
    /\ c = None /\ acb = 0 /\ reply = "-" /\ want = "-"
    /\ h = <<>>

\* body of RestartAt
Restart(x) == [c |-> x, acb |-> -Triage(a, b, x)]

\* body of ChainCrossingSign(d) from state st = [c, acb]; early = tangent test fired.
\* Returns [r, c, acb].
Chain(st, d, early) ==
    LET bda == Triage(a, b, d)
    IN  IF st.acb = -bda /\ bda # 0
        THEN [r |-> "NO", c |-> d, acb |-> -bda]
        ELSE IF early THEN [r |-> "NO", c |-> d, acb |-> -bda]
        ELSE IF a = st.c \/ a = d \/ b = st.c \/ b = d THEN [r |-> "MAYBE", c |-> d, acb |-> -bda]
        ELSE IF a = b \/ st.c = d THEN [r |-> "NO", c |-> d, acb |-> -bda]
        ELSE LET acb2 == IF st.acb = 0 THEN -RobustSign(a, b, st.c) ELSE st.acb
                 bda2 == IF bda = 0 THEN RobustSign(a, b, d) ELSE bda
             IN  IF bda2 # acb2 THEN [r |-> "NO", c |-> d, acb |-> -bda2]
                 ELSE IF -RobustSign(st.c, d, b) # acb2 THEN [r |-> "NO", c |-> d, acb |-> -bda2]
                 ELSE IF RobustSign(st.c, d, a) # acb2 THEN [r |-> "NO", c |-> d, acb |-> -bda2]
                 ELSE [r |-> "CROSS", c |-> d, acb |-> -bda2]

\* the tangent test can only separate AB from CD when they really do not cross
EarlyAllowed(x, d) == CrossingSign(a, b, x, d) = "NO"

BoolStr(s) == s     \* replies are strings "CROSS"/"MAYBE"/"NO"/"T"/"F"/"U"

EOV(r, x, d) == IF r = "NO" THEN "F" ELSE IF r = "CROSS" THEN "T" ELSE VertexCrossing(a, b, x, d)

HasC == c # None

RestartAt(x) ==
    /\ c' = Restart(x).c /\ acb' = Restart(x).acb
    /\ reply' = "-" /\ want' = "-"
    /\ h' = Log(Rec("RestartAt", <<x>>, "-", "-"))
    /\ UNCHANGED <<a, b>>

ChainCrossingSign(d) ==
    /\ HasC /\ ValidEdge(c, d)
    /\ \E early \in BOOLEAN :
        /\ early => EarlyAllowed(c, d)
        /\ LET res == Chain([c |-> c, acb |-> acb], d, early)
           IN  /\ c' = res.c /\ acb' = res.acb /\ reply' = res.r
               /\ want' = CrossingSign(a, b, c, d)
               /\ h' = Log(Rec("Chain", <<d>>, res.r, CrossingSign(a, b, c, d)))
    /\ UNCHANGED <<a, b>>

CrossingSignAct(x, d) ==
    /\ ValidEdge(x, d)
    /\ \E early \in BOOLEAN :
        /\ early => EarlyAllowed(x, d)
        /\ LET st == IF x # c THEN Restart(x) ELSE [c |-> c, acb |-> acb]
               res == Chain(st, d, early)
           IN  /\ c' = res.c /\ acb' = res.acb /\ reply' = res.r
               /\ want' = CrossingSign(a, b, x, d)
               /\ h' = Log(Rec("CrossingSign", <<x, d>>, res.r, CrossingSign(a, b, x, d)))
    /\ UNCHANGED <<a, b>>

EOVChain(d) ==
    /\ HasC /\ ValidEdge(c, d)
    /\ \E early \in BOOLEAN :
        /\ early => EarlyAllowed(c, d)
        /\ LET res == Chain([c |-> c, acb |-> acb], d, early)
           IN  /\ c' = res.c /\ acb' = res.acb /\ reply' = EOV(res.r, c, d)
               /\ want' = EdgeOrVertexCrossing(a, b, c, d)
               /\ h' = Log(Rec("EOVChain", <<d>>, EOV(res.r, c, d), EdgeOrVertexCrossing(a, b, c, d)))
    /\ UNCHANGED <<a, b>>

EOVCrossing(x, d) ==
    /\ ValidEdge(x, d)
    /\ \E early \in BOOLEAN :
        /\ early => EarlyAllowed(x, d)
        /\ LET st == IF x # c THEN Restart(x) ELSE [c |-> c, acb |-> acb]
               res == Chain(st, d, early)
           IN  /\ c' = res.c /\ acb' = res.acb /\ reply' = EOV(res.r, x, d)
               /\ want' = EdgeOrVertexCrossing(a, b, x, d)
               /\ h' = Log(Rec("EOVCrossing", <<x, d>>, EOV(res.r, x, d), EdgeOrVertexCrossing(a, b, x, d)))
    /\ UNCHANGED <<a, b>>

\* Behaviours for replay are printed by an action (not an invariant), so that in
\* simulation mode only the state actually chosen is printed, once.
Finish ==
    /\ MaxLen > 0 /\ Len(h) = MaxLen
    /\ PrintT(<<"HIST", ToJson([op |-> "crosser", a |-> a, b |-> b, steps |-> h])>>)
    /\ UNCHANGED vars

Next ==
    \/ /\ (MaxLen = 0 \/ Len(h) < MaxLen)
       /\ \/ \E x \in P : RestartAt(x)
          \/ \E d \in P : ChainCrossingSign(d)
          \/ \E x \in P, d \in P : CrossingSignAct(x, d)
          \/ \E d \in P : EOVChain(d)
          \/ \E x \in P, d \in P : EOVCrossing(x, d)
    \/ Finish

\* ---- the property ----------------------------------------------------------
ReplyIsStateless == reply = want
CacheSound == c # None => acb \in {0, -RobustSign(a, b, c)}

\* ---- symmetry laws of the stateless function (checked for the state's points)
StatelessLaws ==
    c # None =>
      \A d \in P :
        /\ CrossingSign(a, b, c, d) = CrossingSign(b, a, c, d)
        /\ CrossingSign(a, b, c, d) = CrossingSign(a, b, d, c)
        /\ CrossingSign(a, b, c, d) = CrossingSign(c, d, a, b)
        /\ (CrossingSign(a, b, c, d) = "MAYBE") <=> (a = c \/ a = d \/ b = c \/ b = d)

=============================================================================
