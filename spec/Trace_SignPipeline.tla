------------------------- MODULE Trace_SignPipeline -------------------------
(* C02, trace direction: stage outcomes of the orientation / distance        *)
(* pipelines recorded from the real code on adversarial near-degenerate      *)
(* unit-length float inputs.  The exact stage is the reference (it is tied   *)
(* to the integer determinant by the replay of Gen_Sign); the specification  *)
(* demands that no fast path ever returns a wrong non-zero sign, that the    *)
(* result is the first non-zero stage, and the symmetry laws.                *)
EXTENDS Integers, Sequences, TLC, Json

CONSTANT TraceFile
Trace == ndJsonDeserialize(TraceFile)

VARIABLE l
Init == l = 1
Next == l <= Len(Trace) /\ l' = l + 1
E == Trace[l]
Live == l <= Len(Trace)
IsSign == Live /\ E.ev = "sign"
IsDist == Live /\ E.ev = "cmpdist"
IsDot == Live /\ E.ev = "sdp"

\* ---- orientation ------------------------------------------------------------
\* E.exact = exactSign(perturb=false) = sign of the exact determinant; E.exactp with perturbation
TriageNeverWrong == IsSign => E.triage \in {0, E.exact}
StableNeverWrong == IsSign => E.stable \in {0, E.exact}
PerturbOnlyBreaksTies == IsSign /\ E.exact # 0 => E.exactp = E.exact
PerturbNonZero == IsSign /\ ~E.anyeq => E.exactp # 0
ResultIsFirstNonZero ==
    IsSign => E.res = (IF E.triage # 0 THEN E.triage
                       ELSE IF E.anyeq THEN 0
                       ELSE IF E.stable # 0 THEN E.stable ELSE E.exactp)
RotationInvariant == IsSign => E.rot1 = E.res /\ E.rot2 = E.res
SwapNegates == IsSign => E.swap = -E.res
ZeroIffEqual == IsSign => ((E.res = 0) <=> E.anyeq)

\* ---- CompareDistances(x,a,b) ---------------------------------------------------
CosNeverWrong == IsDist /\ E.exact # 0 => E.cos \in {0, E.exact}
Sin2NeverWrong == IsDist /\ E.exact # 0 /\ E.sin2valid => E.sin2 \in {0, E.exact}
DistResult == IsDist => (IF E.exact # 0 THEN E.res = E.exact ELSE (E.res = E.symbolic))
DistAntiSym == IsDist => E.swapped = -E.res
DistZeroIffEqual == IsDist => ((E.res = 0) <=> E.abeq)
CosZeroOnTie == IsDist /\ E.exact = 0 => E.cos = 0

\* ---- SignDotProd -----------------------------------------------------------------
DotTriageNeverWrong == IsDot => E.triage \in {0, E.exact}
DotResult == IsDot => E.res = E.exact
=============================================================================
