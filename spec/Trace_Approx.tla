---------------------------- MODULE Trace_Approx ----------------------------
(***************************************************************************)
(* C20, direction B: recorded events against the relations of Approx.tla   *)
(* (same reporting scheme as Trace_Bounds).  All distances are measured by *)
(* the harness with the library's own functions and logged as keys; thr is *)
(* the declared tolerance plus the measurement slack, added in Go.         *)
(*                                                                         *)
(* tess  mode ("projected" | "unprojected"), maxd (largest distance of a   *)
(*       vertex / sampled point from the input edge), thr, thr2, endd (distance *)
(*       of the chain's end points from the input's end points), ethr,     *)
(*       maxdx, halfwrap (planar chain: largest |dx| between neighbours),  *)
(*       nv (number of vertices)                                           *)
(* rt    d (distance p .. Unproject(Project(p))), thr                      *)
(* sub   n, idx (0-based indices returned), vid (identity class of every   *)
(*       input vertex: equal points have equal ids), dd (distance of every *)
(*       dropped vertex from the output edge spanning it), thr             *)
(* snap  moved (distance p .. SnapPoint(p)), radius (SnapRadius()),        *)
(*       site / want (3 keys each: the snapped point and the site of the   *)
(*       declared grid recomputed from it), frac (distance of the scaled   *)
(*       degree coordinates from integers), fthr                           *)
(***************************************************************************)
EXTENDS Approx, Json

CONSTANT TraceFile
CONSTANT Chunks
CONSTANT Detail
Trace == ndJsonDeserialize(TraceFile)
NL == Len(Trace)

VARIABLE l
Size == (NL + Chunks - 1) \div Chunks
Init == l \in {[c |-> k, i |-> 0] : k \in 0..(Chunks - 1)}
Next == /\ l.i = 0
        /\ l' \in {[c |-> l.c, i |-> n] : n \in (l.c * Size + 1)..(IF (l.c + 1) * Size < NL THEN (l.c + 1) * Size ELSE NL)}

If(c, name) == IF c THEN {name} ELSE {}

TessRej(e) ==
    \* thr2 = 1.2 x tolerance: names the magnitude class of a rejection (the verdict uses thr)
    If(~FLeq(e.maxd, e.thr) /\ FLeq(e.maxd, e.thr2), "tessellation-tolerance-within-1.2x")
    \cup If(~FLeq(e.maxd, e.thr2), "tessellation-tolerance")
    \cup If(~FLeq(e.endd, e.ethr), "tessellation-endpoints")
    \cup If(~FLeq(e.maxdx, e.halfwrap), "tessellation-wrap")
    \cup If(e.nv < 2, "tessellation-empty")

RtRej(e) == If(~FLeq(e.d, e.thr), "project-unproject-roundtrip")

SubRej(e) ==
    LET m == Len(e.idx)
    IN  If(m < 1 \/ (m >= 1 /\ e.idx[1] # 0), "subsample-first-vertex")
        \* "provided the first and last vertices are distinct, they are always preserved": the last
        \* emitted vertex is (bitwise) the last vertex of the input
        \cup If(m >= 1 /\ e.vid[1] # e.vid[e.n] /\ e.idx[m] >= 0 /\ e.idx[m] < e.n /\ e.vid[e.idx[m] + 1] # e.vid[e.n], "subsample-last-vertex")
        \cup If(~StrictlyIncreasing(e.idx), "subsample-indices-increasing")
        \cup If(\E k \in 1..m : e.idx[k] < 0 \/ e.idx[k] >= e.n, "subsample-index-range")
        \cup If((\A k \in 1..m : e.idx[k] >= 0 /\ e.idx[k] < e.n) /\ ~NoEqualNeighbours(e.idx, e.vid), "subsample-duplicate-neighbours")
        \cup If(~AllLeq(e.dd, e.thr), "subsample-tolerance")

SnapRej(e) ==
    If(~FLeq(e.moved, e.radius), "snap-radius")
    \cup If(e.site # e.want, "snap-site")
    \cup If(~AllLeq(e.frac, e.fthr), "snap-site")

Rej(n) ==
    LET e == Trace[n]
    IN  CASE e.ev = "tess" -> TessRej(e)
          [] e.ev = "rt" -> RtRej(e)
          [] e.ev = "sub" -> SubRej(e)
          [] e.ev = "snap" -> SnapRej(e)
          [] OTHER -> {}

Verdict ==
    IF l.i > 0
    THEN LET rj == Rej(l.i)
         IN  IF rj # {} THEN PrintT(<<"REJ", ToJson([line |-> l.i, rel |-> SetToSeq(rj)])>>) ELSE TRUE
    ELSE TRUE
=============================================================================
