------------------------------- MODULE Wedges -------------------------------
(***************************************************************************)
(* W1 extension: wedge relations at a shared vertex (s2/wedge_relations.go).*)
(*                                                                         *)
(* Given an edge chain (x0, o, x2) the wedge at o is "the set of all rays   *)
(* from o->x0 (inclusive) to o->x2 (exclusive) in the clockwise direction", *)
(* i.e. the half-open range (x2, x0] of rays in COUNTER-clockwise order.    *)
(*                                                                         *)
(* The specification is a point-set semantics, not a transcription of the  *)
(* code's cascade of OrderedCCW tests.  After the symbolic perturbation    *)
(* the rays from o towards distinct lattice points are distinct and in     *)
(* general position: CcwSeq(S, o) lists the points of S in counter-         *)
(* clockwise order around o, and the generator proves (SeqIsCyclicOrder)    *)
(* that Exact!OrderedCCW on every triple of S is exactly the cyclic order   *)
(* of the positions in that sequence.  The n rays cut the circle of rays    *)
(* around o into 2n pieces, numbered 0..2n-1 counter-clockwise:             *)
(*      2(i-1)      the ray towards the i-th point,                         *)
(*      2(i-1)+1    the open arc between the i-th and the (i+1)-th ray.      *)
(* A wedge is a set of pieces and the relation of two wedges is the        *)
(* relation of the two sets.                                               *)
(***************************************************************************)
EXTENDS Exact

\* strict cyclic order: a, b, c pairwise distinct and met in this order sweeping CCW around o
Cyc(a, b, c, o) == a # b /\ b # c /\ a # c /\ OrderedCCW(a, b, c, o)

\* the points of S (none equal to o) in CCW order around o, starting at the smallest one
CcwSeq(S, o) ==
    IF S = {} THEN <<>>
    ELSE LET p0 == CHOOSE p \in S : \A q \in S : p = q \/ LexLess(p, q)
         IN  <<p0>> \o SetToSortSeq(S \ {p0}, LAMBDA x, y : Cyc(p0, x, y, o))

\* the same cyclic order on positions 1..n of that sequence
ModN(x, n) == (x + 4 * n) % n
CycPos(i, j, k, n) == i # j /\ j # k /\ i # k /\ ModN(j - i, n) < ModN(k - i, n)
Cyc4Pos(w, x, y, z, n) == CycPos(w, x, y, n) /\ CycPos(w, y, z, n)

\* theorem schema: OrderedCCW on the points at positions i, j, k is the cyclic order of i, j, k
\* (for equal positions it states properties (4) and (5) of OrderedCCW's documentation)
SeqIsCyclicOrderAt(s, o, i, j, k) ==
    OrderedCCW(s[i], s[j], s[k], o) <=>
        IF i = j \/ j = k THEN TRUE ELSE IF i = k THEN FALSE ELSE CycPos(i, j, k, Len(s))

\* the pieces of the wedge (x0, o, x2): x0 at position i0, x2 at position i2, i0 # i2
Pieces(i0, i2, n) ==
    LET first == 2 * (i2 - 1) + 1          \* the arc just after the excluded ray x2
        last == 2 * (i0 - 1)               \* the included ray x0
        len == ModN(last - first, 2 * n) + 1
    IN  {(first + k) % (2 * n) : k \in 0..(len - 1)}
AllPieces(n) == 0..(2 * n - 1)

\* WedgeRel values in the order of the Go constants
WEquals == 0
WProperlyContains == 1
WIsProperlyContained == 2
WProperlyOverlaps == 3
WIsDisjoint == 4

RelOfSets(SA, SB) ==
    IF SA = SB THEN WEquals
    ELSE IF SB \subseteq SA THEN WProperlyContains
    ELSE IF SA \subseteq SB THEN WIsProperlyContained
    ELSE IF SA \cap SB = {} THEN WIsDisjoint
    ELSE WProperlyOverlaps

Converse(r) == IF r = WProperlyContains THEN WIsProperlyContained
               ELSE IF r = WIsProperlyContained THEN WProperlyContains ELSE r

\* the three functions of wedge_relations.go on positions; preconditions: i0 # i2, j0 # j2
WedgeRelationPos(i0, i2, j0, j2, n) == RelOfSets(Pieces(i0, i2, n), Pieces(j0, j2, n))
WedgeContainsPos(i0, i2, j0, j2, n) == Pieces(j0, j2, n) \subseteq Pieces(i0, i2, n)
WedgeIntersectsPos(i0, i2, j0, j2, n) == Pieces(i0, i2, n) \cap Pieces(j0, j2, n) # {}

\* ... and on points: S is any set of points (not containing o) that holds the four arms
PosIn(s, p) == CHOOSE i \in 1..Len(s) : s[i] = p
WedgeRelation(a0, o, a2, b0, b2, S) ==
    LET s == CcwSeq(S, o) IN WedgeRelationPos(PosIn(s, a0), PosIn(s, a2), PosIn(s, b0), PosIn(s, b2), Len(s))
WedgeContains(a0, o, a2, b0, b2, S) ==
    LET s == CcwSeq(S, o) IN WedgeContainsPos(PosIn(s, a0), PosIn(s, a2), PosIn(s, b0), PosIn(s, b2), Len(s))
WedgeIntersects(a0, o, a2, b0, b2, S) ==
    LET s == CcwSeq(S, o) IN WedgeIntersectsPos(PosIn(s, a0), PosIn(s, a2), PosIn(s, b0), PosIn(s, b2), Len(s))

\* "non-empty wedges": x0 = x2 makes the inclusive and the exclusive end the same ray
Degenerate(a0, a2, b0, b2) == a0 = a2 \/ b0 = b2
\* every arm is an S2 edge: no endpoint equal or parallel to the shared vertex
ValidWedges(a0, o, a2, b0, b2) == \A p \in {a0, a2, b0, b2} : ~Parallel(o, p)
\* every determinant that can decide is a non-zero integer: the answer survives normalisation
WedgeRobust(a0, o, a2, b0, b2) ==
    \A p \in {a0, a2, b0, b2}, q \in {a0, a2, b0, b2} : p # q => Det(o, p, q) # 0

(***************************************************************************)
(* Model-level laws (checked by TLC on every enumerated tuple).            *)
(* SA, SB, SAc are the piece sets of A, B and of the reversed chain of A.  *)
(***************************************************************************)
\* laws of one wedge A = (i0, i2)
WedgeLawsA(SA, SAc, i0, i2, n) ==
    \* a wedge is neither empty nor full, and reversing the chain complements it
    /\ 2 * (i0 - 1) \in SA /\ 2 * (i2 - 1) \notin SA
    /\ SAc = AllPieces(n) \ SA
    /\ RelOfSets(SA, SA) = WEquals
    /\ RelOfSets(SA, SAc) = WIsDisjoint
\* laws of a pair of wedges (rel, con, int are bound once: TLC re-evaluates LET definitions at every use)
WedgeLawsOn(SA, SB, SAc, i0, i2, j0, j2, n) ==
    \A rel \in {RelOfSets(SA, SB)}, con \in {SB \subseteq SA}, int \in {SA \cap SB # {}} :
        \* equal as sets iff given by the same arms
        /\ (rel = WEquals) <=> (i0 = j0 /\ i2 = j2)
        \* the two booleans are the documented projections of the relation
        /\ con <=> rel \in {WEquals, WProperlyContains}
        /\ int <=> rel # WIsDisjoint
        /\ con => int
        /\ RelOfSets(SB, SA) = Converse(rel)
        \* A contains B iff the complement of A misses B
        /\ con <=> (SAc \cap SB = {})
        \* the six orderings listed in wedge_relations.go (all four arms distinct)
        /\ (i0 # j0 /\ i0 # j2 /\ i2 # j0 /\ i2 # j2) =>
            /\ Cyc4Pos(i2, j2, j0, i0, n) => rel = WProperlyContains
            /\ Cyc4Pos(i2, i0, j0, j2, n) => rel = WIsProperlyContained
            /\ Cyc4Pos(i2, i0, j2, j0, n) => rel = WIsDisjoint
            /\ (Cyc4Pos(i2, j0, i0, j2, n) \/ Cyc4Pos(i2, j2, i0, j0, n) \/ Cyc4Pos(i2, j0, j2, i0, n))
                    => rel = WProperlyOverlaps
            /\ Cyc4Pos(i2, j2, j0, i0, n) \/ Cyc4Pos(i2, i0, j0, j2, n) \/ Cyc4Pos(i2, i0, j2, j0, n)
                    \/ Cyc4Pos(i2, j0, i0, j2, n) \/ Cyc4Pos(i2, j2, i0, j0, n) \/ Cyc4Pos(i2, j0, j2, i0, n)
        \* shared arms, as discussed in the comments of the Go code
        /\ (i0 = j0 /\ i2 # j2) => rel \in {WProperlyContains, WIsProperlyContained}
        /\ (i2 = j2 /\ i0 # j0) => rel \in {WProperlyContains, WIsProperlyContained}
        /\ (i0 = j2 /\ i2 = j0) => rel = WIsDisjoint        \* B is the complement of A
        /\ (i0 = j2 /\ i2 # j0) => rel \in {WIsDisjoint, WProperlyOverlaps}
        /\ (i2 = j0 /\ i0 # j2) => rel \in {WIsDisjoint, WProperlyOverlaps}

=============================================================================
