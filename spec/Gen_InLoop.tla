----------------------------- MODULE Gen_InLoop -----------------------------
(***************************************************************************)
(* C04 on world W1: point containment of lattice loops.                    *)
(*                                                                         *)
(* A loop is a sequence of 3..MaxLen pairwise distinct lattice points.     *)
(* Validity is decided here: every edge is an S2 edge (endpoints not       *)
(* parallel), consecutive edges do not fold back, and no two non-adjacent  *)
(* edges cross - each certified by non-zero integer determinants, so that  *)
(* the loop is still valid after the points are normalised to unit length. *)
(*                                                                         *)
(* InLoop is anchored the way loop.go anchors it: the second vertex is     *)
(* inside iff AngleContainsVertex(v0, v1, v2); any other point p is        *)
(* inside iff that bit, flipped once per EdgeOrVertexCrossing of the       *)
(* segment v1 -> p with the loop's edges, is set (crossing parity).  The   *)
(* answer is "T"/"F" when every deciding determinant is non-zero (or the   *)
(* decision depends on point identity only), else "U" (not predicted).     *)
(***************************************************************************)
EXTENDS Exact, Json

CONSTANT SubIdx    \* indices (into the sorted lattice) of the points loops are made of
CONSTANT MaxLen    \* 3..5
CONSTANT ProbeIdx  \* indices of the query points
CONSTANT Op        \* "op" of the emitted cases ("c04loop" / "c06lattice")
CONSTANT NQ        \* number of query edges between probe points (C06: CrossingEdgeQuery)

\* one lattice point per direction (two points of the same direction are one point of the sphere)
IsPrimitive(p) == \A d \in 2..N : ~(p[1] % d = 0 /\ p[2] % d = 0 /\ p[3] % d = 0)
PtSeq == SetToSortSeq({p \in Pts : IsPrimitive(p)}, LexLess)
Sub == {PtSeq[i] : i \in SubIdx \cap (1..Len(PtSeq))}
Probes == {PtSeq[i] : i \in ProbeIdx \cap (1..Len(PtSeq))}

Nxt(l, k) == l[(k % Len(l)) + 1]
Prv(l, k) == l[((k + Len(l) - 2) % Len(l)) + 1]

\* the two segments certainly do not cross, whatever the rounding of the normalisation does
NoCrossRobust(a, b, c, d) ==
    \/ Sgn(Det(a, b, c)) * Sgn(Det(a, b, d)) > 0
    \/ Sgn(Det(c, d, a)) * Sgn(Det(c, d, b)) > 0
    \/ CrossingRobust(a, b, c, d) /\ CrossingSign(a, b, c, d) = "NO"

ValidLoop(l) ==
    /\ \A i \in 1..Len(l), j \in 1..Len(l) : i # j => l[i] # l[j] /\ ~SameDir(l[i], l[j])
    /\ \A k \in 1..Len(l) : ~Parallel(l[k], Nxt(l, k))
    \* no fold-back: consecutive edges turn, or go straight on
    /\ \A k \in 1..Len(l) :
          LET a == Prv(l, k) b == l[k] c == Nxt(l, k)
          IN  Det(a, b, c) # 0 \/ Dot(Cross(a, b), Cross(b, c)) > 0
    \* non-adjacent edges do not cross (and do not touch)
    /\ \A i \in 1..Len(l), j \in 1..Len(l) :
          (i < j /\ Nxt(l, i) # l[j] /\ Nxt(l, j) # l[i]) =>
              NoCrossRobust(l[i], Nxt(l, i), l[j], Nxt(l, j))

Xor3(x, flip) == IF x = "U" \/ flip = "U" THEN "U"
                 ELSE IF flip = "T" THEN (IF x = "T" THEN "F" ELSE "T") ELSE x

RECURSIVE Parity(_, _, _, _)
\* fold the crossings of segment a -> p with edges k..Len(l) into acc
Parity(l, a, p, k) ==
    IF k > Len(l) THEN "F"
    ELSE LET c == l[k] d == Nxt(l, k)
             x == IF CrossingRobust(a, p, c, d) /\ VertexCrossingRobust(a, p, c, d)
                  THEN EdgeOrVertexCrossing(a, p, c, d) ELSE "U"
         IN  Xor3(Parity(l, a, p, k + 1), x)

InLoop(p, l) ==
    LET a == l[2]
        ain == AngleContainsVertex(l[1], l[2], l[3])
    IN  IF p = a THEN ain
        ELSE IF Parallel(a, p) THEN "U"
        ELSE Xor3(ain, Parity(l, a, p, 1))

\* the same loop traversed backwards (first vertex kept)
Backwards(l) == [k \in 1..Len(l) |-> IF k = 1 THEN l[1] ELSE l[Len(l) + 2 - k]]

VARIABLE t
Init == t \in {<<v>> : v \in Sub}
\* canonical rotation: the first vertex is the lexicographically smallest
Tails(v, n) == {s \in [1..n -> {w \in Sub : LexLess(v, w)}] : \A i \in 1..n, j \in 1..n : i # j => s[i] # s[j]}
Next == /\ Len(t) = 1
        /\ t' \in {<<t[1], l>> : l \in {l \in UNION {{<<t[1]>> \o s : s \in Tails(t[1], n)} : n \in 2..(MaxLen - 1)} : ValidLoop(l)}}

Full == Len(t) = 2
L == t[2]

\* ---- model theorems ----------------------------------------------------------
\* a loop and its reversal contain every point exactly once (where both are predicted)
ExactlyOnce ==
    Full => \A p \in Probes :
                LET x == InLoop(p, L) y == InLoop(p, Backwards(L))
                IN  (x # "U" /\ y # "U") => x # y
\* validity does not depend on direction
ValidBackwards == Full => ValidLoop(Backwards(L))
\* the answer does not depend on which vertex anchors the parity (rotation of the loop)
Rot(l) == [k \in 1..Len(l) |-> Nxt(l, k)]
AnchorIndependent ==
    Full => \A p \in Probes :
                LET x == InLoop(p, L) y == InLoop(p, Rot(L))
                IN  (x # "U" /\ y # "U") => x = y

\* query edges between probe points, and for each the exact crossing with every edge of the loop
\* ("U": not robust under the unit embedding)
ProbeSeq == SetToSortSeq(Probes, LexLess)
QueryPairs ==
    LET n == Len(ProbeSeq)
        cand == [k \in 1..NQ |-> <<ProbeSeq[((7 * k) % n) + 1], ProbeSeq[((11 * k + 3) % n) + 1]>>]
    IN  SelectSeq(cand, LAMBDA q : ~Parallel(q[1], q[2]))
CrossWith(q, l) ==
    [k \in 1..Len(l) |->
        IF CrossingRobust(q[1], q[2], l[k], Nxt(l, k)) THEN CrossingSign(q[1], q[2], l[k], Nxt(l, k)) ELSE "U"]
\* crossing is symmetric in the two edges
CrossSymmetric ==
    Full => \A n \in 1..Len(QueryPairs) : \A k \in 1..Len(L) :
                LET q == QueryPairs[n]
                IN  CrossingSign(q[1], q[2], L[k], Nxt(L, k)) = CrossingSign(L[k], Nxt(L, k), q[2], q[1])

\* ---- cells of levels 0 and 1: their corners are lattice points ------------------------------
\* The cube faces in S2's frames; the (u,v) corners of the face cells are -1/1, of their four
\* children -1/0/1, so every corner is a point of {-1,0,1}^3 and the exact predicates apply.
FaceUV(f, u, v) ==
    CASE f = 0 -> <<1, u, v>> [] f = 1 -> <<-u, 1, v>> [] f = 2 -> <<-u, -v, 1>>
      [] f = 3 -> <<-1, -v, -u>> [] f = 4 -> <<v, -1, -u>> [] OTHER -> <<v, u, -1>>
\* cell <<f, lvl, i, j>>: corners counter-clockwise in (u,v)
CellCorners(c) ==
    LET u0 == IF c[2] = 0 THEN -1 ELSE c[3] - 1   u1 == IF c[2] = 0 THEN 1 ELSE c[3]
        v0 == IF c[2] = 0 THEN -1 ELSE c[4] - 1   v1 == IF c[2] = 0 THEN 1 ELSE c[4]
    IN  <<FaceUV(c[1], u0, v0), FaceUV(c[1], u1, v0), FaceUV(c[1], u1, v1), FaceUV(c[1], u0, v1)>>
SmallCells == {<<f, 0, 0, 0>> : f \in 0..5} \cup {<<f, 1, i, j>> : f \in 0..5, i \in 0..1, j \in 0..1}
\* some edge of the loop certainly crosses a side of the cell (all four determinants non-zero):
\* the boundary cuts through the cell: ContainsCell must be false and IntersectsCell true
CellCut(c, l) ==
    LET cs == CellCorners(c)
    IN  \E k \in 1..Len(l), s \in 1..4 :
            LET a == cs[s] b == cs[(s % 4) + 1]
            IN  /\ CrossingRobust(l[k], Nxt(l, k), a, b)
                /\ CrossingSign(l[k], Nxt(l, k), a, b) = "CROSS"
\* a corner certainly inside the loop: IntersectsCell must be true; certainly outside: ContainsCell false
CellCornerIs(c, l, x) == \E s \in 1..4 : InLoop(CellCorners(c)[s], l) = x
CellSeq == SetToSortSeq(SmallCells, LAMBDA a, b : a[1] * 100 + a[2] * 10 + a[3] * 2 + a[4] < b[1] * 100 + b[2] * 10 + b[3] * 2 + b[4])
\* a cell that is cut has corners on both sides or ... at least: the demands never contradict
CellDemandsConsistent ==
    Full /\ Op = "c06lattice" =>
        \A c \in SmallCells : \A k \in 1..4 : CellCorners(c)[k] \in Pts /\ ~Parallel(CellCorners(c)[k], CellCorners(c)[(k % 4) + 1])

Emit ==
    IF Full
    THEN LET ps == ProbeSeq
             qs == QueryPairs
         IN  PrintT(<<"CASE", ToJson([op |-> Op, n |-> N, verts |-> L,
                                      pts |-> ps,
                                      want |-> [k \in 1..Len(ps) |-> InLoop(ps[k], L)],
                                      qs |-> qs,
                                      cross |-> [n \in 1..Len(qs) |-> CrossWith(qs[n], L)],
                                      cells |-> IF Op # "c06lattice" THEN <<>>
                                                ELSE [n \in 1..Len(CellSeq) |->
                                                        [c |-> CellSeq[n], cut |-> CellCut(CellSeq[n], L),
                                                         cin |-> CellCornerIs(CellSeq[n], L, "T"),
                                                         cout |-> CellCornerIs(CellSeq[n], L, "F")]]])>>)
    ELSE TRUE
=============================================================================
