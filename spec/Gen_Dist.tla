------------------------------ MODULE Gen_Dist ------------------------------
(* C02: distance predicates on the lattice: CompareDistances(x,a,b),        *)
(* CompareDistance(x,y,r) with r^2 (squared chord) = k/8, SignDotProd.      *)
EXTENDS Exact, Json

CONSTANT SubIdx
PtSeq == SetToSortSeq(Pts, LexLess)
Sub == {PtSeq[i] : i \in SubIdx \cap (1..Len(PtSeq))}

VARIABLE t
Init == t \in {<<a>> : a \in Sub}
Next == /\ Len(t) = 1
        /\ \/ t' \in {<<t[1], b, c>> : b \in Sub, c \in Sub}
           \/ t' \in {<<t[1], b>> : b \in Sub}

X == t[1]
A == t[2]
B == t[3]

\* symbolic tie-break of s2.symbolicCompareDistances: a < b lexicographically => AX > BX
Symbolic(a, b) == IF a = b THEN 0 ELSE IF LexLess(a, b) THEN 1 ELSE -1
CompareDistances(x, a, b) == IF CmpDist(x, a, b) # 0 THEN CmpDist(x, a, b) ELSE Symbolic(a, b)

\* CompareDistance(x,y,r): chord^2 = k/8, cos r = 1 - k/16 = (16-k)/16.
\* sign(dist(x,y) - r) = sign(cos r - cos xy); cos xy = p / sqrt(nx*ny).
CmpDist1(x, y, k) ==
    LET p == Dot(x, y) c == 16 - k
        sp == Sgn(p) sc == Sgn(c)
    IN  IF sp # sc THEN Sgn(sc - sp)
        ELSE IF sp = 0 THEN 0
        ELSE sp * Sgn(c*c*Norm2(x)*Norm2(y) - 256*p*p)

\* ---- model theorems --------------------------------------------------------
AntiSym == Len(t) = 3 => CompareDistances(X, A, B) = -CompareDistances(X, B, A)
NonZero == Len(t) = 3 /\ A # B => CompareDistances(X, A, B) # 0
SelfClosest == Len(t) = 3 /\ ~SameDir(X, B) /\ SameDir(X, A) => CmpDist(X, A, B) = -1
ChordEnds == Len(t) = 2 => /\ (CmpDist1(X, A, 0) = 0 <=> SameDir(X, A))
                           /\ (CmpDist1(X, A, 32) = 0 <=> Antipodal(X, A))
                           /\ \A k \in 0..31 : CmpDist1(X, A, k) >= CmpDist1(X, A, k + 1)

Emit ==
    IF Len(t) = 3
    THEN PrintT(<<"CASE", ToJson([op |-> "cmpdist", x |-> X, a |-> A, b |-> B,
                                  exact |-> CmpDist(X, A, B), want |-> CompareDistances(X, A, B)])>>)
    ELSE IF Len(t) = 2
    THEN PrintT(<<"CASE", ToJson([op |-> "cmpdist1", x |-> X, y |-> A,
                                  want |-> [k \in 0..32 |-> CmpDist1(X, A, k)],
                                  dot |-> Sgn(Dot(X, A))])>>)
    ELSE TRUE
=============================================================================
