---------------------------- MODULE Gen_EdgeDist ----------------------------
(***************************************************************************)
(* C17, world W1: distance from a lattice point x to the edge (a,b), and   *)
(* between two edges.  Everything is an exact integer fact:                *)
(*  - the closest point of the edge is INTERIOR iff x lies strictly inside *)
(*    the wedge of the two planes through a resp. b perpendicular to the   *)
(*    edge: x.((a x b) x a) > 0 and x.(b x (a x b)) > 0;                   *)
(*  - cosines of distances are signed square roots of rationals            *)
(*    <<sg, num, den>> = sg*sqrt(num/den), compared by cross-multiplying;  *)
(*  - the distance is zero iff x lies on the edge.                         *)
(* Magnitudes: products below 1296*N^12, so N <= 3.                        *)
(***************************************************************************)
EXTENDS Exact, Json

CONSTANT XIdx     \* indices of the query points x (partition of the work)
CONSTANT SubIdx   \* indices of edge endpoints
CONSTANT YIdx     \* indices of threshold points y (limit = distance x-y)
CONSTANT PairIdx  \* indices of the points used for edge pairs ({} = none)
ASSUME N <= 3
PtSeq == SetToSortSeq(Pts, LexLess)
SetOf(I) == {PtSeq[i] : i \in I \cap (1..Len(PtSeq))}
Sub == SetOf(SubIdx)
XSub == SetOf(XIdx)
YSeq == SetToSortSeq(SetOf(YIdx), LexLess)
PSub == SetOf(PairIdx)

NoCollapse(S) == \A p \in S, r \in S : p # r => ~SameDir(p, r)

\* ---- signed square roots of rationals ------------------------------------
CosPt(x, p) == LET d == Dot(x, p) IN <<Sgn(d), d * d, Norm2(x) * Norm2(p)>>
CmpSN(c1, c2) ==
    IF c1[1] # c2[1] THEN Sgn(c1[1] - c2[1])
    ELSE IF c1[1] = 0 THEN 0
    ELSE c1[1] * Sgn(c1[2] * c2[3] - c2[2] * c1[3])
MaxSN(c1, c2) == IF CmpSN(c1, c2) >= 0 THEN c1 ELSE c2
MinSN(c1, c2) == IF CmpSN(c1, c2) <= 0 THEN c1 ELSE c2
NegSN(c) == <<-c[1], c[2], c[3]>>
IsOne(c) == c[1] = 1 /\ c[2] = c[3]

\* ---- point to edge --------------------------------------------------------
TanA(a, b) == Cross(Cross(a, b), a)     \* tangent at a pointing to b
TanB(a, b) == Cross(b, Cross(a, b))     \* tangent at b pointing to a
SA(x, a, b) == Sgn(Dot(TanA(a, b), x))
SB(x, a, b) == Sgn(Dot(TanB(a, b), x))
Interior(x, a, b) == a # b /\ SA(x, a, b) > 0 /\ SB(x, a, b) > 0
\* the classification is stable under small perturbations of the points
ClassSure(x, a, b) == a = b \/ (SA(x, a, b) # 0 /\ SB(x, a, b) # 0)
CosInterior(x, a, b) ==
    LET n == Cross(a, b)
        den == Norm2(x) * Norm2(n)
        num == den - Dot(x, n) * Dot(x, n)
    IN  <<IF num > 0 THEN 1 ELSE 0, num, den>>
\* cosine of the minimum / maximum distance from x to the edge
MinCos(x, a, b) == IF Interior(x, a, b) THEN CosInterior(x, a, b) ELSE MaxSN(CosPt(x, a), CosPt(x, b))
MaxCos(x, a, b) == NegSN(MinCos(Neg(x), a, b))
\* the foot of the perpendicular, scaled: |n|^2 x - (x.n) n
Foot(x, a, b) ==
    LET n == Cross(a, b) k == Norm2(n) d == Dot(x, n)
    IN  <<k * x[1] - d * n[1], k * x[2] - d * n[2], k * x[3] - d * n[3]>>
OnEdge(x, a, b) ==
    IF a = b THEN SameDir(x, a)
    ELSE Det(a, b, x) = 0 /\ SA(x, a, b) >= 0 /\ SB(x, a, b) >= 0

\* ---- edge pairs -------------------------------------------------------------
PairMinCos(a0, a1, b0, b1) ==
    IF CrossingSign(a0, a1, b0, b1) = "CROSS" THEN <<1, 1, 1>>
    ELSE MaxSN(MaxSN(MinCos(a0, b0, b1), MinCos(a1, b0, b1)), MaxSN(MinCos(b0, a0, a1), MinCos(b1, a0, a1)))
PairMaxCos(a0, a1, b0, b1) ==
    IF CrossingSign(a0, a1, Neg(b0), Neg(b1)) = "CROSS" THEN <<-1, 1, 1>>
    ELSE MinSN(MinSN(MaxCos(a0, b0, b1), MaxCos(a1, b0, b1)), MinSN(MaxCos(b0, a0, a1), MaxCos(b1, a0, a1)))

VARIABLE t
Init == t \in {<<x>> : x \in XSub}
Next == /\ Len(t) = 1
        /\ \/ /\ t' \in {<<t[1], a, b>> : a \in Sub, b \in Sub}
              /\ ValidEdge(t'[2], t'[3]) /\ NoCollapse({t'[1], t'[2], t'[3]})
           \/ /\ t[1] \in PSub
              /\ t' \in {<<t[1], a1, b0, b1>> : a1 \in PSub, b0 \in PSub, b1 \in PSub}
              /\ ValidEdge(t'[1], t'[2]) /\ ValidEdge(t'[3], t'[4])
              /\ NoCollapse({t'[1], t'[2], t'[3], t'[4]})

IsPE == Len(t) = 3
X == t[1]
A == t[2]
B == t[3]

\* ---- model theorems --------------------------------------------------------
\* an interior foot is strictly closer than both endpoints
InteriorCloser == IsPE /\ Interior(X, A, B) =>
    CmpSN(CosInterior(X, A, B), CosPt(X, A)) > 0 /\ CmpSN(CosInterior(X, A, B), CosPt(X, B)) > 0
\* outside the wedge on the side of a (and inside on the side of b), a is at least as close as b
SideDecides == IsPE /\ A # B =>
    /\ (SA(X, A, B) <= 0 /\ SB(X, A, B) > 0 => CmpCos(X, A, B) >= 0)
    /\ (SB(X, A, B) <= 0 /\ SA(X, A, B) > 0 => CmpCos(X, A, B) <= 0)
ZeroIffOnEdge == IsPE => (IsOne(MinCos(X, A, B)) <=> OnEdge(X, A, B))
SymmetricAB == IsPE => CmpSN(MinCos(X, A, B), MinCos(X, B, A)) = 0
MinLeEndpoints == IsPE => /\ CmpSN(MinCos(X, A, B), CosPt(X, A)) >= 0
                          /\ CmpSN(MinCos(X, A, B), CosPt(X, B)) >= 0
                          /\ CmpSN(MaxCos(X, A, B), CosPt(X, A)) <= 0
                          /\ CmpSN(MaxCos(X, A, B), CosPt(X, B)) <= 0
\* no lattice point of the edge is closer (further) than the claimed minimum (maximum)
GlobalExtremum == IsPE => \A p \in Sub : OnEdge(p, A, B) =>
                            /\ CmpSN(MinCos(X, A, B), CosPt(X, p)) >= 0
                            /\ CmpSN(MaxCos(X, A, B), CosPt(X, p)) <= 0
\* the foot of an interior projection lies on the edge and realises the distance
FootOnEdge == IsPE /\ Interior(X, A, B) =>
    /\ OnEdge(Foot(X, A, B), A, B)
    /\ Dot(X, Foot(X, A, B)) > 0
PairSymmetric == Len(t) = 4 =>
    /\ CmpSN(PairMinCos(t[1], t[2], t[3], t[4]), PairMinCos(t[3], t[4], t[1], t[2])) = 0
    /\ CmpSN(PairMinCos(t[1], t[2], t[3], t[4]), PairMinCos(t[2], t[1], t[4], t[3])) = 0
    /\ CmpSN(PairMaxCos(t[1], t[2], t[3], t[4]), PairMaxCos(t[3], t[4], t[1], t[2])) = 0
    /\ CmpSN(PairMaxCos(t[1], t[2], t[3], t[4]), PairMinCos(t[1], t[2], t[3], t[4])) <= 0

Emit ==
    IF IsPE
    THEN PrintT(<<"CASE", ToJson([op |-> "edist", x |-> X, a |-> A, b |-> B,
                                  interior |-> Interior(X, A, B),
                                  sure |-> ClassSure(X, A, B),
                                  cmpab |-> CmpCos(X, A, B),
                                  onedge |-> OnEdge(X, A, B),
                                  pole |-> A # B /\ IsZero(Foot(X, A, B)),
                                  min |-> MinCos(X, A, B),
                                  max |-> MaxCos(X, A, B),
                                  foot |-> IF Interior(X, A, B) THEN Foot(X, A, B) ELSE <<0, 0, 0>>,
                                  ys |-> [i \in 1..Len(YSeq) |->
                                            [y |-> YSeq[i],
                                             lo |-> CmpSN(MinCos(X, A, B), CosPt(X, YSeq[i])),
                                             hi |-> CmpSN(MaxCos(X, A, B), CosPt(X, YSeq[i]))]]])>>)
    ELSE IF Len(t) = 4
    THEN PrintT(<<"CASE", ToJson([op |-> "epair", a0 |-> t[1], a1 |-> t[2], b0 |-> t[3], b1 |-> t[4],
                                  cs |-> CrossingSign(t[1], t[2], t[3], t[4]),
                                  pole |-> \/ (t[3] # t[4] /\ (IsZero(Foot(t[1], t[3], t[4])) \/ IsZero(Foot(t[2], t[3], t[4]))))
                                           \/ (t[1] # t[2] /\ (IsZero(Foot(t[3], t[1], t[2])) \/ IsZero(Foot(t[4], t[1], t[2])))),
                                  min |-> PairMinCos(t[1], t[2], t[3], t[4]),
                                  max |-> PairMaxCos(t[1], t[2], t[3], t[4])])>>)
    ELSE TRUE
=============================================================================
