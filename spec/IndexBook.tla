----------------------------- MODULE IndexBook ------------------------------
(***************************************************************************)
(* C13: the bookkeeping core of ShapeIndex over anonymous shape ids - the  *)
(* part of IndexLifecycle.tla (mode "index") that does not depend on which *)
(* shapes are held, written so that executions of ANY program using a     *)
(* ShapeIndex (the repository's own test suite, the replay harness) can be *)
(* validated against it (Trace_IndexBook.tla).                             *)
(*                                                                         *)
(*   next   number of ids handed out                 (ShapeIndex.nextID)   *)
(*   pend   ids below pend have been through an update (pendingAdditionsPos)*)
(*   live   ids held whose shape has an edge or an interior over the       *)
(*          tracker origin (they must show up in the cell map)             *)
(*   hid    ids held whose shape has neither (never in the cell map)       *)
(*   idx    ids that occur in the cell map                                 *)
(*   rem    removals queued for the next update       (pendingRemovals)    *)
(*   fresh  the status word                                                *)
(*   applying  between the two observation points of one update            *)
(***************************************************************************)
EXTENDS Integers, FiniteSets

CONSTANT MaxID

VARIABLES next, pend, live, hid, idx, rem, fresh, applying
bvars == <<next, pend, live, hid, idx, rem, fresh, applying>>

\* NewShapeIndex() starts fresh; the zero value of the struct (also usable) starts stale
BInit ==
    /\ next = 0 /\ pend = 0 /\ live = {} /\ hid = {} /\ idx = {} /\ rem = 0
    /\ fresh \in BOOLEAN /\ applying = FALSE

Add(visible) ==
    /\ ~applying /\ next < MaxID
    /\ next' = next + 1 /\ fresh' = FALSE
    /\ live' = IF visible THEN live \cup {next} ELSE live
    /\ hid' = IF visible THEN hid ELSE hid \cup {next}
    /\ UNCHANGED <<pend, idx, rem, applying>>

\* an id at or above pend is simply forgotten; one below pend is queued and makes the index stale
Remove(i) ==
    /\ ~applying /\ i \in live \cup hid
    /\ live' = live \ {i} /\ hid' = hid \ {i}
    /\ rem' = IF i < pend THEN rem + 1 ELSE rem
    /\ fresh' = IF i < pend THEN FALSE ELSE fresh
    /\ UNCHANGED <<next, pend, idx, applying>>

Reset ==
    /\ ~applying
    /\ next' = 0 /\ pend' = 0 /\ live' = {} /\ hid' = {} /\ idx' = {} /\ rem' = 0 /\ fresh' = TRUE
    /\ UNCHANGED applying

\* maybeApplyUpdates found the index stale and took the mutex
ApplyBegin ==
    /\ ~applying /\ applying' = TRUE
    /\ UNCHANGED <<next, pend, live, hid, idx, rem, fresh>>

\* applyUpdatesInternal and the store of the status
ApplyEnd ==
    /\ applying /\ applying' = FALSE
    /\ pend' = next /\ idx' = live /\ rem' = 0 /\ fresh' = TRUE
    /\ UNCHANGED <<next, live, hid>>

BNext ==
    \/ \E v \in BOOLEAN : Add(v)
    \/ \E i \in 0..(MaxID - 1) : Remove(i)
    \/ Reset \/ ApplyBegin \/ ApplyEnd

BSpec == BInit /\ [][BNext]_bvars

\* ---- invariants ------------------------------------------------------------
BTypeOK ==
    /\ next \in 0..MaxID /\ pend \in 0..next
    /\ live \subseteq 0..(next - 1) /\ hid \subseteq 0..(next - 1) /\ live \cap hid = {}
    /\ idx \subseteq 0..(pend - 1) /\ rem \in Nat
FreshMeansComplete == fresh => (pend = next /\ idx = live /\ rem = 0)
\* whatever has been through an update and is still held is in the cell map
UpdatedAndHeldIsIndexed == \A i \in live : i < pend => i \in idx
\* an id that lingers in the cell map although it is no longer held is a queued removal
LingeringIsQueued == Cardinality(idx \ live) <= rem
=============================================================================
