--------------------------- MODULE Gen_CellGeom ---------------------------
(***************************************************************************)
(* C12 generator: one state per model cell / segment / pair; the expected  *)
(* combinatorial facts of CellGeom.tla are emitted for replay against      *)
(* s2.Cell and s2.PaddedCell.  The root is a face of the given parity or   *)
(* an anchor cell (the driver embeds the same cases under every face of    *)
(* that parity: the tables depend on the face only through face % 2).      *)
(***************************************************************************)
EXTENDS CellGeom, Json, SequencesExt

CONSTANTS SegEvery, SegOff,        \* segments (dir, line, a, b) with number % SegEvery = SegOff
          PairEvery, PairOff       \* probe pairs for ShrinkToFit

VARIABLE t
Kind == t[1]

Init ==
    \/ t = <<"root">>
    \/ t \in {<<"cell", l>> : l \in 0..L}
    \/ t \in {<<"seg", dir>> : dir \in 0..1}
    \/ t \in {<<"pair", l>> : l \in 0..L}
SegNo(line, a, b) == (line * VN + a) * VN + b
Next ==
    \/ Kind = "cell" /\ Len(t) = 2 /\ t' \in {<<"cell", t[2], k>> : k \in 0..(P4(t[2]) - 1)}
    \/ Kind = "seg" /\ Len(t) = 2 /\
         t' \in {<<"seg", t[2], line, a, b>> :
                    line \in 0..(VN - 1), a \in 0..(VN - 1), b \in 0..(VN - 1)}
         /\ t'[4] < t'[5] /\ SegNo(t'[3], t'[4], t'[5]) % SegEvery = SegOff
    \/ Kind = "pair" /\ Len(t) = 2 /\
         LET w == P4(Lp - t[2])
             step == IF w > 8 THEN w \div 8 ELSE 1
             pick == {x \in 0..(w - 1) : x % step = PairOff % step}
         IN  t' \in {<<"pair", t[2], k, x, y>> : k \in {z \in 0..(P4(t[2]) - 1) : z % PairEvery = 0},
                                                 x \in pick, y \in pick}
         /\ t'[4] <= t'[5]

IsCell == Kind = "cell" /\ Len(t) = 3
C == <<t[2], t[3]>>

\* ---- model theorems ----------------------------------------------------------------
T_Prefix == IsCell => PrefixIsSquare(C)
T_Children == IsCell => ChildrenTile(C)
T_Curve == IsCell => CurveShape(C)
T_Touch == IsCell =>
    /\ \A d \in Cells : Prefix(C, d) \/ Prefix(d, C) => CellsTouch(C, d)
    /\ \A d \in Cells : CellsTouch(C, d) <=> (TouchSet(C) \cap TouchSet(d) # {})
    /\ Cardinality(TouchSet(C)) = (P2(Lp - C[1]) + 1) * (P2(Lp - C[1]) + 1)
T_Seg ==
    (Kind = "seg" /\ Len(t) = 5) =>
        LET row == {q \in Probes : IF t[2] = 0 THEN J(q) = t[3] /\ I(q) \in t[4]..t[5]
                                                ELSE I(q) = t[3] /\ J(q) \in t[4]..t[5]}
        IN  \A c \in Cells :
                /\ SegCrosses(c, t[2], t[3], t[4], t[5]) <=> \E q \in row : Prefix(c, q)
                /\ SegCrosses(c, t[2], t[3], t[4], t[5]) => GrazeTouches(c, t[2], t[3], t[4], t[5])

\* ---- emission -----------------------------------------------------------------------
CellLess(a, b) == a[1] < b[1] \/ (a[1] = b[1] /\ a[2] < b[2])
EmitRoot ==
    PrintT(<<"ROOT", ToJson([l |-> L, lp |-> Lp, face |-> AnchorFace, alevel |-> AnchorLevel, apath |-> AnchorPath,
                             aijo |-> AnchorIJO,
                             probes |-> [k \in 1..P4(Lp) |-> <<I(<<Lp, k - 1>>), J(<<Lp, k - 1>>)>>]])>>)
EmitCell ==
    PrintT(<<"CASE", ToJson([op |-> "cell", l |-> C[1], k |-> C[2], i |-> I(C), j |-> J(C), o |-> Ori(C),
                             edges |-> [e \in 1..4 |-> EdgeIJ(C, e - 1)],
                             quad |-> [p \in 1..4 |-> ChildQuadrant(C, p - 1)],
                             entry |-> Entry(C), exit |-> Exit(C), border |-> OnBorder(C),
                             touch |-> SetToSortSeq(TouchSet(C), <),
                             touchcells |-> SetToSortSeq({d \in Cells : CellsTouch(C, d)}, CellLess)])>>)
EmitSeg ==
    PrintT(<<"CASE", ToJson([op |-> "seg", dir |-> t[2], line |-> t[3], a |-> t[4], b |-> t[5],
                             cross |-> SetToSortSeq({c \in Cells : SegCrosses(c, t[2], t[3], t[4], t[5])}, CellLess),
                             graze |-> SetToSortSeq({c \in Cells : GrazeTouches(c, t[2], t[3], t[4], t[5])}, CellLess)])>>)
EmitPair ==
    LET c == <<t[2], t[3]>>
        w == P4(Lp - t[2])
        d1 == <<Lp, t[3] * w + t[4]>>
        d2 == <<Lp, t[3] * w + t[5]>>
    IN  PrintT(<<"CASE", ToJson([op |-> "shrink", l |-> c[1], k |-> c[2], d1 |-> d1[2], d2 |-> d2[2],
                                 lca |-> LCA(d1, d2),
                                 \* the uv rectangle spanned by the two probe cells, in level-Lp squares
                                 ilo |-> IF I(d1) < I(d2) THEN I(d1) ELSE I(d2),
                                 ihi |-> IF I(d1) > I(d2) THEN I(d1) ELSE I(d2),
                                 jlo |-> IF J(d1) < J(d2) THEN J(d1) ELSE J(d2),
                                 jhi |-> IF J(d1) > J(d2) THEN J(d1) ELSE J(d2)])>>)
Emit ==
    IF Kind = "root" THEN EmitRoot
    ELSE IF IsCell THEN EmitCell
    ELSE IF Kind = "seg" /\ Len(t) = 5 THEN EmitSeg
    ELSE IF Kind = "pair" /\ Len(t) = 5 THEN EmitPair
    ELSE TRUE
=============================================================================
