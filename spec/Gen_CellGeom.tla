--------------------------- MODULE Gen_CellGeom ---------------------------
(***************************************************************************)
(* C12 generator: one state per model cell / segment / pair; the expected  *)
(* combinatorial facts of CellGeom.tla are emitted for replay against      *)
(* s2.Cell and s2.PaddedCell.  The root is a face of the given parity or   *)
(* an anchor cell (the driver embeds the same cases under every face of    *)
(* that parity: the tables depend on the face only through face % 2).      *)
(***************************************************************************)
EXTENDS CellGeom, Json, SequencesExt

CONSTANTS SegEvery, SegOff,        \* segments (dir, line, a, b) with number % SegEvery = SegOff
          PairEvery, PairOff,      \* probe pairs for ShrinkToFit
          UlpN, UlpSeed            \* boundary-ulp class: cases per face and level (0 = off), seed

VARIABLE t
Kind == t[1]

Init ==
    \/ t = <<"root">>
    \/ t \in {<<"cell", l>> : l \in 0..L}
    \/ t \in {<<"seg", dir>> : dir \in 0..1}
    \/ t \in {<<"pair", l>> : l \in 0..L}
    \/ t \in {<<"ulp", f>> : f \in IF UlpN > 0 THEN 0..5 ELSE {}}
SegNo(line, a, b) == (line * VN + a) * VN + b
Next ==
    \/ Kind = "cell" /\ Len(t) = 2 /\ t' \in {<<"cell", t[2], k>> : k \in 0..(P4(t[2]) - 1)}
    \/ Kind = "seg" /\ Len(t) = 2 /\
         t' \in {<<"seg", t[2], line, a, b>> :
                    line \in 0..(VN - 1), a \in 0..(VN - 1), b \in 0..(VN - 1)}
         /\ t'[4] < t'[5] /\ SegNo(t'[3], t'[4], t'[5]) % SegEvery = SegOff
    \/ Kind = "pair" /\ Len(t) = 2 /\
         LET w == P4(Lp - t[2])
             step == IF w > 8 THEN w \div 8 ELSE 1
             pick == {x \in 0..(w - 1) : x % step = PairOff % step}
         IN  t' \in {<<"pair", t[2], k, x, y>> : k \in {z \in 0..(P4(t[2]) - 1) : z % PairEvery = 0},
                                                 x \in pick, y \in pick}
         /\ t'[4] <= t'[5]
    \* boundary-ulp class: face, level of the boundary, which boundary (a hashed k in 0..2^level) -
    \* levels 29 and 30, whose boundary coordinates are not exactly representable, get most cases
    \/ Kind = "ulp" /\ Len(t) = 2 /\
         t' \in {<<"ulp", t[2], lvl, x>> : lvl \in 1..30, x \in 1..UlpN}
         /\ (t'[3] >= 29 \/ t'[4] <= (UlpN + 7) \div 8)

IsCell == Kind = "cell" /\ Len(t) = 3
C == <<t[2], t[3]>>

\* ---- model theorems ----------------------------------------------------------------
T_Prefix == IsCell => PrefixIsSquare(C)
T_Children == IsCell => ChildrenTile(C)
T_Curve == IsCell => CurveShape(C)
T_Touch == IsCell =>
    /\ \A d \in Cells : Prefix(C, d) \/ Prefix(d, C) => CellsTouch(C, d)
    /\ \A d \in Cells : CellsTouch(C, d) <=> (TouchSet(C) \cap TouchSet(d) # {})
    /\ Cardinality(TouchSet(C)) = (P2(Lp - C[1]) + 1) * (P2(Lp - C[1]) + 1)
T_Seg ==
    (Kind = "seg" /\ Len(t) = 5) =>
        LET row == {q \in Probes : IF t[2] = 0 THEN J(q) = t[3] /\ I(q) \in t[4]..t[5]
                                                ELSE I(q) = t[3] /\ J(q) \in t[4]..t[5]}
        IN  \A c \in Cells :
                /\ SegCrosses(c, t[2], t[3], t[4], t[5]) <=> \E q \in row : Prefix(c, q)
                /\ SegCrosses(c, t[2], t[3], t[4], t[5]) => GrazeTouches(c, t[2], t[3], t[4], t[5])

\* ---- emission -----------------------------------------------------------------------
CellLess(a, b) == a[1] < b[1] \/ (a[1] = b[1] /\ a[2] < b[2])
EmitRoot ==
    PrintT(<<"ROOT", ToJson([l |-> L, lp |-> Lp, face |-> AnchorFace, alevel |-> AnchorLevel, apath |-> AnchorPath,
                             aijo |-> AnchorIJO,
                             probes |-> [k \in 1..P4(Lp) |-> <<I(<<Lp, k - 1>>), J(<<Lp, k - 1>>)>>]])>>)
EmitCell ==
    PrintT(<<"CASE", ToJson([op |-> "cell", l |-> C[1], k |-> C[2], i |-> I(C), j |-> J(C), o |-> Ori(C),
                             edges |-> [e \in 1..4 |-> EdgeIJ(C, e - 1)],
                             quad |-> [p \in 1..4 |-> ChildQuadrant(C, p - 1)],
                             entry |-> Entry(C), exit |-> Exit(C), border |-> OnBorder(C),
                             touch |-> SetToSortSeq(TouchSet(C), <),
                             touchcells |-> SetToSortSeq({d \in Cells : CellsTouch(C, d)}, CellLess)])>>)
EmitSeg ==
    PrintT(<<"CASE", ToJson([op |-> "seg", dir |-> t[2], line |-> t[3], a |-> t[4], b |-> t[5],
                             cross |-> SetToSortSeq({c \in Cells : SegCrosses(c, t[2], t[3], t[4], t[5])}, CellLess),
                             graze |-> SetToSortSeq({c \in Cells : GrazeTouches(c, t[2], t[3], t[4], t[5])}, CellLess)])>>)
EmitPair ==
    LET c == <<t[2], t[3]>>
        w == P4(Lp - t[2])
        d1 == <<Lp, t[3] * w + t[4]>>
        d2 == <<Lp, t[3] * w + t[5]>>
    IN  PrintT(<<"CASE", ToJson([op |-> "shrink", l |-> c[1], k |-> c[2], d1 |-> d1[2], d2 |-> d2[2],
                                 lca |-> LCA(d1, d2),
                                 \* the uv rectangle spanned by the two probe cells, in level-Lp squares
                                 ilo |-> IF I(d1) < I(d2) THEN I(d1) ELSE I(d2),
                                 ihi |-> IF I(d1) > I(d2) THEN I(d1) ELSE I(d2),
                                 jlo |-> IF J(d1) < J(d2) THEN J(d1) ELSE J(d2),
                                 jhi |-> IF J(d1) > J(d2) THEN J(d1) ELSE J(d2)])>>)
\* ---- boundary-ulp class -----------------------------------------------------------
\* Points are placed (by the harness) on the cell boundary st = k / 2^level of a face and a few
\* ulps beside it.  Whatever leaf cell the library assigns to such a point p, the point must be
\* contained in that leaf and, by the prefix relation of the model, in each of its 30 ancestors
\* ("a cell contains every point whose leaf cell lies within its id range"; cells are closed, and
\* Cell.ContainsPoint documents that CellFromPoint(p).ContainsPoint(p) is always true).
Hash(a) == (a * 1103 + 12347) % 65537
UlpCase ==
    LET h1 == Hash(Hash(t[2] * 7919 + t[3] * 31 + t[4] * 977 + UlpSeed))
        h2 == Hash(h1 + 1)
        h3 == Hash(h2 + 2)
        h4 == Hash(h3 + 3)
    IN  [op |-> "c12ulp", face |-> t[2], level |-> t[3],
         \* every 5th case sits on the face boundary or next to it
         k |-> IF t[4] % 5 = 0 THEN (IF h1 % 4 = 0 THEN 0 ELSE IF h1 % 4 = 1 THEN P2(t[3])
                                     ELSE IF h1 % 4 = 2 THEN 1 ELSE P2(t[3]) - 1)
               ELSE ((h1 % 16384) * 65536 + h2) % (P2(t[3]) + 1),
         \* the harness sweeps count consecutive boundaries k, k+1, ... (whether a boundary is affected
         \* by rounding is a property of the boundary: many boundaries matter more than many nudges)
         count |-> IF t[3] >= 29 THEN 64 ELSE 4,
         k2 |-> ((h3 % 16384) * 65536 + h4) % P2(30),
         axis |-> h4 % 2, other |-> h3 % 3,
         contained |-> [l \in 1..31 |-> TRUE]]          \* the leaf (level 30) and its ancestors 0..29
EmitUlp == PrintT(<<"CASE", ToJson(UlpCase)>>)

Emit ==
    IF Kind = "root" THEN EmitRoot
    ELSE IF Kind = "ulp" /\ Len(t) = 4 THEN EmitUlp
    ELSE IF IsCell THEN EmitCell
    ELSE IF Kind = "seg" /\ Len(t) = 5 THEN EmitSeg
    ELSE IF Kind = "pair" /\ Len(t) = 5 THEN EmitPair
    ELSE TRUE
=============================================================================
