------------------------------ MODULE Gen_Cross -----------------------------
(* C03: stateless crossing predicates on every quadruple of the sub-lattice. *)
EXTENDS Exact, Json

CONSTANT AIdx     \* indices of first points (partition of the work)
CONSTANT SubIdx   \* indices of the other points
PtSeq == SetToSortSeq(Pts, LexLess)
Sub == {PtSeq[i] : i \in SubIdx \cap (1..Len(PtSeq))}
ASub == {PtSeq[i] : i \in AIdx \cap (1..Len(PtSeq))}

VARIABLE q
Init == q \in {<<a>> : a \in ASub}
Next == /\ Len(q) = 1
        /\ q' \in {<<q[1], b, c, d>> : b \in Sub, c \in Sub, d \in Sub}

Full == Len(q) = 4
A == q[1]
B == q[2]
C == q[3]
D == q[4]

Shared == Cardinality({A, B} \cap {C, D})

\* ---- model theorems ---------------------------------------------------------
SymReverse == Full => CrossingSign(A, B, C, D) = CrossingSign(B, A, C, D)
                      /\ CrossingSign(A, B, C, D) = CrossingSign(A, B, D, C)
SymSwap == Full => CrossingSign(A, B, C, D) = CrossingSign(C, D, A, B)
MaybeIffShared == Full => ((CrossingSign(A, B, C, D) = "MAYBE") <=> (A = C \/ A = D \/ B = C \/ B = D))
\* exactly one of two edges meeting at one vertex counts as crossing (when both are predicted)
ExactlyOne ==
    Full /\ A # B /\ C # D /\ Shared = 1 =>
        LET v1 == VertexCrossing(A, B, C, D) v2 == VertexCrossing(C, D, A, B)
        IN  (v1 # "U" /\ v2 # "U") => (v1 # v2)
VCSym == Full => /\ VertexCrossing(A, B, C, D) = VertexCrossing(A, B, D, C)
                 /\ VertexCrossing(A, B, C, D) = VertexCrossing(B, A, C, D)
VCBasics == Full => /\ (A = B \/ C = D => VertexCrossing(A, B, C, D) = "F")
                    /\ (A # B /\ {A, B} = {C, D} => VertexCrossing(A, B, C, D) = "T")

Emit ==
    IF Full
    THEN PrintT(<<"CASE", ToJson([op |-> "cross4", a |-> A, b |-> B, c |-> C, d |-> D,
                                  want |-> CrossingSign(A, B, C, D),
                                  robust |-> CrossingRobust(A, B, C, D),
                                  valid |-> ValidEdge(A, B) /\ ValidEdge(C, D),
                                  vcr |-> VertexCrossingRobust(A, B, C, D),
                                  vc |-> IF Shared > 0 \/ A = B \/ C = D THEN VertexCrossing(A, B, C, D) ELSE "-",
                                  eovc |-> EdgeOrVertexCrossing(A, B, C, D)])>>)
    ELSE TRUE
=============================================================================
